/-
Helper lemmas for C01 (type soundness of the core fragment): assignability, value typing,
the signature table of the strict natives.
-/
import XrayModel.CoreTyping
namespace XrayModel.CoreTyping
open XrayModel.Core

/-! ### inversion of value typing -/

theorem HasTy.int_inv {v : Val} (h : HasTy v .int) : (∃ n, v = .int n) ∨ (∃ m, v = .err m) := by
  cases h <;> simp
theorem HasTy.bool_inv {v : Val} (h : HasTy v .bool) : (∃ b, v = .bool b) ∨ (∃ m, v = .err m) := by
  cases h <;> simp
theorem HasTy.str_inv {v : Val} (h : HasTy v .str) : (∃ s, v = .str s) ∨ (∃ m, v = .err m) := by
  cases h <;> simp
theorem HasTy.unk_inv {v : Val} (h : HasTy v .unk) : ∃ m, v = .err m := by
  cases h; exact ⟨_, rfl⟩
theorem HasTy.tup_inv {v : Val} {ts : List Ty} (h : HasTy v (.tup ts)) :
    (∃ vs, v = .tup vs ∧ HasTys vs ts) ∨ (∃ m, v = .err m) := by
  cases h
  · exact .inr ⟨_, rfl⟩
  · exact .inl ⟨_, rfl, by assumption⟩
theorem HasTy.arr_inv {v : Val} {t : Ty} (h : HasTy v (.arr t)) :
    (∃ vs, v = .arr vs ∧ AllTy vs t) ∨ (∃ m, v = .err m) := by
  cases h
  · exact .inr ⟨_, rfl⟩
  · exact .inl ⟨_, rfl, by assumption⟩

/-! ### structural equality and assignability -/

mutual
  theorem Ty.beq_eq : ∀ (a b : Ty), Ty.beq a b = true → a = b
    | .int, b, h => by cases b <;> simp_all [Ty.beq]
    | .bool, b, h => by cases b <;> simp_all [Ty.beq]
    | .str, b, h => by cases b <;> simp_all [Ty.beq]
    | .unk, b, h => by cases b <;> simp_all [Ty.beq]
    | .tup as, b, h => by
        cases b <;> simp_all [Ty.beq]
        exact Ty.beqList_eq _ _ h
    | .arr a, b, h => by
        cases b <;> simp_all [Ty.beq]
        exact Ty.beq_eq _ _ h
    | .fn r o t, b, h => by
        cases b <;> simp_all [Ty.beq]
        exact ⟨Ty.beqList_eq _ _ h.1.1, Ty.beqList_eq _ _ h.1.2, Ty.beq_eq _ _ h.2⟩
  theorem Ty.beqList_eq : ∀ (as bs : List Ty), Ty.beqList as bs = true → as = bs
    | [], bs, h => by cases bs <;> simp_all [Ty.beqList]
    | a :: as, bs, h => by
        cases bs <;> simp_all [Ty.beqList]
        exact ⟨Ty.beq_eq _ _ h.1, Ty.beqList_eq _ _ h.2⟩
end

/-- value typing is monotone in the type along assignability -/
theorem HasTy.mono : ∀ (a b : Ty) {v : Val}, sub a b = true → HasTy v a → HasTy v b := by
  intro a
  -- structural induction on the source type, with the list version alongside
  refine Ty.rec (motive_1 := fun a => ∀ (b : Ty) {v : Val}, sub a b = true → HasTy v a → HasTy v b)
    (motive_2 := fun as => ∀ (bs : List Ty) {vs : List Val}, subList as bs = true → HasTys vs as → HasTys vs bs)
    ?_ ?_ ?_ ?_ ?_ ?_ ?_ ?_ ?_ a
  · intro b v h hv; cases b <;> simp_all [sub]
  · intro b v h hv; cases b <;> simp_all [sub]
  · intro b v h hv; cases b <;> simp_all [sub]
  · intro b v _ hv; obtain ⟨m, rfl⟩ := hv.unk_inv; exact .err _ _
  · intro ts ih b v h hv
    cases b <;> simp [sub] at h
    rcases hv.tup_inv with ⟨vs, rfl, hvs⟩ | ⟨m, rfl⟩
    · exact .tup (ih _ h hvs)
    · exact .err _ _
  · intro t ih b v h hv
    cases b <;> simp [sub] at h
    rename_i t'
    rcases hv.arr_inv with ⟨vs, rfl, hvs⟩ | ⟨m, rfl⟩
    · refine .arr ?_
      clear hv
      induction vs with
      | nil => exact .nil
      | cons x xs ihx => cases hvs with | cons h1 h2 => exact .cons (ih _ h h1) (ihx h2)
    · exact .err _ _
  · intro r o t _ _ _ b v h hv
    cases b <;> simp [sub] at h
    obtain ⟨⟨h1, h2⟩, h3⟩ := h
    have e1 := Ty.beqList_eq _ _ h1
    have e2 := Ty.beqList_eq _ _ h2
    have e3 := Ty.beq_eq _ _ h3
    subst e1 e2 e3
    exact hv
  · intro bs vs h hvs
    cases bs <;> simp [subList] at h
    exact hvs
  · intro a as iha ihas bs vs h hvs
    cases bs <;> simp [subList] at h
    cases hvs with
    | cons h1 h2 => exact .cons (iha _ h.1 h1) (ihas _ h.2 h2)

/-! ### the strict natives -/

theorem sub_int {a : Ty} {v : Val} (h : sub a .int = true) (hv : HasTy v a) (he : v.isErr = false) : ∃ n, v = .int n := by
  rcases (HasTy.mono _ _ h hv).int_inv with h | ⟨m, rfl⟩
  · exact h
  · simp [Val.isErr] at he
theorem sub_bool {a : Ty} {v : Val} (h : sub a .bool = true) (hv : HasTy v a) (he : v.isErr = false) : ∃ n, v = .bool n := by
  rcases (HasTy.mono _ _ h hv).bool_inv with h | ⟨m, rfl⟩
  · exact h
  · simp [Val.isErr] at he
theorem sub_str {a : Ty} {v : Val} (h : sub a .str = true) (hv : HasTy v a) (he : v.isErr = false) : ∃ n, v = .str n := by
  rcases (HasTy.mono _ _ h hv).str_inv with h | ⟨m, rfl⟩
  · exact h
  · simp [Val.isErr] at he

theorem firstErr_cons {v : Val} {vs : List Val} (h : firstErr (v :: vs) = none) : v.isErr = false ∧ firstErr vs = none := by
  simp only [firstErr] at h
  split at h <;> simp_all

theorem printable_toStr {a : Ty} {v : Val} (h : printable a = true) (hv : HasTy v a) (he : v.isErr = false) : ∃ s, toStr v = some s := by
  cases a <;> simp [printable] at h
  · obtain ⟨n, rfl⟩ := sub_int (a := .int) (by simp [sub]) hv he; simp [toStr]
  · obtain ⟨n, rfl⟩ := sub_bool (a := .bool) (by simp [sub]) hv he; simp [toStr]
  · obtain ⟨n, rfl⟩ := sub_str (a := .str) (by simp [sub]) hv he; simp [toStr]
  · obtain ⟨m, rfl⟩ := hv.unk_inv; simp [Val.isErr] at he

theorem hasTys2 {vs : List Val} {a b : Ty} (h : HasTys vs [a, b]) : ∃ v1 v2, vs = [v1, v2] ∧ HasTy v1 a ∧ HasTy v2 b := by
  cases h with | cons h1 hr => cases hr with | cons h2 hr2 => cases hr2; exact ⟨_, _, rfl, h1, h2⟩
theorem hasTys1 {vs : List Val} {a : Ty} (h : HasTys vs [a]) : ∃ v1, vs = [v1] ∧ HasTy v1 a := by
  cases h with | cons h1 hr => cases hr; exact ⟨_, rfl, h1⟩

theorem int2 {vs : List Val} {a b : Ty} (hc : (sub a .int && sub b .int) = true) (hvs : HasTys vs [a, b])
    (he : firstErr vs = none) : ∃ n1 n2, vs = [.int n1, .int n2] := by
  obtain ⟨v1, v2, rfl, h1, h2⟩ := hasTys2 hvs
  obtain ⟨e1, he'⟩ := firstErr_cons he
  obtain ⟨e2, _⟩ := firstErr_cons he'
  simp only [Bool.and_eq_true] at hc
  obtain ⟨n1, rfl⟩ := sub_int hc.1 h1 e1
  obtain ⟨n2, rfl⟩ := sub_int hc.2 h2 e2
  exact ⟨_, _, rfl⟩
theorem str2 {vs : List Val} {a b : Ty} (hc : (sub a .str && sub b .str) = true) (hvs : HasTys vs [a, b])
    (he : firstErr vs = none) : ∃ n1 n2, vs = [.str n1, .str n2] := by
  obtain ⟨v1, v2, rfl, h1, h2⟩ := hasTys2 hvs
  obtain ⟨e1, he'⟩ := firstErr_cons he
  obtain ⟨e2, _⟩ := firstErr_cons he'
  simp only [Bool.and_eq_true] at hc
  obtain ⟨n1, rfl⟩ := sub_str hc.1 h1 e1
  obtain ⟨n2, rfl⟩ := sub_str hc.2 h2 e2
  exact ⟨_, _, rfl⟩
theorem bool2 {vs : List Val} {a b : Ty} (hc : (sub a .bool && sub b .bool) = true) (hvs : HasTys vs [a, b])
    (he : firstErr vs = none) : ∃ n1 n2, vs = [.bool n1, .bool n2] := by
  obtain ⟨v1, v2, rfl, h1, h2⟩ := hasTys2 hvs
  obtain ⟨e1, he'⟩ := firstErr_cons he
  obtain ⟨e2, _⟩ := firstErr_cons he'
  simp only [Bool.and_eq_true] at hc
  obtain ⟨n1, rfl⟩ := sub_bool hc.1 h1 e1
  obtain ⟨n2, rfl⟩ := sub_bool hc.2 h2 e2
  exact ⟨_, _, rfl⟩

/-- the signature table of the strict natives is sound: on error-free arguments of the argument
types a native yields a value (or error value) of the result type; it never gets stuck -/
theorem prim_sound {f : String} {ats : List Ty} {vs : List Val} {τ : Ty}
    (h : primTy f ats = some τ) (hvs : HasTys vs ats) (he : firstErr vs = none) :
    ∃ v, prim f vs = .val v ∧ HasTy v τ := by
  unfold primTy at h
  split at h
  · -- add
    split at h
    · rename_i hc
      obtain ⟨n1, n2, rfl⟩ := int2 hc hvs he
      simp only [Option.some.injEq] at h
      subst h
      exact ⟨.int (n1 + n2), by simp [prim], .int _⟩
    · split at h <;> try (simp at h; done)
      rename_i hc
      obtain ⟨n1, n2, rfl⟩ := str2 hc hvs he
      simp only [Option.some.injEq] at h
      subst h
      exact ⟨.str (n1 ++ n2), by simp [prim], .str _⟩
  · split at h <;> try (simp at h; done)
    rename_i hc
    obtain ⟨n1, n2, rfl⟩ := int2 hc hvs he
    simp only [Option.some.injEq] at h
    subst h
    exact ⟨.int (n1 - n2), by simp [prim], .int _⟩
  · split at h <;> try (simp at h; done)
    rename_i hc
    obtain ⟨n1, n2, rfl⟩ := int2 hc hvs he
    simp only [Option.some.injEq] at h
    subst h
    exact ⟨.int (n1 * n2), by simp [prim], .int _⟩
  · split at h <;> try (simp at h; done)
    rename_i hc
    obtain ⟨n1, n2, rfl⟩ := int2 hc hvs he
    simp only [Option.some.injEq] at h
    subst h
    by_cases hz : n2 = 0
    · exact ⟨.err _, by simp [prim, hz]; rfl, .err _ _⟩
    · exact ⟨.int _, by simp [prim, hz]; rfl, .int _⟩
  · split at h <;> try (simp at h; done)
    rename_i hc
    obtain ⟨n1, n2, rfl⟩ := int2 hc hvs he
    simp only [Option.some.injEq] at h
    subst h
    by_cases hz : n2 = 0
    · exact ⟨.err _, by simp [prim, hz]; rfl, .err _ _⟩
    · exact ⟨.int _, by simp [prim, hz]; rfl, .int _⟩
  · -- neg
    obtain ⟨v1, rfl, h1⟩ := hasTys1 hvs
    obtain ⟨e1, _⟩ := firstErr_cons he
    split at h <;> try (simp at h; done)
    rename_i hc
    obtain ⟨n1, rfl⟩ := sub_int hc h1 e1
    simp only [Option.some.injEq] at h
    subst h
    exact ⟨.int (-n1), by simp [prim], .int _⟩
  · split at h <;> try (simp at h; done)
    rename_i hc
    obtain ⟨n1, n2, rfl⟩ := int2 hc hvs he
    simp only [Option.some.injEq] at h
    subst h
    exact ⟨.bool (decide (n1 < n2)), by simp [prim], .bool _⟩
  · split at h <;> try (simp at h; done)
    rename_i hc
    obtain ⟨n1, n2, rfl⟩ := int2 hc hvs he
    simp only [Option.some.injEq] at h
    subst h
    exact ⟨.bool (decide (n1 ≤ n2)), by simp [prim], .bool _⟩
  · split at h <;> try (simp at h; done)
    rename_i hc
    obtain ⟨n1, n2, rfl⟩ := int2 hc hvs he
    simp only [Option.some.injEq] at h
    subst h
    exact ⟨.bool (decide (n1 > n2)), by simp [prim], .bool _⟩
  · split at h <;> try (simp at h; done)
    rename_i hc
    obtain ⟨n1, n2, rfl⟩ := int2 hc hvs he
    simp only [Option.some.injEq] at h
    subst h
    exact ⟨.bool (decide (n1 ≥ n2)), by simp [prim], .bool _⟩
  · split at h <;> try (simp at h; done)
    rename_i hc
    obtain ⟨n1, n2, rfl⟩ := int2 hc hvs he
    simp only [Option.some.injEq] at h
    subst h
    exact ⟨.bool (decide (n1 ≠ n2)), by simp [prim], .bool _⟩
  · -- eq
    split at h <;> try (simp at h; done)
    rename_i hc
    simp only [Option.some.injEq] at h
    subst h
    simp only [Bool.or_eq_true] at hc
    rcases hc with (hc | hc) | hc
    · obtain ⟨n1, n2, rfl⟩ := int2 hc hvs he
      exact ⟨.bool (decide (n1 = n2)), by simp [prim], .bool _⟩
    · obtain ⟨n1, n2, rfl⟩ := bool2 hc hvs he
      exact ⟨.bool (n1 == n2), by simp [prim], .bool _⟩
    · obtain ⟨n1, n2, rfl⟩ := str2 hc hvs he
      exact ⟨.bool (n1 == n2), by simp [prim], .bool _⟩
  · -- not
    obtain ⟨v1, rfl, h1⟩ := hasTys1 hvs
    obtain ⟨e1, _⟩ := firstErr_cons he
    split at h <;> try (simp at h; done)
    rename_i hc
    obtain ⟨n1, rfl⟩ := sub_bool hc h1 e1
    simp only [Option.some.injEq] at h
    subst h
    exact ⟨.bool (!n1), by simp [prim], .bool _⟩
  · -- to_str
    obtain ⟨v1, rfl, h1⟩ := hasTys1 hvs
    obtain ⟨e1, _⟩ := firstErr_cons he
    split at h <;> try (simp at h; done)
    rename_i hc
    obtain ⟨s, hs⟩ := printable_toStr hc h1 e1
    simp only [Option.some.injEq] at h
    subst h
    exact ⟨.str s, by simp [prim, hs], .str _⟩
  · -- len of a sequence
    obtain ⟨v1, rfl, h1⟩ := hasTys1 hvs
    obtain ⟨e1, _⟩ := firstErr_cons he
    simp only [Option.some.injEq] at h
    subst h
    rcases h1.arr_inv with ⟨xs, rfl, _⟩ | ⟨m, rfl⟩
    · exact ⟨.int xs.length, by simp [prim], .int _⟩
    · simp [Val.isErr] at e1
  · -- len of an error
    obtain ⟨v1, rfl, h1⟩ := hasTys1 hvs
    obtain ⟨e1, _⟩ := firstErr_cons he
    obtain ⟨m, rfl⟩ := h1.unk_inv
    simp [Val.isErr] at e1
  · -- error
    obtain ⟨v1, rfl, h1⟩ := hasTys1 hvs
    obtain ⟨e1, _⟩ := firstErr_cons he
    split at h <;> try (simp at h; done)
    rename_i hc
    obtain ⟨n1, rfl⟩ := sub_str hc h1 e1
    simp only [Option.some.injEq] at h
    subst h
    exact ⟨.err n1, by simp [prim], .err _ _⟩
  · simp at h

end XrayModel.CoreTyping
