import XrayModel.LazyInt
import XrayModel.IntBuiltins
namespace XrayModel
open LB

theorem fits_iff (v : Int) : fits v = true ↔ (-9223372036854775808 ≤ v ∧ v ≤ 9223372036854775807) := by
  unfold fits I64_MIN I64_MAX
  rw [Bool.and_eq_true, decide_eq_true_iff, decide_eq_true_iff]

theorem fits_false_iff (v : Int) : fits v = false ↔ (v < -9223372036854775808 ∨ 9223372036854775807 < v) := by
  rw [← Bool.not_eq_true, fits_iff]; omega

/-- `r` is a successful, canonical result denoting `v` -/
def Correct (r : LB.R) (v : Int) : Prop := ∃ x, r = .ok x ∧ x.wf ∧ x.den = v

theorem wf_short (v : Int) : (short v).wf ↔ (-9223372036854775808 ≤ v ∧ v ≤ 9223372036854775807) := by
  simp only [LB.wf, fits_iff]

theorem wf_long (v : Int) : (long v).wf ↔ (v < -9223372036854775808 ∨ 9223372036854775807 < v) := by
  simp only [LB.wf, fits_false_iff]

theorem den_short (v : Int) : (short v).den = v := rfl
theorem den_long (v : Int) : (long v).den = v := rfl

theorem ofInt_wf (v : Int) : (ofInt v).wf := by
  unfold ofInt; split <;> simp_all [LB.wf]

theorem ofInt_wf_iff (v : Int) : (ofInt v).wf ↔ True := iff_true_intro (ofInt_wf v)

theorem ofInt_den (v : Int) : (ofInt v).den = v := by
  unfold ofInt; split <;> rfl

theorem correct_ok (x : LB) (w : Int) : Correct (.ok x) w ↔ (x.wf ∧ x.den = w) := by
  unfold Correct
  constructor
  · rintro ⟨y, h, hw, hd⟩; cases h; exact ⟨hw, hd⟩
  · rintro ⟨hw, hd⟩; exact ⟨x, rfl, hw, hd⟩

theorem correct_error (e : String) (w : Int) : Correct (.error e) w ↔ False := by
  unfold Correct
  constructor
  · rintro ⟨y, h, _⟩; cases h
  · intro h; exact h.elim

theorem correct_assertLong (v w : Int) :
    Correct (assertLong v) w ↔ ((v < -9223372036854775808 ∨ 9223372036854775807 < v) ∧ v = w) := by
  unfold assertLong
  split
  · rename_i h; rw [fits_iff] at h; rw [correct_error]; constructor
    · intro h'; exact h'.elim
    · rintro ⟨h1, _⟩; omega
  · rename_i h; rw [Bool.not_eq_true, fits_false_iff] at h
    rw [correct_ok, wf_long, den_long]

/-- the simp set that turns a goal about representations into linear integer arithmetic -/
macro "lb_norm" : tactic =>
  `(tactic| simp only [correct_ok, correct_error, correct_assertLong, wf_short, wf_long, den_short, den_long,
      ofInt_wf_iff, ofInt_den, fits_iff, fits_false_iff, isShort0, isShortPM1, beq_iff_eq, Bool.or_eq_true,
      Bool.and_eq_true, true_and, and_true, I64_MIN, I64_MAX, U64_MOD, U32_MAX,
      Bool.not_eq_true, Bool.false_eq_true, if_false, if_true, reduceIte] at *)

theorem isZero_iff (a : LB) (ha : a.wf) : LB.isZero a = true ↔ a.den = 0 := by
  cases a with
  | short v => simp [LB.isZero, LB.den]
  | long v =>
    rw [wf_long] at ha
    simp only [LB.isZero, den_long, Bool.false_eq_true, false_iff]; omega

theorem isZero_false_iff (a : LB) (ha : a.wf) : LB.isZero a = false ↔ a.den ≠ 0 := by
  rw [← Bool.not_eq_true, isZero_iff a ha]

theorem isNegative_iff (a : LB) : LB.isNegative a = true ↔ a.den < 0 := by
  simp [LB.isNegative]

theorem isPositive_iff (a : LB) : LB.isPositive a = true ↔ 0 < a.den := by
  simp [LB.isPositive]

theorem isOne_iff (a : LB) (ha : a.wf) : LB.isOne a = true ↔ a.den = 1 := by
  cases a with
  | short v => simp [LB.isOne, LB.den]
  | long v =>
    rw [wf_long] at ha
    simp only [LB.isOne, den_long, Bool.false_eq_true, false_iff]; omega

end XrayModel
