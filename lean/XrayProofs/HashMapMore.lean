/- C17, second part: key counting for arbitrary value types, mapping `==`, the xor-folding hashes, `map_values` -/
import XrayProofs.HashMap
namespace XrayModel.HM

section
variable {K V : Type} {hash : K → Res Int} {eq : K → K → Res Bool}

/-! ### the stored keys of a table of any value type -/

theorem keys_any (t : Table K V) (f : K → Bool) :
    (keys t).any f = (toList t).any (fun kv => f kv.1) := by
  simp [keys, List.any_map, Function.comp_def]

theorem keys_pairwise (C : Consistent hash eq) {t : Table K V} (hI : Inv C t) :
    (keys t).Pairwise (fun x y => C.e x y = false) :=
  List.pairwise_map.2 (toList_pairwise C hI)

theorem keys_length (C : Consistent hash eq) {t : Table K V} (hI : Inv C t) : (keys t).length = t.len := by
  simp [keys, toList_length, hI.len_eq]

theorem mem_iff_keys (C : Consistent hash eq) {t : Table K V} (hI : Inv C t) (k : K) :
    mem C t k = true ↔ ∃ x ∈ keys t, C.e k x = true := by
  rw [mem_iff_stored C hI, ← keys_any]; simp

theorem mem_of_key (C : Consistent hash eq) {t : Table K V} (hI : Inv C t) {x : K} (hx : x ∈ keys t) :
    mem C t x = true := (mem_iff_keys C hI x).2 ⟨x, hx, C.refl x⟩

/-- inclusion of the key-class sets of two tables (possibly of different value types) -/
def SubK {W : Type} (C : Consistent hash eq) (a : Table K V) (b : Table K W) : Prop :=
  ∀ k, mem C a k = true → mem C b k = true

theorem subK_len_le {W : Type} (C : Consistent hash eq) {a : Table K V} {b : Table K W} (ha : Inv C a) (hb : Inv C b)
    (h : SubK C a b) : a.len ≤ b.len := by
  rw [← keys_length C ha, ← keys_length C hb]
  apply card_le C _ _ (keys_pairwise C ha)
  intro x hx
  exact (mem_iff_keys C hb x).1 (h x (mem_of_key C ha hx))

theorem subK_antisymm_of_len {W : Type} (C : Consistent hash eq) {a : Table K V} {b : Table K W}
    (ha : Inv C a) (hb : Inv C b) (h : SubK C a b) (hl : b.len ≤ a.len) : SubK C b a := by
  intro k hk
  cases hak : mem C a k
  · exfalso
    obtain ⟨z, hz, hkz⟩ := (mem_iff_keys C hb k).1 hk
    have hlt := filter_length_lt (fun y => !C.e k y) (keys b) hz (by simp [hkz])
    have hle := card_le C (keys a) ((keys b).filter (fun y => !C.e k y)) (keys_pairwise C ha) (by
      intro x hx
      obtain ⟨y, hy, hxy⟩ := (mem_iff_keys C hb x).1 (h x (mem_of_key C ha hx))
      refine ⟨y, ?_, hxy⟩
      rw [List.mem_filter]
      refine ⟨hy, ?_⟩
      cases hky : C.e k y
      · rfl
      · have hkx : C.e k x = true := C.trans k y x hky (C.symm _ _ hxy)
        have := mem_of_key C ha hx
        rw [← mem_congr C hkx, hak] at this; cases this)
    rw [keys_length C ha] at hle
    rw [keys_length C hb] at hlt
    omega
  · rfl

/-! ### stored entries and lookup -/

theorem findE_some_mem {e : K → K → Bool} {k : K} {l : List (K × V)} {v : V} (h : findE e k l = some v) :
    ∃ k0, (k0, v) ∈ l ∧ e k k0 = true := by
  induction l with
  | nil => simp [findE] at h
  | cons kv r ih =>
    obtain ⟨k1, v1⟩ := kv
    simp only [findE] at h
    cases h1 : e k k1
    · simp only [h1, Bool.false_eq_true, if_false] at h
      obtain ⟨k0, hm, he⟩ := ih h
      exact ⟨k0, List.mem_cons_of_mem _ hm, he⟩
    · simp only [h1, if_true, Option.some.injEq] at h
      subst h
      exact ⟨k1, by simp, h1⟩

theorem findE_of_mem_pairwise (C : Consistent hash eq) {l : List (K × V)}
    (hp : l.Pairwise (fun x y => C.e x.1 y.1 = false)) {k0 : K} {v : V} (hm : (k0, v) ∈ l) :
    findE C.e k0 l = some v := by
  induction l with
  | nil => simp at hm
  | cons kv r ih =>
    obtain ⟨k1, v1⟩ := kv
    rw [List.pairwise_cons] at hp
    rcases List.mem_cons.1 hm with heq | hr
    · cases heq; simp [findE, C.refl]
    · have h10 : C.e k1 k0 = false := hp.1 _ hr
      have : C.e k0 k1 = false := by
        cases h2 : C.e k0 k1
        · rfl
        · have := C.symm _ _ h2; simp [this] at h10
      simp [findE, this, ih hp.2 hr]

/-- a stored entry is what lookup of its own key returns -/
theorem lookB_of_stored (C : Consistent hash eq) {t : Table K V} (hI : Inv C t) {k0 : K} {v : V}
    (hm : (k0, v) ∈ toList t) : lookB C t k0 = some v := by
  rw [← look_eq_lookB C hI]; exact findE_of_mem_pairwise C (toList_pairwise C hI) hm

theorem lookB_some_stored (C : Consistent hash eq) {t : Table K V} (hI : Inv C t) {k : K} {v : V}
    (h : lookB C t k = some v) : ∃ k0, (k0, v) ∈ toList t ∧ C.e k k0 = true := by
  rw [← look_eq_lookB C hI] at h; exact findE_some_mem h

/-! ### mapping `==` -/

/-- two optional values are related: both absent, or both present and `r`-equal -/
def optRel (r : V → V → Bool) : Option V → Option V → Bool
  | none, none => true
  | some a, some b => r a b
  | _, _ => false

theorem dynEqGo_eq (C : Consistent hash eq) (veq : V → V → Res Bool) (ve : V → V → Bool)
    (hve : ∀ a b, veq a b = .ok (ve a b)) (m1 : Table K V) (l : List (K × V)) :
    dynEqGo hash eq veq m1 l = .ok (l.all (fun kv => match lookB C m1 kv.1 with
      | some o => ve kv.2 o
      | none => false)) := by
  induction l with
  | nil => rfl
  | cons kv r ih =>
    obtain ⟨k, v⟩ := kv
    simp only [dynEqGo, List.all_cons]
    rw [locate_eq C]
    cases hg : bget m1.buckets (C.h k) with
    | none => simp [locP, lookB, hg]
    | some b =>
      cases hs : scanP C.e k b with
      | none => simp [locP, lookB, hg, hs, scanP_none hs]
      | some i =>
        obtain ⟨k0, p, hi, _, hf⟩ := scanP_some hs
        simp only [locP, lookB, hg, hs, hf, getAt_of_scan hg hi, hve]
        cases ve v p <;> simp [ih, lookB]

theorem dynEq_spec (C : Consistent hash eq) (veq : V → V → Res Bool) (ve : V → V → Bool)
    (hve : ∀ a b, veq a b = .ok (ve a b)) {m0 m1 : Table K V} (h0 : Inv C m0) (h1 : Inv C m1) :
    ∃ r, dynEq hash eq veq m0 m1 = .ok r ∧
      (r = true ↔ ∀ k, optRel ve (lookB C m0 k) (lookB C m1 k) = true) := by
  unfold dynEq
  rw [dynEqGo_eq C veq ve hve]
  have sub_of_rel : (∀ k, optRel ve (lookB C m0 k) (lookB C m1 k) = true) → SubK C m0 m1 ∧ SubK C m1 m0 := by
    intro h
    constructor <;> intro k hk <;> have := h k <;> simp only [mem] at hk ⊢ <;>
      cases h0k : lookB C m0 k <;> cases h1k : lookB C m1 k <;> simp_all [optRel]
  by_cases hl : m0.len = m1.len
  · simp only [hl, ne_eq, not_true_eq_false, if_false]
    refine ⟨_, rfl, ?_⟩
    rw [List.all_eq_true]
    constructor
    · intro hall
      have hsub : SubK C m0 m1 := by
        intro k hk
        simp only [mem] at hk ⊢
        cases h0k : lookB C m0 k with
        | none => simp [h0k] at hk
        | some v =>
          obtain ⟨k0, hm, hek⟩ := lookB_some_stored C h0 h0k
          have := hall _ hm
          rw [lookB_congr C hek]
          cases h1k : lookB C m1 k0 with
          | none => simp [h1k] at this
          | some o => rfl
      have hsub' := subK_antisymm_of_len C h0 h1 hsub (by omega)
      intro k
      cases h0k : lookB C m0 k with
      | none =>
        cases h1k : lookB C m1 k with
        | none => rfl
        | some o =>
          have := hsub' k (by simp [mem, h1k])
          simp [mem, h0k] at this
      | some v =>
        obtain ⟨k0, hm, hek⟩ := lookB_some_stored C h0 h0k
        have := hall _ hm
        rw [lookB_congr C hek]
        cases h1k : lookB C m1 k0 with
        | none => simp [h1k] at this
        | some o => simpa [h1k, optRel] using this
    · intro hrel kv hm
      obtain ⟨k0, v⟩ := kv
      have h0k := lookB_of_stored C h0 hm
      have := hrel k0
      rw [h0k] at this
      cases h1k : lookB C m1 k0 with
      | none => simp [h1k, optRel] at this
      | some o => simpa [h1k, optRel] using this
  · simp only [ne_eq, hl, not_false_eq_true, if_true]
    refine ⟨false, rfl, ?_⟩
    simp only [Bool.false_eq_true, false_iff]
    intro hrel
    obtain ⟨s1, s2⟩ := sub_of_rel hrel
    have := subK_len_le C h0 h1 s1
    have := subK_len_le C h1 h0 s2
    omega


/-! ### the xor-folding set hash depends on the class set only -/

/-- what the hash reads of the table: every stored hash with the length of its bucket -/
def sig (bs : List (Nat × Bucket K V)) : List (Nat × Nat) := bs.map (fun hb => (hb.1, hb.2.length))

def sigFold (l : List (Nat × Nat)) : Nat := l.foldl (fun acc p => xor64 acc ((p.1 + p.2) % U64)) 0

theorem sHash_eq_sigFold (t : Table K V) : sHash t = sigFold (sig t.buckets) := by
  simp [sHash, sigFold, sig, List.foldl_map]

theorem mem_sig (C : Consistent hash eq) {bs : List (Nat × Bucket K V)} (hb : BucketsOK C bs) (h n : Nat) :
    (h, n) ∈ sig bs ↔ ∃ b, bget bs h = some b ∧ b.length = n := by
  induction bs with
  | nil => simp [sig, bget]
  | cons hb0 rest ih =>
    obtain ⟨h0, b0⟩ := hb0
    obtain ⟨_, h2, h3⟩ := hb
    have ih' := ih h3
    simp only [sig, List.map_cons, List.mem_cons, Prod.mk.injEq, bget] at ih' ⊢
    by_cases hh : h0 = h
    · subst hh
      simp only [if_true, Option.some.injEq, exists_eq_left']
      constructor
      · rintro (⟨_, hn⟩ | hm)
        · exact hn.symm
        · obtain ⟨b, hbg, _⟩ := ih'.1 hm; rw [h2] at hbg; cases hbg
      · intro hn; exact Or.inl (by simp [hn])
    · simp only [if_neg hh]
      constructor
      · rintro (⟨he, _⟩ | hm)
        · exact absurd he.symm hh
        · exact ih'.1 hm
      · intro hx; exact Or.inr (ih'.2 hx)

theorem sig_nodup (C : Consistent hash eq) {bs : List (Nat × Bucket K V)} (hb : BucketsOK C bs) : (sig bs).Nodup := by
  induction bs with
  | nil => simp [sig]
  | cons hb0 rest ih =>
    obtain ⟨h0, b0⟩ := hb0
    obtain ⟨_, h2, h3⟩ := hb
    simp only [sig, List.map_cons, List.nodup_cons]
    refine ⟨?_, ih h3⟩
    intro hm
    obtain ⟨b, hbg, _⟩ := (mem_sig C h3 h0 b0.length).1 hm
    rw [h2] at hbg; cases hbg

/-- a key stored in the bucket of `h` is a member -/
theorem mem_of_bucket (C : Consistent hash eq) {t : Table K V} (hI : Inv C t) {h : Nat} {b : Bucket K V}
    (hg : bget t.buckets h = some b) {x : K × V} (hx : x ∈ b) : mem C t x.1 = true := by
  have hbo := hI.buckets_ok.get hg
  have hh : C.h x.1 = h := hbo.1 x hx
  simp only [mem, lookB, hh, hg]
  cases hf : findE C.e x.1 b with
  | none => have := (findE_none_iff _ _ _).1 hf x hx; simp [C.refl] at this
  | some v => rfl

/-- a member's bucket holds a key of its class -/
theorem bucket_of_mem (C : Consistent hash eq) {t : Table K V} {k : K} (hm : mem C t k = true) :
    ∃ b, bget t.buckets (C.h k) = some b ∧ ∃ z ∈ b, C.e k z.1 = true := by
  simp only [mem, lookB] at hm
  cases hg : bget t.buckets (C.h k) with
  | none => simp [hg] at hm
  | some b =>
    simp only [hg] at hm
    refine ⟨b, rfl, ?_⟩
    cases hf : findE C.e k b with
    | none => simp [hf] at hm
    | some v =>
      obtain ⟨k0, hm0, he⟩ := findE_some_mem hf
      exact ⟨(k0, v), hm0, he⟩

theorem bucket_len_le {W : Type} (C : Consistent hash eq) {a : Table K V} {b : Table K W} (ha : Inv C a)
    (hs : SubK C a b) {h : Nat} {ba : Bucket K V} {bb : Bucket K W}
    (hga : bget a.buckets h = some ba) (hgb : bget b.buckets h = some bb) : ba.length ≤ bb.length := by
  have hbo := ha.buckets_ok.get hga
  have := card_le C (bkeys ba) (bkeys bb) (List.pairwise_map.2 hbo.2.1) (by
    intro x hx
    obtain ⟨kv, hkv, rfl⟩ := List.mem_map.1 hx
    obtain ⟨b', hg', z, hz, he⟩ := bucket_of_mem C (hs _ (mem_of_bucket C ha hga hkv))
    rw [hbo.1 kv hkv, hgb] at hg'
    cases hg'
    exact ⟨z.1, List.mem_map_of_mem hz, he⟩)
  simpa [bkeys] using this

theorem sig_mem_of_sub {W : Type} (C : Consistent hash eq) {a : Table K V} {b : Table K W} (ha : Inv C a) (hb : Inv C b)
    (hab : SubK C a b) (hba : SubK C b a) (p : Nat × Nat) (hp : p ∈ sig a.buckets) : p ∈ sig b.buckets := by
  obtain ⟨h, n⟩ := p
  obtain ⟨ba, hga, hn⟩ := (mem_sig C ha.buckets_ok h n).1 hp
  have hbo := ha.buckets_ok.get hga
  -- the bucket is not empty: take one of its keys, it is a member of `b`, hence `b` has a bucket for `h`
  obtain ⟨x, hx⟩ := List.exists_mem_of_ne_nil _ hbo.2.2
  obtain ⟨bb, hgb, _⟩ := bucket_of_mem C (hab _ (mem_of_bucket C ha hga hx))
  rw [hbo.1 x hx] at hgb
  have l1 := bucket_len_le C ha hab hga hgb
  have l2 := bucket_len_le C hb hba hgb hga
  exact (mem_sig C hb.buckets_ok h n).2 ⟨bb, hgb, by omega⟩

theorem xor64_right_comm (z x y : Nat) : xor64 (xor64 z x) y = xor64 (xor64 z y) x := by
  simp only [xor64, Nat.xor_assoc, Nat.xor_comm x y]

/-- equal class sets ⇒ equal hashes, for tables of any value types -/
theorem sHash_congr {W : Type} (C : Consistent hash eq) {a : Table K V} {b : Table K W} (ha : Inv C a) (hb : Inv C b)
    (h : ∀ k, mem C a k = mem C b k) : sHash a = sHash b := by
  have hab : SubK C a b := fun k hk => by rw [← h k]; exact hk
  have hba : SubK C b a := fun k hk => by rw [h k]; exact hk
  rw [sHash_eq_sigFold, sHash_eq_sigFold]
  have hperm : (sig a.buckets).Perm (sig b.buckets) :=
    (List.perm_ext_iff_of_nodup (sig_nodup C ha.buckets_ok) (sig_nodup C hb.buckets_ok)).2
      (fun p => ⟨sig_mem_of_sub C ha hb hab hba p, sig_mem_of_sub C hb ha hba hab p⟩)
  exact hperm.foldl_eq' (fun x _ y _ z => xor64_right_comm z _ _) 0

theorem U64_eq : U64 = 2 ^ 64 := by decide

theorem sHash_lt (t : Table K V) : sHash t < 2 ^ 64 := by
  rw [sHash_eq_sigFold, sigFold]
  have : ∀ (l : List (Nat × Nat)) (acc : Nat), acc < 2 ^ 64 →
      l.foldl (fun acc p => xor64 acc ((p.1 + p.2) % U64)) acc < 2 ^ 64 := by
    intro l
    induction l with
    | nil => intro acc h; exact h
    | cons p r ih =>
      intro acc h
      simp only [List.foldl_cons]
      apply ih
      apply Nat.xor_lt_two_pow h
      rw [U64_eq]; exact Nat.mod_lt _ (by decide)
  exact this _ 0 (by decide)


/-! ### `map_values` -/

theorem buckets_nil_of_len_zero (C : Consistent hash eq) {t : Table K V} (hI : Inv C t) (h0 : t.len = 0) :
    t.buckets = [] := by
  have hb := hI.buckets_ok
  have hl := hI.len_eq
  rw [h0] at hl
  generalize t.buckets = bs at hb hl
  cases bs with
  | nil => rfl
  | cons hb0 rest =>
    obtain ⟨h, b⟩ := hb0
    obtain ⟨h1, _, _⟩ := hb
    have : b.length ≠ 0 := by simpa using h1.2.2
    simp only [lenSum] at hl
    omega

theorem get2_eq (C : Consistent hash eq) {t : Table K V} (hI : Inv C t) (k : K) :
    get2 hash eq t k = match lookB C t k with
      | some v => .ok v
      | none => .error (.err "key not found") := by
  unfold get2
  rw [lookup_eq C hI]
  cases lookB C t k <;> rfl

theorem findE_map_values {W : Type} (e : K → K → Bool) (g : V → W) (k : K) (l : List (K × V)) :
    findE e k (l.map (fun kv => (kv.1, g kv.2))) = (findE e k l).map g := by
  induction l with
  | nil => rfl
  | cons kv r ih =>
    obtain ⟨k1, v1⟩ := kv
    simp only [List.map_cons, findE]
    cases e k k1 <;> simp [ih]

/-- folding "insert `g v` for a new key" over pairwise inequivalent, not yet present keys -/
theorem foldF_fresh {W : Type} (C : Consistent hash eq) (onE : K → Res W) (onO : K → W → Res W) (g : V → W)
    (l : List (K × V)) (hp : l.Pairwise (fun x y => C.e x.1 y.1 = false))
    (hE : ∀ kv ∈ l, onE kv.1 = .ok (g kv.2)) (acc : K → Option W) (hacc : ∀ kv ∈ l, acc kv.1 = none) :
    foldF C onE onO acc (l.map (fun kv => .ok kv.1)) =
      .ok (fun k' => match findE C.e k' (l.map (fun kv => (kv.1, g kv.2))) with
        | some w => some w
        | none => acc k') := by
  induction l generalizing acc with
  | nil => rfl
  | cons kv r ih =>
    obtain ⟨k, v⟩ := kv
    rw [List.pairwise_cons] at hp
    have hk : acc k = none := hacc (k, v) (by simp)
    simp only [List.map_cons, foldF, stepF, hk, newVal, hE (k, v) (by simp)]
    rw [ih hp.2 (fun kv hkv => hE kv (List.mem_cons_of_mem _ hkv))]
    · congr 1
      funext k'
      simp only [findE]
      cases hk' : C.e k' k
      · simp
      · have : findE C.e k' (r.map (fun kv => (kv.1, g kv.2))) = none := by
          apply findE_none_of_equiv C _ hk'
          intro x hx
          obtain ⟨kv, hkv, rfl⟩ := List.mem_map.1 hx
          exact hp.1 kv hkv
        simp [this]
    · intro kv hkv
      have h1 := hp.1 kv hkv
      have : C.e kv.1 k = false := by
        cases h2 : C.e kv.1 k
        · rfl
        · have := C.symm _ _ h2; simp [this] at h1
      simp [this, hacc kv (List.mem_cons_of_mem _ hkv)]

theorem mapValues_spec {W : Type} (C : Consistent hash eq) (f : V → Res W) (g : V → W) (hf : ∀ v, f v = .ok (g v))
    {t : Table K V} (hI : Inv C t) :
    ∃ t', mapValues hash eq f t = .ok t' ∧ Inv C t' ∧ t'.len = t.len ∧
      ∀ k, lookB C t' k = (lookB C t k).map g := by
  have hclear : (if t.len = 0 then ({ buckets := t.buckets.map (fun hb => (hb.1, [])), len := t.len } : Table K W)
      else empty) = empty := by
    split
    · rename_i h0; simp [buckets_nil_of_len_zero C hI h0, h0, empty]
    · rfl
  have hE : Inv C (empty : Table K W) := ⟨trivial, rfl⟩
  have hspec := updateFromKeys_spec C
    (fun k => match get2 hash eq t k with | .error e => .error e | .ok v => f v)
    (fun _ _ => (.error (.err "unreachable") : Res W)) hE ((keys t).map .ok)
  have hkeys : (keys t).map (Except.ok (ε := Err)) = (toList t).map (fun kv => .ok kv.1) := by
    simp [keys, List.map_map, Function.comp_def]
  rw [hkeys, foldF_fresh C _ _ g (toList t) (toList_pairwise C hI)
    (fun kv hkv => by
      obtain ⟨k0, v⟩ := kv
      simp only [get2_eq C hI, lookB_of_stored C hI hkv, hf])
    _ (fun _ _ => rfl)] at hspec
  obtain ⟨t', h1, h2, h3⟩ := hspec
  have hlook : ∀ k, lookB C t' k = (lookB C t k).map g := by
    intro k
    rw [h3]
    show (match findE C.e k ((toList t).map (fun kv => (kv.1, g kv.2))) with
      | some w => some w
      | none => lookB C (empty : Table K W) k) = _
    rw [findE_map_values, ← look_eq_lookB C hI, look]
    cases findE C.e k (toList t) <;> rfl
  refine ⟨t', ?_, h2, ?_, hlook⟩
  · unfold mapValues; rw [hclear, hkeys]; exact h1
  · have s1 : SubK C t' t := fun k hk => by simp only [mem, hlook] at hk ⊢; simpa using hk
    have s2 : SubK C t t' := fun k hk => by simp only [mem, hlook] at hk ⊢; simpa using hk
    have := subK_len_le C h2 hI s1
    have := subK_len_le C hI h2 s2
    omega


/-! ### the mapping hash depends on the abstraction only -/

/-- xor of a list of words -/
def xs (l : List Nat) : Nat := l.foldl xor64 0

theorem foldl_xor64 (l : List Nat) (acc : Nat) : l.foldl xor64 acc = xor64 acc (xs l) := by
  induction l generalizing acc with
  | nil => simp [xs, xor64]
  | cons a r ih =>
    simp only [List.foldl_cons, xs]
    rw [ih, ih (xor64 0 a)]
    simp [xor64, Nat.xor_assoc]

theorem xs_cons (a : Nat) (l : List Nat) : xs (a :: l) = xor64 a (xs l) := by
  simp only [xs, List.foldl_cons]
  rw [foldl_xor64]; simp [xor64, xs]

theorem xs_append (l1 l2 : List Nat) : xs (l1 ++ l2) = xor64 (xs l1) (xs l2) := by
  simp only [xs, List.foldl_append]
  rw [foldl_xor64]; rfl

/-- the value hash function is total with hashes in range: `vh` is its pure reading -/
def VHashOK (vhash : V → Res Int) (vh : V → Nat) : Prop := ∀ v, ∃ x, vhash v = .ok x ∧ toU64 x = some (vh v)

theorem hashBucketValues_eq {vhash : V → Res Int} {vh : V → Nat} (hv : VHashOK vhash vh) (b : Bucket K V) (acc : Nat) :
    hashBucketValues vhash b acc = .ok (xor64 acc (xs (b.map (fun kv => vh kv.2)))) := by
  induction b generalizing acc with
  | nil => simp [hashBucketValues, xs, xor64]
  | cons kv r ih =>
    obtain ⟨k, v⟩ := kv
    obtain ⟨x, h1, h2⟩ := hv v
    simp only [hashBucketValues, h1, h2, ih, List.map_cons, xs_cons]
    simp [xor64, Nat.xor_assoc]

/-- the words the mapping hash folds, in order -/
def tokens (vh : V → Nat) (bs : List (Nat × Bucket K V)) : List Nat :=
  bs.flatMap (fun hb => ((hb.1 + hb.2.length) % U64) :: hb.2.map (fun kv => vh kv.2))

theorem dynHashGo_eq {vhash : V → Res Int} {vh : V → Nat} (hv : VHashOK vhash vh) (bs : List (Nat × Bucket K V))
    (acc : Nat) : dynHashGo vhash bs acc = .ok (xor64 acc (xs (tokens vh bs))) := by
  induction bs generalizing acc with
  | nil => simp [dynHashGo, tokens, xs, xor64]
  | cons hb rest ih =>
    obtain ⟨h, b⟩ := hb
    simp only [dynHashGo, hashBucketValues_eq hv, ih, tokens, List.flatMap_cons, List.cons_append, xs_cons, xs_append]
    simp [xor64, Nat.xor_assoc]

theorem xs_tokens (vh : V → Nat) (bs : List (Nat × Bucket K V)) :
    xs (tokens vh bs) = xor64 (sigFold (sig bs)) (xs ((bs.flatMap (·.2)).map (fun kv => vh kv.2))) := by
  have hsig : ∀ l : List (Nat × Nat), sigFold l = xs (l.map (fun p => (p.1 + p.2) % U64)) := by
    intro l; simp [sigFold, xs, List.foldl_map]
  induction bs with
  | nil => simp [tokens, sig, sigFold, xs, xor64]
  | cons hb rest ih =>
    obtain ⟨h, b⟩ := hb
    have ih' : xs (tokens vh rest) = _ := ih
    simp only [tokens, List.flatMap_cons, List.cons_append, xs_cons, xs_append, List.map_append] at ih' ⊢
    rw [ih', hsig, hsig]
    simp only [sig, List.map_cons, xs_cons, xor64]
    ac_rfl

/-- xor over one representative per class: independent of which representatives are listed -/
theorem xs_split (C : Consistent hash eq) (G : K → Nat) (hG : ∀ u v, C.e u v = true → G u = G v)
    (x : K) (lb : List K) (hp : lb.Pairwise (fun a b => C.e a b = false)) (hy : ∃ y ∈ lb, C.e x y = true) :
    xs (lb.map G) = xor64 (G x) (xs ((lb.filter (fun z => !C.e x z)).map G)) := by
  induction lb with
  | nil => obtain ⟨y, hy, _⟩ := hy; simp at hy
  | cons z r ih =>
    rw [List.pairwise_cons] at hp
    cases hxz : C.e x z
    · have hy' : ∃ y ∈ r, C.e x y = true := by
        obtain ⟨y, hy1, hy2⟩ := hy
        rcases List.mem_cons.1 hy1 with rfl | hr
        · rw [hxz] at hy2; cases hy2
        · exact ⟨y, hr, hy2⟩
      simp only [List.filter_cons, hxz, Bool.not_false, if_true, List.map_cons, xs_cons, ih hp.2 hy']
      simp only [xor64]; ac_rfl
    · have hall : r.filter (fun w => !C.e x w) = r := by
        rw [List.filter_eq_self]
        intro w hw
        have h1 := hp.1 w hw
        cases h2 : C.e x w
        · rfl
        · have := C.trans z x w (C.symm _ _ hxz) h2; simp [this] at h1
      simp only [List.filter_cons, hxz, Bool.not_true, Bool.false_eq_true, if_false, hall, List.map_cons, xs_cons,
        hG x z hxz]

theorem xs_classes (C : Consistent hash eq) (G : K → Nat) (hG : ∀ u v, C.e u v = true → G u = G v)
    (la lb : List K) (hpa : la.Pairwise (fun a b => C.e a b = false)) (hpb : lb.Pairwise (fun a b => C.e a b = false))
    (hab : ∀ x ∈ la, ∃ y ∈ lb, C.e x y = true) (hba : ∀ y ∈ lb, ∃ x ∈ la, C.e y x = true) :
    xs (la.map G) = xs (lb.map G) := by
  induction la generalizing lb with
  | nil =>
    cases lb with
    | nil => rfl
    | cons y r => obtain ⟨x, hx, _⟩ := hba y (by simp); simp at hx
  | cons x r ih =>
    rw [List.pairwise_cons] at hpa
    rw [List.map_cons, xs_cons, xs_split C G hG x lb hpb (hab x (by simp))]
    congr 1
    apply ih _ hpa.2 (hpb.sublist List.filter_sublist)
    · intro x' hx'
      obtain ⟨y', hy', hxy'⟩ := hab x' (by simp [hx'])
      refine ⟨y', ?_, hxy'⟩
      rw [List.mem_filter]
      refine ⟨hy', ?_⟩
      have h1 := hpa.1 x' hx'
      cases h2 : C.e x y'
      · rfl
      · have := C.trans x y' x' h2 (C.symm _ _ hxy'); simp [this] at h1
    · intro y' hy'
      rw [List.mem_filter] at hy'
      obtain ⟨x'', hx'', hyx⟩ := hba y' hy'.1
      rcases List.mem_cons.1 hx'' with rfl | hr
      · have := C.symm _ _ hyx; simp [this] at hy'
      · exact ⟨x'', hr, hyx⟩

/-- the mapping hash: the set hash of the key classes xor the hashes of the values -/
theorem dynHash_eq (C : Consistent hash eq) {vhash : V → Res Int} {vh : V → Nat} (hv : VHashOK vhash vh)
    {t : Table K V} (hI : Inv C t) :
    dynHash vhash t = .ok (xor64 (sHash t)
      (xs ((keys t).map (fun k => match lookB C t k with | some v => vh v | none => 0)))) := by
  unfold dynHash
  rw [dynHashGo_eq hv, xs_tokens, ← sHash_eq_sigFold]
  have : (t.buckets.flatMap (·.2)).map (fun kv => vh kv.2) =
      (keys t).map (fun k => match lookB C t k with | some v => vh v | none => 0) := by
    simp only [keys, List.map_map]
    apply List.map_congr_left
    intro kv hkv
    obtain ⟨k0, v⟩ := kv
    have := lookB_of_stored C hI (show (k0, v) ∈ toList t from hkv)
    simp [this]
  rw [this]; simp [xor64]

theorem dynHash_congr (C : Consistent hash eq) {vhash : V → Res Int} {vh : V → Nat} (hv : VHashOK vhash vh)
    {a b : Table K V} (ha : Inv C a) (hb : Inv C b) (h : ∀ k, lookB C a k = lookB C b k) :
    dynHash vhash a = dynHash vhash b := by
  rw [dynHash_eq C hv ha, dynHash_eq C hv hb]
  have hm : ∀ k, mem C a k = mem C b k := fun k => by simp only [mem, h k]
  rw [sHash_congr C ha hb hm]
  have hfun : (fun k => match lookB C a k with | some v => vh v | none => 0) =
      (fun k => match lookB C b k with | some v => vh v | none => 0) := funext fun k => by rw [h k]
  rw [hfun]
  congr 2
  apply xs_classes C _ (fun u v huv => by simp only [lookB_congr C huv]) _ _ (keys_pairwise C ha) (keys_pairwise C hb)
  · intro x hx
    exact (mem_iff_keys C hb x).1 (by rw [← hm]; exact mem_of_key C ha hx)
  · intro y hy
    exact (mem_iff_keys C ha y).1 (by rw [hm]; exact mem_of_key C hb hy)


theorem toU64_lt {x : Int} {n : Nat} (h : toU64 x = some n) : n < 2 ^ 64 := by
  unfold toU64 at h
  split at h
  · simp only [Option.some.injEq] at h; omega
  · cases h

theorem xs_lt (l : List Nat) (h : ∀ a ∈ l, a < 2 ^ 64) : xs l < 2 ^ 64 := by
  induction l with
  | nil => simp [xs]
  | cons a r ih =>
    rw [xs_cons]
    exact Nat.xor_lt_two_pow (h a (by simp)) (ih (fun b hb => h b (List.mem_cons_of_mem _ hb)))

theorem dynHash_lt {vhash : V → Res Int} {vh : V → Nat} (hv : VHashOK vhash vh) (t : Table K V) :
    ∃ n, dynHash vhash t = .ok n ∧ n < 2 ^ 64 := by
  refine ⟨_, dynHashGo_eq hv t.buckets 0, ?_⟩
  apply Nat.xor_lt_two_pow (by decide)
  apply xs_lt
  intro a ha
  simp only [tokens, List.mem_flatMap, List.mem_cons, List.mem_map] at ha
  obtain ⟨hb, _, rfl | ⟨kv, _, rfl⟩⟩ := ha
  · rw [U64_eq]; exact Nat.mod_lt _ (by decide)
  · obtain ⟨x, _, h2⟩ := hv kv.2; exact toU64_lt h2


/-! ### the reference returned by `put`, and `with_count` -/

/-- the value a pure put writes -/
def pureNew (onEmpty : Unit → V) (onFound : V → V) : Option V → V
  | some p => onFound p
  | none => onEmpty ()

/-- `put` with its returned reference = `put`, paired with the value written for the key's class -/
theorem putRet_eq (C : Consistent hash eq) (t : Table K V) (k : K) (onEmpty : Unit → V) (onFound : V → V) :
    putRet hash eq t k onEmpty onFound =
      match put hash eq t k onEmpty onFound with
      | .error e => .error e
      | .ok t' => .ok (t', pureNew onEmpty onFound (lookB C t k)) := by
  unfold putRet put putLocated
  rw [locate_eq C]
  cases hg : bget t.buckets (C.h k) with
  | none => simp [locP, lookB, hg, tryPutLocatedRet, tryPutLocated, pureNew]
  | some b =>
    cases hs : scanP C.e k b with
    | none =>
      simp [locP, lookB, hg, hs, scanP_none hs, tryPutLocatedRet, tryPutLocated, pureNew]
    | some i =>
      obtain ⟨k0, p, hi, _, hf⟩ := scanP_some hs
      have hil : i < b.length := (List.getElem?_eq_some_iff.1 hi).1
      have hbi : b[i] = (k0, p) := by
        have := List.getElem?_eq_getElem hil; rw [hi] at this; exact (Option.some.inj this).symm
      simp [locP, lookB, hg, hs, hf, hi, tryPutLocatedRet, tryPutLocated, pureNew, hil, hbi]

/-- running class counts: the specification of `with_count` over an association function of counts -/
def wcSpec (C : Consistent hash eq) (f : K → Nat) : List K → List (K × Nat)
  | [] => []
  | k :: r => (k, f k + 1) :: wcSpec C (fun k' => if C.e k' k then f k + 1 else f k') r

theorem withCount_spec (C : Consistent hash eq) {counter : Table K Nat} (hI : Inv C counter) (ks : List K) :
    withCount hash eq counter (ks.map .ok) =
      (wcSpec C (fun k => (lookB C counter k).getD 0) ks).map .ok := by
  induction ks generalizing counter with
  | nil => rfl
  | cons k r ih =>
    obtain ⟨t1, h1, h2, _, h4⟩ := (tryPut_spec C hI k (fun _ => .ok 1) (fun v => .ok (v + 1))).2
      (pureNew (fun _ => 1) (fun v => v + 1) (lookB C counter k)) (by cases lookB C counter k <;> rfl)
    have hput : put hash eq counter k (fun _ => 1) (fun v => v + 1) = .ok t1 := by rw [put_eq_tryPut]; exact h1
    simp only [List.map_cons, withCount, putRet_eq C, hput, wcSpec]
    have hnew : pureNew (fun _ => 1) (fun v => v + 1) (lookB C counter k) = (lookB C counter k).getD 0 + 1 := by
      cases lookB C counter k <;> simp [pureNew]
    rw [ih h2, hnew]
    congr 2
    congr 1
    funext k'
    rw [h4, hnew]
    cases C.e k' k <;> simp

/-! ### `keys` / `values` / `update(m, Mapping)`: helpers -/

/-- writing a list of pairwise inequivalent entries: an entry of the list wins, otherwise the old answer stays -/
theorem writeAll_pairwise (C : Consistent hash eq) (l : List (K × V))
    (hp : l.Pairwise (fun x y => C.e x.1 y.1 = false)) (f : K → Option V) (k : K) :
    writeAll C f l k = match findE C.e k l with | some v => some v | none => f k := by
  induction l generalizing f with
  | nil => simp [writeAll, findE]
  | cons kv rest ih =>
    obtain ⟨k0, v0⟩ := kv
    rw [List.pairwise_cons] at hp
    simp only [writeAll, findE]
    rw [ih hp.2]
    cases hk : C.e k k0 with
    | true =>
      have : findE C.e k rest = none := findE_none_of_equiv (C := C) (fun x hx => hp.1 x hx) hk
      simp [this]
    | false => simp

/-- in a list of pairwise inequivalent entries every entry is found under its own key -/
theorem findE_self_of_mem (C : Consistent hash eq) (l : List (K × V))
    (hp : l.Pairwise (fun x y => C.e x.1 y.1 = false)) (kv : K × V) (h : kv ∈ l) :
    findE C.e kv.1 l = some kv.2 := by
  induction l with
  | nil => cases h
  | cons x rest ih =>
    rw [List.pairwise_cons] at hp
    rcases List.mem_cons.1 h with rfl | h'
    · simp [findE, C.refl]
    · obtain ⟨k0, v0⟩ := x
      simp only [findE]
      have : C.e kv.1 k0 = false := by
        have h1 := hp.1 kv h'
        cases h2 : C.e kv.1 k0 with
        | false => rfl
        | true => rw [C.symm _ _ h2] at h1; cases h1
      simp [this, ih hp.2 h']

/-- a key is found exactly when an equivalent key is stored -/
theorem findE_isSome_iff (e : K → K → Bool) (k : K) (l : List (K × V)) :
    (findE e k l).isSome = true ↔ ∃ x ∈ l, e k x.1 = true := by
  induction l with
  | nil => simp [findE]
  | cons x rest ih =>
    obtain ⟨k0, v0⟩ := x
    simp only [findE]
    cases hk : e k k0 with
    | true => simp [hk]
    | false => simp [hk, ih]


/-! ### `map_values` with an erroring callback: the first error in iteration order -/

theorem foldF_fresh_err {W : Type} (C : Consistent hash eq) (onE : K → Res W) (onO : K → W → Res W)
    (pre : List (K × V)) (k : K) (v : V) (rest : List (Res K)) (er : Err)
    (hp : (pre ++ [(k, v)]).Pairwise (fun x y => C.e x.1 y.1 = false))
    (hpre : ∀ kv ∈ pre, ∃ w, onE kv.1 = .ok w) (hk : onE k = .error er)
    (acc : K → Option W) (hacc : ∀ kv ∈ pre ++ [(k, v)], acc kv.1 = none) :
    foldF C onE onO acc (pre.map (fun kv => .ok kv.1) ++ .ok k :: rest) = .error er := by
  induction pre generalizing acc with
  | nil =>
    have h0 : acc k = none := hacc (k, v) (by simp)
    simp [foldF, stepF, newVal, h0, hk]
  | cons kv r ih =>
    obtain ⟨k0, v0⟩ := kv
    rw [List.cons_append, List.pairwise_cons] at hp
    have h0 : acc k0 = none := hacc (k0, v0) (by simp)
    obtain ⟨w, hw⟩ := hpre (k0, v0) (by simp)
    simp only [List.map_cons, List.cons_append, foldF, stepF, h0, newVal, hw]
    apply ih hp.2 (fun kv hkv => hpre kv (List.mem_cons_of_mem _ hkv))
    intro kv hkv
    have h1 := hp.1 kv hkv
    have : C.e kv.1 k0 = false := by
      cases h2 : C.e kv.1 k0
      · rfl
      · have := C.symm _ _ h2; simp [this] at h1
    simp [this, hacc kv (by simp at hkv ⊢; right; exact hkv)]

theorem mapValues_err {W : Type} (C : Consistent hash eq) (f : V → Res W) {t : Table K V} (hI : Inv C t)
    (pre post : List (K × V)) (k : K) (v : V) (er : Err) (hsplit : toList t = pre ++ (k, v) :: post)
    (hpre : ∀ kv ∈ pre, ∃ w, f kv.2 = .ok w) (hv : f v = .error er) :
    mapValues hash eq f t = .error er := by
  have hclear : (if t.len = 0 then ({ buckets := t.buckets.map (fun hb => (hb.1, [])), len := t.len } : Table K W)
      else empty) = empty := by
    split
    · rename_i h0; simp [buckets_nil_of_len_zero C hI h0, h0, empty]
    · rfl
  have hE : Inv C (empty : Table K W) := ⟨trivial, rfl⟩
  have hspec := updateFromKeys_spec C
    (fun k => match get2 hash eq t k with | .error e => .error e | .ok v => f v)
    (fun _ _ => (.error (.err "unreachable") : Res W)) hE ((keys t).map .ok)
  have hkeys : (keys t).map (Except.ok (ε := Err)) =
      pre.map (fun kv => .ok kv.1) ++ .ok k :: post.map (fun kv => .ok kv.1) := by
    simp [keys, hsplit, List.map_map, Function.comp_def]
  have hpw := toList_pairwise C hI
  rw [hsplit] at hpw
  have hpw' : (pre ++ [(k, v)]).Pairwise (fun x y => C.e x.1 y.1 = false) := by
    have : pre ++ (k, v) :: post = (pre ++ [(k, v)]) ++ post := by simp
    rw [this] at hpw
    exact (List.pairwise_append.1 hpw).1
  have hstored : ∀ kv ∈ pre ++ [(k, v)], kv ∈ toList t := by
    intro kv hkv; rw [hsplit]; simp at hkv ⊢; rcases hkv with h | h
    · left; exact h
    · right; left; exact h
  rw [hkeys, foldF_fresh_err C _ _ pre k v _ er hpw'
    (fun kv hkv => by
      obtain ⟨w, hw⟩ := hpre kv hkv
      refine ⟨w, ?_⟩
      obtain ⟨k0, v0⟩ := kv
      simp only [get2_eq C hI, lookB_of_stored C hI (hstored (k0, v0) (by simp [hkv])), hw])
    (by simp only [get2_eq C hI, lookB_of_stored C hI (hstored (k, v) (by simp)), hv])
    _ (fun _ _ => rfl)] at hspec
  unfold mapValues; rw [hclear, hkeys]; exact hspec

end
end XrayModel.HM
