/- C01: step lemmas, part 3 (the trampoline: frame creation, body, tail self-calls). -/
import XrayProofs.CoreTypingStep2
namespace XrayModel.CoreTyping
open XrayModel.Core

theorem step_tramp {n : Nat} (ih : Inv n) : ∀ cfg h f dflts env args rec st req opt ret,
    HasTy (.clos f dflts env) (.fn req opt ret) → ArgsTy args req opt →
    ValOk ret (tramp (n+1) cfg h (.clos f dflts env) args rec st).1 := by
  intro cfg h f dflts env args rec st req opt ret hc ha
  have hc0 := hc
  cases hc with
  | @clos _ Γc tf _ _ _ _ _ henv hchk her hd =>
    obtain ⟨name, ps, retAnn, ds, body⟩ := tf
    obtain ⟨req', opt', ρ, hσ, hps, Γ', τ, hds, hb, hsub⟩ := checkFunc_inv hchk
    injection hσ with e1 e2 e3
    subst e1 e2 e3
    simp only [eraseF] at her
    subst her
    obtain ⟨ats, hvs, hca⟩ := ha
    obtain ⟨bs, hbs, hbe⟩ := bindParams_ok ps Γc req opt args ats dflts hps hvs hca hd
    cases name with
    | none =>
      simp only at hds
      cases hdl : cfg.depthLimit with
      | none =>
        simp only [tramp, Func.params, Func.name, Func.decls, Func.body, hbs, hdl, Bool.false_eq_true, if_false]
        have hfrT : FrameTy { env := bs.reverse ++ env, self := none, height := h + 1 } (paramEnv ps ++ Γc ++ []) := by
                    simpa [FrameTy, Frame.eff] using EnvTy.append hbe henv
        have ihd := ih.evalDecls cfg _ ds st _ Γ' hfrT hds
        generalize evalDecls n cfg _ (eraseDs ds) st = r at ihd ⊢
        obtain ⟨r1, r2⟩ := r
        cases r1 with
        | error x => simpa [DeclsOk] using ErrOk.valOk ihd
        | ok fr' =>
          simp only [DeclsOk] at ihd
          obtain ⟨hfr', hself, _⟩ := ihd
          have ihe := ih.eval cfg fr' body true r2 Γ' τ hfr' hb
          simp only
          generalize eval n cfg fr' (eraseE body) true r2 = rr at ihe ⊢
          obtain ⟨q1, q2⟩ := rr
          cases q1 with
          | val v => simp only [ResOk] at ihe; simp only [ValOk]; exact HasTy.mono _ _ hsub ihe
          | stuck w => simp [ResOk] at ihe
          | viol k => simp [ValOk]
          | oof => simp [ValOk]
          | tail newArgs =>
            simp only [ResOk] at ihe
            obtain ⟨_, nm, c', req2, opt2, ret2, hs, _, _⟩ := ihe
            rw [hself] at hs
            simp at hs

      | some l =>
        by_cases hle : h + 1 ≥ l
        · simp [tramp, hbs, hdl, hle, ValOk]
        · simp only [tramp, Func.params, Func.name, Func.decls, Func.body, hbs, hdl, hle, decide_false, Bool.false_eq_true, if_false]
          have hfrT : FrameTy { env := bs.reverse ++ env, self := none, height := h + 1 } (paramEnv ps ++ Γc ++ []) := by
                        simpa [FrameTy, Frame.eff] using EnvTy.append hbe henv
          have ihd := ih.evalDecls cfg _ ds st _ Γ' hfrT hds
          generalize evalDecls n cfg _ (eraseDs ds) st = r at ihd ⊢
          obtain ⟨r1, r2⟩ := r
          cases r1 with
          | error x => simpa [DeclsOk] using ErrOk.valOk ihd
          | ok fr' =>
            simp only [DeclsOk] at ihd
            obtain ⟨hfr', hself, _⟩ := ihd
            have ihe := ih.eval cfg fr' body true r2 Γ' τ hfr' hb
            simp only
            generalize eval n cfg fr' (eraseE body) true r2 = rr at ihe ⊢
            obtain ⟨q1, q2⟩ := rr
            cases q1 with
            | val v => simp only [ResOk] at ihe; simp only [ValOk]; exact HasTy.mono _ _ hsub ihe
            | stuck w => simp [ResOk] at ihe
            | viol k => simp [ValOk]
            | oof => simp [ValOk]
            | tail newArgs =>
              simp only [ResOk] at ihe
              obtain ⟨_, nm, c', req2, opt2, ret2, hs, _, _⟩ := ihe
              rw [hself] at hs
              simp at hs

    | some nm' =>
      simp only at hds
      cases hdl : cfg.depthLimit with
      | none =>
        simp only [tramp, Func.params, Func.name, Func.decls, Func.body, hbs, hdl, Bool.false_eq_true, if_false]
        have hfrT : FrameTy { env := bs.reverse ++ env, self := some (nm', Val.clos (Func.mk (some nm') (erasePs ps) (eraseDs ds) (eraseE body)) dflts env), height := h + 1 } (paramEnv ps ++ Γc ++ [(nm', Ty.fn req opt ret)]) := by
          exact EnvTy.append (EnvTy.append hbe henv) (.cons hc0 .nil)
        have ihd := ih.evalDecls cfg _ ds st _ Γ' hfrT hds
        generalize evalDecls n cfg _ (eraseDs ds) st = r at ihd ⊢
        obtain ⟨r1, r2⟩ := r
        cases r1 with
        | error x => simpa [DeclsOk] using ErrOk.valOk ihd
        | ok fr' =>
          simp only [DeclsOk] at ihd
          obtain ⟨hfr', hself, _⟩ := ihd
          have ihe := ih.eval cfg fr' body true r2 Γ' τ hfr' hb
          simp only
          generalize eval n cfg fr' (eraseE body) true r2 = rr at ihe ⊢
          obtain ⟨q1, q2⟩ := rr
          cases q1 with
          | val v => simp only [ResOk] at ihe; simp only [ValOk]; exact HasTy.mono _ _ hsub ihe
          | stuck w => simp [ResOk] at ihe
          | viol k => simp [ValOk]
          | oof => simp [ValOk]
          | tail newArgs =>
            simp only [ResOk] at ihe
            obtain ⟨_, nm, c', req2, opt2, ret2, hs, hlast, hargs⟩ := ihe
            rw [hself] at hs
            simp only [Option.some.injEq, Prod.mk.injEq] at hs
            obtain ⟨rfl, _⟩ := hs
            obtain ⟨Δ, rfl⟩ := checkDecls_suffix _ _ _ hds
            rw [lastTy_append_ne _ _ (by simp), lastTy_snoc] at hlast
            simp only [Option.some.injEq, Prod.mk.injEq, Ty.fn.injEq] at hlast
            obtain ⟨_, rfl, rfl, rfl⟩ := hlast
            have key := ih.tramp cfg h _ dflts env newArgs (rec + 1) q2 _ _ _ hc0 hargs
            simp only
            split
            · split
              · simp [ValOk]
              · exact key
            · simpa using key

      | some l =>
        by_cases hle : h + 1 ≥ l
        · simp [tramp, hbs, hdl, hle, ValOk]
        · simp only [tramp, Func.params, Func.name, Func.decls, Func.body, hbs, hdl, hle, decide_false, Bool.false_eq_true, if_false]
          have hfrT : FrameTy { env := bs.reverse ++ env, self := some (nm', Val.clos (Func.mk (some nm') (erasePs ps) (eraseDs ds) (eraseE body)) dflts env), height := h + 1 } (paramEnv ps ++ Γc ++ [(nm', Ty.fn req opt ret)]) := by
            exact EnvTy.append (EnvTy.append hbe henv) (.cons hc0 .nil)
          have ihd := ih.evalDecls cfg _ ds st _ Γ' hfrT hds
          generalize evalDecls n cfg _ (eraseDs ds) st = r at ihd ⊢
          obtain ⟨r1, r2⟩ := r
          cases r1 with
          | error x => simpa [DeclsOk] using ErrOk.valOk ihd
          | ok fr' =>
            simp only [DeclsOk] at ihd
            obtain ⟨hfr', hself, _⟩ := ihd
            have ihe := ih.eval cfg fr' body true r2 Γ' τ hfr' hb
            simp only
            generalize eval n cfg fr' (eraseE body) true r2 = rr at ihe ⊢
            obtain ⟨q1, q2⟩ := rr
            cases q1 with
            | val v => simp only [ResOk] at ihe; simp only [ValOk]; exact HasTy.mono _ _ hsub ihe
            | stuck w => simp [ResOk] at ihe
            | viol k => simp [ValOk]
            | oof => simp [ValOk]
            | tail newArgs =>
              simp only [ResOk] at ihe
              obtain ⟨_, nm, c', req2, opt2, ret2, hs, hlast, hargs⟩ := ihe
              rw [hself] at hs
              simp only [Option.some.injEq, Prod.mk.injEq] at hs
              obtain ⟨rfl, _⟩ := hs
              obtain ⟨Δ, rfl⟩ := checkDecls_suffix _ _ _ hds
              rw [lastTy_append_ne _ _ (by simp), lastTy_snoc] at hlast
              simp only [Option.some.injEq, Prod.mk.injEq, Ty.fn.injEq] at hlast
              obtain ⟨_, rfl, rfl, rfl⟩ := hlast
              have key := ih.tramp cfg h _ dflts env newArgs (rec + 1) q2 _ _ _ hc0 hargs
              simp only
              split
              · split
                · simp [ValOk]
                · exact key
              · simpa using key


end XrayModel.CoreTyping
