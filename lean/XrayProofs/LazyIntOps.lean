/-
Proofs of the `LazyBigint`-level statements of C14 (the property theorems in `Props/C14.lean` restate them;
they live here so that the helper files for folds and text conversion can use them).
-/
import XrayProofs.LazyInt
import XrayProofs.IntArith
namespace XrayModel.Ops
open XrayModel LB

theorem add_correct (a b : LB) (ha : a.wf) (hb : b.wf) : Correct (LB.add a b) (a.den + b.den) := by
  unfold LB.add
  cases a <;> cases b <;> lb_norm <;> (repeat' split) <;> lb_norm <;> omega

theorem sub_correct (a b : LB) (ha : a.wf) (hb : b.wf) : Correct (LB.sub a b) (a.den - b.den) := by
  unfold LB.sub
  cases a <;> cases b <;> lb_norm <;> (repeat' split) <;> lb_norm <;> omega

theorem neg_correct (a : LB) (ha : a.wf) : Correct (LB.neg a) (-a.den) := by
  unfold LB.neg
  cases a <;> lb_norm <;> (repeat' split) <;> lb_norm <;> omega

theorem addAssign_correct (a b : LB) (ha : a.wf) (hb : b.wf) :
    Correct (LB.addAssign a b) (a.den + b.den) := by
  unfold LB.addAssign
  split
  · subst_vars; rw [correct_ok]; exact ⟨ha, by simp [LB.den]⟩
  · have := add_correct a b ha hb
    cases a <;> cases b <;> simp only [] <;> (try split) <;> first | exact this | (lb_norm; omega)

theorem eq_iff (a b : LB) (ha : a.wf) (hb : b.wf) : LB.beq a b = true ↔ a.den = b.den := by
  unfold LB.beq
  cases a <;> cases b <;> lb_norm <;> simp only [decide_eq_true_eq, LB.short.injEq, LB.long.injEq, reduceCtorEq, false_iff] <;> omega

theorem cmp_spec (a b : LB) (ha : a.wf) (hb : b.wf) : LB.cmp a b = compare a.den b.den := by
  unfold LB.cmp
  cases a <;> cases b <;> lb_norm <;> (try split) <;> (try rfl) <;>
    (symm; first | (rw [Int.compare_eq_lt]; omega) | (rw [Int.compare_eq_gt]; omega))

theorem mul_correct (a b : LB) (ha : a.wf) (hb : b.wf) : Correct (LB.mul a b) (a.den * b.den) := by
  unfold LB.mul
  cases a <;> cases b <;> lb_norm <;> (repeat' split) <;> lb_norm
  all_goals first
    | omega
    | exact Arith.mul_big _ _ ha hb
    | exact Int.mul_comm _ _
    | (rename_i h; rcases h with h | h <;> first | exact h.elim | simp [h])

theorem mulAssign_correct (a b : LB) (ha : a.wf) (hb : b.wf) :
    Correct (LB.mulAssign a b) (a.den * b.den) := by
  unfold LB.mulAssign
  split
  · subst_vars; rw [correct_ok]; exact ⟨ha, by simp [LB.den]⟩
  · have := mul_correct a b ha hb
    cases a <;> cases b <;> simp only [] <;> (try split) <;>
      first | exact this | (lb_norm; first | omega | exact Arith.mul_big _ _ ha hb)

theorem abs_correct (a : LB) (ha : a.wf) : Correct (LB.abs a) (a.den.natAbs : Int) := by
  unfold LB.abs
  cases a <;> lb_norm <;> (repeat' split) <;> (try lb_norm) <;> omega

theorem signum_spec (a : LB) : (LB.signum a).wf ∧ (LB.signum a).den = a.den.sign := by
  cases a <;> simp only [LB.signum, wf_short, den_short, den_long, and_true] <;>
    (rename_i v; rcases Int.lt_trichotomy v 0 with h | h | h)
  all_goals first
    | (have := Int.sign_eq_neg_one_iff_neg.mpr h; omega)
    | (subst h; simp)
    | (have := Int.sign_eq_one_iff_pos.mpr h; omega)

set_option linter.unusedSimpArgs false in
theorem rem_correct (a b : LB) (ha : a.wf) (hb : b.wf) (h0 : b.den ≠ 0) :
    Correct (LB.rem a b) (Int.tmod a.den b.den) := by
  unfold LB.rem
  cases a <;> cases b <;> lb_norm <;> (repeat' split) <;> (try lb_norm)
  all_goals first
    | omega
    | exact Arith.tmod_fits _ _ hb h0
    | (rename_i h; subst h; rw [Int.zero_tmod]; omega)
    | (rename_i h; rcases h with h | h <;> subst h <;> simp [Int.tmod_one, Arith.tmod_neg_one])

theorem div_correct (a b : LB) (ha : a.wf) (hb : b.wf) (h0 : b.den ≠ 0) :
    Correct (LB.div a b) (Int.tdiv a.den b.den) := by
  unfold LB.div LB.neg
  cases a <;> cases b <;> lb_norm <;> (repeat' split) <;> (try lb_norm)
  all_goals first
    | omega
    | (subst_vars; rw [Arith.tdiv_neg_one]; omega)
    | exact Arith.tdiv_fits _ _ ha h0 (by assumption)

theorem divFloor_correct (a b : LB) (ha : a.wf) (hb : b.wf) (h0 : b.den ≠ 0) :
    Correct (LB.divFloor a b) (Int.fdiv a.den b.den) := by
  unfold LB.divFloor LB.neg
  cases a <;> cases b <;> lb_norm <;> (repeat' split) <;> (try lb_norm)
  all_goals first
    | omega
    | (subst_vars; rw [Arith.fdiv_neg_one]; omega)
    | exact Arith.fdiv_fits _ _ ha h0 (by assumption)

theorem divCeil_correct (a b : LB) (ha : a.wf) (hb : b.wf) (h0 : b.den ≠ 0) :
    ∃ q, Correct (LB.divCeil a b) q ∧
      ∃ r, a.den = q * b.den - r ∧ (0 < b.den → 0 ≤ r ∧ r < b.den) ∧ (b.den < 0 → b.den < r ∧ r ≤ 0) := by
  refine ⟨LB.cdiv a.den b.den, ?_, Arith.cdiv_char a.den b.den h0⟩
  unfold LB.divCeil LB.neg LB.cdiv
  cases a <;> cases b <;> lb_norm <;> (repeat' split) <;> (try lb_norm)
  all_goals first
    | omega
    | (subst_vars; rw [Arith.cdiv_neg_one]; omega)
    | exact Arith.cdiv_fits _ _ ha h0 (by assumption)

theorem ipow_eq (b : Int) (e : Nat) : LB.ipow b e = b ^ e := by
  unfold LB.ipow
  split
  · subst_vars; split
    · subst_vars; rfl
    · rw [Int.zero_pow (by assumption)]
  · split
    · subst_vars; rw [Int.one_pow]
    · split
      · subst_vars; rw [Arith.neg_one_pow]
      · rfl

theorem lbPow_correct (a b : LB) (ha : a.wf) (hb : b.wf) (hneg : 0 ≤ b.den) :
    Correct (LB.pow a b) (a.den ^ b.den.toNat) := by
  unfold LB.pow
  cases a <;> cases b <;> simp only [ipow_eq] <;> lb_norm <;> (repeat' split) <;> (try lb_norm)
  all_goals first
    | omega
    | (apply Arith.pow_big _ _ _ ha; omega)

theorem wf_den_inj (a b : LB) (ha : a.wf) (hb : b.wf) (h : a.den = b.den) : a = b := by
  cases a <;> cases b <;> lb_norm <;> simp only [LB.short.injEq, LB.long.injEq, reduceCtorEq] <;> omega

theorem toU64_spec (a : LB) (ha : a.wf) :
    LB.toU64 a = if 0 ≤ a.den ∧ a.den < 18446744073709551616 then some a.den else none := by
  cases a with
  | short v =>
    rw [wf_short] at ha
    show (if 0 ≤ v then some v else none) = if 0 ≤ v ∧ v < 18446744073709551616 then some v else none
    by_cases h : 0 ≤ v
    · rw [if_pos h, if_pos ⟨h, by omega⟩]
    · rw [if_neg h, if_neg (fun h' => h h'.1)]
  | long v => rfl

theorem firstU64Digit_spec (a : LB) (ha : a.wf) :
    (LB.firstU64Digit a).wf ∧ 0 ≤ (LB.firstU64Digit a).den ∧ (LB.firstU64Digit a).den < 18446744073709551616 ∧
    (LB.firstU64Digit a).den =
      (match a with | .short s => s % 18446744073709551616 | .long b => (b.natAbs : Int) % 18446744073709551616) := by
  cases a with
  | short v =>
    rw [wf_short] at ha
    simp only [LB.firstU64Digit, ofInt_wf, ofInt_den, U64_MOD, true_and]
    split <;> omega
  | long v =>
    have e : ∀ x y : Int, Int.emod x y = x % y := fun _ _ => rfl
    simp only [LB.firstU64Digit, ofInt_wf, ofInt_den, U64_MOD, true_and, e]
    refine ⟨by omega, by omega, trivial⟩

end XrayModel.Ops
