/-
Two-run simulation for the limits of the core evaluator (C08): a run under a configuration `cfg`
that does not end in a violation is reproduced, with the same fuel, by the run under any weaker
configuration `cfg'` (limits raised or removed); only the call counters of the two states differ.
-/
import XrayProofs.CoreLimits
import Lean
namespace XrayModel.CoreLimitsSim
open XrayModel.Core XrayModel.CoreLimits

@[simp] theorem isViol_val (v) : Res.isViol (Res.val v) = false := rfl
@[simp] theorem isViol_viol (k) : Res.isViol (Res.viol k) = true := rfl
@[simp] theorem isViol_tail (a) : Res.isViol (Res.tail a) = false := rfl
@[simp] theorem isViol_stuck (s) : Res.isViol (Res.stuck s) = false := rfl
@[simp] theorem isViol_oof : Res.isViol Res.oof = false := rfl
@[simp] theorem exViol_ok {α} (a : α) : exViol (Except.ok a : Except Res α) = false := rfl
@[simp] theorem exViol_error {α} (r : Res) : exViol (Except.error r : Except Res α) = Res.isViol r := rfl

/-- the state of the second run as a function of the state of the first: same output, the call
counter translated by `κ` -/
def T (κ : Nat → Nat) (s : St) : St := { out := s.out, calls := κ s.calls }

@[simp] theorem T_out (κ s) : (T κ s).out = s.out := rfl
@[simp] theorem T_calls (κ s) : (T κ s).calls = κ s.calls := rfl
@[simp] theorem T_append (κ) (s : St) (line : String) :
    ({ T κ s with out := (T κ s).out ++ [line] } : St) = T κ { s with out := s.out ++ [line] } := rfl

@[simp] theorem T_mk (κ o c) : T κ { out := o, calls := c } = { out := o, calls := κ c } := rfl

def mapSt (κ : Nat → Nat) (p : Res × St) : Res × St := (p.1, T κ p.2)
def mapStE {α : Type} (κ : Nat → Nat) (p : Except Res α × St) : Except Res α × St := (p.1, T κ p.2)
@[simp] theorem mapSt_mk (κ r s) : mapSt κ (r, s) = (r, T κ s) := rfl
@[simp] theorem mapStE_mk {α} (κ) (r : Except Res α) (s) : mapStE κ (r, s) = (r, T κ s) := rfl

/-- `a ≤ b` for limits, `none` = no limit = ∞ -/
def optLe : Option Nat → Option Nat → Prop
  | _, none => True
  | some x, some y => x ≤ y
  | none, some _ => False

/-- what the translation `κ` of the counter must satisfy at a counted call -/
def CallOk (cfg cfg' : Cfg) (κ : Nat → Nat) : Prop :=
  match cfg.callLimit, cfg'.callLimit with
  | none, none => True
  | some _, none => ∀ c, κ (c + 1) = κ c
  | some l, some l' => ∀ c, c + 1 < l → κ c + 1 < l' ∧ κ (c + 1) = κ c + 1
  | none, some _ => False

/-- `cfg'` is weaker than `cfg` (every limit raised or removed), the counter translated by `κ` -/
structure Weaker (cfg cfg' : Cfg) (κ : Nat → Nat) : Prop where
  tco : cfg'.tco = cfg.tco
  depth : optLe cfg.depthLimit cfg'.depthLimit
  recur : optLe cfg.recLimit cfg'.recLimit
  call : CallOk cfg cfg' κ

structure SimL (cfg cfg' : Cfg) (κ : Nat → Nat) (n : Nat) : Prop where
  eval : ∀ fr e tail st, Res.isViol (eval n cfg fr e tail st).1 = false →
    eval n cfg' fr e tail (T κ st) = mapSt κ (eval n cfg fr e tail st)
  callNamed : ∀ fr f args tail st, Res.isViol (callNamed n cfg fr f args tail st).1 = false →
    callNamed n cfg' fr f args tail (T κ st) = mapSt κ (callNamed n cfg fr f args tail st)
  builtin : ∀ fr f args tail st, Res.isViol (builtin n cfg fr f args tail st).1 = false →
    builtin n cfg' fr f args tail (T κ st) = mapSt κ (builtin n cfg fr f args tail st)
  callVal : ∀ fr c args tail st, Res.isViol (callVal n cfg fr c args tail st).1 = false →
    callVal n cfg' fr c args tail (T κ st) = mapSt κ (callVal n cfg fr c args tail st)
  evalList : ∀ fr es st, exViol (evalList n cfg fr es st).1 = false →
    evalList n cfg' fr es (T κ st) = mapStE κ (evalList n cfg fr es st)
  mkClos : ∀ fr f st, Res.isViol (mkClos n cfg fr f st).1 = false →
    mkClos n cfg' fr f (T κ st) = mapSt κ (mkClos n cfg fr f st)
  evalDflts : ∀ fr ps st, exViol (evalDflts n cfg fr ps st).1 = false →
    evalDflts n cfg' fr ps (T κ st) = mapStE κ (evalDflts n cfg fr ps st)
  callUser : ∀ h c args st, Res.isViol (callUser n cfg h c args st).1 = false →
    callUser n cfg' h c args (T κ st) = mapSt κ (callUser n cfg h c args st)
  tramp : ∀ h c args rec st, Res.isViol (tramp n cfg h c args rec st).1 = false →
    tramp n cfg' h c args rec (T κ st) = mapSt κ (tramp n cfg h c args rec st)
  evalDecls : ∀ fr ds st, exViol (evalDecls n cfg fr ds st).1 = false →
    evalDecls n cfg' fr ds (T κ st) = mapStE κ (evalDecls n cfg fr ds st)

theorem simL_zero (cfg cfg' κ) : SimL cfg cfg' κ 0 := by
  constructor <;> intros <;> simp [eval, callNamed, builtin, callVal, evalList, mkClos, evalDflts, callUser, tramp, evalDecls]

theorem simL_succ {cfg cfg' κ n} (W : Weaker cfg cfg' κ) (ih : SimL cfg cfg' κ n) : SimL cfg cfg' κ (n + 1) := by
    constructor
    case eval =>
      intro fr e tail st h
      cases e
      case call f args =>
        simp only [eval, W.tco] at h ⊢
        cases hs : fr.self with
        | none => simp only [hs] at h ⊢; exact ih.callNamed _ _ _ _ _ h
        | some p =>
          obtain ⟨name, c⟩ := p
          simp only [hs] at h ⊢
          by_cases h1 : (decide (f = name) && (lookup f fr.env).isNone) = true
          · simp only [h1, if_true] at h ⊢
            by_cases h2 : (tail && cfg.tco) = true
            · simp only [h2, if_true] at h ⊢
              have hx : exViol (evalList n cfg fr args st).1 = false := by
                revert h; rcases evalList n cfg fr args st with ⟨r, s⟩; cases r <;> simp
              rw [ih.evalList _ _ _ hx]
              rcases evalList n cfg fr args st with ⟨r, s⟩
              cases r <;> rfl
            · simp only [h2] at h ⊢; exact ih.callVal _ _ _ _ _ h
          · simp only [h1] at h ⊢; exact ih.callNamed _ _ _ _ _ h
      all_goals simp only [eval] at h ⊢
      all_goals repeat' split at h
      all_goals try (simp_all [ih.eval, ih.mkClos, ih.evalList, ih.callVal]; done)
      all_goals (
        rw [ih.eval _ _ _ _ h]
        generalize eval n cfg _ _ _ _ = x at *
        obtain ⟨r, s⟩ := x
        cases r <;> simp_all)
    case callNamed =>
      intro fr f args tail st h
      simp only [callNamed] at h ⊢
      repeat' split at h
      all_goals try (simp_all [ih.callVal, ih.builtin]; done)
    case builtin =>
      intro fr f args tail st h
      simp only [builtin] at h ⊢
      repeat' split at h
      all_goals try (simp_all [ih.eval, ih.evalList]; done)
      all_goals first
        | (rw [ih.eval _ _ _ _ h]
           generalize eval n cfg _ _ _ _ = x at *
           obtain ⟨r, s⟩ := x
           cases r <;> simp_all; done)
        | (simp [ih.eval, *]
           rw [ih.evalList _ _ _ h]
           generalize evalList n cfg _ _ _ = x at *
           obtain ⟨r, s⟩ := x
           cases r <;> simp_all; done)
        | (simp [ih.eval, *]
           rw [ih.evalDflts _ _ _ h]
           generalize evalDflts n cfg _ _ _ = x at *
           obtain ⟨r, s⟩ := x
           cases r <;> simp_all; done)
    case callVal =>
      intro fr c args tail st h
      simp only [callVal] at h ⊢
      repeat' split at h
      all_goals try (simp_all [ih.evalList, ih.callUser]; done)
    case evalList =>
      intro fr es st h
      simp only [evalList] at h ⊢
      repeat' split at h
      all_goals try (simp_all [ih.evalList, ih.eval]; done)
      all_goals first
        | (rw [ih.eval _ _ _ _ h]
           generalize eval n cfg _ _ _ _ = x at *
           obtain ⟨r, s⟩ := x
           cases r <;> simp_all; done)
        | (simp [ih.eval, *]
           rw [ih.evalList _ _ _ h]
           generalize evalList n cfg _ _ _ = x at *
           obtain ⟨r, s⟩ := x
           cases r <;> simp_all; done)
        | (simp [ih.eval, *]
           rw [ih.evalDflts _ _ _ h]
           generalize evalDflts n cfg _ _ _ = x at *
           obtain ⟨r, s⟩ := x
           cases r <;> simp_all; done)
    case mkClos =>
      intro fr f st h
      simp only [mkClos] at h ⊢
      repeat' split at h
      all_goals try (simp_all [ih.evalDflts]; done)
    case evalDflts =>
      intro fr ps st h
      simp only [evalDflts] at h ⊢
      repeat' split at h
      all_goals try (simp_all [ih.evalDflts, ih.eval]; done)
      all_goals first
        | (rw [ih.eval _ _ _ _ h]
           generalize eval n cfg _ _ _ _ = x at *
           obtain ⟨r, s⟩ := x
           cases r <;> simp_all; done)
        | (simp [ih.eval, *]
           rw [ih.evalList _ _ _ h]
           generalize evalList n cfg _ _ _ = x at *
           obtain ⟨r, s⟩ := x
           cases r <;> simp_all; done)
        | (simp [ih.eval, *]
           rw [ih.evalDflts _ _ _ h]
           generalize evalDflts n cfg _ _ _ = x at *
           obtain ⟨r, s⟩ := x
           cases r <;> simp_all; done)
    case evalDecls =>
      intro fr ds st h
      simp only [evalDecls] at h ⊢
      repeat' split at h
      all_goals try (simp_all [ih.evalDecls, ih.eval, ih.mkClos]; done)
      all_goals first
        | (rw [ih.eval _ _ _ _ h]
           generalize eval n cfg _ _ _ _ = x at *
           obtain ⟨r, s⟩ := x
           cases r <;> simp_all; done)
        | (simp [ih.eval, *]
           rw [ih.evalList _ _ _ h]
           generalize evalList n cfg _ _ _ = x at *
           obtain ⟨r, s⟩ := x
           cases r <;> simp_all; done)
        | (simp [ih.eval, *]
           rw [ih.evalDflts _ _ _ h]
           generalize evalDflts n cfg _ _ _ = x at *
           obtain ⟨r, s⟩ := x
           cases r <;> simp_all; done)
    case callUser =>
      intro hh c args st h
      simp only [callUser] at h ⊢
      cases he : firstErr args with
      | some e => simp
      | none =>
        simp only [he] at h ⊢
        have hc := W.call
        unfold CallOk at hc
        cases hl : cfg.callLimit <;> cases hl' : cfg'.callLimit <;> simp only [hl, hl'] at h hc ⊢
        · exact ih.tramp _ _ _ _ _ h
        · split at h
          · simp at h
          · rename_i hlt
            have := ih.tramp hh c args 0 { st with calls := st.calls + 1 } h
            simp only [T, hc] at this ⊢
            simp only [hlt, if_false]
            exact this
        · rename_i l l'
          split at h
          · simp at h
          · rename_i hlt
            have := ih.tramp hh c args 0 { st with calls := st.calls + 1 } h
            obtain ⟨h1, h2⟩ := hc st.calls (by omega)
            have h3 : ¬ (κ st.calls + 1 ≥ l') := by omega
            simp only [T, h2] at this
            simp only [T, h3, hlt, if_false]
            exact this
    case tramp =>
      intro hh c args rec st h
      cases c
      case clos f d env =>
        simp only [tramp] at h ⊢
        -- the depth check passes in the first run, hence in the second
        have hd := W.depth
        have key : ∀ (X : Res × St) (Y : Res × St),
            Res.isViol (if (match cfg.depthLimit with | some l => decide (hh + 1 ≥ l) | none => false) = true
              then (Res.viol Viol.depth, st) else X).1 = false →
            (Res.isViol X.1 = false → Y = mapSt κ X) →
            (if (match cfg'.depthLimit with | some l => decide (hh + 1 ≥ l) | none => false) = true
              then (Res.viol Viol.depth, T κ st) else Y) =
            mapSt κ (if (match cfg.depthLimit with | some l => decide (hh + 1 ≥ l) | none => false) = true
              then (Res.viol Viol.depth, st) else X) := by
          intro X Y h1 h2
          cases hdl : cfg.depthLimit with
          | none =>
            cases hdl' : cfg'.depthLimit with
            | none =>
              have hX : Res.isViol X.1 = false := by simpa [hdl] using h1
              simp [h2 hX]
            | some l' => simp [hdl, hdl', optLe] at hd
          | some l =>
            by_cases hge : hh + 1 ≥ l
            · simp [hdl, hge] at h1
            · have hX : Res.isViol X.1 = false := by simpa [hdl, hge] using h1
              cases hdl' : cfg'.depthLimit with
              | none => simp [hge, h2 hX]
              | some l' =>
                have : ¬ (hh + 1 ≥ l') := by simp [hdl, hdl', optLe] at hd; omega
                simp [hge, this, h2 hX]
        refine key _ _ h (fun hX => ?_)
        clear key h hd
        have h := hX
        clear hX
        repeat' split at h
        all_goals try (simp_all [ih.evalDecls, ih.eval, ih.tramp]; done)
        all_goals (
          have hr := W.recur
          simp [ih.evalDecls, ih.eval, *])
        all_goals first
          | (rw [← ih.tramp _ _ _ _ _ h]
             cases hrl' : cfg'.recLimit with
             | none => simp
             | some l' =>
               first
                 | (simp_all [optLe]; done)
                 | (simp_all [optLe]; omega))
          | (generalize eval n cfg _ _ _ _ = x at *
             obtain ⟨r, s⟩ := x
             cases r <;> simp_all)
      all_goals simp [tramp]

theorem simL {cfg cfg' κ} (W : Weaker cfg cfg' κ) (n : Nat) : SimL cfg cfg' κ n := by
  induction n with
  | zero => exact simL_zero _ _ _
  | succ n ih => exact simL_succ W ih

/-! ### the two instances: all limits removed; limits raised -/

/-- the same configuration with every limit removed -/
def noLimits (cfg : Cfg) : Cfg := { cfg with depthLimit := none, callLimit := none, recLimit := none }

theorem optLe_none (a : Option Nat) : optLe a none := by cases a <;> trivial
theorem optLe_refl (a : Option Nat) : optLe a a := by cases a <;> simp [optLe]

theorem weaker_noLimits (cfg : Cfg) (c0 : Nat) : Weaker cfg (noLimits cfg) (fun _ => c0) where
  tco := rfl
  depth := optLe_none _
  recur := optLe_none _
  call := by
    unfold CallOk
    cases h : cfg.callLimit <;> simp [noLimits]

/-- `cfg'` has every limit at least as high as `cfg` (or removed); same `tco` -/
structure CfgLe (cfg cfg' : Cfg) : Prop where
  tco : cfg'.tco = cfg.tco
  depth : optLe cfg.depthLimit cfg'.depthLimit
  recur : optLe cfg.recLimit cfg'.recLimit
  call : optLe cfg.callLimit cfg'.callLimit

/-- the translation of the counter between a run started at `c` and one started at `c' ≥ c` -/
def kappa (cfg' : Cfg) (c c' : Nat) : Nat → Nat :=
  match cfg'.callLimit with
  | none => fun _ => c'
  | some _ => fun x => x + (c' - c)

theorem weaker_of_le {cfg cfg' : Cfg} (hle : CfgLe cfg cfg') (c c' : Nat)
    (hb : ∀ l l', cfg.callLimit = some l → cfg'.callLimit = some l' → c ≤ c' ∧ c' + l ≤ c + l') :
    Weaker cfg cfg' (kappa cfg' c c') where
  tco := hle.tco
  depth := hle.depth
  recur := hle.recur
  call := by
    have hc := hle.call
    unfold CallOk kappa
    cases h : cfg.callLimit <;> cases h' : cfg'.callLimit <;> simp only [h, h', optLe] at hc ⊢
    · intro x; trivial
    · rename_i l l'
      obtain ⟨h1, h2⟩ := hb l l' h h'
      intro x hx
      constructor <;> omega

theorem kappa_start {cfg cfg' : Cfg} (hle : CfgLe cfg cfg') (st st' : St) (ho : st'.out = st.out)
    (hb : ∀ l l', cfg.callLimit = some l → cfg'.callLimit = some l' → st.calls ≤ st'.calls) :
    T (kappa cfg' st.calls st'.calls) st = st' := by
  have hc := hle.call
  unfold T kappa
  cases h' : cfg'.callLimit with
  | none => simp only; rw [← ho]
  | some l' =>
    cases h : cfg.callLimit with
    | none => simp [h, h', optLe] at hc
    | some l =>
      have := hb l l' h h'
      simp only
      rw [← ho, show st.calls + (st'.calls - st.calls) = st'.calls by omega]

theorem not_viol_iff (r : Res) : Res.isViol r = false ↔ ∀ k, r ≠ .viol k := by
  cases r <;> simp [Res.isViol]

theorem ex_not_viol_iff {α} (x : Except Res α) : exViol x = false ↔ ∀ k, x ≠ .error (.viol k) := by
  cases x with
  | ok a => simp [exViol]
  | error r => cases r <;> simp [exViol, Res.isViol]

/-! ### need-based exactness: the limited run against the instrumented run `evalI` -/

/-- the configuration with the three limits set -/
def cfgL (tco : Bool) (Ld Lc Lr : Nat) : Cfg :=
  { depthLimit := some Ld, callLimit := some Lc, recLimit := some Lr, tco := tco }

@[simp] theorem cfgL_tco (tco Ld Lc Lr) : (cfgL tco Ld Lc Lr).tco = tco := rfl
@[simp] theorem cfgL_depth (tco Ld Lc Lr) : (cfgL tco Ld Lc Lr).depthLimit = some Ld := rfl
@[simp] theorem cfgL_call (tco Ld Lc Lr) : (cfgL tco Ld Lc Lr).callLimit = some Lc := rfl
@[simp] theorem cfgL_rec (tco Ld Lc Lr) : (cfgL tco Ld Lc Lr).recLimit = some Lr := rfl

/-- the state of the limited run as a function of the instrumented state (`c0` = counter at the start) -/
def TI (c0 : Nat) (s : StI) : St := { out := s.out, calls := c0 + s.calls }

@[simp] theorem TI_out (c0 s) : (TI c0 s).out = s.out := rfl
@[simp] theorem TI_calls (c0 s) : (TI c0 s).calls = c0 + s.calls := rfl
theorem TI_mk (c0 o c h r) : TI c0 { out := o, calls := c, maxH := h, maxRec := r } = { out := o, calls := c0 + c } := rfl

def mapTI (c0 : Nat) (p : Res × StI) : Res × St := (p.1, TI c0 p.2)
def mapTIE {α : Type} (c0 : Nat) (p : Except Res α × StI) : Except Res α × St := (p.1, TI c0 p.2)
@[simp] theorem mapTI_mk (c0 r s) : mapTI c0 (r, s) = (r, TI c0 s) := rfl
@[simp] theorem mapTIE_mk {α} (c0) (r : Except Res α) (s) : mapTIE c0 (r, s) = (r, TI c0 s) := rfl

/-- no limit is reached by the instrumented counters: every frame height created is below the depth
limit, the calls made (on top of `c0`) below the call limit, every tail-iteration count within the
recursion limit -/
def WithinL (Ld Lc Lr c0 : Nat) (s : StI) : Prop := s.maxH < Ld ∧ c0 + s.calls < Lc ∧ s.maxRec ≤ Lr

structure SimI (tco : Bool) (Ld Lc Lr c0 : Nat) (n : Nat) : Prop where
  eval : ∀ fr e tail s, WithinL Ld Lc Lr c0 (evalI n tco fr e tail s).2 →
    eval n (cfgL tco Ld Lc Lr) fr e tail (TI c0 s) = mapTI c0 (evalI n tco fr e tail s)
  callNamed : ∀ fr f args tail s, WithinL Ld Lc Lr c0 (callNamedI n tco fr f args tail s).2 →
    callNamed n (cfgL tco Ld Lc Lr) fr f args tail (TI c0 s) = mapTI c0 (callNamedI n tco fr f args tail s)
  builtin : ∀ fr f args tail s, WithinL Ld Lc Lr c0 (builtinI n tco fr f args tail s).2 →
    builtin n (cfgL tco Ld Lc Lr) fr f args tail (TI c0 s) = mapTI c0 (builtinI n tco fr f args tail s)
  callVal : ∀ fr c args tail s, WithinL Ld Lc Lr c0 (callValI n tco fr c args tail s).2 →
    callVal n (cfgL tco Ld Lc Lr) fr c args tail (TI c0 s) = mapTI c0 (callValI n tco fr c args tail s)
  evalList : ∀ fr es s, WithinL Ld Lc Lr c0 (evalListI n tco fr es s).2 →
    evalList n (cfgL tco Ld Lc Lr) fr es (TI c0 s) = mapTIE c0 (evalListI n tco fr es s)
  mkClos : ∀ fr f s, WithinL Ld Lc Lr c0 (mkClosI n tco fr f s).2 →
    mkClos n (cfgL tco Ld Lc Lr) fr f (TI c0 s) = mapTI c0 (mkClosI n tco fr f s)
  evalDflts : ∀ fr ps s, WithinL Ld Lc Lr c0 (evalDfltsI n tco fr ps s).2 →
    evalDflts n (cfgL tco Ld Lc Lr) fr ps (TI c0 s) = mapTIE c0 (evalDfltsI n tco fr ps s)
  callUser : ∀ h c args s, WithinL Ld Lc Lr c0 (callUserI n tco h c args s).2 →
    callUser n (cfgL tco Ld Lc Lr) h c args (TI c0 s) = mapTI c0 (callUserI n tco h c args s)
  tramp : ∀ h c args rec s, WithinL Ld Lc Lr c0 (trampI n tco h c args rec s).2 →
    tramp n (cfgL tco Ld Lc Lr) h c args rec (TI c0 s) = mapTI c0 (trampI n tco h c args rec s)
  evalDecls : ∀ fr ds s, WithinL Ld Lc Lr c0 (evalDeclsI n tco fr ds s).2 →
    evalDecls n (cfgL tco Ld Lc Lr) fr ds (TI c0 s) = mapTIE c0 (evalDeclsI n tco fr ds s)

/-! the counters of a finished sub-run are below those of the whole run: facts for `omega` -/
section mono
variable {n : Nat} {tco : Bool}
theorem mI_eval {fr e tail s r s'} (h : evalI n tco fr e tail s = (r, s')) :
    s.calls ≤ s'.calls ∧ s.maxH ≤ s'.maxH ∧ s.maxRec ≤ s'.maxRec := by
  have := (monoAt tco n).eval fr e tail s; rw [h] at this; exact this
theorem mI_callNamed {fr f args tail s r s'} (h : callNamedI n tco fr f args tail s = (r, s')) :
    s.calls ≤ s'.calls ∧ s.maxH ≤ s'.maxH ∧ s.maxRec ≤ s'.maxRec := by
  have := (monoAt tco n).callNamed fr f args tail s; rw [h] at this; exact this
theorem mI_builtin {fr f args tail s r s'} (h : builtinI n tco fr f args tail s = (r, s')) :
    s.calls ≤ s'.calls ∧ s.maxH ≤ s'.maxH ∧ s.maxRec ≤ s'.maxRec := by
  have := (monoAt tco n).builtin fr f args tail s; rw [h] at this; exact this
theorem mI_callVal {fr c args tail s r s'} (h : callValI n tco fr c args tail s = (r, s')) :
    s.calls ≤ s'.calls ∧ s.maxH ≤ s'.maxH ∧ s.maxRec ≤ s'.maxRec := by
  have := (monoAt tco n).callVal fr c args tail s; rw [h] at this; exact this
theorem mI_evalList {fr es s r s'} (h : evalListI n tco fr es s = (r, s')) :
    s.calls ≤ s'.calls ∧ s.maxH ≤ s'.maxH ∧ s.maxRec ≤ s'.maxRec := by
  have := (monoAt tco n).evalList fr es s; rw [h] at this; exact this
theorem mI_mkClos {fr f s r s'} (h : mkClosI n tco fr f s = (r, s')) :
    s.calls ≤ s'.calls ∧ s.maxH ≤ s'.maxH ∧ s.maxRec ≤ s'.maxRec := by
  have := (monoAt tco n).mkClos fr f s; rw [h] at this; exact this
theorem mI_evalDflts {fr ps s r s'} (h : evalDfltsI n tco fr ps s = (r, s')) :
    s.calls ≤ s'.calls ∧ s.maxH ≤ s'.maxH ∧ s.maxRec ≤ s'.maxRec := by
  have := (monoAt tco n).evalDflts fr ps s; rw [h] at this; exact this
theorem mI_evalDecls {fr ds s r s'} (h : evalDeclsI n tco fr ds s = (r, s')) :
    s.calls ≤ s'.calls ∧ s.maxH ≤ s'.maxH ∧ s.maxRec ≤ s'.maxRec := by
  have := (monoAt tco n).evalDecls fr ds s; rw [h] at this; exact this
theorem within_of_le {Ld Lc Lr c0 : Nat} {s s' : StI} (hle : StI.le s s') (h : WithinL Ld Lc Lr c0 s') :
    WithinL Ld Lc Lr c0 s := by
  unfold WithinL StI.le at *; omega
variable {Ld Lc Lr c0 : Nat}
theorem mW_eval {fr e tail s} (h : WithinL Ld Lc Lr c0 (evalI n tco fr e tail s).2) : WithinL Ld Lc Lr c0 s :=
  within_of_le ((monoAt tco n).eval fr e tail s) h
theorem mW_callNamed {fr f args tail s} (h : WithinL Ld Lc Lr c0 (callNamedI n tco fr f args tail s).2) : WithinL Ld Lc Lr c0 s :=
  within_of_le ((monoAt tco n).callNamed fr f args tail s) h
theorem mW_builtin {fr f args tail s} (h : WithinL Ld Lc Lr c0 (builtinI n tco fr f args tail s).2) : WithinL Ld Lc Lr c0 s :=
  within_of_le ((monoAt tco n).builtin fr f args tail s) h
theorem mW_callVal {fr c args tail s} (h : WithinL Ld Lc Lr c0 (callValI n tco fr c args tail s).2) : WithinL Ld Lc Lr c0 s :=
  within_of_le ((monoAt tco n).callVal fr c args tail s) h
theorem mW_evalList {fr es s} (h : WithinL Ld Lc Lr c0 (evalListI n tco fr es s).2) : WithinL Ld Lc Lr c0 s :=
  within_of_le ((monoAt tco n).evalList fr es s) h
theorem mW_mkClos {fr f s} (h : WithinL Ld Lc Lr c0 (mkClosI n tco fr f s).2) : WithinL Ld Lc Lr c0 s :=
  within_of_le ((monoAt tco n).mkClos fr f s) h
theorem mW_evalDflts {fr ps s} (h : WithinL Ld Lc Lr c0 (evalDfltsI n tco fr ps s).2) : WithinL Ld Lc Lr c0 s :=
  within_of_le ((monoAt tco n).evalDflts fr ps s) h
theorem mW_evalDecls {fr ds s} (h : WithinL Ld Lc Lr c0 (evalDeclsI n tco fr ds s).2) : WithinL Ld Lc Lr c0 s :=
  within_of_le ((monoAt tco n).evalDecls fr ds s) h
theorem mW_callUser {h' c args s} (h : WithinL Ld Lc Lr c0 (callUserI n tco h' c args s).2) : WithinL Ld Lc Lr c0 s :=
  within_of_le ((monoAt tco n).callUser h' c args s) h
theorem mW_tramp {h' c args rec s} (h : WithinL Ld Lc Lr c0 (trampI n tco h' c args rec s).2) : WithinL Ld Lc Lr c0 s :=
  within_of_le ((monoAt tco n).tramp h' c args rec s) h
end mono

open Lean Elab Tactic Meta in
/-- for every hypothesis `fI … s = (r, s')` add the fact that the counters of `s` are below those of `s'` -/
elab "mono_facts" : tactic => withMainContext do
  let lemmas := #[``mI_eval, ``mI_callNamed, ``mI_builtin, ``mI_callVal, ``mI_evalList, ``mI_mkClos,
    ``mI_evalDflts, ``mI_evalDecls, ``mW_eval, ``mW_callNamed, ``mW_builtin, ``mW_callVal, ``mW_evalList,
    ``mW_mkClos, ``mW_evalDflts, ``mW_evalDecls, ``mW_callUser, ``mW_tramp]
  let mut g ← getMainGoal
  for ldecl in (← getLCtx) do
    if ldecl.isImplementationDetail then continue
    for lem in lemmas do
      let r ← observing? (do
        let pf ← mkAppM lem #[ldecl.toExpr]
        let ty ← inferType pf
        pure (pf, ty))
      match r with
      | some (pf, ty) =>
        let (_, g') ← (← g.assert `hmono ty pf).intro1
        g := g'
        break
      | none => pure ()
  replaceMainGoal [g]

/-- discharge a `WithinL` side condition: rewrite with the finished sub-runs, then arithmetic -/
macro "within_disch" : tactic => `(tactic| (simp only [WithinL, *] at *; omega))

theorem simI_zero (tco Ld Lc Lr c0) : SimI tco Ld Lc Lr c0 0 := by
  constructor <;> intros <;> simp [eval, callNamed, builtin, callVal, evalList, mkClos, evalDflts, callUser, tramp, evalDecls,
    evalI, callNamedI, builtinI, callValI, evalListI, mkClosI, evalDfltsI, callUserI, trampI, evalDeclsI]

set_option hygiene false in
/-- close a leaf of a case of `simI_succ` (`ih`, `h`, `n`, `tco` are the names used there) -/
macro "leafI" : tactic => `(tactic| first
  | (simp (disch := within_disch) [ih.eval, ih.evalList, ih.mkClos, ih.evalDflts, ih.callVal, TI_mk, *]; done)
  | (simp (disch := within_disch) [ih.eval, ih.evalList, ih.mkClos, ih.evalDflts, ih.callVal, TI_mk, *]
     first
       | exact ih.eval _ _ _ _ (by assumption)
       | exact ih.callNamed _ _ _ _ _ (by assumption)
       | exact ih.builtin _ _ _ _ _ (by assumption)
       | exact ih.callVal _ _ _ _ _ (by assumption)
       | exact ih.evalList _ _ _ (by assumption)
       | exact ih.mkClos _ _ _ (by assumption)
       | exact ih.evalDflts _ _ _ (by assumption)
       | exact ih.callUser _ _ _ _ (by assumption)
       | exact ih.evalDecls _ _ _ (by assumption))
  | (try simp only []
     rw [ih.eval _ _ _ _ h]
     generalize evalI n tco _ _ _ _ = x at *
     obtain ⟨r, s'⟩ := x
     cases r <;> simp_all; done)
  | (simp (disch := within_disch) [ih.eval, *]
     rw [ih.evalList _ _ _ h]
     generalize evalListI n tco _ _ _ = x at *
     obtain ⟨r, s'⟩ := x
     cases r <;> simp_all; done)
  | (simp (disch := within_disch) [ih.eval, *]
     rw [ih.evalDflts _ _ _ h]
     generalize evalDfltsI n tco _ _ _ = x at *
     obtain ⟨r, s'⟩ := x
     cases r <;> simp_all; done))

theorem simI_succ {tco Ld Lc Lr c0 n} (ih : SimI tco Ld Lc Lr c0 n) : SimI tco Ld Lc Lr c0 (n + 1) := by
    constructor
    case builtin =>
      intro fr f args tail s h
      simp only [builtin, builtinI] at h ⊢
      repeat' split at h
      all_goals mono_facts
      all_goals leafI
    case callNamed =>
      intro fr f args tail s h
      simp only [callNamed, callNamedI] at h ⊢
      repeat' split at h
      all_goals mono_facts
      all_goals leafI
    case callVal =>
      intro fr c args tail s h
      simp only [callVal, callValI] at h ⊢
      repeat' split at h
      all_goals mono_facts
      all_goals leafI
    case evalList =>
      intro fr es s h
      simp only [evalList, evalListI] at h ⊢
      repeat' split at h
      all_goals mono_facts
      all_goals leafI
    case mkClos =>
      intro fr f s h
      simp only [mkClos, mkClosI] at h ⊢
      repeat' split at h
      all_goals mono_facts
      all_goals leafI
    case evalDflts =>
      intro fr ps s h
      simp only [evalDflts, evalDfltsI] at h ⊢
      repeat' split at h
      all_goals mono_facts
      all_goals leafI
    case evalDecls =>
      intro fr ds s h
      simp only [evalDecls, evalDeclsI] at h ⊢
      repeat' split at h
      all_goals mono_facts
      all_goals leafI
    case eval =>
      intro fr e tail s h
      cases e
      case call f args =>
        simp only [eval, evalI, cfgL_tco] at h ⊢
        cases hs : fr.self with
        | none => simp only [hs] at h ⊢; exact ih.callNamed _ _ _ _ _ h
        | some p =>
          obtain ⟨name, c⟩ := p
          simp only [hs] at h ⊢
          by_cases h1 : (decide (f = name) && (lookup f fr.env).isNone) = true
          · simp only [h1, if_true] at h ⊢
            by_cases h2 : (tail && tco) = true
            · simp only [h2, if_true] at h ⊢
              have hx : WithinL Ld Lc Lr c0 (evalListI n tco fr args s).2 := by
                revert h; rcases evalListI n tco fr args s with ⟨r, s'⟩; cases r <;> simp
              rw [ih.evalList _ _ _ hx]
              rcases evalListI n tco fr args s with ⟨r, s'⟩
              cases r <;> rfl
            · simp only [h2] at h ⊢; exact ih.callVal _ _ _ _ _ h
          · simp only [h1] at h ⊢; exact ih.callNamed _ _ _ _ _ h
      all_goals simp only [eval, evalI] at h ⊢
      all_goals repeat' split at h
      all_goals mono_facts
      all_goals leafI
    case callUser =>
      intro hh c args s h
      simp only [callUser, callUserI, cfgL_call] at h ⊢
      cases he : firstErr args with
      | some e => simp
      | none =>
        simp only [he] at h ⊢
        have hw := mW_tramp h
        have hlt : ¬ ((TI c0 s).calls + 1 ≥ Lc) := by simp only [WithinL, TI_calls] at hw ⊢; omega
        simp only [hlt, if_false]
        have e := ih.tramp hh c args 0 { s with calls := s.calls + 1 } h
        simpa [TI, Nat.add_assoc] using e
    case tramp =>
      intro hh c args rec s h
      cases c
      case clos f d env =>
        simp only [tramp, trampI, cfgL_depth, cfgL_rec] at h ⊢
        cases hn : f.name <;> simp only [hn] at h ⊢
        all_goals repeat' split at h
        all_goals mono_facts
        all_goals (
          have hD : ¬ (hh + 1 ≥ Ld) := by simp only [WithinL, *] at *; omega
          simp only [hD, decide_false, Bool.false_eq_true, if_false]
          rw [show TI c0 s = TI c0 { out := s.out, calls := s.calls, maxH := max s.maxH (hh + 1), maxRec := s.maxRec } from rfl])
        all_goals first
          | (simp (disch := within_disch) [ih.evalDecls, ih.eval, *]; done)
          | (rename_i _ ps hps _ fr' st' hdl _ newArgs st'' hev hm2 hm1 hm0
             have hws' : WithinL Ld Lc Lr c0 st' := by simp only [WithinL] at *; omega
             have hws'' : WithinL Ld Lc Lr c0 st'' := by simp only [WithinL] at *; omega
             have e := ih.evalDecls _ _ _ ((congrArg (fun p => WithinL Ld Lc Lr c0 p.2) hdl).mpr hws')
             rw [hdl] at e
             have e2 := ih.eval _ _ _ _ ((congrArg (fun p => WithinL Ld Lc Lr c0 p.2) hev).mpr hws'')
             rw [hev] at e2
             have hR : ¬ (rec + 1 > Lr) := by simp only [WithinL] at hm0; omega
             simp only [hps, e, mapTIE_mk, e2, mapTI_mk, hR, decide_false, Bool.false_eq_true, if_false]
             exact ih.tramp _ _ _ _ _ h)
          | (rename_i _ ps hps _ fr' st' hdl _ hneg hm1 hm0
             have e := ih.evalDecls _ _ _ ((congrArg (fun p => WithinL Ld Lc Lr c0 p.2) hdl).mpr hm0)
             rw [hdl] at e
             simp only [hps, e, mapTIE_mk]
             rw [ih.eval _ _ _ _ h]
             generalize evalI n tco _ _ _ _ = x at *
             obtain ⟨r, s'⟩ := x
             cases r <;> simp_all; done)
          | (rename_i _ ps hps _ r st' hdl hm
             have hws : WithinL Ld Lc Lr c0 st' := h
             have e := ih.evalDecls _ _ _ ((congrArg (fun p => WithinL Ld Lc Lr c0 p.2) hdl).mpr hws)
             rw [hdl] at e
             simp only [hps, e, mapTIE_mk, mapTI_mk])
      all_goals simp [tramp, trampI]

theorem simI (tco Ld Lc Lr c0) (n : Nat) : SimI tco Ld Lc Lr c0 n := by
  induction n with
  | zero => exact simI_zero _ _ _ _ _
  | succ n ih => exact simI_succ ih

/-! the instrumented run never stops: it has no violation outcome -/

structure NoViolI (tco : Bool) (n : Nat) : Prop where
  eval : ∀ fr e tail s, Res.isViol (evalI n tco fr e tail s).1 = false
  callNamed : ∀ fr f args tail s, Res.isViol (callNamedI n tco fr f args tail s).1 = false
  builtin : ∀ fr f args tail s, Res.isViol (builtinI n tco fr f args tail s).1 = false
  callVal : ∀ fr c args tail s, Res.isViol (callValI n tco fr c args tail s).1 = false
  evalList : ∀ fr es s, exViol (evalListI n tco fr es s).1 = false
  mkClos : ∀ fr f s, Res.isViol (mkClosI n tco fr f s).1 = false
  evalDflts : ∀ fr ps s, exViol (evalDfltsI n tco fr ps s).1 = false
  callUser : ∀ h c args s, Res.isViol (callUserI n tco h c args s).1 = false
  tramp : ∀ h c args rec s, Res.isViol (trampI n tco h c args rec s).1 = false
  evalDecls : ∀ fr ds s, exViol (evalDeclsI n tco fr ds s).1 = false

theorem isViol_of_ne {x : Res × StI} (h : ∀ k s, x = (Res.viol k, s) → False) : Res.isViol x.1 = false := by
  obtain ⟨r, s⟩ := x
  cases r <;> simp_all

theorem NoViolI.eval' {tco n} (ih : NoViolI tco n) {fr e tail s r s'}
    (h : evalI n tco fr e tail s = (r, s')) : Res.isViol r = false := by
  have := ih.eval fr e tail s; rw [h] at this; exact this
theorem NoViolI.mkClos' {tco n} (ih : NoViolI tco n) {fr f s r s'}
    (h : mkClosI n tco fr f s = (r, s')) : Res.isViol r = false := by
  have := ih.mkClos fr f s; rw [h] at this; exact this
theorem NoViolI.evalList' {tco n} (ih : NoViolI tco n) {fr es s r s'}
    (h : evalListI n tco fr es s = (.error r, s')) : Res.isViol r = false := by
  have := ih.evalList fr es s; rw [h] at this; exact this
theorem NoViolI.evalDflts' {tco n} (ih : NoViolI tco n) {fr ps s r s'}
    (h : evalDfltsI n tco fr ps s = (.error r, s')) : Res.isViol r = false := by
  have := ih.evalDflts fr ps s; rw [h] at this; exact this
theorem NoViolI.evalDecls' {tco n} (ih : NoViolI tco n) {fr ds s r s'}
    (h : evalDeclsI n tco fr ds s = (.error r, s')) : Res.isViol r = false := by
  have := ih.evalDecls fr ds s; rw [h] at this; exact this

theorem noViolI (tco : Bool) (n : Nat) : NoViolI tco n := by
  induction n with
  | zero => constructor <;> intros <;> simp [evalI, callNamedI, builtinI, callValI, evalListI, mkClosI, evalDfltsI, callUserI, trampI, evalDeclsI]
  | succ n ih =>
    constructor
    case eval =>
      intro fr e tail s
      simp only [evalI]
      repeat' split
      all_goals first
        | rfl
        | exact ih.mkClos _ _ _
        | exact ih.callVal _ _ _ _ _
        | exact ih.callNamed _ _ _ _ _
        | exact ih.eval _ _ _ _
        | exact ih.evalList' (by assumption)
        | exact ih.eval' (by assumption)
    case callNamed =>
      intro fr f args tail s
      simp only [callNamedI]
      repeat' split
      all_goals first
        | exact ih.callVal _ _ _ _ _
        | exact ih.builtin _ _ _ _ _
    case builtin =>
      intro fr f args tail s
      simp only [builtinI]
      repeat' split
      all_goals first
        | rfl
        | exact prim_not_viol _ _
        | exact ih.eval _ _ _ _
        | exact ih.evalList' (by assumption)
    case callVal =>
      intro fr c args tail s
      simp only [callValI]
      repeat' split
      all_goals first
        | rfl
        | exact ih.callUser _ _ _ _
        | exact ih.evalList' (by assumption)
    case evalList =>
      intro fr es s
      simp only [evalListI]
      repeat' split
      all_goals first
        | rfl
        | exact ih.evalList _ _ _
        | exact ih.eval' (by assumption)
    case mkClos =>
      intro fr f s
      simp only [mkClosI]
      repeat' split
      all_goals first
        | rfl
        | exact ih.evalDflts' (by assumption)
    case evalDflts =>
      intro fr ps s
      simp only [evalDfltsI]
      repeat' split
      all_goals first
        | rfl
        | exact ih.evalDflts _ _ _
        | exact ih.eval' (by assumption)
    case callUser =>
      intro h c args s
      simp only [callUserI]
      repeat' split
      all_goals first
        | rfl
        | exact ih.tramp _ _ _ _ _
    case tramp =>
      intro h c args rec s
      simp only [trampI]
      repeat' split
      all_goals first
        | rfl
        | exact ih.tramp _ _ _ _ _
        | exact ih.eval _ _ _ _
        | exact ih.evalDecls' (by assumption)
    case evalDecls =>
      intro fr ds s
      simp only [evalDeclsI]
      repeat' split
      all_goals first
        | rfl
        | exact ih.evalDecls _ _ _
        | exact ih.eval' (by assumption)
        | exact ih.mkClos' (by assumption)


end XrayModel.CoreLimitsSim