/-
Two-run simulation for the limits of the core evaluator (C08): a run under a configuration `cfg`
that does not end in a violation is reproduced, with the same fuel, by the run under any weaker
configuration `cfg'` (limits raised or removed); only the call counters of the two states differ.
-/
import XrayProofs.CoreLimits
namespace XrayModel.CoreLimitsSim
open XrayModel.Core XrayModel.CoreLimits

@[simp] theorem isViol_val (v) : Res.isViol (Res.val v) = false := rfl
@[simp] theorem isViol_viol (k) : Res.isViol (Res.viol k) = true := rfl
@[simp] theorem isViol_tail (a) : Res.isViol (Res.tail a) = false := rfl
@[simp] theorem isViol_stuck (s) : Res.isViol (Res.stuck s) = false := rfl
@[simp] theorem isViol_oof : Res.isViol Res.oof = false := rfl
@[simp] theorem exViol_ok {α} (a : α) : exViol (Except.ok a : Except Res α) = false := rfl
@[simp] theorem exViol_error {α} (r : Res) : exViol (Except.error r : Except Res α) = Res.isViol r := rfl

/-- the state of the second run as a function of the state of the first: same output, the call
counter translated by `κ` -/
def T (κ : Nat → Nat) (s : St) : St := { out := s.out, calls := κ s.calls }

@[simp] theorem T_out (κ s) : (T κ s).out = s.out := rfl
@[simp] theorem T_calls (κ s) : (T κ s).calls = κ s.calls := rfl
@[simp] theorem T_append (κ) (s : St) (line : String) :
    ({ T κ s with out := (T κ s).out ++ [line] } : St) = T κ { s with out := s.out ++ [line] } := rfl

@[simp] theorem T_mk (κ o c) : T κ { out := o, calls := c } = { out := o, calls := κ c } := rfl

def mapSt (κ : Nat → Nat) (p : Res × St) : Res × St := (p.1, T κ p.2)
def mapStE {α : Type} (κ : Nat → Nat) (p : Except Res α × St) : Except Res α × St := (p.1, T κ p.2)
@[simp] theorem mapSt_mk (κ r s) : mapSt κ (r, s) = (r, T κ s) := rfl
@[simp] theorem mapStE_mk {α} (κ) (r : Except Res α) (s) : mapStE κ (r, s) = (r, T κ s) := rfl

/-- `a ≤ b` for limits, `none` = no limit = ∞ -/
def optLe : Option Nat → Option Nat → Prop
  | _, none => True
  | some x, some y => x ≤ y
  | none, some _ => False

/-- what the translation `κ` of the counter must satisfy at a counted call -/
def CallOk (cfg cfg' : Cfg) (κ : Nat → Nat) : Prop :=
  match cfg.callLimit, cfg'.callLimit with
  | none, none => True
  | some _, none => ∀ c, κ (c + 1) = κ c
  | some l, some l' => ∀ c, c + 1 < l → κ c + 1 < l' ∧ κ (c + 1) = κ c + 1
  | none, some _ => False

/-- `cfg'` is weaker than `cfg` (every limit raised or removed), the counter translated by `κ` -/
structure Weaker (cfg cfg' : Cfg) (κ : Nat → Nat) : Prop where
  tco : cfg'.tco = cfg.tco
  depth : optLe cfg.depthLimit cfg'.depthLimit
  recur : optLe cfg.recLimit cfg'.recLimit
  call : CallOk cfg cfg' κ

structure SimL (cfg cfg' : Cfg) (κ : Nat → Nat) (n : Nat) : Prop where
  eval : ∀ fr e tail st, Res.isViol (eval n cfg fr e tail st).1 = false →
    eval n cfg' fr e tail (T κ st) = mapSt κ (eval n cfg fr e tail st)
  callNamed : ∀ fr f args tail st, Res.isViol (callNamed n cfg fr f args tail st).1 = false →
    callNamed n cfg' fr f args tail (T κ st) = mapSt κ (callNamed n cfg fr f args tail st)
  builtin : ∀ fr f args tail st, Res.isViol (builtin n cfg fr f args tail st).1 = false →
    builtin n cfg' fr f args tail (T κ st) = mapSt κ (builtin n cfg fr f args tail st)
  callVal : ∀ fr c args tail st, Res.isViol (callVal n cfg fr c args tail st).1 = false →
    callVal n cfg' fr c args tail (T κ st) = mapSt κ (callVal n cfg fr c args tail st)
  evalList : ∀ fr es st, exViol (evalList n cfg fr es st).1 = false →
    evalList n cfg' fr es (T κ st) = mapStE κ (evalList n cfg fr es st)
  mkClos : ∀ fr f st, Res.isViol (mkClos n cfg fr f st).1 = false →
    mkClos n cfg' fr f (T κ st) = mapSt κ (mkClos n cfg fr f st)
  evalDflts : ∀ fr ps st, exViol (evalDflts n cfg fr ps st).1 = false →
    evalDflts n cfg' fr ps (T κ st) = mapStE κ (evalDflts n cfg fr ps st)
  callUser : ∀ h c args st, Res.isViol (callUser n cfg h c args st).1 = false →
    callUser n cfg' h c args (T κ st) = mapSt κ (callUser n cfg h c args st)
  tramp : ∀ h c args rec st, Res.isViol (tramp n cfg h c args rec st).1 = false →
    tramp n cfg' h c args rec (T κ st) = mapSt κ (tramp n cfg h c args rec st)
  evalDecls : ∀ fr ds st, exViol (evalDecls n cfg fr ds st).1 = false →
    evalDecls n cfg' fr ds (T κ st) = mapStE κ (evalDecls n cfg fr ds st)

theorem simL_zero (cfg cfg' κ) : SimL cfg cfg' κ 0 := by
  constructor <;> intros <;> simp [eval, callNamed, builtin, callVal, evalList, mkClos, evalDflts, callUser, tramp, evalDecls]

theorem simL_succ {cfg cfg' κ n} (W : Weaker cfg cfg' κ) (ih : SimL cfg cfg' κ n) : SimL cfg cfg' κ (n + 1) := by
    constructor
    case eval =>
      intro fr e tail st h
      cases e
      case call f args =>
        simp only [eval, W.tco] at h ⊢
        cases hs : fr.self with
        | none => simp only [hs] at h ⊢; exact ih.callNamed _ _ _ _ _ h
        | some p =>
          obtain ⟨name, c⟩ := p
          simp only [hs] at h ⊢
          by_cases h1 : (decide (f = name) && (lookup f fr.env).isNone) = true
          · simp only [h1, if_true] at h ⊢
            by_cases h2 : (tail && cfg.tco) = true
            · simp only [h2, if_true] at h ⊢
              have hx : exViol (evalList n cfg fr args st).1 = false := by
                revert h; rcases evalList n cfg fr args st with ⟨r, s⟩; cases r <;> simp
              rw [ih.evalList _ _ _ hx]
              rcases evalList n cfg fr args st with ⟨r, s⟩
              cases r <;> rfl
            · simp only [h2] at h ⊢; exact ih.callVal _ _ _ _ _ h
          · simp only [h1] at h ⊢; exact ih.callNamed _ _ _ _ _ h
      all_goals simp only [eval] at h ⊢
      all_goals repeat' split at h
      all_goals try (simp_all [ih.eval, ih.mkClos, ih.evalList, ih.callVal]; done)
      all_goals (
        rw [ih.eval _ _ _ _ h]
        generalize eval n cfg _ _ _ _ = x at *
        obtain ⟨r, s⟩ := x
        cases r <;> simp_all)
    case callNamed =>
      intro fr f args tail st h
      simp only [callNamed] at h ⊢
      repeat' split at h
      all_goals try (simp_all [ih.callVal, ih.builtin]; done)
    case builtin =>
      intro fr f args tail st h
      simp only [builtin] at h ⊢
      repeat' split at h
      all_goals try (simp_all [ih.eval, ih.evalList]; done)
      all_goals first
        | (rw [ih.eval _ _ _ _ h]
           generalize eval n cfg _ _ _ _ = x at *
           obtain ⟨r, s⟩ := x
           cases r <;> simp_all; done)
        | (simp [ih.eval, *]
           rw [ih.evalList _ _ _ h]
           generalize evalList n cfg _ _ _ = x at *
           obtain ⟨r, s⟩ := x
           cases r <;> simp_all; done)
        | (simp [ih.eval, *]
           rw [ih.evalDflts _ _ _ h]
           generalize evalDflts n cfg _ _ _ = x at *
           obtain ⟨r, s⟩ := x
           cases r <;> simp_all; done)
    case callVal =>
      intro fr c args tail st h
      simp only [callVal] at h ⊢
      repeat' split at h
      all_goals try (simp_all [ih.evalList, ih.callUser]; done)
    case evalList =>
      intro fr es st h
      simp only [evalList] at h ⊢
      repeat' split at h
      all_goals try (simp_all [ih.evalList, ih.eval]; done)
      all_goals first
        | (rw [ih.eval _ _ _ _ h]
           generalize eval n cfg _ _ _ _ = x at *
           obtain ⟨r, s⟩ := x
           cases r <;> simp_all; done)
        | (simp [ih.eval, *]
           rw [ih.evalList _ _ _ h]
           generalize evalList n cfg _ _ _ = x at *
           obtain ⟨r, s⟩ := x
           cases r <;> simp_all; done)
        | (simp [ih.eval, *]
           rw [ih.evalDflts _ _ _ h]
           generalize evalDflts n cfg _ _ _ = x at *
           obtain ⟨r, s⟩ := x
           cases r <;> simp_all; done)
    case mkClos =>
      intro fr f st h
      simp only [mkClos] at h ⊢
      repeat' split at h
      all_goals try (simp_all [ih.evalDflts]; done)
    case evalDflts =>
      intro fr ps st h
      simp only [evalDflts] at h ⊢
      repeat' split at h
      all_goals try (simp_all [ih.evalDflts, ih.eval]; done)
      all_goals first
        | (rw [ih.eval _ _ _ _ h]
           generalize eval n cfg _ _ _ _ = x at *
           obtain ⟨r, s⟩ := x
           cases r <;> simp_all; done)
        | (simp [ih.eval, *]
           rw [ih.evalList _ _ _ h]
           generalize evalList n cfg _ _ _ = x at *
           obtain ⟨r, s⟩ := x
           cases r <;> simp_all; done)
        | (simp [ih.eval, *]
           rw [ih.evalDflts _ _ _ h]
           generalize evalDflts n cfg _ _ _ = x at *
           obtain ⟨r, s⟩ := x
           cases r <;> simp_all; done)
    case evalDecls =>
      intro fr ds st h
      simp only [evalDecls] at h ⊢
      repeat' split at h
      all_goals try (simp_all [ih.evalDecls, ih.eval, ih.mkClos]; done)
      all_goals first
        | (rw [ih.eval _ _ _ _ h]
           generalize eval n cfg _ _ _ _ = x at *
           obtain ⟨r, s⟩ := x
           cases r <;> simp_all; done)
        | (simp [ih.eval, *]
           rw [ih.evalList _ _ _ h]
           generalize evalList n cfg _ _ _ = x at *
           obtain ⟨r, s⟩ := x
           cases r <;> simp_all; done)
        | (simp [ih.eval, *]
           rw [ih.evalDflts _ _ _ h]
           generalize evalDflts n cfg _ _ _ = x at *
           obtain ⟨r, s⟩ := x
           cases r <;> simp_all; done)
    case callUser =>
      intro hh c args st h
      simp only [callUser] at h ⊢
      cases he : firstErr args with
      | some e => simp
      | none =>
        simp only [he] at h ⊢
        have hc := W.call
        unfold CallOk at hc
        cases hl : cfg.callLimit <;> cases hl' : cfg'.callLimit <;> simp only [hl, hl'] at h hc ⊢
        · exact ih.tramp _ _ _ _ _ h
        · split at h
          · simp at h
          · rename_i hlt
            have := ih.tramp hh c args 0 { st with calls := st.calls + 1 } h
            simp only [T, hc] at this ⊢
            simp only [hlt, if_false]
            exact this
        · rename_i l l'
          split at h
          · simp at h
          · rename_i hlt
            have := ih.tramp hh c args 0 { st with calls := st.calls + 1 } h
            obtain ⟨h1, h2⟩ := hc st.calls (by omega)
            have h3 : ¬ (κ st.calls + 1 ≥ l') := by omega
            simp only [T, h2] at this
            simp only [T, h3, hlt, if_false]
            exact this
    case tramp =>
      intro hh c args rec st h
      cases c
      case clos f d env =>
        simp only [tramp] at h ⊢
        -- the depth check passes in the first run, hence in the second
        have hd := W.depth
        have key : ∀ (X : Res × St) (Y : Res × St),
            Res.isViol (if (match cfg.depthLimit with | some l => decide (hh + 1 ≥ l) | none => false) = true
              then (Res.viol Viol.depth, st) else X).1 = false →
            (Res.isViol X.1 = false → Y = mapSt κ X) →
            (if (match cfg'.depthLimit with | some l => decide (hh + 1 ≥ l) | none => false) = true
              then (Res.viol Viol.depth, T κ st) else Y) =
            mapSt κ (if (match cfg.depthLimit with | some l => decide (hh + 1 ≥ l) | none => false) = true
              then (Res.viol Viol.depth, st) else X) := by
          intro X Y h1 h2
          cases hdl : cfg.depthLimit with
          | none =>
            cases hdl' : cfg'.depthLimit with
            | none =>
              have hX : Res.isViol X.1 = false := by simpa [hdl] using h1
              simp [h2 hX]
            | some l' => simp [hdl, hdl', optLe] at hd
          | some l =>
            by_cases hge : hh + 1 ≥ l
            · simp [hdl, hge] at h1
            · have hX : Res.isViol X.1 = false := by simpa [hdl, hge] using h1
              cases hdl' : cfg'.depthLimit with
              | none => simp [hge, h2 hX]
              | some l' =>
                have : ¬ (hh + 1 ≥ l') := by simp [hdl, hdl', optLe] at hd; omega
                simp [hge, this, h2 hX]
        refine key _ _ h (fun hX => ?_)
        clear key h hd
        have h := hX
        clear hX
        repeat' split at h
        all_goals try (simp_all [ih.evalDecls, ih.eval, ih.tramp]; done)
        all_goals (
          have hr := W.recur
          simp [ih.evalDecls, ih.eval, *])
        all_goals first
          | (rw [← ih.tramp _ _ _ _ _ h]
             cases hrl' : cfg'.recLimit with
             | none => simp
             | some l' =>
               first
                 | (simp_all [optLe]; done)
                 | (simp_all [optLe]; omega))
          | (generalize eval n cfg _ _ _ _ = x at *
             obtain ⟨r, s⟩ := x
             cases r <;> simp_all)
      all_goals simp [tramp]

theorem simL {cfg cfg' κ} (W : Weaker cfg cfg' κ) (n : Nat) : SimL cfg cfg' κ n := by
  induction n with
  | zero => exact simL_zero _ _ _
  | succ n ih => exact simL_succ W ih

/-! ### the two instances: all limits removed; limits raised -/

/-- the same configuration with every limit removed -/
def noLimits (cfg : Cfg) : Cfg := { cfg with depthLimit := none, callLimit := none, recLimit := none }

theorem optLe_none (a : Option Nat) : optLe a none := by cases a <;> trivial
theorem optLe_refl (a : Option Nat) : optLe a a := by cases a <;> simp [optLe]

theorem weaker_noLimits (cfg : Cfg) (c0 : Nat) : Weaker cfg (noLimits cfg) (fun _ => c0) where
  tco := rfl
  depth := optLe_none _
  recur := optLe_none _
  call := by
    unfold CallOk
    cases h : cfg.callLimit <;> simp [noLimits]

/-- `cfg'` has every limit at least as high as `cfg` (or removed); same `tco` -/
structure CfgLe (cfg cfg' : Cfg) : Prop where
  tco : cfg'.tco = cfg.tco
  depth : optLe cfg.depthLimit cfg'.depthLimit
  recur : optLe cfg.recLimit cfg'.recLimit
  call : optLe cfg.callLimit cfg'.callLimit

/-- the translation of the counter between a run started at `c` and one started at `c' ≥ c` -/
def kappa (cfg' : Cfg) (c c' : Nat) : Nat → Nat :=
  match cfg'.callLimit with
  | none => fun _ => c'
  | some _ => fun x => x + (c' - c)

theorem weaker_of_le {cfg cfg' : Cfg} (hle : CfgLe cfg cfg') (c c' : Nat)
    (hb : ∀ l l', cfg.callLimit = some l → cfg'.callLimit = some l' → c ≤ c' ∧ c' + l ≤ c + l') :
    Weaker cfg cfg' (kappa cfg' c c') where
  tco := hle.tco
  depth := hle.depth
  recur := hle.recur
  call := by
    have hc := hle.call
    unfold CallOk kappa
    cases h : cfg.callLimit <;> cases h' : cfg'.callLimit <;> simp only [h, h', optLe] at hc ⊢
    · intro x; trivial
    · rename_i l l'
      obtain ⟨h1, h2⟩ := hb l l' h h'
      intro x hx
      constructor <;> omega

theorem kappa_start {cfg cfg' : Cfg} (hle : CfgLe cfg cfg') (st st' : St) (ho : st'.out = st.out)
    (hb : ∀ l l', cfg.callLimit = some l → cfg'.callLimit = some l' → st.calls ≤ st'.calls) :
    T (kappa cfg' st.calls st'.calls) st = st' := by
  have hc := hle.call
  unfold T kappa
  cases h' : cfg'.callLimit with
  | none => simp only; rw [← ho]
  | some l' =>
    cases h : cfg.callLimit with
    | none => simp [h, h', optLe] at hc
    | some l =>
      have := hb l l' h h'
      simp only
      rw [← ho, show st.calls + (st'.calls - st.calls) = st'.calls by omega]

theorem not_viol_iff (r : Res) : Res.isViol r = false ↔ ∀ k, r ≠ .viol k := by
  cases r <;> simp [Res.isViol]

theorem ex_not_viol_iff {α} (x : Except Res α) : exViol x = false ↔ ∀ k, x ≠ .error (.viol k) := by
  cases x with
  | ok a => simp [exViol]
  | error r => cases r <;> simp [exViol, Res.isViol]

end XrayModel.CoreLimitsSim