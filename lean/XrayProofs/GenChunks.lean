/- the denotation of `chunks` (C16) -/
import XrayProofs.GenPrefix
namespace XrayModel.Gen

/-- chunking with the partial chunk `s` carried along: a chunk is emitted as soon as it is full, the last one (if
shorter and non-empty) at the end -/
def chunkGo (n : Nat) : List V → List V → List (List V)
  | s, [] => if 0 < s.length && s.length < n then [s] else []
  | s, v :: vs =>
    let s' := (if s.length < n then s else []) ++ [v]
    (if s'.length == n then [s'] else []) ++ chunkGo n s' vs

/-- the items `chunks` feeds to its aggregate: `some(v)` for every element, then `none()` -/
def chItems (vs : List V) : List Item := vs.map (fun v => Item.val (.tup [v])) ++ [.val (.tup [])]

theorem chunks_list (n : Nat) : ∀ (vs : List V) (s : List V) (d : Int),
    ((scanItems (chStep n) (.val (.tup [.seq s, .int d])) (chItems vs)).filterMap (filt (chKeep n))).map (mapItem chOut) =
      (chunkGo n s vs).map (fun c => Item.val (.seq c)) := by
  intro vs
  induction vs with
  | nil =>
    intro s d
    simp only [chItems, List.map_nil, List.nil_append, scanItems, chStep, chunkGo]
    by_cases h : (0 < s.length && s.length < n) = true
    · have h' : (decide (s.length > 0) && decide (s.length < n)) = true := by simpa using h
      simp [h, h', filt, chKeep, mapItem, chOut]
    · have h' : (decide (s.length > 0) && decide (s.length < n)) = false := by simpa using h
      have h'' : (0 < s.length && s.length < n) = false := by simpa using h
      simp [h'', h', filt, chKeep]
  | cons v vs ih =>
    intro s d
    have hstep : chStep n (.val (.tup [.seq s, .int d])) (.val (.tup [v])) =
        .val (.tup [.seq ((if s.length < n then s else []) ++ [v]), .int 0]) := rfl
    simp only [chItems, List.map_cons, List.cons_append, scanItems, hstep, chunkGo]
    generalize (if s.length < n then s else []) ++ [v] = s'
    have := ih s' 0
    simp only [chItems] at this
    by_cases hl : (s'.length == n) = true
    · have hk : filt (chKeep n) (.val (.tup [.seq s', .int 0])) = some (.val (.tup [.seq s', .int 0])) := by
        simp [filt, chKeep, hl]
      rw [List.filterMap_cons, hk]
      simp only [List.map_cons, hl, ↓reduceIte, this]
      simp [mapItem, chOut]
    · have hl' : (s'.length == n) = false := by simpa using hl
      have hk : filt (chKeep n) (.val (.tup [.seq s', .int 0])) = none := by
        simp [filt, chKeep, hl']
      rw [List.filterMap_cons, hk]
      simp only [hl', Bool.false_eq_true, ↓reduceIte, this]
      simp


theorem scanItems_length (f : F2) : ∀ (xs : List Item) (st : Item), (scanItems f st xs).length = xs.length := by
  intro xs
  induction xs with
  | nil => intro st; rfl
  | cons x xs ih =>
    intro st
    cases x with
    | viol => simp [scanItems, ih]
    | err => simp only [scanItems]; generalize f st Item.err = r; cases r <;> simp [ih]
    | val v => simp only [scanItems]; generalize f st (Item.val v) = r; cases r <;> simp [ih]

/-- `chunks(n)` over a finite generator of values denotes the chunks of its list -/
theorem chunks_den (L : Option Nat) (g : G) (n : Nat) (vs : List V)
    (h : Den L (g.start L) (vs.map Item.val)) (hc : (Permits.ofLimit L).covers (vs.length + 2)) :
    Den L ((g.chunks n).start L) ((chunkGo n [] vs).map (fun c => Item.val (.seq c))) := by
  have hmk : (G.map g chWrap).mkChain (.fromArr [.tup []]) = .chain [.map g chWrap, .fromArr [.tup []]] := rfl
  unfold G.chunks
  rw [hmk]
  simp only [G.start]
  -- the chain: the wrapped elements, then `none()`
  have hwrap : Den L ((G.map g chWrap).start L) ((vs.map Item.val).map (mapItem chWrap)) := by
    rw [G.start]; exact den_map chWrap h
  have hnone : Den L ((G.fromArr [.tup []]).start L) [.val (.tup [])] := by
    rw [G.start]; simpa using den_arr L [.tup []]
  have hparts : DenParts L [.map g chWrap, .fromArr [.tup []]] (chItems vs) := by
    have := DenParts.cons hwrap (DenParts.cons hnone DenParts.nil)
    simpa [chItems, List.map_map, Function.comp_def, mapItem, chWrap] using this
  have hchain := den_chain_parts L _ _ _ _ (den_arr_nil L) hparts
  simp only [List.nil_append] at hchain
  have hagg := den_aggregate (chStep n) chInit hchain
  have hlen : (chInit :: scanItems (chStep n) chInit (chItems vs)).length = vs.length + 2 := by
    simp [scanItems_length, chItems]
  have hfil := den_filter (chKeep n) (Permits.ofLimit L) hagg (by rw [hlen]; exact hc)
  have hmap := den_map chOut hfil
  have hinit : filt (chKeep n) chInit = none := by simp [filt, chKeep, chInit]
  rw [List.filterMap_cons, hinit] at hmap
  have := chunks_list n vs [] 1
  simp only [chInit] at hmap
  rw [this] at hmap
  exact hmap

end XrayModel.Gen
