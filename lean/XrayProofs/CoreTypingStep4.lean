/- C01: step lemmas, part 4 (transitivity of assignability, joins, the expression evaluator). -/
import XrayProofs.CoreTypingStep2
namespace XrayModel.CoreTyping
open XrayModel.Core

theorem sub_trans : ∀ a b c : Ty, sub a b = true → sub b c = true → sub a c = true := by
  intro a
  refine Ty.rec (motive_1 := fun a => ∀ b c : Ty, sub a b = true → sub b c = true → sub a c = true)
    (motive_2 := fun as => ∀ bs cs : List Ty, subList as bs = true → subList bs cs = true → subList as cs = true)
    ?_ ?_ ?_ ?_ ?_ ?_ ?_ ?_ ?_ a
  · intro b c h1 h2; cases b <;> cases c <;> simp_all [sub]
  · intro b c h1 h2; cases b <;> cases c <;> simp_all [sub]
  · intro b c h1 h2; cases b <;> cases c <;> simp_all [sub]
  · intro b c h1 h2; simp [sub]
  · intro ts ih b c h1 h2
    cases b <;> simp [sub] at h1
    cases c <;> simp [sub] at h2
    simp only [sub]; exact ih _ _ h1 h2
  · intro t ih b c h1 h2
    cases b <;> simp [sub] at h1
    cases c <;> simp [sub] at h2
    simp only [sub]; exact ih _ _ h1 h2
  · intro r o t _ _ _ b c h1 h2
    cases b <;> simp [sub] at h1
    obtain ⟨⟨e1, e2⟩, e3⟩ := h1
    have := Ty.beqList_eq _ _ e1; have := Ty.beqList_eq _ _ e2; have := Ty.beq_eq _ _ e3
    subst_vars
    exact h2
  · intro bs cs h1 h2
    cases bs <;> simp [subList] at h1
    exact h2
  · intro a as iha ihas bs cs h1 h2
    cases bs <;> simp [subList] at h1
    cases cs <;> simp [subList] at h2
    simp only [subList, Bool.and_eq_true]
    exact ⟨iha _ _ h1.1 h2.1, ihas _ _ h1.2 h2.2⟩

theorem join_sound {a b j : Ty} (h : join a b = some j) : sub a j = true ∧ sub b j = true := by
  unfold join at h
  split at h
  · simp only [Option.some.injEq] at h; subst h; exact ⟨by assumption, sub_refl _⟩
  · split at h
    · simp only [Option.some.injEq] at h; subst h; exact ⟨sub_refl _, by assumption⟩
    · cases h

theorem joinAll_sound : ∀ (ts : List Ty) (acc t : Ty) (vs : List Val), joinAll acc ts = some t → HasTys vs ts →
    sub acc t = true ∧ AllTy vs t
  | [], acc, t, vs, h, hv => by
      cases hv
      simp only [joinAll, Option.some.injEq] at h
      subst h
      exact ⟨sub_refl _, .nil⟩
  | t1 :: ts, acc, t, vs, h, hv => by
      cases hv with
      | cons h1 hr =>
        simp only [joinAll] at h
        split at h
        · rename_i j hj
          obtain ⟨ha, hb⟩ := join_sound hj
          obtain ⟨hjt, hall⟩ := joinAll_sound ts j t _ h hr
          exact ⟨sub_trans _ _ _ ha hjt, .cons (HasTy.mono _ _ (sub_trans _ _ _ hb hjt) h1) hall⟩
        · cases h


theorem lookupTy_last {f : String} {Γe : TyEnv} {σ : Ty} (h : lookupTy f Γe = none) :
    lookupTy f (Γe ++ [(f, σ)]) = some σ := by
  rw [lookupTy_append_none f _ _ h]; simp [lookupTy]

theorem step_eval {n : Nat} (ih : Inv n) : ∀ cfg fr e tail st Γ τ, FrameTy fr Γ → check Γ e = some τ →
    ResOk Γ fr tail τ (eval (n+1) cfg fr (eraseE e) tail st).1 := by
  intro cfg fr e tail st Γ τ hfr hc
  cases e with
  | int k => simp only [check, Option.some.injEq] at hc; subst hc; simp [eraseE, eval, ResOk]; exact .int _
  | bool k => simp only [check, Option.some.injEq] at hc; subst hc; simp [eraseE, eval, ResOk]; exact .bool _
  | str k => simp only [check, Option.some.injEq] at hc; subst hc; simp [eraseE, eval, ResOk]; exact .str _
  | var x =>
    simp only [check] at hc
    simp only [eraseE, eval, Frame.get_eq]
    rcases lookup_envTy fr.eff Γ x hfr with ⟨_, h2⟩ | ⟨v, t, h1, h2, hv⟩
    · rw [h2] at hc; cases hc
    · rw [h2] at hc; simp only [Option.some.injEq] at hc; subst hc
      rw [h1]; simpa [ResOk] using hv
  | tup es =>
    simp only [check] at hc
    cases hl : checkList Γ es with
    | none => simp [hl] at hc
    | some ts =>
      simp only [hl, Option.map_some, Option.some.injEq] at hc
      subst hc
      have ihl := ih.evalList cfg fr es st Γ ts hfr hl
      simp only [eraseE, eval]
      generalize evalList n cfg fr (eraseEs es) st = r at ihl ⊢
      obtain ⟨r1, r2⟩ := r
      cases r1 with
      | ok vs => simp only [ListOk] at ihl; simp only [ResOk]; exact .tup ihl.1
      | error x => simpa [ListOk] using ErrOk.resOk ihl
  | arr es =>
    simp only [check] at hc
    split at hc
    · rename_i ts hl
      cases hj : joinAll .unk ts with
      | none => simp [hj] at hc
      | some t =>
        simp only [hj, Option.map_some, Option.some.injEq] at hc
        subst hc
        have ihl := ih.evalList cfg fr es st Γ ts hfr hl
        simp only [eraseE, eval]
        generalize evalList n cfg fr (eraseEs es) st = r at ihl ⊢
        obtain ⟨r1, r2⟩ := r
        cases r1 with
        | ok vs => simp only [ListOk] at ihl; simp only [ResOk]; exact .arr (joinAll_sound ts _ t vs hj ihl.1).2
        | error x => simpa [ListOk] using ErrOk.resOk ihl
    · cases hc
  | item e i =>
    simp only [check] at hc
    split at hc
    · rename_i ts he
      have ihe := ih.eval cfg fr e false st Γ _ hfr he
      simp only [eraseE, eval]
      generalize eval n cfg fr (eraseE e) false st = r at ihe ⊢
      obtain ⟨r1, r2⟩ := r
      cases r1 with
      | val v =>
        simp only [ResOk] at ihe
        rcases ihe.tup_inv with ⟨vs, rfl, hvs⟩ | ⟨m, rfl⟩
        · obtain ⟨v', h1, h2⟩ := HasTys.get i hvs hc
          simp only [h1]; simpa [ResOk] using h2
        · simp [ResOk]; exact .err _ _
      | tail a => simp [ResOk] at ihe
      | stuck w => simp [ResOk] at ihe
      | viol k => simp [ResOk]
      | oof => simp [ResOk]
    · cases hc
  | lam f =>
    simp only [check] at hc
    simp only [eraseE, eval]
    exact (ih.mkClos cfg fr f st Γ τ hfr hc).resOk
  | callE fe args =>
    simp only [check] at hc
    split at hc
    · rename_i req opt ret ats hf hl
      split at hc
      · rename_i hca
        simp only [Option.some.injEq] at hc
        subst hc
        have ihe := ih.eval cfg fr fe false st Γ _ hfr hf
        simp only [eraseE, eval]
        generalize eval n cfg fr (eraseE fe) false st = r at ihe ⊢
        obtain ⟨r1, r2⟩ := r
        cases r1 with
        | val v =>
          simp only [ResOk] at ihe
          have key := (ih.callVal cfg fr v args tail r2 Γ req opt _ ats hfr ihe hl hca).resOk (Γ := Γ) (fr := fr) (tail := tail)
          cases v <;> first | exact key | (simp [ResOk]; exact .err _ _)
        | tail a => simp [ResOk] at ihe
        | stuck w => simp [ResOk] at ihe
        | viol k => simp [ResOk]
        | oof => simp [ResOk]
      · cases hc
    · cases hc
  | call f args =>
    simp only [eraseE, eval]
    cases hself : fr.self with
    | none => exact ih.callNamed cfg fr f args tail st Γ τ hfr hc
    | some s =>
      obtain ⟨selfName, selfClos⟩ := s
      simp only
      split
      · rename_i hcond
        simp only [Bool.and_eq_true, decide_eq_true_eq, Option.isNone_iff_eq_none] at hcond
        obtain ⟨rfl, hnone⟩ := hcond
        have hfr' : EnvTy (fr.env ++ [(f, selfClos)]) Γ := by
          have := hfr; unfold FrameTy Frame.eff at this; rw [hself] at this; exact this
        obtain ⟨Γe, σ, rfl, henv, hcl⟩ := EnvTy.split_last _ _ _ _ hfr'
        have hlk : lookupTy f (Γe ++ [(f, σ)]) = some σ := lookupTy_last (EnvTy.lookup_none _ _ _ henv hnone)
        simp only [check] at hc
        split at hc
        · cases hc
        · rename_i ats hl
          rw [hlk] at hc
          split at hc
          · rename_i req opt ret heq
            simp only [Option.some.injEq] at heq
            subst heq
            split at hc
            · rename_i hca
              simp only [Option.some.injEq] at hc
              subst hc
              split
              · -- tail self-call
                have ihl := ih.evalList cfg fr args st _ ats hfr hl
                generalize evalList n cfg fr (eraseEs args) st = r at ihl ⊢
                obtain ⟨r1, r2⟩ := r
                cases r1 with
                | ok vs =>
                  simp only [ListOk] at ihl
                  simp only [ResOk]
                  rename_i htail
                  simp only [Bool.and_eq_true] at htail
                  exact ⟨htail.1, f, selfClos, req, opt, _, hself, lastTy_snoc _ _, ats, ihl.1, hca⟩
                | error x => simpa [ListOk] using ErrOk.resOk ihl
              · exact (ih.callVal cfg fr selfClos args tail st _ req opt _ ats hfr hcl hl hca).resOk
            · cases hc
          · cases hc
          · rename_i hno; simp at hno
      · exact ih.callNamed cfg fr f args tail st Γ τ hfr hc

end XrayModel.CoreTyping
