/- C20 helper lemmas: datetime ↔ Unix seconds over an abstract float carrier with exact-arithmetic laws -/
import XrayProofs.ConvDate
namespace XrayModel.Conv
open XrayGen

/-- law of exact arithmetic on the float carrier: with `u = ⌊t/60⌋`, `(t - 60u) + 60u = t` -/
def DivModLaw {F : Type} (O : FloatOps F) : Prop :=
  ∀ t : F, O.add (O.ofInt (O.floorDiv t (O.lit 600 1) * 60)) (O.sub t (O.ofInt (O.floorDiv t (O.lit 600 1) * 60))) = t

/-- `s` is a seconds value in [0, 60) -/
def SecondsInRange {F : Type} (O : FloatOps F) (s : F) : Prop :=
  O.floorDiv s (O.lit 600 1) = 0

/-- adding whole minutes to seconds in [0, 60) and splitting again gives the parts back -/
def AddLaw {F : Type} (O : FloatOps F) : Prop :=
  ∀ (k : Int) (s : F), SecondsInRange O s →
    O.floorDiv (O.add (O.ofInt (k * 60)) s) (O.lit 600 1) = k ∧ O.sub (O.add (O.ofInt (k * 60)) s) (O.ofInt (k * 60)) = s

theorem fix_lit : (fixOps 1048576).lit 600 1 = 62914560 := by decide +kernel

theorem fix_divmod : DivModLaw (fixOps 1048576) := by
  intro t
  rw [fix_lit]
  show Int.fdiv t 62914560 * 60 * 1048576 + (t - Int.fdiv t 62914560 * 60 * 1048576) = t
  omega

theorem fix_add : AddLaw (fixOps 1048576) := by
  intro k s hs
  unfold SecondsInRange at hs
  rw [fix_lit] at *
  have h1 : Int.fdiv s 62914560 = 0 := hs
  show Int.fdiv (k * 60 * 1048576 + s) 62914560 = k ∧ (k * 60 * 1048576 + s) - k * 60 * 1048576 = s
  rw [Int.fdiv_eq_ediv_of_nonneg _ (by decide)] at *
  omega

theorem minutes_split (u : Int) :
    (((u.fdiv 60).fdiv 24 + julian_day std_unix_epoch - julian_day std_unix_epoch) * 86400 +
      (u.fdiv 60).fmod 24 * 60 * 60 + u.fmod 60 * 60) = 60 * u := by
  rw [fdiv_lit _ 60 (by decide), fdiv_lit _ 24 (by decide), fmod_lit _ 24 (by decide), fmod_lit _ 60 (by decide)]
  omega

theorem unix_datetime {F : Type} (O : FloatOps F) (law : DivModLaw O) (t : F) : unix O (datetime O t) = t := by
  unfold unix datetime add_int_float
  simp only []
  rw [(good_all _).1, minutes_split, Int.mul_comm 60]
  exact law t

theorem datetime_unix {F : Type} (O : FloatOps F) (law : AddLaw O) (dt : Datetime F)
    (hv : DateValid dt.date) (hh : 0 ≤ dt.hours ∧ dt.hours < 24) (hm : 0 ≤ dt.minutes ∧ dt.minutes < 60)
    (hs : SecondsInRange O dt.seconds) : datetime O (unix O dt) = dt := by
  obtain ⟨d, h, m, s⟩ := dt
  simp only at hv hh hm hs
  unfold unix datetime add_int_float
  simp only []
  have e : ((julian_day d - julian_day std_unix_epoch) * 86400 + h * 60 * 60 + m * 60) =
      ((julian_day d - julian_day std_unix_epoch) * 1440 + h * 60 + m) * 60 := by omega
  rw [e]
  obtain ⟨l1, l2⟩ := law ((julian_day d - julian_day std_unix_epoch) * 1440 + h * 60 + m) s hs
  rw [l1, l2]
  have a1 : Int.fmod ((julian_day d - julian_day std_unix_epoch) * 1440 + h * 60 + m) 60 = m := by
    rw [fmod_lit _ 60 (by decide)]; omega
  have a2 : Int.fdiv ((julian_day d - julian_day std_unix_epoch) * 1440 + h * 60 + m) 60 =
      (julian_day d - julian_day std_unix_epoch) * 24 + h := by
    rw [fdiv_lit _ 60 (by decide)]; omega
  rw [a1, a2]
  have a3 : Int.fmod ((julian_day d - julian_day std_unix_epoch) * 24 + h) 24 = h := by
    rw [fmod_lit _ 24 (by decide)]; omega
  have a4 : Int.fdiv ((julian_day d - julian_day std_unix_epoch) * 24 + h) 24 + julian_day std_unix_epoch = julian_day d := by
    rw [fdiv_lit _ 24 (by decide)]; omega
  rw [a3, a4]
  have a5 : date (julian_day d) = d := by
    cases d with
    | mk y mo dd => exact back_all y mo dd hv
  rw [a5]

/-- the integer fields of `datetime t` are canonical whatever the float operations are -/
theorem datetime_fields {F : Type} (O : FloatOps F) (t : F) :
    DateValid (datetime O t).date ∧ 0 ≤ (datetime O t).hours ∧ (datetime O t).hours < 24 ∧
      0 ≤ (datetime O t).minutes ∧ (datetime O t).minutes < 60 := by
  unfold datetime
  simp only []
  refine ⟨(good_all _).2.1, ?_, ?_, ?_, ?_⟩ <;>
    (first | rw [fmod_lit _ 24 (by decide)] | rw [fmod_lit _ 60 (by decide)]) <;> omega

end XrayModel.Conv
