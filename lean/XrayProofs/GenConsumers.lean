/- consumers of generators and library compositions, against the denoted lists (C16) -/
import XrayProofs.Gen
namespace XrayModel.Gen

/-- a total boolean predicate on values, as a callback -/
def pureP (q : V → Bool) : P
  | .val v => if q v then .t else .f
  | .err => .err
  | .viol => .viol

theorem lenLoop_den (L : Option Nat) : ∀ n it (vs : List V) k,
    after L n it = none → outs L n it = vs.map Item.val → lenLoop L n it k = .ok (k + vs.length) := by
  intro n
  induction n with
  | zero => intro it vs k h; simp [after] at h
  | succ n ih =>
    intro it vs k h ho
    simp only [after] at h
    simp only [outs] at ho
    simp only [lenLoop]
    cases hs : step L it with
    | done => simp only [hs] at ho; cases vs with | nil => simp | cons v vs => simp at ho
    | skip s => simp only [hs] at h ho; simpa using ih s vs k h ho
    | «yield» x s =>
      simp only [hs] at h ho
      cases vs with
      | nil => simp at ho
      | cons v vs =>
        simp only [List.map_cons, List.cons.injEq] at ho
        obtain ⟨hx, ho⟩ := ho
        subst hx
        have := ih s vs (k + 1) h ho
        simp only [List.length_cons]
        rw [this]; congr 1; omega

def lastSpec : Option V → List V → Option V
  | r, [] => r
  | _, v :: vs => lastSpec (some v) vs

theorem lastSpec_eq : ∀ (vs : List V) (r : Option V),
    lastSpec r vs = (match vs.getLast? with | some v => some v | none => r) := by
  intro vs
  induction vs with
  | nil => intro r; rfl
  | cons v vs ih =>
    intro r
    rw [lastSpec, ih]
    cases vs with
    | nil => rfl
    | cons w ws =>
      rw [List.getLast?_cons_cons]
      cases hl : (w :: ws).getLast? with
      | some u => rfl
      | none => simp at hl

theorem lastLoop_den (L : Option Nat) : ∀ n it (vs : List V) r,
    after L n it = none → outs L n it = vs.map Item.val →
      lastLoop L n it r = (match lastSpec r vs with | some v => .ok v | none => .err) := by
  intro n
  induction n with
  | zero => intro it vs r h; simp [after] at h
  | succ n ih =>
    intro it vs r h ho
    simp only [after] at h
    simp only [outs] at ho
    simp only [lastLoop]
    cases hs : step L it with
    | done => simp only [hs] at ho; cases vs with | nil => (simp only [lastSpec]; cases r <;> rfl) | cons v vs => simp at ho
    | skip s => simp only [hs] at h ho; simpa using ih s vs r h ho
    | «yield» x s =>
      simp only [hs] at h ho
      cases vs with
      | nil => simp at ho
      | cons v vs =>
        simp only [List.map_cons, List.cons.injEq] at ho
        obtain ⟨hx, ho⟩ := ho
        subst hx
        simpa [lastSpec] using ih s vs (some v) h ho

theorem getLoop_den (L : Option Nat) : ∀ n it (vs : List V) idx,
    after L n it = none → outs L n it = vs.map Item.val →
      getLoop L n it idx = (match vs[idx]? with | some v => .ok v | none => .err) := by
  intro n
  induction n with
  | zero => intro it vs idx h; simp [after] at h
  | succ n ih =>
    intro it vs idx h ho
    simp only [after] at h
    simp only [outs] at ho
    simp only [getLoop]
    cases hs : step L it with
    | done => simp only [hs] at ho; cases vs with | nil => simp | cons v vs => simp at ho
    | skip s => simp only [hs] at h ho; simpa using ih s vs idx h ho
    | «yield» x s =>
      simp only [hs] at h ho
      cases vs with
      | nil => simp at ho
      | cons v vs =>
        simp only [List.map_cons, List.cons.injEq] at ho
        obtain ⟨hx, ho⟩ := ho
        subst hx
        cases idx with
        | zero => simp
        | succ i => simpa using ih s vs i h ho

theorem nthLoop_den (L : Option Nat) (q : V → Bool) : ∀ n it (vs : List V) k,
    after L n it = none → outs L n it = vs.map Item.val →
      nthLoop L (pureP q) n it k = .ok ((vs.filter q)[k]?) := by
  intro n
  induction n with
  | zero => intro it vs k h; simp [after] at h
  | succ n ih =>
    intro it vs k h ho
    simp only [after] at h
    simp only [outs] at ho
    simp only [nthLoop]
    cases hs : step L it with
    | done => simp only [hs] at ho; cases vs with | nil => simp | cons v vs => simp at ho
    | skip s => simp only [hs] at h ho; simpa using ih s vs k h ho
    | «yield» x s =>
      simp only [hs] at h ho
      cases vs with
      | nil => simp at ho
      | cons v vs =>
        simp only [List.map_cons, List.cons.injEq] at ho
        obtain ⟨hx, ho⟩ := ho
        subst hx
        simp only [pureP, List.filter_cons]
        cases hq : q v with
        | false => simpa using ih s vs k h ho
        | true =>
          cases k with
          | zero => simp
          | succ j => simpa using ih s vs j h ho

/-- the search-permit accounting of `nth`: every inspected element takes a permit of the consumer's budget, so a
search that finds nothing among the first `l` elements ends in the violation -/
theorem nthLoop_permits (L : Option Nat) (k : Nat) : ∀ (j i : Nat),
    nthLoop L (fun _ => .f) (j + 2) (.budget (.count i none) (.left j)) k = .viol := by
  intro j
  induction j with
  | zero => intro i; simp [nthLoop, step, Permits.next]
  | succ j ih =>
    intro i
    rw [nthLoop]
    simp only [step, Permits.next]
    exact ih (i + 1)

/-! ### library compositions -/

/-- what `distinct` keeps: the elements that match no key kept before -/
def dedupBy (eq : V → V → Bool) : List V → List V → List V
  | _, [] => []
  | keys, v :: vs =>
    if keys.any (fun k => eq k v) then dedupBy eq keys vs else v :: dedupBy eq (keys ++ [v]) vs

theorem bump_spec (eq : V → V → Bool) (v : V) : ∀ (seen : List (V × Nat)), (∀ e ∈ seen, e.2 ≥ 1) →
    ((bump eq v seen).1 = 1 ↔ (seen.map Prod.fst).any (fun k => eq k v) = false) ∧
    ((bump eq v seen).2.map Prod.fst =
      if (seen.map Prod.fst).any (fun k => eq k v) then seen.map Prod.fst else seen.map Prod.fst ++ [v]) ∧
    (∀ e ∈ (bump eq v seen).2, e.2 ≥ 1) := by
  intro seen
  induction seen with
  | nil => intro _; simp [bump]
  | cons e rest ih =>
    intro hpos
    obtain ⟨k, n⟩ := e
    have hn : n ≥ 1 := hpos (k, n) (by simp)
    have ih' := ih (fun e he => hpos e (by simp [he]))
    simp only [bump]
    by_cases hk : eq k v = true
    · simp only [hk, ↓reduceIte, List.map_cons, List.any_cons, Bool.true_or]
      refine ⟨by simp; omega, by simp, ?_⟩
      intro e he
      simp only [List.mem_cons] at he
      rcases he with rfl | he
      · simp
      · exact hpos e (by simp [he])
    · simp only [hk, Bool.false_eq_true, ↓reduceIte, List.map_cons, List.any_cons, Bool.false_or]
      refine ⟨ih'.1, ?_, ?_⟩
      · rw [ih'.2.1]; split <;> simp
      · intro e he
        simp only [List.mem_cons] at he
        rcases he with rfl | he
        · exact hn
        · exact ih'.2.2 e he


def firstP : P := fun | .val (.tup [_, .int n]) => if n == 1 then .t else .f | .viol => .viol | _ => .err
def projF : F := fun | .val (.tup [v, _]) => .val v | .viol => .viol | _ => .err

theorem distinct_list (eq : V → V → Bool) : ∀ (vs : List V) (seen : List (V × Nat)), (∀ e ∈ seen, e.2 ≥ 1) →
    ((wcItems eq seen (vs.map Item.val)).filterMap (filt firstP)).map (mapItem projF) =
      (dedupBy eq (seen.map Prod.fst) vs).map Item.val := by
  intro vs
  induction vs with
  | nil => intro seen _; simp [wcItems, dedupBy]
  | cons v vs ih =>
    intro seen hpos
    obtain ⟨h1, h2, h3⟩ := bump_spec eq v seen hpos
    simp only [List.map_cons, wcItems, List.filterMap_cons, dedupBy]
    by_cases hany : (seen.map Prod.fst).any (fun k => eq k v) = true
    · have hne : (bump eq v seen).1 ≠ 1 := by
        intro h; have := h1.mp h; simp [hany] at this
      have hf : filt firstP (.val (.tup [v, .int ((bump eq v seen).1 : Nat)])) = none := by
        simp only [filt, firstP]
        have : ((((bump eq v seen).1 : Nat) : Int) == 1) = false := by
          simp only [beq_eq_false_iff_ne, ne_eq]; omega
        simp [this]
      rw [hf]
      simp only [hany, ↓reduceIte]
      rw [ih _ h3, h2]; simp [hany]
    · have hany' : (seen.map Prod.fst).any (fun k => eq k v) = false := by simpa using hany
      have h1' : (bump eq v seen).1 = 1 := h1.mpr hany'
      have hf : filt firstP (.val (.tup [v, .int ((bump eq v seen).1 : Nat)])) =
          some (.val (.tup [v, .int ((bump eq v seen).1 : Nat)])) := by
        simp [filt, firstP, h1']
      rw [hf]
      simp only [hany', Bool.false_eq_true, ↓reduceIte, List.map_cons]
      rw [ih _ h3, h2]
      simp [hany', mapItem, projF]

/-- the parts of a left fold of `add` over generators that are not chains themselves -/
theorem flattenAll_parts : ∀ (gs : List G) (acc : G),
    (gs.foldl G.mkChain acc).parts = acc.parts ++ gs.flatMap G.parts := by
  intro gs
  induction gs with
  | nil => intro acc; simp
  | cons g gs ih =>
    intro acc
    rw [List.foldl_cons, ih, mkChain_parts]
    simp [G.parts, List.append_assoc]

theorem denParts_flatMap (L : Option Nat) : ∀ (gs : List G) (xss : List (List Item)),
    List.length gs = List.length xss → (∀ i (h : i < gs.length) (h' : i < xss.length), DenParts L gs[i].parts xss[i]) →
    DenParts L (gs.flatMap G.parts) xss.flatten := by
  intro gs
  induction gs with
  | nil => intro xss hl _; cases xss with | nil => exact DenParts.nil | cons _ _ => simp at hl
  | cons g gs ih =>
    intro xss hl h
    cases xss with
    | nil => simp at hl
    | cons xs xss =>
      simp only [List.flatMap_cons, List.flatten_cons]
      refine denParts_append (h 0 (by simp) (by simp)) (ih xss (by simpa using hl) ?_)
      intro i hi hi'
      have := h (i + 1) (by simp; omega) (by simp; omega)
      simpa using this

/-- `reduce` over an infinite generator never returns a value, whatever the function: this is why `flatten`,
written as `reduce(.., add)`, is not lazy in its outer generator (the known finding) -/
theorem lastLoop_infinite (f : F2) : ∀ (fuel i : Nat) (st : Item) (first : Bool) (r : Option V) (v : V),
    lastLoop none fuel (.budget (.aggregate (.count i none) st f first) .unlimited) r ≠ .ok v := by
  intro fuel
  induction fuel with
  | zero => intro i st first r v; simp [lastLoop]
  | succ n ih =>
    intro i st first r v
    cases first with
    | true =>
      simp only [lastLoop, step, ↓reduceIte, Permits.next]
      cases st with
      | val w => exact ih i _ false _ v
      | err => simp
      | viol => simp
    | false =>
      simp only [lastLoop, step, Bool.false_eq_true, ↓reduceIte, Permits.next]
      generalize f st (Item.val (V.int (i : Int))) = res
      cases res with
      | val w => exact ih (i + 1) _ false _ v
      | err => simp
      | viol => simp


theorem foldl_mkChain_chain : ∀ (gs : List G) (a : G), gs ≠ [] →
    gs.foldl G.mkChain a = .chain (a.parts ++ gs.flatMap G.parts) := by
  intro gs
  induction gs with
  | nil => intro a h; exact absurd rfl h
  | cons g gs ih =>
    intro a _
    rw [List.foldl_cons]
    cases gs with
    | nil => simp [mkChain_parts]
    | cons g' gs' =>
      rw [ih (a.mkChain g) (by simp), mkChain_parts]
      simp [G.parts, List.append_assoc]

end XrayModel.Gen
