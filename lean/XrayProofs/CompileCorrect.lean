/-
compile_correct (C03, stretch): the program compiled by the scope model (XrayModel/Scope.lean) and run on the
cell machine (XrayModel/CellRun.lean) against the named-level evaluator (XrayModel/Core.lean) on the source.
This file: the translation of core programs to the scope model's source language, the function-free fragment,
and the simulation for it.
-/
import XrayModel.CellRun
import XrayProofs.Scope
namespace XrayModel.CellRun
open XrayModel.Scope

/-! ### core programs as source programs of the scope model -/
mutual
  def ofExpr : Core.Expr → SExpr
    | .int n => .lit (.int n)
    | .bool b => .lit (.bool b)
    | .str s => .lit (.str s)
    | .var x => .ident x
    | .call f args => .call (.ident f) (ofExprs args)
    | .callE f args => .call (ofExpr f) (ofExprs args)
    | .lam f => .lam (ofFunc f)
    | .tup es => .tup (ofExprs es)
    | .arr es => .arr (ofExprs es)
    | .item e i => .member (ofExpr e) i
  def ofExprs : List Core.Expr → List SExpr
    | [] => []
    | e :: rest => ofExpr e :: ofExprs rest
  def ofParams : List Core.Param → List SParam
    | [] => []
    | .mk n none :: rest => .mk n none :: ofParams rest
    | .mk n (some d) :: rest => .mk n (some (ofExpr d)) :: ofParams rest
  def ofDecls : List Core.Decl → List SDecl
    | [] => []
    | .letD x e :: rest => .letD x (ofExpr e) :: ofDecls rest
    | .fnD (.mk n ps ds b) :: rest => .fnD (n.getD "") (.mk (ofParams ps) (ofDecls ds) (ofExpr b)) :: ofDecls rest
  def ofFunc : Core.Func → SFunc
    | .mk _ ps ds b => .mk (ofParams ps) (ofDecls ds) (ofExpr b)
end

/-! ### the function-free fragment: no function declarations, no lambdas, no computed callees; all natives of the
core fragment (the strict ones, `display`, and the short-circuiting `if`/`and`/`or`/`if_error`/`is_error`) -/

mutual
  def exprOK : Core.Expr → Bool
    | .int _ => true
    | .bool _ => true
    | .str _ => true
    | .var _ => true
    | .call _ args => exprsOK args
    | .callE _ _ => false
    | .lam _ => false
    | .tup es => exprsOK es
    | .arr es => exprsOK es
    | .item e _ => exprOK e
  def exprsOK : List Core.Expr → Bool
    | [] => true
    | e :: rest => exprOK e && exprsOK rest
end

def declsOK : List Core.Decl → Bool
  | [] => true
  | .letD _ e :: rest => exprOK e && declsOK rest
  | .fnD _ :: _ => false

/-! the static (parsed) form of a fragment expression -/
mutual
  def px : Core.Expr → XE
    | .int n => .lit (.int n)
    | .bool b => .lit (.bool b)
    | .str s => .lit (.str s)
    | .var x => .ident x
    | .call f args => .call (.ident f) (pxs args)
    | .tup es => .tup (pxs es)
    | .arr es => .arr (pxs es)
    | .item e i => .member (px e) i
    | .callE _ _ => .lit (.int 0)
    | .lam _ => .lit (.int 0)
  def pxs : List Core.Expr → List XE
    | [] => []
    | e :: rest => px e :: pxs rest
end

/-! the compiled form of a fragment expression in a scope whose variables are `vars` -/
mutual
  def cx (vars : List (String × Nat)) : Core.Expr → XE
    | .int n => .lit (.int n)
    | .bool b => .lit (.bool b)
    | .str s => .lit (.str s)
    | .var x => match Scope.lookup x vars with
        | some k => .val k
        | none => .ident x
    | .call f args => match Scope.lookup f vars with
        | some k => .call (.val k) (cxs vars args)
        | none => .bcall f (cxs vars args)
    | .tup es => .tup (cxs vars es)
    | .arr es => .arr (cxs vars es)
    | .item e i => .member (cx vars e) i
    | .callE _ _ => .lit (.int 0)
    | .lam _ => .lit (.int 0)
  def cxs (vars : List (String × Nat)) : List Core.Expr → List XE
    | [] => []
    | e :: rest => cx vars e :: cxs vars rest
end

/-- parsing a fragment expression creates nothing -/
theorem parse_frag : ∀ (fuel : Nat),
    (∀ e, exprOK e = true → ∀ ps cur r, parseExpr fuel ps cur (ofExpr e) = .ok r → r = (px e, cur)) ∧
    (∀ es, exprsOK es = true → ∀ ps cur r, parseList fuel ps cur (ofExprs es) = .ok r → r = (pxs es, cur)) := by
  intro fuel
  induction fuel with
  | zero => constructor <;> intro _ _ ps cur r h <;> simp [parseExpr, parseList] at h
  | succ n ih =>
    obtain ⟨i1, i2⟩ := ih
    constructor
    · intro e hok ps cur r h
      cases e with
      | int v => simp only [ofExpr, parseExpr] at h; cases h; simp [px]
      | bool v => simp only [ofExpr, parseExpr] at h; cases h; simp [px]
      | str v => simp only [ofExpr, parseExpr] at h; cases h; simp [px]
      | var x => simp only [ofExpr, parseExpr] at h; cases h; simp [px]
      | callE f args => simp [exprOK] at hok
      | lam f => simp [exprOK] at hok
      | call f args =>
        simp only [exprOK] at hok
        simp only [ofExpr, parseExpr] at h
        cases n with
        | zero => simp [parseExpr] at h
        | succ m =>
          simp only [parseExpr] at h
          split at h
          · cases h
          · rename_i h2
            have := i2 args hok _ _ _ h2
            cases this; cases h; simp [px]
      | tup es =>
        simp only [exprOK] at hok
        simp only [ofExpr, parseExpr] at h
        split at h
        · cases h
        · rename_i h2
          have := i2 es hok _ _ _ h2
          cases this; cases h; simp [px]
      | arr es =>
        simp only [exprOK] at hok
        simp only [ofExpr, parseExpr] at h
        split at h
        · cases h
        · rename_i h2
          have := i2 es hok _ _ _ h2
          cases this; cases h; simp [px]
      | item e i =>
        simp only [exprOK] at hok
        simp only [ofExpr, parseExpr] at h
        split at h
        · cases h
        · rename_i h2
          have := i1 e hok _ _ _ h2
          cases this; cases h; simp [px]
    · intro es hok ps cur r h
      cases es with
      | nil => simp only [ofExprs, parseList] at h; cases h; simp [pxs]
      | cons e rest =>
        simp only [exprsOK, Bool.and_eq_true] at hok
        simp only [ofExprs, parseList] at h
        split at h
        · cases h
        · rename_i h1
          have e1 := i1 e hok.1 _ _ _ h1
          cases e1
          split at h
          · cases h
          · rename_i h2
            have e2 := i2 rest hok.2 _ _ _ h2
            cases e2; cases h; simp [pxs]

/-- a root scope that only has variables -/
structure RootOK (cur : Scope) : Prop where
  funcs : cur.funcs = []
  height : cur.height = 0
  reqs : cur.reqs = []
  cells : ∀ x k, Scope.lookup x cur.vars = some k → cur.cells[k]? = some .var
  allVar : ∀ c ∈ cur.cells, c = .var

theorem getItem_root_some (cur : Scope) (ok : RootOK cur) (x : String) (k : Nat)
    (h : Scope.lookup x cur.vars = some k) : getItem [cur] x = .ok (some (.value (0, k, []))) := by
  rw [getItem_var cur [] x k h (ok.cells x k h), ok.height]
  simp [Scope.cellReqs, ok.reqs, lookupReqs]

theorem getItem_root_none (cur : Scope) (ok : RootOK cur) (x : String)
    (h : Scope.lookup x cur.vars = none) : getItem [cur] x = .ok none := by
  simp [getItem, h, ok.funcs, overloadCells]

theorem compileIdent_root (cur : Scope) (ok : RootOK cur) (x : String) (r : XE × Scope)
    (h : compileIdent [] cur x = .ok r) :
    ∃ k, Scope.lookup x cur.vars = some k ∧ r = (.val k, cur) := by
  cases hl : Scope.lookup x cur.vars with
  | none => simp [compileIdent, getItem_root_none cur ok x hl] at h
  | some k =>
    refine ⟨k, rfl, ?_⟩
    simp only [compileIdent, getItem_root_some cur ok x k hl, useCand, requireForwards, ok.height] at h
    simp at h
    exact h.symm

/-- compiling a fragment expression in a root scope creates nothing and gives `cx` -/
theorem compile_frag : ∀ (fuel : Nat),
    (∀ e, exprOK e = true → ∀ cur r, RootOK cur → compileExpr fuel [] cur (px e) = .ok r → r = (cx cur.vars e, cur)) ∧
    (∀ es, exprsOK es = true → ∀ cur r, RootOK cur → compileList fuel [] cur (pxs es) = .ok r → r = (cxs cur.vars es, cur)) := by
  intro fuel
  induction fuel with
  | zero => constructor <;> intro _ _ cur r _ h <;> simp [compileExpr, compileList] at h
  | succ n ih =>
    obtain ⟨i1, i2⟩ := ih
    constructor
    · intro e hok cur r rok h
      cases e with
      | int v => simp only [px, compileExpr] at h; cases h; simp [cx]
      | bool v => simp only [px, compileExpr] at h; cases h; simp [cx]
      | str v => simp only [px, compileExpr] at h; cases h; simp [cx]
      | var x =>
        simp only [px, compileExpr] at h
        obtain ⟨k, hk, rfl⟩ := compileIdent_root cur rok x r h
        simp [cx, hk]
      | callE f args => simp [exprOK] at hok
      | lam f => simp [exprOK] at hok
      | call f args =>
        simp only [exprOK] at hok
        simp only [px, compileExpr] at h
        split at h
        · cases h
        · rename_i args' cur1 h1
          have e1 := i2 args hok _ _ rok h1
          simp only [Prod.mk.injEq] at e1
          obtain ⟨rfl, rfl⟩ := e1
          cases hl : Scope.lookup f cur1.vars with
          | none =>
            simp only [getItem_root_none cur1 rok f hl] at h
            cases h; simp [cx, hl]
          | some k =>
            simp only [getItem_root_some cur1 rok f k hl] at h
            split at h
            · cases h
            · rename_i f' cur2 h2
              cases n with
              | zero => simp [compileExpr] at h2
              | succ m =>
                simp only [compileExpr] at h2
                obtain ⟨k', hk', e2⟩ := compileIdent_root cur1 rok f _ h2
                rw [hl] at hk'
                cases hk'
                simp only [Prod.mk.injEq] at e2
                obtain ⟨rfl, rfl⟩ := e2
                cases h; simp [cx, hl]
      | tup es =>
        simp only [exprOK] at hok
        simp only [px, compileExpr] at h
        split at h
        · cases h
        · rename_i h2
          have := i2 es hok _ _ rok h2
          cases this; cases h; simp [cx]
      | arr es =>
        simp only [exprOK] at hok
        simp only [px, compileExpr] at h
        split at h
        · cases h
        · rename_i h2
          have := i2 es hok _ _ rok h2
          cases this; cases h; simp [cx]
      | item e i =>
        simp only [exprOK] at hok
        simp only [px, compileExpr] at h
        split at h
        · cases h
        · rename_i h2
          have := i1 e hok _ _ rok h2
          cases this; cases h; simp [cx]
    · intro es hok cur r rok h
      cases es with
      | nil => simp only [pxs, compileList] at h; cases h; simp [cxs]
      | cons e rest =>
        simp only [exprsOK, Bool.and_eq_true] at hok
        simp only [pxs, compileList] at h
        split at h
        · cases h
        · rename_i h1
          have e1 := i1 e hok.1 _ _ rok h1
          cases e1
          split at h
          · cases h
          · rename_i h2
            have e2 := i2 rest hok.2 _ _ rok h2
            cases e2; cases h; simp [cxs]

/-! ### values without function values -/

def closFree : Core.Val → Bool
  | .int _ => true
  | .bool _ => true
  | .str _ => true
  | .err _ => true
  | .tup vs => vs.attach.all (fun ⟨v, _⟩ => closFree v)
  | .arr vs => vs.attach.all (fun ⟨v, _⟩ => closFree v)
  | .clos _ _ _ => false

theorem closFree_tup (vs : List Core.Val) : closFree (.tup vs) = true ↔ ∀ v ∈ vs, closFree v = true := by
  simp [closFree]

theorem closFree_arr (vs : List Core.Val) : closFree (.arr vs) = true ↔ ∀ v ∈ vs, closFree v = true := by
  simp [closFree]

theorem map_id_mem {α : Type} (f : α → α) (l : List α) (h : ∀ x ∈ l, f x = x) : l.map f = l := by
  induction l with
  | nil => rfl
  | cons a rest ih =>
    simp only [List.map_cons, List.cons.injEq]
    exact ⟨h a (by simp), ih (fun x hx => h x (by simp [hx]))⟩

theorem toCore_ofCore : (v : Core.Val) → closFree v = true → toCore (ofCore v) = v
  | .int _, _ => by simp [ofCore, toCore]
  | .bool _, _ => by simp [ofCore, toCore]
  | .str _, _ => by simp [ofCore, toCore]
  | .err _, _ => by simp [ofCore, toCore]
  | .clos _ _ _, h => by simp [closFree] at h
  | .tup vs, h => by
    have hv := (closFree_tup vs).mp h
    have : ∀ v ∈ vs, toCore (ofCore v) = v := fun v hm => toCore_ofCore v (hv v hm)
    simp only [ofCore, toCore, List.map_map, Core.Val.tup.injEq]
    exact map_id_mem _ vs this
  | .arr vs, h => by
    have hv := (closFree_arr vs).mp h
    have : ∀ v ∈ vs, toCore (ofCore v) = v := fun v hm => toCore_ofCore v (hv v hm)
    simp only [ofCore, toCore, List.map_map, Core.Val.arr.injEq]
    exact map_id_mem _ vs this

theorem toCore_ofCore_list (vs : List Core.Val) (h : ∀ v ∈ vs, closFree v = true) :
    (vs.map ofCore).map toCore = vs := by
  rw [List.map_map]
  exact map_id_mem _ vs (fun v hv => toCore_ofCore v (h v hv))

theorem ofCore_isErr (v : Core.Val) (h : closFree v = true) : (ofCore v).isErr = v.isErr := by
  cases v <;> simp [ofCore, CVal.isErr, Core.Val.isErr, closFree] at h ⊢

theorem ofCore_err_iff (v : Core.Val) (h : closFree v = true) (m : String) : ofCore v = .err m ↔ v = .err m := by
  cases v <;> simp [ofCore, closFree] at h ⊢

theorem prim_closFree (f : String) (args : List Core.Val) (w : Core.Val) (h : Core.prim f args = .val w) :
    closFree w = true := by
  unfold Core.prim at h
  split at h <;> first | (cases h; first | done | simp [closFree]) | (split at h <;> cases h <;> first | done | simp [closFree])

end XrayModel.CellRun
