/- the general work bound for nested loops of the generator step machine (C10) -/
import XrayProofs.GenWork
namespace XrayModel.Gen

/-- `next` answers within `B` skips from `it` and from every state reachable from it within `n` steps -/
def BndN (L : Option Nat) (B : Nat) : Nat → It → Prop
  | 0, it => next L (B + 1) it ≠ .outOfFuel
  | n + 1, it => next L (B + 1) it ≠ .outOfFuel ∧
      (match step L it with
       | .done => True
       | .skip s => BndN L B n s
       | .yield _ s => BndN L B n s)

/-- from `it` and from every state reachable from it, `next()` answers after at most `B` unproductive
iterations -/
def Bnd (L : Option Nat) (B : Nat) (it : It) : Prop := ∀ n, BndN L B n it

theorem bnd_next {L B it} (h : Bnd L B it) : next L (B + 1) it ≠ .outOfFuel := by
  have := h 0; simpa [BndN] using this

theorem bnd_skip {L B it s} (h : Bnd L B it) (hs : step L it = .skip s) : Bnd L B s := by
  intro n; have := (h (n + 1)).2; simpa [hs] using this

theorem bnd_yield {L B it x s} (h : Bnd L B it) (hs : step L it = .yield x s) : Bnd L B s := by
  intro n; have := (h (n + 1)).2; simpa [hs] using this

/-- coinduction: an invariant whose states answer in time and which is closed under steps -/
theorem bnd_coind {L : Option Nat} {B : Nat} (R : It → Prop)
    (hn : ∀ it, R it → next L (B + 1) it ≠ .outOfFuel)
    (hs : ∀ it, R it → match step L it with
      | .done => True
      | .skip s => R s
      | .yield _ s => R s) :
    ∀ it, R it → Bnd L B it := by
  intro it h n
  induction n generalizing it with
  | zero => exact hn it h
  | succ n ih =>
    refine ⟨hn it h, ?_⟩
    have := hs it h
    cases hst : step L it with
    | done => trivial
    | skip s => simp only [hst] at this; exact ih s this
    | «yield» x s => simp only [hst] at this; exact ih s this

theorem next_mono (L : Option Nat) : ∀ a it, next L a it ≠ .outOfFuel → ∀ b, a ≤ b → next L b it = next L a it := by
  intro a
  induction a with
  | zero => intro it h; simp [next] at h
  | succ a ih =>
    intro it h b hb
    obtain ⟨b', rfl⟩ : ∃ b', b = b' + 1 := ⟨b - 1, by omega⟩
    simp only [next] at h ⊢
    cases hs : step L it with
    | done => rfl
    | «yield» x s => rfl
    | skip s => simp only [hs] at h; exact ih s h b' (by omega)

theorem next_mono' {L a it} (h : next L a it ≠ .outOfFuel) {b} (hb : a ≤ b) : next L b it ≠ .outOfFuel := by
  rw [next_mono L a it h b hb]; exact h

theorem bnd_mono {L B B' it} (h : Bnd L B it) (hB : B ≤ B') : Bnd L B' it := by
  refine bnd_coind (fun t => Bnd L B t) ?_ ?_ it h
  · intro t ht; exact next_mono' (bnd_next ht) (by omega)
  · intro t ht
    cases hs : step L t with
    | done => trivial
    | skip s => exact bnd_skip ht hs
    | «yield» x s => exact bnd_yield ht hs

/-- `j` consecutive skips lead from `it` to `it'` -/
def skipN (L : Option Nat) : Nat → It → Option It
  | 0, it => some it
  | n + 1, it =>
    match step L it with
    | .skip s => skipN L n s
    | _ => none

/-- an answering `next` is a run of skips followed by a step that is not a skip -/
theorem normal_form (L : Option Nat) : ∀ B it, next L (B + 1) it ≠ .outOfFuel →
    ∃ j it', j ≤ B ∧ skipN L j it = some it' ∧
      (step L it' = .done ∨ ∃ x s, step L it' = .yield x s) := by
  intro B
  induction B with
  | zero =>
    intro it h
    simp only [next] at h
    refine ⟨0, it, Nat.le_refl _, rfl, ?_⟩
    cases hs : step L it with
    | done => exact Or.inl rfl
    | «yield» x s => exact Or.inr ⟨x, s, rfl⟩
    | skip s => simp [hs, next] at h
  | succ B ih =>
    intro it h
    rw [next] at h
    cases hs : step L it with
    | done => exact ⟨0, it, by omega, rfl, Or.inl hs⟩
    | «yield» x s => exact ⟨0, it, by omega, rfl, Or.inr ⟨x, s, hs⟩⟩
    | skip s =>
      simp only [hs] at h
      obtain ⟨j, it', hj, hk, hst⟩ := ih s h
      exact ⟨j + 1, it', by omega, by simp [skipN, hs, hk], hst⟩

theorem bnd_skipN {L B} : ∀ j it it', Bnd L B it → skipN L j it = some it' → Bnd L B it' := by
  intro j
  induction j with
  | zero => intro it it' h hk; simp [skipN] at hk; subst hk; exact h
  | succ j ih =>
    intro it it' h hk
    simp only [skipN] at hk
    cases hs : step L it with
    | skip s => simp only [hs] at hk; exact ih s it' (bnd_skip h hs) hk
    | done => simp [hs] at hk
    | «yield» x s => simp [hs] at hk

/-- an adaptor that passes the skips of its source on, skips along with it -/
theorem skip_congr (L : Option Nat) (C : It → It)
    (hC : ∀ it s, step L it = .skip s → step L (C it) = .skip (C s)) :
    ∀ j it it', skipN L j it = some it' → ∀ F, next L (j + F) (C it) = next L F (C it') := by
  intro j
  induction j with
  | zero => intro it it' hk F; simp [skipN] at hk; subst hk; simp
  | succ j ih =>
    intro it it' hk F
    simp only [skipN] at hk
    cases hs : step L it with
    | skip s =>
      simp only [hs] at hk
      rw [show j + 1 + F = (j + F) + 1 by omega, next, hC it s hs]
      exact ih s it' hk F
    | done => simp [hs] at hk
    | «yield» x s => simp [hs] at hk

/-- relaxed form: the adaptor may also end instead of skipping along -/
theorem skip_congr' (L : Option Nat) (C : It → It)
    (hC : ∀ it s, step L it = .skip s → step L (C it) = .skip (C s) ∨ step L (C it) = .done) :
    ∀ j it it', skipN L j it = some it' → ∀ F, next L F (C it') ≠ .outOfFuel →
      next L (j + F) (C it) ≠ .outOfFuel := by
  intro j
  induction j with
  | zero => intro it it' hk F h; simp [skipN] at hk; subst hk; simpa using h
  | succ j ih =>
    intro it it' hk F h
    simp only [skipN] at hk
    cases hs : step L it with
    | skip s =>
      simp only [hs] at hk
      rw [show j + 1 + F = (j + F) + 1 by omega, next]
      rcases hC it s hs with h' | h'
      · rw [h']; exact ih s it' hk F h
      · rw [h']; simp
    | done => simp [hs] at hk
    | «yield» x s => simp [hs] at hk

/-- adaptors without a loop of their own keep the bound of their source -/
theorem bnd_pass {α : Type} (L : Option Nat) (B : Nat) (C : α → It → It)
    (h1 : ∀ a it s, step L it = .skip s → step L (C a it) = .skip (C a s) ∨ step L (C a it) = .done)
    (h2 : ∀ a it, step L it = .done → step L (C a it) = .done)
    (h3 : ∀ a it x s, step L it = .yield x s →
      step L (C a it) = .done ∨ ∃ y a', step L (C a it) = .yield y (C a' s)) :
    ∀ a it, Bnd L B it → Bnd L B (C a it) := by
  intro a it h
  refine bnd_coind (fun t => ∃ a it, t = C a it ∧ Bnd L B it) ?_ ?_ _ ⟨a, it, rfl, h⟩
  · rintro t ⟨a, it, rfl, h⟩
    obtain ⟨j, it', hj, hk, hst⟩ := normal_form L B it (bnd_next h)
    rw [show B + 1 = j + (B - j + 1) by omega]
    apply skip_congr' L (C a) (h1 a) j it it' hk
    rw [next]
    rcases hst with hd | ⟨x, s, hy⟩
    · rw [h2 a it' hd]; simp
    · rcases h3 a it' x s hy with h' | ⟨y, a', h'⟩ <;> rw [h'] <;> simp
  · rintro t ⟨a, it, rfl, h⟩
    cases hs : step L it with
    | done => rw [h2 a it hs]; trivial
    | skip s =>
      rcases h1 a it s hs with h' | h' <;> rw [h']
      · exact ⟨a, s, rfl, bnd_skip h hs⟩
      · trivial
    | «yield» x s =>
      rcases h3 a it x s hs with h' | ⟨y, a', h'⟩ <;> rw [h']
      · trivial
      · exact ⟨a', s, rfl, bnd_yield h hs⟩

/-- adaptors whose own loop takes a search permit per iteration: with `k` permits to come, at most
`(k + 1) * (B + 1)` unproductive iterations, `B` being the bound of the source -/
theorem bnd_permit {α : Type} (L : Option Nat) (B0 : Nat) (C : α → Permits → It → It)
    (h1 : ∀ a perm it s, step L it = .skip s →
      step L (C a perm it) = .skip (C a perm s) ∨ step L (C a perm it) = .done)
    (h2 : ∀ a perm it, perm ≠ .unlimited → step L it = .done →
      step L (C a perm it) = .done ∨
      ∃ y a' perm', step L (C a perm it) = .yield y (C a' perm' it) ∧ perm' ≠ .unlimited ∧ perm'.bound ≤ perm.bound)
    (h3 : ∀ a perm it x s, perm ≠ .unlimited → step L it = .yield x s →
      step L (C a perm it) = .done ∨
      (∃ y a' perm', step L (C a perm it) = .yield y (C a' perm' s) ∧ perm' ≠ .unlimited ∧ perm'.bound ≤ perm.bound) ∨
      (∃ a' perm', step L (C a perm it) = .skip (C a' perm' s) ∧ perm' ≠ .unlimited ∧ perm'.bound < perm.bound)) :
    ∀ (k : Nat) a perm it, perm ≠ .unlimited → perm.bound ≤ k → Bnd L B0 it →
      Bnd L ((k + 1) * (B0 + 1)) (C a perm it) := by
  have key : ∀ (k : Nat) a perm it, perm ≠ .unlimited → perm.bound ≤ k → Bnd L B0 it →
      next L ((k + 1) * (B0 + 1)) (C a perm it) ≠ .outOfFuel := by
    intro k
    induction k with
    | zero =>
      intro a perm it hu hb h
      obtain ⟨j, it', hj, hk, hst⟩ := normal_form L B0 it (bnd_next h)
      rw [show (0 + 1) * (B0 + 1) = j + (B0 - j + 1) by omega]
      apply skip_congr' L (C a perm) (h1 a perm) j it it' hk
      rw [next]
      rcases hst with hd | ⟨x, s, hy⟩
      · rcases h2 a perm it' hu hd with h' | ⟨y, a', perm', h', _⟩ <;> rw [h'] <;> simp
      · rcases h3 a perm it' x s hu hy with h' | ⟨y, a', perm', h', _⟩ | ⟨a', perm', h', _, hlt⟩
        · rw [h']; simp
        · rw [h']; simp
        · omega
    | succ k ih =>
      intro a perm it hu hb h
      obtain ⟨j, it', hj, hk, hst⟩ := normal_form L B0 it (bnd_next h)
      have hfuel : (k + 1 + 1) * (B0 + 1) = j + ((B0 - j + (k + 1) * (B0 + 1)) + 1) := by
        rw [Nat.succ_mul (k + 1) (B0 + 1)]; omega
      rw [hfuel]
      apply skip_congr' L (C a perm) (h1 a perm) j it it' hk
      rw [next]
      rcases hst with hd | ⟨x, s, hy⟩
      · rcases h2 a perm it' hu hd with h' | ⟨y, a', perm', h', _⟩ <;> rw [h'] <;> simp
      · rcases h3 a perm it' x s hu hy with h' | ⟨y, a', perm', h', _⟩ | ⟨a', perm', h', hu', hlt⟩
        · rw [h']; simp
        · rw [h']; simp
        · rw [h']
          have hs' : Bnd L B0 s := bnd_yield (bnd_skipN j it it' h hk) hy
          exact next_mono' (ih a' perm' s hu' (by omega) hs') (by omega)
  intro k a perm it hu hb h
  refine bnd_coind (fun t => ∃ a perm it, t = C a perm it ∧ perm ≠ .unlimited ∧ perm.bound ≤ k ∧ Bnd L B0 it)
    ?_ ?_ _ ⟨a, perm, it, rfl, hu, hb, h⟩
  · rintro t ⟨a, perm, it, rfl, hu, hb, h⟩
    exact next_mono' (key k a perm it hu hb h) (by omega)
  · rintro t ⟨a, perm, it, rfl, hu, hb, h⟩
    cases hs : step L it with
    | done =>
      rcases h2 a perm it hu hs with h' | ⟨y, a', perm', h', hu', hle⟩ <;> rw [h']
      · trivial
      · exact ⟨a', perm', it, rfl, hu', by omega, h⟩
    | skip s =>
      rcases h1 a perm it s hs with h' | h' <;> rw [h']
      · exact ⟨a, perm, s, rfl, hu, hb, bnd_skip h hs⟩
      · trivial
    | «yield» x s =>
      rcases h3 a perm it x s hu hs with h' | ⟨y, a', perm', h', hu', hle⟩ | ⟨a', perm', h', hu', hlt⟩ <;> rw [h']
      · trivial
      · exact ⟨a', perm', s, rfl, hu', by omega, bnd_yield h hs⟩
      · exact ⟨a', perm', s, rfl, hu', by omega, bnd_yield h hs⟩

theorem permits_next_props (perm : Permits) (hu : perm ≠ .unlimited) :
    (perm.next.2 ≠ .unlimited ∧ perm.next.2.bound ≤ perm.bound) ∧
    (perm.next.1 = .ok → perm.next.2.bound < perm.bound) := by
  cases perm with
  | unlimited => exact absurd rfl hu
  | dead => simp [Permits.next, Permits.bound]
  | left k => cases k <;> simp [Permits.next, Permits.bound]

theorem bnd_map (L : Option Nat) (B : Nat) (f : F) (it : It) (h : Bnd L B it) : Bnd L B (.map it f) := by
  refine bnd_pass L B (fun (f : F) it => It.map it f) ?_ ?_ ?_ f it h
  · intro f it s hs; left; rw [step_map, hs]
  · intro f it hs; rw [step_map, hs]
  · intro f it x s hs; right; exact ⟨_, f, by rw [step_map, hs]⟩

theorem bnd_filter (L : Option Nat) (B0 k : Nat) (p : P) (perm : Permits) (it : It)
    (hu : perm ≠ .unlimited) (hb : perm.bound ≤ k) (h : Bnd L B0 it) :
    Bnd L ((k + 1) * (B0 + 1)) (.filter it p perm) := by
  refine bnd_permit L B0 (fun (p : P) perm it => It.filter it p perm) ?_ ?_ ?_ k p perm it hu hb h
  · intro p perm it s hs; left; rw [step]; simp [hs]
  · intro p perm it _ hs; left; rw [step]; simp [hs]
  · intro p perm it x s hu hs
    have hp := permits_next_props perm hu
    rw [step]; simp only [hs]
    generalize perm.next = r at hp
    obtain ⟨t, q⟩ := r
    cases t with
    | none => left; rfl
    | viol => right; left; exact ⟨_, p, q, rfl, hp.1⟩
    | ok =>
      have hlt := hp.2 rfl
      cases x with
      | viol => right; left; exact ⟨_, p, q, rfl, hp.1⟩
      | err =>
        dsimp only; generalize p Item.err = r
        cases r
        · right; left; exact ⟨_, p, q, rfl, hp.1⟩
        · right; right; exact ⟨p, q, rfl, hp.1.1, hlt⟩
        · right; left; exact ⟨_, p, q, rfl, hp.1⟩
        · right; left; exact ⟨_, p, q, rfl, hp.1⟩
      | val v =>
        dsimp only; generalize p (Item.val v) = r
        cases r
        · right; left; exact ⟨_, p, q, rfl, hp.1⟩
        · right; right; exact ⟨p, q, rfl, hp.1.1, hlt⟩
        · right; left; exact ⟨_, p, q, rfl, hp.1⟩
        · right; left; exact ⟨_, p, q, rfl, hp.1⟩

theorem bnd_takeWhile (L : Option Nat) (B : Nat) (p : P) (it : It) (h : Bnd L B it) : Bnd L B (.takeWhile it p) := by
  refine bnd_pass L B (fun (p : P) it => It.takeWhile it p) ?_ ?_ ?_ p it h
  · intro p it s hs; left; rw [step]; simp [hs]
  · intro p it hs; rw [step]; simp [hs]
  · intro p it x s hs
    rw [step]; simp only [hs]
    cases x with
    | viol => right; exact ⟨_, p, rfl⟩
    | err =>
      dsimp only; generalize p Item.err = r
      cases r <;> first | (left; rfl) | (right; exact ⟨_, p, rfl⟩)
    | val v =>
      dsimp only; generalize p (Item.val v) = r
      cases r <;> first | (left; rfl) | (right; exact ⟨_, p, rfl⟩)

theorem bnd_withCount (L : Option Nat) (B : Nat) (eq : V → V → Bool) (seen : List (V × Nat)) (it : It)
    (h : Bnd L B it) : Bnd L B (.withCount it eq seen) := by
  refine bnd_pass L B (fun (a : (V → V → Bool) × List (V × Nat)) it => It.withCount it a.1 a.2) ?_ ?_ ?_ (eq, seen) it h
  · intro a it s hs; left; rw [step]; simp [hs]
  · intro a it hs; rw [step]; simp [hs]
  · intro a it x s hs
    right
    rw [step]; simp only [hs]
    cases x with
    | viol => exact ⟨_, a, rfl⟩
    | err => exact ⟨_, a, rfl⟩
    | val v => exact ⟨_, (a.1, (bump a.1 v a.2).2), rfl⟩

theorem bnd_budget (L : Option Nat) (B : Nat) (perm : Permits) (it : It) (h : Bnd L B it) :
    Bnd L B (.budget it perm) := by
  refine bnd_pass L B (fun (perm : Permits) it => It.budget it perm) ?_ ?_ ?_ perm it h
  · intro a it s hs; left; rw [step]; simp [hs]
  · intro a it hs; rw [step]; simp [hs]
  · intro a it x s hs
    rw [step]; simp only [hs]
    generalize a.next = r
    obtain ⟨t, q⟩ := r
    cases t with
    | none => left; rfl
    | viol => right; exact ⟨_, q, rfl⟩
    | ok => right; exact ⟨_, q, rfl⟩

theorem bnd_aggregate_run (L : Option Nat) (B : Nat) (st : Item) (f : F2) (it : It) (h : Bnd L B it) :
    Bnd L B (.aggregate it st f false) := by
  refine bnd_pass L B (fun (a : Item × F2) it => It.aggregate it a.1 a.2 false) ?_ ?_ ?_ (st, f) it h
  · intro a it s hs; left; rw [step]; simp [hs]
  · intro a it hs; rw [step]; simp [hs]
  · intro a it x s hs
    right
    rw [step]; simp only [hs, Bool.false_eq_true, ↓reduceIte]
    cases x with
    | viol => exact ⟨_, a, rfl⟩
    | err =>
      dsimp only; generalize hr : a.2 a.1 Item.err = r
      cases r
      · exact ⟨_, (_, a.2), rfl⟩
      · exact ⟨_, (_, a.2), rfl⟩
      · exact ⟨_, a, rfl⟩
    | val v =>
      dsimp only; generalize hr : a.2 a.1 (Item.val v) = r
      cases r
      · exact ⟨_, (_, a.2), rfl⟩
      · exact ⟨_, (_, a.2), rfl⟩
      · exact ⟨_, a, rfl⟩

theorem bnd_aggregate (L : Option Nat) (B : Nat) (st : Item) (f : F2) (first : Bool) (it : It) (h : Bnd L B it) :
    Bnd L B (.aggregate it st f first) := by
  cases first with
  | false => exact bnd_aggregate_run L B st f it h
  | true =>
    have hrun := bnd_aggregate_run L B st f it h
    have hst : step L (.aggregate it st f true) = .yield st (.aggregate it st f false) := by rw [step]; simp
    intro n
    cases n with
    | zero => simp [BndN, next, hst]
    | succ n => exact ⟨by simp [next, hst], by rw [hst]; exact hrun n⟩


theorem bnd_skipUntil (L : Option Nat) (B0 k : Nat) (p : P) (found : Bool) (perm : Permits) (it : It)
    (hu : perm ≠ .unlimited) (hb : perm.bound ≤ k) (h : Bnd L B0 it) :
    Bnd L ((k + 1) * (B0 + 1)) (.skipUntil it p found perm) := by
  refine bnd_permit L B0 (fun (a : P × Bool) perm it => It.skipUntil it a.1 a.2 perm) ?_ ?_ ?_ k (p, found) perm it hu hb h
  · intro a perm it s hs; left; rw [step]; simp [hs]
  · intro a perm it _ hs; left; rw [step]; simp [hs]
  · intro a perm it x s hu hs
    obtain ⟨p, found⟩ := a
    have hp := permits_next_props perm hu
    rw [step]; simp only [hs]
    cases found with
    | true => right; left; exact ⟨_, (p, true), perm, rfl, hu, Nat.le_refl _⟩
    | false =>
      simp only [Bool.false_eq_true, ↓reduceIte]
      generalize perm.next = r at hp
      obtain ⟨t, q⟩ := r
      cases t with
      | none => right; left; exact ⟨_, (p, false), q, rfl, hp.1⟩
      | viol => right; left; exact ⟨_, (p, false), q, rfl, hp.1⟩
      | ok =>
        have hlt := hp.2 rfl
        cases x with
        | viol => right; left; exact ⟨_, (p, false), q, rfl, hp.1⟩
        | err =>
          dsimp only; generalize p Item.err = r
          cases r
          · right; left; exact ⟨_, (p, true), q, rfl, hp.1⟩
          · right; right; exact ⟨(p, false), q, rfl, hp.1.1, hlt⟩
          · right; left; exact ⟨_, (p, false), q, rfl, hp.1⟩
          · right; left; exact ⟨_, (p, false), q, rfl, hp.1⟩
        | val v =>
          dsimp only; generalize p (Item.val v) = r
          cases r
          · right; left; exact ⟨_, (p, true), q, rfl, hp.1⟩
          · right; right; exact ⟨(p, false), q, rfl, hp.1.1, hlt⟩
          · right; left; exact ⟨_, (p, false), q, rfl, hp.1⟩
          · right; left; exact ⟨_, (p, false), q, rfl, hp.1⟩

theorem bnd_slice (L : Option Nat) (B0 k : Nat) (a : Nat) (t : Option Nat) (perm : Permits) (it : It)
    (hu : perm ≠ .unlimited) (hb : perm.bound ≤ k) (h : Bnd L B0 it) :
    Bnd L ((k + 1) * (B0 + 1)) (.slice it a perm t) := by
  refine bnd_permit L B0 (fun (c : Nat × Option Nat) perm it => It.slice it c.1 perm c.2) ?_ ?_ ?_ k (a, t) perm it hu hb h
  · intro c perm it s hs
    by_cases ht : c.2 = some 0
    · right; rw [ht, step]
    · left; rw [step]
      · simp [hs]
      · intro h'; exact ht h'
  · intro c perm it _ hs
    left
    by_cases ht : c.2 = some 0
    · rw [ht, step]
    · rw [step]
      · simp [hs]
      · intro h'; exact ht h'
  · intro c perm it x s hu hs
    obtain ⟨a, t⟩ := c
    by_cases ht : t = some 0
    · left; subst ht; rw [step]
    · have hp := permits_next_props perm hu
      rw [step]
      rotate_left
      · intro h'; exact ht h'
      simp only [hs]
      cases a with
      | zero => right; left; exact ⟨_, (0, decTake t), perm, rfl, hu, Nat.le_refl _⟩
      | succ a =>
        dsimp only
        generalize perm.next = r at hp
        obtain ⟨tk, q⟩ := r
        cases tk with
        | none => right; left; exact ⟨_, (a + 1, decTake t), q, rfl, hp.1⟩
        | viol => right; left; exact ⟨_, (a + 1, decTake t), q, rfl, hp.1⟩
        | ok =>
          have hlt := hp.2 rfl
          cases x with
          | viol => right; left; exact ⟨_, (a, decTake t), q, rfl, hp.1⟩
          | err => right; right; exact ⟨(a, t), q, rfl, hp.1.1, hlt⟩
          | val v => right; right; exact ⟨(a, t), q, rfl, hp.1.1, hlt⟩

theorem bnd_windows (L : Option Nat) (B0 k : Nat) (size : Nat) (mem : List V) (perm : Permits) (it : It)
    (hu : perm ≠ .unlimited) (hb : perm.bound ≤ k) (h : Bnd L B0 it) :
    Bnd L ((k + 1) * (B0 + 1)) (.windows it size mem perm) := by
  refine bnd_permit L B0 (fun (c : Nat × List V) perm it => It.windows it c.1 c.2 perm) ?_ ?_ ?_ k (size, mem) perm it hu hb h
  · intro c perm it s hs; left; rw [step]; simp [hs]
  · intro c perm it _ hs; left; rw [step]; simp [hs]
  · intro c perm it x s hu hs
    obtain ⟨size, mem⟩ := c
    have hp := permits_next_props perm hu
    rw [step]; simp only [hs]
    generalize perm.next = r at hp
    obtain ⟨tk, q⟩ := r
    cases tk with
    | none => left; rfl
    | viol => right; left; exact ⟨_, (size, mem), q, rfl, hp.1⟩
    | ok =>
      have hlt := hp.2 rfl
      cases x with
      | viol => right; left; exact ⟨_, (size, mem), q, rfl, hp.1⟩
      | err => right; left; exact ⟨_, (size, mem), q, rfl, hp.1⟩
      | val v =>
        dsimp only
        by_cases hl : ((mem ++ [v]).length == size) = true
        · right; left; exact ⟨_, (size, (mem ++ [v]).tail), q, by rw [if_pos hl], hp.1⟩
        · right; right; exact ⟨(size, mem ++ [v]), q, by rw [if_neg hl], hp.1.1, hlt⟩


theorem chain_key (L : Option Nat) (B : Nat) : ∀ (rest : List G) (cur : It), Bnd L B cur →
    (∀ g ∈ rest, Bnd L B (g.start L)) →
    next L ((rest.length + 1) * (B + 1)) (.chain cur rest) ≠ .outOfFuel := by
  intro rest
  induction rest with
  | nil =>
    intro cur h _
    obtain ⟨j, it', hj, hk, hst⟩ := normal_form L B cur (bnd_next h)
    rw [show ([] : List G).length = 0 from rfl, show (0 + 1) * (B + 1) = j + (B - j + 1) by omega]
    apply skip_congr' L (fun c => It.chain c []) (fun it s hs => Or.inl (by rw [step_chain, hs])) j cur it' hk
    rw [next, step_chain]
    rcases hst with hd | ⟨x, s, hy⟩
    · rw [hd]; simp
    · rw [hy]; simp
  | cons g r ih =>
    intro cur h hr
    obtain ⟨j, it', hj, hk, hst⟩ := normal_form L B cur (bnd_next h)
    have hfuel : ((g :: r).length + 1) * (B + 1) = j + ((B - j + (r.length + 1) * (B + 1)) + 1) := by
      rw [List.length_cons, Nat.succ_mul (r.length + 1) (B + 1)]; omega
    rw [hfuel]
    apply skip_congr' L (fun c => It.chain c (g :: r)) (fun it s hs => Or.inl (by rw [step_chain, hs])) j cur it' hk
    rw [next, step_chain]
    rcases hst with hd | ⟨x, s, hy⟩
    · rw [hd]
      exact next_mono' (ih (g.start L) (hr g (by simp)) (fun g' hg' => hr g' (by simp [hg']))) (by omega)
    · rw [hy]; simp

theorem bnd_chain (L : Option Nat) (B : Nat) (rest : List G) (cur : It) (h : Bnd L B cur)
    (hr : ∀ g ∈ rest, Bnd L B (g.start L)) :
    Bnd L ((rest.length + 1) * (B + 1)) (.chain cur rest) := by
  refine bnd_coind (fun t => ∃ cur r, t = It.chain cur r ∧ Bnd L B cur ∧ (∀ g ∈ r, Bnd L B (g.start L)) ∧
      r.length ≤ rest.length) ?_ ?_ _ ⟨cur, rest, rfl, h, hr, Nat.le_refl _⟩
  · rintro t ⟨cur, r, rfl, h, hr, hl⟩
    refine next_mono' (chain_key L B r cur h hr) ?_
    have : (r.length + 1) * (B + 1) ≤ (rest.length + 1) * (B + 1) := Nat.mul_le_mul_right _ (by omega)
    omega
  · rintro t ⟨cur, r, rfl, h, hr, hl⟩
    rw [step_chain]
    cases hs : step L cur with
    | «yield» x s => exact ⟨s, r, rfl, bnd_yield h hs, hr, hl⟩
    | skip s => exact ⟨s, r, rfl, bnd_skip h hs, hr, hl⟩
    | done =>
      cases r with
      | nil => trivial
      | cons g r' =>
        exact ⟨g.start L, r', rfl, hr g (by simp), fun g' hg' => hr g' (by simp [hg']), by simp at hl; omega⟩

theorem step_repeat (L : Option Nat) (g : G) (cur : It) (fresh : Bool) : step L (.repeat_ g cur fresh) =
    match step L cur with
    | .yield x s => .yield x (.repeat_ g s false)
    | .skip s => .skip (.repeat_ g s fresh)
    | .done => if fresh then .done else .skip (.repeat_ g (g.start L) true) := by
  rw [step]; cases step L cur <;> rfl

theorem repeat_key_fresh (L : Option Nat) (B : Nat) (g : G) (cur : It) (h : Bnd L B cur) :
    next L (B + 1) (.repeat_ g cur true) ≠ .outOfFuel := by
  obtain ⟨j, it', hj, hk, hst⟩ := normal_form L B cur (bnd_next h)
  rw [show B + 1 = j + (B - j + 1) by omega]
  apply skip_congr' L (fun c => It.repeat_ g c true) (fun it s hs => Or.inl (by rw [step_repeat, hs])) j cur it' hk
  rw [next, step_repeat]
  rcases hst with hd | ⟨x, s, hy⟩
  · rw [hd]; simp
  · rw [hy]; simp

theorem bnd_repeat (L : Option Nat) (B : Nat) (g : G) (cur : It) (fresh : Bool) (hg : Bnd L B (g.start L))
    (h : Bnd L B cur) : Bnd L (2 * (B + 1)) (.repeat_ g cur fresh) := by
  refine bnd_coind (fun t => ∃ cur fresh, t = It.repeat_ g cur fresh ∧ Bnd L B cur) ?_ ?_ _ ⟨cur, fresh, rfl, h⟩
  · rintro t ⟨cur, fresh, rfl, h⟩
    cases fresh with
    | true => exact next_mono' (repeat_key_fresh L B g cur h) (by omega)
    | false =>
      obtain ⟨j, it', hj, hk, hst⟩ := normal_form L B cur (bnd_next h)
      rw [show 2 * (B + 1) + 1 = j + ((B - j + (B + 1) + 1) + 1) by omega]
      apply skip_congr' L (fun c => It.repeat_ g c false) (fun it s hs => Or.inl (by rw [step_repeat, hs])) j cur it' hk
      rw [next, step_repeat]
      rcases hst with hd | ⟨x, s, hy⟩
      · rw [hd]
        simp only [Bool.false_eq_true, ↓reduceIte]
        exact next_mono' (repeat_key_fresh L B g (g.start L) hg) (by omega)
      · rw [hy]; simp
  · rintro t ⟨cur, fresh, rfl, h⟩
    rw [step_repeat]
    cases hs : step L cur with
    | «yield» x s => exact ⟨s, false, rfl, bnd_yield h hs⟩
    | skip s => exact ⟨s, fresh, rfl, bnd_skip h hs⟩
    | done =>
      cases fresh with
      | true => trivial
      | false => exact ⟨g.start L, true, rfl, hg⟩

/-- sources never skip -/
theorem bnd_prod (L : Option Nat) {it : It} (h : Prod it) : Bnd L 0 it := by
  refine bnd_coind (fun t => Prod t) ?_ ?_ it h
  · intro t ht
    rw [next]
    rcases prod_step L ht with h' | ⟨x, s, h', _⟩ <;> rw [h'] <;> simp
  · intro t ht
    rcases prod_step L ht with h' | ⟨x, s, h', hs⟩ <;> rw [h']
    · trivial
    · exact hs


theorem bnd_group (L : Option Nat) (B0 k : Nat) (eq : P2) (cur : List V) (flushed : Bool) (perm : Permits) (it : It)
    (hu : perm ≠ .unlimited) (hb : perm.bound ≤ k) (h : Bnd L B0 it) :
    Bnd L ((k + 1) * (B0 + 1)) (.group it eq cur perm flushed) := by
  refine bnd_permit L B0 (fun (c : P2 × List V × Bool) perm it => It.group it c.1 c.2.1 perm c.2.2) ?_ ?_ ?_ k
    (eq, cur, flushed) perm it hu hb h
  · intro c perm it s hs
    obtain ⟨eq, cur, flushed⟩ := c
    cases flushed with
    | true => right; rw [step]; simp
    | false => left; rw [step]; simp [hs]
  · intro c perm it hu hs
    obtain ⟨eq, cur, flushed⟩ := c
    cases flushed with
    | true => left; rw [step]; simp
    | false =>
      have hp := permits_next_props perm hu
      rw [step]; simp only [hs, Bool.false_eq_true, ↓reduceIte]
      generalize perm.next = r at hp
      obtain ⟨tk, q⟩ := r
      cases tk with
      | none => left; rfl
      | viol => right; exact ⟨_, (eq, cur, true), q, rfl, hp.1⟩
      | ok =>
        cases cur with
        | nil => left; rfl
        | cons c cs => right; exact ⟨_, (eq, [], true), q, rfl, hp.1⟩
  · intro c perm it x s hu hs
    obtain ⟨eq, cur, flushed⟩ := c
    cases flushed with
    | true => left; rw [step]; simp
    | false =>
      have hp := permits_next_props perm hu
      rw [step]; simp only [hs, Bool.false_eq_true, ↓reduceIte]
      generalize perm.next = r at hp
      obtain ⟨tk, q⟩ := r
      cases tk with
      | none => left; rfl
      | viol => right; left; exact ⟨_, (eq, cur, false), q, rfl, hp.1⟩
      | ok =>
        have hlt := hp.2 rfl
        cases x with
        | viol => right; left; exact ⟨_, (eq, cur, false), q, rfl, hp.1⟩
        | err => right; left; exact ⟨_, (eq, cur, false), q, rfl, hp.1⟩
        | val v =>
          cases cur with
          | nil => right; right; exact ⟨(eq, [v], false), q, rfl, hp.1.1, hlt⟩
          | cons c cs =>
            dsimp only; generalize eq (Item.val c) (Item.val v) = r
            cases r
            · right; right; exact ⟨(eq, c :: cs ++ [v], false), q, rfl, hp.1.1, hlt⟩
            · right; left; exact ⟨_, (eq, [v], false), q, rfl, hp.1⟩
            · right; left; exact ⟨_, (eq, c :: cs, false), q, rfl, hp.1⟩
            · right; left; exact ⟨_, (eq, c :: cs, false), q, rfl, hp.1⟩

theorem zip_key (L : Option Nat) (B : Nat) : ∀ (todo pulled : List It) (acc : List V) (bad : Bool),
    (∀ t ∈ todo, Bnd L B t) →
    next L (todo.length * (B + 1) + 1) (.zip todo pulled acc bad) ≠ .outOfFuel := by
  intro todo
  induction todo with
  | nil => intro pulled acc bad _; rw [next, step]; simp
  | cons it rest ih =>
    intro pulled acc bad hall
    have hit : Bnd L B it := hall it (by simp)
    obtain ⟨j, it', hj, hk, hst⟩ := normal_form L B it (bnd_next hit)
    have hfuel : (it :: rest).length * (B + 1) + 1 = j + ((B - j + (rest.length * (B + 1) + 1)) + 1) := by
      rw [List.length_cons, Nat.succ_mul rest.length (B + 1)]; omega
    rw [hfuel]
    apply skip_congr' L (fun c => It.zip (c :: rest) pulled acc bad)
      (fun t s hs => Or.inl (by rw [step]; simp [hs])) j it it' hk
    rw [next, step]
    rcases hst with hd | ⟨x, s, hy⟩
    · simp [hd]
    · simp only [hy]
      have hrest := ih (s :: pulled)
      cases x with
      | viol => simp
      | err =>
        cases rest with
        | nil => simp
        | cons r rs =>
          dsimp only
          exact next_mono' (hrest acc true (fun t ht => hall t (by simp [List.mem_cons] at ht ⊢; exact Or.inr ht))) (by omega)
      | val v =>
        cases rest with
        | nil => simp
        | cons r rs =>
          dsimp only
          exact next_mono' (hrest (v :: acc) bad (fun t ht => hall t (by simp [List.mem_cons] at ht ⊢; exact Or.inr ht))) (by omega)

theorem bnd_zip (L : Option Nat) (B : Nat) (todo pulled : List It) (acc : List V) (bad : Bool)
    (hall : ∀ t, t ∈ todo ∨ t ∈ pulled → Bnd L B t) :
    Bnd L ((todo.length + pulled.length) * (B + 1)) (.zip todo pulled acc bad) := by
  refine bnd_coind (fun t => ∃ td pl ac bd, t = It.zip td pl ac bd ∧ (∀ u, u ∈ td ∨ u ∈ pl → Bnd L B u) ∧
      td.length + pl.length = todo.length + pulled.length) ?_ ?_ _ ⟨todo, pulled, acc, bad, rfl, hall, rfl⟩
  · rintro t ⟨td, pl, ac, bd, rfl, h, hl⟩
    refine next_mono' (zip_key L B td pl ac bd (fun u hu => h u (Or.inl hu))) ?_
    have : td.length * (B + 1) ≤ (todo.length + pulled.length) * (B + 1) := Nat.mul_le_mul_right _ (by omega)
    omega
  · rintro t ⟨td, pl, ac, bd, rfl, h, hl⟩
    cases td with
    | nil =>
      rw [step]
      refine ⟨pl.reverse, [], [], false, rfl, ?_, by simpa using hl⟩
      intro u hu; simp only [List.mem_reverse, List.not_mem_nil, or_false] at hu; exact h u (Or.inr hu)
    | cons it rest =>
      rw [step]
      cases hs : step L it with
      | done => trivial
      | skip s =>
        refine ⟨s :: rest, pl, ac, bd, rfl, ?_, by simpa using hl⟩
        intro u hu
        rcases hu with hu | hu
        · rcases List.mem_cons.mp hu with rfl | hu
          · exact bnd_skip (h it (Or.inl (by simp))) hs
          · exact h u (Or.inl (by simp [hu]))
        · exact h u (Or.inr hu)
      | «yield» x s =>
        have hsB : Bnd L B s := bnd_yield (h it (Or.inl (by simp))) hs
        have hmem : ∀ u, u ∈ s :: rest ∨ u ∈ pl → Bnd L B u := by
          intro u hu
          rcases hu with hu | hu
          · rcases List.mem_cons.mp hu with rfl | hu
            · exact hsB
            · exact h u (Or.inl (by simp [hu]))
          · exact h u (Or.inr hu)
        cases x with
        | viol =>
          refine ⟨pl.reverse ++ s :: rest, [], [], false, rfl, ?_, by simp at hl ⊢; omega⟩
          intro u hu
          simp only [List.mem_append, List.mem_reverse, List.not_mem_nil, or_false] at hu
          rcases hu with hu | hu
          · exact hmem u (Or.inr hu)
          · exact hmem u (Or.inl hu)
        | err =>
          cases rest with
          | nil =>
            refine ⟨(s :: pl).reverse, [], [], false, rfl, ?_, by simp at hl ⊢; omega⟩
            intro u hu
            simp only [List.mem_reverse, List.not_mem_nil, or_false, List.mem_cons] at hu
            rcases hu with rfl | hu
            · exact hsB
            · exact hmem u (Or.inr hu)
          | cons r rs =>
            refine ⟨r :: rs, s :: pl, ac, true, rfl, ?_, by simp at hl ⊢; omega⟩
            intro u hu
            rcases hu with hu | hu
            · exact hmem u (Or.inl (by simp [List.mem_cons] at hu ⊢; exact Or.inr hu))
            · rcases List.mem_cons.mp hu with rfl | hu
              · exact hsB
              · exact hmem u (Or.inr hu)
        | val v =>
          cases rest with
          | nil =>
            refine ⟨(s :: pl).reverse, [], [], false, rfl, ?_, by simp at hl ⊢; omega⟩
            intro u hu
            simp only [List.mem_reverse, List.not_mem_nil, or_false, List.mem_cons] at hu
            rcases hu with rfl | hu
            · exact hsB
            · exact hmem u (Or.inr hu)
          | cons r rs =>
            refine ⟨r :: rs, s :: pl, v :: ac, bd, rfl, ?_, by simp at hl ⊢; omega⟩
            intro u hu
            rcases hu with hu | hu
            · exact hmem u (Or.inl (by simp [List.mem_cons] at hu ⊢; exact Or.inr hu))
            · rcases List.mem_cons.mp hu with rfl | hu
              · exact hsB
              · exact hmem u (Or.inr hu)

theorem mem_startAll (L : Option Nat) : ∀ (ps : List G) (t : It), t ∈ G.startAll L ps → ∃ g ∈ ps, t = g.start L
  | [], t, h => by simp [G.startAll] at h
  | g :: gs, t, h => by
    simp only [G.startAll, List.mem_cons] at h
    rcases h with rfl | h
    · exact ⟨g, by simp, rfl⟩
    · obtain ⟨g', hg', e⟩ := mem_startAll L gs t h
      exact ⟨g', by simp [hg'], e⟩

theorem length_startAll (L : Option Nat) : ∀ (ps : List G), (G.startAll L ps).length = ps.length
  | [] => rfl
  | g :: gs => by simp [G.startAll, length_startAll L gs]

/-! ### the bound of a whole generator -/

mutual
/-- every adaptor of the model is covered (kept as a predicate so that the statement names its scope) -/
def G.nest : G → Bool
  | .fromArr _ => true
  | .fromCount _ => true
  | .succUntil _ _ => true
  | .map g _ => g.nest
  | .filter g _ => g.nest
  | .chain parts => G.nestAll parts
  | .slice g _ _ => g.nest
  | .repeat_ g => g.nest
  | .takeWhile g _ => g.nest
  | .skipUntil g _ => g.nest
  | .aggregate g _ _ => g.nest
  | .withCount g _ => g.nest
  | .group g _ => g.nest
  | .windows g _ => g.nest
  | .zip parts => G.nestAll parts
def G.nestAll : List G → Bool
  | [] => true
  | g :: gs => g.nest && G.nestAll gs
end

mutual
/-- unproductive iterations one `next()` may perform under search limit `l`: every level that loops takes a
permit per iteration, so it multiplies the bound of its source by at most `l + 2` -/
def G.work (l : Nat) : G → Nat
  | .fromArr _ => 0
  | .fromCount _ => 0
  | .succUntil _ _ => 0
  | .map g _ => g.work l
  | .filter g _ => (l + 2) * (g.work l + 1)
  | .chain parts => (parts.length + 1) * (G.workMax l parts + 1)
  | .slice g _ _ => (l + 2) * (g.work l + 1)
  | .repeat_ g => 2 * (g.work l + 1)
  | .takeWhile g _ => g.work l
  | .skipUntil g _ => (l + 2) * (g.work l + 1)
  | .aggregate g _ _ => g.work l
  | .withCount g _ => g.work l
  | .group g _ => (l + 2) * (g.work l + 1)
  | .windows g _ => (l + 2) * (g.work l + 1)
  | .zip parts => parts.length * (G.workMax l parts + 1)
def G.workMax (l : Nat) : List G → Nat
  | [] => 0
  | g :: gs => max (g.work l) (G.workMax l gs)
end

theorem ofLimit_some (l : Nat) : Permits.ofLimit (some l) ≠ .unlimited ∧ (Permits.ofLimit (some l)).bound ≤ l + 1 := by
  simp [Permits.ofLimit, Permits.bound]

mutual
theorem work_bounded (l : Nat) : ∀ (g : G), g.nest = true → Bnd (some l) (g.work l) (g.start (some l))
  | .fromArr xs, _ => by rw [G.start, G.work]; exact bnd_prod _ (Prod.arr xs)
  | .fromCount f, _ => by rw [G.start, G.work]; exact bnd_prod _ (Prod.count 0 f)
  | .succUntil i f, _ => by rw [G.start, G.work]; exact bnd_prod _ (Prod.succ _ f)
  | .map g f, h => by
    rw [G.start, G.work]; exact bnd_map _ _ f _ (work_bounded l g (by simpa [G.nest] using h))
  | .filter g p, h => by
    rw [G.start, G.work]
    exact bnd_filter _ _ (l + 1) p _ _ (ofLimit_some l).1 (ofLimit_some l).2 (work_bounded l g (by simpa [G.nest] using h))
  | .chain parts, h => by
    rw [G.start, G.work]
    refine bnd_chain _ _ parts _ (bnd_mono (bnd_prod _ (Prod.arr [])) (Nat.zero_le _)) ?_
    exact work_bounded_all l parts (by simpa [G.nest] using h)
  | .slice g a b, h => by
    rw [G.start, G.work]
    exact bnd_slice _ _ (l + 1) a _ _ _ (ofLimit_some l).1 (ofLimit_some l).2 (work_bounded l g (by simpa [G.nest] using h))
  | .repeat_ g, h => by
    rw [G.start, G.work]
    have := work_bounded l g (by simpa [G.nest] using h)
    exact bnd_repeat _ _ g _ true this this
  | .takeWhile g p, h => by
    rw [G.start, G.work]; exact bnd_takeWhile _ _ p _ (work_bounded l g (by simpa [G.nest] using h))
  | .skipUntil g p, h => by
    rw [G.start, G.work]
    exact bnd_skipUntil _ _ (l + 1) p false _ _ (ofLimit_some l).1 (ofLimit_some l).2 (work_bounded l g (by simpa [G.nest] using h))
  | .aggregate g i f, h => by
    rw [G.start, G.work]; exact bnd_aggregate _ _ i f true _ (work_bounded l g (by simpa [G.nest] using h))
  | .withCount g e, h => by
    rw [G.start, G.work]; exact bnd_withCount _ _ e [] _ (work_bounded l g (by simpa [G.nest] using h))
  | .group g e, h => by
    rw [G.start, G.work]
    exact bnd_group _ _ (l + 1) e [] false _ _ (ofLimit_some l).1 (ofLimit_some l).2 (work_bounded l g (by simpa [G.nest] using h))
  | .windows g n, h => by
    rw [G.start, G.work]
    exact bnd_windows _ _ (l + 1) n [] _ _ (ofLimit_some l).1 (ofLimit_some l).2 (work_bounded l g (by simpa [G.nest] using h))
  | .zip ps, h => by
    rw [G.start, G.work]
    have hall := work_bounded_all l ps (by simpa [G.nest] using h)
    have := bnd_zip (some l) (G.workMax l ps) (G.startAll (some l) ps) [] [] false (by
      intro t ht
      rcases ht with ht | ht
      · obtain ⟨g, hg, rfl⟩ := mem_startAll _ ps t ht
        exact hall g hg
      · simp at ht)
    simpa [length_startAll] using this
theorem work_bounded_all (l : Nat) : ∀ (gs : List G), G.nestAll gs = true →
    ∀ g ∈ gs, Bnd (some l) (G.workMax l gs) (g.start (some l))
  | [], _ => by intro g hg; simp at hg
  | g0 :: gs, h => by
    intro g hg
    simp only [G.nestAll, Bool.and_eq_true] at h
    rw [G.workMax]
    rcases List.mem_cons.mp hg with heq | hg'
    · rw [heq]; exact bnd_mono (work_bounded l g0 h.1) (Nat.le_max_left _ _)
    · exact bnd_mono (work_bounded_all l gs h.2 g hg') (Nat.le_max_right _ _)
end


mutual
theorem nest_true : ∀ (g : G), g.nest = true
  | .fromArr _ => rfl
  | .fromCount _ => rfl
  | .succUntil _ _ => rfl
  | .map g _ => by rw [G.nest]; exact nest_true g
  | .filter g _ => by rw [G.nest]; exact nest_true g
  | .chain ps => by rw [G.nest]; exact nestAll_true ps
  | .slice g _ _ => by rw [G.nest]; exact nest_true g
  | .repeat_ g => by rw [G.nest]; exact nest_true g
  | .takeWhile g _ => by rw [G.nest]; exact nest_true g
  | .skipUntil g _ => by rw [G.nest]; exact nest_true g
  | .aggregate g _ _ => by rw [G.nest]; exact nest_true g
  | .withCount g _ => by rw [G.nest]; exact nest_true g
  | .group g _ => by rw [G.nest]; exact nest_true g
  | .windows g _ => by rw [G.nest]; exact nest_true g
  | .zip ps => by rw [G.nest]; exact nestAll_true ps
theorem nestAll_true : ∀ (gs : List G), G.nestAll gs = true
  | [] => rfl
  | g :: gs => by rw [G.nestAll, nest_true g, nestAll_true gs]; rfl
end

/-- the general bound, for every generator of the model -/
theorem work_bounded_any (l : Nat) (g : G) : Bnd (some l) (g.work l) (g.start (some l)) :=
  work_bounded l g (nest_true g)

end XrayModel.Gen
