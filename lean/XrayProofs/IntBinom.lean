/-
The `binom` loop of `int.rs` (`IntB.binom`): invariant of the fold and the closed form.
-/
import Mathlib.Data.Nat.Choose.Basic
import XrayProofs.LazyIntOps
namespace XrayModel.Binom
open XrayModel LB

/-- after `k` iterations: `num` is the descending factorial `n (n-1) … (n-k+1)`, `denum` is `k!`, both canonical -/
theorem fold_inv (a : LB) (ha : a.wf) (n : Nat) (han : a.den = n) (k : Nat) (hk : k ≤ n) :
    ∃ num den, ((List.range k).map (fun (i : Nat) => LB.ofInt (Int.ofNat i))).foldl (IntB.binomStep a)
        (.ok (short 1, short 1)) = .ok (num, den) ∧
      num.wf ∧ den.wf ∧ num.den = (n.descFactorial k : Nat) ∧ den.den = (k.factorial : Nat) := by
  induction k with
  | zero => exact ⟨short 1, short 1, rfl, by decide, by decide, rfl, rfl⟩
  | succ k ih =>
    obtain ⟨num, den, hf, hnw, hdw, hn, hd⟩ := ih (by omega)
    rw [List.range_succ, List.map_append, List.foldl_append, hf]
    simp only [List.map_cons, List.map_nil, List.foldl_cons, List.foldl_nil, IntB.binomStep]
    have hiw : (LB.ofInt (Int.ofNat k)).wf := ofInt_wf _
    have hid : (LB.ofInt (Int.ofNat k)).den = k := ofInt_den _
    obtain ⟨t, ht, htw, htd⟩ := Ops.sub_correct a _ ha hiw
    rw [ht]; simp only []
    obtain ⟨num', hn', hnw', hnd'⟩ := Ops.mulAssign_correct num t hnw htw
    rw [hn']; simp only []
    obtain ⟨u, hu, huw, hud⟩ := Ops.add_correct (LB.ofInt (Int.ofNat k)) (short 1) hiw (by decide)
    rw [hu]; simp only []
    obtain ⟨den', hd', hdw', hdd'⟩ := Ops.mulAssign_correct den u hdw huw
    rw [hd']
    refine ⟨num', den', rfl, hnw', hdw', ?_, ?_⟩
    · rw [hnd', hn, htd, han, hid, Nat.descFactorial_succ]
      push_cast [Nat.cast_sub (show k ≤ n by omega)]
      rw [Int.mul_comm]
    · rw [hdd', hd, hud, hid, Nat.factorial_succ]
      push_cast; simp only [den_short]; rw [Int.mul_comm]

theorem tdiv_desc_fact (n k : Nat) :
    Int.tdiv (n.descFactorial k : Nat) (k.factorial : Nat) = (n.choose k : Nat) := by
  rw [Nat.descFactorial_eq_factorial_mul_choose]
  push_cast
  exact Int.mul_tdiv_cancel_left _ (by exact_mod_cast (Nat.factorial_pos k).ne')

end XrayModel.Binom
