/- Helper lemmas for C12 (and the literal rules of C18): escapes, number literals, the interner. -/
import XrayModel.Lex
import Mathlib.Tactic.Ring
set_option linter.unusedSimpArgs false
set_option linter.unusedVariables false
namespace XrayModel.Lex


def Outcome.isPanic {α} : Outcome α → Prop
  | .panic _ => True
  | _ => False

theorem applyEscapesAux_no_panic (fuel : Nat) (cs : List Char) : ¬ (applyEscapesAux fuel cs).isPanic := by
  induction fuel generalizing cs with
  | zero => simp [applyEscapesAux, Outcome.isPanic]
  | succ f ih =>
    cases cs with
    | nil => simp [applyEscapesAux, Outcome.isPanic]
    | cons c cs =>
      have hcopy : ∀ (r : List Char), ¬ (match applyEscapesAux f r with
          | .ok r' => Outcome.ok (c :: r')
          | e => e).isPanic := by
        intro r
        have := ih r
        cases h : applyEscapesAux f r <;> simp_all [Outcome.isPanic]
      have hcons : ∀ (ch : Char) (r : List Char), ¬ (match applyEscapesAux f r with
          | .ok r' => Outcome.ok (ch :: r')
          | e => e).isPanic := by
        intro ch r
        have := ih r
        cases h : applyEscapesAux f r <;> simp_all [Outcome.isPanic]
      unfold applyEscapesAux
      simp only
      split
      · split
        · split
          · simp [Outcome.isPanic]
          · exact hcons _ _
        · split
          · exact hcopy _
          · split
            · exact hcopy _
            · split
              · simp [Outcome.isPanic]
              · exact hcons _ _
      · exact hcopy _

/-- a text without backslashes denotes itself -/
theorem applyEscapesAux_plain (fuel : Nat) (cs : List Char) (h : ∀ c ∈ cs, c ≠ '\\') (hf : cs.length ≤ fuel) :
    applyEscapesAux fuel cs = .ok cs := by
  induction fuel generalizing cs with
  | zero =>
    have : cs = [] := by cases cs <;> simp_all
    subst this; rfl
  | succ f ih =>
    cases cs with
    | nil => rfl
    | cons c cs =>
      unfold applyEscapesAux
      simp only
      rw [if_neg (h c (by simp))]
      rw [ih cs (fun d hd => h d (by simp [hd])) (by simpa using hf)]



def dig (c : Char) : Nat := c.toNat - '0'.toNat

/-- value of a reversed digit string -/
def valRev : List Char → Nat
  | [] => 0
  | c :: cs => dig c + 10 * valRev cs

theorem valRev_snoc (l : List Char) (x : Char) : valRev (l ++ [x]) = valRev l + 10 ^ l.length * dig x := by
  induction l with
  | nil => simp [valRev]
  | cons y ys ihy => simp only [List.cons_append, valRev, ihy, List.length_cons, Nat.pow_succ]; ring

theorem foldl_dec (cs : List Char) (acc : Nat) :
    cs.foldl (fun acc c => acc * 10 + (c.toNat - '0'.toNat)) acc = acc * 10 ^ cs.length + valRev cs.reverse := by
  induction cs generalizing acc with
  | nil => simp [valRev]
  | cons c cs ih =>
    simp only [List.foldl_cons, ih, List.length_cons, List.reverse_cons]
    rw [valRev_snoc, List.length_reverse, Nat.pow_succ]
    simp only [dig]; ring

theorem decVal_eq (cs : List Char) : decVal cs = valRev cs.reverse := by
  unfold decVal; rw [foldl_dec]; simp

theorem isDigit_iff (c : Char) : isDigit c = true ↔ 48 ≤ c.toNat ∧ c.toNat ≤ 57 := by
  simp only [isDigit, Bool.and_eq_true, decide_eq_true_eq, Char.le_def]
  constructor <;> intro h <;> (have h1 := h.1; have h2 := h.2; simp only [Char.toNat] at *; constructor <;> simpa using ‹_›)

theorem char_eq_of_toNat {c d : Char} (h : c.toNat = d.toNat) : c = d := by
  apply Char.ext
  simp only [Char.toNat] at h
  exact UInt32.toNat_inj.mp h

theorem valRev_pos (r : List Char) (hne : r ≠ []) (hd : ∀ c ∈ r, isDigit c = true)
    (hl : r.getLast? ≠ some '0') : 0 < valRev r := by
  induction r with
  | nil => exact absurd rfl hne
  | cons c cs ih =>
    cases cs with
    | nil =>
      simp only [valRev, dig]
      have := (isDigit_iff c).mp (hd c (by simp))
      have hc : c ≠ '0' := by intro h; apply hl; simp [h]
      have : c.toNat ≠ 48 := by intro h; apply hc; exact char_eq_of_toNat (by simpa using h)
      have e : '0'.toNat = 48 := by decide
      omega
    | cons d t =>
      have := ih (by simp) (fun x hx => hd x (by simp [hx])) (by simpa [List.getLast?_cons_cons] using hl)
      simp only [valRev] at this ⊢
      omega

theorem valRev_inj (r1 r2 : List Char) (h1 : ∀ c ∈ r1, isDigit c = true) (h2 : ∀ c ∈ r2, isDigit c = true)
    (l1 : r1.getLast? ≠ some '0') (l2 : r2.getLast? ≠ some '0') (hv : valRev r1 = valRev r2) : r1 = r2 := by
  induction r1 generalizing r2 with
  | nil =>
    cases r2 with
    | nil => rfl
    | cons c cs =>
      have := valRev_pos (c :: cs) (by simp) h2 l2
      simp only [valRev] at hv this
      omega
  | cons c cs ih =>
    cases r2 with
    | nil =>
      have := valRev_pos (c :: cs) (by simp) h1 l1
      simp only [valRev] at hv this
      omega
    | cons d ds =>
      have hc := (isDigit_iff c).mp (h1 c (by simp))
      have hd := (isDigit_iff d).mp (h2 d (by simp))
      have e : '0'.toNat = 48 := by decide
      simp only [valRev, dig, e] at hv
      have hcd : c.toNat = d.toNat := by omega
      have hvv : valRev cs = valRev ds := by omega
      have tl : ∀ (x : Char) (xs : List Char), (x :: xs).getLast? ≠ some '0' → xs.getLast? ≠ some '0' := by
        intro x xs h
        cases xs with
        | nil => simp
        | cons y ys => simpa [List.getLast?_cons_cons] using h
      rw [char_eq_of_toNat hcd, ih ds (fun x hx => h1 x (by simp [hx])) (fun x hx => h2 x (by simp [hx])) (tl _ _ l1) (tl _ _ l2) hvv]

/-- canonical numerals: `0`, or a non-zero digit followed by digits -/
def canonical (ds : List Char) : Prop :=
  ds = ['0'] ∨ ∃ d rest, ds = d :: rest ∧ '1' ≤ d ∧ d ≤ '9' ∧ rest.all isDigit = true

theorem itemIndex_some {s : List Char} {i : Nat} (h : itemIndex s = some i) :
    ∃ ds, s = 'i' :: 't' :: 'e' :: 'm' :: ds ∧ canonical ds ∧ i = decVal ds := by
  unfold itemIndex at h
  split at h
  · rename_i ds
    refine ⟨ds, rfl, ?_⟩
    split at h
    · rename_i h0
      cases h
      exact ⟨Or.inl h0, by subst h0; decide⟩
    · split at h
      · rename_i d rest hne
        split at h
        · rename_i hc
          simp only [Bool.and_eq_true, decide_eq_true_eq] at hc
          simp only [] at h
          split at h
          · cases h
            exact ⟨Or.inr ⟨d, rest, rfl, hc.1.1, hc.1.2, hc.2⟩, rfl⟩
          · cases h
        · cases h
      · cases h
  · cases h

theorem decVal_inj_canonical (a b : List Char) (ha : canonical a) (hb : canonical b)
    (h : decVal a = decVal b) : a = b := by
  have key : ∀ ds, canonical ds → (∀ c ∈ ds.reverse, isDigit c = true) ∧ (ds = ['0'] ∨ ds.reverse.getLast? ≠ some '0') := by
    intro ds hds
    rcases hds with rfl | ⟨d, rest, rfl, h1, h9, hr⟩
    · exact ⟨by decide, Or.inl rfl⟩
    · have hdig : isDigit d = true := by
        simp only [isDigit, Bool.and_eq_true, decide_eq_true_eq]
        exact ⟨Char.le_trans (by decide) h1, h9⟩
      refine ⟨?_, Or.inr ?_⟩
      · intro c hc
        simp only [List.mem_reverse, List.mem_cons] at hc
        rcases hc with rfl | hc
        · exact hdig
        · exact List.all_eq_true.mp hr c hc
      · simp only [List.getLast?_reverse, List.head?_cons]
        intro hh
        cases hh
        exact absurd h1 (by decide)
  obtain ⟨da, la⟩ := key a ha
  obtain ⟨db, lb⟩ := key b hb
  rw [decVal_eq, decVal_eq] at h
  -- the numeral "0" is the only one of value 0
  have zero_case : ∀ x y : List Char, x = ['0'] → canonical y → (∀ c ∈ y.reverse, isDigit c = true) →
      (y = ['0'] ∨ y.reverse.getLast? ≠ some '0') → valRev y.reverse = valRev x.reverse → y = x := by
    intro x y hx hy dy ly hv
    subst hx
    rcases ly with rfl | ly
    · rfl
    · have hne : y.reverse ≠ [] := by
        rcases hy with rfl | ⟨d, rest, rfl, _⟩ <;> simp
      have := valRev_pos y.reverse hne dy ly
      have e : valRev ['0'].reverse = 0 := by decide
      omega
  rcases la with rfl | la
  · exact (zero_case _ b rfl hb db lb h.symm).symm
  · rcases lb with rfl | lb
    · exact zero_case _ a rfl ha da (Or.inr la) h
    · have := valRev_inj _ _ da db la lb h
      simpa using congrArg List.reverse this

/-- distinct spellings never share a symbol -/
theorem intern_inj (s1 s2 : List Char) (h : intern s1 = intern s2) : s1 = s2 := by
  unfold intern at h
  cases h1 : itemIndex s1 with
  | none =>
    cases h2 : itemIndex s2 with
    | none => rw [h1, h2] at h; simpa using h
    | some j => rw [h1, h2] at h; cases h
  | some i =>
    cases h2 : itemIndex s2 with
    | none => rw [h1, h2] at h; cases h
    | some j =>
      rw [h1, h2] at h
      have hij : i = j := by simpa using h
      obtain ⟨d1, rfl, c1, e1⟩ := itemIndex_some h1
      obtain ⟨d2, rfl, c2, e2⟩ := itemIndex_some h2
      rw [decVal_inj_canonical d1 d2 c1 c2 (by omega)]



theorem isHex_of_isDigit {c : Char} (h : isDigit c = true) : isHex c = true := by
  simp only [isDigit, isHex] at *; simp [h]

theorem hexVal_digit {c : Char} (h : isDigit c = true) : hexVal c < 10 := by
  have h' := (isDigit_iff c).mp h
  unfold hexVal
  have e : ('0' ≤ c && c ≤ '9') = true := h
  rw [if_pos e]
  have e0 : '0'.toNat = 48 := by decide
  omega

theorem filter_all {p : Char → Bool} (cs : List Char) (h : cs.all (fun c => p c || c = '_') = true) :
    (cs.filter (· ≠ '_')).all p = true := by
  induction cs with
  | nil => rfl
  | cons c cs ih =>
    simp only [List.all_cons, Bool.and_eq_true, Bool.or_eq_true, decide_eq_true_eq] at h
    by_cases hc : c = '_'
    · subst hc; simpa [List.filter] using ih (by simpa using h.2)
    · have hp : p c = true := by rcases h.1 with h | h; exact h; exact absurd h hc
      simp only [List.filter, ne_eq, hc, not_false_eq_true, decide_true, List.all_cons, hp, Bool.true_and]
      exact ih (by simpa using h.2)

/-- an integer-shaped literal (digits and `_` separators, starting with a digit) is an int with the value of
its digits, whatever its magnitude -/
theorem number_int (d : Char) (rest : List Char) (hd : isDigit d = true) (hr : rest.all isNumDigit = true) :
    numberLiteral (d :: rest) = .ok (.int (radixVal 10 ((d :: rest).filter (· ≠ '_')))) := by
  have hne : d ≠ '_' := by intro h; subst h; revert hd; decide
  have hall : ((d :: rest).filter (· ≠ '_')).all isDigit = true := by
    simp only [List.filter, ne_eq, hne, not_false_eq_true, decide_true, List.all_cons, hd, Bool.true_and]
    exact filter_all rest (by simpa [isNumDigit] using hr)
  unfold numberLiteral
  have hp : parseRadix 10 ((d :: rest).filter (· ≠ '_')) = some (radixVal 10 ((d :: rest).filter (· ≠ '_'))) := by
    unfold parseRadix
    rw [if_pos]
    simp only [Bool.and_eq_true, Bool.not_eq_true']
    refine ⟨by simp [List.filter, hne], ?_⟩
    rw [List.all_eq_true] at hall ⊢
    intro c hc
    have := hall c hc
    simp only [Bool.and_eq_true, decide_eq_true_eq]
    exact ⟨isHex_of_isDigit this, hexVal_digit this⟩
  simp only [hp]

theorem radixVal_snoc (radix : Nat) (ds : List Char) (c : Char) :
    radixVal radix (ds ++ [c]) = radixVal radix ds * radix + hexVal c := by
  simp [radixVal, List.foldl_append]


end XrayModel.Lex
