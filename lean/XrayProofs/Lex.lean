/- Helper lemmas for C12 (and the literal rules of C18): escapes, number literals, the interner. -/
import XrayModel.Lex
import Mathlib.Tactic.Ring
set_option linter.unusedSimpArgs false
set_option linter.unusedVariables false
namespace XrayModel.Lex


def Outcome.isPanic {α} : Outcome α → Prop
  | .panic _ => True
  | _ => False

theorem applyEscapesAux_no_panic (fuel : Nat) (cs : List Char) : ¬ (applyEscapesAux fuel cs).isPanic := by
  induction fuel generalizing cs with
  | zero => simp [applyEscapesAux, Outcome.isPanic]
  | succ f ih =>
    cases cs with
    | nil => simp [applyEscapesAux, Outcome.isPanic]
    | cons c cs =>
      have hcopy : ∀ (r : List Char), ¬ (match applyEscapesAux f r with
          | .ok r' => Outcome.ok (c :: r')
          | e => e).isPanic := by
        intro r
        have := ih r
        cases h : applyEscapesAux f r <;> simp_all [Outcome.isPanic]
      have hcons : ∀ (ch : Char) (r : List Char), ¬ (match applyEscapesAux f r with
          | .ok r' => Outcome.ok (ch :: r')
          | e => e).isPanic := by
        intro ch r
        have := ih r
        cases h : applyEscapesAux f r <;> simp_all [Outcome.isPanic]
      unfold applyEscapesAux
      simp only
      split
      · split
        · split
          · simp [Outcome.isPanic]
          · exact hcons _ _
        · split
          · exact hcopy _
          · split
            · exact hcopy _
            · split
              · simp [Outcome.isPanic]
              · exact hcons _ _
      · exact hcopy _

/-- a text without backslashes denotes itself -/
theorem applyEscapesAux_plain (fuel : Nat) (cs : List Char) (h : ∀ c ∈ cs, c ≠ '\\') (hf : cs.length ≤ fuel) :
    applyEscapesAux fuel cs = .ok cs := by
  induction fuel generalizing cs with
  | zero =>
    have : cs = [] := by cases cs <;> simp_all
    subst this; rfl
  | succ f ih =>
    cases cs with
    | nil => rfl
    | cons c cs =>
      unfold applyEscapesAux
      simp only
      rw [if_neg (h c (by simp))]
      rw [ih cs (fun d hd => h d (by simp [hd])) (by simpa using hf)]



def dig (c : Char) : Nat := c.toNat - '0'.toNat

/-- value of a reversed digit string -/
def valRev : List Char → Nat
  | [] => 0
  | c :: cs => dig c + 10 * valRev cs

theorem valRev_snoc (l : List Char) (x : Char) : valRev (l ++ [x]) = valRev l + 10 ^ l.length * dig x := by
  induction l with
  | nil => simp [valRev]
  | cons y ys ihy => simp only [List.cons_append, valRev, ihy, List.length_cons, Nat.pow_succ]; ring

theorem foldl_dec (cs : List Char) (acc : Nat) :
    cs.foldl (fun acc c => acc * 10 + (c.toNat - '0'.toNat)) acc = acc * 10 ^ cs.length + valRev cs.reverse := by
  induction cs generalizing acc with
  | nil => simp [valRev]
  | cons c cs ih =>
    simp only [List.foldl_cons, ih, List.length_cons, List.reverse_cons]
    rw [valRev_snoc, List.length_reverse, Nat.pow_succ]
    simp only [dig]; ring

theorem decVal_eq (cs : List Char) : decVal cs = valRev cs.reverse := by
  unfold decVal; rw [foldl_dec]; simp

theorem isDigit_iff (c : Char) : isDigit c = true ↔ 48 ≤ c.toNat ∧ c.toNat ≤ 57 := by
  simp only [isDigit, Bool.and_eq_true, decide_eq_true_eq, Char.le_def]
  constructor <;> intro h <;> (have h1 := h.1; have h2 := h.2; simp only [Char.toNat] at *; constructor <;> simpa using ‹_›)

theorem char_eq_of_toNat {c d : Char} (h : c.toNat = d.toNat) : c = d := by
  apply Char.ext
  simp only [Char.toNat] at h
  exact UInt32.toNat_inj.mp h

theorem valRev_pos (r : List Char) (hne : r ≠ []) (hd : ∀ c ∈ r, isDigit c = true)
    (hl : r.getLast? ≠ some '0') : 0 < valRev r := by
  induction r with
  | nil => exact absurd rfl hne
  | cons c cs ih =>
    cases cs with
    | nil =>
      simp only [valRev, dig]
      have := (isDigit_iff c).mp (hd c (by simp))
      have hc : c ≠ '0' := by intro h; apply hl; simp [h]
      have : c.toNat ≠ 48 := by intro h; apply hc; exact char_eq_of_toNat (by simpa using h)
      have e : '0'.toNat = 48 := by decide
      omega
    | cons d t =>
      have := ih (by simp) (fun x hx => hd x (by simp [hx])) (by simpa [List.getLast?_cons_cons] using hl)
      simp only [valRev] at this ⊢
      omega

theorem valRev_inj (r1 r2 : List Char) (h1 : ∀ c ∈ r1, isDigit c = true) (h2 : ∀ c ∈ r2, isDigit c = true)
    (l1 : r1.getLast? ≠ some '0') (l2 : r2.getLast? ≠ some '0') (hv : valRev r1 = valRev r2) : r1 = r2 := by
  induction r1 generalizing r2 with
  | nil =>
    cases r2 with
    | nil => rfl
    | cons c cs =>
      have := valRev_pos (c :: cs) (by simp) h2 l2
      simp only [valRev] at hv this
      omega
  | cons c cs ih =>
    cases r2 with
    | nil =>
      have := valRev_pos (c :: cs) (by simp) h1 l1
      simp only [valRev] at hv this
      omega
    | cons d ds =>
      have hc := (isDigit_iff c).mp (h1 c (by simp))
      have hd := (isDigit_iff d).mp (h2 d (by simp))
      have e : '0'.toNat = 48 := by decide
      simp only [valRev, dig, e] at hv
      have hcd : c.toNat = d.toNat := by omega
      have hvv : valRev cs = valRev ds := by omega
      have tl : ∀ (x : Char) (xs : List Char), (x :: xs).getLast? ≠ some '0' → xs.getLast? ≠ some '0' := by
        intro x xs h
        cases xs with
        | nil => simp
        | cons y ys => simpa [List.getLast?_cons_cons] using h
      rw [char_eq_of_toNat hcd, ih ds (fun x hx => h1 x (by simp [hx])) (fun x hx => h2 x (by simp [hx])) (tl _ _ l1) (tl _ _ l2) hvv]

/-- canonical numerals: `0`, or a non-zero digit followed by digits -/
def canonical (ds : List Char) : Prop :=
  ds = ['0'] ∨ ∃ d rest, ds = d :: rest ∧ '1' ≤ d ∧ d ≤ '9' ∧ rest.all isDigit = true

theorem itemIndex_some {s : List Char} {i : Nat} (h : itemIndex s = some i) :
    ∃ ds, s = 'i' :: 't' :: 'e' :: 'm' :: ds ∧ canonical ds ∧ i = decVal ds := by
  unfold itemIndex at h
  split at h
  · rename_i ds
    refine ⟨ds, rfl, ?_⟩
    split at h
    · rename_i h0
      cases h
      exact ⟨Or.inl h0, by subst h0; decide⟩
    · split at h
      · rename_i d rest hne
        split at h
        · rename_i hc
          simp only [Bool.and_eq_true, decide_eq_true_eq] at hc
          simp only [] at h
          split at h
          · cases h
            exact ⟨Or.inr ⟨d, rest, rfl, hc.1.1, hc.1.2, hc.2⟩, rfl⟩
          · cases h
        · cases h
      · cases h
  · cases h

theorem decVal_inj_canonical (a b : List Char) (ha : canonical a) (hb : canonical b)
    (h : decVal a = decVal b) : a = b := by
  have key : ∀ ds, canonical ds → (∀ c ∈ ds.reverse, isDigit c = true) ∧ (ds = ['0'] ∨ ds.reverse.getLast? ≠ some '0') := by
    intro ds hds
    rcases hds with rfl | ⟨d, rest, rfl, h1, h9, hr⟩
    · exact ⟨by decide, Or.inl rfl⟩
    · have hdig : isDigit d = true := by
        simp only [isDigit, Bool.and_eq_true, decide_eq_true_eq]
        exact ⟨Char.le_trans (by decide) h1, h9⟩
      refine ⟨?_, Or.inr ?_⟩
      · intro c hc
        simp only [List.mem_reverse, List.mem_cons] at hc
        rcases hc with rfl | hc
        · exact hdig
        · exact List.all_eq_true.mp hr c hc
      · simp only [List.getLast?_reverse, List.head?_cons]
        intro hh
        cases hh
        exact absurd h1 (by decide)
  obtain ⟨da, la⟩ := key a ha
  obtain ⟨db, lb⟩ := key b hb
  rw [decVal_eq, decVal_eq] at h
  -- the numeral "0" is the only one of value 0
  have zero_case : ∀ x y : List Char, x = ['0'] → canonical y → (∀ c ∈ y.reverse, isDigit c = true) →
      (y = ['0'] ∨ y.reverse.getLast? ≠ some '0') → valRev y.reverse = valRev x.reverse → y = x := by
    intro x y hx hy dy ly hv
    subst hx
    rcases ly with rfl | ly
    · rfl
    · have hne : y.reverse ≠ [] := by
        rcases hy with rfl | ⟨d, rest, rfl, _⟩ <;> simp
      have := valRev_pos y.reverse hne dy ly
      have e : valRev ['0'].reverse = 0 := by decide
      omega
  rcases la with rfl | la
  · exact (zero_case _ b rfl hb db lb h.symm).symm
  · rcases lb with rfl | lb
    · exact zero_case _ a rfl ha da (Or.inr la) h
    · have := valRev_inj _ _ da db la lb h
      simpa using congrArg List.reverse this

/-- distinct spellings never share a symbol -/
theorem intern_inj (s1 s2 : List Char) (h : intern s1 = intern s2) : s1 = s2 := by
  unfold intern at h
  cases h1 : itemIndex s1 with
  | none =>
    cases h2 : itemIndex s2 with
    | none => rw [h1, h2] at h; simpa using h
    | some j => rw [h1, h2] at h; cases h
  | some i =>
    cases h2 : itemIndex s2 with
    | none => rw [h1, h2] at h; cases h
    | some j =>
      rw [h1, h2] at h
      have hij : i = j := by simpa using h
      obtain ⟨d1, rfl, c1, e1⟩ := itemIndex_some h1
      obtain ⟨d2, rfl, c2, e2⟩ := itemIndex_some h2
      rw [decVal_inj_canonical d1 d2 c1 c2 (by omega)]



theorem isHex_of_isDigit {c : Char} (h : isDigit c = true) : isHex c = true := by
  simp only [isDigit, isHex] at *; simp [h]

theorem hexVal_digit {c : Char} (h : isDigit c = true) : hexVal c < 10 := by
  have h' := (isDigit_iff c).mp h
  unfold hexVal
  have e : ('0' ≤ c && c ≤ '9') = true := h
  rw [if_pos e]
  have e0 : '0'.toNat = 48 := by decide
  omega

theorem filter_all {p : Char → Bool} (cs : List Char) (h : cs.all (fun c => p c || c = '_') = true) :
    (cs.filter (· ≠ '_')).all p = true := by
  induction cs with
  | nil => rfl
  | cons c cs ih =>
    simp only [List.all_cons, Bool.and_eq_true, Bool.or_eq_true, decide_eq_true_eq] at h
    by_cases hc : c = '_'
    · subst hc; simpa [List.filter] using ih (by simpa using h.2)
    · have hp : p c = true := by rcases h.1 with h | h; exact h; exact absurd h hc
      simp only [List.filter, ne_eq, hc, not_false_eq_true, decide_true, List.all_cons, hp, Bool.true_and]
      exact ih (by simpa using h.2)

/-- an integer-shaped literal (digits and `_` separators, starting with a digit) is an int with the value of
its digits, whatever its magnitude -/
theorem number_int (d : Char) (rest : List Char) (hd : isDigit d = true) (hr : rest.all isNumDigit = true) :
    numberLiteral (d :: rest) = .ok (.int (radixVal 10 ((d :: rest).filter (· ≠ '_')))) := by
  have hne : d ≠ '_' := by intro h; subst h; revert hd; decide
  have hall : ((d :: rest).filter (· ≠ '_')).all isDigit = true := by
    simp only [List.filter, ne_eq, hne, not_false_eq_true, decide_true, List.all_cons, hd, Bool.true_and]
    exact filter_all rest (by simpa [isNumDigit] using hr)
  unfold numberLiteral stripUs
  have hp : parseRadix 10 ((d :: rest).filter (· ≠ '_')) = some (radixVal 10 ((d :: rest).filter (· ≠ '_'))) := by
    unfold parseRadix
    rw [if_pos]
    simp only [Bool.and_eq_true, Bool.not_eq_true']
    refine ⟨by simp [List.filter, hne], ?_⟩
    rw [List.all_eq_true] at hall ⊢
    intro c hc
    have := hall c hc
    simp only [Bool.and_eq_true, decide_eq_true_eq]
    exact ⟨isHex_of_isDigit this, hexVal_digit this⟩
  simp only [hp]

theorem radixVal_snoc (radix : Nat) (ds : List Char) (c : Char) :
    radixVal radix (ds ++ [c]) = radixVal radix ds * radix + hexVal c := by
  simp [radixVal, List.foldl_append]


abbrev strip (l : List Char) : List Char := l.filter (· ≠ '_')

theorem strip_append (a b : List Char) : strip (a ++ b) = strip a ++ strip b := by simp [strip]

theorem isDigit_ne_us {c : Char} (h : isDigit c = true) : c ≠ '_' := by
  intro e; subst e; revert h; decide

theorem isHex_ne_us {c : Char} (h : isHex c = true) : c ≠ '_' := by
  intro e; subst e; revert h; decide

theorem strip_cons_keep {c : Char} (h : c ≠ '_') (l : List Char) : strip (c :: l) = c :: strip l := by
  simp [strip, List.filter, h]

theorem strip_dropWhile_us (l : List Char) : strip (l.dropWhile (· = '_')) = strip l := by
  induction l with
  | nil => rfl
  | cons c cs ih =>
    by_cases hc : c = '_'
    · subst hc; simp [List.dropWhile, strip, List.filter] at ih ⊢; exact ih
    · simp [List.dropWhile, hc]

theorem char_le_iff (a c : Char) : a ≤ c ↔ a.toNat ≤ c.toNat := by
  rw [Char.le_def]; simp only [Char.toNat]; exact UInt32.le_iff_toNat_le
theorem isHex_iff (c : Char) : isHex c = true ↔
    (48 ≤ c.toNat ∧ c.toNat ≤ 57) ∨ (97 ≤ c.toNat ∧ c.toNat ≤ 102) ∨ (65 ≤ c.toNat ∧ c.toNat ≤ 70) := by
  unfold isHex
  simp only [Bool.or_eq_true, Bool.and_eq_true, decide_eq_true_eq, char_le_iff]
  have e0 : '0'.toNat = 48 := by decide
  have e9 : '9'.toNat = 57 := by decide
  have ea : 'a'.toNat = 97 := by decide
  have ef : 'f'.toNat = 102 := by decide
  have eA : 'A'.toNat = 65 := by decide
  have eF : 'F'.toNat = 70 := by decide
  rw [e0, e9, ea, ef, eA, eF]
  constructor <;> intro h <;> omega

theorem hexVal_lt16 {c : Char} (h : isHex c = true) : hexVal c < 16 := by
  have hh := (isHex_iff c).mp h
  have e0 : '0'.toNat = 48 := by decide
  have e9 : '9'.toNat = 57 := by decide
  have ea : 'a'.toNat = 97 := by decide
  have ef : 'f'.toNat = 102 := by decide
  have eA : 'A'.toNat = 65 := by decide
  unfold hexVal
  split
  · rename_i hd
    simp only [Bool.and_eq_true, decide_eq_true_eq, char_le_iff, e0, e9] at hd
    omega
  · rename_i hnd
    simp only [Bool.and_eq_true, decide_eq_true_eq, char_le_iff, e0, e9] at hnd
    split
    · rename_i hl
      simp only [Bool.and_eq_true, decide_eq_true_eq, char_le_iff, ea, ef] at hl
      omega
    · rename_i hnl
      simp only [Bool.and_eq_true, decide_eq_true_eq, char_le_iff, ea, ef] at hnl
      omega

theorem parseRadix_some (radix : Nat) (cs : List Char) (hne : cs ≠ [])
    (h : ∀ c ∈ cs, isHex c = true ∧ hexVal c < radix) : parseRadix radix cs = some (radixVal radix cs) := by
  unfold parseRadix
  rw [if_pos]
  simp only [Bool.and_eq_true, Bool.not_eq_true', List.all_eq_true, decide_eq_true_eq]
  exact ⟨by cases cs <;> simp_all, h⟩


theorem strip_all_of {p : Char → Bool} (l : List Char) (h : l.all (fun c => p c || c = '_') = true) :
    (strip l).all p = true := filter_all l h

theorem hex_token_ok (rest : List Char) (h : isHexTok ('0' :: 'x' :: rest) = true) :
    ∃ v, parseRadix 16 (strip rest) = some v := by
  simp only [isHexTok] at h
  split at h
  · rename_i hd more hdw
    simp only [Bool.and_eq_true] at h
    have e : strip rest = hd :: strip more := by
      rw [← strip_dropWhile_us rest, hdw, strip_cons_keep (isHex_ne_us h.1)]
    have hm : (strip more).all isHex = true := strip_all_of more (by simpa [isHexDigitU] using h.2)
    refine ⟨_, parseRadix_some 16 _ (by rw [e]; simp) ?_⟩
    intro c hc
    rw [e] at hc
    rcases List.mem_cons.mp hc with rfl | hc
    · exact ⟨h.1, hexVal_lt16 h.1⟩
    · have := List.all_eq_true.mp hm c hc
      exact ⟨this, hexVal_lt16 this⟩
  · cases h

theorem isBin_props {c : Char} (h : isBin c = true) : isHex c = true ∧ hexVal c < 2 := by
  simp only [isBin, Bool.or_eq_true, decide_eq_true_eq] at h
  rcases h with rfl | rfl <;> decide

theorem bin_token_ok (rest : List Char) (h : isBinTok ('0' :: 'b' :: rest) = true) :
    ∃ v, parseRadix 2 (strip rest) = some v := by
  simp only [isBinTok] at h
  split at h
  · rename_i hd more hdw
    simp only [Bool.and_eq_true] at h
    have e : strip rest = hd :: strip more := by
      rw [← strip_dropWhile_us rest, hdw, strip_cons_keep (isHex_ne_us (isBin_props h.1).1)]
    have hm : (strip more).all isBin = true := strip_all_of more (by simpa [isBinDigitU] using h.2)
    refine ⟨_, parseRadix_some 2 _ (by rw [e]; simp) ?_⟩
    intro c hc
    rw [e] at hc
    rcases List.mem_cons.mp hc with rfl | hc
    · exact isBin_props h.1
    · exact isBin_props (List.all_eq_true.mp hm c hc)
  · cases h


theorem isNumDigit_iff (c : Char) : isNumDigit c = true ↔ isDigit c = true ∨ c = '_' := by
  simp [isNumDigit]

theorem strip_numDigits (l : List Char) (h : l.all isNumDigit = true) : (strip l).all isDigit = true :=
  filter_all l (by simpa [isNumDigit] using h)

theorem dropWhile_digits_append (a b : List Char) (ha : a.all isDigit = true)
    (hb : b = [] ∨ ∃ h tl, b = h :: tl ∧ isDigit h = false) : (a ++ b).dropWhile isDigit = b := by
  induction a with
  | nil =>
    rcases hb with rfl | ⟨h, tl, rfl, hh⟩
    · rfl
    · simp [List.dropWhile, hh]
  | cons c cs ih =>
    simp only [List.all_cons, Bool.and_eq_true] at ha
    simp [List.dropWhile, ha.1, ih ha.2]

theorem takeWhile_all (p : Char → Bool) (l : List Char) : (l.takeWhile p).all p = true := by
  induction l with
  | nil => rfl
  | cons c cs ih =>
    by_cases h : p c = true
    · simp [List.takeWhile, h, ih]
    · simp [List.takeWhile, h]

theorem dropWhile_head (p : Char → Bool) (l : List Char) :
    l.dropWhile p = [] ∨ ∃ h tl, l.dropWhile p = h :: tl ∧ p h = false := by
  induction l with
  | nil => left; rfl
  | cons c cs ih =>
    by_cases h : p c = true
    · simpa [List.dropWhile, h] using ih
    · right; exact ⟨c, cs, by simp [List.dropWhile, h], by simpa using h⟩

theorem isFloatExp_digit (d : Char) (m : List Char) (hd : isDigit d = true) :
    isFloatExp (d :: m) = m.all isDigit := by
  have hne : d ≠ '-' := by intro e; subst e; revert hd; decide
  unfold isFloatExp
  split
  · rename_i heq; cases heq; exact absurd rfl hne
  · rename_i heq; cases heq; simp [hd]
  · rename_i heq; cases heq

/-- exponent: the float exponent check holds on the stripped text -/
theorem floatExp_of_expTail (t : List Char) (h : isExpTail t = true) : isFloatExp (strip t) = true := by
  unfold isExpTail at h
  split at h
  · rename_i d m
    simp only [Bool.and_eq_true] at h
    rw [strip_cons_keep (by decide), strip_cons_keep (isDigit_ne_us h.1)]
    simp only [isFloatExp, h.1, strip_numDigits m h.2, Bool.and_self]
  · rename_i d m hnot
    simp only [Bool.and_eq_true] at h
    rw [strip_cons_keep (isDigit_ne_us h.1), isFloatExp_digit _ _ h.1]
    exact strip_numDigits m h.2
  · cases h


theorem floatTail_exp (e : Char) (t : List Char) (hne : e ≠ '.')
    (h : ((e = 'e' || e = 'E') && isExpTail t) = true) : isFloatTail (e :: strip t) = true := by
  simp only [Bool.and_eq_true] at h
  unfold isFloatTail
  split
  · rename_i more heq; cases heq; exact absurd rfl hne
  · simp only [h.1, floatExp_of_expTail t h.2, Bool.and_self]

theorem strip_head_keep (p : Char → Bool) (hp : p '_' = true) (l : List Char) :
    (l.dropWhile p = [] ∧ strip (l.dropWhile p) = []) ∨
    ∃ h tl, l.dropWhile p = h :: tl ∧ p h = false ∧ strip (l.dropWhile p) = h :: strip tl := by
  rcases dropWhile_head p l with h | ⟨h, tl, e, hh⟩
  · left; exact ⟨h, by rw [h]; rfl⟩
  · right
    refine ⟨h, tl, e, hh, ?_⟩
    rw [e, strip_cons_keep]
    intro e'; subst e'; rw [hp] at hh; cases hh

theorem floatTail_of_numTail (h : Char) (tl : List Char) (hh : isNumDigit h = false)
    (hn : isNumTail (h :: tl) = true) : isFloatTail (h :: strip tl) = true := by
  by_cases hdot : h = '.'
  · subst hdot
    cases tl with
    | nil => revert hn; decide
    | cons f more =>
      by_cases hf : isNumDigit f = true
      · have hn' := hn
        simp only [isNumTail, hf, if_true] at hn'
        -- split `more` into its digit run and the rest
        have hsplit : f :: more = (f :: more.takeWhile isNumDigit) ++ more.dropWhile isNumDigit := by
          simp [List.takeWhile_append_dropWhile]
        have hB : (strip (f :: more.takeWhile isNumDigit)).all isDigit = true :=
          strip_numDigits _ (by simp [hf, takeWhile_all])
        rw [hsplit, strip_append]
        unfold isFloatTail
        simp only
        rcases strip_head_keep isNumDigit (by decide) more with ⟨h0, hs0⟩ | ⟨e, t, he, hne, hse⟩
        · have hdw := dropWhile_digits_append _ [] hB (Or.inl rfl)
          rw [List.append_nil] at hdw
          rw [hs0, List.append_nil, hdw]
        · rw [hse, dropWhile_digits_append _ _ hB (Or.inr ⟨e, strip t, rfl, by
            simp only [isNumDigit, Bool.or_eq_false_iff] at hne; exact hne.1⟩)]
          rw [he] at hn'
          simp only [Bool.and_eq_true] at hn'
          simp only [hn'.1, floatExp_of_expTail t hn'.2, Bool.and_self]
      · exfalso
        have : isNumTail ('.' :: f :: more) = false := by
          simp [isNumTail, hf]
        rw [this] at hn; cases hn
  · have hn' : ((h = 'e' || h = 'E') && isExpTail tl) = true := by
      unfold isNumTail at hn
      split at hn
      · rename_i f r2 heq; cases heq; exact absurd rfl hdot
      · exact hn
    exact floatTail_exp h tl hdot hn'

theorem num_token_ok (d : Char) (rest : List Char) (h : isNumTok (d :: rest) = true) :
    (∃ v, parseRadix 10 (strip (d :: rest)) = some v) ∨ isFloatText (strip (d :: rest)) = true := by
  simp only [isNumTok, Bool.and_eq_true] at h
  obtain ⟨hd, hn⟩ := h
  have hsplit : rest = rest.takeWhile isNumDigit ++ rest.dropWhile isNumDigit := by
    simp [List.takeWhile_append_dropWhile]
  have hA : (strip (rest.takeWhile isNumDigit)).all isDigit = true := strip_numDigits _ (takeWhile_all _ _)
  have ht : strip (d :: rest) = (d :: strip (rest.takeWhile isNumDigit)) ++ strip (rest.dropWhile isNumDigit) := by
    rw [strip_cons_keep (isDigit_ne_us hd)]
    conv => lhs; rw [hsplit, strip_append]
    rfl
  rcases strip_head_keep isNumDigit (by decide) rest with ⟨h0, hs0⟩ | ⟨e, t, he, hne, hse⟩
  · left
    rw [ht, hs0, List.append_nil]
    refine ⟨_, parseRadix_some 10 _ (by simp) ?_⟩
    intro c hc
    have : isDigit c = true := by
      rcases List.mem_cons.mp hc with rfl | hc
      · exact hd
      · exact List.all_eq_true.mp hA c hc
    exact ⟨isHex_of_isDigit this, hexVal_digit this⟩
  · right
    rw [ht, hse]
    have he' : isDigit e = false := by
      simp only [isNumDigit, Bool.or_eq_false_iff] at hne; exact hne.1
    unfold isFloatText
    simp only [List.cons_append, hd, Bool.true_and]
    have : ((d :: strip (rest.takeWhile isNumDigit)) ++ e :: strip t).dropWhile isDigit = e :: strip t :=
      dropWhile_digits_append _ _ (by simp [hd, hA]) (Or.inr ⟨e, strip t, rfl, he'⟩)
    simp only [List.cons_append] at this
    rw [this]
    rw [he] at hn
    exact floatTail_of_numTail e t hne hn


theorem stripUs_eq (l : List Char) : stripUs l = strip l := rfl

theorem numberLiteral_ok_of (s : List Char)
    (h : (∃ v, parseRadix 10 (strip s) = some v) ∨ (∃ v, hexAttempt (strip s) = some v) ∨
         (∃ v, binAttempt (strip s) = some v) ∨ isFloatText (strip s) = true) :
    ¬ (numberLiteral s).isPanic := by
  unfold numberLiteral
  rw [stripUs_eq]
  cases h10 : parseRadix 10 (strip s) with
  | some v => simp [Outcome.isPanic]
  | none =>
    cases h16 : hexAttempt (strip s) with
    | some v => simp [Outcome.isPanic]
    | none =>
      cases h2 : binAttempt (strip s) with
      | some v => simp [Outcome.isPanic]
      | none =>
        rcases h with ⟨v, hv⟩ | ⟨v, hv⟩ | ⟨v, hv⟩ | hf
        · rw [h10] at hv; cases hv
        · rw [h16] at hv; cases hv
        · rw [h2] at hv; cases hv
        · simp only [hf, if_true]; simp [Outcome.isPanic]

/-- every token the grammar rule NUMBER_ANY can produce is handled without reaching the `panic!` -/
theorem numberLiteral_total (s : List Char) (h : isNumberAny s = true) : ¬ (numberLiteral s).isPanic := by
  apply numberLiteral_ok_of
  simp only [isNumberAny, Bool.or_eq_true] at h
  rcases h with (h | h) | h
  · -- hexnum
    have : ∃ rest, s = '0' :: 'x' :: rest := by
      unfold isHexTok at h
      split at h
      · exact ⟨_, rfl⟩
      · cases h
    obtain ⟨rest, rfl⟩ := this
    obtain ⟨v, hv⟩ := hex_token_ok rest h
    right; left
    refine ⟨v, ?_⟩
    rw [strip_cons_keep (by decide), strip_cons_keep (by decide)]
    simpa [hexAttempt, binAttempt] using hv
  · have : ∃ rest, s = '0' :: 'b' :: rest := by
      unfold isBinTok at h
      split at h
      · exact ⟨_, rfl⟩
      · cases h
    obtain ⟨rest, rfl⟩ := this
    obtain ⟨v, hv⟩ := bin_token_ok rest h
    right; right; left
    refine ⟨v, ?_⟩
    rw [strip_cons_keep (by decide), strip_cons_keep (by decide)]
    simpa [hexAttempt, binAttempt] using hv
  · cases s with
    | nil => cases h
    | cons d rest =>
      rcases num_token_ok d rest h with h' | h'
      · left; exact h'
      · right; right; right; exact h'


theorem closes_self (q : Char) (n : Nat) (rest : List Char) :
    closes q n (q :: List.replicate n '#' ++ rest) = true := by
  unfold closes
  have : (q :: List.replicate n '#' ++ rest) = (q :: List.replicate n '#') ++ rest := by simp
  rw [this]
  exact List.isPrefixOf_iff_prefix.mpr (List.prefix_append _ _)

theorem drop_self (q : Char) (n : Nat) (rest : List Char) :
    (q :: List.replicate n '#' ++ rest).drop (n + 1) = rest := by
  simp [List.drop_append]

/-- raw scanning: if the closing delimiter does not occur at any position inside `t`, the inner text is `t` -/
theorem scanInner_raw (q : Char) (n : Nat) (t rest : List Char) (fuel : Nat) (hf : t.length < fuel)
    (tail : List Char) (htail : closes q n tail = true) (hdrop : tail.drop (n + 1) = rest)
    (h : ∀ i, i < t.length → closes q n (t.drop i ++ tail) = false) :
    scanInner q n true fuel (t ++ tail) = some (t, rest) := by
  induction t generalizing fuel with
  | nil =>
    cases fuel with
    | zero => omega
    | succ f =>
      simp only [List.nil_append, scanInner]
      rw [if_pos htail, hdrop]
  | cons c cs ih =>
    cases fuel with
    | zero => omega
    | succ f =>
      have h0 := h 0 (by simp)
      simp only [List.drop_zero] at h0
      simp only [List.cons_append] at h0 ⊢
      unfold scanInner
      rw [if_neg (by simpa using h0)]
      simp only [Bool.not_true, Bool.false_and, Bool.false_eq_true, if_false]
      rw [ih f (by simpa using hf) (by
        intro i hi
        have := h (i + 1) (by simpa using hi)
        simpa using this)]
      rfl

/-- scanning with escapes: the same, when `t` has no backslash either -/
theorem scanInner_plain (q : Char) (n : Nat) (t rest : List Char) (fuel : Nat) (hf : t.length < fuel)
    (hb : ∀ c ∈ t, c ≠ '\\')
    (tail : List Char) (htail : closes q n tail = true) (hdrop : tail.drop (n + 1) = rest)
    (h : ∀ i, i < t.length → closes q n (t.drop i ++ tail) = false) :
    scanInner q n false fuel (t ++ tail) = some (t, rest) := by
  induction t generalizing fuel with
  | nil =>
    cases fuel with
    | zero => omega
    | succ f =>
      simp only [List.nil_append, scanInner]
      rw [if_pos htail, hdrop]
  | cons c cs ih =>
    cases fuel with
    | zero => omega
    | succ f =>
      have h0 := h 0 (by simp)
      simp only [List.drop_zero] at h0
      simp only [List.cons_append] at h0 ⊢
      unfold scanInner
      rw [if_neg (by simpa using h0)]
      have hc : c ≠ '\\' := hb c (by simp)
      simp only [Bool.not_false, Bool.true_and, decide_eq_true_eq, hc, if_false]
      rw [ih f (by simpa using hf) (fun d hd => hb d (by simp [hd])) (by
        intro i hi
        have := h (i + 1) (by simpa using hi)
        simpa using this)]
      rfl

/-- no quote character in the text: the delimiter cannot occur inside it, whatever the fence -/
theorem no_close_of_not_mem (q : Char) (n : Nat) (t tail : List Char) (hq : q ∉ t) :
    ∀ i, i < t.length → closes q n (t.drop i ++ tail) = false := by
  intro i hi
  have hne : t.drop i ≠ [] := by simp; omega
  obtain ⟨c, cs, hcs⟩ := List.exists_cons_of_ne_nil hne
  have hc : c ∈ t := List.mem_of_mem_drop (by rw [hcs]; simp)
  rw [hcs]
  unfold closes
  simp only [List.cons_append, List.isPrefixOf, Bool.and_eq_false_imp, beq_iff_eq]
  intro e
  subst e
  exact absurd hc hq


def isQuote (q : Char) : Prop := q = '"' ∨ q = '\''

theorem takeWhile_hash (n : Nat) (q : Char) (l : List Char) (hq : q ≠ '#') :
    (List.replicate n '#' ++ q :: l).takeWhile (· = '#') = List.replicate n '#' := by
  induction n with
  | zero => simp [List.takeWhile, hq]
  | succ k ih => simp [List.replicate_succ, List.takeWhile, ih]

theorem dropWhile_hash (n : Nat) (q : Char) (l : List Char) (hq : q ≠ '#') :
    (List.replicate n '#' ++ q :: l).dropWhile (· = '#') = q :: l := by
  induction n with
  | zero => simp [List.dropWhile, hq]
  | succ k ih => simp [List.replicate_succ, List.dropWhile, ih]

/-- the value of the literal `#…# q t q #…#` (raw: with the prefix `r`), given that the closing delimiter does
not occur inside `t` -/
theorem parseLiteral_raw (q : Char) (hq : isQuote q) (n : Nat) (t : List Char)
    (h : ∀ i, i < t.length → closes q n (t.drop i ++ (q :: List.replicate n '#')) = false) :
    parseLiteral ('r' :: (List.replicate n '#' ++ q :: (t ++ q :: List.replicate n '#'))) = some (.ok t, []) := by
  have hq' : q ≠ '#' := by rcases hq with rfl | rfl <;> decide
  unfold parseLiteral
  have hr : isRawPrefix ('r' :: (List.replicate n '#' ++ q :: (t ++ q :: List.replicate n '#'))) = true := rfl
  simp only [hr, if_true, List.drop_succ_cons, List.drop_zero, takeWhile_hash n q _ hq', dropWhile_hash n q _ hq',
    List.length_replicate]
  have hqq : (q = '"' || q = '\'') = true := by rcases hq with rfl | rfl <;> decide
  rw [if_pos hqq]
  have := scanInner_raw q n t [] ((t ++ q :: List.replicate n '#').length + 1) (by simp; omega)
    (q :: List.replicate n '#') (by simpa using closes_self q n []) (by simp) h
  rw [this]
  rfl

theorem parseLiteral_plain (q : Char) (hq : isQuote q) (n : Nat) (t : List Char)
    (hb : ∀ c ∈ t, c ≠ '\\')
    (h : ∀ i, i < t.length → closes q n (t.drop i ++ (q :: List.replicate n '#')) = false) :
    parseLiteral (List.replicate n '#' ++ q :: (t ++ q :: List.replicate n '#')) = some (.ok t, []) := by
  have hq' : q ≠ '#' := by rcases hq with rfl | rfl <;> decide
  have hqr : q ≠ 'r' := by rcases hq with rfl | rfl <;> decide
  have hraw : isRawPrefix (List.replicate n '#' ++ q :: (t ++ q :: List.replicate n '#')) = false := by
    cases n with
    | zero =>
      simp only [List.replicate_zero, List.nil_append]
      unfold isRawPrefix
      split
      · rename_i heq; cases heq; exact absurd rfl hqr
      · rfl
    | succ k =>
      simp only [List.replicate_succ, List.cons_append]
      rfl
  unfold parseLiteral
  simp only [hraw, Bool.false_eq_true, if_false, takeWhile_hash n q _ hq', dropWhile_hash n q _ hq',
    List.length_replicate]
  have hqq : (q = '"' || q = '\'') = true := by rcases hq with rfl | rfl <;> decide
  rw [if_pos hqq]
  have := scanInner_plain q n t [] ((t ++ q :: List.replicate n '#').length + 1) (by simp; omega) hb
    (q :: List.replicate n '#') (by simpa using closes_self q n []) (by simp) h
  rw [this]
  simp only [Option.map_some]
  rw [applyEscapesAux_plain _ t hb (Nat.le_succ _) |> (fun e => (by unfold applyEscapes; exact e : applyEscapes t = .ok t))]

/-- inside a fence of at least one `#`, a quote that is not directly followed by `#` does not close the literal -/
theorem no_close_of_fence (q : Char) (hq : isQuote q) (n : Nat) (hn : 1 ≤ n) (t : List Char)
    (h : ∀ i, t[i]? = some q → t[i + 1]? ≠ some '#') :
    ∀ i, i < t.length → closes q n (t.drop i ++ (q :: List.replicate n '#')) = false := by
  have hq' : q ≠ '#' := by rcases hq with rfl | rfl <;> decide
  intro i hi
  obtain ⟨k, rfl⟩ : ∃ k, n = k + 1 := ⟨n - 1, by omega⟩
  have hd : t.drop i = t[i] :: t.drop (i + 1) := by
    rw [List.drop_eq_getElem_cons hi]
  rw [hd]
  unfold closes
  simp only [List.replicate_succ, List.cons_append, List.isPrefixOf, Bool.and_eq_false_imp, beq_iff_eq]
  intro e
  have hqi : t[i]? = some q := by rw [List.getElem?_eq_getElem hi, e]
  have hnext := h i hqi
  -- the character after the quote
  by_cases hlast : i + 1 < t.length
  · have hd2 : t.drop (i + 1) = t[i + 1] :: t.drop (i + 2) := by rw [List.drop_eq_getElem_cons hlast]
    rw [hd2]
    simp only [List.cons_append, List.isPrefixOf, Bool.and_eq_false_imp, beq_iff_eq]
    intro e2
    exfalso
    apply hnext
    rw [List.getElem?_eq_getElem hlast, ← e2]
  · have : t.drop (i + 1) = [] := by simp; omega
    rw [this]
    simp only [List.nil_append, List.isPrefixOf, Bool.and_eq_false_imp, beq_iff_eq]
    intro e2
    exact absurd e2.symm hq'


end XrayModel.Lex
