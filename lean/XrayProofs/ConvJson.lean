/- C20 helper lemmas: the JSON reader reads back what the serialiser of include.rs writes -/
import XrayModel.Conv
import XrayProofs.ConvStr
set_option linter.unusedSimpArgs false
namespace XrayModel.Conv

/-- nothing that may follow a number in serialised text continues the number -/
def NoNumStart (R : List Nat) : Prop := ∀ c t, R = c :: t → isNumChar c = false

theorem spanNum_append (tok R : List Nat) (h : ∀ c ∈ tok, isNumChar c = true) (hR : NoNumStart R) :
    spanNum (tok ++ R) = (tok, R) := by
  induction tok with
  | nil =>
    cases R with
    | nil => rfl
    | cons c t => simp [spanNum, hR c t rfl]
  | cons c cs ih =>
    have hc := h c (by simp)
    have := ih (fun x hx => h x (by simp [hx]))
    simp [spanNum, hc, this]

mutual
  def size : J → Nat
    | .arr xs => 1 + sizeL xs
    | .obj fs => 1 + sizeF fs
    | _ => 1
  def sizeL : List J → Nat
    | [] => 0
    | x :: xs => size x + 1 + sizeL xs
  def sizeF : List (List Nat × J) → Nat
    | [] => 0
    | (_, v) :: rest => size v + 1 + sizeF rest
end

mutual
  /-- number tokens are non-empty runs of number characters (what float `to_str` produces) -/
  def WF : J → Prop
    | .num tok => tok ≠ [] ∧ ∀ c ∈ tok, isNumChar c = true
    | .arr xs => WFL xs
    | .obj fs => WFF fs
    | _ => True
  def WFL : List J → Prop
    | [] => True
    | x :: xs => WF x ∧ WFL xs
  def WFF : List (List Nat × J) → Prop
    | [] => True
    | (_, v) :: rest => WF v ∧ WFF rest
end

theorem size_pos (j : J) : 1 ≤ size j := by cases j <;> simp [size] <;> omega

theorem noNum_of_head (c : Nat) (t : List Nat) (h : isNumChar c = false) : NoNumStart (c :: t) := by
  intro c' t' e; cases e; exact h

/-- serialised text never starts with `]` (so `[` followed by `]` is the empty array only) -/
theorem ser_head (j : J) (h : WF j) : ∃ c t, ser j = c :: t ∧ c ≠ 93 := by
  cases j with
  | num tok =>
    cases tok with
    | nil => exact absurd rfl h.1
    | cons c t =>
      refine ⟨c, t, by simp [ser], ?_⟩
      have := h.2 c (by simp)
      intro e; subst e; simp [isNumChar] at this
  | bool b => cases b <;> simp [ser]
  | str s => simp [ser, escapeStr]
  | null => simp [ser]
  | arr xs => simp [ser]
  | obj fs => simp [ser]

theorem parseVal_cons (fuel c : Nat) (rest : List Nat) : parseVal (fuel + 1) (c :: rest) =
        if c = 34 then
          match readStr rest [] with
          | some (s, r) => some (J.str s, r)
          | none => none
        else if c = 91 then
          match rest with
          | 93 :: r => some (J.arr [], r)
          | _ =>
            match parseItems fuel rest with
            | some (xs, r) => some (J.arr xs, r)
            | none => none
        else if c = 123 then
          match rest with
          | 125 :: r => some (J.obj [], r)
          | _ =>
            match parseFields fuel rest with
            | some (xs, r) => some (J.obj xs, r)
            | none => none
        else if c = 116 then
          match rest with
          | 114 :: 117 :: 101 :: r => some (J.bool true, r)
          | _ => none
        else if c = 102 then
          match rest with
          | 97 :: 108 :: 115 :: 101 :: r => some (J.bool false, r)
          | _ => none
        else if c = 110 then
          match rest with
          | 117 :: 108 :: 108 :: r => some (J.null, r)
          | _ => none
        else
          if (spanNum (c :: rest)).1 = [] then none else some (J.num (spanNum (c :: rest)).1, (spanNum (c :: rest)).2) := by
  rw [parseVal.eq_def]
  try rfl

theorem parseItems_succ (fuel : Nat) (t : List Nat) : parseItems (fuel + 1) t =
      match parseVal fuel t with
      | none => none
      | some (x, r) =>
        match r with
        | 44 :: r2 =>
          match parseItems fuel r2 with
          | some (xs, r3) => some (x :: xs, r3)
          | none => none
        | 93 :: r2 => some ([x], r2)
        | _ => none := by
  rw [parseItems.eq_def]
  try rfl

theorem parseFields_succ (fuel : Nat) (t1 : List Nat) : parseFields (fuel + 1) (34 :: t1) =
        match readStr t1 [] with
        | some (k, 58 :: t2) =>
          match parseVal fuel t2 with
          | none => none
          | some (x, r) =>
            match r with
            | 44 :: r2 =>
              match parseFields fuel r2 with
              | some (xs, r3) => some ((k, x) :: xs, r3)
              | none => none
            | 125 :: r2 => some ([(k, x)], r2)
            | _ => none
        | _ => none := by
  rw [parseFields.eq_def]
  rfl

def ValOK (n : Nat) : Prop :=
  ∀ j R, size j ≤ n → WF j → NoNumStart R → parseVal n (ser j ++ R) = some (j, R)

def ItemsOK (n : Nat) : Prop :=
  ∀ x xs R, sizeL (x :: xs) ≤ n → WFL (x :: xs) →
    parseItems n (joinWith [44] (serList (x :: xs)) ++ 93 :: R) = some (x :: xs, R)

def FieldsOK (n : Nat) : Prop :=
  ∀ f fs R, sizeF (f :: fs) ≤ n → WFF (f :: fs) →
    parseFields n (joinWith [44] (serFields (f :: fs)) ++ 125 :: R) = some (f :: fs, R)

theorem all_ok : ∀ n, ValOK n ∧ ItemsOK n ∧ FieldsOK n := by
  intro n
  induction n with
  | zero =>
    refine ⟨?_, ?_, ?_⟩
    · intro j R hs; have := size_pos j; omega
    · intro x xs R hs; simp only [sizeL] at hs; omega
    · intro f fs R hs; obtain ⟨k, v⟩ := f; simp only [sizeF] at hs; omega
  | succ n ih =>
    obtain ⟨ihV, ihI, ihF⟩ := ih
    refine ⟨?_, ?_, ?_⟩
    · intro j R hs hw hR
      cases j with
      | num tok =>
        obtain ⟨hne, hall⟩ := hw
        cases tok with
        | nil => exact absurd rfl hne
        | cons c t =>
          have hc := hall c (by simp)
          have hsp := spanNum_append (c :: t) R hall hR
          simp only [ser, List.cons_append] at *
          rw [parseVal_cons]
          have h1 : c ≠ 34 := by intro e; subst e; simp [isNumChar] at hc
          have h2 : c ≠ 91 := by intro e; subst e; simp [isNumChar] at hc
          have h3 : c ≠ 123 := by intro e; subst e; simp [isNumChar] at hc
          have h4 : c ≠ 116 := by intro e; subst e; simp [isNumChar] at hc
          have h5 : c ≠ 102 := by intro e; subst e; simp [isNumChar] at hc
          have h6 : c ≠ 110 := by intro e; subst e; simp [isNumChar] at hc
          simp only [h1, h2, h3, h4, h5, h6, if_false, hsp]
          simp
      | bool b =>
        cases b <;> simp only [ser, List.cons_append, List.nil_append, if_true, if_false, Bool.false_eq_true] <;> rw [parseVal_cons] <;> simp
      | str s =>
        simp only [ser, escapeStr_append]
        rw [parseVal_cons]
        simp [read_body]
      | null =>
        simp only [ser, List.cons_append, List.nil_append]; rw [parseVal_cons]; simp
      | arr xs =>
        cases xs with
        | nil => simp only [ser, serList, joinWith, List.cons_append, List.nil_append]; rw [parseVal_cons]; simp
        | cons x xs =>
          have hsz : sizeL (x :: xs) ≤ n := by simp only [size] at hs; omega
          have hi := ihI x xs R hsz hw
          obtain ⟨c, t, hc, hne⟩ := ser_head x hw.1
          simp only [ser, List.cons_append, List.nil_append, List.append_assoc]
          rw [parseVal_cons]
          simp only [show ¬ (91 = 34) by decide, if_false, if_true]
          have hrest : joinWith [44] (serList (x :: xs)) ++ ([93] ++ R) = joinWith [44] (serList (x :: xs)) ++ 93 :: R := by simp
          -- the text after `[` does not start with `]`
          have hh : ∃ t', joinWith [44] (serList (x :: xs)) ++ 93 :: R = c :: t' := by
            cases xs with
            | nil => exact ⟨t ++ 93 :: R, by simp [serList, joinWith, hc]⟩
            | cons y ys => exact ⟨t ++ [44] ++ joinWith [44] (serList (y :: ys)) ++ 93 :: R, by simp [serList, joinWith, hc]⟩
          obtain ⟨t', ht'⟩ := hh
          rw [ht'] at hi ⊢
          split
          · rename_i r heq; cases heq; exact absurd rfl hne
          · rw [hi]
      | obj fs =>
        cases fs with
        | nil => simp only [ser, serFields, joinWith, List.cons_append, List.nil_append]; rw [parseVal_cons]; simp
        | cons f fs =>
          have hsz : sizeF (f :: fs) ≤ n := by simp only [size] at hs; omega
          have hi := ihF f fs R hsz hw
          obtain ⟨k, v⟩ := f
          simp only [ser, List.cons_append, List.nil_append, List.append_assoc]
          rw [parseVal_cons]
          simp only [show ¬ (123 = 34) by decide, show ¬ (123 = 91) by decide, if_false, if_true]
          have hrest : joinWith [44] (serFields ((k, v) :: fs)) ++ ([125] ++ R) = joinWith [44] (serFields ((k, v) :: fs)) ++ 125 :: R := by simp
          have hh : ∃ t', joinWith [44] (serFields ((k, v) :: fs)) ++ 125 :: R = 34 :: t' := by
            cases fs with
            | nil => exact ⟨_, by simp [serFields, joinWith, escapeStr]; rfl⟩
            | cons y ys => exact ⟨_, by simp [serFields, joinWith, escapeStr]; rfl⟩
          obtain ⟨t', ht'⟩ := hh
          rw [ht'] at hi ⊢
          split
          · rename_i r heq; cases heq
          · rw [hi]
    · -- items
      intro x xs R hs hw
      rw [parseItems_succ]
      cases xs with
      | nil =>
        have hx : size x ≤ n := by simp only [sizeL] at hs; omega
        have := ihV x (93 :: R) hx hw.1 (noNum_of_head 93 R (by decide))
        simp only [serList, joinWith]
        rw [this]
        rfl
      | cons y ys =>
        have hx : size x ≤ n := by simp only [sizeL] at hs; omega
        have hrest : sizeL (y :: ys) ≤ n := by simp only [sizeL] at hs ⊢; omega
        have h1 := ihV x (44 :: (joinWith [44] (serList (y :: ys)) ++ 93 :: R)) hx hw.1 (noNum_of_head 44 _ (by decide))
        have h2 := ihI y ys R hrest hw.2
        have e : joinWith [44] (serList (x :: y :: ys)) ++ 93 :: R =
            ser x ++ 44 :: (joinWith [44] (serList (y :: ys)) ++ 93 :: R) := by
          simp [serList, joinWith]
        rw [e, h1]
        simp only
        rw [h2]
    · -- fields
      intro f fs R hs hw
      obtain ⟨k, v⟩ := f
      cases fs with
      | nil =>
        have hx : size v ≤ n := by simp only [sizeF] at hs; omega
        have := ihV v (125 :: R) hx hw.1 (noNum_of_head 125 R (by decide))
        have e : joinWith [44] (serFields [(k, v)]) ++ 125 :: R = 34 :: (escapeBody k ++ 34 :: (58 :: (ser v ++ 125 :: R))) := by
          simp [serFields, joinWith, escapeStr]
        rw [e]
        rw [parseFields_succ, read_body]
        simp only [List.reverse_nil, List.nil_append]
        rw [this]
        rfl
      | cons y ys =>
        have hx : size v ≤ n := by simp only [sizeF] at hs; omega
        obtain ⟨k2, v2⟩ := y
        have hrest : sizeF ((k2, v2) :: ys) ≤ n := by simp only [sizeF] at hs ⊢; omega
        have h1 := ihV v (44 :: (joinWith [44] (serFields ((k2, v2) :: ys)) ++ 125 :: R)) hx hw.1 (noNum_of_head 44 _ (by decide))
        have h2 := ihF (k2, v2) ys R hrest hw.2
        have e : joinWith [44] (serFields ((k, v) :: (k2, v2) :: ys)) ++ 125 :: R =
            34 :: (escapeBody k ++ 34 :: (58 :: (ser v ++ 44 :: (joinWith [44] (serFields ((k2, v2) :: ys)) ++ 125 :: R)))) := by
          simp [serFields, joinWith, escapeStr]
        rw [e]
        rw [parseFields_succ, read_body]
        simp only [List.reverse_nil, List.nil_append]
        rw [h1]
        simp only
        rw [h2]

theorem joinWith_cons2 (sep x y : List Nat) (rest : List (List Nat)) :
    joinWith sep (x :: y :: rest) = x ++ sep ++ joinWith sep (y :: rest) := rfl

mutual
  theorem size_le : ∀ (j : J), WF j → size j ≤ (ser j).length
    | .num tok, h => by
      cases tok with
      | nil => exact absurd rfl h.1
      | cons c t => simp [size, ser]
    | .bool b, _ => by cases b <;> simp [size, ser]
    | .str s, _ => by simp [size, ser, escapeStr]
    | .null, _ => by simp [size, ser]
    | .arr xs, h => by
      have := sizeL_le xs h
      simp only [size, ser, List.length_append, List.length_cons, List.length_nil]
      omega
    | .obj fs, h => by
      have := sizeF_le fs h
      simp only [size, ser, List.length_append, List.length_cons, List.length_nil]
      omega
  theorem sizeL_le : ∀ (xs : List J), WFL xs → sizeL xs ≤ (joinWith [44] (serList xs)).length + 1
    | [], _ => by simp [sizeL]
    | [x], h => by
      have := size_le x h.1
      simp only [sizeL, serList, joinWith]
      omega
    | x :: y :: ys, h => by
      have h1 := size_le x h.1
      have h2 := sizeL_le (y :: ys) h.2
      simp only [sizeL, serList, joinWith_cons2, List.length_append, List.length_cons, List.length_nil] at *
      omega
  theorem sizeF_le : ∀ (fs : List (List Nat × J)), WFF fs → sizeF fs ≤ (joinWith [44] (serFields fs)).length + 1
    | [], _ => by simp [sizeF]
    | [(k, v)], h => by
      have := size_le v h.1
      simp only [sizeF, serFields, joinWith, List.length_append, List.length_cons, List.length_nil]
      omega
    | (k, v) :: (k2, v2) :: ys, h => by
      have h1 := size_le v h.1
      have h2 := sizeF_le ((k2, v2) :: ys) h.2
      simp only [sizeF, serFields, joinWith_cons2, List.length_append, List.length_cons, List.length_nil] at *
      omega
end

theorem parse_ser_doc (j : J) (h : WF j) : parseJson (ser j) = some j := by
  have hv := (all_ok ((ser j).length + 1)).1 j [] (by have := size_le j h; omega) h (by intro c t e; cases e)
  unfold parseJson
  rw [List.append_nil] at hv
  rw [hv]

end XrayModel.Conv
