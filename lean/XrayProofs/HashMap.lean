/- helper definitions and lemmas for C17 (model: XrayModel/HashMap.lean) -/
import XrayModel.HashMap
namespace XrayModel.HM

/-- the premise of the property: `eq` is a (total, error-free) equivalence relation, `hash` is total,
equal keys hash equally, and hashes lie in `[0, 2^64)` -/
structure Consistent {K : Type} (hash : K → Res Int) (eq : K → K → Res Bool) where
  h : K → Nat
  e : K → K → Bool
  hash_ok : ∀ k, hash k = .ok (h k : Int)
  hash_lt : ∀ k, h k < 18446744073709551616
  eq_ok : ∀ a b, eq a b = .ok (e a b)
  refl : ∀ a, e a a = true
  symm : ∀ a b, e a b = true → e b a = true
  trans : ∀ a b c, e a b = true → e b c = true → e a c = true
  congr : ∀ a b, e a b = true → h a = h b

section
variable {K V : Type}

/-- association-list lookup over the equivalence classes of `e`: the value of the first entry whose key is
`e`-equal to `k` -/
def findE (e : K → K → Bool) (k : K) : List (K × V) → Option V
  | [] => none
  | (k', v) :: r => if e k k' then some v else findE e k r

/-- pure reading of `scan` -/
def scanP (e : K → K → Bool) (key : K) : Bucket K V → Option Nat
  | [] => none
  | (k, _) :: rest => if e key k then some 0 else (scanP e key rest).map (· + 1)

variable {hash : K → Res Int} {eq : K → K → Res Bool}

theorem scan_eq (C : Consistent hash eq) (key : K) (b : Bucket K V) :
    scan eq key b = .ok (scanP C.e key b) := by
  induction b with
  | nil => rfl
  | cons kv rest ih =>
    obtain ⟨k, v⟩ := kv
    simp only [scan, scanP, C.eq_ok, ih]
    cases C.e key k <;> simp
    cases scanP C.e key rest <;> simp

theorem toU64_nat (n : Nat) (hn : n < 18446744073709551616) : toU64 (n : Int) = some n := by
  unfold toU64
  split
  · simp
  · omega

/-- pure reading of `locate` -/
def locP (C : Consistent hash eq) (t : Table K V) (k : K) : Loc :=
  match bget t.buckets (C.h k) with
  | none => .vacant (C.h k)
  | some b =>
    match scanP C.e k b with
    | some i => .found (C.h k) i
    | none => .missing (C.h k)

theorem hash_u64 (C : Consistent hash eq) (k : K) : ∃ x, hash k = .ok x ∧ toU64 x = some (C.h k) :=
  ⟨_, C.hash_ok k, toU64_nat _ (C.hash_lt k)⟩

theorem locate_eq (C : Consistent hash eq) (t : Table K V) (k : K) :
    locate hash eq t k = .ok (locP C t k) := by
  -- (through `hash_u64`, so that the kernel never tries to evaluate `toU64` on a cast)
  obtain ⟨x, hh, hu⟩ := hash_u64 C k
  unfold locP
  simp only [locate, hh, hu]
  cases bget t.buckets (C.h k) with
  | none => rfl
  | some b =>
    simp only [scan_eq C]
    cases scanP C.e k b <;> rfl

/-! ### the `HashMap<u64, _>` association list -/

theorem bget_binsert {β : Type} (bs : List (Nat × β)) (h h' : Nat) (b : β) :
    bget (binsert bs h b) h' = if h = h' then some b else bget bs h' := by
  induction bs with
  | nil => simp [binsert, bget]
  | cons hb rest ih =>
    obtain ⟨h0, b0⟩ := hb
    simp only [binsert]
    by_cases h1 : h0 = h
    · subst h1; simp only [if_true, bget]; split <;> rfl
    · simp only [if_neg h1, bget, ih]
      by_cases h2 : h0 = h'
      · subst h2; simp [Ne.symm h1]
      · simp [h2]

theorem bget_bremove {β : Type} (bs : List (Nat × β)) (h h' : Nat) :
    bget (bremove bs h) h' = if h = h' then none else bget bs h' := by
  induction bs with
  | nil => simp [bremove, bget]
  | cons hb rest ih =>
    obtain ⟨h0, b0⟩ := hb
    simp only [bremove]
    by_cases h1 : h0 = h
    · subst h1; simp only [if_true, ih, bget]
      by_cases h2 : h0 = h' <;> simp [h2]
    · simp only [if_neg h1, bget, ih]
      by_cases h2 : h0 = h'
      · subst h2; simp [Ne.symm h1]
      · simp [h2]

theorem bremove_of_none {β : Type} (bs : List (Nat × β)) (h : Nat) (hn : bget bs h = none) :
    bremove bs h = bs := by
  induction bs with
  | nil => rfl
  | cons hb rest ih =>
    obtain ⟨h0, b0⟩ := hb
    simp only [bget] at hn
    by_cases h1 : h0 = h
    · simp [h1] at hn
    · simp only [if_neg h1] at hn
      simp [bremove, h1, ih hn]

/-- number of stored entries -/
def lenSum : List (Nat × Bucket K V) → Nat
  | [] => 0
  | (_, b) :: rest => b.length + lenSum rest

theorem toList_length (t : Table K V) : (toList t).length = lenSum t.buckets := by
  unfold toList
  induction t.buckets with
  | nil => rfl
  | cons hb rest ih => simp [List.flatMap_cons, lenSum, ih]

/-- length of the bucket stored under `h` (0 when there is none) -/
def blen (bs : List (Nat × Bucket K V)) (h : Nat) : Nat :=
  match bget bs h with
  | none => 0
  | some b => b.length

theorem lenSum_binsert (bs : List (Nat × Bucket K V)) (h : Nat) (b : Bucket K V) :
    lenSum (binsert bs h b) + blen bs h = lenSum bs + b.length := by
  induction bs with
  | nil => simp [binsert, lenSum, blen, bget]
  | cons hb rest ih =>
    obtain ⟨h0, b0⟩ := hb
    by_cases h1 : h0 = h
    · subst h1; simp [binsert, lenSum, blen, bget]; omega
    · have : blen ((h0, b0) :: rest) h = blen rest h := by simp [blen, bget, h1]
      simp only [binsert, if_neg h1, lenSum, this]
      omega

/-- well-formed bucket: keys sit under their hash, are pairwise inequivalent, and the bucket is not empty -/
def BucketOK (C : Consistent hash eq) (h : Nat) (b : Bucket K V) : Prop :=
  (∀ kv ∈ b, C.h kv.1 = h) ∧ b.Pairwise (fun x y => C.e x.1 y.1 = false) ∧ b ≠ []

/-- well-formed bucket table: every bucket is well-formed and no hash occurs twice -/
def BucketsOK (C : Consistent hash eq) : List (Nat × Bucket K V) → Prop
  | [] => True
  | (h, b) :: rest => BucketOK C h b ∧ bget rest h = none ∧ BucketsOK C rest

/-- the representation invariant of `XMapping` / `XSet` -/
structure Inv (C : Consistent hash eq) (t : Table K V) : Prop where
  buckets_ok : BucketsOK C t.buckets
  len_eq : t.len = lenSum t.buckets

theorem BucketsOK.get {C : Consistent hash eq} {bs : List (Nat × Bucket K V)} (hb : BucketsOK C bs)
    {h : Nat} {b : Bucket K V} (hg : bget bs h = some b) : BucketOK C h b := by
  induction bs with
  | nil => simp [bget] at hg
  | cons hb0 rest ih =>
    obtain ⟨h0, b0⟩ := hb0
    obtain ⟨h1, _, h3⟩ := hb
    simp only [bget] at hg
    by_cases hh : h0 = h
    · subst hh; simp at hg; subst hg; exact h1
    · simp only [if_neg hh] at hg; exact ih h3 hg

theorem BucketsOK.binsert {C : Consistent hash eq} {bs : List (Nat × Bucket K V)} (hb : BucketsOK C bs)
    {h : Nat} {b : Bucket K V} (hok : BucketOK C h b) : BucketsOK C (binsert bs h b) := by
  induction bs with
  | nil => exact ⟨hok, rfl, trivial⟩
  | cons hb0 rest ih =>
    obtain ⟨h0, b0⟩ := hb0
    obtain ⟨h1, h2, h3⟩ := hb
    simp only [HM.binsert]
    by_cases hh : h0 = h
    · subst hh; simp only [if_true]; exact ⟨hok, h2, h3⟩
    · simp only [if_neg hh]
      refine ⟨h1, ?_, ih h3⟩
      rw [bget_binsert, if_neg (Ne.symm hh)]; exact h2

theorem BucketsOK.bremove {C : Consistent hash eq} {bs : List (Nat × Bucket K V)} (hb : BucketsOK C bs)
    (h : Nat) : BucketsOK C (bremove bs h) := by
  induction bs with
  | nil => trivial
  | cons hb0 rest ih =>
    obtain ⟨h0, b0⟩ := hb0
    obtain ⟨h1, h2, h3⟩ := hb
    simp only [HM.bremove]
    by_cases hh : h0 = h
    · simp only [if_pos hh]; exact ih h3
    · simp only [if_neg hh]
      refine ⟨h1, ?_, ih h3⟩
      rw [bget_bremove]; split <;> simp [h2]

theorem lenSum_bremove {C : Consistent hash eq} {bs : List (Nat × Bucket K V)} (hb : BucketsOK C bs) (h : Nat) :
    lenSum (bremove bs h) + blen bs h = lenSum bs := by
  induction bs with
  | nil => simp [HM.bremove, lenSum, blen, bget]
  | cons hb0 rest ih =>
    obtain ⟨h0, b0⟩ := hb0
    obtain ⟨_, h2, h3⟩ := hb
    by_cases hh : h0 = h
    · subst hh
      simp [HM.bremove, lenSum, blen, bget, bremove_of_none rest h0 h2]; omega
    · have : blen ((h0, b0) :: rest) h = blen rest h := by simp [blen, bget, hh]
      simp only [HM.bremove, if_neg hh, lenSum, this]
      have := ih h3
      omega


/-! ### association-list lookup inside one bucket -/

theorem findE_none_iff (e : K → K → Bool) (k : K) (b : List (K × V)) :
    findE e k b = none ↔ ∀ kv ∈ b, e k kv.1 = false := by
  induction b with
  | nil => simp [findE]
  | cons kv r ih =>
    obtain ⟨k1, v1⟩ := kv
    simp only [findE, List.mem_cons, forall_eq_or_imp]
    cases h : e k k1 <;> simp [ih]

theorem findE_append (e : K → K → Bool) (k : K) (a b : List (K × V)) :
    findE e k (a ++ b) = match findE e k a with
      | some v => some v
      | none => findE e k b := by
  induction a with
  | nil => simp [findE]
  | cons kv r ih =>
    obtain ⟨k1, v1⟩ := kv
    simp only [List.cons_append, findE]
    cases e k k1 <;> simp [ih]

theorem scanP_none {e : K → K → Bool} {k : K} {b : Bucket K V} (h : scanP e k b = none) :
    findE e k b = none := by
  induction b with
  | nil => rfl
  | cons kv r ih =>
    obtain ⟨k1, v1⟩ := kv
    simp only [scanP] at h
    cases h1 : e k k1
    · simp only [h1] at h
      simp only [findE, h1]
      cases h2 : scanP e k r
      · exact ih h2
      · simp [h2] at h
    · simp [h1] at h

theorem scanP_some {e : K → K → Bool} {k : K} {b : Bucket K V} {i : Nat} (h : scanP e k b = some i) :
    ∃ k0 p, b[i]? = some (k0, p) ∧ e k k0 = true ∧ findE e k b = some p := by
  induction b generalizing i with
  | nil => simp [scanP] at h
  | cons kv r ih =>
    obtain ⟨k1, v1⟩ := kv
    simp only [scanP] at h
    cases h1 : e k k1
    · simp only [h1] at h
      cases h2 : scanP e k r with
      | none => simp [h2] at h
      | some j =>
        simp [h2] at h
        subst h
        obtain ⟨k0, p, h3, h4, h5⟩ := ih h2
        exact ⟨k0, p, by simpa using h3, h4, by simp [findE, h1, h5]⟩
    · simp [h1] at h
      subst h
      exact ⟨k1, v1, by simp, h1, by simp [findE, h1]⟩

/-- keys of a bucket -/
abbrev bkeys (b : Bucket K V) : List K := b.map Prod.fst

theorem bkeys_set {b : Bucket K V} {i : Nat} {k0 : K} {p v : V} (h : b[i]? = some (k0, p)) :
    bkeys (b.set i (k0, v)) = bkeys b := by
  induction b generalizing i with
  | nil => simp
  | cons kv r ih =>
    cases i with
    | zero => simp at h; simp [bkeys, h]
    | succ j => simp at h; simp [bkeys, List.set] at *; exact ih h

section equiv
variable (C : Consistent hash eq)

theorem e_false_of_hash_ne {a b : K} (h : C.h a ≠ C.h b) : C.e a b = false := by
  cases h1 : C.e a b
  · rfl
  · exact absurd (C.congr a b h1) h

theorem e_left_congr {a b : K} (h : C.e a b = true) (c : K) : C.e c a = C.e c b := by
  cases h1 : C.e c a
  · cases h2 : C.e c b
    · rfl
    · have := C.trans c b a h2 (C.symm a b h); simp [this] at h1
  · exact (C.trans c a b h1 h).symm

theorem e_left_congr' {a b : K} (h : C.e a b = true) (c : K) : C.e a c = C.e b c := by
  cases h1 : C.e a c
  · cases h2 : C.e b c
    · rfl
    · have := C.trans a b c h h2; simp [this] at h1
  · exact (C.trans b a c (C.symm a b h) h1).symm

/-- no entry of `r` is equivalent to `k0`, `k'` is equivalent to `k0` ⇒ no entry of `r` is found for `k'` -/
theorem findE_none_of_equiv {r : List (K × V)} {k0 k' : K} (hr : ∀ x ∈ r, C.e k0 x.1 = false)
    (hk : C.e k' k0 = true) : findE C.e k' r = none := by
  rw [findE_none_iff]
  intro x hx
  have := hr x hx
  cases h : C.e k' x.1
  · rfl
  · have h2 := C.trans k0 k' x.1 (C.symm _ _ hk) h; simp [h2] at this

theorem findE_set {b : Bucket K V} (hp : b.Pairwise (fun x y => C.e x.1 y.1 = false)) {i : Nat} {k0 : K}
    {p : V} (hi : b[i]? = some (k0, p)) (v : V) (k' : K) :
    findE C.e k' (b.set i (k0, v)) = if C.e k' k0 then some v else findE C.e k' b := by
  induction b generalizing i with
  | nil => simp at hi
  | cons kv r ih =>
    obtain ⟨k1, v1⟩ := kv
    rw [List.pairwise_cons] at hp
    cases i with
    | zero =>
      simp at hi
      obtain ⟨rfl, rfl⟩ := hi
      simp only [List.set_cons_zero, findE]
      cases C.e k' k1 <;> simp
    | succ j =>
      simp at hi
      simp only [List.set_cons_succ, findE, ih hp.2 hi]
      cases h1 : C.e k' k1
      · simp
      · have hmem : (k0, p) ∈ r := List.mem_of_getElem? hi
        have h10 : C.e k1 k0 = false := hp.1 _ hmem
        have : C.e k' k0 = false := by
          cases h2 : C.e k' k0
          · rfl
          · have := C.trans k1 k' k0 (C.symm _ _ h1) h2; simp [this] at h10
        simp [this]

theorem findE_eraseIdx {b : Bucket K V} (hp : b.Pairwise (fun x y => C.e x.1 y.1 = false)) {i : Nat} {k0 : K}
    {p : V} (hi : b[i]? = some (k0, p)) (k' : K) :
    findE C.e k' (b.eraseIdx i) = if C.e k' k0 then none else findE C.e k' b := by
  induction b generalizing i with
  | nil => simp at hi
  | cons kv r ih =>
    obtain ⟨k1, v1⟩ := kv
    rw [List.pairwise_cons] at hp
    cases i with
    | zero =>
      simp at hi
      obtain ⟨rfl, rfl⟩ := hi
      simp only [List.eraseIdx_cons_zero, findE]
      cases h1 : C.e k' k1
      · simp
      · simp only [if_true]
        exact findE_none_of_equiv C (fun x hx => hp.1 x hx) h1
    | succ j =>
      simp at hi
      simp only [List.eraseIdx_cons_succ, findE, ih hp.2 hi]
      cases h1 : C.e k' k1
      · simp
      · have hmem : (k0, p) ∈ r := List.mem_of_getElem? hi
        have h10 : C.e k1 k0 = false := hp.1 _ hmem
        have : C.e k' k0 = false := by
          cases h2 : C.e k' k0
          · rfl
          · have := C.trans k1 k' k0 (C.symm _ _ h1) h2; simp [this] at h10
        simp [this]

end equiv


/-! ### the abstraction: a table as an association list over the classes of `e` -/

/-- lookup through the hash: the bucket of `hash k`, then the first `e`-equal key -/
def lookB (C : Consistent hash eq) (t : Table K V) (k : K) : Option V :=
  match bget t.buckets (C.h k) with
  | none => none
  | some b => findE C.e k b

/-- the hash-free reading: plain association-list lookup in the list of all stored entries -/
def look (C : Consistent hash eq) (t : Table K V) (k : K) : Option V := findE C.e k (toList t)

theorem findE_flat (C : Consistent hash eq) {bs : List (Nat × Bucket K V)} (hb : BucketsOK C bs) (k : K) :
    findE C.e k (bs.flatMap (·.2)) = match bget bs (C.h k) with
      | none => none
      | some b => findE C.e k b := by
  induction bs with
  | nil => rfl
  | cons hb0 rest ih =>
    obtain ⟨h0, b0⟩ := hb0
    obtain ⟨h1, h2, h3⟩ := hb
    simp only [List.flatMap_cons, findE_append, ih h3, bget]
    by_cases hh : h0 = C.h k
    · subst hh
      simp only [if_true, h2]
      cases findE C.e k b0 <;> rfl
    · simp only [if_neg hh]
      have : findE C.e k b0 = none := by
        rw [findE_none_iff]
        intro kv hkv
        apply e_false_of_hash_ne C
        rw [h1.1 kv hkv]; exact Ne.symm hh
      simp [this]

/-- `look` (no hashing involved) and `lookB` (through the hash) agree on a well-formed table -/
theorem look_eq_lookB (C : Consistent hash eq) {t : Table K V} (hI : Inv C t) (k : K) :
    look C t k = lookB C t k := findE_flat C hI.buckets_ok k

theorem bucketOK_set (C : Consistent hash eq) {h : Nat} {b : Bucket K V} (hb : BucketOK C h b) {i : Nat} {k0 : K}
    {p : V} (hi : b[i]? = some (k0, p)) (v : V) : BucketOK C h (b.set i (k0, v)) := by
  have hk := bkeys_set (v := v) hi
  obtain ⟨h1, h2, h3⟩ := hb
  refine ⟨?_, ?_, ?_⟩
  · intro kv hkv
    have : kv.1 ∈ bkeys (b.set i (k0, v)) := List.mem_map_of_mem hkv
    rw [hk] at this
    obtain ⟨kv', hm, he⟩ := List.mem_map.1 this
    rw [← he]; exact h1 kv' hm
  · have : (bkeys (b.set i (k0, v))).Pairwise (fun x y => C.e x y = false) := by
      rw [hk]; exact List.pairwise_map.2 h2
    exact List.pairwise_map.1 this
  · intro hn
    have := congrArg List.length hn
    simp at this
    exact h3 this

theorem bucketOK_append (C : Consistent hash eq) {h : Nat} {b : Bucket K V} (hb : BucketOK C h b) {k : K}
    (hk : C.h k = h) (hn : ∀ kv ∈ b, C.e k kv.1 = false) (v : V) : BucketOK C h (b ++ [(k, v)]) := by
  obtain ⟨h1, h2, _⟩ := hb
  refine ⟨?_, ?_, by simp⟩
  · intro kv hkv
    rcases List.mem_append.1 hkv with hm | hm
    · exact h1 kv hm
    · simp at hm; subst hm; exact hk
  · rw [List.pairwise_append]
    refine ⟨h2, by simp, ?_⟩
    intro x hx y hy
    simp at hy; subst hy
    cases hxy : C.e x.1 k
    · rfl
    · have := C.symm _ _ hxy; simp [hn x hx] at this

theorem bucketOK_eraseIdx (C : Consistent hash eq) {h : Nat} {b : Bucket K V} (hb : BucketOK C h b) (i : Nat)
    (hl : 1 < b.length) : BucketOK C h (b.eraseIdx i) := by
  obtain ⟨h1, h2, _⟩ := hb
  have hs : (b.eraseIdx i).Sublist b := List.eraseIdx_sublist b i
  refine ⟨fun kv hkv => h1 kv (hs.subset hkv), h2.sublist hs, ?_⟩
  intro hn
  have h4 := congrArg List.length hn
  have h5 := @List.length_eraseIdx _ b i
  rw [h4] at h5
  split at h5 <;> simp at h5 <;> omega

/-- the value a put writes: `on_found(prev)` for a present key, `on_empty()` for an absent one -/
def newVal (onEmpty : Unit → Res V) (onFound : V → Res V) : Option V → Res V
  | some v => onFound v
  | none => onEmpty ()

theorem lookB_binsert (C : Consistent hash eq) (bs : List (Nat × Bucket K V)) (h : Nat) (b : Bucket K V) (k' : K) :
    (match bget (binsert bs h b) (C.h k') with
      | none => none
      | some b => findE C.e k' b) =
    if h = C.h k' then findE C.e k' b else
      (match bget bs (C.h k') with
        | none => none
        | some b => findE C.e k' b) := by
  rw [bget_binsert]; by_cases hh : h = C.h k' <;> simp [hh]

theorem tryPut_spec (C : Consistent hash eq) {t : Table K V} (hI : Inv C t) (k : K)
    (onEmpty : Unit → Res V) (onFound : V → Res V) :
    (∀ er, newVal onEmpty onFound (lookB C t k) = .error er → tryPut hash eq t k onEmpty onFound = .error er) ∧
    (∀ v, newVal onEmpty onFound (lookB C t k) = .ok v →
      ∃ t', tryPut hash eq t k onEmpty onFound = .ok t' ∧ Inv C t' ∧
        t'.len = (if (lookB C t k).isSome then t.len else t.len + 1) ∧
        ∀ k', lookB C t' k' = if C.e k' k then some v else lookB C t k') := by
  obtain ⟨hB, hL⟩ := hI
  unfold tryPut
  rw [locate_eq C]
  cases hg : bget t.buckets (C.h k) with
  | none =>
    -- vacant
    simp only [locP, lookB, hg, newVal, tryPutLocated]
    constructor
    · intro er he; simp [he]
    · intro v hv
      simp only [hv]
      refine ⟨_, rfl, ⟨?_, ?_⟩, by simp, ?_⟩
      · exact hB.binsert ⟨by simp, by simp, by simp⟩
      · have := lenSum_binsert t.buckets (C.h k) [(k, v)]
        simp [blen, hg] at this
        simp [hL, this]
      · intro k'
        rw [lookB_binsert]
        by_cases hh : C.h k = C.h k'
        · rw [if_pos hh, ← hh, hg]
          cases hk' : C.e k' k <;> simp [findE, hk']
        · rw [if_neg hh, e_false_of_hash_ne C (Ne.symm hh)]; simp
  | some b =>
    have hbo := hB.get hg
    cases hs : scanP C.e k b with
    | none =>
      -- missing
      have hf := scanP_none hs
      simp only [locP, lookB, hg, hs, hf, newVal, tryPutLocated]
      constructor
      · intro er he; simp [he]
      · intro v hv
        simp only [hv]
        have hnone := (findE_none_iff C.e k b).1 hf
        refine ⟨_, rfl, ⟨?_, ?_⟩, by simp, ?_⟩
        · exact hB.binsert (bucketOK_append C hbo rfl hnone v)
        · have := lenSum_binsert t.buckets (C.h k) (b ++ [(k, v)])
          simp [blen, hg] at this
          simp [hL]; omega
        · intro k'
          rw [lookB_binsert]
          by_cases hh : C.h k = C.h k'
          · rw [if_pos hh, ← hh, hg, findE_append]
            cases hk' : C.e k' k
            · cases hfk : findE C.e k' b <;> simp [findE, hk', hfk]
            · have : findE C.e k' b = none := findE_none_of_equiv C hnone hk'
              simp [this, findE, hk']
          · rw [if_neg hh, e_false_of_hash_ne C (Ne.symm hh)]; simp
    | some i =>
      -- found
      obtain ⟨k0, p, hi, hek, hf⟩ := scanP_some hs
      simp only [locP, lookB, hg, hs, hf, newVal, tryPutLocated, hi]
      constructor
      · intro er he; simp [he]
      · intro v hv
        simp only [hv]
        refine ⟨_, rfl, ⟨?_, ?_⟩, by simp, ?_⟩
        · exact hB.binsert (bucketOK_set C hbo hi v)
        · have := lenSum_binsert t.buckets (C.h k) (b.set i (k0, v))
          simp [blen, hg] at this
          simp [hL]; omega
        · intro k'
          rw [lookB_binsert]
          by_cases hh : C.h k = C.h k'
          · rw [if_pos hh, ← hh, hg, findE_set C hbo.2.1 hi, e_left_congr C hek k']
          · rw [if_neg hh, e_false_of_hash_ne C (Ne.symm hh)]; simp


theorem getAt_of_scan {t : Table K V} {h i : Nat} {b : Bucket K V} {k0 : K} {p : V}
    (hg : bget t.buckets h = some b) (hi : b[i]? = some (k0, p)) : getAt t h i = .ok p := by
  simp [getAt, hg, hi]

theorem lookup_eq (C : Consistent hash eq) {t : Table K V} (_hI : Inv C t) (k : K) :
    lookup hash eq t k = .ok (lookB C t k) := by
  unfold lookup
  rw [locate_eq C]
  cases hg : bget t.buckets (C.h k) with
  | none => simp [locP, lookB, hg]
  | some b =>
    cases hs : scanP C.e k b with
    | none => simp [locP, lookB, hg, hs, scanP_none hs]
    | some i =>
      obtain ⟨k0, p, hi, _, hf⟩ := scanP_some hs
      simp [locP, lookB, hg, hs, hf, getAt_of_scan hg hi]

theorem put_eq_tryPut (t : Table K V) (k : K) (onEmpty : Unit → V) (onFound : V → V) :
    put hash eq t k onEmpty onFound = tryPut hash eq t k (fun u => .ok (onEmpty u)) (fun v => .ok (onFound v)) := rfl

theorem set_specB (C : Consistent hash eq) {t : Table K V} (hI : Inv C t) (k : K) (v : V) :
    ∃ t', set hash eq t k v = .ok t' ∧ Inv C t' ∧
      t'.len = (if (lookB C t k).isSome then t.len else t.len + 1) ∧
      ∀ k', lookB C t' k' = if C.e k' k then some v else lookB C t k' := by
  have h := (tryPut_spec C hI k (fun _ => .ok v) (fun _ => .ok v)).2 v (by cases lookB C t k <;> rfl)
  obtain ⟨t', h1, h2, h3, h4⟩ := h
  refine ⟨t', ?_, h2, h3, h4⟩
  simp only [set, withUpdate, put_eq_tryPut, h1]


/-! ### removal -/

theorem lookB_bremove_ne (C : Consistent hash eq) (bs : List (Nat × Bucket K V)) {h : Nat} {k' : K}
    (hh : h ≠ C.h k') : bget (bremove bs h) (C.h k') = bget bs (C.h k') := by
  rw [bget_bremove, if_neg hh]

theorem removeAt_spec (C : Consistent hash eq) {t : Table K V} (hI : Inv C t) {h i : Nat} {b : Bucket K V}
    {k0 : K} {p : V} (hg : bget t.buckets h = some b) (hi : b[i]? = some (k0, p)) :
    ∃ t', removeAt t h i = .ok t' ∧ Inv C t' ∧ t'.len + 1 = t.len ∧
      ∀ k', lookB C t' k' = if C.e k' k0 then none else lookB C t k' := by
  obtain ⟨hB, hL⟩ := hI
  have hbo := hB.get hg
  have hk0 : C.h k0 = h := hbo.1 _ (List.mem_of_getElem? hi)
  have hil : i < b.length := by
    rcases List.getElem?_eq_some_iff.1 hi with ⟨hlt, _⟩; exact hlt
  have hrem := lenSum_bremove hB h
  simp only [blen, hg] at hrem
  have hlen : t.len ≠ 0 := by omega
  have hnd := hB.bremove h
  unfold removeAt
  simp only [if_neg hlen, hg, ← List.eraseIdx_eq_take_drop_succ]
  by_cases hl : b.length > 1
  · simp only [if_pos hl]
    refine ⟨_, rfl, ⟨hnd.binsert (bucketOK_eraseIdx C hbo i hl), ?_⟩, ?_, ?_⟩
    · have h1 := lenSum_binsert (bremove t.buckets h) h (b.eraseIdx i)
      have h2 : blen (bremove t.buckets h) h = 0 := by simp [blen, bget_bremove]
      have h3 := List.length_eraseIdx_of_lt hil
      simp only [h2, h3] at h1
      simp only [hL]; omega
    · simp only [hL]; omega
    · intro k'
      simp only [lookB]
      rw [lookB_binsert]
      by_cases hh : h = C.h k'
      · rw [if_pos hh, findE_eraseIdx C hbo.2.1 hi, ← hh, hg]
      · rw [if_neg hh, lookB_bremove_ne C _ hh]
        have : C.e k' k0 = false := e_false_of_hash_ne C (by rw [hk0]; exact Ne.symm hh)
        simp [this]
  · simp only [if_neg hl]
    have hb1 : b = [(k0, p)] := by
      match b, hi, hil, hl with
      | [x], hi, hil, _ =>
        have : i = 0 := by simp at hil; exact hil
        subst this; simp at hi; rw [hi]
      | [], _, hil, _ => simp at hil
      | _ :: _ :: _, _, _, hl => simp at hl
    refine ⟨_, rfl, ⟨hnd, ?_⟩, ?_, ?_⟩
    · simp only [hL]; subst hb1; simp at hrem; omega
    · simp only [hL]; subst hb1; simp at hrem; omega
    · intro k'
      simp only [lookB]
      by_cases hh : h = C.h k'
      · rw [bget_bremove, if_pos hh, ← hh, hg, hb1]
        cases h1 : C.e k' k0 <;> simp [findE, h1]
      · rw [lookB_bremove_ne C _ hh]
        have : C.e k' k0 = false := e_false_of_hash_ne C (by rw [hk0]; exact Ne.symm hh)
        simp [this]

theorem len_pos_of_lookB (C : Consistent hash eq) {t : Table K V} (hI : Inv C t) {k : K} {v : V}
    (h : lookB C t k = some v) : t.len ≠ 0 := by
  simp only [lookB] at h
  cases hg : bget t.buckets (C.h k) with
  | none => simp [hg] at h
  | some b =>
    simp only [hg] at h
    have hrem := lenSum_bremove hI.buckets_ok (C.h k)
    simp only [blen, hg] at hrem
    have : b ≠ [] := by intro hb; subst hb; simp [findE] at h
    have : b.length ≠ 0 := by simpa using this
    have := hI.len_eq
    omega

/-- `pop` / set `remove` -/
theorem popMsg_spec (C : Consistent hash eq) (msg : String) {t : Table K V} (hI : Inv C t) (k : K) :
    match lookB C t k with
    | none => popMsg hash eq msg t k = .error (.err msg)
    | some _ => ∃ t', popMsg hash eq msg t k = .ok t' ∧ Inv C t' ∧ t'.len + 1 = t.len ∧
        ∀ k', lookB C t' k' = if C.e k' k then none else lookB C t k' := by
  unfold popMsg
  rw [locate_eq C]
  cases hl : lookB C t k with
  | none =>
    simp only
    split
    · rfl
    · simp only [lookB] at hl
      cases hg : bget t.buckets (C.h k) with
      | none => simp [locP, hg]
      | some b =>
        simp only [hg] at hl
        cases hs : scanP C.e k b with
        | none => simp [locP, hg, hs]
        | some i =>
          obtain ⟨_, _, _, _, hf⟩ := scanP_some hs
          simp [hf] at hl
  | some v =>
    simp only [if_neg (len_pos_of_lookB C hI hl)]
    simp only [lookB] at hl
    cases hg : bget t.buckets (C.h k) with
    | none => simp [hg] at hl
    | some b =>
      simp only [hg] at hl
      cases hs : scanP C.e k b with
      | none => simp [scanP_none hs] at hl
      | some i =>
        obtain ⟨k0, p, hi, hek, _⟩ := scanP_some hs
        obtain ⟨t', h1, h2, h3, h4⟩ := removeAt_spec C hI hg hi
        refine ⟨t', by simp [locP, hg, hs, h1], h2, h3, ?_⟩
        intro k'; rw [h4, e_left_congr C hek k']

/-- `discard` -/
theorem discard_spec (C : Consistent hash eq) {t : Table K V} (hI : Inv C t) (k : K) :
    ∃ t', discard hash eq t k = .ok t' ∧ Inv C t' ∧
      t'.len + (if (lookB C t k).isSome then 1 else 0) = t.len ∧
      ∀ k', lookB C t' k' = if C.e k' k then none else lookB C t k' := by
  have key : ∀ k', lookB C t k = none → lookB C t k' = if C.e k' k then none else lookB C t k' := by
    intro k' hn
    cases hk : C.e k' k
    · simp
    · simp only [if_true]
      simp only [lookB] at hn ⊢
      rw [← C.congr k' k hk]  at hn
      cases hg : bget t.buckets (C.h k') with
      | none => rfl
      | some b =>
        simp only [hg] at hn ⊢
        rw [findE_none_iff] at hn ⊢
        intro kv hkv
        rw [e_left_congr' C hk]; exact hn kv hkv
  unfold discard
  rw [locate_eq C]
  split
  · rename_i h0
    have hn : lookB C t k = none := by
      cases hl : lookB C t k with
      | none => rfl
      | some v => exact absurd h0 (len_pos_of_lookB C hI hl)
    exact ⟨t, rfl, hI, by simp [hn], fun k' => key k' hn⟩
  · cases hg : bget t.buckets (C.h k) with
    | none =>
      have hn : lookB C t k = none := by simp [lookB, hg]
      exact ⟨t, by simp [locP, hg], hI, by simp [hn], fun k' => key k' hn⟩
    | some b =>
      cases hs : scanP C.e k b with
      | none =>
        have hn : lookB C t k = none := by simp [lookB, hg, scanP_none hs]
        exact ⟨t, by simp [locP, hg, hs], hI, by simp [hn], fun k' => key k' hn⟩
      | some i =>
        obtain ⟨k0, p, hi, hek, hf⟩ := scanP_some hs
        obtain ⟨t', h1, h2, h3, h4⟩ := removeAt_spec C hI hg hi
        have hsome : lookB C t k = some p := by simp [lookB, hg, hf]
        refine ⟨t', by simp [locP, hg, hs, h1], h2, by simp [hsome]; omega, ?_⟩
        intro k'; rw [h4, e_left_congr C hek k']


/-! ### set_default, get, contains, clear -/

theorem tryPut_unfold (C : Consistent hash eq) (t : Table K V) (k : K) (f : Unit → Res V) (g : V → Res V) :
    tryPut hash eq t k f g = tryPutLocated t k (locP C t k) f g := by
  unfold tryPut; rw [locate_eq C]

theorem locP_found_iff (C : Consistent hash eq) (t : Table K V) (k : K) :
    (∃ h i, locP C t k = .found h i) ↔ (lookB C t k).isSome := by
  simp only [locP, lookB]
  cases hg : bget t.buckets (C.h k) with
  | none => simp
  | some b =>
    cases hs : scanP C.e k b with
    | none => simp [hs, scanP_none hs]
    | some i =>
      obtain ⟨_, _, _, _, hf⟩ := scanP_some hs
      simp [hs, hf]

theorem setDefault_spec (C : Consistent hash eq) {t : Table K V} (hI : Inv C t) (k : K) (v : Unit → Res V) :
    match lookB C t k with
    | some _ => setDefault hash eq t k v = .ok t
    | none =>
      match v () with
      | .error er => setDefault hash eq t k v = .error er
      | .ok a => ∃ t', setDefault hash eq t k v = .ok t' ∧ Inv C t' ∧ t'.len = t.len + 1 ∧
          ∀ k', lookB C t' k' = if C.e k' k then some a else lookB C t k' := by
  unfold setDefault
  rw [locate_eq C]
  have hiff := locP_found_iff C t k
  cases hl : lookB C t k with
  | some p =>
    simp only [hl, Option.isSome_some, iff_true] at hiff
    obtain ⟨h, i, hloc⟩ := hiff
    simp [hloc]
  | none =>
    simp only [hl, Option.isSome_none, Bool.false_eq_true, iff_false, not_exists] at hiff
    simp only
    cases hv : v () with
    | error er =>
      cases hloc : locP C t k with
      | found h i => exact absurd hloc (hiff h i)
      | missing h => simp
      | vacant h => simp
    | ok a =>
      have h := (tryPut_spec C hI k (fun _ => .ok a) (fun _ => .error (.panic "unreachable"))).2 a (by rw [hl]; rfl)
      obtain ⟨t', h1, h2, h3, h4⟩ := h
      rw [tryPut_unfold C] at h1
      refine ⟨t', ?_, h2, by simpa [hl] using h3, h4⟩
      cases hloc : locP C t k with
      | found h i => exact absurd hloc (hiff h i)
      | missing h => simpa [hloc] using h1
      | vacant h => simpa [hloc] using h1

theorem get3_eq (C : Consistent hash eq) {t : Table K V} (_hI : Inv C t) (k : K) (d : Unit → Res V) :
    get3 hash eq t k d = match lookB C t k with
      | some v => .ok v
      | none => d () := by
  unfold get3
  rw [locate_eq C]
  cases hg : bget t.buckets (C.h k) with
  | none => simp [locP, lookB, hg]
  | some b =>
    cases hs : scanP C.e k b with
    | none => simp [locP, lookB, hg, hs, scanP_none hs]
    | some i =>
      obtain ⟨k0, p, hi, _, hf⟩ := scanP_some hs
      simp [locP, lookB, hg, hs, hf, getAt_of_scan hg hi]

theorem clear_spec (C : Consistent hash eq) {t : Table K V} (hI : Inv C t) :
    Inv C (clear t) ∧ (clear t).len = 0 ∧ ∀ k, lookB C (clear t) k = none := by
  unfold clear
  split
  · rename_i h0
    refine ⟨hI, h0, fun k => ?_⟩
    cases hl : lookB C t k with
    | none => rfl
    | some v => exact absurd h0 (len_pos_of_lookB C hI hl)
  · exact ⟨⟨trivial, rfl⟩, rfl, fun _ => rfl⟩

/-! ### bulk updates as folds of the one-key step -/

/-- the one-key step of an abstract finite map `f : K → Option V` (a function on the classes of `C.e`) -/
def stepF (C : Consistent hash eq) (onEmpty : K → Res V) (onOcc : K → V → Res V) (f : K → Option V) (k : K) :
    Res (K → Option V) :=
  match newVal (fun _ => onEmpty k) (onOcc k) (f k) with
  | .error e => .error e
  | .ok v => .ok (fun k' => if C.e k' k then some v else f k')

/-- the abstract bulk update: the keys are processed in order; an error item or an error of a callback
aborts the whole update -/
def foldF (C : Consistent hash eq) (onEmpty : K → Res V) (onOcc : K → V → Res V) :
    (K → Option V) → List (Res K) → Res (K → Option V)
  | f, [] => .ok f
  | _, .error e :: _ => .error e
  | f, .ok k :: rest =>
    match stepF C onEmpty onOcc f k with
    | .error e => .error e
    | .ok f' => foldF C onEmpty onOcc f' rest

theorem updateFromKeys_spec (C : Consistent hash eq) (onEmpty : K → Res V) (onOcc : K → V → Res V)
    {t : Table K V} (hI : Inv C t) (ks : List (Res K)) :
    match foldF C onEmpty onOcc (lookB C t) ks with
    | .error er => updateFromKeys hash eq onEmpty onOcc t ks = .error er
    | .ok f => ∃ t', updateFromKeys hash eq onEmpty onOcc t ks = .ok t' ∧ Inv C t' ∧ ∀ k', lookB C t' k' = f k' := by
  induction ks generalizing t with
  | nil => exact ⟨t, rfl, hI, fun _ => rfl⟩
  | cons item rest ih =>
    cases item with
    | error er => simp [foldF, updateFromKeys]
    | ok k =>
      simp only [foldF, stepF, updateFromKeys]
      have hs := tryPut_spec C hI k (fun _ => onEmpty k) (fun v => onOcc k v)
      cases hn : newVal (fun _ => onEmpty k) (onOcc k) (lookB C t k) with
      | error er => simp [hs.1 er hn]
      | ok v =>
        obtain ⟨t1, h1, h2, _, h4⟩ := hs.2 v hn
        simp only [h1]
        have hf : lookB C t1 = fun k' => if C.e k' k then some v else lookB C t k' := funext h4
        rw [← hf]
        exact ih h2

/-- `with_update` is the bulk update whose callbacks ignore the previous value -/
theorem withUpdate_eq_fold (t : Table K V) (items : List (K × V)) :
    withUpdate hash eq t (items.map .ok) =
      items.foldlM (fun t kv => tryPut hash eq t kv.1 (fun _ => .ok kv.2) (fun _ => .ok kv.2)) t := by
  induction items generalizing t with
  | nil => rfl
  | cons kv rest ih =>
    obtain ⟨k, v⟩ := kv
    simp only [List.map_cons, withUpdate, put_eq_tryPut, List.foldlM_cons]
    cases tryPut hash eq t k (fun _ => Except.ok v) (fun _ => Except.ok v) with
    | error e => rfl
    | ok t' => exact ih t'

/-- the association function after writing `items` in order (later items win) -/
def writeAll (C : Consistent hash eq) (f : K → Option V) : List (K × V) → (K → Option V)
  | [] => f
  | (k, v) :: rest => writeAll C (fun k' => if C.e k' k then some v else f k') rest

theorem withUpdate_spec (C : Consistent hash eq) {t : Table K V} (hI : Inv C t) (items : List (K × V)) :
    ∃ t', withUpdate hash eq t (items.map .ok) = .ok t' ∧ Inv C t' ∧
      ∀ k', lookB C t' k' = writeAll C (lookB C t) items k' := by
  induction items generalizing t with
  | nil => exact ⟨t, rfl, hI, fun _ => rfl⟩
  | cons kv rest ih =>
    obtain ⟨k, v⟩ := kv
    obtain ⟨t1, h1, h2, _, h4⟩ := (tryPut_spec C hI k (fun _ => .ok v) (fun _ => .ok v)).2 v
      (by cases lookB C t k <;> rfl)
    obtain ⟨t', h5, h6, h7⟩ := ih h2
    refine ⟨t', ?_, h6, ?_⟩
    · simp only [List.map_cons, withUpdate, put_eq_tryPut, h1]; exact h5
    · intro k'
      rw [h7, writeAll]
      have hf : lookB C t1 = fun k' => if C.e k' k then some v else lookB C t k' := funext h4
      rw [hf]


/-! ### sets -/

theorem binsert_self {β : Type} (bs : List (Nat × β)) (h : Nat) (b : β) (hg : bget bs h = some b) :
    binsert bs h b = bs := by
  induction bs with
  | nil => simp [bget] at hg
  | cons hb rest ih =>
    obtain ⟨h0, b0⟩ := hb
    simp only [bget] at hg
    by_cases h1 : h0 = h
    · subst h1; simp at hg; subst hg; simp [binsert]
    · simp only [if_neg h1] at hg; simp [binsert, h1, ih hg]

theorem set_unit_self (b : Bucket K Unit) (i : Nat) (k0 : K) (hi : b[i]? = some (k0, ())) :
    b.set i (k0, ()) = b := by
  induction b generalizing i with
  | nil => rfl
  | cons kv r ih =>
    cases i with
    | zero => simp at hi; simp [hi]
    | succ j => simp at hi; simp [ih j hi]

/-- membership of (the class of) `k` -/
def mem (C : Consistent hash eq) (t : Table K V) (k : K) : Bool := (lookB C t k).isSome

/-- one step of `XSet::with_update` is one `try_put` step with unit values -/
theorem sWithUpdate_cons (C : Consistent hash eq) (t : Table K Unit) (k : K) (rest : List (Res K)) :
    sWithUpdate hash eq t (.ok k :: rest) =
      match tryPut hash eq t k (fun _ => .ok ()) (fun _ => .ok ()) with
      | .error e => .error e
      | .ok t' => sWithUpdate hash eq t' rest := by
  rw [tryPut_unfold C]
  simp only [sWithUpdate]
  rw [locate_eq C]
  simp only [locP]
  cases hg : bget t.buckets (C.h k) with
  | none => simp [tryPutLocated, hg]
  | some b =>
    cases hs : scanP C.e k b with
    | none => simp [hs, tryPutLocated, hg]
    | some i =>
      obtain ⟨k0, p, hi, _, _⟩ := scanP_some hs
      simp [hs, tryPutLocated, hg, hi, set_unit_self b i k0 hi, binsert_self _ _ _ hg]

theorem sWithUpdate_spec (C : Consistent hash eq) {t : Table K Unit} (hI : Inv C t) (ks : List K) :
    ∃ t', sWithUpdate hash eq t (ks.map .ok) = .ok t' ∧ Inv C t' ∧
      ∀ k', mem C t' k' = (mem C t k' || ks.any (fun k => C.e k' k)) := by
  induction ks generalizing t with
  | nil => exact ⟨t, rfl, hI, fun _ => by simp⟩
  | cons k rest ih =>
    obtain ⟨t1, h1, h2, _, h4⟩ := (tryPut_spec C hI k (fun _ => .ok ()) (fun _ => .ok ())).2 ()
      (by cases lookB C t k <;> rfl)
    obtain ⟨t', h5, h6, h7⟩ := ih h2
    refine ⟨t', ?_, h6, ?_⟩
    · rw [List.map_cons, sWithUpdate_cons C, h1]; exact h5
    · intro k'
      rw [h7]
      simp only [mem, h4, List.any_cons]
      cases C.e k' k <;> simp

theorem sContains_eq (C : Consistent hash eq) (t : Table K Unit) (k : K) :
    sContains hash eq t k = .ok (mem C t k) := by
  unfold sContains mem
  rw [locate_eq C]
  have hiff := locP_found_iff C t k
  cases hloc : locP C t k with
  | found h i =>
    have : (lookB C t k).isSome = true := hiff.1 ⟨h, i, hloc⟩
    simp [this]
  | missing h =>
    have : (lookB C t k).isSome = false := by
      cases hx : (lookB C t k).isSome
      · rfl
      · obtain ⟨_, _, h2⟩ := hiff.2 hx; rw [hloc] at h2; cases h2
    simp [this]
  | vacant h =>
    have : (lookB C t k).isSome = false := by
      cases hx : (lookB C t k).isSome
      · rfl
      · obtain ⟨_, _, h2⟩ := hiff.2 hx; rw [hloc] at h2; cases h2
    simp [this]

/-- membership depends on the class only -/
theorem lookB_congr (C : Consistent hash eq) {t : Table K V} {a b : K} (h : C.e a b = true) :
    lookB C t a = lookB C t b := by
  simp only [lookB, C.congr a b h]
  cases bget t.buckets (C.h b) with
  | none => rfl
  | some bk =>
    simp only
    induction bk with
    | nil => rfl
    | cons kv r ih => simp only [findE, e_left_congr' C h, ih]

theorem mem_congr (C : Consistent hash eq) {t : Table K V} {a b : K} (h : C.e a b = true) :
    mem C t a = mem C t b := by simp only [mem, lookB_congr C h]

/-- a class is a member iff some stored key belongs to it -/
theorem mem_iff_stored (C : Consistent hash eq) {t : Table K V} (hI : Inv C t) (k : K) :
    mem C t k = (toList t).any (fun kv => C.e k kv.1) := by
  unfold mem
  rw [← look_eq_lookB C hI, look]
  induction toList t with
  | nil => rfl
  | cons kv r ih =>
    obtain ⟨k1, v1⟩ := kv
    simp only [findE, List.any_cons]
    cases C.e k k1 <;> simp [ih]

theorem filterRes_ok (p : K → Bool) (l : List K) :
    filterRes (fun i => .ok (p i)) l = (l.filter p).map (Except.ok (ε := Err)) := by
  induction l with
  | nil => rfl
  | cons k r ih =>
    simp only [filterRes, List.filter_cons]
    cases p k <;> simp [ih]

theorem allRes_ok (p : K → Bool) (l : List K) : allRes (fun i => .ok (p i)) l = .ok (l.all p) := by
  induction l with
  | nil => rfl
  | cons k r ih =>
    simp only [allRes, List.all_cons]
    cases p k <;> simp [ih]

theorem sToList_any (t : Table K Unit) (f : K → Bool) :
    (sToList t).any f = (toList t).any (fun kv => f kv.1) := by
  simp [sToList, List.any_map, Function.comp_def]

/-- `a | b` -/
theorem bitOr_spec (C : Consistent hash eq) {a b : Table K Unit} (ha : Inv C a) (hb : Inv C b) :
    ∃ r, bitOr hash eq a b = .ok r ∧ Inv C r ∧ ∀ k, mem C r k = (mem C a k || mem C b k) := by
  obtain ⟨r, h1, h2, h3⟩ := sWithUpdate_spec C ha (sToList b)
  refine ⟨r, h1, h2, fun k => ?_⟩
  rw [h3, mem_iff_stored C hb, sToList_any]

/-- the shared shape of `&` and `-`: rebuild from the members of `x` that pass a class-respecting test -/
theorem rebuild_spec (C : Consistent hash eq) {a x : Table K Unit} (ha : Inv C a) (hx : Inv C x)
    (p : K → Bool) (hp : ∀ u v, C.e u v = true → p u = p v) :
    ∃ r, sUpdate hash eq (clear a) (filterRes (fun i => .ok (p i)) (sToList x)) = .ok r ∧ Inv C r ∧
      ∀ k, mem C r k = (mem C x k && p k) := by
  obtain ⟨hc1, _, hc3⟩ := clear_spec C ha
  rw [filterRes_ok]
  obtain ⟨r, h1, h2, h3⟩ := sWithUpdate_spec C hc1 ((sToList x).filter p)
  refine ⟨r, h1, h2, fun k => ?_⟩
  rw [h3, mem_iff_stored C hx, ← sToList_any]
  simp only [mem, hc3, Option.isSome_none, Bool.false_or]
  induction sToList x with
  | nil => rfl
  | cons y ys ih =>
    simp only [List.filter_cons, List.any_cons, Bool.or_and_distrib_right]
    cases hy : p y
    · cases hky : C.e k y
      · simpa using ih
      · have : p k = false := by rw [hp k y hky]; exact hy
        simp only [Bool.false_eq_true, if_false, ih, this, Bool.and_false, Bool.or_false]
    · cases hky : C.e k y
      · simp only [if_true, List.any_cons, hky, Bool.false_or, ih, Bool.false_and]
      · have : p k = true := by rw [hp k y hky]; exact hy
        simp only [if_true, List.any_cons, hky, Bool.true_or, this, Bool.and_true]

theorem sContains_fun (C : Consistent hash eq) (t : Table K Unit) :
    (fun i => sContains hash eq t i) = fun i => .ok (mem C t i) := funext (sContains_eq C t)

/-- `a & b` -/
theorem bitAnd_spec (C : Consistent hash eq) {a b : Table K Unit} (ha : Inv C a) (hb : Inv C b) :
    ∃ r, bitAnd hash eq a b = .ok r ∧ Inv C r ∧ ∀ k, mem C r k = (mem C a k && mem C b k) := by
  unfold bitAnd orderByCard
  split
  · simp only [sContains_fun C]
    obtain ⟨r, h1, h2, h3⟩ := rebuild_spec C ha ha (mem C b) (fun u v h => mem_congr C h)
    exact ⟨r, h1, h2, h3⟩
  · simp only [sContains_fun C]
    obtain ⟨r, h1, h2, h3⟩ := rebuild_spec C ha hb (mem C a) (fun u v h => mem_congr C h)
    exact ⟨r, h1, h2, fun k => by rw [h3, Bool.and_comm]⟩

/-- `a - b` -/
theorem sSub_spec (C : Consistent hash eq) {a b : Table K Unit} (ha : Inv C a) (hb : Inv C b) :
    ∃ r, sSub hash eq a b = .ok r ∧ Inv C r ∧ ∀ k, mem C r k = (mem C a k && !mem C b k) := by
  unfold sSub
  simp only [sContains_eq C]
  exact rebuild_spec C ha ha (fun i => !mem C b i) (fun u v h => by simp only [mem_congr C h])

/-- `a ^ b` -/
theorem bitXor_spec (C : Consistent hash eq) {a b : Table K Unit} (ha : Inv C a) (hb : Inv C b) :
    ∃ r, bitXor hash eq a b = .ok r ∧ Inv C r ∧ ∀ k, mem C r k = (mem C a k != mem C b k) := by
  obtain ⟨x, hx1, hx2, hx3⟩ := sSub_spec C ha hb
  obtain ⟨y, hy1, hy2, hy3⟩ := sSub_spec C hb ha
  obtain ⟨r, hr1, hr2, hr3⟩ := bitOr_spec C hx2 hy2
  refine ⟨r, by simp [bitXor, hx1, hy1, hr1], hr2, fun k => ?_⟩
  rw [hr3, hx3, hy3]
  cases mem C a k <;> cases mem C b k <;> rfl


/-! ### subset tests: counting classes -/

theorem flat_mem_hash (C : Consistent hash eq) {bs : List (Nat × Bucket K V)} (hb : BucketsOK C bs) {y : K × V}
    (hy : y ∈ bs.flatMap (·.2)) : ∃ b, bget bs (C.h y.1) = some b := by
  induction bs with
  | nil => simp at hy
  | cons hb0 rest ih =>
    obtain ⟨h0, b0⟩ := hb0
    obtain ⟨h1, h2, h3⟩ := hb
    simp only [List.flatMap_cons, List.mem_append] at hy
    rcases hy with hy | hy
    · exact ⟨b0, by simp [bget, h1.1 y hy]⟩
    · obtain ⟨b, hbg⟩ := ih h3 hy
      refine ⟨b, ?_⟩
      have : h0 ≠ C.h y.1 := by intro he; rw [← he, h2] at hbg; cases hbg
      simp [bget, this, hbg]

/-- the stored keys are pairwise inequivalent: `len` counts classes -/
theorem toList_pairwise (C : Consistent hash eq) {t : Table K V} (hI : Inv C t) :
    (toList t).Pairwise (fun x y => C.e x.1 y.1 = false) := by
  unfold toList
  have hb := hI.buckets_ok
  generalize t.buckets = bs at hb
  induction bs with
  | nil => simp
  | cons hb0 rest ih =>
    obtain ⟨h0, b0⟩ := hb0
    obtain ⟨h1, h2, h3⟩ := hb
    rw [List.flatMap_cons, List.pairwise_append]
    refine ⟨h1.2.1, ih h3, ?_⟩
    intro x hx y hy
    obtain ⟨b, hbg⟩ := flat_mem_hash C h3 hy
    apply e_false_of_hash_ne C
    rw [h1.1 x hx]
    intro he; rw [he, hbg] at h2; cases h2

theorem filter_length_lt {α : Type} (p : α → Bool) (l : List α) {y : α} (hy : y ∈ l) (hp : p y = false) :
    (l.filter p).length < l.length := by
  induction l with
  | nil => simp at hy
  | cons z r ih =>
    simp only [List.filter_cons]
    rcases List.mem_cons.1 hy with rfl | hm
    · simp only [hp, Bool.false_eq_true, if_false, List.length_cons]
      have := List.length_filter_le p r; omega
    · have := ih hm
      split
      · simp only [List.length_cons]; omega
      · simp only [List.length_cons]; omega

/-- counting: pairwise inequivalent keys that all have an equivalent partner in `lb` are at most `|lb|` -/
theorem card_le (C : Consistent hash eq) (la lb : List K) (hp : la.Pairwise (fun x y => C.e x y = false))
    (hm : ∀ x ∈ la, ∃ y ∈ lb, C.e x y = true) : la.length ≤ lb.length := by
  induction la generalizing lb with
  | nil => simp
  | cons x r ih =>
    rw [List.pairwise_cons] at hp
    obtain ⟨y, hy, hxy⟩ := hm x (by simp)
    have hlt := filter_length_lt (fun z => !C.e x z) lb hy (by simp [hxy])
    have := ih (lb.filter (fun z => !C.e x z)) hp.2 (by
      intro x' hx'
      obtain ⟨y', hy', hxy'⟩ := hm x' (by simp [hx'])
      refine ⟨y', ?_, hxy'⟩
      rw [List.mem_filter]
      refine ⟨hy', ?_⟩
      have h1 := hp.1 x' hx'
      cases h2 : C.e x y'
      · rfl
      · have := C.trans x y' x' h2 (C.symm _ _ hxy'); simp [this] at h1)
    simp only [List.length_cons]; omega

/-- inclusion of the class sets -/
def Sub (C : Consistent hash eq) (a b : Table K V) : Prop := ∀ k, mem C a k = true → mem C b k = true

theorem skeys_pairwise (C : Consistent hash eq) {t : Table K Unit} (hI : Inv C t) :
    (sToList t).Pairwise (fun x y => C.e x y = false) :=
  List.pairwise_map.2 (toList_pairwise C hI)

theorem skeys_length (C : Consistent hash eq) {t : Table K Unit} (hI : Inv C t) : (sToList t).length = t.len := by
  simp [sToList, toList_length, hI.len_eq]

theorem mem_iff_skeys (C : Consistent hash eq) {t : Table K Unit} (hI : Inv C t) (k : K) :
    mem C t k = true ↔ ∃ x ∈ sToList t, C.e k x = true := by
  rw [mem_iff_stored C hI, ← sToList_any]; simp

theorem mem_of_stored (C : Consistent hash eq) {t : Table K Unit} (hI : Inv C t) {x : K} (hx : x ∈ sToList t) :
    mem C t x = true := (mem_iff_skeys C hI x).2 ⟨x, hx, C.refl x⟩

theorem all_mem_iff_sub (C : Consistent hash eq) {a b : Table K Unit} (ha : Inv C a) :
    (sToList a).all (mem C b) = true ↔ Sub C a b := by
  rw [List.all_eq_true]
  constructor
  · intro h k hk
    obtain ⟨x, hx, hkx⟩ := (mem_iff_skeys C ha k).1 hk
    rw [mem_congr C hkx]; exact h x hx
  · intro h x hx
    exact h x (mem_of_stored C ha hx)

theorem sub_len_le (C : Consistent hash eq) {a b : Table K Unit} (ha : Inv C a) (hb : Inv C b) (h : Sub C a b) :
    a.len ≤ b.len := by
  rw [← skeys_length C ha, ← skeys_length C hb]
  apply card_le C _ _ (skeys_pairwise C ha)
  intro x hx
  exact (mem_iff_skeys C hb x).1 (h x (mem_of_stored C ha hx))

/-- pigeonhole: a subset with at least as many classes is the whole set -/
theorem sub_antisymm_of_len (C : Consistent hash eq) {a b : Table K Unit} (ha : Inv C a) (hb : Inv C b)
    (h : Sub C a b) (hl : b.len ≤ a.len) : Sub C b a := by
  intro k hk
  cases hak : mem C a k
  · -- all members of `a` avoid the class of `k`, which `b` contains: one class of `b` is left over
    exfalso
    obtain ⟨z, hz, hkz⟩ := (mem_iff_skeys C hb k).1 hk
    have hlt := filter_length_lt (fun y => !C.e k y) (sToList b) hz (by simp [hkz])
    have hle := card_le C (sToList a) ((sToList b).filter (fun y => !C.e k y)) (skeys_pairwise C ha) (by
      intro x hx
      obtain ⟨y, hy, hxy⟩ := (mem_iff_skeys C hb x).1 (h x (mem_of_stored C ha hx))
      refine ⟨y, ?_, hxy⟩
      rw [List.mem_filter]
      refine ⟨hy, ?_⟩
      cases hky : C.e k y
      · rfl
      · have hkx : C.e k x = true := C.trans k y x hky (C.symm _ _ hxy)
        have := mem_of_stored C ha hx
        rw [← mem_congr C hkx, hak] at this; cases this)
    rw [skeys_length C ha] at hle
    rw [skeys_length C hb] at hlt
    omega
  · rfl

theorem sGe_spec (C : Consistent hash eq) {a b : Table K Unit} (ha : Inv C a) (hb : Inv C b) :
    ∃ r, sGe hash eq b a = .ok r ∧ (r = true ↔ Sub C a b) := by
  unfold sGe
  simp only [sContains_eq C, allRes_ok]
  split
  · exact ⟨_, rfl, all_mem_iff_sub C ha⟩
  · rename_i hl
    exact ⟨false, rfl, by simp; intro h; exact hl (sub_len_le C ha hb h)⟩

theorem sGt_spec (C : Consistent hash eq) {a b : Table K Unit} (ha : Inv C a) (hb : Inv C b) :
    ∃ r, sGt hash eq b a = .ok r ∧ (r = true ↔ (Sub C a b ∧ ¬ Sub C b a)) := by
  unfold sGt
  simp only [sContains_eq C, allRes_ok]
  split
  · rename_i hl
    refine ⟨_, rfl, ?_⟩
    rw [all_mem_iff_sub C ha]
    constructor
    · intro h
      refine ⟨h, fun h2 => ?_⟩
      have := sub_len_le C hb ha h2; omega
    · exact fun h => h.1
  · rename_i hl
    refine ⟨false, rfl, ?_⟩
    simp only [Bool.false_eq_true, false_iff, not_and, Classical.not_not]
    intro h
    exact sub_antisymm_of_len C ha hb h (by have := sub_len_le C ha hb h; omega)

theorem sEq_spec (C : Consistent hash eq) {a b : Table K Unit} (ha : Inv C a) (hb : Inv C b) :
    ∃ r, sEq hash eq a b = .ok r ∧ (r = true ↔ ∀ k, mem C a k = mem C b k) := by
  have key : (∀ k, mem C a k = mem C b k) ↔ (Sub C a b ∧ Sub C b a) := by
    constructor
    · intro h; exact ⟨fun k hk => by rw [← h k]; exact hk, fun k hk => by rw [h k]; exact hk⟩
    · intro ⟨h1, h2⟩ k
      cases hak : mem C a k
      · cases hbk : mem C b k
        · rfl
        · have := h2 k hbk; rw [hak] at this; cases this
      · exact (h1 k hak).symm
  unfold sEq orderByCard
  simp only [sContains_eq C, allRes_ok]
  by_cases hl : a.len = b.len
  · have hnl : ¬ a.len < b.len := by omega
    simp only [if_pos hl, if_neg hnl]
    refine ⟨_, rfl, ?_⟩
    rw [all_mem_iff_sub C hb, key]
    constructor
    · intro h; exact ⟨sub_antisymm_of_len C hb ha h (by omega), h⟩
    · exact fun h => h.2
  · simp only [if_neg hl]
    refine ⟨false, rfl, ?_⟩
    simp only [Bool.false_eq_true, false_iff, key, not_and]
    intro h1 h2
    have := sub_len_le C ha hb h1; have := sub_len_le C hb ha h2; omega

theorem isDisjoint_spec (C : Consistent hash eq) {a b : Table K Unit} (ha : Inv C a) (hb : Inv C b) :
    ∃ r, isDisjoint hash eq a b = .ok r ∧ (r = true ↔ ∀ k, ¬ (mem C a k = true ∧ mem C b k = true)) := by
  have key : ∀ {x y : Table K Unit}, Inv C x →
      ((sToList x).all (fun i => !mem C y i) = true ↔ ∀ k, ¬ (mem C x k = true ∧ mem C y k = true)) := by
    intro x y hx
    rw [List.all_eq_true]
    constructor
    · intro h k ⟨h1, h2⟩
      obtain ⟨z, hz, hkz⟩ := (mem_iff_skeys C hx k).1 h1
      have := h z hz
      rw [← mem_congr C hkz, h2] at this; cases this
    · intro h z hz
      cases hy : mem C y z
      · rfl
      · exact absurd ⟨mem_of_stored C hx hz, hy⟩ (h z)
  unfold isDisjoint orderByCard
  simp only [sContains_eq C, allRes_ok]
  split
  · exact ⟨_, rfl, key ha⟩
  · refine ⟨_, rfl, ?_⟩
    rw [key hb]
    exact ⟨fun h k hk => h k ⟨hk.2, hk.1⟩, fun h k hk => h k ⟨hk.2, hk.1⟩⟩


/-! ### hash-free membership (for the statements in Props/C17.lean) -/

/-- membership of the class of `k`, read off the plain association list (no hashing) -/
def has (C : Consistent hash eq) (t : Table K V) (k : K) : Bool := (look C t k).isSome

theorem has_eq_mem (C : Consistent hash eq) {t : Table K V} (hI : Inv C t) (k : K) : has C t k = mem C t k := by
  simp only [has, mem, look_eq_lookB C hI]

theorem look_fun (C : Consistent hash eq) {t : Table K V} (hI : Inv C t) : look C t = lookB C t :=
  funext (look_eq_lookB C hI)

end
end XrayModel.HM
