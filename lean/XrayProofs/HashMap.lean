/- helper definitions and lemmas for C17 (model: XrayModel/HashMap.lean) -/
import XrayModel.HashMap
namespace XrayModel.HM

/-- the premise of the property: `eq` is a (total, error-free) equivalence relation, `hash` is total,
equal keys hash equally, and hashes lie in `[0, 2^64)` -/
structure Consistent {K : Type} (hash : K → Res Int) (eq : K → K → Res Bool) where
  h : K → Nat
  e : K → K → Bool
  hash_ok : ∀ k, hash k = .ok (h k : Int)
  hash_lt : ∀ k, h k < 18446744073709551616
  eq_ok : ∀ a b, eq a b = .ok (e a b)
  refl : ∀ a, e a a = true
  symm : ∀ a b, e a b = true → e b a = true
  trans : ∀ a b c, e a b = true → e b c = true → e a c = true
  congr : ∀ a b, e a b = true → h a = h b

section
variable {K V : Type}

/-- association-list lookup over the equivalence classes of `e`: the value of the first entry whose key is
`e`-equal to `k` -/
def findE (e : K → K → Bool) (k : K) : List (K × V) → Option V
  | [] => none
  | (k', v) :: r => if e k k' then some v else findE e k r

/-- pure reading of `scan` -/
def scanP (e : K → K → Bool) (key : K) : Bucket K V → Option Nat
  | [] => none
  | (k, _) :: rest => if e key k then some 0 else (scanP e key rest).map (· + 1)

variable {hash : K → Res Int} {eq : K → K → Res Bool}

theorem scan_eq (C : Consistent hash eq) (key : K) (b : Bucket K V) :
    scan eq key b = .ok (scanP C.e key b) := by
  induction b with
  | nil => rfl
  | cons kv rest ih =>
    obtain ⟨k, v⟩ := kv
    simp only [scan, scanP, C.eq_ok, ih]
    cases C.e key k <;> simp
    cases scanP C.e key rest <;> simp

theorem toU64_nat (n : Nat) (hn : n < 18446744073709551616) : toU64 (n : Int) = some n := by
  unfold toU64
  split
  · simp
  · omega

/-- pure reading of `locate` -/
def locP (C : Consistent hash eq) (t : Table K V) (k : K) : Loc :=
  match bget t.buckets (C.h k) with
  | none => .vacant (C.h k)
  | some b =>
    match scanP C.e k b with
    | some i => .found (C.h k) i
    | none => .missing (C.h k)

theorem hash_u64 (C : Consistent hash eq) (k : K) : ∃ x, hash k = .ok x ∧ toU64 x = some (C.h k) :=
  ⟨_, C.hash_ok k, toU64_nat _ (C.hash_lt k)⟩

theorem locate_eq (C : Consistent hash eq) (t : Table K V) (k : K) :
    locate hash eq t k = .ok (locP C t k) := by
  -- (through `hash_u64`, so that the kernel never tries to evaluate `toU64` on a cast)
  obtain ⟨x, hh, hu⟩ := hash_u64 C k
  unfold locP
  simp only [locate, hh, hu]
  cases bget t.buckets (C.h k) with
  | none => rfl
  | some b =>
    simp only [scan_eq C]
    cases scanP C.e k b <;> rfl

/-! ### the `HashMap<u64, _>` association list -/

theorem bget_binsert {β : Type} (bs : List (Nat × β)) (h h' : Nat) (b : β) :
    bget (binsert bs h b) h' = if h = h' then some b else bget bs h' := by
  induction bs with
  | nil => simp [binsert, bget]
  | cons hb rest ih =>
    obtain ⟨h0, b0⟩ := hb
    simp only [binsert]
    by_cases h1 : h0 = h
    · subst h1; simp only [if_true, bget]; split <;> rfl
    · simp only [if_neg h1, bget, ih]
      by_cases h2 : h0 = h'
      · subst h2; simp [Ne.symm h1]
      · simp [h2]

theorem bget_bremove {β : Type} (bs : List (Nat × β)) (h h' : Nat) :
    bget (bremove bs h) h' = if h = h' then none else bget bs h' := by
  induction bs with
  | nil => simp [bremove, bget]
  | cons hb rest ih =>
    obtain ⟨h0, b0⟩ := hb
    simp only [bremove]
    by_cases h1 : h0 = h
    · subst h1; simp only [if_true, ih, bget]
      by_cases h2 : h0 = h' <;> simp [h2]
    · simp only [if_neg h1, bget, ih]
      by_cases h2 : h0 = h'
      · subst h2; simp [Ne.symm h1]
      · simp [h2]

theorem bremove_of_none {β : Type} (bs : List (Nat × β)) (h : Nat) (hn : bget bs h = none) :
    bremove bs h = bs := by
  induction bs with
  | nil => rfl
  | cons hb rest ih =>
    obtain ⟨h0, b0⟩ := hb
    simp only [bget] at hn
    by_cases h1 : h0 = h
    · simp [h1] at hn
    · simp only [if_neg h1] at hn
      simp [bremove, h1, ih hn]

/-- number of stored entries -/
def lenSum : List (Nat × Bucket K V) → Nat
  | [] => 0
  | (_, b) :: rest => b.length + lenSum rest

theorem toList_length (t : Table K V) : (toList t).length = lenSum t.buckets := by
  unfold toList
  induction t.buckets with
  | nil => rfl
  | cons hb rest ih => simp [List.flatMap_cons, lenSum, ih]

/-- length of the bucket stored under `h` (0 when there is none) -/
def blen (bs : List (Nat × Bucket K V)) (h : Nat) : Nat :=
  match bget bs h with
  | none => 0
  | some b => b.length

theorem lenSum_binsert (bs : List (Nat × Bucket K V)) (h : Nat) (b : Bucket K V) :
    lenSum (binsert bs h b) + blen bs h = lenSum bs + b.length := by
  induction bs with
  | nil => simp [binsert, lenSum, blen, bget]
  | cons hb rest ih =>
    obtain ⟨h0, b0⟩ := hb
    by_cases h1 : h0 = h
    · subst h1; simp [binsert, lenSum, blen, bget]; omega
    · have : blen ((h0, b0) :: rest) h = blen rest h := by simp [blen, bget, h1]
      simp only [binsert, if_neg h1, lenSum, this]
      omega

/-- well-formed bucket: keys sit under their hash, are pairwise inequivalent, and the bucket is not empty -/
def BucketOK (C : Consistent hash eq) (h : Nat) (b : Bucket K V) : Prop :=
  (∀ kv ∈ b, C.h kv.1 = h) ∧ b.Pairwise (fun x y => C.e x.1 y.1 = false) ∧ b ≠ []

/-- well-formed bucket table: every bucket is well-formed and no hash occurs twice -/
def BucketsOK (C : Consistent hash eq) : List (Nat × Bucket K V) → Prop
  | [] => True
  | (h, b) :: rest => BucketOK C h b ∧ bget rest h = none ∧ BucketsOK C rest

/-- the representation invariant of `XMapping` / `XSet` -/
structure Inv (C : Consistent hash eq) (t : Table K V) : Prop where
  buckets_ok : BucketsOK C t.buckets
  len_eq : t.len = lenSum t.buckets

theorem BucketsOK.get {C : Consistent hash eq} {bs : List (Nat × Bucket K V)} (hb : BucketsOK C bs)
    {h : Nat} {b : Bucket K V} (hg : bget bs h = some b) : BucketOK C h b := by
  induction bs with
  | nil => simp [bget] at hg
  | cons hb0 rest ih =>
    obtain ⟨h0, b0⟩ := hb0
    obtain ⟨h1, _, h3⟩ := hb
    simp only [bget] at hg
    by_cases hh : h0 = h
    · subst hh; simp at hg; subst hg; exact h1
    · simp only [if_neg hh] at hg; exact ih h3 hg

theorem BucketsOK.binsert {C : Consistent hash eq} {bs : List (Nat × Bucket K V)} (hb : BucketsOK C bs)
    {h : Nat} {b : Bucket K V} (hok : BucketOK C h b) : BucketsOK C (binsert bs h b) := by
  induction bs with
  | nil => exact ⟨hok, rfl, trivial⟩
  | cons hb0 rest ih =>
    obtain ⟨h0, b0⟩ := hb0
    obtain ⟨h1, h2, h3⟩ := hb
    simp only [HM.binsert]
    by_cases hh : h0 = h
    · subst hh; simp only [if_true]; exact ⟨hok, h2, h3⟩
    · simp only [if_neg hh]
      refine ⟨h1, ?_, ih h3⟩
      rw [bget_binsert, if_neg (Ne.symm hh)]; exact h2

theorem BucketsOK.bremove {C : Consistent hash eq} {bs : List (Nat × Bucket K V)} (hb : BucketsOK C bs)
    (h : Nat) : BucketsOK C (bremove bs h) := by
  induction bs with
  | nil => trivial
  | cons hb0 rest ih =>
    obtain ⟨h0, b0⟩ := hb0
    obtain ⟨h1, h2, h3⟩ := hb
    simp only [HM.bremove]
    by_cases hh : h0 = h
    · simp only [if_pos hh]; exact ih h3
    · simp only [if_neg hh]
      refine ⟨h1, ?_, ih h3⟩
      rw [bget_bremove]; split <;> simp [h2]

theorem lenSum_bremove {C : Consistent hash eq} {bs : List (Nat × Bucket K V)} (hb : BucketsOK C bs) (h : Nat) :
    lenSum (bremove bs h) + blen bs h = lenSum bs := by
  induction bs with
  | nil => simp [HM.bremove, lenSum, blen, bget]
  | cons hb0 rest ih =>
    obtain ⟨h0, b0⟩ := hb0
    obtain ⟨_, h2, h3⟩ := hb
    by_cases hh : h0 = h
    · subst hh
      simp [HM.bremove, lenSum, blen, bget, bremove_of_none rest h0 h2]; omega
    · have : blen ((h0, b0) :: rest) h = blen rest h := by simp [blen, bget, hh]
      simp only [HM.bremove, if_neg hh, lenSum, this]
      have := ih h3
      omega


/-! ### association-list lookup inside one bucket -/

theorem findE_none_iff (e : K → K → Bool) (k : K) (b : List (K × V)) :
    findE e k b = none ↔ ∀ kv ∈ b, e k kv.1 = false := by
  induction b with
  | nil => simp [findE]
  | cons kv r ih =>
    obtain ⟨k1, v1⟩ := kv
    simp only [findE, List.mem_cons, forall_eq_or_imp]
    cases h : e k k1 <;> simp [ih]

theorem findE_append (e : K → K → Bool) (k : K) (a b : List (K × V)) :
    findE e k (a ++ b) = match findE e k a with
      | some v => some v
      | none => findE e k b := by
  induction a with
  | nil => simp [findE]
  | cons kv r ih =>
    obtain ⟨k1, v1⟩ := kv
    simp only [List.cons_append, findE]
    cases e k k1 <;> simp [ih]

theorem scanP_none {e : K → K → Bool} {k : K} {b : Bucket K V} (h : scanP e k b = none) :
    findE e k b = none := by
  induction b with
  | nil => rfl
  | cons kv r ih =>
    obtain ⟨k1, v1⟩ := kv
    simp only [scanP] at h
    cases h1 : e k k1
    · simp only [h1] at h
      simp only [findE, h1]
      cases h2 : scanP e k r
      · exact ih h2
      · simp [h2] at h
    · simp [h1] at h

theorem scanP_some {e : K → K → Bool} {k : K} {b : Bucket K V} {i : Nat} (h : scanP e k b = some i) :
    ∃ k0 p, b[i]? = some (k0, p) ∧ e k k0 = true ∧ findE e k b = some p := by
  induction b generalizing i with
  | nil => simp [scanP] at h
  | cons kv r ih =>
    obtain ⟨k1, v1⟩ := kv
    simp only [scanP] at h
    cases h1 : e k k1
    · simp only [h1] at h
      cases h2 : scanP e k r with
      | none => simp [h2] at h
      | some j =>
        simp [h2] at h
        subst h
        obtain ⟨k0, p, h3, h4, h5⟩ := ih h2
        exact ⟨k0, p, by simpa using h3, h4, by simp [findE, h1, h5]⟩
    · simp [h1] at h
      subst h
      exact ⟨k1, v1, by simp, h1, by simp [findE, h1]⟩

/-- keys of a bucket -/
abbrev bkeys (b : Bucket K V) : List K := b.map Prod.fst

theorem bkeys_set {b : Bucket K V} {i : Nat} {k0 : K} {p v : V} (h : b[i]? = some (k0, p)) :
    bkeys (b.set i (k0, v)) = bkeys b := by
  induction b generalizing i with
  | nil => simp
  | cons kv r ih =>
    cases i with
    | zero => simp at h; simp [bkeys, h]
    | succ j => simp at h; simp [bkeys, List.set] at *; exact ih h

section equiv
variable (C : Consistent hash eq)

theorem e_false_of_hash_ne {a b : K} (h : C.h a ≠ C.h b) : C.e a b = false := by
  cases h1 : C.e a b
  · rfl
  · exact absurd (C.congr a b h1) h

theorem e_left_congr {a b : K} (h : C.e a b = true) (c : K) : C.e c a = C.e c b := by
  cases h1 : C.e c a
  · cases h2 : C.e c b
    · rfl
    · have := C.trans c b a h2 (C.symm a b h); simp [this] at h1
  · exact (C.trans c a b h1 h).symm

/-- no entry of `r` is equivalent to `k0`, `k'` is equivalent to `k0` ⇒ no entry of `r` is found for `k'` -/
theorem findE_none_of_equiv {r : List (K × V)} {k0 k' : K} (hr : ∀ x ∈ r, C.e k0 x.1 = false)
    (hk : C.e k' k0 = true) : findE C.e k' r = none := by
  rw [findE_none_iff]
  intro x hx
  have := hr x hx
  cases h : C.e k' x.1
  · rfl
  · have h2 := C.trans k0 k' x.1 (C.symm _ _ hk) h; simp [h2] at this

theorem findE_set {b : Bucket K V} (hp : b.Pairwise (fun x y => C.e x.1 y.1 = false)) {i : Nat} {k0 : K}
    {p : V} (hi : b[i]? = some (k0, p)) (v : V) (k' : K) :
    findE C.e k' (b.set i (k0, v)) = if C.e k' k0 then some v else findE C.e k' b := by
  induction b generalizing i with
  | nil => simp at hi
  | cons kv r ih =>
    obtain ⟨k1, v1⟩ := kv
    rw [List.pairwise_cons] at hp
    cases i with
    | zero =>
      simp at hi
      obtain ⟨rfl, rfl⟩ := hi
      simp only [List.set_cons_zero, findE]
      cases C.e k' k1 <;> simp
    | succ j =>
      simp at hi
      simp only [List.set_cons_succ, findE, ih hp.2 hi]
      cases h1 : C.e k' k1
      · simp
      · have hmem : (k0, p) ∈ r := List.mem_of_getElem? hi
        have h10 : C.e k1 k0 = false := hp.1 _ hmem
        have : C.e k' k0 = false := by
          cases h2 : C.e k' k0
          · rfl
          · have := C.trans k1 k' k0 (C.symm _ _ h1) h2; simp [this] at h10
        simp [this]

theorem findE_eraseIdx {b : Bucket K V} (hp : b.Pairwise (fun x y => C.e x.1 y.1 = false)) {i : Nat} {k0 : K}
    {p : V} (hi : b[i]? = some (k0, p)) (k' : K) :
    findE C.e k' (b.eraseIdx i) = if C.e k' k0 then none else findE C.e k' b := by
  induction b generalizing i with
  | nil => simp at hi
  | cons kv r ih =>
    obtain ⟨k1, v1⟩ := kv
    rw [List.pairwise_cons] at hp
    cases i with
    | zero =>
      simp at hi
      obtain ⟨rfl, rfl⟩ := hi
      simp only [List.eraseIdx_cons_zero, findE]
      cases h1 : C.e k' k1
      · simp
      · simp only [if_true]
        exact findE_none_of_equiv C (fun x hx => hp.1 x hx) h1
    | succ j =>
      simp at hi
      simp only [List.eraseIdx_cons_succ, findE, ih hp.2 hi]
      cases h1 : C.e k' k1
      · simp
      · have hmem : (k0, p) ∈ r := List.mem_of_getElem? hi
        have h10 : C.e k1 k0 = false := hp.1 _ hmem
        have : C.e k' k0 = false := by
          cases h2 : C.e k' k0
          · rfl
          · have := C.trans k1 k' k0 (C.symm _ _ h1) h2; simp [this] at h10
        simp [this]

end equiv


/-! ### the abstraction: a table as an association list over the classes of `e` -/

/-- lookup through the hash: the bucket of `hash k`, then the first `e`-equal key -/
def lookB (C : Consistent hash eq) (t : Table K V) (k : K) : Option V :=
  match bget t.buckets (C.h k) with
  | none => none
  | some b => findE C.e k b

/-- the hash-free reading: plain association-list lookup in the list of all stored entries -/
def look (C : Consistent hash eq) (t : Table K V) (k : K) : Option V := findE C.e k (toList t)

theorem findE_flat (C : Consistent hash eq) {bs : List (Nat × Bucket K V)} (hb : BucketsOK C bs) (k : K) :
    findE C.e k (bs.flatMap (·.2)) = match bget bs (C.h k) with
      | none => none
      | some b => findE C.e k b := by
  induction bs with
  | nil => rfl
  | cons hb0 rest ih =>
    obtain ⟨h0, b0⟩ := hb0
    obtain ⟨h1, h2, h3⟩ := hb
    simp only [List.flatMap_cons, findE_append, ih h3, bget]
    by_cases hh : h0 = C.h k
    · subst hh
      simp only [if_true, h2]
      cases findE C.e k b0 <;> rfl
    · simp only [if_neg hh]
      have : findE C.e k b0 = none := by
        rw [findE_none_iff]
        intro kv hkv
        apply e_false_of_hash_ne C
        rw [h1.1 kv hkv]; exact Ne.symm hh
      simp [this]

/-- `look` (no hashing involved) and `lookB` (through the hash) agree on a well-formed table -/
theorem look_eq_lookB (C : Consistent hash eq) {t : Table K V} (hI : Inv C t) (k : K) :
    look C t k = lookB C t k := findE_flat C hI.buckets_ok k

theorem bucketOK_set (C : Consistent hash eq) {h : Nat} {b : Bucket K V} (hb : BucketOK C h b) {i : Nat} {k0 : K}
    {p : V} (hi : b[i]? = some (k0, p)) (v : V) : BucketOK C h (b.set i (k0, v)) := by
  have hk := bkeys_set (v := v) hi
  obtain ⟨h1, h2, h3⟩ := hb
  refine ⟨?_, ?_, ?_⟩
  · intro kv hkv
    have : kv.1 ∈ bkeys (b.set i (k0, v)) := List.mem_map_of_mem hkv
    rw [hk] at this
    obtain ⟨kv', hm, he⟩ := List.mem_map.1 this
    rw [← he]; exact h1 kv' hm
  · have : (bkeys (b.set i (k0, v))).Pairwise (fun x y => C.e x y = false) := by
      rw [hk]; exact List.pairwise_map.2 h2
    exact List.pairwise_map.1 this
  · intro hn
    have := congrArg List.length hn
    simp at this
    exact h3 this

theorem bucketOK_append (C : Consistent hash eq) {h : Nat} {b : Bucket K V} (hb : BucketOK C h b) {k : K}
    (hk : C.h k = h) (hn : ∀ kv ∈ b, C.e k kv.1 = false) (v : V) : BucketOK C h (b ++ [(k, v)]) := by
  obtain ⟨h1, h2, _⟩ := hb
  refine ⟨?_, ?_, by simp⟩
  · intro kv hkv
    rcases List.mem_append.1 hkv with hm | hm
    · exact h1 kv hm
    · simp at hm; subst hm; exact hk
  · rw [List.pairwise_append]
    refine ⟨h2, by simp, ?_⟩
    intro x hx y hy
    simp at hy; subst hy
    cases hxy : C.e x.1 k
    · rfl
    · have := C.symm _ _ hxy; simp [hn x hx] at this

theorem bucketOK_eraseIdx (C : Consistent hash eq) {h : Nat} {b : Bucket K V} (hb : BucketOK C h b) (i : Nat)
    (hl : 1 < b.length) : BucketOK C h (b.eraseIdx i) := by
  obtain ⟨h1, h2, _⟩ := hb
  have hs : (b.eraseIdx i).Sublist b := List.eraseIdx_sublist b i
  refine ⟨fun kv hkv => h1 kv (hs.subset hkv), h2.sublist hs, ?_⟩
  intro hn
  have h4 := congrArg List.length hn
  have h5 := @List.length_eraseIdx _ b i
  rw [h4] at h5
  split at h5 <;> simp at h5 <;> omega

/-- the value a put writes: `on_found(prev)` for a present key, `on_empty()` for an absent one -/
def newVal (onEmpty : Unit → Res V) (onFound : V → Res V) : Option V → Res V
  | some v => onFound v
  | none => onEmpty ()

theorem lookB_binsert (C : Consistent hash eq) (bs : List (Nat × Bucket K V)) (h : Nat) (b : Bucket K V) (k' : K) :
    (match bget (binsert bs h b) (C.h k') with
      | none => none
      | some b => findE C.e k' b) =
    if h = C.h k' then findE C.e k' b else
      (match bget bs (C.h k') with
        | none => none
        | some b => findE C.e k' b) := by
  rw [bget_binsert]; by_cases hh : h = C.h k' <;> simp [hh]

theorem tryPut_spec (C : Consistent hash eq) {t : Table K V} (hI : Inv C t) (k : K)
    (onEmpty : Unit → Res V) (onFound : V → Res V) :
    (∀ er, newVal onEmpty onFound (lookB C t k) = .error er → tryPut hash eq t k onEmpty onFound = .error er) ∧
    (∀ v, newVal onEmpty onFound (lookB C t k) = .ok v →
      ∃ t', tryPut hash eq t k onEmpty onFound = .ok t' ∧ Inv C t' ∧
        t'.len = (if (lookB C t k).isSome then t.len else t.len + 1) ∧
        ∀ k', lookB C t' k' = if C.e k' k then some v else lookB C t k') := by
  obtain ⟨hB, hL⟩ := hI
  unfold tryPut
  rw [locate_eq C]
  cases hg : bget t.buckets (C.h k) with
  | none =>
    -- vacant
    simp only [locP, lookB, hg, newVal, tryPutLocated]
    constructor
    · intro er he; simp [he]
    · intro v hv
      simp only [hv]
      refine ⟨_, rfl, ⟨?_, ?_⟩, by simp, ?_⟩
      · exact hB.binsert ⟨by simp, by simp, by simp⟩
      · have := lenSum_binsert t.buckets (C.h k) [(k, v)]
        simp [blen, hg] at this
        simp [hL, this]
      · intro k'
        rw [lookB_binsert]
        by_cases hh : C.h k = C.h k'
        · rw [if_pos hh, ← hh, hg]
          cases hk' : C.e k' k <;> simp [findE, hk']
        · rw [if_neg hh, e_false_of_hash_ne C (Ne.symm hh)]; simp
  | some b =>
    have hbo := hB.get hg
    cases hs : scanP C.e k b with
    | none =>
      -- missing
      have hf := scanP_none hs
      simp only [locP, lookB, hg, hs, hf, newVal, tryPutLocated]
      constructor
      · intro er he; simp [he]
      · intro v hv
        simp only [hv]
        have hnone := (findE_none_iff C.e k b).1 hf
        refine ⟨_, rfl, ⟨?_, ?_⟩, by simp, ?_⟩
        · exact hB.binsert (bucketOK_append C hbo rfl hnone v)
        · have := lenSum_binsert t.buckets (C.h k) (b ++ [(k, v)])
          simp [blen, hg] at this
          simp [hL]; omega
        · intro k'
          rw [lookB_binsert]
          by_cases hh : C.h k = C.h k'
          · rw [if_pos hh, ← hh, hg, findE_append]
            cases hk' : C.e k' k
            · cases hfk : findE C.e k' b <;> simp [findE, hk', hfk]
            · have : findE C.e k' b = none := findE_none_of_equiv C hnone hk'
              simp [this, findE, hk']
          · rw [if_neg hh, e_false_of_hash_ne C (Ne.symm hh)]; simp
    | some i =>
      -- found
      obtain ⟨k0, p, hi, hek, hf⟩ := scanP_some hs
      simp only [locP, lookB, hg, hs, hf, newVal, tryPutLocated, hi]
      constructor
      · intro er he; simp [he]
      · intro v hv
        simp only [hv]
        refine ⟨_, rfl, ⟨?_, ?_⟩, by simp, ?_⟩
        · exact hB.binsert (bucketOK_set C hbo hi v)
        · have := lenSum_binsert t.buckets (C.h k) (b.set i (k0, v))
          simp [blen, hg] at this
          simp [hL]; omega
        · intro k'
          rw [lookB_binsert]
          by_cases hh : C.h k = C.h k'
          · rw [if_pos hh, ← hh, hg, findE_set C hbo.2.1 hi, e_left_congr C hek k']
          · rw [if_neg hh, e_false_of_hash_ne C (Ne.symm hh)]; simp


theorem getAt_of_scan {t : Table K V} {h i : Nat} {b : Bucket K V} {k0 : K} {p : V}
    (hg : bget t.buckets h = some b) (hi : b[i]? = some (k0, p)) : getAt t h i = .ok p := by
  simp [getAt, hg, hi]

theorem lookup_eq (C : Consistent hash eq) {t : Table K V} (_hI : Inv C t) (k : K) :
    lookup hash eq t k = .ok (lookB C t k) := by
  unfold lookup
  rw [locate_eq C]
  cases hg : bget t.buckets (C.h k) with
  | none => simp [locP, lookB, hg]
  | some b =>
    cases hs : scanP C.e k b with
    | none => simp [locP, lookB, hg, hs, scanP_none hs]
    | some i =>
      obtain ⟨k0, p, hi, _, hf⟩ := scanP_some hs
      simp [locP, lookB, hg, hs, hf, getAt_of_scan hg hi]

theorem put_eq_tryPut (t : Table K V) (k : K) (onEmpty : Unit → V) (onFound : V → V) :
    put hash eq t k onEmpty onFound = tryPut hash eq t k (fun u => .ok (onEmpty u)) (fun v => .ok (onFound v)) := rfl

theorem set_specB (C : Consistent hash eq) {t : Table K V} (hI : Inv C t) (k : K) (v : V) :
    ∃ t', set hash eq t k v = .ok t' ∧ Inv C t' ∧
      t'.len = (if (lookB C t k).isSome then t.len else t.len + 1) ∧
      ∀ k', lookB C t' k' = if C.e k' k then some v else lookB C t k' := by
  have h := (tryPut_spec C hI k (fun _ => .ok v) (fun _ => .ok v)).2 v (by cases lookB C t k <;> rfl)
  obtain ⟨t', h1, h2, h3, h4⟩ := h
  refine ⟨t', ?_, h2, h3, h4⟩
  simp only [set, withUpdate, put_eq_tryPut, h1]

end
end XrayModel.HM
