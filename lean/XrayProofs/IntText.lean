/-
Round trip of the integer <-> text conversion (`XrayModel/IntText.lean`).
-/
import Mathlib.Tactic.Linarith
import XrayModel.IntText
import XrayProofs.LazyInt
namespace XrayModel.Text
open XrayModel

/-- positional value, most significant digit first, continuing from `acc` -/
def val (r : Nat) (ds : List Nat) (acc : Nat) : Nat := ds.foldl (fun a d => a * r + d) acc

theorem val_nil (r acc : Nat) : val r [] acc = acc := rfl
theorem val_cons (r d : Nat) (ds : List Nat) (acc : Nat) : val r (d :: ds) acc = val r ds (acc * r + d) := rfl

theorem le_val (r : Nat) (hr : 1 ≤ r) (ds : List Nat) : ∀ acc, acc ≤ val r ds acc := by
  induction ds with
  | nil => intro acc; exact Nat.le_refl _
  | cons d ds ih =>
    intro acc
    rw [val_cons]
    have := ih (acc * r + d)
    have : acc ≤ acc * r := Nat.le_mul_of_pos_right acc hr
    omega

/-! ### digits of a natural number -/

theorem aux_val (r : Nat) (hr : 2 ≤ r) : ∀ (fuel n : Nat) (acc : List Nat), n ≤ fuel →
    val r (natDigitsAux fuel r n acc) 0 = val r acc n := by
  intro fuel
  induction fuel with
  | zero => intro n acc h; have : n = 0 := by omega
            subst this; rfl
  | succ fuel ih =>
    intro n acc h
    unfold natDigitsAux
    split
    · subst_vars; rfl
    · rename_i hn
      have hlt : n / r < n := Nat.div_lt_self (by omega) (by omega)
      rw [ih (n / r) _ (by omega), val_cons, Nat.div_add_mod' n r]

theorem aux_lt (r : Nat) (hr : 2 ≤ r) : ∀ (fuel n : Nat) (acc : List Nat), (∀ d ∈ acc, d < r) →
    ∀ d ∈ natDigitsAux fuel r n acc, d < r := by
  intro fuel
  induction fuel with
  | zero => intro n acc h; exact h
  | succ fuel ih =>
    intro n acc h
    unfold natDigitsAux
    split
    · exact h
    · apply ih
      intro d hd
      rcases List.mem_cons.mp hd with h' | h'
      · rw [h']; exact Nat.mod_lt _ (by omega)
      · exact h d h'

theorem aux_ne_nil (r : Nat) : ∀ (fuel n : Nat) (acc : List Nat), (acc ≠ [] ∨ (n ≠ 0 ∧ fuel ≠ 0)) →
    natDigitsAux fuel r n acc ≠ [] := by
  intro fuel
  induction fuel with
  | zero => intro n acc h; rcases h with h | h
            · exact h
            · exact absurd rfl h.2
  | succ fuel ih =>
    intro n acc h
    unfold natDigitsAux
    split
    · rcases h with h | h
      · exact h
      · rename_i h0; exact absurd h0 h.1
    · exact ih _ _ (Or.inl (List.cons_ne_nil _ _))

theorem natDigits_val (r : Nat) (hr : 2 ≤ r) (n : Nat) : val r (natDigits r n) 0 = n := by
  unfold natDigits
  split
  · subst_vars; simp [val]
  · rw [aux_val r hr n n [] (Nat.le_refl _)]; rfl

theorem natDigits_lt (r : Nat) (hr : 2 ≤ r) (n : Nat) : ∀ d ∈ natDigits r n, d < r := by
  unfold natDigits
  split
  · intro d hd; simp at hd; omega
  · exact aux_lt r hr n n [] (by simp)

theorem natDigits_ne_nil (r n : Nat) : natDigits r n ≠ [] := by
  unfold natDigits
  split
  · simp
  · rename_i h; exact aux_ne_nil r n n [] (Or.inr ⟨h, h⟩)

/-! ### digit characters -/

theorem charVal_digitChar_fin : ∀ d : Fin 36, charVal (digitChar d.val) = some d.val := by decide

theorem charVal_digitChar (d : Nat) (h : d < 36) : charVal (digitChar d) = some d :=
  charVal_digitChar_fin ⟨d, h⟩

theorem charDigit_digitChar (d r : Nat) (hd : d < r) (hr : r ≤ 36) : charDigit (digitChar d) r = some d := by
  unfold charDigit
  rw [charVal_digitChar d (by omega)]
  simp [hd]

theorem bigDigit_digitChar_fin : ∀ d : Fin 36, ∀ r : Fin 37, d.val < r.val →
    bigDigit (digitChar d.val) r.val = some d.val := by decide

theorem bigDigit_digitChar (d r : Nat) (hd : d < r) (hr : r ≤ 36) : bigDigit (digitChar d) r = some d :=
  bigDigit_digitChar_fin ⟨d, by omega⟩ ⟨r, by omega⟩ hd

theorem digitChar_plain_fin : ∀ d : Fin 36,
    digitChar d.val ≠ '+' ∧ digitChar d.val ≠ '-' ∧ digitChar d.val ≠ '_' := by decide

theorem digitChar_plain (d : Nat) (h : d < 36) :
    digitChar d ≠ '+' ∧ digitChar d ≠ '-' ∧ digitChar d ≠ '_' := digitChar_plain_fin ⟨d, h⟩

/-! ### the `i128` loop on a string of valid digits -/

theorem loop_pos (r : Nat) (hr1 : 1 ≤ r) (hr : r ≤ 36) : ∀ (ds : List Nat), (∀ d ∈ ds, d < r) → ∀ acc : Nat,
    (acc : Int) ≤ I128_MAX →
    (((val r ds acc : Nat) : Int) ≤ I128_MAX →
      i128Loop false r (ds.map digitChar) acc = .ok ((val r ds acc : Nat) : Int)) ∧
    (I128_MAX < ((val r ds acc : Nat) : Int) →
      i128Loop false r (ds.map digitChar) acc = .posOverflow) := by
  intro ds
  induction ds with
  | nil =>
    intro _ acc h
    exact ⟨fun _ => rfl, fun h' => by rw [val_nil] at h'; omega⟩
  | cons d ds ih =>
    intro hds acc hacc
    have hd : d < r := hds d (List.mem_cons_self)
    have hmono := le_val r hr1 ds (acc * r + d)
    rw [val_cons]
    simp only [List.map_cons, i128Loop, charDigit_digitChar d r hd hr]
    unfold I128_MIN I128_MAX at *
    have hnn : (0 : Int) ≤ (acc : Int) * r := by positivity
    have hc : ((acc * r + d : Nat) : Int) = (acc : Int) * r + d := by rw [Int.natCast_add, Int.natCast_mul]
    by_cases h1 : (acc : Int) * r < -170141183460469231731687303715884105728 ∨
        170141183460469231731687303715884105727 < (acc : Int) * r
    · rw [if_pos h1]
      exact ⟨fun h => by omega, fun _ => rfl⟩
    · rw [if_neg h1]
      simp only [Bool.false_eq_true, if_false]
      by_cases h3 : (acc : Int) * r + d < -170141183460469231731687303715884105728 ∨
          170141183460469231731687303715884105727 < (acc : Int) * r + d
      · rw [if_pos h3]
        exact ⟨fun h => by omega, fun _ => rfl⟩
      · rw [if_neg h3, ← hc]
        exact ih (fun x hx => hds x (List.mem_cons_of_mem _ hx)) (acc * r + d) (by omega)

theorem loop_neg (r : Nat) (hr1 : 1 ≤ r) (hr : r ≤ 36) : ∀ (ds : List Nat), (∀ d ∈ ds, d < r) → ∀ acc : Nat,
    I128_MIN ≤ -(acc : Int) →
    (I128_MIN ≤ -((val r ds acc : Nat) : Int) →
      i128Loop true r (ds.map digitChar) (-(acc : Int)) = .ok (-((val r ds acc : Nat) : Int))) ∧
    (-((val r ds acc : Nat) : Int) < I128_MIN →
      i128Loop true r (ds.map digitChar) (-(acc : Int)) = .negOverflow) := by
  intro ds
  induction ds with
  | nil =>
    intro _ acc h
    exact ⟨fun _ => rfl, fun h' => by rw [val_nil] at h'; omega⟩
  | cons d ds ih =>
    intro hds acc hacc
    have hd : d < r := hds d (List.mem_cons_self)
    have hmono := le_val r hr1 ds (acc * r + d)
    rw [val_cons]
    simp only [List.map_cons, i128Loop, charDigit_digitChar d r hd hr]
    unfold I128_MIN I128_MAX at *
    have hm : -(acc : Int) * r = -((acc : Int) * r) := Int.neg_mul _ _
    rw [hm]
    have hnn : (0 : Int) ≤ (acc : Int) * r := by positivity
    have hc : ((acc * r + d : Nat) : Int) = (acc : Int) * r + d := by rw [Int.natCast_add, Int.natCast_mul]
    by_cases h1 : -((acc : Int) * r) < -170141183460469231731687303715884105728 ∨
        170141183460469231731687303715884105727 < -((acc : Int) * r)
    · rw [if_pos h1]
      exact ⟨fun h => by omega, fun _ => rfl⟩
    · rw [if_neg h1]
      simp only [if_true]
      by_cases h3 : -((acc : Int) * r) - d < -170141183460469231731687303715884105728 ∨
          170141183460469231731687303715884105727 < -((acc : Int) * r) - d
      · rw [if_pos h3]
        exact ⟨fun h => by omega, fun _ => rfl⟩
      · rw [if_neg h3]
        have e : -((acc : Int) * r) - d = -((acc * r + d : Nat) : Int) := by rw [hc]; omega
        rw [e]
        exact ih (fun x hx => hds x (List.mem_cons_of_mem _ hx)) (acc * r + d) (by omega)

/-! ### the big path on a string of valid digits -/

theorem mapM_bigDigit (r : Nat) (hr : r ≤ 36) : ∀ (ds : List Nat), (∀ d ∈ ds, d < r) →
    (ds.map digitChar).mapM (fun c => bigDigit c r) = some ds := by
  intro ds
  induction ds with
  | nil => intro _; rfl
  | cons d ds ih =>
    intro h
    simp only [List.map_cons, List.mapM_cons, bigDigit_digitChar d r (h d List.mem_cons_self) hr,
      ih (fun x hx => h x (List.mem_cons_of_mem _ hx))]
    rfl

theorem no_underscore (ds : List Nat) (h : ∀ d ∈ ds, d < 36) : (ds.map digitChar).contains '_' = false := by
  induction ds with
  | nil => rfl
  | cons d ds ih =>
    rw [List.map_cons, List.contains_cons, ih (fun x hx => h x (List.mem_cons_of_mem _ hx)), Bool.or_false]
    have := (digitChar_plain d (h d List.mem_cons_self)).2.2
    simp only [beq_eq_false_iff_ne, ne_eq]
    exact fun e => this e.symm

theorem stripPlus_cons (c : Char) (t : List Char) (h : c ≠ '+') : stripPlus (c :: t) = c :: t := by
  unfold stripPlus
  split
  · rename_i heq; exact absurd (List.cons.inj heq).1 h
  · rfl

theorem parseBigU_digits (r : Nat) (hr : r ≤ 36) (ds : List Nat) (hne : ds ≠ []) (h : ∀ d ∈ ds, d < r) :
    parseBigU (ds.map digitChar) r = some (val r ds 0) := by
  obtain ⟨d, ds', rfl⟩ := List.exists_cons_of_ne_nil hne
  have hp := digitChar_plain d (by have := h d List.mem_cons_self; omega)
  unfold parseBigU
  have e : stripPlus ((d :: ds').map digitChar) = (d :: ds').map digitChar := by
    rw [List.map_cons]; exact stripPlus_cons _ _ hp.1
  simp only [e]
  rw [if_neg (by simp), mapM_bigDigit r hr _ h]
  rfl

/-! ### the round trip -/

theorem parseBig_pos (r : Nat) (hr : r ≤ 36) (ds : List Nat) (hne : ds ≠ []) (h : ∀ d ∈ ds, d < r) :
    parseBig (ds.map digitChar) r = some ((val r ds 0 : Nat) : Int) := by
  have hb := parseBigU_digits r hr ds hne h
  obtain ⟨d, ds', rfl⟩ := List.exists_cons_of_ne_nil hne
  have hp := digitChar_plain d (by have := h d List.mem_cons_self; omega)
  unfold parseBig
  split
  · rename_i heq; rw [List.map_cons] at heq; exact absurd (List.cons.inj heq).1 hp.2.1
  · rw [hb]; rfl

theorem parseBig_neg (r : Nat) (hr : r ≤ 36) (ds : List Nat) (hne : ds ≠ []) (h : ∀ d ∈ ds, d < r) :
    parseBig ('-' :: ds.map digitChar) r = some (-((val r ds 0 : Nat) : Int)) := by
  have hb := parseBigU_digits r hr ds hne h
  obtain ⟨d, ds', rfl⟩ := List.exists_cons_of_ne_nil hne
  have hp := digitChar_plain d (by have := h d List.mem_cons_self; omega)
  unfold parseBig
  simp only []
  have e : afterMinus ('-' :: (d :: ds').map digitChar) ((d :: ds').map digitChar) = (d :: ds').map digitChar := by
    unfold afterMinus
    split
    · rename_i heq; rw [List.map_cons] at heq; exact absurd (List.cons.inj heq).1 hp.1
    · rfl
  rw [e, hb]; rfl

theorem roundtrip (v : Int) (r : Nat) (h2 : 2 ≤ r) (h36 : r ≤ 36) :
    LB.fromStrRadix (toStrRadix v r) r = some (LB.ofInt v) := by
  have hval := natDigits_val r h2 v.natAbs
  have hlt := natDigits_lt r h2 v.natAbs
  have hne := natDigits_ne_nil r v.natAbs
  have hlt36 : ∀ d ∈ natDigits r v.natAbs, d < 36 := fun d hd => by have := hlt d hd; omega
  have hnu := no_underscore _ hlt36
  unfold toStrRadix natToStr LB.fromStrRadix
  by_cases hv : v < 0
  · rw [if_pos hv, List.singleton_append]
    have hl := loop_neg r (by omega) h36 _ hlt 0 (by decide)
    rw [hval] at hl
    have hp : parseI128 ('-' :: (natDigits r v.natAbs).map digitChar) r =
        i128Loop true r ((natDigits r v.natAbs).map digitChar) 0 := by
      unfold parseI128
      simp only [or_true, if_true]
      rw [if_neg (by simpa using hne)]; rfl
    rw [hp]
    have e0 : (0 : Int) = -((0 : Nat) : Int) := rfl
    rw [e0]
    by_cases hr : I128_MIN ≤ -((v.natAbs : Nat) : Int)
    · rw [hl.1 hr]; simp only []; congr 2; omega
    · rw [hl.2 (by omega)]; simp only []
      have hc : ('-' :: (natDigits r v.natAbs).map digitChar).contains '_' = false := by
        rw [List.contains_cons, hnu]; decide
      rw [hc, parseBig_neg r h36 _ hne hlt, hval]
      simp only [Bool.false_eq_true, if_false, Option.map_some]; congr 2; omega
  · rw [if_neg hv, List.nil_append]
    have hl := loop_pos r (by omega) h36 _ hlt 0 (by decide)
    rw [hval] at hl
    have hp : parseI128 ((natDigits r v.natAbs).map digitChar) r =
        i128Loop false r ((natDigits r v.natAbs).map digitChar) 0 := by
      obtain ⟨d, ds', hds⟩ := List.exists_cons_of_ne_nil hne
      have hpl := digitChar_plain d (hlt36 d (by rw [hds]; exact List.mem_cons_self))
      rw [hds, List.map_cons]
      unfold parseI128
      simp only [hpl.1, hpl.2.1, or_self, if_false]
    rw [hp]
    have e0 : (0 : Int) = ((0 : Nat) : Int) := rfl
    rw [e0]
    by_cases hr : ((v.natAbs : Nat) : Int) ≤ I128_MAX
    · rw [hl.1 hr]; simp only []; congr 2; omega
    · rw [hl.2 (by omega)]; simp only []
      rw [hnu, parseBig_pos r h36 _ hne hlt, hval]
      simp only [Bool.false_eq_true, if_false, Option.map_some]; congr 2; omega

end XrayModel.Text
