/- helper lemmas for C05 (overload resolution) -/
import XrayModel.Overload
import XrayProofs.Types
import Mathlib.Tactic.Tauto
namespace XrayModel

/-- no candidate that matches carries `short_circuit_overloads` -/
def NoSC (cs : List Cand) (args : List Ty) : Prop := ∀ c ∈ cs, c.matches args = true → c.spec.shortCircuit = false

def inBucket (isUnk : Bool) (args : List Ty) (k : Nat) (c : Cand) : Bool :=
  c.matches args && (c.bucket isUnk == k)

theorem bucket_cases (c : Cand) (u : Bool) : c.bucket u = 0 ∨ c.bucket u = 1 ∨ c.bucket u = 2 := by
  unfold Cand.bucket
  cases c.kind with
  | dynamic => simp
  | static => by_cases h : (c.spec.isGeneric != u) = true <;> simp [h]

/-- without a matching short-circuit candidate the loop is three filters followed by the decision -/
theorem resolveLoop_eq_filter (u : Bool) (args : List Ty) (cs e g d : List Cand) (h : NoSC cs args) :
    resolveLoop u args cs e g d =
      decide3 u (e ++ cs.filter (inBucket u args 0)) (g ++ cs.filter (inBucket u args 1))
        (d ++ cs.filter (inBucket u args 2)) := by
  induction cs generalizing e g d with
  | nil => simp [resolveLoop]
  | cons c cs ih =>
    have hcs : NoSC cs args := fun x hx => h x (List.mem_cons_of_mem _ hx)
    simp only [resolveLoop]
    by_cases hm : c.matches args = true
    · have hsc := h c (List.mem_cons_self) hm
      simp only [hm, hsc, if_true, Bool.false_eq_true, if_false]
      rcases bucket_cases c u with hb | hb | hb
      · rw [hb]; simp only []; rw [ih _ _ _ hcs]
        simp [List.filter_cons, inBucket, hm, hb]
      · rw [hb]; simp only []; rw [ih _ _ _ hcs]
        simp [List.filter_cons, inBucket, hm, hb]
      · rw [hb]; simp only []; rw [ih _ _ _ hcs]
        simp [List.filter_cons, inBucket, hm, hb]
    · simp only [hm, Bool.false_eq_true, if_false]
      rw [ih _ _ _ hcs]
      simp [List.filter_cons, inBucket, hm]

theorem resolve_eq_filter (cs : List Cand) (args : List Ty) (h : NoSC cs args) :
    resolve cs args =
      decide3 (anyUnknown args) (cs.filter (inBucket (anyUnknown args) args 0))
        (cs.filter (inBucket (anyUnknown args) args 1)) (cs.filter (inBucket (anyUnknown args) args 2)) := by
  unfold resolve
  rw [resolveLoop_eq_filter _ _ _ _ _ _ h]; simp

/-- a permuted list is empty / the same singleton / has the same length ≥ 2 -/
theorem perm_shape {l l' : List Cand} (h : l.Perm l') :
    (l = [] ∧ l' = []) ∨ (∃ c, l = [c] ∧ l' = [c]) ∨ (∃ a b t a' b' t', l = a :: b :: t ∧ l' = a' :: b' :: t' ∧ l.length = l'.length) := by
  have hl := h.length_eq
  match l, l', h, hl with
  | [], [], _, _ => exact .inl ⟨rfl, rfl⟩
  | [], _ :: _, _, hl => simp at hl
  | _ :: _, [], _, hl => simp at hl
  | [a], [b], h, _ =>
    have := List.perm_singleton.mp h
    exact .inr (.inl ⟨b, this, rfl⟩)
  | [a], _ :: _ :: _, _, hl => simp at hl
  | _ :: _ :: _, [b], _, hl => simp at hl
  | a :: b :: t, a' :: b' :: t', _, hl => exact .inr (.inr ⟨a, b, t, a', b', t', rfl, rfl, hl⟩)

theorem decide3_perm (u : Bool) {e e' g g' d d' : List Cand} (he : e.Perm e') (hg : g.Perm g') (hd : d.Perm d') :
    decide3 u e g d = decide3 u e' g' d' := by
  rcases perm_shape he with ⟨rfl, rfl⟩ | ⟨c, rfl, rfl⟩ | ⟨a, b, t, a', b', t', rfl, rfl, hl⟩
  · rcases perm_shape hg with ⟨rfl, rfl⟩ | ⟨c, rfl, rfl⟩ | ⟨a, b, t, a', b', t', rfl, rfl, hl⟩
    · rcases perm_shape hd with ⟨rfl, rfl⟩ | ⟨c, rfl, rfl⟩ | ⟨a, b, t, a', b', t', rfl, rfl, hl⟩
      · rfl
      · rfl
      · simp only [decide3, hl]
    · rfl
    · simp only [decide3, hl]
  · rfl
  · simp only [decide3, hl]

theorem decide3_noOverload (u : Bool) (e g d : List Cand) (h : decide3 u e g d = .noOverload) :
    e = [] ∧ g = [] ∧ d = [] := by
  match e, g, d, h with
  | [], [], [], _ => exact ⟨rfl, rfl, rfl⟩
  | [], [], [_], h => simp [decide3] at h
  | [], [], _ :: _ :: _, h => simp [decide3] at h
  | [], [_], _, h => simp [decide3] at h
  | [], _ :: _ :: _, _, h => simp [decide3] at h
  | [_], _, _, h => simp [decide3] at h
  | _ :: _ :: _, _, _, h => simp [decide3] at h

theorem noSC_perm {cs cs' : List Cand} {args : List Ty} (hp : cs.Perm cs') (h : NoSC cs args) : NoSC cs' args :=
  fun c hc => h c (hp.symm.subset hc)

/-- a candidate that does not match the arguments is invisible to the loop, wherever it stands -/
theorem resolveLoop_skip (u : Bool) (args : List Ty) (c : Cand) (hc : c.matches args = false)
    (l1 l2 e g d : List Cand) :
    resolveLoop u args (l1 ++ c :: l2) e g d = resolveLoop u args (l1 ++ l2) e g d := by
  induction l1 generalizing e g d with
  | nil => simp [resolveLoop, hc]
  | cons x l1 ih =>
    simp only [List.cons_append, resolveLoop]
    split
    · split
      · rfl
      · split <;> exact ih _ _ _
    · exact ih _ _ _

/-- the loop only ever answers with a candidate of the list (or of the accumulators) that matches -/
theorem resolveLoop_ok (u : Bool) (args : List Ty) (cs e g d : List Cand) (i : Nat)
    (hacc : ∀ c, c ∈ e ∨ c ∈ g ∨ c ∈ d → c.matches args = true)
    (h : resolveLoop u args cs e g d = .ok i) :
    ∃ c, (c ∈ cs ∨ c ∈ e ∨ c ∈ g ∨ c ∈ d) ∧ c.id = i ∧ c.matches args = true := by
  induction cs generalizing e g d with
  | nil =>
    simp only [resolveLoop, decide3] at h
    split at h
    · cases h; exact ⟨_, .inr (.inl (by simp)), rfl, hacc _ (.inl (by simp))⟩
    · cases h
    · split at h
      · cases h; exact ⟨_, .inr (.inr (.inl (by simp))), rfl, hacc _ (.inr (.inl (by simp)))⟩
      · cases h
      · split at h
        · cases h; exact ⟨_, .inr (.inr (.inr (by simp))), rfl, hacc _ (.inr (.inr (by simp)))⟩
        · cases h
        · cases h
  | cons c cs ih =>
    simp only [resolveLoop] at h
    split at h
    · rename_i hm
      split at h
      · cases h; exact ⟨c, .inl (by simp), rfl, hm⟩
      · have step : ∀ e' g' d', (∀ x, x ∈ e' ∨ x ∈ g' ∨ x ∈ d' → x ∈ e ∨ x ∈ g ∨ x ∈ d ∨ x = c) →
            resolveLoop u args cs e' g' d' = .ok i →
            ∃ c', (c' ∈ c :: cs ∨ c' ∈ e ∨ c' ∈ g ∨ c' ∈ d) ∧ c'.id = i ∧ c'.matches args = true := by
          intro e' g' d' hsub h'
          have hacc' : ∀ x, x ∈ e' ∨ x ∈ g' ∨ x ∈ d' → x.matches args = true := by
            intro x hx
            rcases hsub x hx with h1 | h1 | h1 | h1
            · exact hacc x (.inl h1)
            · exact hacc x (.inr (.inl h1))
            · exact hacc x (.inr (.inr h1))
            · subst h1; exact hm
          obtain ⟨c', hc', hid, hmt⟩ := ih e' g' d' hacc' h'
          refine ⟨c', ?_, hid, hmt⟩
          rcases hc' with h1 | h1
          · exact .inl (List.mem_cons_of_mem _ h1)
          · rcases hsub c' h1 with h2 | h2 | h2 | h2
            · exact .inr (.inl h2)
            · exact .inr (.inr (.inl h2))
            · exact .inr (.inr (.inr h2))
            · subst h2; exact .inl (by simp)
        split at h
        · apply step _ _ _ _ h
          intro x hx; simp only [List.mem_append, List.mem_singleton] at hx; tauto
        · apply step _ _ _ _ h
          intro x hx; simp only [List.mem_append, List.mem_singleton] at hx; tauto
        · apply step _ _ _ _ h
          intro x hx; simp only [List.mem_append, List.mem_singleton] at hx; tauto
    · obtain ⟨c', hc', hid, hmt⟩ := ih e g d hacc h
      refine ⟨c', ?_, hid, hmt⟩
      rcases hc' with h1 | h1
      · exact .inl (List.mem_cons_of_mem _ h1)
      · exact .inr h1

/-! ## renaming of generic parameters -/
set_option maxHeartbeats 1600000


/-- renaming of the keys of a binding -/
def renB (σ : String → String) (b : Bnd) : Bnd := b.map fun e => (σ e.1, e.2)

theorem get_renB (σ : String → String) (hσ : Function.Injective σ) (b : Bnd) (k : String) :
    Bnd.get (renB σ b) (σ k) = Bnd.get b k := by
  induction b with
  | nil => rfl
  | cons e rest ih =>
    obtain ⟨k', v⟩ := e
    simp only [renB, List.map_cons, Bnd.get] at ih ⊢
    by_cases h : k' = k
    · subst h; simp
    · have : ¬ σ k' = σ k := fun e => h (hσ e)
      simp only [h, this, if_false]; exact ih

theorem insert_renB (σ : String → String) (hσ : Function.Injective σ) (b : Bnd) (k : String) (v : Ty) :
    Bnd.insert (renB σ b) (σ k) v = renB σ (Bnd.insert b k v) := by
  induction b with
  | nil => rfl
  | cons e rest ih =>
    obtain ⟨k', v'⟩ := e
    simp only [renB, List.map_cons, Bnd.insert] at ih ⊢
    by_cases h : k' = k
    · subst h; simp
    · have : ¬ σ k' = σ k := fun e => h (hσ e)
      simp only [h, this, if_false, List.map_cons, ih]

theorem mix_renB (σ : String → String) (hσ : Function.Injective σ) (self other : Bnd) :
    mix (renB σ self) (renB σ other) = (mix self other).map (renB σ) := by
  induction other generalizing self with
  | nil => simp [renB, mix]
  | cons e rest ih =>
    obtain ⟨k, v⟩ := e
    have ih' := fun s => ih s
    simp only [renB, List.map_cons] at ih' ⊢
    simp only [mix]
    have hg := get_renB σ hσ self k
    simp only [renB] at hg
    rw [hg]
    cases Bnd.get self k with
    | some ex =>
      simp only
      cases commonType ex v with
      | none => simp
      | some c =>
        simp only
        have := insert_renB σ hσ self k c
        simp only [renB] at this
        rw [this]; exact ih' _
    | none =>
      simp only
      have := insert_renB σ hσ self k v
      simp only [renB] at this
      rw [this]; exact ih' _

theorem renameList_length (σ : String → String) : (ts : List Ty) → (renameList σ ts).length = ts.length
  | [] => rfl
  | _ :: ts => by simp [renameList, renameList_length σ ts]

theorem renB_nil (σ : String → String) : renB σ [] = [] := rfl

/-- the two last steps of the function-type arms commute with the renaming -/
theorem tail_renB (σ : String → String) (hσ : Function.Injective σ) (z o : Option Bnd) :
    (match z.map (renB σ) with
      | none => none
      | some acc => match o.map (renB σ) with
        | none => none
        | some b => mix acc b) =
    (match z with
      | none => none
      | some acc => match o with
        | none => none
        | some b => mix acc b).map (renB σ) := by
  cases z with
  | none => rfl
  | some acc =>
    cases o with
    | none => rfl
    | some b => simp [mix_renB σ hσ]

mutual
theorem bindIn_rename (σ : String → String) (hσ : Function.Injective σ) : (r s : Ty) → ground s = true →
    bindIn (renameTy σ r) s = (bindIn r s).map (renB σ)
  | .bool, s, _ => by cases s <;> simp [bindIn, renameTy, renB]
  | .int, s, _ => by cases s <;> simp [bindIn, renameTy, renB]
  | .float, s, _ => by cases s <;> simp [bindIn, renameTy, renB]
  | .str, s, _ => by cases s <;> simp [bindIn, renameTy, renB]
  | .unknown, s, _ => by cases s <;> simp [bindIn, renameTy, renB]
  | .generic a, s, hg => by
    cases s with
    | generic x => simp [ground] at hg
    | _ => simp [bindIn, renameTy, renB]
  | .func g ps n r, s, hg => by
    cases s with
    | func _ _ _ _ => simp [ground] at hg
    | _ => simp [bindIn, renameTy, renB]
  | .tuple rs, s, hg => by
    cases s with
    | tuple ss =>
      simp only [ground] at hg
      simp only [renameTy, bindIn, renameList_length]
      split
      · rfl
      · have := bindZip_rename σ hσ rs ss [] hg
        rw [renB_nil] at this; exact this
    | _ => simp [bindIn, renameTy, renB]
  | .native n rs, s, hg => by
    cases s with
    | native m ss =>
      simp only [ground] at hg
      simp only [renameTy, bindIn]
      split
      · rfl
      · have := bindZip_rename σ hσ rs ss [] hg
        rw [renB_nil] at this; exact this
    | _ => simp [bindIn, renameTy, renB]
  | .compound k n rs, s, hg => by
    cases s with
    | compound k' m ss =>
      simp only [ground] at hg
      simp only [renameTy, bindIn]
      split
      · rfl
      · exact bindZipRev_rename σ hσ rs ss hg
    | _ => simp [bindIn, renameTy, renB]
  | .callable ps r, s, hg => by
    cases s with
    | callable ps' r' =>
      simp only [ground, Bool.and_eq_true] at hg
      simp only [renameTy, bindIn, renameList_length]
      split
      · rfl
      · have h1 := bindZip_rename σ hσ ps ps' [] hg.1
        rw [renB_nil] at h1
        rw [h1, bindIn_rename σ hσ r r' hg.2]
        exact tail_renB σ hσ _ _
    | func _ _ _ _ => simp [ground] at hg
    | _ => simp [bindIn, renameTy, renB]
theorem bindZip_rename (σ : String → String) (hσ : Function.Injective σ) : (rs ss : List Ty) → (acc : Bnd) →
    groundList ss = true → bindZip (renameList σ rs) ss (renB σ acc) = (bindZip rs ss acc).map (renB σ)
  | [], ss, acc, _ => by simp [renameList, bindZip]
  | r :: rs, [], acc, _ => by simp [renameList, bindZip]
  | r :: rs, s :: ss, acc, hg => by
    simp only [groundList, Bool.and_eq_true] at hg
    simp only [renameList, bindZip]
    rw [bindIn_rename σ hσ r s hg.1]
    cases bindIn r s with
    | none => rfl
    | some sub =>
      simp only [Option.map_some]
      rw [mix_renB σ hσ]
      cases mix acc sub with
      | none => rfl
      | some acc' => simp only [Option.map_some]; exact bindZip_rename σ hσ rs ss acc' hg.2
theorem bindZipRev_rename (σ : String → String) (hσ : Function.Injective σ) : (rs ss : List Ty) →
    groundList ss = true → bindZipRev (renameList σ rs) ss = (bindZipRev rs ss).map (renB σ)
  | [], ss, _ => by simp [renameList, bindZipRev, renB]
  | r :: rs, [], _ => by simp [renameList, bindZipRev, renB]
  | r :: rs, s :: ss, hg => by
    simp only [groundList, Bool.and_eq_true] at hg
    simp only [renameList, bindZipRev]
    rw [bindZipRev_rename σ hσ rs ss hg.2, bindIn_rename σ hσ r s hg.1]
    cases bindZipRev rs ss with
    | none => rfl
    | some acc =>
      cases bindIn r s with
      | none => rfl
      | some sub => simp only [Option.map_some]; exact mix_renB σ hσ acc sub
end

theorem specBind_rename (σ : String → String) (hσ : Function.Injective σ) (f : FuncSpec) (args : List Ty)
    (hg : groundList args = true) : specBind (f.rename σ) args = (specBind f args).map (renB σ) := by
  obtain ⟨gens, ps, nreq, ret, sc⟩ := f
  have := bindZip_rename σ hσ ps args [] hg
  rw [renB_nil] at this
  show (if (decide (args.length < nreq) || decide (args.length > (renameList σ ps).length)) = true then none
      else bindZip (renameList σ ps) args []) =
    (if (decide (args.length < nreq) || decide (args.length > ps.length)) = true then none else bindZip ps args []).map (renB σ)
  rw [renameList_length, this]
  split <;> rfl

theorem matches_rename (σ : String → String) (hσ : Function.Injective σ) (c : Cand) (args : List Ty)
    (hg : groundList args = true) : (c.rename σ).matches args = c.matches args := by
  show (specBind (c.spec.rename σ) args).isSome = (specBind c.spec args).isSome
  rw [specBind_rename σ hσ c.spec args hg]
  cases specBind c.spec args <;> rfl

theorem bucket_rename (σ : String → String) (c : Cand) (u : Bool) : (c.rename σ).bucket u = c.bucket u := by
  obtain ⟨id, ⟨gens, ps, nreq, ret, sc⟩, kind, height, pending⟩ := c
  cases kind with
  | dynamic => rfl
  | static => cases gens <;> rfl

theorem decide3_rename (σ : String → String) (u : Bool) (e g d : List Cand) :
    decide3 u (e.map (Cand.rename σ)) (g.map (Cand.rename σ)) (d.map (Cand.rename σ)) = decide3 u e g d := by
  match e, g, d with
  | [_], _, _ => rfl
  | _ :: _ :: _, _, _ => simp [decide3]
  | [], [_], _ => rfl
  | [], _ :: _ :: _, _ => simp [decide3]
  | [], [], [_] => rfl
  | [], [], _ :: _ :: _ => simp [decide3]
  | [], [], [] => rfl

theorem resolveLoop_rename (σ : String → String) (hσ : Function.Injective σ) (u : Bool) (args : List Ty)
    (hg : groundList args = true) (cs e g d : List Cand) :
    resolveLoop u args (cs.map (Cand.rename σ)) (e.map (Cand.rename σ)) (g.map (Cand.rename σ)) (d.map (Cand.rename σ)) =
      resolveLoop u args cs e g d := by
  induction cs generalizing e g d with
  | nil => simp only [List.map_nil, resolveLoop]; exact decide3_rename σ u e g d
  | cons c cs ih =>
    simp only [List.map_cons, resolveLoop, matches_rename σ hσ c args hg, bucket_rename]
    have hsc : (c.rename σ).spec.shortCircuit = c.spec.shortCircuit := rfl
    have hid : (c.rename σ).id = c.id := rfl
    rw [hsc, hid]
    split
    · split
      · rfl
      · split
        · have := ih (e ++ [c]) g d; simpa using this
        · have := ih e (g ++ [c]) d; simpa using this
        · have := ih e g (d ++ [c]); simpa using this
    · exact ih e g d


/-! ## candidate collection across scopes -/
/-- when no visible overload is a pending forward declaration, the visible set is simply every overload registered in
the enclosing scopes, innermost first -/
theorem getItem_flat (levels : List ScopeLevel) (h : ∀ l ∈ levels, ∀ c ∈ l.funcs, c.pending = false) :
    (getItem levels).getD [] = levels.flatMap (·.funcs) := by
  induction levels with
  | nil => rfl
  | cons l parents ih =>
    have ih' := ih (fun l' hl' => h l' (List.mem_cons_of_mem _ hl'))
    simp only [getItem, List.flatMap_cons]
    cases hf : l.funcs with
    | nil => simpa using ih'
    | cons c cs =>
      simp only
      cases hp : getItem parents with
      | none =>
        rw [hp] at ih'; simp only [Option.getD_none] at ih'
        simp [← ih']
      | some ps =>
        rw [hp] at ih'; simp only [Option.getD_some] at ih'
        have hnp : ∀ x ∈ ps, x.pending = false := by
          intro x hx
          rw [ih'] at hx
          obtain ⟨l', hl', hx'⟩ := List.mem_flatMap.mp hx
          exact h l' (List.mem_cons_of_mem _ hl') x hx'
        have hfilt : ∀ rt h, ps.filter (fun c => !(skipOwnForward rt h c)) = ps := by
          intro rt h
          rw [List.filter_eq_self]
          intro x hx
          simp only [skipOwnForward, hnp x hx, Bool.false_and, Bool.and_false]
          cases x.kind <;> rfl
        cases l.recourse with
        | none => simp [ih']
        | some rt => simp only [Option.getD_some]; rw [hfilt rt, ih']

end XrayModel
