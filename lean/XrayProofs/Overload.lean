/- helper lemmas for C05 (overload resolution) -/
import XrayModel.Overload
import Mathlib.Tactic.Tauto
namespace XrayModel

/-- no candidate that matches carries `short_circuit_overloads` -/
def NoSC (cs : List Cand) (args : List Ty) : Prop := ∀ c ∈ cs, c.matches args = true → c.spec.shortCircuit = false

def inBucket (isUnk : Bool) (args : List Ty) (k : Nat) (c : Cand) : Bool :=
  c.matches args && (c.bucket isUnk == k)

theorem bucket_cases (c : Cand) (u : Bool) : c.bucket u = 0 ∨ c.bucket u = 1 ∨ c.bucket u = 2 := by
  unfold Cand.bucket
  cases c.kind with
  | dynamic => simp
  | static => by_cases h : (c.spec.isGeneric != u) = true <;> simp [h]

/-- without a matching short-circuit candidate the loop is three filters followed by the decision -/
theorem resolveLoop_eq_filter (u : Bool) (args : List Ty) (cs e g d : List Cand) (h : NoSC cs args) :
    resolveLoop u args cs e g d =
      decide3 u (e ++ cs.filter (inBucket u args 0)) (g ++ cs.filter (inBucket u args 1))
        (d ++ cs.filter (inBucket u args 2)) := by
  induction cs generalizing e g d with
  | nil => simp [resolveLoop]
  | cons c cs ih =>
    have hcs : NoSC cs args := fun x hx => h x (List.mem_cons_of_mem _ hx)
    simp only [resolveLoop]
    by_cases hm : c.matches args = true
    · have hsc := h c (List.mem_cons_self) hm
      simp only [hm, hsc, if_true, Bool.false_eq_true, if_false]
      rcases bucket_cases c u with hb | hb | hb
      · rw [hb]; simp only []; rw [ih _ _ _ hcs]
        simp [List.filter_cons, inBucket, hm, hb]
      · rw [hb]; simp only []; rw [ih _ _ _ hcs]
        simp [List.filter_cons, inBucket, hm, hb]
      · rw [hb]; simp only []; rw [ih _ _ _ hcs]
        simp [List.filter_cons, inBucket, hm, hb]
    · simp only [hm, Bool.false_eq_true, if_false]
      rw [ih _ _ _ hcs]
      simp [List.filter_cons, inBucket, hm]

theorem resolve_eq_filter (cs : List Cand) (args : List Ty) (h : NoSC cs args) :
    resolve cs args =
      decide3 (anyUnknown args) (cs.filter (inBucket (anyUnknown args) args 0))
        (cs.filter (inBucket (anyUnknown args) args 1)) (cs.filter (inBucket (anyUnknown args) args 2)) := by
  unfold resolve
  rw [resolveLoop_eq_filter _ _ _ _ _ _ h]; simp

/-- a permuted list is empty / the same singleton / has the same length ≥ 2 -/
theorem perm_shape {l l' : List Cand} (h : l.Perm l') :
    (l = [] ∧ l' = []) ∨ (∃ c, l = [c] ∧ l' = [c]) ∨ (∃ a b t a' b' t', l = a :: b :: t ∧ l' = a' :: b' :: t' ∧ l.length = l'.length) := by
  have hl := h.length_eq
  match l, l', h, hl with
  | [], [], _, _ => exact .inl ⟨rfl, rfl⟩
  | [], _ :: _, _, hl => simp at hl
  | _ :: _, [], _, hl => simp at hl
  | [a], [b], h, _ =>
    have := List.perm_singleton.mp h
    exact .inr (.inl ⟨b, this, rfl⟩)
  | [a], _ :: _ :: _, _, hl => simp at hl
  | _ :: _ :: _, [b], _, hl => simp at hl
  | a :: b :: t, a' :: b' :: t', _, hl => exact .inr (.inr ⟨a, b, t, a', b', t', rfl, rfl, hl⟩)

theorem decide3_perm (u : Bool) {e e' g g' d d' : List Cand} (he : e.Perm e') (hg : g.Perm g') (hd : d.Perm d') :
    decide3 u e g d = decide3 u e' g' d' := by
  rcases perm_shape he with ⟨rfl, rfl⟩ | ⟨c, rfl, rfl⟩ | ⟨a, b, t, a', b', t', rfl, rfl, hl⟩
  · rcases perm_shape hg with ⟨rfl, rfl⟩ | ⟨c, rfl, rfl⟩ | ⟨a, b, t, a', b', t', rfl, rfl, hl⟩
    · rcases perm_shape hd with ⟨rfl, rfl⟩ | ⟨c, rfl, rfl⟩ | ⟨a, b, t, a', b', t', rfl, rfl, hl⟩
      · rfl
      · rfl
      · simp only [decide3, hl]
    · rfl
    · simp only [decide3, hl]
  · rfl
  · simp only [decide3, hl]

theorem decide3_noOverload (u : Bool) (e g d : List Cand) (h : decide3 u e g d = .noOverload) :
    e = [] ∧ g = [] ∧ d = [] := by
  match e, g, d, h with
  | [], [], [], _ => exact ⟨rfl, rfl, rfl⟩
  | [], [], [_], h => simp [decide3] at h
  | [], [], _ :: _ :: _, h => simp [decide3] at h
  | [], [_], _, h => simp [decide3] at h
  | [], _ :: _ :: _, _, h => simp [decide3] at h
  | [_], _, _, h => simp [decide3] at h
  | _ :: _ :: _, _, _, h => simp [decide3] at h

theorem noSC_perm {cs cs' : List Cand} {args : List Ty} (hp : cs.Perm cs') (h : NoSC cs args) : NoSC cs' args :=
  fun c hc => h c (hp.symm.subset hc)

/-- a candidate that does not match the arguments is invisible to the loop, wherever it stands -/
theorem resolveLoop_skip (u : Bool) (args : List Ty) (c : Cand) (hc : c.matches args = false)
    (l1 l2 e g d : List Cand) :
    resolveLoop u args (l1 ++ c :: l2) e g d = resolveLoop u args (l1 ++ l2) e g d := by
  induction l1 generalizing e g d with
  | nil => simp [resolveLoop, hc]
  | cons x l1 ih =>
    simp only [List.cons_append, resolveLoop]
    split
    · split
      · rfl
      · split <;> exact ih _ _ _
    · exact ih _ _ _

/-- the loop only ever answers with a candidate of the list (or of the accumulators) that matches -/
theorem resolveLoop_ok (u : Bool) (args : List Ty) (cs e g d : List Cand) (i : Nat)
    (hacc : ∀ c, c ∈ e ∨ c ∈ g ∨ c ∈ d → c.matches args = true)
    (h : resolveLoop u args cs e g d = .ok i) :
    ∃ c, (c ∈ cs ∨ c ∈ e ∨ c ∈ g ∨ c ∈ d) ∧ c.id = i ∧ c.matches args = true := by
  induction cs generalizing e g d with
  | nil =>
    simp only [resolveLoop, decide3] at h
    split at h
    · cases h; exact ⟨_, .inr (.inl (by simp)), rfl, hacc _ (.inl (by simp))⟩
    · cases h
    · split at h
      · cases h; exact ⟨_, .inr (.inr (.inl (by simp))), rfl, hacc _ (.inr (.inl (by simp)))⟩
      · cases h
      · split at h
        · cases h; exact ⟨_, .inr (.inr (.inr (by simp))), rfl, hacc _ (.inr (.inr (by simp)))⟩
        · cases h
        · cases h
  | cons c cs ih =>
    simp only [resolveLoop] at h
    split at h
    · rename_i hm
      split at h
      · cases h; exact ⟨c, .inl (by simp), rfl, hm⟩
      · have step : ∀ e' g' d', (∀ x, x ∈ e' ∨ x ∈ g' ∨ x ∈ d' → x ∈ e ∨ x ∈ g ∨ x ∈ d ∨ x = c) →
            resolveLoop u args cs e' g' d' = .ok i →
            ∃ c', (c' ∈ c :: cs ∨ c' ∈ e ∨ c' ∈ g ∨ c' ∈ d) ∧ c'.id = i ∧ c'.matches args = true := by
          intro e' g' d' hsub h'
          have hacc' : ∀ x, x ∈ e' ∨ x ∈ g' ∨ x ∈ d' → x.matches args = true := by
            intro x hx
            rcases hsub x hx with h1 | h1 | h1 | h1
            · exact hacc x (.inl h1)
            · exact hacc x (.inr (.inl h1))
            · exact hacc x (.inr (.inr h1))
            · subst h1; exact hm
          obtain ⟨c', hc', hid, hmt⟩ := ih e' g' d' hacc' h'
          refine ⟨c', ?_, hid, hmt⟩
          rcases hc' with h1 | h1
          · exact .inl (List.mem_cons_of_mem _ h1)
          · rcases hsub c' h1 with h2 | h2 | h2 | h2
            · exact .inr (.inl h2)
            · exact .inr (.inr (.inl h2))
            · exact .inr (.inr (.inr h2))
            · subst h2; exact .inl (by simp)
        split at h
        · apply step _ _ _ _ h
          intro x hx; simp only [List.mem_append, List.mem_singleton] at hx; tauto
        · apply step _ _ _ _ h
          intro x hx; simp only [List.mem_append, List.mem_singleton] at hx; tauto
        · apply step _ _ _ _ h
          intro x hx; simp only [List.mem_append, List.mem_singleton] at hx; tauto
    · obtain ⟨c', hc', hid, hmt⟩ := ih e g d hacc h
      refine ⟨c', ?_, hid, hmt⟩
      rcases hc' with h1 | h1
      · exact .inl (List.mem_cons_of_mem _ h1)
      · exact .inr h1

end XrayModel
