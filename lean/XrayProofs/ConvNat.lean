/-
C20 helper: a `Nat` mirror of the generated `date` / `julian_day` (Generated/StdInt.lean) used only to make the
finite base period checkable by kernel evaluation (`Nat` arithmetic on literals is evaluated with GMP by the
kernel, `Int` arithmetic is not).  `XrayProofs/ConvDate.lean` proves that the generated `Int` definitions agree
with this mirror on the base period (`date_ofNat`, `jd_ofNat`); if the source of `date`/`julian_day` changes,
those bridging lemmas stop checking.  This file deliberately imports nothing (so the chunks are not rebuilt when
the generated file changes for an unrelated reason).
-/
namespace XrayModel.ConvNat

structure DateN where
  year : Nat
  month : Nat
  day : Nat

/-- mirror of `date` for `jd ≥ 1721120` (0000-03-01), written without truncated subtraction inside divisions -/
def dateN (jd : Nat) : DateN :=
  let f := jd + 1363 + ((4 * jd + 274277) / 146097 * 3) / 4
  let e := 4 * f + 3
  let g := (e % 1461) / 4
  let h := 5 * g + 2
  let days := (h % 153) / 5 + 1
  let months := ((h / 153) + 2) % 12 + 1
  let years := e / 1461 + (14 - months) / 12 - 4716
  ⟨years, months, days⟩

/-- mirror of `julian_day` for years ≥ 1 -/
def jdN (d : DateN) : Nat :=
  let a := (14 - d.month) / 12
  let y := d.year + 4800 - a
  let m := d.month + 12 * a - 3
  d.day + (153 * m + 2) / 5 + y * 365 + y / 4 - y / 100 + y / 400 - 32045

def isLeapN (y : Nat) : Bool := Nat.beq (y % 4) 0 && (!(Nat.beq (y % 100) 0) || Nat.beq (y % 400) 0)

def dimN (y m : Nat) : Nat :=
  bif Nat.beq m 2 then (bif isLeapN y then 29 else 28)
  else bif Nat.beq m 4 || Nat.beq m 6 || Nat.beq m 9 || Nat.beq m 11 then 30 else 31

def validN (d : DateN) : Bool :=
  Nat.ble 1 d.month && Nat.ble d.month 12 && Nat.ble 1 d.day && Nat.ble d.day (dimN d.year d.month)

def nextN (d : DateN) : DateN :=
  bif Nat.blt d.day (dimN d.year d.month) then ⟨d.year, d.month, d.day + 1⟩
  else bif Nat.blt d.month 12 then ⟨d.year, d.month + 1, 1⟩
  else ⟨d.year + 1, 1, 1⟩

def beqD (a b : DateN) : Bool := Nat.beq a.year b.year && Nat.beq a.month b.month && Nat.beq a.day b.day

/-- what is checked for every day `r` of the base period -/
def okN (r : Nat) : Bool :=
  let d := dateN r
  Nat.beq (jdN d) r && validN d && beqD (dateN (r + 1)) (nextN d)

def allFromN (p : Nat → Bool) (lo : Nat) : Nat → Bool
  | 0 => true
  | n + 1 => p lo && allFromN p (lo + 1) n

theorem allFromN_spec (p : Nat → Bool) : ∀ (n lo : Nat), allFromN p lo n = true →
    ∀ i, lo ≤ i → i < lo + n → p i = true := by
  intro n
  induction n with
  | zero => intro lo _ i h1 h2; omega
  | succ n ih =>
    intro lo h i h1 h2
    simp only [allFromN, Bool.and_eq_true] at h
    by_cases hi : i = lo
    · subst hi; exact h.1
    · exact ih (lo + 1) h.2 i (by omega) (by omega)

/-- what is checked for every valid calendar date of a base year -/
def okDay (y m d : Nat) : Bool := beqD (dateN (jdN ⟨y, m, d⟩)) ⟨y, m, d⟩

def okMonth (y m : Nat) : Bool := allFromN (okDay y m) 1 (dimN y m)

def okYear (y : Nat) : Bool := allFromN (okMonth y) 1 12

theorem okYear_spec (y m d : Nat) (h : okYear y = true) (hm1 : 1 ≤ m) (hm2 : m ≤ 12) (hd1 : 1 ≤ d) (hd2 : d ≤ dimN y m) :
    okDay y m d = true := by
  have h1 := allFromN_spec (okMonth y) 12 1 h m hm1 (by omega)
  exact allFromN_spec (okDay y m) (dimN y m) 1 h1 d hd1 (by omega)

theorem nbeq (a b : Nat) : Nat.beq a b = true ↔ a = b :=
  ⟨Nat.eq_of_beq_eq_true, fun h => by subst h; exact Nat.beq_refl a⟩

theorem nbeq_false (a b : Nat) : Nat.beq a b = false ↔ a ≠ b := by
  cases h : Nat.beq a b with
  | false => simp only [true_iff]; intro c; rw [(nbeq a b).mpr c] at h; cases h
  | true => simp only [Bool.true_eq_false, false_iff, ne_eq, Decidable.not_not]; exact (nbeq a b).mp h

theorem beqD_eq (a b : DateN) (h : beqD a b = true) : a.year = b.year ∧ a.month = b.month ∧ a.day = b.day := by
  simp only [beqD, Bool.and_eq_true, nbeq] at h
  exact ⟨h.1.1, h.1.2, h.2⟩

/-- first day of the base period: 0000-03-01 -/
def baseJD : Nat := 1721120

end XrayModel.ConvNat
