/-
C11 — helper lemmas: the invariant every piece of evaluation keeps on the log.
-/
import XrayModel.Perm
namespace XrayModel.Perm

def isFail : Entry → Bool
  | .guard _ _ false => true
  | _ => false

/-- no failed guard -/
def clean (n : Log) : Prop := ∀ e ∈ n, isFail e = false

/-- every effect happened at a site of the table, after a passed guard of that site that covers it -/
def EffOK (T : List Site) (P : PermissionSet) (n : Log) : Prop :=
  ∀ s k, Entry.effect s k ∈ n →
    ∃ site p, T[s]? = some site ∧ p ∈ checksOf site.steps ∧ okPerm site.name p k = true ∧ P.get p = true

/-- a guard passes exactly when the permission set says so -/
def Truthful (P : PermissionSet) (n : Log) : Prop :=
  ∀ s p b, Entry.guard s p b ∈ n → b = P.get p

/-- either nothing failed and the result is not a violation, or the *last* entry is the one failed guard and the
    result is the violation naming its permission -/
def Shape (n : Log) (r : Res) : Prop :=
  (clean n ∧ r.isViol = false) ∨
  (∃ pre s p, n = pre ++ [Entry.guard s p false] ∧ clean pre ∧ r = .viol p.id)

def Inv (T : List Site) (P : PermissionSet) (l : Log) (out : Res × Log) : Prop :=
  ∃ n, out.2 = l ++ n ∧ EffOK T P n ∧ Truthful P n ∧ Shape n out.1

theorem clean_nil : clean [] := by intro e he; cases he

theorem clean_append {a b : Log} (ha : clean a) (hb : clean b) : clean (a ++ b) := by
  intro e he
  rcases List.mem_append.mp he with h | h
  · exact ha e h
  · exact hb e h

theorem Inv.refl {T P l r} (h : r.isViol = false) : Inv T P l (r, l) := by
  refine ⟨[], by simp, ?_, ?_, Or.inl ⟨clean_nil, h⟩⟩
  · intro s k hm; cases hm
  · intro s p b hm; cases hm

/-- sequencing: a first piece that did not end in a violation, followed by a second piece -/
theorem Inv.step {T P l r1 l1 out} (h1 : Inv T P l (r1, l1)) (hr : r1.isViol = false)
    (h2 : Inv T P l1 out) : Inv T P l out := by
  obtain ⟨n1, e1, eff1, tr1, sh1⟩ := h1
  obtain ⟨n2, e2, eff2, tr2, sh2⟩ := h2
  simp only at e1 sh1
  have c1 : clean n1 := by
    rcases sh1 with ⟨c, _⟩ | ⟨_, _, _, _, _, hv⟩
    · exact c
    · subst hv; simp [Res.isViol] at hr
  refine ⟨n1 ++ n2, by rw [e2, e1, List.append_assoc], ?_, ?_, ?_⟩
  · intro s k hm
    rcases List.mem_append.mp hm with h | h
    · exact eff1 s k h
    · exact eff2 s k h
  · intro s p b hm
    rcases List.mem_append.mp hm with h | h
    · exact tr1 s p b h
    · exact tr2 s p b h
  · rcases sh2 with ⟨c2, hv⟩ | ⟨pre, s, p, hn, cp, hv⟩
    · exact Or.inl ⟨clean_append c1 c2, hv⟩
    · exact Or.inr ⟨n1 ++ pre, s, p, by rw [hn, List.append_assoc], clean_append c1 cp, hv⟩

/-- appending one passed guard or one covered effect, then continuing -/
theorem Inv.push {T P l out} (e : Entry) (hc : isFail e = false)
    (heff : ∀ s k, e = Entry.effect s k →
      ∃ site p, T[s]? = some site ∧ p ∈ checksOf site.steps ∧ okPerm site.name p k = true ∧ P.get p = true)
    (htr : ∀ s p b, e = Entry.guard s p b → b = P.get p)
    (h2 : Inv T P (l ++ [e]) out) : Inv T P l out := by
  have h1 : Inv T P l (Res.val, l ++ [e]) := by
    refine ⟨[e], rfl, ?_, ?_, Or.inl ⟨?_, rfl⟩⟩
    · intro s k hm; exact heff s k (List.mem_singleton.mp hm).symm
    · intro s p b hm; exact htr s p b (List.mem_singleton.mp hm).symm
    · intro x hx; simp at hx; subst hx; exact hc
  exact Inv.step h1 rfl h2

def GoodEv (T : List Site) (P : PermissionSet) (ev : Expr → Log → Res × Log) : Prop :=
  ∀ e l, Inv T P l (ev e l)

theorem evalAll_inv {T P ev} (hev : GoodEv T P ev) : ∀ args l, Inv T P l (evalAll ev args l)
  | [], l => Inv.refl rfl
  | a :: r, l => by
    have ha := hev a l
    unfold evalAll
    rcases hres : ev a l with ⟨res, l'⟩
    rw [hres] at ha
    cases res with
    | viol v => exact ha
    | stuck => exact ha
    | val => exact Inv.step ha rfl (evalAll_inv hev r l')
    | err => exact Inv.step ha rfl (evalAll_inv hev r l')

theorem repeatN_inv {T P ev} (hev : GoodEv T P ev) (body : Expr) : ∀ n l, Inv T P l (repeatN ev body n l)
  | 0, l => Inv.refl rfl
  | n + 1, l => by
    have ha := hev body l
    unfold repeatN
    rcases hres : ev body l with ⟨res, l'⟩
    rw [hres] at ha
    cases res with
    | viol v => exact ha
    | stuck => exact ha
    | val => exact Inv.step ha rfl (repeatN_inv hev body n l')
    | err => exact Inv.step ha rfl (repeatN_inv hev body n l')

theorem checkPermission_none {P : PermissionSet} {p : Permission} (h : checkPermission P p = none) : P.get p = true := by
  unfold checkPermission at h
  by_cases hg : P.get p = true
  · exact hg
  · simp [hg] at h

theorem checkPermission_some {P : PermissionSet} {p : Permission} {id : String} (h : checkPermission P p = some id) :
    P.get p = false ∧ id = p.id := by
  unfold checkPermission at h
  by_cases hg : P.get p = true
  · simp [hg] at h
  · simp [hg] at h; exact ⟨by simpa using hg, h.symm⟩

theorem runSteps_inv {T P ev} (hev : GoodEv T P ev) (s : Nat) (site : Site) (hs : T[s]? = some site)
    (args : List Expr) :
    ∀ (steps : List Step) (held : List Permission) (l : Log),
      (∀ p, p ∈ held ∨ p ∈ checksOf steps → p ∈ checksOf site.steps) →
      (∀ p ∈ held, P.get p = true) →
      guardedSteps site.name held steps = true →
      Inv T P l (runSteps ev P s args steps l)
  | [], _, l, _, _, _ => Inv.refl rfl
  | .check p :: r, held, l, hsub, hheld, hg => by
    unfold runSteps
    cases hc : checkPermission P p with
    | none =>
      have hp := checkPermission_none hc
      refine Inv.push (Entry.guard s p true) rfl (by intro _ _ h; cases h)
        (by intro s' p' b h; cases h; exact hp.symm) ?_
      refine runSteps_inv hev s site hs args r (p :: held) _ ?_ ?_ (by simpa [guardedSteps] using hg)
      · intro q hq
        rcases hq with hq | hq
        · rcases List.mem_cons.mp hq with rfl | hq
          · exact hsub _ (Or.inr (by simp [checksOf]))
          · exact hsub q (Or.inl hq)
        · exact hsub q (Or.inr (by simp [checksOf, hq]))
      · intro q hq
        rcases List.mem_cons.mp hq with rfl | hq
        · exact hp
        · exact hheld q hq
    | some id =>
      obtain ⟨hp, rfl⟩ := checkPermission_some hc
      refine ⟨[Entry.guard s p false], rfl, by intro _ _ h; simp at h, ?_, Or.inr ⟨[], s, p, rfl, clean_nil, rfl⟩⟩
      intro s' p' b h
      simp at h
      obtain ⟨_, rfl, rfl⟩ := h
      exact hp.symm
  | .weakCheck c :: r, held, l, hsub, hheld, hg => by
    unfold runSteps
    exact runSteps_inv hev s site hs args r held l
      (by intro q hq; exact hsub q (by simpa [checksOf] using hq)) hheld (by simpa [guardedSteps] using hg)
  | .arg i raise :: r, held, l, hsub, hheld, hg => by
    have hrest : ∀ l', Inv T P l' (runSteps ev P s args r l') := fun l' =>
      runSteps_inv hev s site hs args r held l'
        (by intro q hq; exact hsub q (by simpa [checksOf] using hq)) hheld (by simpa [guardedSteps] using hg)
    unfold runSteps
    cases ha : args[i]? with
    | none => exact hrest l
    | some a =>
      dsimp only
      have hea := hev a l
      rcases hres : ev a l with ⟨res, l'⟩
      rw [hres] at hea
      cases res with
      | viol v => exact hea
      | stuck => exact hea
      | val => exact Inv.step hea rfl (hrest l')
      | err =>
        cases raise with
        | true => exact hea
        | false => exact Inv.step hea rfl (hrest l')
  | .effect k tok :: r, held, l, hsub, hheld, hg => by
    unfold runSteps
    simp only [guardedSteps, Bool.and_eq_true, List.any_eq_true] at hg
    obtain ⟨⟨p, hpm, hpk⟩, hg'⟩ := hg
    refine Inv.push (Entry.effect s k) rfl ?_ (by intro _ _ _ h; cases h) ?_
    · intro s' k' h
      cases h
      exact ⟨site, p, hs, hsub p (Or.inl hpm), hpk, hheld p hpm⟩
    · exact runSteps_inv hev s site hs args r held _
        (by intro q hq; exact hsub q (by simpa [checksOf] using hq)) hheld hg'

theorem siteGuarded_of_table {T : List Site} (hT : sitesGuarded T = true) {s : Nat} {site : Site}
    (hs : T[s]? = some site) : siteGuarded site = true := by
  unfold sitesGuarded at hT
  rw [List.all_eq_true] at hT
  exact hT site (List.mem_of_getElem? hs)

/-- the evaluator keeps the invariant, for every amount of fuel -/
theorem eval_inv {T : List Site} (hT : sitesGuarded T = true) (P : PermissionSet) :
    ∀ f, GoodEv T P (eval T P f)
  | 0 => fun e l => Inv.refl rfl
  | f + 1 => by
    have ih := eval_inv hT P f
    intro e l
    unfold eval
    cases e with
    | lit => exact Inv.refl rfl
    | bad => exact Inv.refl rfl
    | nat s args =>
      simp only
      cases hs : T[s]? with
      | none => exact Inv.refl rfl
      | some site =>
        exact runSteps_inv ih s site hs args site.steps [] l
          (by intro p hp; rcases hp with hp | hp; · cases hp
              · exact hp)
          (by intro p hp; cases hp) (siteGuarded_of_table hT hs)
    | seq a b =>
      simp only
      have ha := ih a l
      rcases hres : eval T P f a l with ⟨res, l'⟩
      rw [hres] at ha
      cases res with
      | viol v => exact ha
      | stuck => exact ha
      | val => exact Inv.step ha rfl (ih b l')
      | err => exact Inv.step ha rfl (ih b l')
    | wrap args body =>
      simp only
      have ha := evalAll_inv ih args l
      rcases hres : evalAll (eval T P f) args l with ⟨res, l'⟩
      rw [hres] at ha
      cases res with
      | viol v => exact ha
      | stuck => exact ha
      | val => exact Inv.step ha rfl (ih body l')
      | err => exact Inv.step ha rfl (ih body l')
    | thunk body n => exact repeatN_inv ih body n l

/-! ### enough fuel: the evaluator finishes -/

/-- `ev` finishes on every expression of the list -/
def FinOn (ev : Expr → Log → Res × Log) (es : List Expr) : Prop := ∀ e ∈ es, ∀ l, (ev e l).1 ≠ .stuck

theorem evalAll_fin {ev} : ∀ (args : List Expr), FinOn ev args → ∀ l, (evalAll ev args l).1 ≠ .stuck
  | [], _, l => by simp [evalAll]
  | a :: r, h, l => by
    have ha := h a (by simp) l
    have hr : FinOn ev r := fun e he => h e (by simp [he])
    unfold evalAll
    rcases hres : ev a l with ⟨res, l'⟩
    rw [hres] at ha
    cases res with
    | viol v => simp
    | stuck => exact absurd rfl ha
    | val => exact evalAll_fin r hr l'
    | err => exact evalAll_fin r hr l'

theorem repeatN_fin {ev} (body : Expr) (h : ∀ l, (ev body l).1 ≠ .stuck) : ∀ n l, (repeatN ev body n l).1 ≠ .stuck
  | 0, l => by simp [repeatN]
  | n + 1, l => by
    have ha := h l
    unfold repeatN
    rcases hres : ev body l with ⟨res, l'⟩
    rw [hres] at ha
    cases res with
    | viol v => simp
    | stuck => exact absurd rfl ha
    | val => exact repeatN_fin body h n l'
    | err => exact repeatN_fin body h n l'

theorem runSteps_fin {ev} (P : PermissionSet) (s : Nat) (args : List Expr) (h : FinOn ev args) :
    ∀ (steps : List Step) (l : Log), (runSteps ev P s args steps l).1 ≠ .stuck
  | [], l => by simp [runSteps]
  | .check p :: r, l => by
    unfold runSteps
    cases checkPermission P p with
    | none => exact runSteps_fin P s args h r _
    | some id => simp
  | .weakCheck c :: r, l => by unfold runSteps; exact runSteps_fin P s args h r l
  | .arg i raise :: r, l => by
    unfold runSteps
    cases ha : args[i]? with
    | none => exact runSteps_fin P s args h r l
    | some a =>
      dsimp only
      have hfin := h a (List.mem_of_getElem? ha) l
      rcases hres : ev a l with ⟨res, l'⟩
      rw [hres] at hfin
      cases res with
      | viol v => simp
      | stuck => exact absurd rfl hfin
      | val => exact runSteps_fin P s args h r l'
      | err =>
        cases raise with
        | true => simp
        | false => exact runSteps_fin P s args h r l'
  | .effect k tok :: r, l => by unfold runSteps; exact runSteps_fin P s args h r _

theorem depth_mem {a : Expr} : ∀ {es : List Expr}, a ∈ es → a.depth ≤ depthList es
  | b :: r, h => by
    rcases List.mem_cons.mp h with rfl | h
    · simp only [depthList]; omega
    · have := depth_mem h; simp only [depthList]; omega

theorem sitesIn_mem {n : Nat} {a : Expr} : ∀ {es : List Expr}, sitesInList n es = true → a ∈ es → a.sitesIn n = true
  | b :: r, hs, h => by
    simp only [sitesInList, Bool.and_eq_true] at hs
    rcases List.mem_cons.mp h with rfl | h
    · exact hs.1
    · exact sitesIn_mem hs.2 h

theorem eval_fin (T : List Site) (P : PermissionSet) :
    ∀ (f : Nat) (e : Expr) (l : Log), e.depth ≤ f → e.sitesIn T.length = true → (eval T P f e l).1 ≠ .stuck
  | 0, e, l, hd, _ => by cases e <;> simp [Expr.depth] at hd
  | f + 1, e, l, hd, hs => by
    have ih := eval_fin T P f
    unfold eval
    cases e with
    | lit => simp
    | bad => simp
    | nat s args =>
      simp only [Expr.sitesIn, Bool.and_eq_true, decide_eq_true_eq] at hs
      simp only [Expr.depth] at hd
      simp only
      have hlt : s < T.length := hs.1
      rw [List.getElem?_eq_getElem hlt]
      simp only
      refine runSteps_fin P s args ?_ _ l
      intro a ha l'
      exact ih a l' (by have := depth_mem ha; omega) (sitesIn_mem hs.2 ha)
    | seq a b =>
      simp only [Expr.sitesIn, Bool.and_eq_true] at hs
      simp only [Expr.depth] at hd
      simp only
      have ha := ih a l (by omega) hs.1
      rcases hres : eval T P f a l with ⟨res, l'⟩
      rw [hres] at ha
      cases res with
      | viol v => simp
      | stuck => exact absurd rfl ha
      | val => exact ih b l' (by omega) hs.2
      | err => exact ih b l' (by omega) hs.2
    | wrap args body =>
      simp only [Expr.sitesIn, Bool.and_eq_true] at hs
      simp only [Expr.depth] at hd
      simp only
      have ha := evalAll_fin (ev := eval T P f) args
        (fun a ha l' => ih a l' (by have := depth_mem ha; omega) (sitesIn_mem hs.1 ha)) l
      rcases hres : evalAll (eval T P f) args l with ⟨res, l'⟩
      rw [hres] at ha
      cases res with
      | viol v => simp
      | stuck => exact absurd rfl ha
      | val => exact ih body l' (by omega) hs.2
      | err => exact ih body l' (by omega) hs.2
    | thunk body n =>
      simp only [Expr.sitesIn] at hs
      simp only [Expr.depth] at hd
      exact repeatN_fin body (fun l' => ih body l' (by omega) hs) n l

end XrayModel.Perm
