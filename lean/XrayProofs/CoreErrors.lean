/-
Helpers for C06 (errors propagate as values; violations cannot be caught) over the core
evaluator `XrayModel/Core.lean`: the prefix law of `evalList`/`evalDecls`, evaluation contexts.
-/
import XrayProofs.CoreMono
namespace XrayModel.Core

/-- `SeqVals cfg fr n es st vs st'`: the expressions `es`, evaluated left to right from state `st`
at the fuel levels `evalList n` uses (the head at `n-1`, the next at `n-2`, …), all yield
non-error values `vs`; `st'` is the state reached after the last one. -/
inductive SeqVals (cfg : Cfg) (fr : Frame) : Nat → List Expr → St → List Val → St → Prop
  | nil (n : Nat) (st : St) : SeqVals cfg fr n [] st [] st
  | cons {n : Nat} {e : Expr} {rest : List Expr} {st st1 st' : St} {v : Val} {vs : List Val} :
      eval n cfg fr e false st = (.val v, st1) → v.isErr = false →
      SeqVals cfg fr n rest st1 vs st' → SeqVals cfg fr (n + 1) (e :: rest) st (v :: vs) st'

/-- put already computed values in front of the outcome of the rest of a list -/
def prependVals (vs : List Val) (r : Except Res (List Val) × St) : Except Res (List Val) × St :=
  match r with
  | (.ok ws, s) => (.ok (vs ++ ws), s)
  | (.error x, s) => (.error x, s)

@[simp] theorem prependVals_ok (vs ws : List Val) (s : St) : prependVals vs (.ok ws, s) = (.ok (vs ++ ws), s) := rfl
@[simp] theorem prependVals_error (vs : List Val) (x : Res) (s : St) : prependVals vs (.error x, s) = (.error x, s) := rfl
@[simp] theorem prependVals_nil (r : Except Res (List Val) × St) : prependVals [] r = r := by
  rcases r with ⟨_ | _, _⟩ <;> simp [prependVals]

theorem evalList_cons_val {n : Nat} {cfg : Cfg} {fr : Frame} {e : Expr} {rest : List Expr} {st st1 : St} {v : Val}
    (h : eval n cfg fr e false st = (.val v, st1)) (hv : v.isErr = false) :
    evalList (n + 1) cfg fr (e :: rest) st = prependVals [v] (evalList n cfg fr rest st1) := by
  cases v <;> simp_all [evalList, Val.isErr] <;>
    (rcases evalList n cfg fr rest st1 with ⟨_ | _, _⟩ <;> simp)

theorem SeqVals.fuel {cfg fr n es st vs st'} (h : SeqVals cfg fr n es st vs st') : es.length ≤ n := by
  induction h with
  | nil => simp
  | cons _ _ _ ih => simp; omega

theorem evalList_append {cfg : Cfg} {fr : Frame} {k : Nat} {pre : List Expr} {st st1 : St} {vs : List Val}
    (rest : List Expr)
    (h : SeqVals cfg fr (k + pre.length) pre st vs st1) :
    evalList (k + pre.length) cfg fr (pre ++ rest) st = prependVals vs (evalList k cfg fr rest st1) := by
  generalize hn : k + pre.length = n at h
  induction h generalizing k with
  | nil n st =>
    simp at hn; subst hn
    simp
  | @cons n e rest' st st1 st' v vs he hv hs ih =>
    simp only [List.length_cons] at hn
    have hn' : k + rest'.length = n := by omega
    have := ih hn'
    simp only [List.cons_append]
    rw [evalList_cons_val he hv, this]
    rcases evalList k cfg fr rest st' with ⟨_ | _, _⟩ <;> simp

theorem Frame.get_none {fr : Frame} {f : String} (h : fr.get f = none) :
    lookup f fr.env = none ∧ ∀ n c, fr.self = some (n, c) → n ≠ f := by
  unfold Frame.get at h
  split at h
  · cases h
  · rename_i hl
    refine ⟨hl, ?_⟩
    intro n c hs
    simp only [hs] at h
    split at h
    · cases h
    · assumption

/-- a name that is not bound in the frame is a native -/
theorem eval_call_unbound {fr : Frame} {f : String} (h : fr.get f = none) (n : Nat) (cfg : Cfg)
    (args : List Expr) (tail : Bool) (st : St) :
    eval (n + 2) cfg fr (.call f args) tail st = builtin n cfg fr f args tail st := by
  obtain ⟨hl, hs⟩ := Frame.get_none h
  simp only [eval]
  split
  · rename_i sn sc hself
    have : f ≠ sn := fun hh => hs sn sc hself hh.symm
    simp [this, callNamed, h]
  · simp [callNamed, h]

/-- a name bound in the environment of the frame (a parameter, a `let`, a declared function) -/
theorem eval_call_bound {fr : Frame} {f : String} {c : Val} (h : lookup f fr.env = some c) (n : Nat) (cfg : Cfg)
    (args : List Expr) (tail : Bool) (st : St) :
    eval (n + 2) cfg fr (.call f args) tail st = callVal n cfg fr c args tail st := by
  have hg : fr.get f = some c := by simp [Frame.get, h]
  simp only [eval]
  split
  · simp [h, callNamed, hg]
  · simp [callNamed, hg]


end XrayModel.Core
