/- Helper lemmas for C18: byte offsets vs. character indices, the FencedString invariant. -/
import XrayModel.FString
set_option linter.unusedSimpArgs false
namespace XrayModel.FStr
open FS

def FS.wf (s : FS) : Prop :=
  (s.starts = [] ∧ ∀ c ∈ s.buf, c.utf8Size = 1) ∨ s.starts = charStartsFrom 0 s.buf

theorem length_charStartsFrom (o : Nat) (cs : List Char) : (charStartsFrom o cs).length = cs.length := by
  induction cs generalizing o with
  | nil => rfl
  | cons c cs ih => simp [charStartsFrom, ih]

theorem byteLen_ascii {cs : List Char} (h : ∀ c ∈ cs, c.utf8Size = 1) : byteLen cs = cs.length := by
  induction cs with
  | nil => rfl
  | cons c cs ih =>
    simp only [byteLen, List.length_cons]
    rw [h c (by simp), ih (fun d hd => h d (by simp [hd]))]; omega

theorem byteLen_append (a b : List Char) : byteLen (a ++ b) = byteLen a + byteLen b := by
  induction a with
  | nil => simp [byteLen]
  | cons c cs ih => simp [byteLen, ih]; omega

theorem charStartsFrom_eq_nil {o : Nat} {cs : List Char} : charStartsFrom o cs = [] ↔ cs = [] := by
  cases cs <;> simp [charStartsFrom]

theorem len_chars (s : FS) (h : s.wf) : s.len = s.buf.length := by
  unfold FS.len
  rcases h with ⟨h1, h2⟩ | h
  · simp [h1, byteLen_ascii h2]
  · rw [h]
    split
    · rename_i he
      have : s.buf = [] := by
        simpa [charStartsFrom_eq_nil] using he
      simp [this, byteLen]
    · exact length_charStartsFrom 0 s.buf

theorem getElem?_charStartsFrom (o : Nat) (cs : List Char) (i : Nat) :
    (charStartsFrom o cs)[i]? = if i < cs.length then some (o + byteLen (cs.take i)) else none := by
  induction cs generalizing o i with
  | nil => simp [charStartsFrom]
  | cons c cs ih =>
    cases i with
    | zero => simp [charStartsFrom, byteLen]
    | succ i =>
      simp only [charStartsFrom, List.getElem?_cons_succ, ih, List.length_cons, List.take_succ_cons, byteLen]
      split <;> split <;> first | omega | rfl | (congr 1; omega)

theorem dropBytes_take (cs : List Char) (i : Nat) (h : i ≤ cs.length) :
    dropBytes cs (byteLen (cs.take i)) = some (cs.drop i) := by
  induction cs generalizing i with
  | nil => simp [byteLen, dropBytes]
  | cons c cs ih =>
    cases i with
    | zero => simp [byteLen, dropBytes]
    | succ i =>
      have hp := Char.utf8Size_pos c
      simp only [List.take_succ_cons, byteLen, List.drop_succ_cons]
      obtain ⟨k, hk⟩ : ∃ k, c.utf8Size + byteLen (cs.take i) = k + 1 := ⟨c.utf8Size + byteLen (cs.take i) - 1, by omega⟩
      rw [hk, dropBytes]
      rw [if_pos (by omega)]
      have : k + 1 - c.utf8Size = byteLen (cs.take i) := by omega
      rw [this]
      exact ih i (by simpa using h)

theorem takeBytes_take (cs : List Char) (i : Nat) (h : i ≤ cs.length) :
    takeBytes cs (byteLen (cs.take i)) = some (cs.take i) := by
  induction cs generalizing i with
  | nil => simp [byteLen, takeBytes]
  | cons c cs ih =>
    cases i with
    | zero => simp [byteLen, takeBytes]
    | succ i =>
      have hp := Char.utf8Size_pos c
      simp only [List.take_succ_cons, byteLen]
      obtain ⟨k, hk⟩ : ∃ k, c.utf8Size + byteLen (cs.take i) = k + 1 := ⟨c.utf8Size + byteLen (cs.take i) - 1, by omega⟩
      rw [hk, takeBytes]
      rw [if_pos (by omega)]
      have : k + 1 - c.utf8Size = byteLen (cs.take i) := by omega
      rw [this, ih i (by simpa using h)]
      rfl

theorem byteLen_take_le (cs : List Char) (i j : Nat) (h : i ≤ j) : byteLen (cs.take i) ≤ byteLen (cs.take j) := by
  induction cs generalizing i j with
  | nil => simp [byteLen]
  | cons c cs ih =>
    cases i with
    | zero => simp [byteLen]
    | succ i =>
      cases j with
      | zero => omega
      | succ j => simp only [List.take_succ_cons, byteLen]; have := ih i j (by omega); omega

theorem byteLen_take_sub (cs : List Char) (i j : Nat) (h : i ≤ j) :
    byteLen (cs.take j) - byteLen (cs.take i) = byteLen ((cs.drop i).take (j - i)) := by
  induction cs generalizing i j with
  | nil => simp [byteLen]
  | cons c cs ih =>
    cases i with
    | zero => simp [byteLen]
    | succ i =>
      cases j with
      | zero => omega
      | succ j =>
        simp only [List.take_succ_cons, byteLen, List.drop_succ_cons]
        have := ih i j (by omega)
        have e : j + 1 - (i + 1) = j - i := by omega
        rw [e, ← this]; omega

theorem slice_take (cs : List Char) (i j : Nat) (hij : i ≤ j) (hj : i ≤ cs.length) :
    slice cs (byteLen (cs.take i)) (byteLen (cs.take j)) = some ((cs.drop i).take (j - i)) := by
  unfold slice
  rw [if_pos (byteLen_take_le cs i j hij), dropBytes_take cs i hj]
  simp only [Option.bind_some]
  rw [byteLen_take_sub cs i j hij]
  by_cases hl : j - i ≤ (cs.drop i).length
  · exact takeBytes_take _ _ hl
  · have : (cs.drop i).take (j - i) = (cs.drop i).take (cs.drop i).length := by
      rw [List.take_length, List.take_of_length_le (by omega)]
    rw [this]
    exact takeBytes_take _ _ (Nat.le_refl _)

theorem hasGap_false_ascii (o : Nat) (c : Char) (cs : List Char)
    (h : hasGap (charStartsFrom o (c :: cs)) = false)
    (hl : ∀ l, (charStartsFrom o (c :: cs)).getLast? = some l → ¬ (l + 1 < o + byteLen (c :: cs))) :
    ∀ d ∈ c :: cs, d.utf8Size = 1 := by
  induction cs generalizing o c with
  | nil =>
    intro d hd
    simp only [List.mem_singleton] at hd
    subst hd
    have := hl o (by simp [charStartsFrom])
    simp [byteLen] at this
    have := Char.utf8Size_pos d
    omega
  | cons c2 cs ih =>
    simp only [charStartsFrom, hasGap, Bool.or_eq_false_iff, decide_eq_false_iff_not] at h
    have hc : c.utf8Size = 1 := by have := Char.utf8Size_pos c; omega
    have := ih (o + c.utf8Size) c2 (by simpa [charStartsFrom] using h.2) (by
      intro l hl'
      have := hl l (by simpa [charStartsFrom, List.getLast?_cons_cons] using hl')
      simp only [byteLen] at this ⊢
      omega)
    intro d hd
    rcases List.mem_cons.mp hd with rfl | hd
    · exact hc
    · exact this d hd

theorem hasGap_ascii (o : Nat) (cs : List Char) (h : ∀ d ∈ cs, d.utf8Size = 1) :
    hasGap (charStartsFrom o cs) = false := by
  induction cs generalizing o with
  | nil => rfl
  | cons c cs ih =>
    cases cs with
    | nil => rfl
    | cons c2 cs =>
      simp only [charStartsFrom, hasGap, Bool.or_eq_false_iff, decide_eq_false_iff_not]
      refine ⟨by rw [h c (by simp)]; omega, ?_⟩
      have := ih (o + c.utf8Size) (fun d hd => h d (by simp [hd]))
      simpa [charStartsFrom] using this

theorem getLast?_charStartsFrom (o : Nat) (c : Char) (cs : List Char) :
    ∃ l, (charStartsFrom o (c :: cs)).getLast? = some l ∧
      l + ((c :: cs).getLast (by simp)).utf8Size = o + byteLen (c :: cs) := by
  induction cs generalizing o c with
  | nil => exact ⟨o, by simp [charStartsFrom], by simp [byteLen]⟩
  | cons c2 cs ih =>
    obtain ⟨l, h1, h2⟩ := ih (o + c.utf8Size) c2
    refine ⟨l, by simpa [charStartsFrom, List.getLast?_cons_cons] using h1, ?_⟩
    simp only [List.getLast_cons_cons, byteLen] at h2 ⊢
    omega

/-- `from_string` establishes the invariant, in its canonical form: the table is empty exactly for pure ASCII -/
theorem fromString_spec (cs : List Char) :
    (fromString cs).buf = cs ∧ (fromString cs).wf ∧
    ((fromString cs).starts = [] ↔ ∀ c ∈ cs, c.utf8Size = 1) := by
  cases cs with
  | nil => simp [fromString, charStartsFrom, empty, FS.wf]
  | cons c cs =>
    obtain ⟨l, hl1, hl2⟩ := getLast?_charStartsFrom 0 c cs
    have hne : charStartsFrom 0 (c :: cs) ≠ [] := by simp [charStartsFrom]
    unfold fromString
    split
    · rename_i he; exact absurd he hne
    · simp only [hl1]
      by_cases hg : (hasGap (charStartsFrom 0 (c :: cs)) || decide (l + 1 < byteLen (c :: cs))) = true
      · rw [if_pos hg]
        refine ⟨by first | rfl | trivial, Or.inr rfl, ?_⟩
        constructor
        · intro h; exact absurd h hne
        · intro hall
          exfalso
          rw [hasGap_ascii 0 _ hall] at hg
          simp only [Bool.false_or, decide_eq_true_eq] at hg
          have := hall ((c :: cs).getLast (by simp)) (List.getLast_mem _)
          omega
      · rw [if_neg hg]
        simp only [Bool.or_eq_true, decide_eq_true_eq, not_or, Bool.not_eq_true] at hg
        have hall := hasGap_false_ascii 0 c cs hg.1 (by
          intro l' hl'
          rw [hl1] at hl'
          cases hl'
          omega)
        exact ⟨by first | rfl | trivial, Or.inl ⟨rfl, hall⟩, ⟨fun _ => hall, fun _ => rfl⟩⟩


theorem drop_charStartsFrom (o : Nat) (cs : List Char) (i : Nat) :
    (charStartsFrom o cs).drop i = charStartsFrom (o + byteLen (cs.take i)) (cs.drop i) := by
  induction cs generalizing o i with
  | nil => simp [charStartsFrom]
  | cons c cs ih =>
    cases i with
    | zero => simp [byteLen]
    | succ i =>
      simp only [charStartsFrom, List.drop_succ_cons, List.take_succ_cons, byteLen, ih]
      congr 1; omega

theorem take_charStartsFrom (o : Nat) (cs : List Char) (k : Nat) :
    (charStartsFrom o cs).take k = charStartsFrom o (cs.take k) := by
  induction cs generalizing o k with
  | nil => simp [charStartsFrom]
  | cons c cs ih =>
    cases k with
    | zero => simp [charStartsFrom]
    | succ k => simp [charStartsFrom, ih]

theorem rebase_charStartsFrom (b o : Nat) (cs : List Char) (h : b ≤ o) :
    rebase b (charStartsFrom o cs) = .ok (charStartsFrom (o - b) cs) := by
  induction cs generalizing o with
  | nil => rfl
  | cons c cs ih =>
    simp only [charStartsFrom, rebase]
    rw [if_neg (by omega), ih (o + c.utf8Size) (by omega)]
    simp only [Res.bind]
    congr 3; omega

theorem byteLen_take_length (cs : List Char) : byteLen (cs.take cs.length) = byteLen cs := by simp

/-- the slice operation is exact on a well-formed string, for every in-range request (the end is clipped
to the length, as for list slicing) -/
theorem substring_spec (s : FS) (hs : s.wf) (a : Nat) (e : Option Nat)
    (ha : a ≤ s.buf.length) (hae : ∀ b, e = some b → a ≤ b) :
    ∃ r, s.substring a e = .ok r ∧ r.wf ∧
      r.buf = match e with
        | some b => (s.buf.drop a).take (b - a)
        | none => s.buf.drop a := by
  have hlen := len_chars s hs
  rcases hs with ⟨h1, h2⟩ | h
  · -- ASCII branch
    have hb : ∀ i, byteLen (s.buf.take i) = min i s.buf.length := by
      intro i
      rw [byteLen_ascii (fun c hc => h2 c (List.mem_of_mem_take hc))]; simp
    have hsub : ∀ t, (∀ c ∈ (s.buf.drop a).take t, c.utf8Size = 1) :=
      fun t c hc => h2 c (List.mem_of_mem_drop (List.mem_of_mem_take hc))
    have hfrom : sliceFrom s.buf a = some (s.buf.drop a) := by
      have := dropBytes_take s.buf a ha
      rwa [hb a, Nat.min_eq_left ha] at this
    unfold FS.substring
    simp only [h1, List.isEmpty_nil, if_true, asciiSub]
    cases e with
    | none =>
      simp only [hfrom, optSlice, Res.bind]
      exact ⟨_, rfl, Or.inl ⟨rfl, fun c hc => h2 c (List.mem_of_mem_drop hc)⟩, rfl⟩
    | some b =>
      have hab := hae b rfl
      simp only
      split
      · rename_i hlt
        rw [hlen] at hlt
        have := slice_take s.buf a b hab ha
        rw [hb a, hb b, Nat.min_eq_left ha, Nat.min_eq_left (by omega)] at this
        simp only [this, optSlice, Res.bind]
        exact ⟨_, rfl, Or.inl ⟨rfl, hsub _⟩, rfl⟩
      · rename_i hge
        rw [hlen] at hge
        simp only [hfrom, optSlice, Res.bind]
        refine ⟨_, rfl, Or.inl ⟨rfl, fun c hc => h2 c (List.mem_of_mem_drop hc)⟩, ?_⟩
        simp only
        rw [List.take_of_length_le]
        simp; omega
  · -- table branch
    by_cases hemp : s.starts.isEmpty = true
    · -- the table is empty, so the buffer is empty
      have hbuf : s.buf = [] := by
        rw [h] at hemp
        simpa [charStartsFrom_eq_nil] using hemp
      have ha0 : a = 0 := by simpa [hbuf] using ha
      unfold FS.substring
      simp only [hemp, if_true, asciiSub, hbuf, ha0]
      cases e with
      | none => exact ⟨_, rfl, Or.inl ⟨rfl, by simp⟩, by simp [sliceFrom, dropBytes, optSlice, Res.bind]⟩
      | some b =>
        simp only [FS.len, hemp, if_true, hbuf, byteLen]
        simp only [Nat.not_lt_zero, if_false, sliceFrom, dropBytes, optSlice, Res.bind]
        exact ⟨_, rfl, Or.inl ⟨rfl, by simp⟩, by simp⟩
    · have hsl : s.starts.length = s.buf.length := by rw [h]; exact length_charStartsFrom 0 s.buf
      have hsb : startByte s a = .ok (byteLen (s.buf.take a)) := by
        unfold startByte
        by_cases hal : a = s.starts.length
        · rw [if_pos hal, hal, hsl]; simp
        · rw [if_neg hal, h, getElem?_charStartsFrom, if_pos (by omega)]; simp
      unfold FS.substring
      simp only [hemp, hsb, Res.bind]
      -- which end
      have key : ∀ (n : Nat), a ≤ n → n ≤ s.buf.length →
          (optSlice (slice s.buf (byteLen (s.buf.take a)) (byteLen (s.buf.take n))) "byte slice") = .ok ((s.buf.drop a).take (n - a)) ∧
          vecSlice s.starts a n = .ok (charStartsFrom (byteLen (s.buf.take a)) ((s.buf.drop a).take (n - a))) := by
        intro n han hn
        refine ⟨by rw [slice_take s.buf a n han ha]; rfl, ?_⟩
        unfold vecSlice
        rw [if_pos ⟨han, by omega⟩, h, drop_charStartsFrom, take_charStartsFrom]
        simp
      have fin : ∀ (cs : List Char), (rebase (byteLen (s.buf.take a)) (charStartsFrom (byteLen (s.buf.take a)) cs)) = .ok (charStartsFrom 0 cs) := by
        intro cs
        rw [rebase_charStartsFrom _ _ _ (Nat.le_refl _)]; simp
      cases e with
      | none =>
        simp only [Option.bind_none]
        have hk := key s.buf.length ha (Nat.le_refl _)
        have hfrom : sliceFrom s.buf (byteLen (s.buf.take a)) = some (s.buf.drop a) := dropBytes_take s.buf a ha
        rw [hsl]
        simp only [hfrom, optSlice, hk.2, Res.bind]
        have e1 : (s.buf.drop a).take (s.buf.length - a) = s.buf.drop a := by
          rw [List.take_of_length_le]; simp
        rw [e1, fin]
        exact ⟨_, rfl, Or.inr rfl, rfl⟩
      | some b =>
        have hab := hae b rfl
        simp only [Option.bind_some, h, getElem?_charStartsFrom]
        by_cases hbl : b < s.buf.length
        · rw [if_pos hbl]
          simp only [Nat.zero_add, Option.getD_some]
          have hk := key b hab (by omega)
          rw [h] at hk
          simp only [hk.1, hk.2, Res.bind, fin]
          exact ⟨_, rfl, Or.inr rfl, rfl⟩
        · rw [if_neg hbl]
          simp only
          have hk := key s.buf.length ha (Nat.le_refl _)
          have hfrom : sliceFrom s.buf (byteLen (s.buf.take a)) = some (s.buf.drop a) := dropBytes_take s.buf a ha
          rw [h] at hk
          rw [length_charStartsFrom]
          simp only [hfrom, optSlice, hk.2, Res.bind]
          have e1 : (s.buf.drop a).take (s.buf.length - a) = s.buf.drop a := by
            rw [List.take_of_length_le]; simp
          have e2 : (s.buf.drop a).take (b - a) = s.buf.drop a := by
            rw [List.take_of_length_le]; simp; omega
          rw [e1, fin, e2]
          exact ⟨_, rfl, Or.inr rfl, rfl⟩


theorem charStartsFrom_append (o : Nat) (a b : List Char) :
    charStartsFrom o (a ++ b) = charStartsFrom o a ++ charStartsFrom (o + byteLen a) b := by
  induction a generalizing o with
  | nil => simp [charStartsFrom, byteLen]
  | cons c cs ih => simp only [List.cons_append, charStartsFrom, ih, byteLen, List.cons.injEq, true_and]; congr 2; omega

theorem map_add_charStartsFrom (o k : Nat) (cs : List Char) :
    (charStartsFrom o cs).map (· + k) = charStartsFrom (o + k) cs := by
  induction cs generalizing o with
  | nil => rfl
  | cons c cs ih =>
    have : o + c.utf8Size + k = o + k + c.utf8Size := by omega
    simp only [charStartsFrom, List.map_cons, ih, this]

theorem range_succ_map (n _o : Nat) : List.range (n + 1) = 0 :: (List.range n).map (· + 1) := by
  rw [List.range_succ_eq_map]

theorem charStartsFrom_ascii (o : Nat) (cs : List Char) (h : ∀ c ∈ cs, c.utf8Size = 1) :
    charStartsFrom o cs = (List.range cs.length).map (· + o) := by
  induction cs generalizing o with
  | nil => rfl
  | cons c cs ih =>
    rw [List.length_cons, range_succ_map _ 0]
    simp only [charStartsFrom, List.map_cons, List.map_map, Nat.zero_add]
    rw [ih _ (fun d hd => h d (by simp [hd])), h c (by simp)]
    congr 1
    apply List.map_congr_left
    intro x _; simp; omega

/-- the table the operations effectively work with -/
def FS.effTable (s : FS) : List Nat := if s.starts.isEmpty then List.range (byteLen s.buf) else s.starts

theorem effTable_wf (s : FS) (hs : s.wf) : s.effTable = charStartsFrom 0 s.buf := by
  unfold FS.effTable
  rcases hs with ⟨h1, h2⟩ | h
  · simp only [h1, List.isEmpty_nil, if_true]
    rw [charStartsFrom_ascii 0 _ h2, byteLen_ascii h2]; simp
  · split
    · rename_i he
      have : s.buf = [] := by rw [h] at he; simpa [charStartsFrom_eq_nil] using he
      simp [this, byteLen, charStartsFrom]
    · exact h

theorem wf_ascii_of_nil (s : FS) (hs : s.wf) (h : s.starts = []) : ∀ c ∈ s.buf, c.utf8Size = 1 := by
  rcases hs with ⟨_, h2⟩ | h'
  · exact h2
  · have : s.buf = [] := by rw [h] at h'; exact charStartsFrom_eq_nil.mp h'.symm
    simp [this]

/-- concatenation keeps the invariant and concatenates the code points -/
theorem push_spec (s o : FS) (hs : s.wf) (ho : o.wf) : (s.push o).wf ∧ (s.push o).buf = s.buf ++ o.buf := by
  unfold FS.push
  by_cases hb : (s.starts.isEmpty && o.starts.isEmpty) = true
  · simp only [hb, if_true]
    simp only [Bool.and_eq_true, List.isEmpty_iff] at hb
    refine ⟨Or.inl ⟨rfl, ?_⟩, by first | rfl | trivial⟩
    intro c hc
    rcases List.mem_append.mp hc with hc | hc
    · exact wf_ascii_of_nil s hs hb.1 c hc
    · exact wf_ascii_of_nil o ho hb.2 c hc
  · simp only [hb]
    have e1 := effTable_wf s hs
    have e2 := effTable_wf o ho
    unfold FS.effTable at e1 e2
    have ext : (if o.starts.isEmpty = true then (List.range (byteLen o.buf)).map (· + byteLen s.buf)
        else o.starts.map (· + byteLen s.buf)) = charStartsFrom (byteLen s.buf) o.buf := by
      have : (if o.starts.isEmpty = true then (List.range (byteLen o.buf)).map (· + byteLen s.buf)
        else o.starts.map (· + byteLen s.buf)) = (if o.starts.isEmpty = true then List.range (byteLen o.buf) else o.starts).map (· + byteLen s.buf) := by
        split <;> rfl
      rw [this, e2, map_add_charStartsFrom]; simp
    simp only [Bool.false_eq_true, if_false]
    rw [ext]
    split
    · rename_i he
      rw [if_pos he] at e1
      refine ⟨Or.inr ?_, rfl⟩
      simp only
      rw [e1, charStartsFrom_append]; simp
    · rename_i he
      rw [if_neg he] at e1
      refine ⟨Or.inr ?_, rfl⟩
      simp only
      rw [e1, charStartsFrom_append]; simp

/-- `push_ascii` with an ASCII argument -/
theorem pushAscii_spec (s : FS) (t : List Char) (hs : s.wf) (ht : ∀ c ∈ t, c.utf8Size = 1) :
    (s.pushAscii t).wf ∧ (s.pushAscii t).buf = s.buf ++ t := by
  unfold FS.pushAscii
  split
  · rename_i he
    refine ⟨Or.inl ⟨rfl, ?_⟩, by first | rfl | trivial⟩
    intro c hc
    rcases List.mem_append.mp hc with hc | hc
    · exact wf_ascii_of_nil s hs (List.isEmpty_iff.mp he) c hc
    · exact ht c hc
  · rename_i he
    have e1 := effTable_wf s hs
    unfold FS.effTable at e1
    rw [if_neg he] at e1
    refine ⟨Or.inr ?_, rfl⟩
    simp only
    rw [e1, charStartsFrom_append, charStartsFrom_ascii _ _ ht, byteLen_ascii ht]; simp

theorem substr_of_substring (s : FS) (a : Nat) (e : Option Nat) (r : FS) (h : s.substring a e = .ok r) :
    s.substr a e = .ok r.buf := by
  unfold FS.substring at h
  unfold FS.substr
  split at h
  · rename_i he
    rw [if_pos he]
    cases hx : asciiSub s a e <;> rw [hx] at h <;> simp [Res.bind] at h
    subst h; rfl
  · rename_i he
    rw [if_neg he]
    cases hx : startByte s a <;> rw [hx] at h <;> simp only [Res.bind] at h ⊢ <;> try cases h
    split at h
    · rename_i eb heb
      cases hy : optSlice (slice s.buf _ eb) "byte slice" <;> rw [hy] at h <;> simp only [Res.bind] at h <;> try cases h
      cases hz : vecSlice s.starts a (e.getD 0) <;> rw [hz] at h <;> simp only [Res.bind] at h <;> try cases h
      rename_i v1 v2
      cases hw : rebase _ v2 <;> rw [hw] at h <;> simp only [Res.bind] at h <;> try cases h
      rfl
    · rename_i heb
      cases hy : optSlice (sliceFrom s.buf _) "byte slice" <;> rw [hy] at h <;> simp only [Res.bind] at h <;> try cases h
      cases hz : vecSlice s.starts a s.starts.length <;> rw [hz] at h <;> simp only [Res.bind] at h <;> try cases h
      rename_i v1 v2
      cases hw : rebase _ v2 <;> rw [hw] at h <;> simp only [Res.bind] at h <;> try cases h
      rfl


/-- `n` occurs in `cs` at character index `i` -/
def occAt (n cs : List Char) (i : Nat) : Prop := n.isPrefixOf (cs.drop i) = true

theorem strFind_spec (hay n : List Char) :
    match strFind hay n with
    | some b => ∃ i, i ≤ hay.length ∧ b = byteLen (hay.take i) ∧ occAt n hay i ∧ ∀ j, j < i → ¬ occAt n hay j
    | none => ∀ j, j ≤ hay.length → ¬ occAt n hay j := by
  induction hay with
  | nil =>
    unfold strFind
    split
    · rename_i b hb
      split at hb
      · rename_i hn
        cases hb
        refine ⟨0, by simp, by simp [byteLen], ?_, by simp⟩
        simp only [List.isEmpty_iff] at hn
        simp [occAt, hn]
      · cases hb
    · rename_i hb
      split at hb
      · cases hb
      · rename_i hn
        intro j _
        simp only [List.isEmpty_iff] at hn
        cases n with
        | nil => exact absurd rfl hn
        | cons a as => simp [occAt, List.isPrefixOf]
  | cons c cs ih =>
    unfold strFind
    by_cases hp : n.isPrefixOf (c :: cs) = true
    · rw [if_pos hp]
      exact ⟨0, by simp, by simp [byteLen], by simpa [occAt] using hp, by simp⟩
    · rw [if_neg hp]
      cases hr : strFind cs n with
      | some b =>
        rw [hr] at ih
        obtain ⟨i, hi, hb, ho, hmin⟩ := ih
        simp only [Option.map_some]
        refine ⟨i + 1, by simpa using hi, by simp [byteLen, hb]; omega, by simpa [occAt] using ho, ?_⟩
        intro j hj
        cases j with
        | zero => simpa [occAt] using hp
        | succ j => simpa [occAt] using hmin j (by omega)
      | none =>
        rw [hr] at ih
        simp only [Option.map_none]
        intro j hj
        cases j with
        | zero => simpa [occAt] using hp
        | succ j => simpa [occAt] using ih j (by simpa using hj)

theorem strRFind_spec (hay n : List Char) :
    match strRFind hay n with
    | some b => ∃ i, i ≤ hay.length ∧ b = byteLen (hay.take i) ∧ occAt n hay i ∧ ∀ j, i < j → j ≤ hay.length → ¬ occAt n hay j
    | none => ∀ j, j ≤ hay.length → ¬ occAt n hay j := by
  induction hay with
  | nil =>
    unfold strRFind
    split
    · rename_i b hb
      split at hb
      · rename_i hn
        cases hb
        refine ⟨0, by simp, by simp [byteLen], ?_, by intro j h1 h2; simp at h2; omega⟩
        simp only [List.isEmpty_iff] at hn
        simp [occAt, hn]
      · cases hb
    · rename_i hb
      split at hb
      · cases hb
      · rename_i hn
        intro j _
        simp only [List.isEmpty_iff] at hn
        cases n with
        | nil => exact absurd rfl hn
        | cons a as => simp [occAt, List.isPrefixOf]
  | cons c cs ih =>
    unfold strRFind
    cases hr : strRFind cs n with
    | some b =>
      rw [hr] at ih
      obtain ⟨i, hi, hb, ho, hmax⟩ := ih
      simp only
      refine ⟨i + 1, by simpa using hi, by simp [byteLen, hb]; omega, by simpa [occAt] using ho, ?_⟩
      intro j hj hjl
      cases j with
      | zero => omega
      | succ j => simpa [occAt] using hmax j (by omega) (by simpa using hjl)
    | none =>
      rw [hr] at ih
      simp only
      by_cases hp : n.isPrefixOf (c :: cs) = true
      · rw [if_pos hp]
        refine ⟨0, by simp, by simp [byteLen], by simpa [occAt] using hp, ?_⟩
        intro j hj hjl
        cases j with
        | zero => omega
        | succ j => simpa [occAt] using ih j (by simpa using hjl)
      · rw [if_neg hp]
        intro j hj
        cases j with
        | zero => simpa [occAt] using hp
        | succ j => simpa [occAt] using ih j (by simpa using hj)

theorem slice_zero_take (cs : List Char) (i : Nat) (_h : i ≤ cs.length) :
    slice cs 0 (byteLen (cs.take i)) = some (cs.take i) := by
  have := slice_take cs 0 i (Nat.zero_le _) (Nat.zero_le _)
  simpa [byteLen] using this


theorem substr_spec (s : FS) (hs : s.wf) (a : Nat) (e : Option Nat)
    (ha : a ≤ s.buf.length) (hae : ∀ b, e = some b → a ≤ b) :
    s.substr a e = .ok (match e with
        | some b => (s.buf.drop a).take (b - a)
        | none => s.buf.drop a) := by
  obtain ⟨r, h1, _, h3⟩ := substring_spec s hs a e ha hae
  rw [substr_of_substring s a e r h1]
  cases e <;> simp only at h3 ⊢ <;> rw [h3]

theorem toUsize_ofNat (n : Nat) (h : n < usizeLimit) : toUsize (n : Int) = some n := by
  unfold toUsize
  rw [if_neg (by omega), if_pos (by simpa using h)]; simp

theorem toUsize_some {v : Int} {n : Nat} (h : toUsize v = some n) : v = n ∧ n < usizeLimit := by
  unfold toUsize at h
  split at h
  · cases h
  · split at h
    · cases h; constructor <;> omega
    · cases h

/-- indexing: every in-range index (negative ones count from the end) yields that code point -/
theorem get_spec (s : FS) (hs : s.wf) (i : Int) (hlen : s.buf.length < usizeLimit)
    (hlo : -(s.buf.length : Int) ≤ i) (hhi : i < s.buf.length) :
    ∃ r, get s i = .ok r ∧ r.wf ∧
      r.buf = (s.buf.drop (if i < 0 then i + s.buf.length else i).toNat).take 1 := by
  have hl := len_chars s hs
  unfold get
  rw [hl]
  generalize hk : (if i < 0 then i + (s.buf.length : Int) else i) = k
  have hk0 : 0 ≤ k ∧ k < s.buf.length := by subst hk; split <;> omega
  obtain ⟨n, rfl⟩ : ∃ n : Nat, k = n := ⟨k.toNat, by omega⟩
  simp only [toUsize_ofNat n (by omega)]
  rw [if_neg (by omega)]
  obtain ⟨r, h1, h2, h3⟩ := substring_spec s hs n (some (n + 1)) (by omega) (by intro b hb; cases hb; omega)
  refine ⟨r, h1, h2, ?_⟩
  simp only at h3
  rw [h3]; simp

/-- an out-of-range index is an error value -/
theorem get_out_of_range (s : FS) (hs : s.wf) (i : Int)
    (h : i < -(s.buf.length : Int) ∨ (s.buf.length : Int) ≤ i) : ∃ m, get s i = .err m := by
  have hl := len_chars s hs
  unfold get
  rw [hl]
  generalize hk : (if i < 0 then i + (s.buf.length : Int) else i) = k
  have hk0 : k < 0 ∨ (s.buf.length : Int) ≤ k := by subst hk; split <;> omega
  cases hu : toUsize k with
  | none => exact ⟨"index too large", by simp only [hu]⟩
  | some n =>
    obtain ⟨rfl, _⟩ := toUsize_some hu
    simp only [hu]
    rw [if_pos (by omega)]
    exact ⟨_, rfl⟩

theorem occAt_drop (n cs : List Char) (a i : Nat) : occAt n (cs.drop a) i ↔ occAt n cs (a + i) := by
  simp [occAt, List.drop_drop]

set_option maxRecDepth 4000 in
/-- `find`: the answer is the least character index `≥ start` at which the needle occurs -/
theorem find_spec (s n : FS) (hs : s.wf) (hn : n.buf ≠ []) (st : Nat) (hst : st ≤ s.buf.length)
    (h64 : st < usizeLimit) :
    (∃ i, find s n (some st) = .ok (some i) ∧ st ≤ i ∧ occAt n.buf s.buf i ∧
        ∀ j, st ≤ j → j < i → ¬ occAt n.buf s.buf j) ∨
    (find s n (some st) = .ok none ∧ ∀ j, st ≤ j → j ≤ s.buf.length → ¬ occAt n.buf s.buf j) := by
  have hl := len_chars s hs
  have hne : n.buf.isEmpty = false := by cases h : n.buf <;> simp_all
  have hfind : find s n (some st) = findFrom s n st := by
    unfold find
    rw [hne]; simp only [Bool.false_eq_true, if_false]; rw [toUsize_ofNat st h64]
  rw [hfind]
  unfold findFrom
  rw [hl, if_neg (by omega)]
  rw [substr_spec s hs st none hst (by intro b hb; cases hb)]
  simp only [Res.bind]
  have := strFind_spec (s.buf.drop st) n.buf
  cases hf : strFind (s.buf.drop st) n.buf with
  | some b =>
    rw [hf] at this
    obtain ⟨i, hi, hb, ho, hmin⟩ := this
    left
    simp only
    rw [hb, slice_zero_take _ _ hi]
    simp only [optSlice, Res.bind]
    refine ⟨(List.take i (List.drop st s.buf)).length + st, rfl, by omega, ?_, ?_⟩
    · rw [List.length_take, Nat.min_eq_left hi, Nat.add_comm]; exact (occAt_drop _ _ _ _).mp ho
    · intro j hj1 hj2
      rw [List.length_take, Nat.min_eq_left hi] at hj2
      have := hmin (j - st) (by omega)
      rw [occAt_drop] at this
      have e : st + (j - st) = j := by omega
      rwa [e] at this
  | none =>
    rw [hf] at this
    right
    refine ⟨rfl, ?_⟩
    intro j hj1 hj2
    have := this (j - st) (by simp; omega)
    rw [occAt_drop] at this
    have e : st + (j - st) = j := by omega
    rwa [e] at this

set_option maxRecDepth 4000 in
/-- `rfind`: the answer is the greatest character index at which the needle occurs inside the first `e`
characters (`e` clipped to the length) -/
theorem rfind_spec (s n : FS) (hs : s.wf) (hn : n.buf ≠ []) (e : Nat) (h64 : e < usizeLimit) :
    (∃ i, rfind s n (some e) = .ok (some i) ∧ occAt n.buf (s.buf.take e) i ∧
        ∀ j, i < j → j ≤ (s.buf.take e).length → ¬ occAt n.buf (s.buf.take e) j) ∨
    (rfind s n (some e) = .ok none ∧ ∀ j, j ≤ (s.buf.take e).length → ¬ occAt n.buf (s.buf.take e) j) := by
  have hne : n.buf.isEmpty = false := by cases h : n.buf <;> simp_all
  have hfind : rfind s n (some e) = rfindTo s n (some e) := by
    unfold rfind
    rw [hne]; simp only [Bool.false_eq_true, if_false]; rw [toUsize_ofNat e h64]; rfl
  rw [hfind]
  unfold rfindTo
  rw [substr_spec s hs 0 (some e) (Nat.zero_le _) (by intro b hb; omega)]
  simp only [Res.bind, List.drop_zero, Nat.sub_zero]
  have := strRFind_spec (s.buf.take e) n.buf
  cases hf : strRFind (s.buf.take e) n.buf with
  | some b =>
    rw [hf] at this
    obtain ⟨i, hi, hb, ho, hmax⟩ := this
    left
    simp only
    rw [hb, slice_zero_take _ _ hi]
    simp only [optSlice, Res.bind]
    refine ⟨_, rfl, ?_, ?_⟩
    · rw [List.length_take, Nat.min_eq_left hi]; exact ho
    · intro j hj1 hj2
      rw [List.length_take, Nat.min_eq_left hi] at hj1
      exact hmax j hj1 hj2
  | none =>
    rw [hf] at this
    right
    exact ⟨rfl, this⟩


def Res.isPanic {α} : Res α → Prop
  | .panic _ => True
  | _ => False

theorem findFrom_ok (s n : FS) (hs : s.wf) (st : Nat) (hst : st ≤ s.buf.length) :
    ∃ r, findFrom s n st = .ok r := by
  have hl := len_chars s hs
  unfold findFrom
  rw [hl, if_neg (by omega), substr_spec s hs st none hst (by intro b hb; cases hb)]
  simp only [Res.bind]
  have := strFind_spec (s.buf.drop st) n.buf
  cases hf : strFind (s.buf.drop st) n.buf with
  | none => exact ⟨none, rfl⟩
  | some b =>
    rw [hf] at this
    obtain ⟨i, hi, hb, _, _⟩ := this
    simp only
    rw [hb, slice_zero_take _ _ hi]
    exact ⟨_, rfl⟩

theorem rfindTo_ok (s n : FS) (hs : s.wf) (e : Option Nat) : ∃ r, rfindTo s n e = .ok r := by
  unfold rfindTo
  have key : ∀ hay : List Char, ∃ r, (match strRFind hay n.buf with
      | none => (Res.ok none : Res (Option Nat))
      | some b => (FS.optSlice (slice hay 0 b) "byte slice").bind fun pre => .ok (some pre.length)) = .ok r := by
    intro hay
    have := strRFind_spec hay n.buf
    cases hf : strRFind hay n.buf with
    | none => exact ⟨none, rfl⟩
    | some b =>
      rw [hf] at this
      obtain ⟨i, hi, hb, _, _⟩ := this
      simp only
      rw [hb, slice_zero_take _ _ hi]
      exact ⟨_, rfl⟩
  cases e with
  | none =>
    rw [substr_spec s hs 0 none (Nat.zero_le _) (by intro b hb; cases hb)]
    exact key _
  | some e =>
    rw [substr_spec s hs 0 (some e) (Nat.zero_le _) (by intro b hb; omega)]
    exact key _

theorem get_no_panic (s : FS) (hs : s.wf) (i : Int) : ¬ (get s i).isPanic := by
  have hl := len_chars s hs
  unfold get
  rw [hl]
  generalize (if i < 0 then i + (s.buf.length : Int) else i) = k
  cases hu : toUsize k with
  | none => simp only [hu]; simp [Res.isPanic]
  | some n =>
    simp only [hu]
    by_cases hlt : n ≥ s.buf.length
    · rw [if_pos hlt]; simp [Res.isPanic]
    · rw [if_neg hlt]
      obtain ⟨r, h1, _, _⟩ := substring_spec s hs n (some (n + 1)) (by omega) (by intro b hb; cases hb; omega)
      rw [h1]; simp [Res.isPanic]

theorem find_no_panic (s n : FS) (hs : s.wf) (st : Option Int) : ¬ (find s n st).isPanic := by
  have hl := len_chars s hs
  unfold find
  split
  · simp [Res.isPanic]
  · split
    · simp [Res.isPanic]
    · rename_i k _
      by_cases hk : k ≤ s.buf.length
      · obtain ⟨r, h⟩ := findFrom_ok s n hs k hk
        rw [h]; simp [Res.isPanic]
      · unfold findFrom
        rw [hl, if_pos (by omega)]; simp [Res.isPanic]

theorem rfind_no_panic (s n : FS) (hs : s.wf) (e : Option Int) : ¬ (rfind s n e).isPanic := by
  unfold rfind
  split
  · simp [Res.isPanic]
  · split
    · simp [Res.isPanic]
    · rename_i k _
      obtain ⟨r, h⟩ := rfindTo_ok s n hs k
      rw [h]; simp [Res.isPanic]

theorem substring_no_panic (s : FS) (hs : s.wf) (a b : Int) : ¬ (FStr.substring s a b).isPanic := by
  have hl := len_chars s hs
  unfold FStr.substring
  rw [hl]
  split
  · simp [Res.isPanic]
  · rename_i st _
    simp only
    split
    · simp [Res.isPanic]
    · rename_i e _
      split
      · simp [Res.isPanic]
      · rename_i hc
        split
        · simp [Res.isPanic]
        · obtain ⟨r, h1, _, _⟩ := substring_spec s hs st (some e) (by omega) (by intro b' hb; cases hb; omega)
          rw [h1]; simp [Res.isPanic]


theorem encodeChar_length (c : Char) : (encodeChar c).length = c.utf8Size := by
  unfold encodeChar Char.utf8Size
  simp only [Char.toNat, UInt32.le_iff_toNat_le]
  have h1 : (UInt32.ofNatLT 127 Char.utf8Size._proof_1).toNat = 127 := by decide
  have h2 : (UInt32.ofNatLT 2047 Char.utf8Size._proof_2).toNat = 2047 := by decide
  have h3 : (UInt32.ofNatLT 65535 Char.utf8Size._proof_3).toNat = 65535 := by decide
  rw [h1, h2, h3]
  generalize c.val.toNat = v
  by_cases a1 : v ≤ 127
  · simp [a1]
  · by_cases a2 : v ≤ 2047
    · simp [a1, a2]
    · by_cases a3 : v ≤ 65535
      · simp [a1, a2, a3]
      · simp [a1, a2, a3]

/-- the UTF-8 encoding shown by the driver has exactly the byte length the model computes with -/
theorem encode_length (cs : List Char) : (encode cs).length = byteLen cs := by
  induction cs with
  | nil => rfl
  | cons c cs ih =>
    simp only [encode, List.flatMap_cons, List.length_append, byteLen] at ih ⊢
    rw [encodeChar_length, ih]

end XrayModel.FStr
