/- Helper lemmas for C18: byte offsets vs. character indices, the FencedString invariant. -/
import XrayModel.FString
set_option linter.unusedSimpArgs false
namespace XrayModel.FStr
open FS

def FS.wf (s : FS) : Prop :=
  (s.starts = [] ∧ ∀ c ∈ s.buf, c.utf8Size = 1) ∨ s.starts = charStartsFrom 0 s.buf

theorem length_charStartsFrom (o : Nat) (cs : List Char) : (charStartsFrom o cs).length = cs.length := by
  induction cs generalizing o with
  | nil => rfl
  | cons c cs ih => simp [charStartsFrom, ih]

theorem byteLen_ascii {cs : List Char} (h : ∀ c ∈ cs, c.utf8Size = 1) : byteLen cs = cs.length := by
  induction cs with
  | nil => rfl
  | cons c cs ih =>
    simp only [byteLen, List.length_cons]
    rw [h c (by simp), ih (fun d hd => h d (by simp [hd]))]; omega

theorem byteLen_append (a b : List Char) : byteLen (a ++ b) = byteLen a + byteLen b := by
  induction a with
  | nil => simp [byteLen]
  | cons c cs ih => simp [byteLen, ih]; omega

theorem charStartsFrom_eq_nil {o : Nat} {cs : List Char} : charStartsFrom o cs = [] ↔ cs = [] := by
  cases cs <;> simp [charStartsFrom]

theorem len_chars (s : FS) (h : s.wf) : s.len = s.buf.length := by
  unfold FS.len
  rcases h with ⟨h1, h2⟩ | h
  · simp [h1, byteLen_ascii h2]
  · rw [h]
    split
    · rename_i he
      have : s.buf = [] := by
        simpa [charStartsFrom_eq_nil] using he
      simp [this, byteLen]
    · exact length_charStartsFrom 0 s.buf

theorem getElem?_charStartsFrom (o : Nat) (cs : List Char) (i : Nat) :
    (charStartsFrom o cs)[i]? = if i < cs.length then some (o + byteLen (cs.take i)) else none := by
  induction cs generalizing o i with
  | nil => simp [charStartsFrom]
  | cons c cs ih =>
    cases i with
    | zero => simp [charStartsFrom, byteLen]
    | succ i =>
      simp only [charStartsFrom, List.getElem?_cons_succ, ih, List.length_cons, List.take_succ_cons, byteLen]
      split <;> split <;> first | omega | rfl | (congr 1; omega)

theorem dropBytes_take (cs : List Char) (i : Nat) (h : i ≤ cs.length) :
    dropBytes cs (byteLen (cs.take i)) = some (cs.drop i) := by
  induction cs generalizing i with
  | nil => simp [byteLen, dropBytes]
  | cons c cs ih =>
    cases i with
    | zero => simp [byteLen, dropBytes]
    | succ i =>
      have hp := Char.utf8Size_pos c
      simp only [List.take_succ_cons, byteLen, List.drop_succ_cons]
      obtain ⟨k, hk⟩ : ∃ k, c.utf8Size + byteLen (cs.take i) = k + 1 := ⟨c.utf8Size + byteLen (cs.take i) - 1, by omega⟩
      rw [hk, dropBytes]
      rw [if_pos (by omega)]
      have : k + 1 - c.utf8Size = byteLen (cs.take i) := by omega
      rw [this]
      exact ih i (by simpa using h)

theorem takeBytes_take (cs : List Char) (i : Nat) (h : i ≤ cs.length) :
    takeBytes cs (byteLen (cs.take i)) = some (cs.take i) := by
  induction cs generalizing i with
  | nil => simp [byteLen, takeBytes]
  | cons c cs ih =>
    cases i with
    | zero => simp [byteLen, takeBytes]
    | succ i =>
      have hp := Char.utf8Size_pos c
      simp only [List.take_succ_cons, byteLen]
      obtain ⟨k, hk⟩ : ∃ k, c.utf8Size + byteLen (cs.take i) = k + 1 := ⟨c.utf8Size + byteLen (cs.take i) - 1, by omega⟩
      rw [hk, takeBytes]
      rw [if_pos (by omega)]
      have : k + 1 - c.utf8Size = byteLen (cs.take i) := by omega
      rw [this, ih i (by simpa using h)]
      rfl

theorem byteLen_take_le (cs : List Char) (i j : Nat) (h : i ≤ j) : byteLen (cs.take i) ≤ byteLen (cs.take j) := by
  induction cs generalizing i j with
  | nil => simp [byteLen]
  | cons c cs ih =>
    cases i with
    | zero => simp [byteLen]
    | succ i =>
      cases j with
      | zero => omega
      | succ j => simp only [List.take_succ_cons, byteLen]; have := ih i j (by omega); omega

theorem byteLen_take_sub (cs : List Char) (i j : Nat) (h : i ≤ j) :
    byteLen (cs.take j) - byteLen (cs.take i) = byteLen ((cs.drop i).take (j - i)) := by
  induction cs generalizing i j with
  | nil => simp [byteLen]
  | cons c cs ih =>
    cases i with
    | zero => simp [byteLen]
    | succ i =>
      cases j with
      | zero => omega
      | succ j =>
        simp only [List.take_succ_cons, byteLen, List.drop_succ_cons]
        have := ih i j (by omega)
        have e : j + 1 - (i + 1) = j - i := by omega
        rw [e, ← this]; omega

theorem slice_take (cs : List Char) (i j : Nat) (hij : i ≤ j) (hj : i ≤ cs.length) :
    slice cs (byteLen (cs.take i)) (byteLen (cs.take j)) = some ((cs.drop i).take (j - i)) := by
  unfold slice
  rw [if_pos (byteLen_take_le cs i j hij), dropBytes_take cs i hj]
  simp only [Option.bind_some]
  rw [byteLen_take_sub cs i j hij]
  by_cases hl : j - i ≤ (cs.drop i).length
  · exact takeBytes_take _ _ hl
  · have : (cs.drop i).take (j - i) = (cs.drop i).take (cs.drop i).length := by
      rw [List.take_length, List.take_of_length_le (by omega)]
    rw [this]
    exact takeBytes_take _ _ (Nat.le_refl _)

theorem hasGap_false_ascii (o : Nat) (c : Char) (cs : List Char)
    (h : hasGap (charStartsFrom o (c :: cs)) = false)
    (hl : ∀ l, (charStartsFrom o (c :: cs)).getLast? = some l → ¬ (l + 1 < o + byteLen (c :: cs))) :
    ∀ d ∈ c :: cs, d.utf8Size = 1 := by
  induction cs generalizing o c with
  | nil =>
    intro d hd
    simp only [List.mem_singleton] at hd
    subst hd
    have := hl o (by simp [charStartsFrom])
    simp [byteLen] at this
    have := Char.utf8Size_pos d
    omega
  | cons c2 cs ih =>
    simp only [charStartsFrom, hasGap, Bool.or_eq_false_iff, decide_eq_false_iff_not] at h
    have hc : c.utf8Size = 1 := by have := Char.utf8Size_pos c; omega
    have := ih (o + c.utf8Size) c2 (by simpa [charStartsFrom] using h.2) (by
      intro l hl'
      have := hl l (by simpa [charStartsFrom, List.getLast?_cons_cons] using hl')
      simp only [byteLen] at this ⊢
      omega)
    intro d hd
    rcases List.mem_cons.mp hd with rfl | hd
    · exact hc
    · exact this d hd

theorem hasGap_ascii (o : Nat) (cs : List Char) (h : ∀ d ∈ cs, d.utf8Size = 1) :
    hasGap (charStartsFrom o cs) = false := by
  induction cs generalizing o with
  | nil => rfl
  | cons c cs ih =>
    cases cs with
    | nil => rfl
    | cons c2 cs =>
      simp only [charStartsFrom, hasGap, Bool.or_eq_false_iff, decide_eq_false_iff_not]
      refine ⟨by rw [h c (by simp)]; omega, ?_⟩
      have := ih (o + c.utf8Size) (fun d hd => h d (by simp [hd]))
      simpa [charStartsFrom] using this

theorem getLast?_charStartsFrom (o : Nat) (c : Char) (cs : List Char) :
    ∃ l, (charStartsFrom o (c :: cs)).getLast? = some l ∧
      l + ((c :: cs).getLast (by simp)).utf8Size = o + byteLen (c :: cs) := by
  induction cs generalizing o c with
  | nil => exact ⟨o, by simp [charStartsFrom], by simp [byteLen]⟩
  | cons c2 cs ih =>
    obtain ⟨l, h1, h2⟩ := ih (o + c.utf8Size) c2
    refine ⟨l, by simpa [charStartsFrom, List.getLast?_cons_cons] using h1, ?_⟩
    simp only [List.getLast_cons_cons, byteLen] at h2 ⊢
    omega

/-- `from_string` establishes the invariant, in its canonical form: the table is empty exactly for pure ASCII -/
theorem fromString_spec (cs : List Char) :
    (fromString cs).buf = cs ∧ (fromString cs).wf ∧
    ((fromString cs).starts = [] ↔ ∀ c ∈ cs, c.utf8Size = 1) := by
  cases cs with
  | nil => simp [fromString, charStartsFrom, empty, FS.wf]
  | cons c cs =>
    obtain ⟨l, hl1, hl2⟩ := getLast?_charStartsFrom 0 c cs
    have hne : charStartsFrom 0 (c :: cs) ≠ [] := by simp [charStartsFrom]
    unfold fromString
    split
    · rename_i he; exact absurd he hne
    · simp only [hl1]
      by_cases hg : (hasGap (charStartsFrom 0 (c :: cs)) || decide (l + 1 < byteLen (c :: cs))) = true
      · rw [if_pos hg]
        refine ⟨by first | rfl | trivial, Or.inr rfl, ?_⟩
        constructor
        · intro h; exact absurd h hne
        · intro hall
          exfalso
          rw [hasGap_ascii 0 _ hall] at hg
          simp only [Bool.false_or, decide_eq_true_eq] at hg
          have := hall ((c :: cs).getLast (by simp)) (List.getLast_mem _)
          omega
      · rw [if_neg hg]
        simp only [Bool.or_eq_true, decide_eq_true_eq, not_or, Bool.not_eq_true] at hg
        have hall := hasGap_false_ascii 0 c cs hg.1 (by
          intro l' hl'
          rw [hl1] at hl'
          cases hl'
          omega)
        exact ⟨by first | rfl | trivial, Or.inl ⟨rfl, hall⟩, ⟨fun _ => hall, fun _ => rfl⟩⟩


theorem drop_charStartsFrom (o : Nat) (cs : List Char) (i : Nat) :
    (charStartsFrom o cs).drop i = charStartsFrom (o + byteLen (cs.take i)) (cs.drop i) := by
  induction cs generalizing o i with
  | nil => simp [charStartsFrom]
  | cons c cs ih =>
    cases i with
    | zero => simp [byteLen]
    | succ i =>
      simp only [charStartsFrom, List.drop_succ_cons, List.take_succ_cons, byteLen, ih]
      congr 1; omega

theorem take_charStartsFrom (o : Nat) (cs : List Char) (k : Nat) :
    (charStartsFrom o cs).take k = charStartsFrom o (cs.take k) := by
  induction cs generalizing o k with
  | nil => simp [charStartsFrom]
  | cons c cs ih =>
    cases k with
    | zero => simp [charStartsFrom]
    | succ k => simp [charStartsFrom, ih]

theorem rebase_charStartsFrom (b o : Nat) (cs : List Char) (h : b ≤ o) :
    rebase b (charStartsFrom o cs) = .ok (charStartsFrom (o - b) cs) := by
  induction cs generalizing o with
  | nil => rfl
  | cons c cs ih =>
    simp only [charStartsFrom, rebase]
    rw [if_neg (by omega), ih (o + c.utf8Size) (by omega)]
    simp only [Res.bind]
    congr 3; omega

theorem byteLen_take_length (cs : List Char) : byteLen (cs.take cs.length) = byteLen cs := by simp

/-- the slice operation is exact on a well-formed string, for every in-range request (the end is clipped
to the length, as for list slicing) -/
theorem substring_spec (s : FS) (hs : s.wf) (a : Nat) (e : Option Nat)
    (ha : a ≤ s.buf.length) (hae : ∀ b, e = some b → a ≤ b) :
    ∃ r, s.substring a e = .ok r ∧ r.wf ∧
      r.buf = match e with
        | some b => (s.buf.drop a).take (b - a)
        | none => s.buf.drop a := by
  have hlen := len_chars s hs
  rcases hs with ⟨h1, h2⟩ | h
  · -- ASCII branch
    have hb : ∀ i, byteLen (s.buf.take i) = min i s.buf.length := by
      intro i
      rw [byteLen_ascii (fun c hc => h2 c (List.mem_of_mem_take hc))]; simp
    have hsub : ∀ t, (∀ c ∈ (s.buf.drop a).take t, c.utf8Size = 1) :=
      fun t c hc => h2 c (List.mem_of_mem_drop (List.mem_of_mem_take hc))
    have hfrom : sliceFrom s.buf a = some (s.buf.drop a) := by
      have := dropBytes_take s.buf a ha
      rwa [hb a, Nat.min_eq_left ha] at this
    unfold FS.substring
    simp only [h1, List.isEmpty_nil, if_true, asciiSub]
    cases e with
    | none =>
      simp only [hfrom, optSlice, Res.bind]
      exact ⟨_, rfl, Or.inl ⟨rfl, fun c hc => h2 c (List.mem_of_mem_drop hc)⟩, rfl⟩
    | some b =>
      have hab := hae b rfl
      simp only
      split
      · rename_i hlt
        rw [hlen] at hlt
        have := slice_take s.buf a b hab ha
        rw [hb a, hb b, Nat.min_eq_left ha, Nat.min_eq_left (by omega)] at this
        simp only [this, optSlice, Res.bind]
        exact ⟨_, rfl, Or.inl ⟨rfl, hsub _⟩, rfl⟩
      · rename_i hge
        rw [hlen] at hge
        simp only [hfrom, optSlice, Res.bind]
        refine ⟨_, rfl, Or.inl ⟨rfl, fun c hc => h2 c (List.mem_of_mem_drop hc)⟩, ?_⟩
        simp only
        rw [List.take_of_length_le]
        simp; omega
  · -- table branch
    by_cases hemp : s.starts.isEmpty = true
    · -- the table is empty, so the buffer is empty
      have hbuf : s.buf = [] := by
        rw [h] at hemp
        simpa [charStartsFrom_eq_nil] using hemp
      have ha0 : a = 0 := by simpa [hbuf] using ha
      unfold FS.substring
      simp only [hemp, if_true, asciiSub, hbuf, ha0]
      cases e with
      | none => exact ⟨_, rfl, Or.inl ⟨rfl, by simp⟩, by simp [sliceFrom, dropBytes, optSlice, Res.bind]⟩
      | some b =>
        simp only [FS.len, hemp, if_true, hbuf, byteLen]
        simp only [Nat.not_lt_zero, if_false, sliceFrom, dropBytes, optSlice, Res.bind]
        exact ⟨_, rfl, Or.inl ⟨rfl, by simp⟩, by simp⟩
    · have hsl : s.starts.length = s.buf.length := by rw [h]; exact length_charStartsFrom 0 s.buf
      have hsb : startByte s a = .ok (byteLen (s.buf.take a)) := by
        unfold startByte
        by_cases hal : a = s.starts.length
        · rw [if_pos hal, hal, hsl]; simp
        · rw [if_neg hal, h, getElem?_charStartsFrom, if_pos (by omega)]; simp
      unfold FS.substring
      simp only [hemp, hsb, Res.bind]
      -- which end
      have key : ∀ (n : Nat), a ≤ n → n ≤ s.buf.length →
          (optSlice (slice s.buf (byteLen (s.buf.take a)) (byteLen (s.buf.take n))) "byte slice") = .ok ((s.buf.drop a).take (n - a)) ∧
          vecSlice s.starts a n = .ok (charStartsFrom (byteLen (s.buf.take a)) ((s.buf.drop a).take (n - a))) := by
        intro n han hn
        refine ⟨by rw [slice_take s.buf a n han ha]; rfl, ?_⟩
        unfold vecSlice
        rw [if_pos ⟨han, by omega⟩, h, drop_charStartsFrom, take_charStartsFrom]
        simp
      have fin : ∀ (cs : List Char), (rebase (byteLen (s.buf.take a)) (charStartsFrom (byteLen (s.buf.take a)) cs)) = .ok (charStartsFrom 0 cs) := by
        intro cs
        rw [rebase_charStartsFrom _ _ _ (Nat.le_refl _)]; simp
      cases e with
      | none =>
        simp only [Option.bind_none]
        have hk := key s.buf.length ha (Nat.le_refl _)
        have hfrom : sliceFrom s.buf (byteLen (s.buf.take a)) = some (s.buf.drop a) := dropBytes_take s.buf a ha
        rw [hsl]
        simp only [hfrom, optSlice, hk.2, Res.bind]
        have e1 : (s.buf.drop a).take (s.buf.length - a) = s.buf.drop a := by
          rw [List.take_of_length_le]; simp
        rw [e1, fin]
        exact ⟨_, rfl, Or.inr rfl, rfl⟩
      | some b =>
        have hab := hae b rfl
        simp only [Option.bind_some, h, getElem?_charStartsFrom]
        by_cases hbl : b < s.buf.length
        · rw [if_pos hbl]
          simp only [Nat.zero_add, Option.getD_some]
          have hk := key b hab (by omega)
          rw [h] at hk
          simp only [hk.1, hk.2, Res.bind, fin]
          exact ⟨_, rfl, Or.inr rfl, rfl⟩
        · rw [if_neg hbl]
          simp only
          have hk := key s.buf.length ha (Nat.le_refl _)
          have hfrom : sliceFrom s.buf (byteLen (s.buf.take a)) = some (s.buf.drop a) := dropBytes_take s.buf a ha
          rw [h] at hk
          rw [length_charStartsFrom]
          simp only [hfrom, optSlice, hk.2, Res.bind]
          have e1 : (s.buf.drop a).take (s.buf.length - a) = s.buf.drop a := by
            rw [List.take_of_length_le]; simp
          have e2 : (s.buf.drop a).take (b - a) = s.buf.drop a := by
            rw [List.take_of_length_le]; simp; omega
          rw [e1, fin, e2]
          exact ⟨_, rfl, Or.inr rfl, rfl⟩


end XrayModel.FStr
