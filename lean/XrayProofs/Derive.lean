/-
C19 — helper lemmas about the derivations (`XrayModel/Derive.lean`): what the derived functions
compute when the component functions are pure (never an error value), and the laws they inherit.
-/
import XrayModel.Derive
import Mathlib.Data.List.Perm.Basic

namespace XrayModel.Derive
open List

variable {α β σ : Type}

def PureEq (f : α → α → R Bool) (g : α → α → Bool) : Prop := ∀ a b, f a b = .ok (g a b)
def PureCmp (f : α → α → R Int) (c : α → α → Int) : Prop := ∀ a b, f a b = .ok (c a b)
def PureHash (f : α → R Int) (k : α → Int) : Prop := ∀ a, f a = .ok (k a)

/-- a Bool-valued equivalence relation -/
structure BEquiv (g : α → α → Bool) : Prop where
  refl : ∀ a, g a a = true
  symm : ∀ a b, g a b = true → g b a = true
  trans : ∀ a b c, g a b = true → g b c = true → g a c = true

def all2 (g : α → α → Bool) : List α → List α → Bool
  | a :: as, b :: bs => g a b && all2 g as bs
  | _, _ => true

theorem zipEq_pure {f : α → α → R Bool} {g : α → α → Bool} (hp : PureEq f g) (l0 l1 : List α) :
    zipEq f l0 l1 = .ok (all2 g l0 l1) := by
  induction l0 generalizing l1 with
  | nil => simp [zipEq, all2, pure, Except.pure]
  | cons a as ih =>
    cases l1 with
    | nil => simp [zipEq, all2, pure, Except.pure]
    | cons b bs =>
      simp only [zipEq, hp a b, all2, bind, Except.bind]
      cases g a b <;> simp [ih, pure, Except.pure]

def seqEqB (g : α → α → Bool) (l0 l1 : List α) : Bool := l0.length == l1.length && all2 g l0 l1

theorem seqEq_pure {f : α → α → R Bool} {g : α → α → Bool} (hp : PureEq f g) :
    PureEq (seqEq f) (seqEqB g) := by
  intro l0 l1
  simp only [seqEq, seqEqB, zipEq_pure hp]
  by_cases h : l0.length = l1.length <;> simp [h, pure, Except.pure]

theorem all2_refl {g : α → α → Bool} (h : ∀ a, g a a = true) (l : List α) : all2 g l l = true := by
  induction l with
  | nil => rfl
  | cons a t ih => simp [all2, h, ih]

theorem all2_symm {g : α → α → Bool} (h : ∀ a b, g a b = true → g b a = true) (l0 l1 : List α)
    (h1 : all2 g l0 l1 = true) : all2 g l1 l0 = true := by
  induction l0 generalizing l1 with
  | nil => cases l1 <;> simp [all2]
  | cons a t ih =>
    cases l1 with
    | nil => simp [all2]
    | cons b u =>
      simp only [all2, Bool.and_eq_true] at h1 ⊢
      exact ⟨h a b h1.1, ih u h1.2⟩

theorem all2_trans {g : α → α → Bool} (h : ∀ a b c, g a b = true → g b c = true → g a c = true)
    (l0 l1 l2 : List α) (hl : l0.length = l1.length)
    (h1 : all2 g l0 l1 = true) (h2 : all2 g l1 l2 = true) : all2 g l0 l2 = true := by
  induction l0 generalizing l1 l2 with
  | nil => simp [all2]
  | cons a t ih =>
    cases l1 with
    | nil => simp at hl
    | cons b u =>
      cases l2 with
      | nil => simp [all2]
      | cons c w =>
        simp only [all2, Bool.and_eq_true] at h1 h2 ⊢
        exact ⟨h a b c h1.1 h2.1, ih u w (by simpa using hl) h1.2 h2.2⟩

theorem seqEqB_equiv {g : α → α → Bool} (h : BEquiv g) : BEquiv (seqEqB g) where
  refl l := by simp [seqEqB, all2_refl h.refl]
  symm l0 l1 h1 := by
    simp only [seqEqB, Bool.and_eq_true, beq_iff_eq] at h1 ⊢
    exact ⟨h1.1.symm, all2_symm h.symm _ _ h1.2⟩
  trans l0 l1 l2 h1 h2 := by
    simp only [seqEqB, Bool.and_eq_true, beq_iff_eq] at h1 h2 ⊢
    exact ⟨h1.1.trans h2.1, all2_trans h.trans _ _ _ h1.1 h1.2 h2.2⟩

def optEqB (g : α → α → Bool) : Option α → Option α → Bool
  | some a, some b => g a b
  | o0, o1 => o0.isSome == o1.isSome

theorem optEq_pure {f : α → α → R Bool} {g : α → α → Bool} (hp : PureEq f g) :
    PureEq (optEq f) (optEqB g) := by
  intro o0 o1
  cases o0 <;> cases o1 <;> simp [optEq, optEqB, hp _ _, pure, Except.pure]

theorem optEqB_equiv {g : α → α → Bool} (h : BEquiv g) : BEquiv (optEqB g) where
  refl o := by cases o <;> simp [optEqB, h.refl]
  symm o0 o1 h1 := by
    cases o0 <;> cases o1 <;> simp_all [optEqB]
    exact h.symm _ _ h1
  trans o0 o1 o2 h1 h2 := by
    cases o0 <;> cases o1 <;> cases o2 <;> simp_all [optEqB]
    exact h.trans _ _ _ h1 h2

/-! tuples: one component relation per position; a tuple of that type has as many components -/

def all2s : List (α → α → Bool) → List α → List α → Bool
  | g :: gs, a :: as, b :: bs => g a b && all2s gs as bs
  | _, _, _ => true

theorem tupleEq_pure {fs : List (α → α → R Bool)} {gs : List (α → α → Bool)}
    (hp : List.Forall₂ PureEq fs gs) (l0 l1 : List α) :
    tupleEq fs l0 l1 = .ok (all2s gs l0 l1) := by
  induction hp generalizing l0 l1 with
  | nil => simp [tupleEq, all2s, pure, Except.pure]
  | @cons f g fs' gs' hfg _ ih =>
    cases l0 with
    | nil => simp [tupleEq, all2s, pure, Except.pure]
    | cons a as =>
      cases l1 with
      | nil => simp [tupleEq, all2s, pure, Except.pure]
      | cons b bs =>
        simp only [tupleEq, hfg a b, all2s, bind, Except.bind]
        cases g a b <;> simp [ih, pure, Except.pure]

theorem all2s_equiv {gs : List (α → α → Bool)} (h : ∀ g ∈ gs, BEquiv g) :
    (∀ l, all2s gs l l = true) ∧
    (∀ l0 l1, all2s gs l0 l1 = true → all2s gs l1 l0 = true) ∧
    (∀ l0 l1 l2, l1.length = gs.length → all2s gs l0 l1 = true → all2s gs l1 l2 = true →
      all2s gs l0 l2 = true) := by
  induction gs with
  | nil => simp [all2s]
  | cons g gs ih =>
    have hg := h g (by simp)
    obtain ⟨i1, i2, i3⟩ := ih (fun g' hg' => h g' (by simp [hg']))
    refine ⟨?_, ?_, ?_⟩
    · intro l; cases l with
      | nil => simp [all2s]
      | cons a t => simp [all2s, hg.refl, i1]
    · intro l0 l1 h1
      cases l0 with
      | nil => cases l1 <;> simp [all2s]
      | cons a t =>
        cases l1 with
        | nil => simp [all2s]
        | cons b u =>
          simp only [all2s, Bool.and_eq_true] at h1 ⊢
          exact ⟨hg.symm _ _ h1.1, i2 _ _ h1.2⟩
    · intro l0 l1 l2 hl h1 h2
      cases l1 with
      | nil => simp at hl
      | cons b u =>
        cases l0 with
        | nil => simp [all2s]
        | cons a t =>
          cases l2 with
          | nil => simp [all2s]
          | cons c w =>
            simp only [all2s, Bool.and_eq_true] at h1 h2 ⊢
            exact ⟨hg.trans _ _ _ h1.1 h2.1, i3 _ _ _ (by simpa using hl) h1.2 h2.2⟩

/-! ### hash -/

theorem toU64_range {h : Int} {u : Nat} (e : toU64 h = .ok u) : u < U64 := by
  unfold toU64 at e
  split at e
  · cases e; omega
  · cases e

theorem hashFold_range (H : Hasher σ) (hfin : ∀ s, H.finish s < U64) (s : σ) (l : List (R Int))
    (v : Int) (e : hashFold H s l = .ok v) : 0 ≤ v ∧ v < (U64 : Int) := by
  induction l generalizing s with
  | nil =>
    simp [hashFold, pure, Except.pure] at e
    subst e
    exact ⟨by omega, by exact_mod_cast hfin s⟩
  | cons h t ih =>
    simp only [hashFold, bind, Except.bind] at e
    cases h with
    | error m => simp at e
    | ok hv =>
      simp only at e
      cases hu : toU64 hv with
      | error m => simp [hu] at e
      | ok u => simp only [hu] at e; exact ih _ e

theorem all2_map_eq {g : α → α → Bool} {k : α → Int} (hc : ∀ a b, g a b = true → k a = k b)
    (l0 l1 : List α) (hl : l0.length = l1.length) (h : all2 g l0 l1 = true) :
    l0.map k = l1.map k := by
  induction l0 generalizing l1 with
  | nil => cases l1 with
    | nil => rfl
    | cons b u => simp at hl
  | cons a t ih =>
    cases l1 with
    | nil => simp at hl
    | cons b u =>
      simp only [all2, Bool.and_eq_true] at h
      simp [hc a b h.1, ih u (by simpa using hl) h.2]

theorem map_pure {f : α → R Int} {k : α → Int} (hp : PureHash f k) (l : List α) :
    l.map f = (l.map k).map Except.ok := by
  induction l with
  | nil => rfl
  | cons a t ih => simp [hp a, ih]

/-! ### set / mapping hash: independent of the iteration order of the buckets -/

theorem xor64_right_comm (a b c : Nat) : xor64 (xor64 a b) c = xor64 (xor64 a c) b := by
  show (a ^^^ b) ^^^ c = (a ^^^ c) ^^^ b
  rw [Nat.xor_assoc, Nat.xor_comm b c, ← Nat.xor_assoc]

theorem setHash_perm {b1 b2 : List (Nat × List α)} (h : b1.Perm b2) : setHash b1 = setHash b2 := by
  unfold setHash
  haveI : RightCommutative (fun (acc : Nat) (b : Nat × List α) => xor64 acc ((b.1 + b.2.length) % U64)) :=
    ⟨fun acc x y => xor64_right_comm _ _ _⟩
  exact h.foldl_eq 0

theorem setHash_range_aux (bs : List (Nat × List α)) (acc : Nat) (h : acc < U64) :
    bs.foldl (fun acc b => xor64 acc ((b.1 + b.2.length) % U64)) acc < U64 := by
  induction bs generalizing acc with
  | nil => exact h
  | cons b t ih =>
    apply ih
    have : (b.1 + b.2.length) % U64 < U64 := Nat.mod_lt _ (by decide)
    exact Nat.xor_lt_two_pow (n := 64) h this

theorem setHash_range (bs : List (Nat × List α)) : setHash bs < U64 :=
  setHash_range_aux bs 0 (by decide)

/-! ### cmp -/

def lexC (c : α → α → Int) (tie : Int) : List α → List α → Int
  | a :: as, b :: bs => if c a b ≠ 0 then c a b else lexC c tie as bs
  | _, _ => tie

theorem zipCmp_pure {f : α → α → R Int} {c : α → α → Int} (hp : PureCmp f c) (tie : Int)
    (l0 l1 : List α) : zipCmp f tie l0 l1 = .ok (lexC c tie l0 l1) := by
  induction l0 generalizing l1 with
  | nil => simp [zipCmp, lexC, pure, Except.pure]
  | cons a as ih =>
    cases l1 with
    | nil => simp [zipCmp, lexC, pure, Except.pure]
    | cons b bs =>
      simp only [zipCmp, hp a b, lexC, bind, Except.bind]
      by_cases h : c a b = 0 <;> simp [h, ih, pure, Except.pure]

def lenTie (l0 l1 : List α) : Int :=
  if l0.length < l1.length then -1 else if l0.length > l1.length then 1 else 0

def seqCmpI (c : α → α → Int) (l0 l1 : List α) : Int := lexC c (lenTie l0 l1) l0 l1

theorem seqCmp_pure {f : α → α → R Int} {c : α → α → Int} (hp : PureCmp f c) :
    PureCmp (seqCmp f) (seqCmpI c) := by
  intro l0 l1
  simp only [seqCmp, seqCmpI, lenTie, zipCmp_pure hp]

theorem lenTie_cons (a b : α) (l0 l1 : List α) : lenTie (a :: l0) (b :: l1) = lenTie l0 l1 := by
  simp [lenTie]

/-- lexicographic, with the shorter sequence first among a sequence and its extensions -/
theorem seqCmpI_cons (c : α → α → Int) (a b : α) (l0 l1 : List α) :
    seqCmpI c (a :: l0) (b :: l1) = if c a b ≠ 0 then c a b else seqCmpI c l0 l1 := by
  simp [seqCmpI, lexC, lenTie_cons]

theorem seqCmpI_nil_nil (c : α → α → Int) : seqCmpI c [] [] = 0 := by simp [seqCmpI, lexC, lenTie]
theorem seqCmpI_nil_cons (c : α → α → Int) (b : α) (l : List α) : seqCmpI c [] (b :: l) = -1 := by
  simp [seqCmpI, lexC, lenTie]
theorem seqCmpI_cons_nil (c : α → α → Int) (a : α) (l : List α) : seqCmpI c (a :: l) [] = 1 := by
  simp [seqCmpI, lexC, lenTie]

/-- a three-way comparison: zero exactly on `g`-equal values, sign-antisymmetric, transitive -/
structure Cmp3Ord (c : α → α → Int) (g : α → α → Bool) : Prop where
  zero_iff : ∀ a b, c a b = 0 ↔ g a b = true
  anti : ∀ a b, (c a b < 0 ↔ c b a > 0)
  trans_lt : ∀ x y z, c x y < 0 → c y z < 0 → c x z < 0
  /-- compatible with the equivalence -/
  congr_l : ∀ x y z, c x y = 0 → (c x z < 0 ↔ c y z < 0)
  congr_r : ∀ x y z, c y z = 0 → (c x y < 0 ↔ c x z < 0)

theorem seqCmpI_zero_iff {c : α → α → Int} {g : α → α → Bool} (h : Cmp3Ord c g) (l0 l1 : List α) :
    seqCmpI c l0 l1 = 0 ↔ seqEqB g l0 l1 = true := by
  induction l0 generalizing l1 with
  | nil =>
    cases l1 with
    | nil => simp [seqCmpI_nil_nil, seqEqB, all2]
    | cons b u => simp [seqCmpI_nil_cons, seqEqB]
  | cons a t ih =>
    cases l1 with
    | nil => simp [seqCmpI_cons_nil, seqEqB]
    | cons b u =>
      rw [seqCmpI_cons]
      have ih' := ih u
      simp only [seqEqB, List.length_cons, all2, Bool.and_eq_true, beq_iff_eq] at ih' ⊢
      by_cases hc : c a b = 0
      · have := (h.zero_iff a b).mp hc
        simp [hc, this, ih']
      · have : g a b = false := by
          cases hg : g a b with
          | false => rfl
          | true => exact absurd ((h.zero_iff a b).mpr hg) hc
        simp [hc, this]

theorem seqCmpI_anti {c : α → α → Int} {g : α → α → Bool} (h : Cmp3Ord c g) (l0 l1 : List α) :
    seqCmpI c l0 l1 < 0 ↔ seqCmpI c l1 l0 > 0 := by
  induction l0 generalizing l1 with
  | nil =>
    cases l1 with
    | nil => simp [seqCmpI_nil_nil]
    | cons b u => simp [seqCmpI_nil_cons, seqCmpI_cons_nil]
  | cons a t ih =>
    cases l1 with
    | nil => simp [seqCmpI_nil_cons, seqCmpI_cons_nil]
    | cons b u =>
      rw [seqCmpI_cons, seqCmpI_cons]
      have hz : c a b = 0 ↔ c b a = 0 := by
        constructor
        · intro e
          have h1 := h.anti a b; have h2 := h.anti b a
          omega
        · intro e
          have h1 := h.anti a b; have h2 := h.anti b a
          omega
      by_cases hc : c a b = 0
      · simp [hc, hz.mp hc, ih u]
      · have hc' : c b a ≠ 0 := fun e => hc (hz.mpr e)
        simp [hc, hc', h.anti a b]

theorem Cmp3Ord.zero_symm {c : α → α → Int} {g : α → α → Bool} (h : Cmp3Ord c g) {a b : α}
    (e : c a b = 0) : c b a = 0 := by
  have h1 := h.anti a b; have h2 := h.anti b a
  omega

theorem Cmp3Ord.zero_trans {c : α → α → Int} {g : α → α → Bool} (h : Cmp3Ord c g) {x y z : α}
    (e1 : c x y = 0) (e2 : c y z = 0) : c x z = 0 := by
  have h1 := h.congr_l x y z e1
  have h2 := h.congr_r z y x (h.zero_symm e1)
  have h3 := h.anti z y
  have h4 := h.anti x z
  have h5 := h.anti z x
  omega

theorem seqCmpI_trans {c : α → α → Int} {g : α → α → Bool} (h : Cmp3Ord c g) (l0 l1 l2 : List α)
    (h1 : seqCmpI c l0 l1 < 0) (h2 : seqCmpI c l1 l2 < 0) : seqCmpI c l0 l2 < 0 := by
  induction l0 generalizing l1 l2 with
  | nil =>
    cases l1 with
    | nil => simp [seqCmpI_nil_nil] at h1
    | cons b u =>
      cases l2 with
      | nil => simp [seqCmpI_cons_nil] at h2
      | cons d w => simp [seqCmpI_nil_cons]
  | cons a t ih =>
    cases l1 with
    | nil => simp [seqCmpI_cons_nil] at h1
    | cons b u =>
      cases l2 with
      | nil => simp [seqCmpI_cons_nil] at h2
      | cons d w =>
        rw [seqCmpI_cons] at h1 h2 ⊢
        by_cases hab : c a b = 0 <;> by_cases hbd : c b d = 0
        · simp only [hab, hbd, ne_eq, not_true_eq_false, ite_false] at h1 h2
          simp only [h.zero_trans hab hbd, ne_eq, not_true_eq_false, ite_false]
          exact ih u w h1 h2
        · simp only [hab, hbd, ne_eq, not_true_eq_false, not_false_eq_true, ite_false, ite_true] at h1 h2
          have := (h.congr_l a b d hab).mpr h2
          have hne : c a d ≠ 0 := by omega
          simp [hne, this]
        · simp only [hab, hbd, ne_eq, not_true_eq_false, not_false_eq_true, ite_false, ite_true] at h1 h2
          have := (h.congr_r a b d hbd).mp h1
          have hne : c a d ≠ 0 := by omega
          simp [hne, this]
        · simp only [hab, hbd, ne_eq, not_false_eq_true, ite_true] at h1 h2
          have := h.trans_lt a b d h1 h2
          have hne : c a d ≠ 0 := by omega
          simp [hne, this]

/-- the integers with `sign (a - b)` are an instance -/
theorem int_cmp3ord : Cmp3Ord (fun a b : Int => sign (a - b)) (fun a b => a == b) where
  zero_iff a b := by simp only [sign]; split <;> [skip; split] <;> simp <;> omega
  anti a b := by simp only [sign]; split <;> split <;> (try split) <;> (try split) <;> omega
  trans_lt x y z := by simp only [sign]; split <;> split <;> (try split) <;> (try split) <;> (try split) <;> omega
  congr_l x y z := by simp only [sign]; split <;> split <;> (try split) <;> (try split) <;> (try split) <;> omega
  congr_r x y z := by simp only [sign]; split <;> split <;> (try split) <;> (try split) <;> (try split) <;> omega

/-! ### only the SIGN of a component comparison matters -/

theorem sign_eq_iff {x y : Int} (h : sign x = sign y) : (x < 0 ↔ y < 0) ∧ (x = 0 ↔ y = 0) ∧ (x > 0 ↔ y > 0) := by
  unfold sign at h
  split at h <;> split at h <;> (try split at h) <;> (try split at h) <;> omega

theorem seqCmpI_sign_congr {c c' : α → α → Int} (hs : ∀ a b, sign (c a b) = sign (c' a b))
    (l0 l1 : List α) : sign (seqCmpI c l0 l1) = sign (seqCmpI c' l0 l1) := by
  induction l0 generalizing l1 with
  | nil =>
    cases l1 with
    | nil => simp [seqCmpI_nil_nil]
    | cons b u => simp [seqCmpI_nil_cons]
  | cons a t ih =>
    cases l1 with
    | nil => simp [seqCmpI_cons_nil]
    | cons b u =>
      rw [seqCmpI_cons, seqCmpI_cons]
      have h := sign_eq_iff (hs a b)
      by_cases e : c a b = 0
      · have e' : c' a b = 0 := h.2.1.mp e
        simp [e, e', ih u]
      · have e' : c' a b ≠ 0 := fun q => e (h.2.1.mpr q)
        simp [e, e', hs a b]

/-- a user-style comparison with results far from {-1, 0, 1} -/
theorem scaled_int_cmp3ord : Cmp3Ord (fun a b : Int => (a - b) * 7) (fun a b => a == b) where
  zero_iff a b := by simp; omega
  anti a b := by constructor <;> intro h <;> omega
  trans_lt x y z := by intro h1 h2; omega
  congr_l x y z := by intro h; constructor <;> intro h' <;> omega
  congr_r x y z := by intro h; constructor <;> intro h' <;> omega

/-! ### coherence from the leaves: `eq a b → cmp a b = 0` at the leaves gives it for sequences -/

theorem seqCmpI_zero_of_eq {c : α → α → Int} {g : α → α → Bool}
    (h : ∀ a b, g a b = true → c a b = 0) (l0 l1 : List α) (he : seqEqB g l0 l1 = true) :
    seqCmpI c l0 l1 = 0 := by
  induction l0 generalizing l1 with
  | nil =>
    cases l1 with
    | nil => exact seqCmpI_nil_nil c
    | cons b u => simp [seqEqB] at he
  | cons a t ih =>
    cases l1 with
    | nil => simp [seqEqB] at he
    | cons b u =>
      simp only [seqEqB, List.length_cons, all2, Bool.and_eq_true, beq_iff_eq] at he
      rw [seqCmpI_cons, h a b he.2.1]
      simp only [ne_eq, not_true_eq_false, ite_false]
      apply ih
      simp only [seqEqB, Bool.and_eq_true, beq_iff_eq]
      exact ⟨by omega, he.2.2⟩

end XrayModel.Derive
