/- compile_correct for the function-free fragment: the simulation (see XrayProofs/CompileCorrect.lean). -/
import XrayProofs.CompileCorrect
namespace XrayModel.CellRun
open XrayModel.Scope

def cr : Core.Res → CRes
  | .val v => .val (ofCore v)
  | .viol k => .viol k
  | .tail a => .tail (a.map ofCore)
  | .stuck w => .stuck w
  | .oof => .oof

def crl : Except Core.Res (List Core.Val) → Except CRes (List CVal)
  | .ok vs => .ok (vs.map ofCore)
  | .error r => .error (cr r)

def Good : Core.Res → Prop
  | .val v => closFree v = true
  | .tail _ => False
  | _ => True

def GoodL : Except Core.Res (List Core.Val) → Prop
  | .ok vs => ∀ v ∈ vs, closFree v = true
  | .error r => Good r

/-- the named environment and the cells of the activation hold the same (function-free) values under the
compile-time map from names to cells -/
def FrRel (env : List (String × Core.Val)) (vars : List (String × Nat)) (rfr : RFrame) : Prop :=
  ∀ x, match Core.lookup x env with
       | some v => closFree v = true ∧ ∃ k, Scope.lookup x vars = some k ∧ rfr.cells[k]? = some (.owned (.value (ofCore v)))
       | none => Scope.lookup x vars = none

theorem frame_get (fr : Core.Frame) (hs : fr.self = none) (x : String) : fr.get x = Core.lookup x fr.env := by
  simp only [Core.Frame.get, hs]
  cases Core.lookup x fr.env <;> rfl

theorem readValue_value (n : Nat) (a b : RFrame) (v : CVal) : readValue (n + 1) a b (.value v) = .val v := by
  simp [readValue]

def Sim (cfg : Core.Cfg) (n : Nat) : Prop :=
  (∀ e, exprOK e = true → ∀ (fr : Core.Frame) rfr vars tail st, fr.self = none → FrRel fr.env vars rfr →
    eval n cfg rfr (cx vars e) tail st = (cr (Core.eval n cfg fr e tail st).1, (Core.eval n cfg fr e tail st).2) ∧
    Good (Core.eval n cfg fr e tail st).1) ∧
  (∀ es, exprsOK es = true → ∀ (fr : Core.Frame) rfr vars st, fr.self = none → FrRel fr.env vars rfr →
    evalList n cfg rfr (cxs vars es) st = (crl (Core.evalList n cfg fr es st).1, (Core.evalList n cfg fr es st).2) ∧
    GoodL (Core.evalList n cfg fr es st).1) ∧
  (∀ f args, exprsOK args = true → ∀ (fr : Core.Frame) rfr vars tail st, fr.self = none → FrRel fr.env vars rfr →
    builtin n cfg rfr f (cxs vars args) tail st = (cr (Core.builtin n cfg fr f args tail st).1, (Core.builtin n cfg fr f args tail st).2) ∧
    Good (Core.builtin n cfg fr f args tail st).1)

theorem sim_zero (cfg : Core.Cfg) : Sim cfg 0 := by
  refine ⟨?_, ?_, ?_⟩
  · intro e _ fr rfr vars tail st _ _; simp [eval, Core.eval, cr, Good]
  · intro es _ fr rfr vars st _ _; simp [evalList, Core.evalList, crl, cr, GoodL, Good]
  · intro f args _ fr rfr vars tail st _ _; simp [builtin, Core.builtin, cr, Good]

/-- the list step, from the expression step at the same fuel -/
theorem sim_list (cfg : Core.Cfg) (n : Nat) (h1 : Sim cfg n) :
    ∀ es, exprsOK es = true → ∀ (fr : Core.Frame) rfr vars st, fr.self = none → FrRel fr.env vars rfr →
    evalList (n + 1) cfg rfr (cxs vars es) st = (crl (Core.evalList (n + 1) cfg fr es st).1, (Core.evalList (n + 1) cfg fr es st).2) ∧
    GoodL (Core.evalList (n + 1) cfg fr es st).1 := by
  intro es hok fr rfr vars st hs hrel
  cases es with
  | nil => simp [cxs, evalList, Core.evalList, crl, GoodL]
  | cons e rest =>
    simp only [exprsOK, Bool.and_eq_true] at hok
    obtain ⟨he, hg⟩ := h1.1 e hok.1 fr rfr vars false st hs hrel
    simp only [cxs, evalList, Core.evalList, he]
    cases hr : Core.eval n cfg fr e false st with
    | mk r st1 =>
      rw [hr] at hg
      cases r with
      | val v =>
        simp only [Good] at hg
        obtain ⟨hl, hgl⟩ := h1.2.1 rest hok.2 fr rfr vars st1 hs hrel
        cases hrl : Core.evalList n cfg fr rest st1 with
        | mk rl st2 =>
          rw [hrl] at hgl hl
          cases v with
          | clos f d e => simp [closFree] at hg
          | err m => simp [cr, ofCore, crl, GoodL, Good, closFree]
          | int a => simp only [cr, ofCore, hl]; cases rl <;> simp_all [crl, GoodL, ofCore, closFree]
          | bool a => simp only [cr, ofCore, hl]; cases rl <;> simp_all [crl, GoodL, ofCore, closFree]
          | str a => simp only [cr, ofCore, hl]; cases rl <;> simp_all [crl, GoodL, ofCore, closFree]
          | tup a => simp only [cr, ofCore, hl]; cases rl <;> simp_all [crl, GoodL, ofCore]
          | arr a => simp only [cr, ofCore, hl]; cases rl <;> simp_all [crl, GoodL, ofCore]
      | viol k => simp [cr, crl, GoodL, Good]
      | tail a => simp [Good] at hg
      | stuck w => simp [cr, crl, GoodL, Good]
      | oof => simp [cr, crl, GoodL, Good]

theorem getCell_owned (rfr : RFrame) (k : Nat) (e : ECell) (h : rfr.cells[k]? = some (.owned e)) :
    getCell rfr k = some e := by
  simp [getCell, h, TCell.asRef]

/-- the expression step -/
theorem sim_eval (cfg : Core.Cfg) (n : Nat) (hn : Sim cfg n) (hprev : ∀ m, m < n → Sim cfg m) :
    ∀ e, exprOK e = true → ∀ (fr : Core.Frame) rfr vars tail st, fr.self = none → FrRel fr.env vars rfr →
    eval (n + 1) cfg rfr (cx vars e) tail st = (cr (Core.eval (n + 1) cfg fr e tail st).1, (Core.eval (n + 1) cfg fr e tail st).2) ∧
    Good (Core.eval (n + 1) cfg fr e tail st).1 := by
  intro e hok fr rfr vars tail st hs hrel
  cases e with
  | int v => simp [cx, eval, Core.eval, cr, litVal, ofCore, Good, closFree]
  | bool v => simp [cx, eval, Core.eval, cr, litVal, ofCore, Good, closFree]
  | str v => simp [cx, eval, Core.eval, cr, litVal, ofCore, Good, closFree]
  | callE f args => simp [exprOK] at hok
  | lam f => simp [exprOK] at hok
  | var x =>
    have hx := hrel x
    simp only [Core.eval, frame_get fr hs]
    cases hl : Core.lookup x fr.env with
    | none =>
      rw [hl] at hx
      simp [cx, hx, eval, cr, Good]
    | some v =>
      rw [hl] at hx
      obtain ⟨hcf, k, hk, hc⟩ := hx
      simp [cx, hk, eval, getCell_owned rfr k _ hc, readValue, cr, Good, hcf]
  | tup es =>
    simp only [exprOK] at hok
    obtain ⟨hl, hgl⟩ := hn.2.1 es hok fr rfr vars st hs hrel
    simp only [cx, eval, Core.eval, hl]
    cases hrl : Core.evalList n cfg fr es st with
    | mk rl st2 =>
      rw [hrl] at hgl
      cases rl with
      | ok vs => simp only [GoodL] at hgl; simp [crl, cr, ofCore, Good, closFree_tup]; exact hgl
      | error r => simpa [crl, GoodL] using hgl
  | arr es =>
    simp only [exprOK] at hok
    obtain ⟨hl, hgl⟩ := hn.2.1 es hok fr rfr vars st hs hrel
    simp only [cx, eval, Core.eval, hl]
    cases hrl : Core.evalList n cfg fr es st with
    | mk rl st2 =>
      rw [hrl] at hgl
      cases rl with
      | ok vs => simp only [GoodL] at hgl; simp [crl, cr, ofCore, Good, closFree_arr]; exact hgl
      | error r => simpa [crl, GoodL] using hgl
  | item e i =>
    simp only [exprOK] at hok
    obtain ⟨he, hg⟩ := hn.1 e hok fr rfr vars false st hs hrel
    simp only [cx, eval, Core.eval, he]
    cases hr : Core.eval n cfg fr e false st with
    | mk r st1 =>
      rw [hr] at hg
      cases r with
      | val v =>
        simp only [Good] at hg
        cases v with
        | clos f d e => simp [closFree] at hg
        | tup vs =>
          have hvs := (closFree_tup vs).mp hg
          simp only [cr, ofCore, List.getElem?_map]
          cases hi : vs[i]? with
          | none => simp [cr, Good]
          | some w => simp [cr, Good, hvs w (List.mem_of_getElem? hi)]
        | _ => simp [cr, ofCore, Good, closFree]
      | viol k => simp [cr, Good]
      | tail a => simp [Good] at hg
      | stuck w => simp [cr, Good]
      | oof => simp [cr, Good]
  | call f args =>
    simp only [exprOK] at hok
    have hargs := hok
    simp only [Core.eval, hs]
    have hf := hrel f
    cases hl : Core.lookup f fr.env with
    | none =>
      rw [hl] at hf
      simp only [cx, hf, eval]
      cases n with
      | zero => simp [builtinStage, Core.callNamed, cr, Good]
      | succ m =>
        simp only [builtinStage, Core.callNamed, frame_get fr hs, hl]
        exact (hprev m (Nat.lt_succ_self m)).2.2 f args hargs fr rfr vars tail st hs hrel
    | some v =>
      rw [hl] at hf
      obtain ⟨hcf, k, hk, hc⟩ := hf
      have hg := getCell_owned rfr k _ hc
      simp only [cx, hk, eval, hg]
      simp only [Bool.false_and, Bool.false_eq_true, if_false]
      cases n with
      | zero => simp [callCell, Core.callNamed, cr, Good]
      | succ m =>
        simp only [callCell, hg, readValue, Core.callNamed, frame_get fr hs, hl]
        cases m with
        | zero => simp [callVal, Core.callVal, cr, Good]
        | succ g =>
          cases v with
          | clos f' d e => simp [closFree] at hcf
          | _ => simp [callVal, Core.callVal, ofCore, cr, Good, closFree]

/-- the shapes `builtin` dispatches on -/
structure NoSpecial {α : Type} (f : String) (args : List α) : Prop where
  nif : ∀ c a b, f = "if" → args = [c, a, b] → False
  nand : ∀ a b, f = "and" → args = [a, b] → False
  nor : ∀ a b, f = "or" → args = [a, b] → False
  niferr : ∀ a b, f = "if_error" → args = [a, b] → False
  niserr : ∀ a, f = "is_error" → args = [a] → False
  ndisp : ∀ a, f = "display" → args = [a] → False

theorem core_builtin_default (n : Nat) (cfg : Core.Cfg) (fr : Core.Frame) (f : String) (args : List Core.Expr)
    (tail : Bool) (st : St) (h : NoSpecial f args) :
    Core.builtin (n + 1) cfg fr f args tail st =
      (if Core.isStrictPrim f then
        match Core.evalList n cfg fr args st with
        | (.ok vs, st') => (Core.prim f vs, st')
        | (.error r, st') => (r, st')
      else (.stuck ("unknown function " ++ f), st)) := by
  simp only [Core.builtin]
  split <;> first
    | (exact absurd rfl (fun e => h.nif _ _ _ rfl e)) | (exact absurd rfl (fun e => h.nand _ _ rfl e))
    | (exact absurd rfl (fun e => h.nor _ _ rfl e)) | (exact absurd rfl (fun e => h.niferr _ _ rfl e))
    | (exact absurd rfl (fun e => h.niserr _ rfl e)) | (exact absurd rfl (fun e => h.ndisp _ rfl e)) | rfl

theorem cell_builtin_default (n : Nat) (cfg : Core.Cfg) (fr : RFrame) (f : String) (args : List XE)
    (tail : Bool) (st : St) (h : NoSpecial f args) :
    builtin (n + 1) cfg fr f args tail st =
      (if Core.isStrictPrim f then
        match evalList n cfg fr args st with
        | (.ok vs, st') => (cprim f vs, st')
        | (.error r, st') => (r, st')
      else (.stuck ("unknown function " ++ f), st)) := by
  rw [builtin.eq_def]
  simp only []
  split <;> first
    | (exact absurd rfl (fun e => h.nif _ _ _ rfl e)) | (exact absurd rfl (fun e => h.nand _ _ rfl e))
    | (exact absurd rfl (fun e => h.nor _ _ rfl e)) | (exact absurd rfl (fun e => h.niferr _ _ rfl e))
    | (exact absurd rfl (fun e => h.niserr _ rfl e)) | (exact absurd rfl (fun e => h.ndisp _ rfl e)) | rfl

theorem prim_shape (f : String) (args : List Core.Val) :
    (∃ v, Core.prim f args = .val v) ∨ (∃ w, Core.prim f args = .stuck w) := by
  unfold Core.prim
  split <;> first | (exact Or.inl ⟨_, rfl⟩) | (exact Or.inr ⟨_, rfl⟩) | (split <;> first | (exact Or.inl ⟨_, rfl⟩) | (exact Or.inr ⟨_, rfl⟩))

theorem cprim_ofCore (f : String) (vs : List Core.Val) (h : ∀ v ∈ vs, closFree v = true) :
    cprim f (vs.map ofCore) = cr (Core.prim f vs) ∧ Good (Core.prim f vs) := by
  simp only [cprim, toCore_ofCore_list vs h]
  rcases prim_shape f vs with ⟨v, hv⟩ | ⟨w, hw⟩
  · rw [hv]; exact ⟨rfl, prim_closFree f vs v hv⟩
  · rw [hw]; exact ⟨rfl, trivial⟩

theorem cxs_length (vars : List (String × Nat)) (es : List Core.Expr) : (cxs vars es).length = es.length := by
  induction es with
  | nil => simp [cxs]
  | cons e rest ih => simp [cxs, ih]

theorem cxs_eq1 (vars : List (String × Nat)) (args : List Core.Expr) (x : XE) (h : cxs vars args = [x]) :
    ∃ a, args = [a] := by
  match args, h with
  | [a], _ => exact ⟨a, rfl⟩

theorem cxs_eq2 (vars : List (String × Nat)) (args : List Core.Expr) (x y : XE) (h : cxs vars args = [x, y]) :
    ∃ a b, args = [a, b] := by
  match args, h with
  | [a, b], _ => exact ⟨a, b, rfl⟩

theorem cxs_eq3 (vars : List (String × Nat)) (args : List Core.Expr) (x y z : XE) (h : cxs vars args = [x, y, z]) :
    ∃ a b c, args = [a, b, c] := by
  match args, h with
  | [a, b, c], _ => exact ⟨a, b, c, rfl⟩

/-- the native step -/
theorem sim_builtin (cfg : Core.Cfg) (n : Nat) (hn : Sim cfg n) :
    ∀ f args, exprsOK args = true → ∀ (fr : Core.Frame) rfr vars tail st, fr.self = none → FrRel fr.env vars rfr →
    builtin (n + 1) cfg rfr f (cxs vars args) tail st = (cr (Core.builtin (n + 1) cfg fr f args tail st).1, (Core.builtin (n + 1) cfg fr f args tail st).2) ∧
    Good (Core.builtin (n + 1) cfg fr f args tail st).1 := by
  intro f args hargs fr rfr vars tail st hs hrel
  by_cases h1 : ∃ c a b, f = "if" ∧ args = [c, a, b]
  · obtain ⟨c, a, b, rfl, rfl⟩ := h1
    simp only [exprsOK, Bool.and_eq_true, Bool.and_true] at hargs
    obtain ⟨hc, ha, hb⟩ := hargs
    obtain ⟨he, hg⟩ := hn.1 c hc fr rfr vars false st hs hrel
    simp only [cxs, builtin, Core.builtin, he]
    cases hr : Core.eval n cfg fr c false st with
    | mk r st1 =>
      rw [hr] at hg
      cases r with
      | val v =>
        cases v with
        | bool t =>
          rw [show cr (Core.Res.val (Core.Val.bool t)) = CRes.val (CVal.bool t) from by simp [cr, ofCore]]
          cases t
          · simp only [Bool.false_eq_true, if_false]; exact hn.1 b hb fr rfr vars tail st1 hs hrel
          · simp only [if_true]; exact hn.1 a ha fr rfr vars tail st1 hs hrel
        | clos f d e => simp [Good, closFree] at hg
        | _ => simp [cr, ofCore, Good, closFree]
      | viol k => simp [cr, Good]
      | tail a => simp [Good] at hg
      | stuck w => simp [cr, Good]
      | oof => simp [cr, Good]
  by_cases h2 : ∃ a b, f = "and" ∧ args = [a, b]
  · obtain ⟨a, b, rfl, rfl⟩ := h2
    simp only [exprsOK, Bool.and_eq_true, Bool.and_true] at hargs
    obtain ⟨ha, hb⟩ := hargs
    obtain ⟨he, hg⟩ := hn.1 a ha fr rfr vars false st hs hrel
    simp only [cxs, builtin, Core.builtin, he]
    cases hr : Core.eval n cfg fr a false st with
    | mk r st1 =>
      rw [hr] at hg
      cases r with
      | val v =>
        cases v with
        | bool t =>
          rw [show cr (Core.Res.val (Core.Val.bool t)) = CRes.val (CVal.bool t) from by simp [cr, ofCore]]
          cases t
          · simp [cr, ofCore, Good, closFree]
          · exact hn.1 b hb fr rfr vars tail st1 hs hrel
        | clos f d e => simp [Good, closFree] at hg
        | _ => simp [cr, ofCore, Good, closFree]
      | viol k => simp [cr, Good]
      | tail a => simp [Good] at hg
      | stuck w => simp [cr, Good]
      | oof => simp [cr, Good]
  by_cases h3 : ∃ a b, f = "or" ∧ args = [a, b]
  · obtain ⟨a, b, rfl, rfl⟩ := h3
    simp only [exprsOK, Bool.and_eq_true, Bool.and_true] at hargs
    obtain ⟨ha, hb⟩ := hargs
    obtain ⟨he, hg⟩ := hn.1 a ha fr rfr vars false st hs hrel
    simp only [cxs, builtin, Core.builtin, he]
    cases hr : Core.eval n cfg fr a false st with
    | mk r st1 =>
      rw [hr] at hg
      cases r with
      | val v =>
        cases v with
        | bool t =>
          rw [show cr (Core.Res.val (Core.Val.bool t)) = CRes.val (CVal.bool t) from by simp [cr, ofCore]]
          cases t
          · exact hn.1 b hb fr rfr vars tail st1 hs hrel
          · simp [cr, ofCore, Good, closFree]
        | clos f d e => simp [Good, closFree] at hg
        | _ => simp [cr, ofCore, Good, closFree]
      | viol k => simp [cr, Good]
      | tail a => simp [Good] at hg
      | stuck w => simp [cr, Good]
      | oof => simp [cr, Good]
  by_cases h4 : ∃ a b, f = "if_error" ∧ args = [a, b]
  · obtain ⟨a, b, rfl, rfl⟩ := h4
    simp only [exprsOK, Bool.and_eq_true, Bool.and_true] at hargs
    obtain ⟨ha, hb⟩ := hargs
    obtain ⟨he, hg⟩ := hn.1 a ha fr rfr vars false st hs hrel
    simp only [cxs, builtin, Core.builtin, he]
    cases hr : Core.eval n cfg fr a false st with
    | mk r st1 =>
      rw [hr] at hg
      cases r with
      | val v =>
        cases v with
        | err m =>
          rw [show cr (Core.Res.val (Core.Val.err m)) = CRes.val (CVal.err m) from by simp [cr, ofCore]]
          exact hn.1 b hb fr rfr vars tail st1 hs hrel
        | clos f d e => simp [Good, closFree] at hg
        | _ => simp only [Good] at hg; simp [cr, ofCore, Good, hg]
      | viol k => simp [cr, Good]
      | tail a => simp [Good] at hg
      | stuck w => simp [cr, Good]
      | oof => simp [cr, Good]
  by_cases h5 : ∃ a, f = "is_error" ∧ args = [a]
  · obtain ⟨a, rfl, rfl⟩ := h5
    simp only [exprsOK, Bool.and_true] at hargs
    obtain ⟨he, hg⟩ := hn.1 a hargs fr rfr vars false st hs hrel
    simp only [cxs, builtin, Core.builtin, he]
    cases hr : Core.eval n cfg fr a false st with
    | mk r st1 =>
      rw [hr] at hg
      cases r with
      | val v =>
        simp only [Good] at hg
        simp [cr, ofCore, Good, closFree, ofCore_isErr v hg]
      | viol k => simp [cr, Good]
      | tail a => simp [Good] at hg
      | stuck w => simp [cr, Good]
      | oof => simp [cr, Good]
  by_cases hd : ∃ a, f = "display" ∧ args = [a]
  · obtain ⟨a, rfl, rfl⟩ := hd
    simp only [exprsOK, Bool.and_true] at hargs
    obtain ⟨he, hg⟩ := hn.1 a hargs fr rfr vars false st hs hrel
    simp only [cxs, builtin, Core.builtin, he]
    cases hr : Core.eval n cfg fr a false st with
    | mk r st1 =>
      rw [hr] at hg
      cases r with
      | val v =>
        simp only [Good] at hg
        have hts : toStr (ofCore v) = Core.toStr v := by simp [toStr, toCore_ofCore v hg]
        cases v with
        | clos f d e => simp [closFree] at hg
        | err m => simp [cr, ofCore, Good, closFree]
        | int a => simp only [ofCore] at hts; simp only [cr, ofCore, hts]; simp [Core.toStr, Good, closFree, ofCore, cr]
        | bool a => simp only [ofCore] at hts; simp only [cr, ofCore, hts]; simp [Core.toStr, Good, closFree, ofCore, cr]
        | str a => simp only [ofCore] at hts; simp only [cr, ofCore, hts]; simp [Core.toStr, Good, closFree, ofCore, cr]
        | tup a => simp only [ofCore] at hts; simp only [cr, ofCore, hts]; simp [Core.toStr, Good, hg, ofCore, cr]
        | arr a => simp only [ofCore] at hts; simp only [cr, ofCore, hts]; simp [Core.toStr, Good, hg, ofCore, cr]
      | viol k => simp [cr, Good]
      | tail a => simp [Good] at hg
      | stuck w => simp [cr, Good]
      | oof => simp [cr, Good]
  · have ns1 : NoSpecial f args :=
      ⟨fun c a b e1 e2 => h1 ⟨c, a, b, e1, e2⟩, fun a b e1 e2 => h2 ⟨a, b, e1, e2⟩, fun a b e1 e2 => h3 ⟨a, b, e1, e2⟩,
       fun a b e1 e2 => h4 ⟨a, b, e1, e2⟩, fun a e1 e2 => h5 ⟨a, e1, e2⟩, fun a e1 e2 => hd ⟨a, e1, e2⟩⟩
    have ns2 : NoSpecial f (cxs vars args) := by
      refine ⟨?_, ?_, ?_, ?_, ?_, ?_⟩
      · intro x y z e1 e2; obtain ⟨a, b, c, e⟩ := cxs_eq3 vars args x y z e2; exact ns1.nif a b c e1 e
      · intro x y e1 e2; obtain ⟨a, b, e⟩ := cxs_eq2 vars args x y e2; exact ns1.nand a b e1 e
      · intro x y e1 e2; obtain ⟨a, b, e⟩ := cxs_eq2 vars args x y e2; exact ns1.nor a b e1 e
      · intro x y e1 e2; obtain ⟨a, b, e⟩ := cxs_eq2 vars args x y e2; exact ns1.niferr a b e1 e
      · intro x e1 e2; obtain ⟨a, e⟩ := cxs_eq1 vars args x e2; exact ns1.niserr a e1 e
      · intro x e1 e2; obtain ⟨a, e⟩ := cxs_eq1 vars args x e2; exact ns1.ndisp a e1 e
    rw [core_builtin_default n cfg fr f args tail st ns1, cell_builtin_default n cfg rfr f _ tail st ns2]
    by_cases hp : Core.isStrictPrim f = true
    · simp only [hp, if_true]
      obtain ⟨hel, hgl⟩ := hn.2.1 args hargs fr rfr vars st hs hrel
      rw [hel]
      cases hrl : Core.evalList n cfg fr args st with
      | mk rl st2 =>
        rw [hrl] at hgl
        cases rl with
        | ok vs =>
          simp only [GoodL] at hgl
          simp only [crl]
          exact ⟨by rw [(cprim_ofCore f vs hgl).1], (cprim_ofCore f vs hgl).2⟩
        | error r => simpa [crl, GoodL] using hgl
    · simp [hp, cr, Good]

theorem sim_upto (cfg : Core.Cfg) : ∀ n, ∀ m, m ≤ n → Sim cfg m := by
  intro n
  induction n with
  | zero => intro m hm; have : m = 0 := by omega
            subst this; exact sim_zero cfg
  | succ k ih =>
    intro m hm
    rcases Nat.lt_or_ge m (k + 1) with h | h
    · exact ih m (by omega)
    · have : m = k + 1 := by omega
      subst this
      exact ⟨sim_eval cfg k (ih k (Nat.le_refl k)) (fun j hj => ih j (by omega)),
             sim_list cfg k (ih k (Nat.le_refl k)), sim_builtin cfg k (ih k (Nat.le_refl k))⟩

theorem sim_all (cfg : Core.Cfg) (n : Nat) : Sim cfg n := sim_upto cfg n n (Nat.le_refl n)

/-- compile + run of a fragment expression in a root scope -/
theorem compile_run_expr (cfg : Core.Cfg) (e : Core.Expr) (hok : exprOK e = true) (cf1 cf2 : Nat) (cur : Scope)
    (rok : RootOK cur) (p c : XE × Scope)
    (hp : parseExpr cf1 [] cur (ofExpr e) = .ok p) (hc : compileExpr cf2 [] p.2 p.1 = .ok c) :
    c.2 = cur ∧ c.1 = cx cur.vars e ∧
    ∀ fuel (fr : Core.Frame) (rfr : RFrame) tail st, fr.self = none → FrRel fr.env cur.vars rfr →
      eval fuel cfg rfr c.1 tail st = (cr (Core.eval fuel cfg fr e tail st).1, (Core.eval fuel cfg fr e tail st).2) ∧
      Good (Core.eval fuel cfg fr e tail st).1 := by
  have h1 := (parse_frag cf1).1 e hok [] cur p hp
  subst h1
  have h2 := (compile_frag cf2).1 e hok cur c rok hc
  subst h2
  exact ⟨rfl, rfl, fun fuel fr rfr tail st hs hrel => (sim_all cfg fuel).1 e hok fr rfr cur.vars tail st hs hrel⟩

end XrayModel.CellRun
