/-
C15 — helper definitions and lemmas: the representation invariant `Rep.wf`, the list/stream denotation
`den : Rep → Sem` (defined from the structure of the representation alone: concatenation of the parts of a
chain ignores the stored midpoints, a range is the arithmetic progression, …) and the lemmas relating the
model's `len`/`get` to it.
-/
import XrayModel.Seq
namespace XrayModel.Seq

/-! ## arithmetic -/

theorem div_facts (a b : Int) (ha : 0 ≤ a) (hb : 0 < b) :
    a / b * b ≤ a ∧ a < (a / b + 1) * b ∧ 0 ≤ a / b ∧ a / b ≤ a := by
  have h1 := Int.ediv_mul_le a (Int.ne_of_gt hb)
  have h2 := Int.lt_ediv_add_one_mul_self a hb
  have h3 : 0 ≤ a / b := Int.ediv_nonneg ha (Int.le_of_lt hb)
  refine ⟨h1, h2, h3, ?_⟩
  have : a / b * 1 ≤ a / b * b := Int.mul_le_mul_of_nonneg_left (by omega) h3
  omega

theorem mul_mono (i q st : Int) (h : i ≤ q) (hst : 0 ≤ st) : i * st ≤ q * st :=
  Int.mul_le_mul_of_nonneg_right h hst

/-! ## the representation invariant (sequence.rs:75-85) -/

/-- midpoints are the cumulative lengths of the parts, every part but the last is finite, no part is empty,
the total length fits `usize` -/
def chainOk : List Rep → List Nat → Nat → Prop
  | [r], [], acc => (match r.len with | .fin n => acc + n < USIZE ∧ 0 < n | .inf => True | .panic _ => False)
  | r :: rs, m :: ms, acc => (∃ n, r.len = .fin n ∧ 0 < n ∧ m = acc + n) ∧ chainOk rs ms m
  | _, _, _ => False

mutual
def Rep.wf : Rep → Prop
  | .empty => True
  | .array xs => xs ≠ [] ∧ xs.length < USIZE
  | .range s e st => inI64 s = true ∧ inI64 e = true ∧ inI64 st = true ∧ ((0 < st ∧ s < e) ∨ (st < 0 ∧ e < s))
  | .map r _ => r.wf
  | .mapGet r base _ => r.wf ∧ base.wf
  | .zip rs => wfAll rs ∧ rs ≠ []
  | .chain parts mids => wfAll parts ∧ chainOk parts mids 0 ∧ 2 ≤ parts.length
  | .slice r a b => r.wf ∧ a < USIZE ∧
      (match b with
       | some e => a < e ∧ (match r.len with | .fin n => e ≤ n | .inf => e < USIZE | .panic _ => False)
       | none => r.len = .inf)
  | .count => True
def wfAll : List Rep → Prop
  | [] => True
  | r :: rs => r.wf ∧ wfAll rs
end

/-! ## denotation: a finite or infinite list, as (length, element function) -/

structure Sem where
  len : Option Nat
  el : Nat → Res Val

def oob : Res Val := .err "index out of bounds"

def toLen : Option Nat → Len
  | some n => .fin n
  | none => .inf

def optValid : Option Nat → Nat → Prop
  | some n, i => i < n
  | none, _ => True

/-- `i` is an index of the list -/
def Sem.valid (s : Sem) (i : Nat) : Prop := optValid s.len i

def Sem.nil : Sem := ⟨some 0, fun _ => .panic "unreachable"⟩

/-- list concatenation; nothing follows an infinite list -/
def Sem.append (a b : Sem) : Sem :=
  match a.len with
  | none => a
  | some n => ⟨b.len.map (n + ·), fun i => if i < n then a.el i else b.el (i - n)⟩

def Sem.concat : List Sem → Sem
  | [] => .nil
  | s :: ss => s.append (Sem.concat ss)

/-- `drop a`, then `take (b - a)`; an infinite list is addressable below 2^64 only -/
def Sem.slice (s : Sem) (a : Nat) (b : Option Nat) : Sem :=
  ⟨b.map (· - a), fun i => if i + a < USIZE then s.el (i + a) else oob⟩

def elemMap (f : PFn) : Res Val → Res Val
  | .ok v => f.app v
  | .err m => .err m
  | .panic m => .panic m

/-- `s[j]` with index normalisation -/
def Sem.index (s : Sem) (j : Int) : Res Val :=
  match valueToIdx (toLen s.len) j with
  | .ok k => s.el k
  | .err m => .err m
  | .panic m => .panic m

def elemGet (base : Sem) (g : IFn) : Res Val → Res Val
  | .ok (.int x) => (match g.app x with
      | .ok j => base.index j
      | .err m => .err m
      | .panic m => .panic m)
  | .ok (.tup _) => .panic "to_primitive: not an int"
  | .err m => .err m
  | .panic m => .panic m

def minOpt : List (Option Nat) → Option Nat
  | [] => none
  | none :: ls => minOpt ls
  | some n :: ls => match minOpt ls with
      | some m => some (min n m)
      | none => some n

/-- a tuple of element evaluations: the first failure wins -/
def tupAll : List (Res Val) → Res (List Val)
  | [] => .ok []
  | .ok v :: es => (match tupAll es with
      | .ok vs => .ok (v :: vs)
      | .err m => .err m
      | .panic m => .panic m)
  | .err m :: _ => .err m
  | .panic m :: _ => .panic m

def Sem.zip (ss : List Sem) : Sem :=
  ⟨minOpt (ss.map (·.len)), fun i => match tupAll (ss.map (·.el i)) with
      | .ok vs => .ok (.tup vs)
      | .err m => .err m
      | .panic m => .panic m⟩

mutual
def den : Rep → Sem
  | .empty => .nil
  | .array xs => ⟨some xs.length, fun i => match xs[i]? with | some v => .ok v | none => .panic "index out of bounds"⟩
  | .range s e st => ⟨lenOpt (rangeLen s e st), fun i => .ok (.int (s + i * st))⟩
  | .map r f => ⟨(den r).len, fun i => elemMap f ((den r).el i)⟩
  | .mapGet r base g => ⟨(den r).len, fun i => elemGet (den base) g ((den r).el i)⟩
  | .zip rs => Sem.zip (denList rs)
  | .chain parts _ => Sem.concat (denList parts)
  | .slice r a b => Sem.slice (den r) a b
  | .count => ⟨none, fun i => .ok (.int i)⟩
def denList : List Rep → List Sem
  | [] => []
  | r :: rs => den r :: denList rs
end

/-! ## range -/

theorem rangeLen_pos (s e st : Int) (h : 0 < st) (hse : s < e) :
    ∃ n, rangeLen s e st = .fin n ∧ 0 < n ∧ (∀ i : Nat, i < n → s + i * st < e) ∧ e ≤ s + n * st ∧
      (n : Int) ≤ e - s := by
  obtain ⟨h1, h2, h3, h4⟩ := div_facts (e - 1 - s) st (by omega) h
  refine ⟨(1 + (e - 1 - s) / st).toNat, ?_, ?_, ?_, ?_, ?_⟩
  · simp [rangeLen, h, hse]
  · omega
  · intro i hi
    have : (i : Int) * st ≤ (e - 1 - s) / st * st := mul_mono _ _ _ (by omega) (by omega)
    omega
  · have : ((1 + (e - 1 - s) / st).toNat : Int) = (e - 1 - s) / st + 1 := by omega
    rw [this]; omega
  · omega

theorem rangeLen_neg (s e st : Int) (h : st < 0) (hse : e < s) :
    ∃ n, rangeLen s e st = .fin n ∧ 0 < n ∧ (∀ i : Nat, i < n → e < s + i * st) ∧ s + n * st ≤ e ∧
      (n : Int) ≤ s - e := by
  obtain ⟨h1, h2, h3, h4⟩ := div_facts (s - 1 - e) (-st) (by omega) (by omega)
  have hn : ¬ (0 < st ∧ s < e) := by omega
  refine ⟨(1 + (s - 1 - e) / (-st)).toNat, ?_, ?_, ?_, ?_, ?_⟩
  · simp [rangeLen, hn, h, hse]
  · omega
  · intro i hi
    have : (i : Int) * (-st) ≤ (s - 1 - e) / (-st) * (-st) := mul_mono _ _ _ (by omega) (by omega)
    have e1 : (i : Int) * (-st) = -(i * st) := by rw [Int.mul_neg]
    omega
  · have : ((1 + (s - 1 - e) / (-st)).toNat : Int) = (s - 1 - e) / (-st) + 1 := by omega
    rw [this]
    have e1 : ((s - 1 - e) / (-st) + 1) * (-st) = -(((s - 1 - e) / (-st) + 1) * st) := by rw [Int.mul_neg]
    omega
  · omega

/-! ## `len` and `get` agree with the denotation -/
theorem minLen_toLen (ls : List (Option Nat)) : minLen (ls.map toLen) = toLen (minOpt ls) := by
  induction ls with
  | nil => rfl
  | cons a ls ih =>
    cases a with
    | none => simpa [minLen, minOpt, toLen] using ih
    | some n =>
      simp only [List.map, toLen, minLen, minOpt, ih]
      cases minOpt ls <;> simp [toLen]

theorem lastLen_cons (r : Rep) (rs : List Rep) (h : rs ≠ []) : lastLen (r :: rs) = lastLen rs := by
  cases rs with
  | nil => exact absurd rfl h
  | cons a as => simp [lastLen]

theorem append_len_some {a b : Sem} {n : Nat} (h : a.len = some n) :
    (a.append b).len = b.len.map (n + ·) := by simp [Sem.append, h]
theorem append_len_none {a b : Sem} (h : a.len = none) : (a.append b).len = none := by
  simp [Sem.append, h]
theorem append_el_none {a b : Sem} (h : a.len = none) (i : Nat) : (a.append b).el i = a.el i := by
  simp [Sem.append, h]
theorem append_el_lt {a b : Sem} {n : Nat} (h : a.len = some n) (i : Nat) (hi : i < n) :
    (a.append b).el i = a.el i := by simp [Sem.append, h, hi]
theorem append_el_ge {a b : Sem} {n : Nat} (h : a.len = some n) (i : Nat) (hi : n ≤ i) :
    (a.append b).el i = b.el (i - n) := by
  have : ¬ i < n := by omega
  simp [Sem.append, h, this]

theorem toLen_fin {o : Option Nat} {n : Nat} (h : Len.fin n = toLen o) : o = some n := by
  cases o <;> simp [toLen] at h; rw [h]
theorem toLen_inf {o : Option Nat} (h : Len.inf = toLen o) : o = none := by
  cases o <;> simp [toLen] at h; rfl

theorem getLast_getD (m : Nat) (ms : List Nat) (acc : Nat) :
    (m :: ms).getLast?.getD acc = ms.getLast?.getD m := by
  cases ms with
  | nil => simp
  | cons a as =>
    cases hx : (a :: as).getLast? with
    | none => simp at hx
    | some x => simp [List.getLast?_cons_cons, hx]

/-- length of the concatenation of the parts of a well-formed chain, from the stored midpoints -/
theorem chain_len_aux : ∀ (parts : List Rep) (mids : List Nat) (acc : Nat),
    chainOk parts mids acc →
    lens parts = (denList parts).map (fun s => toLen s.len) →
    (match lastLen parts with
     | .fin l => ∃ t, (Sem.concat (denList parts)).len = some t ∧ acc + t = l + mids.getLast?.getD acc ∧ acc + t < USIZE
     | .inf => (Sem.concat (denList parts)).len = none
     | .panic _ => False)
  | [], _, _, h, _ => by simp [chainOk] at h
  | [r], [], acc, h, hl => by
      simp only [chainOk] at h
      simp only [lens, denList, List.map, List.cons.injEq, and_true] at hl
      simp only [lastLen, denList, Sem.concat]
      cases hr : r.len with
      | fin n =>
        rw [hr] at h hl
        have hd := toLen_fin hl
        simp only [] at h
        refine ⟨n, ?_, by simp; omega, h.1⟩
        rw [append_len_some hd]; simp [Sem.nil]
      | inf =>
        rw [hr] at hl
        exact append_len_none (toLen_inf hl)
      | panic _ => rw [hr] at h; exact h
  | [r], m :: ms, acc, h, _ => by simp [chainOk] at h
  | r :: r2 :: rs, [], acc, h, _ => by simp [chainOk] at h
  | r :: r2 :: rs, m :: ms, acc, h, hl => by
      simp only [chainOk] at h
      obtain ⟨⟨n, hn, hpos, hm⟩, hrest⟩ := h
      simp only [lens, denList, List.map, List.cons.injEq] at hl
      have ih := chain_len_aux (r2 :: rs) ms m hrest (by simpa [lens, denList] using hl.2)
      rw [lastLen_cons r (r2 :: rs) (by simp), getLast_getD]
      have hd : (den r).len = some n := toLen_fin (by rw [← hn]; exact hl.1)
      have hc : Sem.concat (denList (r :: r2 :: rs)) = (den r).append (Sem.concat (denList (r2 :: rs))) := by
        simp [denList, Sem.concat]
      rw [hc]
      cases hll : lastLen (r2 :: rs) with
      | fin l =>
        rw [hll] at ih; obtain ⟨t, ht, he, hlt⟩ := ih
        refine ⟨n + t, by rw [append_len_some hd, ht]; rfl, by omega, by omega⟩
      | inf =>
        rw [hll] at ih
        simp only []
        rw [append_len_some hd, ih]; rfl
      | panic _ => rw [hll] at ih; exact ih


theorem getD_succ_cons (m : Nat) (ms : List Nat) (q : Nat) :
    (m :: ms).getD q 0 = if q = 0 then m else ms.getD (q - 1) 0 := by
  cases q with
  | zero => simp
  | succ k => simp

/-- indexing a well-formed chain through the stored midpoints reaches the element of the concatenation -/
theorem chain_get_aux : ∀ (parts : List Rep) (mids : List Nat) (acc i : Nat),
    chainOk parts mids acc →
    lens parts = (denList parts).map (fun s => toLen s.len) →
    (∀ r ∈ parts, ∀ j, (den r).valid j → r.get j = (den r).el j) →
    acc ≤ i → (Sem.concat (denList parts)).valid (i - acc) →
    (if partitionPoint mids i = 0 then acc else mids.getD (partitionPoint mids i - 1) 0) ≤ i ∧
    getPart parts (partitionPoint mids i)
        (i - (if partitionPoint mids i = 0 then acc else mids.getD (partitionPoint mids i - 1) 0)) =
      (Sem.concat (denList parts)).el (i - acc)
  | [], _, _, _, h, _, _, _, _ => by simp [chainOk] at h
  | [r], [], acc, i, h, hl, hg, hacc, hv => by
      simp only [lens, denList, List.map, List.cons.injEq, and_true] at hl
      simp only [partitionPoint, if_true, getPart, denList, Sem.concat]
      refine ⟨hacc, ?_⟩
      simp only [denList, Sem.concat] at hv
      cases hd : (den r).len with
      | none =>
        rw [append_el_none hd]
        exact hg r (by simp) _ (by simp [Sem.valid, optValid, hd])
      | some n =>
        have hlt : i - acc < n := by
          simp only [Sem.valid, optValid, append_len_some hd, Sem.nil] at hv
          simpa using hv
        rw [append_el_lt hd _ hlt]
        exact hg r (by simp) _ (by simp [Sem.valid, optValid, hd, hlt])
  | [r], m :: ms, acc, _, h, _, _, _, _ => by simp [chainOk] at h
  | r :: r2 :: rs, [], acc, _, h, _, _, _, _ => by simp [chainOk] at h
  | r :: r2 :: rs, m :: ms, acc, i, h, hl, hg, hacc, hv => by
      simp only [chainOk] at h
      obtain ⟨⟨n, hn, hpos, hm⟩, hrest⟩ := h
      simp only [lens, denList, List.map, List.cons.injEq] at hl
      have hd : (den r).len = some n := toLen_fin (by rw [← hn]; exact hl.1)
      have hc : Sem.concat (denList (r :: r2 :: rs)) = (den r).append (Sem.concat (denList (r2 :: rs))) := by
        simp [denList, Sem.concat]
      rw [hc] at hv ⊢
      by_cases hmi : m ≤ i
      · have ih := chain_get_aux (r2 :: rs) ms m i hrest (by simpa [lens, denList] using hl.2)
          (fun x hx => hg x (by simp at hx ⊢; right; exact hx)) hmi
          (by
            simp only [Sem.valid, optValid, append_len_some hd] at hv
            simp only [Sem.valid, optValid]
            cases hcl : (Sem.concat (denList (r2 :: rs))).len with
            | none => trivial
            | some t => rw [hcl] at hv; simp at hv; simp; omega)
        have hpp : partitionPoint (m :: ms) i = 1 + partitionPoint ms i := by simp [partitionPoint, hmi]
        have hne : ¬ (1 + partitionPoint ms i = 0) := by omega
        rw [hpp]
        simp only [hne, if_false]
        have e1 : 1 + partitionPoint ms i - 1 = partitionPoint ms i := by omega
        rw [e1, getD_succ_cons]
        have e2 : getPart (r :: r2 :: rs) (1 + partitionPoint ms i) = getPart (r2 :: rs) (partitionPoint ms i) := by
          rw [Nat.add_comm]; funext x; simp [getPart]
        rw [e2]
        refine ⟨ih.1, ?_⟩
        rw [ih.2, append_el_ge hd _ (by omega)]
        congr 1; omega
      · have hpp : partitionPoint (m :: ms) i = 0 := by simp [partitionPoint, hmi]
        rw [hpp]
        simp only [if_true, getPart]
        refine ⟨hacc, ?_⟩
        have hlt : i - acc < n := by omega
        rw [append_el_lt hd _ hlt]
        exact hg r (by simp) _ (by simp [Sem.valid, optValid, hd, hlt])


theorem toLen_lenOpt (l : Len) (h : ∀ m, l ≠ .panic m) : toLen (lenOpt l) = l := by
  cases l with
  | fin n => rfl
  | inf => rfl
  | panic m => exact absurd rfl (h m)

theorem chainOk_mids_ne (r r2 : Rep) (rs : List Rep) (mids : List Nat) (acc : Nat)
    (h : chainOk (r :: r2 :: rs) mids acc) : ∃ m ms, mids = m :: ms := by
  cases mids with
  | nil => simp [chainOk] at h
  | cons m ms => exact ⟨m, ms, rfl⟩

mutual
theorem len_den : (r : Rep) → r.wf → r.len = toLen (den r).len
  | .empty, _ => rfl
  | .array _, _ => rfl
  | .range s e st, h => by
      simp only [Rep.wf] at h
      simp only [Rep.len, den]
      rw [toLen_lenOpt]
      intro m hm
      rcases h.2.2.2 with ⟨h1, h2⟩ | ⟨h1, h2⟩
      · obtain ⟨n, hn, _⟩ := rangeLen_pos s e st h1 h2; rw [hn] at hm; cases hm
      · obtain ⟨n, hn, _⟩ := rangeLen_neg s e st h1 h2; rw [hn] at hm; cases hm
  | .map r f, h => by
      simp only [Rep.wf] at h
      simp only [Rep.len, den]; exact len_den r h
  | .mapGet r base g, h => by
      simp only [Rep.wf] at h
      simp only [Rep.len, den]; exact len_den r h.1
  | .zip rs, h => by
      simp only [Rep.wf] at h
      simp only [Rep.len, den, Sem.zip]
      rw [lens_den rs h.1, ← minLen_toLen, List.map_map]; rfl
  | .slice r a b, h => by
      simp only [Rep.wf] at h
      cases b with
      | none => rfl
      | some e =>
        have : ¬ e < a := by have := h.2.2.1; omega
        simp [Rep.len, den, Sem.slice, toLen, this]
  | .count, _ => rfl
  | .chain parts mids, h => by
      simp only [Rep.wf] at h
      obtain ⟨hw, hok, hlen⟩ := h
      have hl := lens_den parts hw
      have key := chain_len_aux parts mids 0 hok hl
      match parts, hlen with
      | r :: r2 :: rs, _ =>
        obtain ⟨m, ms, rfl⟩ := chainOk_mids_ne r r2 rs mids 0 hok
        have hs : ∃ x, (m :: ms).getLast? = some x := by
          cases hx : (m :: ms).getLast? with
          | none => simp at hx
          | some x => exact ⟨x, rfl⟩
        obtain ⟨x, hx⟩ := hs
        simp only [Rep.len, den, hx]
        rw [hx] at key
        cases hll : lastLen (r :: r2 :: rs) with
        | fin l =>
          rw [hll] at key; obtain ⟨t, ht, he, _⟩ := key
          simp only [Option.getD_some] at he
          simp [ht, toLen]; omega
        | inf => rw [hll] at key; simp only [] at key; simp [key, toLen]
        | panic _ => rw [hll] at key; exact key.elim
theorem lens_den : (rs : List Rep) → wfAll rs → lens rs = (denList rs).map (fun s => toLen s.len)
  | [], _ => rfl
  | r :: rs, h => by
      simp only [wfAll] at h
      simp only [lens, denList, List.map]
      rw [len_den r h.1, lens_den rs h.2]
end


theorem valueToIdx_valid (o : Option Nat) (j : Int) (k : Nat) (h : valueToIdx (toLen o) j = .ok k) :
    optValid o k := by
  cases o with
  | none => trivial
  | some n =>
    simp only [toLen, valueToIdx] at h
    simp only [optValid]
    repeat' split at h
    all_goals first | (injection h with h; omega) | cases h

theorem minOpt_valid : ∀ (ls : List (Option Nat)) (i : Nat),
    optValid (minOpt ls) i → ∀ o ∈ ls, optValid o i
  | [], _, _, o, ho => by simp at ho
  | none :: ls, i, h, o, ho => by
      simp only [minOpt] at h
      simp only [List.mem_cons] at ho
      rcases ho with rfl | ho
      · trivial
      · exact minOpt_valid ls i h o ho
  | some n :: ls, i, h, o, ho => by
      simp only [minOpt] at h
      simp only [List.mem_cons] at ho
      cases hm : minOpt ls with
      | none =>
        rw [hm] at h; simp only [optValid] at h
        rcases ho with rfl | ho
        · exact h
        · exact minOpt_valid ls i (by rw [hm]; trivial) o ho
      | some m =>
        rw [hm] at h; simp only [optValid] at h
        rcases ho with rfl | ho
        · simp only [optValid]; omega
        · exact minOpt_valid ls i (by rw [hm]; simp only [optValid]; omega) o ho

mutual
theorem get_den : (r : Rep) → r.wf → ∀ i, (den r).valid i → r.get i = (den r).el i
  | .empty, _, i, hv => by simp [den, Sem.valid, optValid, Sem.nil] at hv
  | .array _, _, _, _ => rfl
  | .range _ _ _, _, _, _ => rfl
  | .count, _, _, _ => rfl
  | .map r f, h, i, hv => by
      simp only [Rep.wf] at h
      have ih := get_den r h i (by simpa [den, Sem.valid] using hv)
      simp only [Rep.get, den, ih]
      cases (den r).el i <;> rfl
  | .mapGet r base g, h, i, hv => by
      simp only [Rep.wf] at h
      have ih := get_den r h.1 i (by simpa [den, Sem.valid] using hv)
      simp only [Rep.get, den, ih]
      cases hx : (den r).el i with
      | err m => rfl
      | panic m => rfl
      | ok v =>
        cases v with
        | tup vs => rfl
        | int x =>
          simp only [elemGet]
          cases hg : g.app x with
          | err m => rfl
          | panic m => rfl
          | ok j =>
            simp only [Sem.index, len_den base h.2]
            cases hk : valueToIdx (toLen (den base).len) j with
            | err m => rfl
            | panic m => rfl
            | ok k =>
              simp only []
              exact get_den base h.2 k (valueToIdx_valid _ _ _ hk)
  | .zip rs, h, i, hv => by
      simp only [Rep.wf] at h
      have hall : ∀ s ∈ denList rs, s.valid i := by
        intro s hs
        simp only [den, Sem.zip, Sem.valid] at hv
        exact minOpt_valid _ i hv s.len (List.mem_map_of_mem hs)
      simp only [Rep.get, den, Sem.zip, getAll_den rs h.1 i hall]
      cases tupAll (List.map (fun x => x.el i) (denList rs)) <;> rfl
  | .slice r a b, h, i, hv => by
      simp only [Rep.wf] at h
      obtain ⟨hw, ha, hb⟩ := h
      simp only [Rep.get, den, Sem.slice]
      by_cases hlt : i + a < USIZE
      · simp only [hlt, if_true]
        apply get_den r hw
        have hl := len_den r hw
        cases b with
        | none =>
          simp only [] at hb
          rw [hb] at hl
          simp [Sem.valid, optValid, toLen_inf hl]
        | some e =>
          simp only [] at hb
          simp only [den, Sem.slice, Sem.valid, optValid, Option.map] at hv
          cases hr : r.len with
          | fin n =>
            rw [hr] at hb hl
            simp only [] at hb
            simp only [Sem.valid, optValid, toLen_fin hl]; omega
          | inf => rw [hr] at hl; simp [Sem.valid, optValid, toLen_inf hl]
          | panic _ => rw [hr] at hb; exact hb.2.elim
      · simp [hlt, oob]
  | .chain parts mids, h, i, hv => by
      simp only [Rep.wf] at h
      obtain ⟨hw, hok, _⟩ := h
      have key := chain_get_aux parts mids 0 i hok (lens_den parts hw) (getMem_den parts hw) (Nat.zero_le _)
        (by simpa [den] using hv)
      simp only [Rep.get, den]
      have hno : ¬ (if partitionPoint mids i = 0 then 0 else mids.getD (partitionPoint mids i - 1) 0) > i := by
        have := key.1; omega
      simp only [hno, if_false]
      simpa using key.2
theorem getAll_den : (rs : List Rep) → wfAll rs → ∀ i, (∀ s ∈ denList rs, s.valid i) →
    getAll rs i = tupAll ((denList rs).map (·.el i))
  | [], _, _, _ => rfl
  | r :: rs, h, i, hv => by
      simp only [wfAll] at h
      have h1 := get_den r h.1 i (hv _ (by simp [denList]))
      have h2 := getAll_den rs h.2 i (fun s hs => hv s (by simp [denList, hs]))
      simp only [getAll, denList, List.map, h1, h2]
      cases (den r).el i with
      | ok v => simp only [tupAll]; cases tupAll (List.map (fun x => x.el i) (denList rs)) <;> rfl
      | err m => rfl
      | panic m => rfl
theorem getMem_den : (rs : List Rep) → wfAll rs → ∀ r ∈ rs, ∀ j, (den r).valid j → r.get j = (den r).el j
  | [], _, r, hr, _, _ => by simp at hr
  | x :: xs, h, r, hr, j, hv => by
      simp only [wfAll] at h
      simp only [List.mem_cons] at hr
      by_cases hx : r = x
      · subst hx; exact get_den r h.1 j hv
      · exact getMem_den xs h.2 r (by rcases hr with rfl | hr; exact absurd rfl hx; exact hr) j hv
end
end XrayModel.Seq
