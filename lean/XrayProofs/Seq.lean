/-
C15 — helper definitions and lemmas: the representation invariant `Rep.wf`, the list/stream denotation
`den : Rep → Sem` (defined from the structure of the representation alone: concatenation of the parts of a
chain ignores the stored midpoints, a range is the arithmetic progression, …) and the lemmas relating the
model's `len`/`get` to it.
-/
import XrayModel.Seq
namespace XrayModel.Seq

/-! ## arithmetic -/

theorem div_facts (a b : Int) (ha : 0 ≤ a) (hb : 0 < b) :
    a / b * b ≤ a ∧ a < (a / b + 1) * b ∧ 0 ≤ a / b ∧ a / b ≤ a := by
  have h1 := Int.ediv_mul_le a (Int.ne_of_gt hb)
  have h2 := Int.lt_ediv_add_one_mul_self a hb
  have h3 : 0 ≤ a / b := Int.ediv_nonneg ha (Int.le_of_lt hb)
  refine ⟨h1, h2, h3, ?_⟩
  have : a / b * 1 ≤ a / b * b := Int.mul_le_mul_of_nonneg_left (by omega) h3
  omega

theorem mul_mono (i q st : Int) (h : i ≤ q) (hst : 0 ≤ st) : i * st ≤ q * st :=
  Int.mul_le_mul_of_nonneg_right h hst

/-! ## the representation invariant (sequence.rs:75-85) -/

/-- midpoints are the cumulative lengths of the parts, every part but the last is finite, no part is empty,
the total length (the finite parts in front of an infinite last part) fits `usize` -/
def chainOk : List Rep → List Nat → Nat → Prop
  | [r], [], acc => (match r.len with | .fin n => acc + n < USIZE ∧ 0 < n | .inf => acc < USIZE | .panic _ => False)
  | r :: rs, m :: ms, acc => (∃ n, r.len = .fin n ∧ 0 < n ∧ m = acc + n) ∧ chainOk rs ms m
  | _, _, _ => False

mutual
def Rep.wf : Rep → Prop
  | .empty => True
  | .array xs => xs ≠ [] ∧ xs.length < USIZE
  | .range s e st => inI64 s = true ∧ inI64 e = true ∧ inI64 st = true ∧ ((0 < st ∧ s < e) ∨ (st < 0 ∧ e < s))
  | .map r _ => r.wf
  | .mapGet r base _ => r.wf ∧ base.wf
  | .zip rs => wfAll rs ∧ rs ≠ []
  | .chain parts mids => wfAll parts ∧ chainOk parts mids 0 ∧ 2 ≤ parts.length
  | .slice r a b => r.wf ∧ a < USIZE ∧
      (match b with
       | some e => a < e ∧ (match r.len with | .fin n => e ≤ n | .inf => e < USIZE | .panic _ => False)
       | none => r.len = .inf)
  | .count => True
def wfAll : List Rep → Prop
  | [] => True
  | r :: rs => r.wf ∧ wfAll rs
end

/-! ## denotation: a finite or infinite list, as (length, element function) -/

structure Sem where
  len : Option Nat
  el : Nat → Res Val

def oob : Res Val := .err "index out of bounds"

def toLen : Option Nat → Len
  | some n => .fin n
  | none => .inf

def optValid : Option Nat → Nat → Prop
  | some n, i => i < n
  | none, _ => True

/-- `i` is an index of the list -/
def Sem.valid (s : Sem) (i : Nat) : Prop := optValid s.len i

def Sem.nil : Sem := ⟨some 0, fun _ => .panic "unreachable"⟩

/-- list concatenation; nothing follows an infinite list -/
def Sem.append (a b : Sem) : Sem :=
  match a.len with
  | none => a
  | some n => ⟨b.len.map (n + ·), fun i => if i < n then a.el i else b.el (i - n)⟩

def Sem.concat : List Sem → Sem
  | [] => .nil
  | s :: ss => s.append (Sem.concat ss)

/-- `drop a`, then `take (b - a)`; an infinite list is addressable below 2^64 only -/
def Sem.slice (s : Sem) (a : Nat) (b : Option Nat) : Sem :=
  ⟨b.map (· - a), fun i => if i + a < USIZE then s.el (i + a) else oob⟩

def elemMap (f : PFn) : Res Val → Res Val
  | .ok v => f.app v
  | .err m => .err m
  | .panic m => .panic m

/-- `s[j]` with index normalisation -/
def Sem.index (s : Sem) (j : Int) : Res Val :=
  match valueToIdx (toLen s.len) j with
  | .ok k => s.el k
  | .err m => .err m
  | .panic m => .panic m

def elemGet (base : Sem) (g : IFn) : Res Val → Res Val
  | .ok (.int x) => (match g.app x with
      | .ok j => base.index j
      | .err m => .err m
      | .panic m => .panic m)
  | .ok (.tup _) => .panic "to_primitive: not an int"
  | .err m => .err m
  | .panic m => .panic m

def minOpt : List (Option Nat) → Option Nat
  | [] => none
  | none :: ls => minOpt ls
  | some n :: ls => match minOpt ls with
      | some m => some (min n m)
      | none => some n

/-- a tuple of element evaluations: the first failure wins -/
def tupAll : List (Res Val) → Res (List Val)
  | [] => .ok []
  | .ok v :: es => (match tupAll es with
      | .ok vs => .ok (v :: vs)
      | .err m => .err m
      | .panic m => .panic m)
  | .err m :: _ => .err m
  | .panic m :: _ => .panic m

def Sem.zip (ss : List Sem) : Sem :=
  ⟨minOpt (ss.map (·.len)), fun i => match tupAll (ss.map (·.el i)) with
      | .ok vs => .ok (.tup vs)
      | .err m => .err m
      | .panic m => .panic m⟩

mutual
def den : Rep → Sem
  | .empty => .nil
  | .array xs => ⟨some xs.length, fun i => match xs[i]? with | some v => .ok v | none => .panic "index out of bounds"⟩
  | .range s e st => ⟨lenOpt (rangeLen s e st), fun i => .ok (.int (s + i * st))⟩
  | .map r f => ⟨(den r).len, fun i => elemMap f ((den r).el i)⟩
  | .mapGet r base g => ⟨(den r).len, fun i => elemGet (den base) g ((den r).el i)⟩
  | .zip rs => Sem.zip (denList rs)
  | .chain parts _ => Sem.concat (denList parts)
  | .slice r a b => Sem.slice (den r) a b
  | .count => ⟨none, fun i => .ok (.int i)⟩
def denList : List Rep → List Sem
  | [] => []
  | r :: rs => den r :: denList rs
end

/-! ## range -/

theorem rangeLen_pos (s e st : Int) (h : 0 < st) (hse : s < e) :
    ∃ n, rangeLen s e st = .fin n ∧ 0 < n ∧ (∀ i : Nat, i < n → s + i * st < e) ∧ e ≤ s + n * st ∧
      (n : Int) ≤ e - s := by
  obtain ⟨h1, h2, h3, h4⟩ := div_facts (e - 1 - s) st (by omega) h
  refine ⟨(1 + (e - 1 - s) / st).toNat, ?_, ?_, ?_, ?_, ?_⟩
  · simp [rangeLen, h, hse]
  · omega
  · intro i hi
    have : (i : Int) * st ≤ (e - 1 - s) / st * st := mul_mono _ _ _ (by omega) (by omega)
    omega
  · have : ((1 + (e - 1 - s) / st).toNat : Int) = (e - 1 - s) / st + 1 := by omega
    rw [this]; omega
  · omega

theorem rangeLen_neg (s e st : Int) (h : st < 0) (hse : e < s) :
    ∃ n, rangeLen s e st = .fin n ∧ 0 < n ∧ (∀ i : Nat, i < n → e < s + i * st) ∧ s + n * st ≤ e ∧
      (n : Int) ≤ s - e := by
  obtain ⟨h1, h2, h3, h4⟩ := div_facts (s - 1 - e) (-st) (by omega) (by omega)
  have hn : ¬ (0 < st ∧ s < e) := by omega
  refine ⟨(1 + (s - 1 - e) / (-st)).toNat, ?_, ?_, ?_, ?_, ?_⟩
  · simp [rangeLen, hn, h, hse]
  · omega
  · intro i hi
    have : (i : Int) * (-st) ≤ (s - 1 - e) / (-st) * (-st) := mul_mono _ _ _ (by omega) (by omega)
    have e1 : (i : Int) * (-st) = -(i * st) := by rw [Int.mul_neg]
    omega
  · have : ((1 + (s - 1 - e) / (-st)).toNat : Int) = (s - 1 - e) / (-st) + 1 := by omega
    rw [this]
    have e1 : ((s - 1 - e) / (-st) + 1) * (-st) = -(((s - 1 - e) / (-st) + 1) * st) := by rw [Int.mul_neg]
    omega
  · omega

/-! ## `len` and `get` agree with the denotation -/
theorem minLen_toLen (ls : List (Option Nat)) : minLen (ls.map toLen) = toLen (minOpt ls) := by
  induction ls with
  | nil => rfl
  | cons a ls ih =>
    cases a with
    | none => simpa [minLen, minOpt, toLen] using ih
    | some n =>
      simp only [List.map, toLen, minLen, minOpt, ih]
      cases minOpt ls <;> simp [toLen]

theorem lastLen_cons (r : Rep) (rs : List Rep) (h : rs ≠ []) : lastLen (r :: rs) = lastLen rs := by
  cases rs with
  | nil => exact absurd rfl h
  | cons a as => simp [lastLen]

theorem append_len_some {a b : Sem} {n : Nat} (h : a.len = some n) :
    (a.append b).len = b.len.map (n + ·) := by simp [Sem.append, h]
theorem append_len_none {a b : Sem} (h : a.len = none) : (a.append b).len = none := by
  simp [Sem.append, h]
theorem append_el_none {a b : Sem} (h : a.len = none) (i : Nat) : (a.append b).el i = a.el i := by
  simp [Sem.append, h]
theorem append_el_lt {a b : Sem} {n : Nat} (h : a.len = some n) (i : Nat) (hi : i < n) :
    (a.append b).el i = a.el i := by simp [Sem.append, h, hi]
theorem append_el_ge {a b : Sem} {n : Nat} (h : a.len = some n) (i : Nat) (hi : n ≤ i) :
    (a.append b).el i = b.el (i - n) := by
  have : ¬ i < n := by omega
  simp [Sem.append, h, this]

theorem toLen_fin {o : Option Nat} {n : Nat} (h : Len.fin n = toLen o) : o = some n := by
  cases o <;> simp [toLen] at h; rw [h]
theorem toLen_inf {o : Option Nat} (h : Len.inf = toLen o) : o = none := by
  cases o <;> simp [toLen] at h; rfl

theorem getLast_getD (m : Nat) (ms : List Nat) (acc : Nat) :
    (m :: ms).getLast?.getD acc = ms.getLast?.getD m := by
  cases ms with
  | nil => simp
  | cons a as =>
    cases hx : (a :: as).getLast? with
    | none => simp at hx
    | some x => simp [List.getLast?_cons_cons, hx]

/-- length of the concatenation of the parts of a well-formed chain, from the stored midpoints -/
theorem chain_len_aux : ∀ (parts : List Rep) (mids : List Nat) (acc : Nat),
    chainOk parts mids acc →
    lens parts = (denList parts).map (fun s => toLen s.len) →
    (match lastLen parts with
     | .fin l => ∃ t, (Sem.concat (denList parts)).len = some t ∧ acc + t = l + mids.getLast?.getD acc ∧ acc + t < USIZE
     | .inf => (Sem.concat (denList parts)).len = none
     | .panic _ => False)
  | [], _, _, h, _ => by simp [chainOk] at h
  | [r], [], acc, h, hl => by
      simp only [chainOk] at h
      simp only [lens, denList, List.map, List.cons.injEq, and_true] at hl
      simp only [lastLen, denList, Sem.concat]
      cases hr : r.len with
      | fin n =>
        rw [hr] at h hl
        have hd := toLen_fin hl
        simp only [] at h
        refine ⟨n, ?_, by simp; omega, h.1⟩
        rw [append_len_some hd]; simp [Sem.nil]
      | inf =>
        rw [hr] at hl
        exact append_len_none (toLen_inf hl)
      | panic _ => rw [hr] at h; exact h
  | [r], m :: ms, acc, h, _ => by simp [chainOk] at h
  | r :: r2 :: rs, [], acc, h, _ => by simp [chainOk] at h
  | r :: r2 :: rs, m :: ms, acc, h, hl => by
      simp only [chainOk] at h
      obtain ⟨⟨n, hn, hpos, hm⟩, hrest⟩ := h
      simp only [lens, denList, List.map, List.cons.injEq] at hl
      have ih := chain_len_aux (r2 :: rs) ms m hrest (by simpa [lens, denList] using hl.2)
      rw [lastLen_cons r (r2 :: rs) (by simp), getLast_getD]
      have hd : (den r).len = some n := toLen_fin (by rw [← hn]; exact hl.1)
      have hc : Sem.concat (denList (r :: r2 :: rs)) = (den r).append (Sem.concat (denList (r2 :: rs))) := by
        simp [denList, Sem.concat]
      rw [hc]
      cases hll : lastLen (r2 :: rs) with
      | fin l =>
        rw [hll] at ih; obtain ⟨t, ht, he, hlt⟩ := ih
        refine ⟨n + t, by rw [append_len_some hd, ht]; rfl, by omega, by omega⟩
      | inf =>
        rw [hll] at ih
        simp only []
        rw [append_len_some hd, ih]; rfl
      | panic _ => rw [hll] at ih; exact ih


theorem getD_succ_cons (m : Nat) (ms : List Nat) (q : Nat) :
    (m :: ms).getD q 0 = if q = 0 then m else ms.getD (q - 1) 0 := by
  cases q with
  | zero => simp
  | succ k => simp

/-- indexing a well-formed chain through the stored midpoints reaches the element of the concatenation -/
theorem chain_get_aux : ∀ (parts : List Rep) (mids : List Nat) (acc i : Nat),
    chainOk parts mids acc →
    lens parts = (denList parts).map (fun s => toLen s.len) →
    (∀ r ∈ parts, ∀ j, (den r).valid j → r.get j = (den r).el j) →
    acc ≤ i → (Sem.concat (denList parts)).valid (i - acc) →
    (if partitionPoint mids i = 0 then acc else mids.getD (partitionPoint mids i - 1) 0) ≤ i ∧
    getPart parts (partitionPoint mids i)
        (i - (if partitionPoint mids i = 0 then acc else mids.getD (partitionPoint mids i - 1) 0)) =
      (Sem.concat (denList parts)).el (i - acc)
  | [], _, _, _, h, _, _, _, _ => by simp [chainOk] at h
  | [r], [], acc, i, h, hl, hg, hacc, hv => by
      simp only [lens, denList, List.map, List.cons.injEq, and_true] at hl
      simp only [partitionPoint, if_true, getPart, denList, Sem.concat]
      refine ⟨hacc, ?_⟩
      simp only [denList, Sem.concat] at hv
      cases hd : (den r).len with
      | none =>
        rw [append_el_none hd]
        exact hg r (by simp) _ (by simp [Sem.valid, optValid, hd])
      | some n =>
        have hlt : i - acc < n := by
          simp only [Sem.valid, optValid, append_len_some hd, Sem.nil] at hv
          simpa using hv
        rw [append_el_lt hd _ hlt]
        exact hg r (by simp) _ (by simp [Sem.valid, optValid, hd, hlt])
  | [r], m :: ms, acc, _, h, _, _, _, _ => by simp [chainOk] at h
  | r :: r2 :: rs, [], acc, _, h, _, _, _, _ => by simp [chainOk] at h
  | r :: r2 :: rs, m :: ms, acc, i, h, hl, hg, hacc, hv => by
      simp only [chainOk] at h
      obtain ⟨⟨n, hn, hpos, hm⟩, hrest⟩ := h
      simp only [lens, denList, List.map, List.cons.injEq] at hl
      have hd : (den r).len = some n := toLen_fin (by rw [← hn]; exact hl.1)
      have hc : Sem.concat (denList (r :: r2 :: rs)) = (den r).append (Sem.concat (denList (r2 :: rs))) := by
        simp [denList, Sem.concat]
      rw [hc] at hv ⊢
      by_cases hmi : m ≤ i
      · have ih := chain_get_aux (r2 :: rs) ms m i hrest (by simpa [lens, denList] using hl.2)
          (fun x hx => hg x (by simp at hx ⊢; right; exact hx)) hmi
          (by
            simp only [Sem.valid, optValid, append_len_some hd] at hv
            simp only [Sem.valid, optValid]
            cases hcl : (Sem.concat (denList (r2 :: rs))).len with
            | none => trivial
            | some t => rw [hcl] at hv; simp at hv; simp; omega)
        have hpp : partitionPoint (m :: ms) i = 1 + partitionPoint ms i := by simp [partitionPoint, hmi]
        have hne : ¬ (1 + partitionPoint ms i = 0) := by omega
        rw [hpp]
        simp only [hne, if_false]
        have e1 : 1 + partitionPoint ms i - 1 = partitionPoint ms i := by omega
        rw [e1, getD_succ_cons]
        have e2 : getPart (r :: r2 :: rs) (1 + partitionPoint ms i) = getPart (r2 :: rs) (partitionPoint ms i) := by
          rw [Nat.add_comm]; funext x; simp [getPart]
        rw [e2]
        refine ⟨ih.1, ?_⟩
        rw [ih.2, append_el_ge hd _ (by omega)]
        congr 1; omega
      · have hpp : partitionPoint (m :: ms) i = 0 := by simp [partitionPoint, hmi]
        rw [hpp]
        simp only [if_true, getPart]
        refine ⟨hacc, ?_⟩
        have hlt : i - acc < n := by omega
        rw [append_el_lt hd _ hlt]
        exact hg r (by simp) _ (by simp [Sem.valid, optValid, hd, hlt])


theorem toLen_lenOpt (l : Len) (h : ∀ m, l ≠ .panic m) : toLen (lenOpt l) = l := by
  cases l with
  | fin n => rfl
  | inf => rfl
  | panic m => exact absurd rfl (h m)

theorem chainOk_mids_ne (r r2 : Rep) (rs : List Rep) (mids : List Nat) (acc : Nat)
    (h : chainOk (r :: r2 :: rs) mids acc) : ∃ m ms, mids = m :: ms := by
  cases mids with
  | nil => simp [chainOk] at h
  | cons m ms => exact ⟨m, ms, rfl⟩

mutual
theorem len_den : (r : Rep) → r.wf → r.len = toLen (den r).len
  | .empty, _ => rfl
  | .array _, _ => rfl
  | .range s e st, h => by
      simp only [Rep.wf] at h
      simp only [Rep.len, den]
      rw [toLen_lenOpt]
      intro m hm
      rcases h.2.2.2 with ⟨h1, h2⟩ | ⟨h1, h2⟩
      · obtain ⟨n, hn, _⟩ := rangeLen_pos s e st h1 h2; rw [hn] at hm; cases hm
      · obtain ⟨n, hn, _⟩ := rangeLen_neg s e st h1 h2; rw [hn] at hm; cases hm
  | .map r f, h => by
      simp only [Rep.wf] at h
      simp only [Rep.len, den]; exact len_den r h
  | .mapGet r base g, h => by
      simp only [Rep.wf] at h
      simp only [Rep.len, den]; exact len_den r h.1
  | .zip rs, h => by
      simp only [Rep.wf] at h
      simp only [Rep.len, den, Sem.zip]
      rw [lens_den rs h.1, ← minLen_toLen, List.map_map]; rfl
  | .slice r a b, h => by
      simp only [Rep.wf] at h
      cases b with
      | none => rfl
      | some e =>
        have : ¬ e < a := by have := h.2.2.1; omega
        simp [Rep.len, den, Sem.slice, toLen, this]
  | .count, _ => rfl
  | .chain parts mids, h => by
      simp only [Rep.wf] at h
      obtain ⟨hw, hok, hlen⟩ := h
      have hl := lens_den parts hw
      have key := chain_len_aux parts mids 0 hok hl
      match parts, hlen with
      | r :: r2 :: rs, _ =>
        obtain ⟨m, ms, rfl⟩ := chainOk_mids_ne r r2 rs mids 0 hok
        have hs : ∃ x, (m :: ms).getLast? = some x := by
          cases hx : (m :: ms).getLast? with
          | none => simp at hx
          | some x => exact ⟨x, rfl⟩
        obtain ⟨x, hx⟩ := hs
        simp only [Rep.len, den, hx]
        rw [hx] at key
        cases hll : lastLen (r :: r2 :: rs) with
        | fin l =>
          rw [hll] at key; obtain ⟨t, ht, he, _⟩ := key
          simp only [Option.getD_some] at he
          simp [ht, toLen]; omega
        | inf => rw [hll] at key; simp only [] at key; simp [key, toLen]
        | panic _ => rw [hll] at key; exact key.elim
theorem lens_den : (rs : List Rep) → wfAll rs → lens rs = (denList rs).map (fun s => toLen s.len)
  | [], _ => rfl
  | r :: rs, h => by
      simp only [wfAll] at h
      simp only [lens, denList, List.map]
      rw [len_den r h.1, lens_den rs h.2]
end


theorem valueToIdx_valid (o : Option Nat) (j : Int) (k : Nat) (h : valueToIdx (toLen o) j = .ok k) :
    optValid o k := by
  cases o with
  | none => trivial
  | some n =>
    simp only [toLen, valueToIdx] at h
    simp only [optValid]
    repeat' split at h
    all_goals first | (injection h with h; omega) | cases h

theorem minOpt_valid : ∀ (ls : List (Option Nat)) (i : Nat),
    optValid (minOpt ls) i → ∀ o ∈ ls, optValid o i
  | [], _, _, o, ho => by simp at ho
  | none :: ls, i, h, o, ho => by
      simp only [minOpt] at h
      simp only [List.mem_cons] at ho
      rcases ho with rfl | ho
      · trivial
      · exact minOpt_valid ls i h o ho
  | some n :: ls, i, h, o, ho => by
      simp only [minOpt] at h
      simp only [List.mem_cons] at ho
      cases hm : minOpt ls with
      | none =>
        rw [hm] at h; simp only [optValid] at h
        rcases ho with rfl | ho
        · exact h
        · exact minOpt_valid ls i (by rw [hm]; trivial) o ho
      | some m =>
        rw [hm] at h; simp only [optValid] at h
        rcases ho with rfl | ho
        · simp only [optValid]; omega
        · exact minOpt_valid ls i (by rw [hm]; simp only [optValid]; omega) o ho

mutual
theorem get_den : (r : Rep) → r.wf → ∀ i, (den r).valid i → r.get i = (den r).el i
  | .empty, _, i, hv => by simp [den, Sem.valid, optValid, Sem.nil] at hv
  | .array _, _, _, _ => rfl
  | .range _ _ _, _, _, _ => rfl
  | .count, _, _, _ => rfl
  | .map r f, h, i, hv => by
      simp only [Rep.wf] at h
      have ih := get_den r h i (by simpa [den, Sem.valid] using hv)
      simp only [Rep.get, den, ih]
      cases (den r).el i <;> rfl
  | .mapGet r base g, h, i, hv => by
      simp only [Rep.wf] at h
      have ih := get_den r h.1 i (by simpa [den, Sem.valid] using hv)
      simp only [Rep.get, den, ih]
      cases hx : (den r).el i with
      | err m => rfl
      | panic m => rfl
      | ok v =>
        cases v with
        | tup vs => rfl
        | int x =>
          simp only [elemGet]
          cases hg : g.app x with
          | err m => rfl
          | panic m => rfl
          | ok j =>
            simp only [Sem.index, len_den base h.2]
            cases hk : valueToIdx (toLen (den base).len) j with
            | err m => rfl
            | panic m => rfl
            | ok k =>
              simp only []
              exact get_den base h.2 k (valueToIdx_valid _ _ _ hk)
  | .zip rs, h, i, hv => by
      simp only [Rep.wf] at h
      have hall : ∀ s ∈ denList rs, s.valid i := by
        intro s hs
        simp only [den, Sem.zip, Sem.valid] at hv
        exact minOpt_valid _ i hv s.len (List.mem_map_of_mem hs)
      simp only [Rep.get, den, Sem.zip, getAll_den rs h.1 i hall]
      cases tupAll (List.map (fun x => x.el i) (denList rs)) <;> rfl
  | .slice r a b, h, i, hv => by
      simp only [Rep.wf] at h
      obtain ⟨hw, ha, hb⟩ := h
      simp only [Rep.get, den, Sem.slice]
      by_cases hlt : i + a < USIZE
      · simp only [hlt, if_true]
        apply get_den r hw
        have hl := len_den r hw
        cases b with
        | none =>
          simp only [] at hb
          rw [hb] at hl
          simp [Sem.valid, optValid, toLen_inf hl]
        | some e =>
          simp only [] at hb
          simp only [den, Sem.slice, Sem.valid, optValid, Option.map] at hv
          cases hr : r.len with
          | fin n =>
            rw [hr] at hb hl
            simp only [] at hb
            simp only [Sem.valid, optValid, toLen_fin hl]; omega
          | inf => rw [hr] at hl; simp [Sem.valid, optValid, toLen_inf hl]
          | panic _ => rw [hr] at hb; exact hb.2.elim
      · simp [hlt, oob]
  | .chain parts mids, h, i, hv => by
      simp only [Rep.wf] at h
      obtain ⟨hw, hok, _⟩ := h
      have key := chain_get_aux parts mids 0 i hok (lens_den parts hw) (getMem_den parts hw) (Nat.zero_le _)
        (by simpa [den] using hv)
      simp only [Rep.get, den]
      have hno : ¬ (if partitionPoint mids i = 0 then 0 else mids.getD (partitionPoint mids i - 1) 0) > i := by
        have := key.1; omega
      simp only [hno, if_false]
      simpa using key.2
theorem getAll_den : (rs : List Rep) → wfAll rs → ∀ i, (∀ s ∈ denList rs, s.valid i) →
    getAll rs i = tupAll ((denList rs).map (·.el i))
  | [], _, _, _ => rfl
  | r :: rs, h, i, hv => by
      simp only [wfAll] at h
      have h1 := get_den r h.1 i (hv _ (by simp [denList]))
      have h2 := getAll_den rs h.2 i (fun s hs => hv s (by simp [denList, hs]))
      simp only [getAll, denList, List.map, h1, h2]
      cases (den r).el i with
      | ok v => simp only [tupAll]; cases tupAll (List.map (fun x => x.el i) (denList rs)) <;> rfl
      | err m => rfl
      | panic m => rfl
theorem getMem_den : (rs : List Rep) → wfAll rs → ∀ r ∈ rs, ∀ j, (den r).valid j → r.get j = (den r).el j
  | [], _, r, hr, _, _ => by simp at hr
  | x :: xs, h, r, hr, j, hv => by
      simp only [wfAll] at h
      simp only [List.mem_cons] at hr
      by_cases hx : r = x
      · subst hx; exact get_den r h.1 j hv
      · exact getMem_den xs h.2 r (by rcases hr with rfl | hr; exact absurd rfl hx; exact hr) j hv
end

/-! ## slices -/
/-- extensional equality of denotations: same length, same elements at every valid index -/
def SemEq (a b : Sem) : Prop := a.len = b.len ∧ ∀ i, i < USIZE → a.valid i → a.el i = b.el i

/-- `drop start`, then keep the elements before position `end` of the original list -/
def Sem.dropTake (d : Sem) (start : Nat) (end_ : Option Nat) : Sem :=
  ⟨match d.len, end_ with
    | some n, some e => some (min e n - start)
    | some n, none => some (n - start)
    | none, some e => some (e - start)
    | none, none => none,
   fun i => if i + start < USIZE then d.el (i + start) else oob⟩

theorem len_cases (r : Rep) (h : r.wf) : (∃ n, r.len = .fin n ∧ (den r).len = some n) ∨ (r.len = .inf ∧ (den r).len = none) := by
  have := len_den r h
  cases hd : (den r).len with
  | none => right; rw [hd] at this; exact ⟨this, rfl⟩
  | some n => left; rw [hd] at this; exact ⟨n, this, rfl⟩

/-- the generic (non-flattening) arm: `Slice(base, start, end2)` -/
theorem slice_plain (r : Rep) (h : r.wf) (start : Nat) (end2 : Option Nat) (hs : start < USIZE)
    (hb : match end2 with
      | some e => start < e ∧ (match r.len with | .fin n => e ≤ n | .inf => e < USIZE | .panic _ => False)
      | none => r.len = .inf) :
    (Rep.slice r start end2).wf ∧ SemEq (den (Rep.slice r start end2)) ((den r).dropTake start end2) := by
  refine ⟨by simp only [Rep.wf]; exact ⟨h, hs, hb⟩, ?_, fun i _ _ => rfl⟩
  simp only [den, Sem.slice, Sem.dropTake]
  rcases len_cases r h with ⟨n, h1, h2⟩ | ⟨h1, h2⟩
  · rw [h2]
    cases end2 with
    | none => simp only [] at hb; rw [h1] at hb; cases hb
    | some e =>
      simp only [] at hb; rw [h1] at hb; simp only [] at hb
      simp only [Option.map]; congr 1; omega
  · rw [h2]
    cases end2 with
    | none => rfl
    | some e => rfl


theorem slice_len (origin : Rep) (os : Nat) (oe : Option Nat) :
    (Rep.slice origin os oe).len = (match oe with
      | none => .inf
      | some e => if e < os then .panic "attempt to subtract with overflow" else .fin (e - os)) := by
  cases oe <;> rfl

/-- the flattening arm: a slice of `Slice(origin, os, oe)` addresses `origin` directly -/
theorem slice_flatten (origin : Rep) (os : Nat) (oe : Option Nat) (h : (Rep.slice origin os oe).wf)
    (start : Nat) (end2 : Option Nat) (hfit1 : os + start < USIZE)
    (hfit2 : ∀ e, end2 = some e → os + e < USIZE)
    (hb : match end2 with
      | some e => start < e ∧ (match (Rep.slice origin os oe).len with
          | .fin n => e ≤ n | .inf => e < USIZE | .panic _ => False)
      | none => (Rep.slice origin os oe).len = .inf) :
    (Rep.slice origin (os + start) (end2.map (os + ·))).wf ∧
    SemEq (den (Rep.slice origin (os + start) (end2.map (os + ·))))
      ((den (Rep.slice origin os oe)).dropTake start end2) := by
  simp only [Rep.wf] at h
  obtain ⟨hw, hos, hoe⟩ := h
  rw [slice_len] at hb
  refine ⟨?_, ?_, ?_⟩
  · simp only [Rep.wf]
    refine ⟨hw, hfit1, ?_⟩
    cases end2 with
    | none =>
      simp only [Option.map]
      cases oe with
      | none => exact hoe
      | some e' =>
        simp only [] at hb
        split at hb <;> cases hb
    | some e =>
      simp only [Option.map]
      simp only [] at hb
      have hf := hfit2 e rfl
      cases oe with
      | none =>
        simp only [] at hoe hb
        rw [hoe]; exact ⟨by omega, hf⟩
      | some e' =>
        simp only [] at hoe hb
        have hlt : ¬ e' < os := by omega
        simp only [hlt, if_false] at hb
        refine ⟨by omega, ?_⟩
        cases hol : origin.len with
        | fin n => rw [hol] at hoe; simp only [] at hoe ⊢; omega
        | inf => exact hf
        | panic _ => rw [hol] at hoe; exact hoe.2.elim
  · simp only [den, Sem.slice, Sem.dropTake]
    cases oe with
    | none =>
      cases end2 with
      | none => rfl
      | some e => simp only [Option.map]; congr 1; omega
    | some e' =>
      simp only [] at hoe
      have hlt : ¬ e' < os := by omega
      cases end2 with
      | none => simp only [hlt, if_false] at hb; cases hb
      | some e =>
        simp only [hlt, if_false] at hb
        simp only [Option.map]; congr 1; omega
  · intro i _ _
    simp only [den, Sem.slice, Sem.dropTake]
    by_cases h1 : i + (os + start) < USIZE
    · have h2 : i + start < USIZE := by omega
      have h3 : i + start + os < USIZE := by omega
      have e1 : i + (os + start) = i + start + os := by omega
      simp [h1, h2, h3, e1]
    · by_cases h2 : i + start < USIZE
      · have h3 : ¬ i + start + os < USIZE := by omega
        simp [h1, h2, h3]
      · simp [h1, h2]


theorem sliceOf_spec (r : Rep) (h : r.wf) (start : Nat) (end2 : Option Nat) (hs : start < USIZE)
    (hb : match end2 with
      | some e => start < e ∧ (match r.len with | .fin n => e ≤ n | .inf => e < USIZE | .panic _ => False)
      | none => r.len = .inf) :
    (r.sliceOf start end2).wf ∧ SemEq (den (r.sliceOf start end2)) ((den r).dropTake start end2) := by
  cases r with
  | slice origin os oe =>
    cases end2 with
    | none =>
      simp only [Rep.sliceOf, Bool.and_true]
      by_cases hc : os + start < USIZE
      · simp only [hc, decide_true, if_true]
        exact (slice_flatten origin os oe h start none hc (by intro e he; cases he) hb)
      · simp only [hc, decide_false]
        exact slice_plain _ h start none hs hb
    | some e =>
      simp only [Rep.sliceOf]
      by_cases hc : os + start < USIZE ∧ os + e < USIZE
      · simp only [hc.1, hc.2, decide_true, Bool.and_self, if_true]
        exact (slice_flatten origin os oe h start (some e) hc.1 (by intro e' he; cases he; exact hc.2) hb)
      · have : (decide (os + start < USIZE) && decide (os + e < USIZE)) = false := by
          simp only [Bool.and_eq_false_imp, decide_eq_true_eq, decide_eq_false_iff_not]; intro h1 h2; exact hc ⟨h1, h2⟩
        simp only [this]
        exact slice_plain _ h start (some e) hs hb
  | empty => exact slice_plain _ h start end2 hs hb
  | array xs => exact slice_plain _ h start end2 hs hb
  | range a b c => exact slice_plain _ h start end2 hs hb
  | map a f => exact slice_plain _ h start end2 hs hb
  | mapGet a b g => exact slice_plain _ h start end2 hs hb
  | zip rs => exact slice_plain _ h start end2 hs hb
  | chain ps ms => exact slice_plain _ h start end2 hs hb
  | count => exact slice_plain _ h start end2 hs hb


theorem nil_eq_dropTake_zero (d : Sem) (start : Nat) (end_ : Option Nat)
    (h : (d.dropTake start end_).len = some 0) : SemEq Sem.nil (d.dropTake start end_) := by
  refine ⟨by rw [h]; rfl, ?_⟩
  intro i _ hv; simp [Sem.valid, optValid, Sem.nil] at hv

/-- `XSequence::slice`: never fails on a well-formed sequence; the whole-sequence shortcut, the empty result, the
plain slice and the flattened slice of a slice all denote `drop start`/`take` of the original list -/
theorem mkSlice_spec (r : Rep) (h : r.wf) (start : Nat) (end_ : Option Nat) (hs : start < USIZE)
    (he : ∀ e, end_ = some e → e < USIZE) :
    match r.mkSlice start end_ with
    | .ok none => SemEq (den r) ((den r).dropTake start end_)
    | .ok (some s) => s.wf ∧ SemEq (den s) ((den r).dropTake start end_)
    | .err _ => False
    | .panic _ => False := by
  rcases len_cases r h with ⟨n, h1, h2⟩ | ⟨h1, h2⟩
  · -- finite
    unfold Rep.mkSlice
    rw [h1]
    cases end_ with
    | none =>
      simp only [decide_true, true_and]
      by_cases h0 : start = 0
      · subst h0
        simp only [if_true]
        refine ⟨by simp [Sem.dropTake, h2], fun i hi _ => ?_⟩
        simp [Sem.dropTake, hi]
      · simp only [h0, if_false, if_true]
        by_cases hge : start ≥ n
        · simp only [hge, decide_true, Bool.or_self, if_true]
          exact ⟨trivial, nil_eq_dropTake_zero _ _ _ (by simp [Sem.dropTake, h2]; omega)⟩
        · simp only [hge, decide_false, Bool.or_self, Bool.false_eq_true, if_false]
          have := sliceOf_spec r h start (some n) hs (by simp only []; rw [h1]; simp only []; omega)
          refine ⟨this.1, this.2.1.trans (by simp [Sem.dropTake, h2]), fun i hi hv => (this.2.2 i hi hv).trans rfl⟩
    | some e =>
      by_cases hen : e ≥ n
      · simp only [hen, decide_true, true_and]
        by_cases h0 : start = 0
        · subst h0
          simp only [if_true]
          refine ⟨by simp [Sem.dropTake, h2]; omega, fun i hi _ => ?_⟩
          simp [Sem.dropTake, hi]
        · simp only [h0, if_false, if_true]
          by_cases hge : start ≥ n
          · simp only [hge, decide_true, Bool.or_self, if_true]
            exact ⟨trivial, nil_eq_dropTake_zero _ _ _ (by simp [Sem.dropTake, h2]; omega)⟩
          · simp only [hge, decide_false, Bool.or_self, Bool.false_eq_true, if_false]
            have := sliceOf_spec r h start (some n) hs (by simp only []; rw [h1]; simp only []; omega)
            refine ⟨this.1, this.2.1.trans (by simp [Sem.dropTake, h2]; omega), fun i hi hv => (this.2.2 i hi hv).trans rfl⟩
      · simp only [hen, decide_false, Bool.false_eq_true, false_and, if_false]
        by_cases hge : start ≥ e
        · simp only [hge, decide_true, Bool.true_or, if_true]
          exact ⟨trivial, nil_eq_dropTake_zero _ _ _ (by simp [Sem.dropTake, h2]; omega)⟩
        · have hge2 : ¬ start ≥ n := by omega
          simp only [hge, hge2, decide_false, Bool.or_self, Bool.false_eq_true, if_false]
          exact sliceOf_spec r h start (some e) hs (by simp only []; rw [h1]; simp only []; omega)
  · -- infinite
    unfold Rep.mkSlice
    rw [h1]
    cases end_ with
    | none =>
      simp only [decide_true, true_and]
      by_cases h0 : start = 0
      · subst h0
        simp only [if_true]
        refine ⟨by simp [Sem.dropTake, h2], fun i hi _ => ?_⟩
        simp [Sem.dropTake, hi]
      · simp only [h0, if_false, if_true, Bool.or_self, Bool.false_eq_true]
        exact sliceOf_spec r h start none hs h1
    | some e =>
      simp only [Bool.false_eq_true, false_and, if_false]
      by_cases hge : start ≥ e
      · simp only [hge, decide_true, Bool.or_false, if_true]
        exact ⟨trivial, nil_eq_dropTake_zero _ _ _ (by simp [Sem.dropTake, h2]; omega)⟩
      · simp only [hge, decide_false, Bool.or_self, Bool.false_eq_true, if_false]
        exact sliceOf_spec r h start (some e) hs (by simp only []; rw [h1]; simp only []; exact ⟨by omega, he e rfl⟩)


/-! ## chains -/
theorem wfAll_append : ∀ (l1 l2 : List Rep), wfAll l1 → wfAll l2 → wfAll (l1 ++ l2)
  | [], _, _, h2 => h2
  | r :: rs, l2, h1, h2 => by
      simp only [wfAll, List.cons_append] at h1 ⊢
      exact ⟨h1.1, wfAll_append rs l2 h1.2 h2⟩

/-- shifting the midpoints of a well-formed chain by `T` -/
theorem chainOk_shift : ∀ (parts : List Rep) (mids : List Nat) (acc T : Nat),
    chainOk parts mids acc →
    (match lastLen parts with
     | .fin l => l + mids.getLast?.getD acc + T < USIZE
     | .inf => mids.getLast?.getD acc + T < USIZE
     | .panic _ => True) →
    chainOk parts (mids.map (· + T)) (acc + T)
  | [], _, _, _, h, _ => by simp [chainOk] at h
  | [r], [], acc, T, h, hb => by
      simp only [chainOk, List.map] at h ⊢
      simp only [lastLen] at hb
      cases hr : r.len with
      | fin n => rw [hr] at h hb; simp only [List.getLast?_nil, Option.getD_none] at hb; simp only [] at h ⊢; omega
      | inf => rw [hr] at h hb; simp only [List.getLast?_nil, Option.getD_none] at hb; simp only [] at h ⊢; omega
      | panic _ => rw [hr] at h; exact h
  | [r], m :: ms, _, _, h, _ => by simp [chainOk] at h
  | r :: r2 :: rs, [], _, _, h, _ => by simp [chainOk] at h
  | r :: r2 :: rs, m :: ms, acc, T, h, hb => by
      simp only [chainOk, List.map] at h ⊢
      obtain ⟨⟨n, hn, hpos, hm⟩, hrest⟩ := h
      refine ⟨⟨n, hn, hpos, by omega⟩, ?_⟩
      apply chainOk_shift (r2 :: rs) ms m T hrest
      rw [lastLen_cons r (r2 :: rs) (by simp), getLast_getD] at hb
      exact hb

/-- splicing: the parts of a well-formed chain ending at `T`, followed by parts that start at `T` -/
theorem chainOk_append : ∀ (parts0 : List Rep) (mids0 : List Nat) (acc : Nat) (parts1 : List Rep) (mids1 : List Nat)
    (l T : Nat), chainOk parts0 mids0 acc → lastLen parts0 = .fin l → T = l + mids0.getLast?.getD acc →
    0 < l → chainOk parts1 mids1 T → chainOk (parts0 ++ parts1) (mids0 ++ [T] ++ mids1) acc
  | [], _, _, _, _, _, _, h, _, _, _, _ => by simp [chainOk] at h
  | [r], [], acc, parts1, mids1, l, T, h, hl, hT, hpos, h1 => by
      simp only [lastLen] at hl
      simp only [List.getLast?_nil, Option.getD_none] at hT
      cases parts1 with
      | nil => simp [chainOk] at h1
      | cons p ps =>
        simp only [List.cons_append, List.nil_append, chainOk]
        exact ⟨⟨l, hl, hpos, by omega⟩, h1⟩
  | [r], m :: ms, _, _, _, _, _, h, _, _, _, _ => by simp [chainOk] at h
  | r :: r2 :: rs, [], _, _, _, _, _, h, _, _, _, _ => by simp [chainOk] at h
  | r :: r2 :: rs, m :: ms, acc, parts1, mids1, l, T, h, hl, hT, hpos, h1 => by
      simp only [chainOk] at h
      obtain ⟨hfirst, hrest⟩ := h
      rw [lastLen_cons r (r2 :: rs) (by simp)] at hl
      rw [getLast_getD] at hT
      have ih := chainOk_append (r2 :: rs) ms m parts1 mids1 l T hrest hl hT hpos h1
      simp only [List.cons_append, chainOk] at ih ⊢
      exact ⟨hfirst, ih⟩


theorem chainOk_last : ∀ (parts : List Rep) (mids : List Nat) (acc : Nat), chainOk parts mids acc →
    (match lastLen parts with
     | .fin l => 0 < l ∧ l + mids.getLast?.getD acc < USIZE
     | .inf => mids.getLast?.getD acc < USIZE
     | .panic _ => False)
  | [], _, _, h => by simp [chainOk] at h
  | [r], [], acc, h => by
      simp only [chainOk] at h
      simp only [lastLen]
      cases hr : r.len with
      | fin n => rw [hr] at h; simp only [List.getLast?_nil, Option.getD_none] at h ⊢; omega
      | inf => rw [hr] at h; simp only [List.getLast?_nil, Option.getD_none] at h ⊢; exact h
      | panic _ => rw [hr] at h; exact h
  | [r], m :: ms, _, h => by simp [chainOk] at h
  | r :: r2 :: rs, [], _, h => by simp [chainOk] at h
  | r :: r2 :: rs, m :: ms, acc, h => by
      simp only [chainOk] at h
      rw [lastLen_cons r (r2 :: rs) (by simp), getLast_getD]
      exact chainOk_last (r2 :: rs) ms m h.2

theorem chain_len_eq (parts : List Rep) (mids : List Nat) (n : Nat) (h : (Rep.chain parts mids).len = .fin n) :
    ∃ l m, lastLen parts = .fin l ∧ mids.getLast? = some m ∧ n = l + m := by
  simp only [Rep.len] at h
  cases hl : lastLen parts with
  | fin l =>
    cases hm : mids.getLast? with
    | none => rw [hl, hm] at h; simp at h
    | some m => rw [hl, hm] at h; simp only [Len.fin.injEq] at h; exact ⟨l, m, rfl, rfl, h.symm⟩
  | inf => rw [hl] at h; cases hm : mids.getLast? <;> rw [hm] at h <;> simp at h
  | panic _ => rw [hl] at h; simp at h

/-- what `chain` guarantees of its operands before splicing -/
def chainPre (a b : Rep) (len0 : Nat) : Prop :=
  a.wf ∧ b.wf ∧ a.len = .fin len0 ∧ 0 < len0 ∧
  (match b.len with | .fin n => 0 < n ∧ len0 + n < USIZE | .inf => len0 + b.finPrefix < USIZE | .panic _ => False)

theorem chainOk_single (b : Rep) (len0 : Nat)
    (h : match b.len with | .fin n => 0 < n ∧ len0 + n < USIZE | .inf => len0 + b.finPrefix < USIZE | .panic _ => False) :
    chainOk [b] [] len0 := by
  simp only [chainOk]
  cases hb : b.len with
  | fin n => rw [hb] at h; simp only [] at h ⊢; omega
  | inf => rw [hb] at h; simp only [] at h ⊢; omega
  | panic _ => rw [hb] at h; exact h

theorem chainOk_of_chain_right (parts1 : List Rep) (mids1 : List Nat) (len0 : Nat)
    (hb : (Rep.chain parts1 mids1).wf)
    (h : match (Rep.chain parts1 mids1).len with
      | .fin n => 0 < n ∧ len0 + n < USIZE
      | .inf => len0 + (Rep.chain parts1 mids1).finPrefix < USIZE
      | .panic _ => False) :
    chainOk parts1 (mids1.map (· + len0)) len0 := by
  simp only [Rep.wf] at hb
  have := chainOk_shift parts1 mids1 0 len0 hb.2.1 (by
    cases hl : lastLen parts1 with
    | fin l =>
      simp only []
      cases hm : mids1.getLast? with
      | none => simp [Rep.len, hl, hm] at h
      | some m => simp only [Rep.len, hl, hm] at h; simp only [Option.getD_some]; omega
    | inf =>
      simp only []
      cases hm : mids1.getLast? with
      | none => simp [Rep.len, hl, hm] at h
      | some m => simp only [Rep.len, hl, hm, Rep.finPrefix, Option.getD_some] at h; simp only [Option.getD_some]; omega
    | panic _ => trivial)
  simpa using this

theorem chainOf_wf (a b : Rep) (len0 : Nat) (h : chainPre a b len0) : (Rep.chainOf a b len0).wf := by
  obtain ⟨ha, hb, hla, hpa, hlb⟩ := h
  by_cases hca : ∃ p m, a = Rep.chain p m
  · obtain ⟨p0, m0, rfl⟩ := hca
    obtain ⟨l, m, hl, hm, hn⟩ := chain_len_eq p0 m0 len0 hla
    have hwa := ha
    simp only [Rep.wf] at hwa
    have hlast := chainOk_last p0 m0 0 hwa.2.1
    rw [hl] at hlast
    have hT : len0 = l + m0.getLast?.getD 0 := by rw [hm]; simpa using hn
    by_cases hcb : ∃ p m, b = Rep.chain p m
    · obtain ⟨p1, m1, rfl⟩ := hcb
      have hwb := hb
      simp only [Rep.wf] at hwb
      simp only [Rep.chainOf, Rep.wf]
      refine ⟨wfAll_append _ _ hwa.1 hwb.1, ?_, by simp; omega⟩
      exact chainOk_append p0 m0 0 p1 _ l len0 hwa.2.1 hl hT hlast.1 (chainOk_of_chain_right p1 m1 len0 hb hlb)
    · have e : Rep.chainOf (Rep.chain p0 m0) b len0 = Rep.chain (p0 ++ [b]) (m0 ++ [len0]) := by
        cases b <;> first | rfl | exact absurd ⟨_, _, rfl⟩ hcb
      rw [e]
      simp only [Rep.wf]
      refine ⟨wfAll_append _ _ hwa.1 (by simp [wfAll, hb]), ?_, by simp; omega⟩
      have := chainOk_append p0 m0 0 [b] [] l len0 hwa.2.1 hl hT hlast.1 (chainOk_single b len0 hlb)
      simpa using this
  · by_cases hcb : ∃ p m, b = Rep.chain p m
    · obtain ⟨p1, m1, rfl⟩ := hcb
      have e : Rep.chainOf a (Rep.chain p1 m1) len0 = Rep.chain (a :: p1) (len0 :: m1.map (· + len0)) := by
        cases a <;> first | rfl | exact absurd ⟨_, _, rfl⟩ hca
      rw [e]
      have hwb := hb
      simp only [Rep.wf] at hwb
      simp only [Rep.wf, wfAll]
      refine ⟨⟨ha, hwb.1⟩, ?_, by simp; omega⟩
      have h1 := chainOk_of_chain_right p1 m1 len0 hb hlb
      cases p1 with
      | nil => simp [chainOk] at h1
      | cons q qs =>
        simp only [chainOk]
        exact ⟨⟨len0, hla, hpa, by omega⟩, h1⟩
    · have e : Rep.chainOf a b len0 = Rep.chain [a, b] [len0] := by
        cases a <;> cases b <;> first | rfl | exact absurd ⟨_, _, rfl⟩ hca | exact absurd ⟨_, _, rfl⟩ hcb
      rw [e]
      simp only [Rep.wf, wfAll, chainOk]
      exact ⟨⟨ha, hb, trivial⟩, ⟨⟨len0, hla, hpa, by omega⟩, chainOk_single b len0 hlb⟩, by simp⟩


theorem isEmpty_fin (r : Rep) (n : Nat) (h : r.len = .fin n) : r.isEmpty = decide (n = 0) := by
  simp only [Rep.isEmpty, h]
  cases n <;> simp

theorem isEmpty_inf (r : Rep) (h : r.len = .inf) : r.isEmpty = false := by
  simp only [Rep.isEmpty, h]

/-- `XSequence::chain` on well-formed operands: never a panic; an empty operand yields the other one; an error
value exactly when the left operand is infinite or the total length does not fit `usize`; otherwise a
well-formed chain (the spliced parts and shifted midpoints satisfy the invariant again) -/
theorem mkChain_wf (a b : Rep) (ha : a.wf) (hb : b.wf) :
    match a.mkChain b with
    | .new r => r.wf
    | .left => (den b).len = some 0
    | .right => (den a).len = some 0
    | .err _ => ((den a).len = none ∧ (den b).len ≠ some 0) ∨
        (∃ n m, (den a).len = some n ∧ (den b).len = some m ∧ USIZE ≤ n + m) ∨
        (∃ n, (den a).len = some n ∧ (den b).len = none ∧ USIZE ≤ n + b.finPrefix)
    | .panic _ => False := by
  unfold Rep.mkChain
  rcases len_cases a ha with ⟨n, a1, a2⟩ | ⟨a1, a2⟩ <;> rcases len_cases b hb with ⟨m, b1, b2⟩ | ⟨b1, b2⟩
  · rw [a1, b1]
    simp only [isEmpty_fin a n a1, isEmpty_fin b m b1]
    by_cases hn : n = 0 <;> by_cases hm : m = 0
    · simp [hn, hm, Rep.wf]
    · simp [hn, hm, a2]
    · simp [hn, hm, b2]
    · simp only [hn, hm, decide_false, Bool.false_eq_true, if_false]
      by_cases hov : n + m ≥ USIZE
      · simp only [hov, decide_true, if_true]
        right; left; exact ⟨n, m, a2, b2, hov⟩
      · simp only [hov, decide_false, Bool.false_eq_true, if_false]
        exact chainOf_wf a b n ⟨ha, hb, a1, by omega, by rw [b1]; simp only []; omega⟩
  · rw [a1, b1]
    simp only [isEmpty_fin a n a1, isEmpty_inf b b1]
    by_cases hn : n = 0
    · simp [hn, a2]
    · simp only [hn, decide_false, Bool.false_eq_true, if_false]
      by_cases hov : n + b.finPrefix ≥ USIZE
      · simp only [hov, decide_true, if_true]
        right; right; exact ⟨n, a2, b2, hov⟩
      · simp only [hov, decide_false, Bool.false_eq_true, if_false]
        exact chainOf_wf a b n ⟨ha, hb, a1, by omega, by rw [b1]; simp only []; omega⟩
  · rw [a1, b1]
    simp only [isEmpty_inf a a1, isEmpty_fin b m b1]
    by_cases hm : m = 0
    · simp [hm, b2]
    · simp only [hm, decide_false, Bool.false_eq_true, if_false]
      left; exact ⟨a2, by rw [b2]; simpa using hm⟩
  · rw [a1, b1]
    simp only [isEmpty_inf a a1, isEmpty_inf b b1, Bool.false_eq_true, if_false]
    left; exact ⟨a2, by rw [b2]; simp⟩


/-! ## concatenation of denotations -/
theorem SemEq.refl (a : Sem) : SemEq a a := ⟨rfl, fun _ _ _ => rfl⟩
theorem SemEq.trans {a b c : Sem} (h1 : SemEq a b) (h2 : SemEq b c) : SemEq a c :=
  ⟨h1.1.trans h2.1, fun i hi hv => (h1.2 i hi hv).trans (h2.2 i hi (by unfold Sem.valid at hv ⊢; rw [← h1.1]; exact hv))⟩

theorem append_nil (x : Sem) : SemEq (x.append .nil) x := by
  cases hx : x.len with
  | none => exact ⟨by rw [append_len_none hx, hx], fun i _ _ => append_el_none hx i⟩
  | some n =>
    refine ⟨by rw [append_len_some hx, hx]; simp [Sem.nil], fun i _ hv => ?_⟩
    have : i < n := by simpa [Sem.valid, optValid, append_len_some hx, Sem.nil] using hv
    exact append_el_lt hx i this

theorem append_congr_right (x : Sem) {y y' : Sem} (h : SemEq y y') : SemEq (x.append y) (x.append y') := by
  cases hx : x.len with
  | none => exact ⟨by rw [append_len_none hx, append_len_none hx], fun i _ _ => by rw [append_el_none hx, append_el_none hx]⟩
  | some n =>
    refine ⟨by rw [append_len_some hx, append_len_some hx, h.1], fun i hi hv => ?_⟩
    by_cases hlt : i < n
    · rw [append_el_lt hx i hlt, append_el_lt hx i hlt]
    · rw [append_el_ge hx i (by omega), append_el_ge hx i (by omega)]
      apply h.2 _ (by omega)
      simp only [Sem.valid, append_len_some hx] at hv
      unfold Sem.valid
      cases hy : y.len with
      | none => trivial
      | some m => rw [hy] at hv; simp only [Option.map, optValid] at hv ⊢; omega

theorem append_assoc (x y z : Sem) : SemEq ((x.append y).append z) (x.append (y.append z)) := by
  cases hx : x.len with
  | none =>
    have h1 : (x.append y).len = none := append_len_none hx
    refine ⟨by rw [append_len_none h1, append_len_none hx], fun i _ _ => ?_⟩
    rw [append_el_none h1, append_el_none hx, append_el_none hx]
  | some n =>
    cases hy : y.len with
    | none =>
      have h1 : (x.append y).len = none := by rw [append_len_some hx, hy]; rfl
      have h2 : (y.append z).len = none := append_len_none hy
      refine ⟨by rw [append_len_none h1, append_len_some hx, h2]; rfl, fun i _ _ => ?_⟩
      rw [append_el_none h1]
      by_cases hlt : i < n
      · rw [append_el_lt hx i hlt, append_el_lt hx i hlt]
      · rw [append_el_ge hx i (by omega), append_el_ge hx i (by omega), append_el_none hy]
    | some m =>
      have h1 : (x.append y).len = some (n + m) := by rw [append_len_some hx, hy]; rfl
      have h2 : (y.append z).len = z.len.map (m + ·) := append_len_some hy
      refine ⟨?_, fun i _ _ => ?_⟩
      · rw [append_len_some h1, append_len_some hx, h2]
        cases z.len <;> simp [Option.map]; omega
      · by_cases hlt : i < n
        · rw [append_el_lt h1 i (by omega), append_el_lt hx i hlt, append_el_lt hx i hlt]
        · by_cases hlt2 : i < n + m
          · rw [append_el_lt h1 i hlt2, append_el_ge hx i (by omega), append_el_ge hx i (by omega),
              append_el_lt hy _ (by omega)]
          · rw [append_el_ge h1 i (by omega), append_el_ge hx i (by omega), append_el_ge hy _ (by omega)]
            congr 1; omega

theorem denList_append : ∀ (l1 l2 : List Rep), denList (l1 ++ l2) = denList l1 ++ denList l2
  | [], _ => rfl
  | r :: rs, l2 => by simp only [List.cons_append, denList, denList_append rs l2]

theorem nil_append (y : Sem) : SemEq (Sem.nil.append y) y := by
  have hx : Sem.nil.len = some 0 := rfl
  refine ⟨by rw [append_len_some hx]; cases y.len <;> simp [Option.map], fun i _ _ => ?_⟩
  rw [append_el_ge hx i (by omega)]; rfl

theorem concat_append : ∀ (l1 l2 : List Sem), SemEq (Sem.concat (l1 ++ l2)) ((Sem.concat l1).append (Sem.concat l2))
  | [], l2 => by
      simp only [List.nil_append, Sem.concat]
      exact ⟨(nil_append _).1.symm, fun i hi hv => ((nil_append _).2 i hi (by
        unfold Sem.valid at hv ⊢; rw [(nil_append (Sem.concat l2)).1]; exact hv)).symm⟩
  | s :: ss, l2 => by
      simp only [List.cons_append, Sem.concat]
      have ih := concat_append ss l2
      have h1 := append_congr_right s ih
      have h2 := append_assoc s (Sem.concat ss) (Sem.concat l2)
      refine SemEq.trans h1 ⟨h2.1.symm, fun i hi hv => (h2.2 i hi (by
        unfold Sem.valid at hv ⊢; rw [h2.1]; exact hv)).symm⟩


theorem SemEq.symm {a b : Sem} (h : SemEq a b) : SemEq b a :=
  ⟨h.1.symm, fun i hi hv => (h.2 i hi (by unfold Sem.valid at hv ⊢; rw [h.1]; exact hv)).symm⟩

/-- the spliced chain denotes the concatenation of the two lists, in all four arms -/
theorem chainOf_den (a b : Rep) (len0 : Nat) : SemEq (den (Rep.chainOf a b len0)) ((den a).append (den b)) := by
  by_cases hca : ∃ p m, a = Rep.chain p m
  · obtain ⟨p0, m0, rfl⟩ := hca
    by_cases hcb : ∃ p m, b = Rep.chain p m
    · obtain ⟨p1, m1, rfl⟩ := hcb
      simp only [Rep.chainOf, den, denList_append]
      exact concat_append _ _
    · have e : Rep.chainOf (Rep.chain p0 m0) b len0 = Rep.chain (p0 ++ [b]) (m0 ++ [len0]) := by
        cases b <;> first | rfl | exact absurd ⟨_, _, rfl⟩ hcb
      rw [e]
      simp only [den, denList_append]
      refine SemEq.trans (concat_append _ _) (append_congr_right _ ?_)
      simp only [denList, Sem.concat]
      exact append_nil _
  · by_cases hcb : ∃ p m, b = Rep.chain p m
    · obtain ⟨p1, m1, rfl⟩ := hcb
      have e : Rep.chainOf a (Rep.chain p1 m1) len0 = Rep.chain (a :: p1) (len0 :: m1.map (· + len0)) := by
        cases a <;> first | rfl | exact absurd ⟨_, _, rfl⟩ hca
      rw [e]
      simp only [den, denList, Sem.concat]
      exact SemEq.refl _
    · have e : Rep.chainOf a b len0 = Rep.chain [a, b] [len0] := by
        cases a <;> cases b <;> first | rfl | exact absurd ⟨_, _, rfl⟩ hca | exact absurd ⟨_, _, rfl⟩ hcb
      rw [e]
      simp only [den, denList, Sem.concat]
      exact append_congr_right _ (append_nil _)


theorem mkChain_new (a b r : Rep) (h : a.mkChain b = .new r) :
    (r = .empty ∧ a.isEmpty = true ∧ b.isEmpty = true) ∨ ∃ n, r = Rep.chainOf a b n := by
  unfold Rep.mkChain at h
  repeat' split at h
  all_goals first
    | (injection h with h; subst h; first | (left; exact ⟨rfl, by assumption, by assumption⟩) | (right; exact ⟨_, rfl⟩))
    | cases h

theorem isEmpty_den (r : Rep) (h : r.wf) (he : r.isEmpty = true) : (den r).len = some 0 := by
  rcases len_cases r h with ⟨n, h1, h2⟩ | ⟨h1, h2⟩
  · rw [isEmpty_fin r n h1] at he; rw [h2]; simpa using he
  · rw [isEmpty_inf r h1] at he; cases he


/-! ## copying -/
/-- the evaluations of the `n` elements of a list starting at position `i` -/
def elemsFrom (d : Sem) : Nat → Nat → List (Res Val)
  | _, 0 => []
  | i, n + 1 => d.el i :: elemsFrom d (i + 1) n

/-- copying a run of elements out of a representation evaluates exactly the elements of the denoted list, left
to right, the first failure winning -/
theorem collectFrom_den (r : Rep) (h : r.wf) : ∀ (n i : Nat), (∀ k, k < n → (den r).valid (i + k)) →
    collectFrom r i n = tupAll (elemsFrom (den r) i n)
  | 0, _, _ => rfl
  | n + 1, i, hv => by
      have h0 := get_den r h i (by simpa using hv 0 (by omega))
      have ih := collectFrom_den r h n (i + 1) (fun k hk => by
        have := hv (k + 1) (by omega)
        rw [show i + 1 + k = i + (k + 1) by omega]; exact this)
      simp only [collectFrom, elemsFrom, h0, ih]
      cases (den r).el i with
      | ok v => simp only [tupAll]; cases tupAll (elemsFrom (den r) (i + 1) n) <;> rfl
      | err m => rfl
      | panic m => rfl

theorem array_elems : ∀ (xs pre : List Val),
    tupAll (elemsFrom (den (.array (pre ++ xs))) pre.length xs.length) = .ok xs
  | [], _ => rfl
  | x :: xs, pre => by
      have ih := array_elems xs (pre ++ [x])
      simp only [List.append_assoc, List.singleton_append, List.length_append, List.length_singleton] at ih
      simp only [elemsFrom, List.length_cons]
      have : (den (.array (pre ++ x :: xs))).el pre.length = .ok x := by
        simp [den]
      rw [this]; simp only [tupAll, ih]

/-- all elements of a finite sequence, as `collect` gathers them (arrays are iterated directly) -/
theorem collect_den (r : Rep) (h : r.wf) (n : Nat) (hn : (den r).len = some n) :
    r.collect n = tupAll (elemsFrom (den r) 0 n) := by
  have hv : ∀ k, k < n → (den r).valid (0 + k) := by
    intro k hk; simp [Sem.valid, optValid, hn, hk]
  cases r with
  | array xs =>
    simp only [Rep.collect]
    have : n = xs.length := by simp [den] at hn; exact hn.symm
    subst this
    have := array_elems xs []
    simpa using this.symm
  | empty => exact collectFrom_den _ h n 0 hv
  | range a b c => exact collectFrom_den _ h n 0 hv
  | map a f => exact collectFrom_den _ h n 0 hv
  | mapGet a b g => exact collectFrom_den _ h n 0 hv
  | zip rs => exact collectFrom_den _ h n 0 hv
  | chain ps ms => exact collectFrom_den _ h n 0 hv
  | slice a b c => exact collectFrom_den _ h n 0 hv
  | count => exact collectFrom_den _ h n 0 hv


/-- the list-level result of a copying update: evaluate the listed element runs of the denoted list (first
failure wins) and build an array from the pieces -/
def listResult (pieces : Res (List Val)) (k : List Val → List Val) : V :=
  match pieces with
  | .ok vs => .seq (Rep.mkArray (k vs))
  | .err m => .err m
  | .panic m => .panic m

theorem liftList_eq (x : Res (List Val)) (k : List Val → List Val) :
    liftList x (fun vs => .seq (Rep.mkArray (k vs))) = listResult x k := by
  cases x <;> rfl

def listResult2 (a b : Res (List Val)) (k : List Val → List Val → List Val) : V :=
  match a with
  | .ok pre => (match b with
      | .ok post => .seq (Rep.mkArray (k pre post))
      | .err m => .err m
      | .panic m => .panic m)
  | .err m => .err m
  | .panic m => .panic m

theorem liftList2_eq (a b : Res (List Val)) (k : List Val → List Val → List Val) :
    liftList a (fun pre => liftList b fun post => .seq (Rep.mkArray (k pre post))) = listResult2 a b k := by
  cases a <;> cases b <;> rfl


/-! ## the library compositions written in xray -/
theorem valueToIdx_nat (n k : Nat) (hk : k < n) (hn : n < USIZE) : valueToIdx (.fin n) (k : Int) = .ok k := by
  unfold valueToIdx USIZE at *
  simp only []
  repeat' split
  all_goals first | (exfalso; omega) | (congr 1)

theorem rangeLen_unit (n : Nat) (hn : 0 < n) : rangeLen 0 n 1 = .fin n := by
  have h1 : (0 : Int) < 1 ∧ (0 : Int) < n := by omega
  simp only [rangeLen, h1, and_self, if_true]
  congr 1
  simp only [Int.ediv_one]
  omega

theorem rangeB_unit (n : Nat) (hin : inI64 (n : Int) = true) :
    rangeB [(n : Int)] = if n = 0 then .seq .empty else .seq (.range 0 n 1) := by
  unfold rangeB
  simp only [hin, if_true]
  have h1 : ¬ ((1 : Int) = 0) := by omega
  simp only [h1, if_false]
  by_cases h0 : n = 0
  · have : ((0 : Int) < 1 ∧ (0 : Int) ≥ (n : Int)) ∨ ((1 : Int) < 0 ∧ (0 : Int) ≤ (n : Int)) := by left; omega
    subst h0; simp only [this, if_true]
  · have : ¬ (((0 : Int) < 1 ∧ (0 : Int) ≥ (n : Int)) ∨ ((1 : Int) < 0 ∧ (0 : Int) ≤ (n : Int))) := by omega
    simp only [this, if_false, h0]

/-- `reverse` on a finite sequence of length `n < 2^63`: a lazy sequence of the same length whose `i`-th element
is element `n-1-i` of the original list -/
theorem reverse_spec (r : Rep) (h : r.wf) (n : Nat) (hn : (den r).len = some n) (hb : (n : Int) < 9223372036854775808) :
    ∃ s, reverseB r = .seq s ∧ s.wf ∧ (den s).len = some n ∧
      ∀ i, i < n → (den s).el i = (den r).el (n - 1 - i) := by
  have hl : r.len = .fin n := by rw [len_den r h, hn]; rfl
  have hin : inI64 (n : Int) = true := by simp [inI64]; omega
  by_cases h0 : n = 0
  · subst h0
    refine ⟨.mapGet .empty r (.rev (0 : Nat)), ?_, ?_, by simp [den, Sem.nil], fun i hi => absurd hi (by omega)⟩
    · have e := rangeB_unit 0 hin
      rw [if_pos rfl] at e
      unfold reverseB; rw [hl]
      show reverseOf r 0 (rangeB [((0 : Nat) : Int)]) = _
      rw [e]; rfl
    · simp [Rep.wf, h]
  · have hpos : 0 < n := by omega
    refine ⟨.mapGet (.range 0 n 1) r (.rev n), ?_, ?_, ?_, ?_⟩
    · have e := rangeB_unit n hin
      rw [if_neg h0] at e
      unfold reverseB; rw [hl]
      show reverseOf r n (rangeB [(n : Int)]) = _
      rw [e]; rfl
    · simp only [Rep.wf]
      exact ⟨⟨rfl, hin, rfl, Or.inl ⟨by omega, by omega⟩⟩, h⟩
    · simp [den, rangeLen_unit n hpos, lenOpt]
    · intro i hi
      simp only [den, elemGet, IFn.app, Sem.index, hn, toLen]
      have e : (0 : Int) + (i : Int) * 1 = i := by omega
      have e2 : (n : Int) - 1 - (i : Int) = ((n - 1 - i : Nat) : Int) := by omega
      rw [e, e2, valueToIdx_nat n (n - 1 - i) (by omega) (by unfold USIZE; omega)]

theorem fmod_nat (i n : Nat) (hn : 0 < n) : Int.fmod (i : Int) (n : Int) = ((i % n : Nat) : Int) := by
  rw [Int.fmod_eq_emod_of_nonneg _ (by omega)]
  exact (Int.natCast_emod i n).symm

/-- `repeat()` of a non-empty finite sequence: an infinite sequence whose `i`-th element is element `i mod n` -/
theorem repeat_spec (r : Rep) (h : r.wf) (n : Nat) (hn : (den r).len = some n) (hpos : 0 < n) (hb : n < USIZE) :
    ∃ s, repeatB r = .seq s ∧ s.wf ∧ (den s).len = none ∧ ∀ i, (den s).el i = (den r).el (i % n) := by
  have hl : r.len = .fin n := by rw [len_den r h, hn]; rfl
  refine ⟨.mapGet .count r (.mod n), by unfold repeatB; rw [hl], by simp [Rep.wf, h], rfl, fun i => ?_⟩
  have hne : ¬ ((n : Int) = 0) := by omega
  simp only [den, elemGet, IFn.app, hne, if_false, Sem.index, hn, toLen]
  rw [fmod_nat i n hpos, valueToIdx_nat n (i % n) (Nat.mod_lt _ hpos) hb]

theorem count2_notEmpty (s o : Int) : (count2 s o).isEmpty = false := by
  simp [count2, Rep.isEmpty, Rep.len]

/-- `enumerate(a, start, offset)` = `count(start, offset).zip(a)`: the empty sequence for an empty `a`, otherwise
a zip of the same length as `a` whose `i`-th element is the pair `(start + i*offset, a[i])` -/
theorem enumerate_spec (r : Rep) (h : r.wf) (s o : Int) :
    (r.isEmpty = true → enumerateB r s o = .seq .empty) ∧
    (r.isEmpty = false → enumerateB r s o = .seq (.zip [count2 s o, r]) ∧
      (Rep.zip [count2 s o, r]).wf ∧
      (den (.zip [count2 s o, r])).len = (den r).len ∧
      ∀ i, (den (.zip [count2 s o, r])).el i = (match (den r).el i with
        | .ok v => .ok (.tup [.int (i * o + s), v])
        | .err m => .err m
        | .panic m => .panic m)) := by
  refine ⟨fun he => by simp [enumerateB, zipB, he], fun he => ⟨by simp [enumerateB, zipB, he, count2_notEmpty], ?_, ?_, ?_⟩⟩
  · simp [Rep.wf, wfAll, count2, h]
  · simp only [den, denList, Sem.zip, List.map, count2, minOpt]
    cases (den r).len <;> rfl
  · intro i
    simp only [den, denList, Sem.zip, List.map, count2, elemMap, PFn.app, tupAll]
    cases (den r).el i <;> rfl


/-! ## midpoint bound, scans (take_while / skip_until / nth), to_stack, swap, eq -/
/-- every midpoint of a well-formed chain (finite or with an infinite last part) fits `usize`, and they increase -/
theorem chainOk_fit : ∀ (parts : List Rep) (mids : List Nat) (acc : Nat), chainOk parts mids acc →
    acc < USIZE ∧ ∀ m ∈ mids, acc < m ∧ m < USIZE
  | [], _, _, h => by simp [chainOk] at h
  | [r], [], acc, h => by
      simp only [chainOk] at h
      refine ⟨?_, by simp⟩
      cases hr : r.len with
      | fin n => rw [hr] at h; simp only [] at h; omega
      | inf => rw [hr] at h; exact h
      | panic _ => rw [hr] at h; exact h.elim
  | [r], m :: ms, _, h => by simp [chainOk] at h
  | r :: r2 :: rs, [], _, h => by simp [chainOk] at h
  | r :: r2 :: rs, m :: ms, acc, h => by
      simp only [chainOk] at h
      obtain ⟨⟨n, _, hpos, hm⟩, hrest⟩ := h
      obtain ⟨h1, h2⟩ := chainOk_fit (r2 :: rs) ms m hrest
      refine ⟨by omega, ?_⟩
      intro x hx
      simp only [List.mem_cons] at hx
      rcases hx with rfl | hx
      · omega
      · have := h2 x hx; omega

theorem atEnd_valid (o : Option Nat) (i : Nat) (h : optValid o i) : atEnd o i = false := by
  cases o with
  | none => rfl
  | some n => simp only [optValid] at h; simp [atEnd]; omega

theorem lenOpt_toLen (o : Option Nat) : lenOpt (toLen o) = o := by cases o <;> rfl

/-- `k` is examined and passed over by the scan: an int element on the non-stopping side of the predicate -/
def passes (d : Sem) (c : Int) (stopOn : Bool) (k : Nat) : Prop :=
  ∃ x, d.el k = .ok (.int x) ∧ decide (x < c) ≠ stopOn

/-- `j` stops the scan -/
def stops (d : Sem) (c : Int) (stopOn : Bool) (j : Nat) : Prop :=
  ∃ x, d.el j = .ok (.int x) ∧ decide (x < c) = stopOn

/-- the scan of `take_while`/`skip_until` stops at the first stopping index `j`, having examined `j - i + 1`
elements (one search permit each): it succeeds with more fuel than `j - i` … -/
theorem scan_found (r : Rep) (h : r.wf) (c : Int) (stopOn : Bool) (j : Nat) (hv : (den r).valid j)
    (hj : stops (den r) c stopOn j) :
    ∀ (fuel i : Nat), i ≤ j → (∀ k, i ≤ k → k < j → passes (den r) c stopOn k) → j - i < fuel →
      scanLt r c stopOn (den r).len i fuel = .ok (some j)
  | 0, _, _, _, hf => by omega
  | fuel + 1, i, hij, hp, hf => by
      have hvi : (den r).valid i := by
        unfold Sem.valid optValid at *
        cases hl : (den r).len with
        | none => trivial
        | some n => rw [hl] at hv; simp only [] at hv ⊢; omega
      have hlim := atEnd_valid _ _ hvi
      simp only [scanLt, hlim, Bool.false_eq_true, if_false, get_den r h i hvi]
      by_cases e : i = j
      · subst e
        obtain ⟨x, hx, hs⟩ := hj
        simp only [hx, hs, if_true]
      · obtain ⟨x, hx, hs⟩ := hp i (Nat.le_refl _) (by omega)
        simp only [hx, hs, if_false]
        exact scan_found r h c stopOn j hv hj fuel (i + 1) (by omega) (fun k hk1 hk2 => hp k (by omega) hk2) (by omega)

/-- … and runs out of permits with `j - i` or fewer -/
theorem scan_out_of_fuel (r : Rep) (h : r.wf) (c : Int) (stopOn : Bool) (j : Nat) (hv : (den r).valid j) :
    ∀ (fuel i : Nat), i ≤ j → (∀ k, i ≤ k → k < j → passes (den r) c stopOn k) → fuel ≤ j - i →
      scanLt r c stopOn (den r).len i fuel = .panic "out of fuel"
  | 0, _, _, _, _ => rfl
  | fuel + 1, i, hij, hp, hf => by
      have hvi : (den r).valid i := by
        unfold Sem.valid optValid at *
        cases hl : (den r).len with
        | none => trivial
        | some n => rw [hl] at hv; simp only [] at hv ⊢; omega
      have hlim := atEnd_valid _ _ hvi
      simp only [scanLt, hlim, Bool.false_eq_true, if_false, get_den r h i hvi]
      obtain ⟨x, hx, hs⟩ := hp i (Nat.le_refl _) (by omega)
      simp only [hx, hs, if_false]
      exact scan_out_of_fuel r h c stopOn j hv fuel (i + 1) (by omega) (fun k hk1 hk2 => hp k (by omega) hk2) (by omega)

/-- no stopping element in a finite sequence: the scan reaches the end -/
theorem scan_end (r : Rep) (h : r.wf) (c : Int) (stopOn : Bool) (n : Nat) (hn : (den r).len = some n) :
    ∀ (fuel i : Nat), i ≤ n → (∀ k, i ≤ k → k < n → passes (den r) c stopOn k) → n - i < fuel →
      scanLt r c stopOn (den r).len i fuel = .ok none
  | 0, _, _, _, hf => by omega
  | fuel + 1, i, hin, hp, hf => by
      by_cases e : i = n
      · subst e; simp [scanLt, hn, atEnd]
      · have hvi : (den r).valid i := by simp only [Sem.valid, optValid, hn]; omega
        have hlim := atEnd_valid _ _ hvi
        obtain ⟨x, hx, hs⟩ := hp i (Nat.le_refl _) (by omega)
        simp only [scanLt, hlim, Bool.false_eq_true, if_false, get_den r h i hvi, hx, hs]
        exact scan_end r h c stopOn n hn fuel (i + 1) (by omega) (fun k hk1 hk2 => hp k (by omega) hk2) (by omega)


theorem takeWhile_unfold (r : Rep) (h : r.wf) (c : Int) (fuel : Nat) :
    takeWhileLtB r c fuel = (match scanLt r c false (den r).len 0 fuel with
      | .ok (some i) => sliceB r 0 (some i)
      | .ok none => sliceB r 0 (den r).len
      | .err m => .err m
      | .panic m => .panic m) := by
  unfold takeWhileLtB
  rcases len_cases r h with ⟨n, h1, h2⟩ | ⟨h1, h2⟩ <;> rw [h1, h2] <;> rfl

theorem skipUntil_unfold (r : Rep) (h : r.wf) (c : Int) (fuel : Nat) :
    skipUntilLtB r c fuel = (match scanLt r c true (den r).len 0 fuel with
      | .ok (some i) => sliceB r i none
      | .ok none => sliceB r ((den r).len.getD 0) none
      | .err m => .err m
      | .panic m => .panic m) := by
  unfold skipUntilLtB
  rcases len_cases r h with ⟨n, h1, h2⟩ | ⟨h1, h2⟩ <;> rw [h1, h2] <;> rfl

/-- forward scan of `nth` over the elements `xs` that remain from position `i` -/
theorem nthFwd_list (r : Rep) (h : r.wf) (c : Int) (n : Nat) (hn : (den r).len = some n) :
    ∀ (xs : List Int) (i left fuel : Nat), i + xs.length = n →
      (∀ k (hk : k < xs.length), (den r).el (i + k) = .ok (.int xs[k])) → xs.length < fuel →
      nthFwd r c (some n) i left fuel = .opt (((xs.filter (fun x => decide (x < c)))[left]?).map Val.int)
  | [], i, left, fuel, hi, _, hf => by
      cases fuel with
      | zero => simp at hf
      | succ f =>
        have : atEnd (some n) i = true := by simp [atEnd]; simp at hi; omega
        simp [nthFwd, this]
  | x :: t, i, left, fuel, hi, hel, hf => by
      cases fuel with
      | zero => simp at hf
      | succ f =>
        simp only [List.length_cons] at hi hf
        have hvi : (den r).valid i := by simp only [Sem.valid, optValid, hn]; omega
        have hlim := atEnd_valid (some n) i (by simp only [optValid]; omega)
        have h0 := hel 0 (by simp)
        simp only [Nat.add_zero, List.getElem_cons_zero] at h0
        have ih := fun l => nthFwd_list r h c n hn t (i + 1) l f (by omega)
          (fun k hk => by
            have := hel (k + 1) (by simp; omega)
            simp only [List.getElem_cons_succ] at this
            rw [show i + 1 + k = i + (k + 1) by omega]; exact this) (by omega)
        simp only [nthFwd, hlim, Bool.false_eq_true, if_false, get_den r h i hvi, h0]
        by_cases hx : x < c
        · simp only [hx, if_true, List.filter, decide_true]
          cases left with
          | zero => simp
          | succ l => simp only [Nat.add_one_ne_zero, if_false, Nat.add_sub_cancel, ih l]; simp
        · simp only [hx, if_false, List.filter, decide_false, ih left]

/-- reversed scan of `nth` over the first `ys.length` elements, listed from the last one down -/
theorem nthBwd_list (r : Rep) (h : r.wf) (c : Int) (n : Nat) (hn : (den r).len = some n) :
    ∀ (ys : List Int) (left : Nat), ys.length ≤ n →
      (∀ j (hj : j < ys.length), (den r).el (ys.length - 1 - j) = .ok (.int ys[j])) →
      nthBwd r c ys.length left = .opt (((ys.filter (fun x => decide (x < c)))[left]?).map Val.int)
  | [], left, _, _ => by simp [nthBwd]
  | y :: t, left, hle, hel => by
      simp only [List.length_cons] at hle
      have hv : (den r).valid t.length := by simp only [Sem.valid, optValid, hn]; omega
      have h0 := hel 0 (by simp)
      simp only [List.length_cons, Nat.add_sub_cancel, Nat.sub_zero, List.getElem_cons_zero] at h0
      have ih := fun l => nthBwd_list r h c n hn t l (by omega) (fun j hj => by
        have := hel (j + 1) (by simp; omega)
        simp only [List.length_cons, List.getElem_cons_succ] at this
        rw [show t.length - 1 - j = t.length + 1 - 1 - (j + 1) by omega]; exact this)
      simp only [List.length_cons, nthBwd, get_den r h _ hv, h0]
      by_cases hx : y < c
      · simp only [hx, if_true, List.filter, decide_true]
        cases left with
        | zero => simp
        | succ l => simp only [Nat.add_one_ne_zero, if_false, Nat.add_sub_cancel, ih l]; simp
      · simp only [hx, if_false, List.filter, decide_false, ih left]

theorem nth_unfold_fin (r : Rep) (h : r.wf) (n : Nat) (hn : (den r).len = some n) (k c : Int) (fuel : Nat) :
    nthLtB r k c fuel = (if k < 0 then nthBwd r c n (-k - 1).toNat else nthFwd r c (some n) 0 k.toNat fuel) := by
  have hl : r.len = .fin n := by rw [len_den r h, hn]; rfl
  unfold nthLtB; rw [hl]; rfl

theorem nth_inf_negative (r : Rep) (h : r.wf) (hn : (den r).len = none) (k c : Int) (fuel : Nat) (hk : k < 0) :
    nthLtB r k c fuel = .err "negative match index cannot be used with infinite sequence" := by
  have hl : r.len = .inf := by rw [len_den r h, hn]; rfl
  unfold nthLtB; rw [hl]; simp [hk]

/-- `to_stack` pushes the elements of the denoted list in order (the last element ends on top) -/
theorem toStack_spec (r : Rep) (h : r.wf) :
    (∀ n, (den r).len = some n → toStackB r = (match tupAll (elemsFrom (den r) 0 n) with
      | .ok vs => .stack vs
      | .err m => .err m
      | .panic m => .panic m)) ∧
    ((den r).len = none → toStackB r = infErr) := by
  refine ⟨fun n hn => ?_, fun hn => ?_⟩
  · have hl : r.len = .fin n := by rw [len_den r h, hn]; rfl
    simp only [toStackB, hl, collect_den r h n hn]
    cases tupAll (elemsFrom (den r) 0 n) <;> rfl
  · have hl : r.len = .inf := by rw [len_den r h, hn]; rfl
    simp only [toStackB, hl]

/-- the list-level result of `swap` for distinct normalised positions `lo < hi` -/
def swapResult (d : Sem) (n lo hi : Nat) : V :=
  match tupAll (elemsFrom d 0 lo) with
  | .err m => .err m
  | .panic m => .panic m
  | .ok pre =>
  match d.el hi with
  | .err m => .err m
  | .panic m => .panic m
  | .ok vhi =>
  match tupAll (elemsFrom d (lo + 1) (hi - (lo + 1))) with
  | .err m => .err m
  | .panic m => .panic m
  | .ok mid =>
  match d.el lo with
  | .err m => .err m
  | .panic m => .panic m
  | .ok vlo =>
  match tupAll (elemsFrom d (hi + 1) (n - (hi + 1))) with
  | .err m => .err m
  | .panic m => .panic m
  | .ok post => .seq (Rep.mkArray (pre ++ [vhi] ++ mid ++ [vlo] ++ post))

/-- `swap`: both indices are normalised first (an out-of-range one is an error value, the first one wins), equal
positions return the sequence itself, and otherwise the smaller and larger *normalised* positions delimit the
three copied runs with the two elements exchanged -/
theorem swap_spec (r : Rep) (h : r.wf) (n : Nat) (hn : (den r).len = some n) (i j : Int) :
    swapB r i j = (match valueToIdx (.fin n) i with
      | .err m => .err m
      | .panic m => .panic m
      | .ok i1 => match valueToIdx (.fin n) j with
        | .err m => .err m
        | .panic m => .panic m
        | .ok i2 => if i1 = i2 then .seq r else swapResult (den r) n (min i1 i2) (max i1 i2)) := by
  have hl : r.len = .fin n := by rw [len_den r h, hn]; rfl
  simp only [swapB, hl]
  cases hi : valueToIdx (.fin n) i with
  | err m => rfl
  | panic m => rfl
  | ok i1 =>
    cases hj : valueToIdx (.fin n) j with
    | err m => rfl
    | panic m => rfl
    | ok i2 =>
      have h1 : i1 < n := valueToIdx_valid (some n) i i1 hi
      have h2 : i2 < n := valueToIdx_valid (some n) j i2 hj
      simp only []
      by_cases e : i1 = i2
      · simp only [e, if_true]
      · simp only [e, if_false]
        have hv : ∀ a c, a + c ≤ n → ∀ k, k < c → (den r).valid (a + k) := by
          intro a c hac k hk; simp only [Sem.valid, optValid, hn]; omega
        have hlo : min i1 i2 < n := by omega
        have hhi : max i1 i2 < n := by omega
        have hlt : min i1 i2 < max i1 i2 := by omega
        rw [collectFrom_den r h (min i1 i2) 0 (hv 0 _ (by omega)),
          collectFrom_den r h (max i1 i2 - (min i1 i2 + 1)) (min i1 i2 + 1) (hv _ _ (by omega)),
          collectFrom_den r h (n - (max i1 i2 + 1)) (max i1 i2 + 1) (hv _ _ (by omega)),
          get_den r h (max i1 i2) (by simp only [Sem.valid, optValid, hn]; exact hhi),
          get_den r h (min i1 i2) (by simp only [Sem.valid, optValid, hn]; exact hlo)]
        unfold swapResult liftList
        cases tupAll (elemsFrom (den r) 0 (min i1 i2)) <;> try rfl
        cases (den r).el (max i1 i2) <;> try rfl
        cases tupAll (elemsFrom (den r) (min i1 i2 + 1) (max i1 i2 - (min i1 i2 + 1))) <;> try rfl
        cases (den r).el (min i1 i2) <;> try rfl
        cases tupAll (elemsFrom (den r) (max i1 i2 + 1) (n - (max i1 i2 + 1))) <;> rfl

/-- the comparison loop of `eq` over the remaining elements `xs` / `ys` of two sequences of equal length -/
theorem eqScan_list (a b : Rep) (ha : a.wf) (hb : b.wf) (n : Nat) (hna : (den a).len = some n)
    (hnb : (den b).len = some n) :
    ∀ (xs ys : List Val) (i fuel : Nat), xs.length = ys.length → i + xs.length = n →
      (∀ k (hk : k < xs.length), (den a).el (i + k) = .ok xs[k]) →
      (∀ k (hk : k < ys.length), (den b).el (i + k) = .ok ys[k]) → xs.length < fuel →
      eqScan a b (some n) i fuel = .bool (xs == ys)
  | [], [], i, fuel, _, hi, _, _, hf => by
      cases fuel with
      | zero => simp at hf
      | succ f =>
        have : atEnd (some n) i = true := by simp [atEnd]; simp at hi; omega
        simp [eqScan, this]
  | [], _ :: _, _, _, hl, _, _, _, _ => by simp at hl
  | _ :: _, [], _, _, hl, _, _, _, _ => by simp at hl
  | x :: t, y :: u, i, fuel, hl, hi, hxa, hyb, hf => by
      cases fuel with
      | zero => simp at hf
      | succ f =>
        simp only [List.length_cons] at hl hi hf
        have hva : (den a).valid i := by simp only [Sem.valid, optValid, hna]; omega
        have hvb : (den b).valid i := by simp only [Sem.valid, optValid, hnb]; omega
        have hlim := atEnd_valid (some n) i (by simp only [optValid]; omega)
        have hx0 := hxa 0 (by simp)
        have hy0 := hyb 0 (by simp)
        simp only [Nat.add_zero, List.getElem_cons_zero] at hx0 hy0
        have ih := eqScan_list a b ha hb n hna hnb t u (i + 1) f (by omega) (by omega)
          (fun k hk => by
            have := hxa (k + 1) (by simp; omega)
            simp only [List.getElem_cons_succ] at this
            rw [show i + 1 + k = i + (k + 1) by omega]; exact this)
          (fun k hk => by
            have := hyb (k + 1) (by simp; omega)
            simp only [List.getElem_cons_succ] at this
            rw [show i + 1 + k = i + (k + 1) by omega]; exact this) (by omega)
        simp only [eqScan, hlim, Bool.false_eq_true, if_false, get_den a ha i hva, get_den b hb i hvb, hx0, hy0]
        have hc : (x :: t == y :: u) = (x == y && t == u) := rfl
        rw [hc]
        by_cases e : (x == y) = true
        · simp only [e, if_true, ih, Bool.true_and]
        · simp only [e, if_false]
          have : (x == y) = false := by simpa using e
          simp [this]

/-- sequences of different lengths (finite/finite, or finite/infinite) are unequal without comparing elements -/
theorem eq_len_differ (a b : Rep) (ha : a.wf) (hb : b.wf) (fuel : Nat) (hd : (den a).len ≠ (den b).len) :
    eqB a b fuel = .bool false := by
  unfold eqB
  rw [len_den a ha, len_den b hb]
  cases h1 : (den a).len <;> cases h2 : (den b).len <;> simp_all [toLen, Len.same]

/-- `eq` of two finite sequences of the same length whose elements evaluate to `xs` and `ys`: list equality -/
theorem eq_list (a b : Rep) (ha : a.wf) (hb : b.wf) (xs ys : List Val) (hl : xs.length = ys.length)
    (hna : (den a).len = some xs.length) (hnb : (den b).len = some ys.length)
    (hxa : ∀ k (hk : k < xs.length), (den a).el k = .ok xs[k])
    (hyb : ∀ k (hk : k < ys.length), (den b).el k = .ok ys[k]) (fuel : Nat) (hf : xs.length < fuel) :
    eqB a b fuel = .bool (xs == ys) := by
  have h1 : a.len = .fin xs.length := by rw [len_den a ha, hna]; rfl
  have h2 : b.len = .fin xs.length := by rw [len_den b hb, hnb, hl]; rfl
  unfold eqB
  rw [h1, h2]
  simp only [Len.same, beq_self_eq_true, if_true, lenOpt]
  exact eqScan_list a b ha hb xs.length hna (by rw [hnb, hl]) xs ys 0 fuel hl (by omega)
    (fun k hk => by simpa using hxa k hk) (fun k hk => by simpa using hyb k hk) hf


/-! ## concatenation trees -/
theorem append_congr_left {x x' : Sem} (y : Sem) (h : SemEq x x') : SemEq (x.append y) (x'.append y) := by
  cases hx : x.len with
  | none =>
    have hx' : x'.len = none := by rw [← h.1, hx]
    refine ⟨by rw [append_len_none hx, append_len_none hx'], fun i hi _ => ?_⟩
    rw [append_el_none hx, append_el_none hx']
    exact h.2 i hi (by simp [Sem.valid, optValid, hx])
  | some n =>
    have hx' : x'.len = some n := by rw [← h.1, hx]
    refine ⟨by rw [append_len_some hx, append_len_some hx'], fun i hi _ => ?_⟩
    by_cases hlt : i < n
    · rw [append_el_lt hx i hlt, append_el_lt hx' i hlt]
      exact h.2 i hi (by simp [Sem.valid, optValid, hx, hlt])
    · rw [append_el_ge hx i (by omega), append_el_ge hx' i (by omega)]

theorem append_empty_right (x y : Sem) (hy : y.len = some 0) : SemEq (x.append y) x := by
  cases hx : x.len with
  | none => exact ⟨by rw [append_len_none hx, hx], fun i _ _ => append_el_none hx i⟩
  | some n =>
    refine ⟨by rw [append_len_some hx, hy, hx]; rfl, fun i _ hv => ?_⟩
    have : i < n := by simpa [Sem.valid, optValid, append_len_some hx, hy] using hv
    exact append_el_lt hx i this

theorem append_empty_left (x y : Sem) (hx : x.len = some 0) : SemEq (x.append y) y := by
  refine ⟨by rw [append_len_some hx]; cases y.len <;> simp [Option.map], fun i _ _ => ?_⟩
  rw [append_el_ge hx i (by omega)]; rfl

theorem mkChain_den (a b : Rep) (ha : a.wf) (hb : b.wf) (r : Rep) (h : a.mkChain b = .new r) :
    SemEq (den r) ((den a).append (den b)) := by
  rcases mkChain_new a b r h with ⟨rfl, ea, eb⟩ | ⟨n, rfl⟩
  · have h1 := isEmpty_den a ha ea
    have h2 := isEmpty_den b hb eb
    refine ⟨?_, fun i _ hv => ?_⟩
    · rw [append_len_some h1, h2]; rfl
    · simp [den, Sem.valid, optValid, Sem.nil] at hv
  · exact chainOf_den a b n

/-- a concatenation tree: `+` applied in any parenthesisation -/
inductive CTree where
  | leaf (r : Rep)
  | node (l r : CTree)

def CTree.leaves : CTree → List Rep
  | .leaf r => [r]
  | .node l r => l.leaves ++ r.leaves

/-- evaluate every `+` of the tree with `XSequence::chain`; `none` if some `+` is an error value or a panic -/
def CTree.eval : CTree → Option Rep
  | .leaf r => some r
  | .node l r =>
    match l.eval, r.eval with
    | some a, some b =>
      (match a.mkChain b with
       | .new c => some c
       | .left => some a
       | .right => some b
       | .err _ => none
       | .panic _ => none)
    | _, _ => none

theorem ctree_den : ∀ (t : CTree), (∀ r ∈ t.leaves, r.wf) → ∀ r, t.eval = some r →
    r.wf ∧ SemEq (den r) (Sem.concat (denList t.leaves))
  | .leaf r, hw, r', h => by
      simp only [CTree.eval, Option.some.injEq] at h
      subst h
      refine ⟨hw r (by simp [CTree.leaves]), ?_⟩
      simp only [CTree.leaves, denList, Sem.concat]
      exact (append_nil _).symm
  | .node l r, hw, c, h => by
      simp only [CTree.eval] at h
      cases hl : l.eval with
      | none => rw [hl] at h; simp at h
      | some a =>
        cases hr : r.eval with
        | none => rw [hl, hr] at h; simp at h
        | some b =>
          rw [hl, hr] at h
          simp only [] at h
          obtain ⟨ha, hda⟩ := ctree_den l (fun x hx => hw x (by simp [CTree.leaves, hx])) a hl
          obtain ⟨hb, hdb⟩ := ctree_den r (fun x hx => hw x (by simp [CTree.leaves, hx])) b hr
          have hcat : SemEq ((den a).append (den b)) (Sem.concat (denList (CTree.node l r).leaves)) := by
            simp only [CTree.leaves, denList_append]
            exact ((append_congr_left _ hda).trans (append_congr_right _ hdb)).trans (concat_append _ _).symm
          have hwf := mkChain_wf a b ha hb
          cases hm : a.mkChain b with
          | new c' =>
            rw [hm] at h hwf; simp only [Option.some.injEq] at h; subst h
            exact ⟨hwf, (mkChain_den a b ha hb c' hm).trans hcat⟩
          | left =>
            rw [hm] at h hwf; simp only [Option.some.injEq] at h; subst h
            exact ⟨ha, (append_empty_right _ _ hwf).symm.trans hcat⟩
          | right =>
            rw [hm] at h hwf; simp only [Option.some.injEq] at h; subst h
            exact ⟨hb, (append_empty_left _ _ hwf).symm.trans hcat⟩
          | err m => rw [hm] at h; simp at h
          | panic m => rw [hm] at h; simp at h

end XrayModel.Seq
