/-
Port of XrayProofs/CoreErrors.lean to the extended evaluator. Helpers for C06 (errors propagate as values; violations cannot be caught) over the core
evaluator `XrayModel/CoreX.lean`: the prefix law of `evalList`/`evalDecls`, evaluation contexts.
-/
import XrayProofs.CoreXMono
namespace XrayModel.CoreX

/-- `SeqVals cfg fr n es st vs st'`: the expressions `es`, evaluated left to right from state `st`
at the fuel levels `evalList n` uses (the head at `n-1`, the next at `n-2`, …), all yield
non-error values `vs`; `st'` is the state reached after the last one. -/
inductive SeqVals (cfg : Cfg) (fr : Frame) : Nat → List Expr → St → List Val → St → Prop
  | nil (n : Nat) (st : St) : SeqVals cfg fr n [] st [] st
  | cons {n : Nat} {e : Expr} {rest : List Expr} {st st1 st' : St} {v : Val} {vs : List Val} :
      eval n cfg fr e false st = (.val v, st1) → v.isErr = false →
      SeqVals cfg fr n rest st1 vs st' → SeqVals cfg fr (n + 1) (e :: rest) st (v :: vs) st'

/-- put already computed values in front of the outcome of the rest of a list -/
def prependVals (vs : List Val) (r : Except Res (List Val) × St) : Except Res (List Val) × St :=
  match r with
  | (.ok ws, s) => (.ok (vs ++ ws), s)
  | (.error x, s) => (.error x, s)

@[simp] theorem prependVals_ok (vs ws : List Val) (s : St) : prependVals vs (.ok ws, s) = (.ok (vs ++ ws), s) := rfl
@[simp] theorem prependVals_error (vs : List Val) (x : Res) (s : St) : prependVals vs (.error x, s) = (.error x, s) := rfl
@[simp] theorem prependVals_nil (r : Except Res (List Val) × St) : prependVals [] r = r := by
  rcases r with ⟨_ | _, _⟩ <;> simp [prependVals]

theorem evalList_cons_val {n : Nat} {cfg : Cfg} {fr : Frame} {e : Expr} {rest : List Expr} {st st1 : St} {v : Val}
    (h : eval n cfg fr e false st = (.val v, st1)) (hv : v.isErr = false) :
    evalList (n + 1) cfg fr (e :: rest) st = prependVals [v] (evalList n cfg fr rest st1) := by
  cases v <;> simp_all [evalList, Val.isErr] <;>
    (rcases evalList n cfg fr rest st1 with ⟨_ | _, _⟩ <;> simp)

theorem SeqVals.fuel {cfg fr n es st vs st'} (h : SeqVals cfg fr n es st vs st') : es.length ≤ n := by
  induction h with
  | nil => simp
  | cons _ _ _ ih => simp; omega

theorem evalList_append {cfg : Cfg} {fr : Frame} {k : Nat} {pre : List Expr} {st st1 : St} {vs : List Val}
    (rest : List Expr)
    (h : SeqVals cfg fr (k + pre.length) pre st vs st1) :
    evalList (k + pre.length) cfg fr (pre ++ rest) st = prependVals vs (evalList k cfg fr rest st1) := by
  generalize hn : k + pre.length = n at h
  induction h generalizing k with
  | nil n st =>
    simp at hn; subst hn
    simp
  | @cons n e rest' st st1 st' v vs he hv hs ih =>
    simp only [List.length_cons] at hn
    have hn' : k + rest'.length = n := by omega
    have := ih hn'
    simp only [List.cons_append]
    rw [evalList_cons_val he hv, this]
    rcases evalList k cfg fr rest st' with ⟨_ | _, _⟩ <;> simp

theorem Frame.get_none {fr : Frame} {f : String} (h : fr.get f = none) :
    lookup f fr.env = none ∧ ∀ n c, fr.self = some (n, c) → n ≠ f := by
  unfold Frame.get at h
  split at h
  · cases h
  · rename_i hl
    refine ⟨hl, ?_⟩
    intro n c hs
    simp only [hs] at h
    split at h
    · cases h
    · assumption

/-- a name that is not bound in the frame is a native -/
theorem eval_call_unbound {fr : Frame} {f : String} (h : fr.get f = none) (n : Nat) (cfg : Cfg)
    (args : List Expr) (tail : Bool) (st : St) :
    eval (n + 2) cfg fr (.call f args) tail st = builtin n cfg fr f args tail st := by
  obtain ⟨hl, hs⟩ := Frame.get_none h
  simp only [eval]
  split
  · rename_i sn sc hself
    have : f ≠ sn := fun hh => hs sn sc hself hh.symm
    simp [this, callNamed, h]
  · simp [callNamed, h]

/-- a name bound in the environment of the frame (a parameter, a `let`, a declared function) -/
theorem eval_call_bound {fr : Frame} {f : String} {c : Val} (h : lookup f fr.env = some c) (n : Nat) (cfg : Cfg)
    (args : List Expr) (tail : Bool) (st : St) :
    eval (n + 2) cfg fr (.call f args) tail st = callVal n cfg fr c args tail st := by
  have hg : fr.get f = some c := by simp [Frame.get, h]
  simp only [eval]
  split
  · simp [h, callNamed, hg]
  · simp [callNamed, hg]


/-- `SeqValsAny cfg fr es st vs st'`: the expressions `es` evaluate left to right from `st`, each
with *some* amount of fuel, to the non-error values `vs`, reaching `st'` -/
inductive SeqValsAny (cfg : Cfg) (fr : Frame) : List Expr → St → List Val → St → Prop
  | nil (st : St) : SeqValsAny cfg fr [] st [] st
  | cons {n : Nat} {e : Expr} {rest : List Expr} {st st1 st' : St} {v : Val} {vs : List Val} :
      eval n cfg fr e false st = (.val v, st1) → v.isErr = false →
      SeqValsAny cfg fr rest st1 vs st' → SeqValsAny cfg fr (e :: rest) st (v :: vs) st'

theorem SeqValsAny.enough {cfg : Cfg} {fr : Frame} {es : List Expr} {st st' : St} {vs : List Val}
    (h : SeqValsAny cfg fr es st vs st') : ∃ N, ∀ n, N ≤ n → SeqVals cfg fr n es st vs st' := by
  induction h with
  | nil st => exact ⟨0, fun n _ => .nil n st⟩
  | @cons n0 e rest st st1 st' v vs he hv _ ih =>
    obtain ⟨N', hN'⟩ := ih
    refine ⟨max (n0 + 1) (N' + 1), fun n hn => ?_⟩
    obtain ⟨n', rfl⟩ : ∃ n', n = n' + 1 := ⟨n - 1, by omega⟩
    exact .cons (eval_mono (by omega) he (by simp)) hv (hN' n' (by omega))

/-! ## Dynamic sub-evaluations

A *configuration* is one invocation of one of the ten mutually recursive functions of the evaluator
(the limits `cfg` are fixed for a whole run).  `Sub cfg c' c` lists every direct sub-evaluation:
`c'` is an invocation that `c` really performs — each constructor is one call site of the model,
with the path condition under which that call site is reached.  `Within` is its reflexive-transitive
closure: `c'` happens somewhere inside the dynamic extent of `c`. -/

inductive Conf where
  | eval (fuel : Nat) (fr : Frame) (e : Expr) (tail : Bool) (st : St)
  | callNamed (fuel : Nat) (fr : Frame) (f : String) (args : List Expr) (tail : Bool) (st : St)
  | callVal (fuel : Nat) (fr : Frame) (c : Val) (args : List Expr) (tail : Bool) (st : St)
  | evalList (fuel : Nat) (fr : Frame) (es : List Expr) (st : St)
  | mkClos (fuel : Nat) (fr : Frame) (f : Func) (st : St)
  | evalDflts (fuel : Nat) (fr : Frame) (ps : List Param) (st : St)
  | callUser (fuel : Nat) (height : Nat) (c : Val) (args : List Val) (st : St)
  | tramp (fuel : Nat) (height : Nat) (c : Val) (args : List Val) (rec : Nat) (st : St)
  | evalDecls (fuel : Nat) (fr : Frame) (ds : List Decl) (st : St)
  | builtin (fuel : Nat) (fr : Frame) (f : String) (args : List Expr) (tail : Bool) (st : St)

/-- the invocation `c` ends in the violation `k`, leaving state `s` -/
def Conf.viol (cfg : Cfg) (c : Conf) (k : Viol) (s : St) : Prop :=
  match c with
  | .eval fuel fr e tail st => CoreX.eval fuel cfg fr e tail st = (.viol k, s)
  | .callNamed fuel fr f args tail st => CoreX.callNamed fuel cfg fr f args tail st = (.viol k, s)
  | .callVal fuel fr c args tail st => CoreX.callVal fuel cfg fr c args tail st = (.viol k, s)
  | .evalList fuel fr es st => CoreX.evalList fuel cfg fr es st = (.error (.viol k), s)
  | .mkClos fuel fr f st => CoreX.mkClos fuel cfg fr f st = (.viol k, s)
  | .evalDflts fuel fr ps st => CoreX.evalDflts fuel cfg fr ps st = (.error (.viol k), s)
  | .callUser fuel h c args st => CoreX.callUser fuel cfg h c args st = (.viol k, s)
  | .tramp fuel h c args rec st => CoreX.tramp fuel cfg h c args rec st = (.viol k, s)
  | .evalDecls fuel fr ds st => CoreX.evalDecls fuel cfg fr ds st = (.error (.viol k), s)
  | .builtin fuel fr f args tail st => CoreX.builtin fuel cfg fr f args tail st = (.viol k, s)

/-- the frame a user function's body runs in (as built by `tramp`) -/
def bodyFrame (height : Nat) (f : Func) (dflts : List Val) (env ps : List (String × Val)) : Frame :=
  { env := ps.reverse ++ env,
    self := match f.name with
      | some n => some (n, .clos f dflts env)
      | none => none,
    height := height + 1 }

def depthTrips (cfg : Cfg) (height : Nat) : Bool :=
  match cfg.depthLimit with | some l => decide (height + 1 ≥ l) | none => false
def recTrips (cfg : Cfg) (rec : Nat) : Bool :=
  match cfg.recLimit with | some l => decide (rec + 1 > l) | none => false

/-- `Sub cfg c' c`: the invocation `c` performs the invocation `c'` (one call site each) -/
inductive Sub (cfg : Cfg) : Conf → Conf → Prop
  -- eval
  | tupItems (n fr es tail st) : Sub cfg (.evalList n fr es st) (.eval (n + 1) fr (.tup es) tail st)
  | arrItems (n fr es tail st) : Sub cfg (.evalList n fr es st) (.eval (n + 1) fr (.arr es) tail st)
  | itemOf (n fr e i tail st) : Sub cfg (.eval n fr e false st) (.eval (n + 1) fr (.item e i) tail st)
  | variantPayload (n fr tag e tail st) : Sub cfg (.eval n fr e false st) (.eval (n + 1) fr (.variant tag e) tail st)
  | memberValueOf (n fr e tag tail st) : Sub cfg (.eval n fr e false st) (.eval (n + 1) fr (.memberValue e tag) tail st)
  | memberOptOf (n fr e tag tail st) : Sub cfg (.eval n fr e false st) (.eval (n + 1) fr (.memberOpt e tag) tail st)
  | lamClos (n fr f tail st) : Sub cfg (.mkClos n fr f st) (.eval (n + 1) fr (.lam f) tail st)
  | tailArgs (n) (fr : Frame) (f args st sc) : fr.self = some (f, sc) → lookup f fr.env = none → cfg.tco = true →
      Sub cfg (.evalList n fr args st) (.eval (n + 1) fr (.call f args) true st)
  | selfCall (n) (fr : Frame) (f args tail st sc) : fr.self = some (f, sc) → lookup f fr.env = none →
      (tail && cfg.tco) = false →
      Sub cfg (.callVal n fr sc args tail st) (.eval (n + 1) fr (.call f args) tail st)
  | namedCall (n) (fr : Frame) (f args tail st) :
      (∀ sn sc, fr.self = some (sn, sc) → (f = sn && (lookup f fr.env).isNone) = false) →
      Sub cfg (.callNamed n fr f args tail st) (.eval (n + 1) fr (.call f args) tail st)
  | callee (n fr fe args tail st) : Sub cfg (.eval n fr fe false st) (.eval (n + 1) fr (.callE fe args) tail st)
  | calleeCall (n fr fe args tail st c st') : CoreX.eval n cfg fr fe false st = (.val c, st') → c.isErr = false →
      Sub cfg (.callVal n fr c args tail st') (.eval (n + 1) fr (.callE fe args) tail st)
  -- callNamed
  | boundCall (n) (fr : Frame) (f args tail st c) : fr.get f = some c →
      Sub cfg (.callVal n fr c args tail st) (.callNamed (n + 1) fr f args tail st)
  | nativeCall (n) (fr : Frame) (f args tail st) : fr.get f = none →
      Sub cfg (.builtin n fr f args tail st) (.callNamed (n + 1) fr f args tail st)
  -- callVal
  | callArgs (n fr f d env args tail st) :
      Sub cfg (.evalList n fr args st) (.callVal (n + 1) fr (.clos f d env) args tail st)
  | callBody (n) (fr : Frame) (f d env args tail st vs st') : CoreX.evalList n cfg fr args st = (.ok vs, st') →
      Sub cfg (.callUser n fr.height (.clos f d env) vs st') (.callVal (n + 1) fr (.clos f d env) args tail st)
  -- evalList
  | listHead (n fr e rest st) : Sub cfg (.eval n fr e false st) (.evalList (n + 1) fr (e :: rest) st)
  | listRest (n fr e rest st v st') : CoreX.eval n cfg fr e false st = (.val v, st') → v.isErr = false →
      Sub cfg (.evalList n fr rest st') (.evalList (n + 1) fr (e :: rest) st)
  -- mkClos
  | closDflts (n fr) (f : Func) (st) : Sub cfg (.evalDflts n fr f.params st) (.mkClos (n + 1) fr f st)
  -- evalDflts
  | dfltSkip (n fr) (p : Param) (rest st) : p.dflt = none →
      Sub cfg (.evalDflts n fr rest st) (.evalDflts (n + 1) fr (p :: rest) st)
  | dfltHead (n fr) (p : Param) (rest st d) : p.dflt = some d →
      Sub cfg (.eval n fr d false st) (.evalDflts (n + 1) fr (p :: rest) st)
  | dfltRest (n fr) (p : Param) (rest st d v st') : p.dflt = some d → CoreX.eval n cfg fr d false st = (.val v, st') →
      Sub cfg (.evalDflts n fr rest st') (.evalDflts (n + 1) fr (p :: rest) st)
  -- callUser
  | userTramp (n h c args) (st : St) : firstErr args = none → cfg.callLimit = none →
      Sub cfg (.tramp n h c args 0 st) (.callUser (n + 1) h c args st)
  | userTrampCounted (n h c args) (st : St) (l) : firstErr args = none → cfg.callLimit = some l → ¬ (st.calls + 1 ≥ l) →
      Sub cfg (.tramp n h c args 0 { st with calls := st.calls + 1 }) (.callUser (n + 1) h c args st)
  -- tramp
  | bodyDecls (n h) (f : Func) (d env args rec st ps) : depthTrips cfg h = false → bindParams f.params args d = some ps →
      Sub cfg (.evalDecls n (bodyFrame h f d env ps) f.decls st) (.tramp (n + 1) h (.clos f d env) args rec st)
  | bodyExpr (n h) (f : Func) (d env args rec st ps fr' st') : depthTrips cfg h = false → bindParams f.params args d = some ps →
      CoreX.evalDecls n cfg (bodyFrame h f d env ps) f.decls st = (.ok fr', st') →
      Sub cfg (.eval n fr' f.body true st') (.tramp (n + 1) h (.clos f d env) args rec st)
  | trampLoop (n h) (f : Func) (d env args rec st ps fr' st' newArgs st'') : depthTrips cfg h = false →
      bindParams f.params args d = some ps →
      CoreX.evalDecls n cfg (bodyFrame h f d env ps) f.decls st = (.ok fr', st') →
      CoreX.eval n cfg fr' f.body true st' = (.tail newArgs, st'') → recTrips cfg rec = false →
      Sub cfg (.tramp n h (.clos f d env) newArgs (rec + 1) st'') (.tramp (n + 1) h (.clos f d env) args rec st)
  -- evalDecls
  | letRhs (n fr x e rest st) : Sub cfg (.eval n fr e false st) (.evalDecls (n + 1) fr (.letD x e :: rest) st)
  | letRest (n) (fr : Frame) (x e rest st v st') : CoreX.eval n cfg fr e false st = (.val v, st') →
      Sub cfg (.evalDecls n { fr with env := (x, v) :: fr.env } rest st') (.evalDecls (n + 1) fr (.letD x e :: rest) st)
  | fnClos (n fr f rest st) : Sub cfg (.mkClos n fr f st) (.evalDecls (n + 1) fr (.fnD f :: rest) st)
  | fnRest (n) (fr : Frame) (f : Func) (rest st c st' nm) : CoreX.mkClos n cfg fr f st = (.val c, st') → f.name = some nm →
      Sub cfg (.evalDecls n { fr with env := (nm, c) :: fr.env } rest st') (.evalDecls (n + 1) fr (.fnD f :: rest) st)
  -- builtin
  | ifCond (n fr c a b tail st) : Sub cfg (.eval n fr c false st) (.builtin (n + 1) fr "if" [c, a, b] tail st)
  | ifBranch (n fr c a b tail st t st') : CoreX.eval n cfg fr c false st = (.val (.bool t), st') →
      Sub cfg (.eval n fr (if t then a else b) tail st') (.builtin (n + 1) fr "if" [c, a, b] tail st)
  | andFirst (n fr a b tail st) : Sub cfg (.eval n fr a false st) (.builtin (n + 1) fr "and" [a, b] tail st)
  | andSecond (n fr a b tail st st') : CoreX.eval n cfg fr a false st = (.val (.bool true), st') →
      Sub cfg (.eval n fr b tail st') (.builtin (n + 1) fr "and" [a, b] tail st)
  | andOptSecond (n fr a b tail st v st') : CoreX.eval n cfg fr a false st = (.val (.some v), st') →
      Sub cfg (.eval n fr b tail st') (.builtin (n + 1) fr "and" [a, b] tail st)
  | orFirst (n fr a b tail st) : Sub cfg (.eval n fr a false st) (.builtin (n + 1) fr "or" [a, b] tail st)
  | orSecond (n fr a b tail st st') : CoreX.eval n cfg fr a false st = (.val (.bool false), st') →
      Sub cfg (.eval n fr b tail st') (.builtin (n + 1) fr "or" [a, b] tail st)
  | orOptSecond (n fr a b tail st st') : CoreX.eval n cfg fr a false st = (.val .none, st') →
      Sub cfg (.eval n fr b tail st') (.builtin (n + 1) fr "or" [a, b] tail st)
  | mapOrFirst (n fr o g d tail st) : Sub cfg (.eval n fr o false st) (.builtin (n + 1) fr "map_or" [o, g, d] tail st)
  | mapOrDefault (n fr o g d tail st st') : CoreX.eval n cfg fr o false st = (.val .none, st') →
      Sub cfg (.eval n fr d tail st') (.builtin (n + 1) fr "map_or" [o, g, d] tail st)
  | mapOrFn (n fr o g d tail st v st') : CoreX.eval n cfg fr o false st = (.val (.some v), st') →
      Sub cfg (.eval n fr g false st') (.builtin (n + 1) fr "map_or" [o, g, d] tail st)
  | mapOrCall (n) (fr : Frame) (o g d tail st v st' fn dflts env st'') : CoreX.eval n cfg fr o false st = (.val (.some v), st') →
      CoreX.eval n cfg fr g false st' = (.val (.clos fn dflts env), st'') →
      Sub cfg (.callUser n fr.height (.clos fn dflts env) [v] st'') (.builtin (n + 1) fr "map_or" [o, g, d] tail st)
  | ifErrorFirst (n fr a b tail st) : Sub cfg (.eval n fr a false st) (.builtin (n + 1) fr "if_error" [a, b] tail st)
  | ifErrorSecond (n fr a b tail st m st') : CoreX.eval n cfg fr a false st = (.val (.err m), st') →
      Sub cfg (.eval n fr b tail st') (.builtin (n + 1) fr "if_error" [a, b] tail st)
  | isErrorArg (n fr a tail st) : Sub cfg (.eval n fr a false st) (.builtin (n + 1) fr "is_error" [a] tail st)
  | displayArg (n fr a tail st) : Sub cfg (.eval n fr a false st) (.builtin (n + 1) fr "display" [a] tail st)
  | strictArgs (n fr f args tail st) : isStrictPrim f = true →
      Sub cfg (.evalList n fr args st) (.builtin (n + 1) fr f args tail st)

theorem builtin_strict {f : String} (hf : isStrictPrim f = true) (n : Nat) (cfg : Cfg) (fr : Frame)
    (args : List Expr) (tail : Bool) (st : St) :
    builtin (n + 1) cfg fr f args tail st = strictCall n cfg fr f args st := by
  rcases builtin_shape f args with ⟨_, _, _, rfl, _⟩ | ⟨_, _, rfl, _⟩ | ⟨_, _, rfl, _⟩ | ⟨_, _, rfl, _⟩ |
    ⟨_, rfl, _⟩ | ⟨_, rfl, _⟩ | ⟨_, _, _, rfl, _⟩ | hd
  all_goals first
    | exact hd n cfg fr tail st
    | exact absurd hf (by decide)

theorem tramp_unfold (n : Nat) (cfg : Cfg) (h : Nat) (f : Func) (d : List Val) (env : List (String × Val))
    (args : List Val) (rec : Nat) (st : St) (ps : List (String × Val))
    (hd : depthTrips cfg h = false) (hb : bindParams f.params args d = some ps) :
    tramp (n + 1) cfg h (.clos f d env) args rec st =
      match evalDecls n cfg (bodyFrame h f d env ps) f.decls st with
      | (.error r, st') => (r, st')
      | (.ok fr', st') =>
        match eval n cfg fr' f.body true st' with
        | (.tail newArgs, st'') =>
            if recTrips cfg rec then (.viol .recursion, st'')
            else tramp n cfg h (.clos f d env) newArgs (rec + 1) st''
        | r => r := by
  rw [tramp]
  simp only [hb]
  unfold depthTrips at hd
  unfold recTrips bodyFrame
  cases hdl : cfg.depthLimit with
  | none => simp; rfl
  | some l =>
    simp only [hdl, decide_eq_false_iff_not] at hd
    simp [hd]; rfl

theorem Sub.viol {cfg : Cfg} {c' c : Conf} (hs : Sub cfg c' c) {k : Viol} {s : St}
    (hv : c'.viol cfg k s) : c.viol cfg k s := by
  cases hs <;> simp only [Conf.viol] at hv ⊢
  case namedCall n fr f args tail st hn =>
    rw [CoreX.eval]
    rcases hself : fr.self with _ | ⟨sn, sc⟩
    · simp [hv]
    · simp only [hn sn sc hself]; simpa using hv
  case calleeCall n fr fe args tail st c st' h1 h2 =>
    rw [CoreX.eval, h1]
    cases c <;> simp_all [Val.isErr]
  case listRest n fr e rest st v st' h1 h2 =>
    rw [evalList_cons_val h1 h2, hv]; rfl
  case strictArgs n fr f args tail st hf =>
    rw [builtin_strict hf]; simp [strictCall, hf, hv]
  case bodyDecls n h f d env args rec st ps hd hb =>
    rw [tramp_unfold _ _ _ _ _ _ _ _ _ _ hd hb, hv]
  case bodyExpr n h f d env args rec st ps fr' st' hd hb h1 =>
    rw [tramp_unfold _ _ _ _ _ _ _ _ _ _ hd hb, h1]
    simp only [hv]
  case trampLoop n h f d env args rec st ps fr' st' newArgs st'' hd hb h1 h2 h3 =>
    rw [tramp_unfold _ _ _ _ _ _ _ _ _ _ hd hb, h1]
    simp only [h2, h3]
    simpa using hv
  all_goals
    simp [CoreX.eval, CoreX.callNamed, CoreX.callVal, CoreX.evalList, CoreX.mkClos, CoreX.evalDflts, CoreX.callUser,
        CoreX.evalDecls, CoreX.builtin, *]


/-- `Within cfg c' c`: the invocation `c'` happens in the dynamic extent of the invocation `c` -/
inductive Within (cfg : Cfg) : Conf → Conf → Prop
  | refl (c : Conf) : Within cfg c c
  | step {c'' c' c : Conf} : Within cfg c'' c' → Sub cfg c' c → Within cfg c'' c

theorem Sub.within {cfg : Cfg} {c' c : Conf} (h : Sub cfg c' c) : Within cfg c' c := .step (.refl _) h

theorem Within.trans {cfg : Cfg} {a b c : Conf} (h1 : Within cfg a b) (h2 : Within cfg b c) : Within cfg a c := by
  induction h2 with
  | refl => exact h1
  | step _ hs ih => exact .step ih hs

theorem Within.viol {cfg : Cfg} {c' c : Conf} (h : Within cfg c' c) {k : Viol} {s : St}
    (hv : c'.viol cfg k s) : c.viol cfg k s := by
  induction h with
  | refl => exact hv
  | step _ hs ih => exact hs.viol ih

/-- the item after a prefix of values is evaluated by `evalList` (at the fuel left) -/
theorem within_list_item {cfg : Cfg} {fr : Frame} {k : Nat} {pre : List Expr} {st st1 : St} {vs : List Val}
    (e : Expr) (post : List Expr) (h : SeqVals cfg fr (k + 1 + pre.length) pre st vs st1) :
    Within cfg (.eval k fr e false st1) (.evalList (k + 1 + pre.length) fr (pre ++ e :: post) st) := by
  generalize hn : k + 1 + pre.length = n at h
  induction h generalizing k with
  | nil n st =>
    simp at hn; subst hn
    exact (Sub.listHead k fr e post st).within
  | @cons n e' rest' st st1 st' v vs he hv hs ih =>
    simp only [List.length_cons] at hn
    have hn' : k + 1 + rest'.length = n := by omega
    exact .step (ih hn') (Sub.listRest n fr e' (rest' ++ e :: post) st v st1 he hv)

/-- `SeqDecls cfg n fr ds st fr' st'`: the declarations `ds`, evaluated in order from frame `fr` and
state `st` at the fuel levels `evalDecls n` uses, all succeed, giving frame `fr'` and state `st'` -/
inductive SeqDecls (cfg : Cfg) : Nat → Frame → List Decl → St → Frame → St → Prop
  | nil (n : Nat) (fr : Frame) (st : St) : SeqDecls cfg n fr [] st fr st
  | letD {n : Nat} {fr fr' : Frame} {x : String} {e : Expr} {rest : List Decl} {st st1 st' : St} {v : Val} :
      eval n cfg fr e false st = (.val v, st1) →
      SeqDecls cfg n { fr with env := (x, v) :: fr.env } rest st1 fr' st' →
      SeqDecls cfg (n + 1) fr (.letD x e :: rest) st fr' st'
  | fnD {n : Nat} {fr fr' : Frame} {f : Func} {nm : String} {rest : List Decl} {st st1 st' : St} {c : Val} :
      mkClos n cfg fr f st = (.val c, st1) → f.name = some nm →
      SeqDecls cfg n { fr with env := (nm, c) :: fr.env } rest st1 fr' st' →
      SeqDecls cfg (n + 1) fr (.fnD f :: rest) st fr' st'

/-- the prefix law of `evalDecls` -/
theorem evalDecls_append {cfg : Cfg} {fr fr1 : Frame} {k : Nat} {pre : List Decl} {st st1 : St}
    (rest : List Decl) (h : SeqDecls cfg (k + pre.length) fr pre st fr1 st1) :
    evalDecls (k + pre.length) cfg fr (pre ++ rest) st = evalDecls k cfg fr1 rest st1 := by
  generalize hn : k + pre.length = n at h
  induction h generalizing k with
  | nil n fr st => simp at hn; subst hn; simp
  | @letD n fr fr' x e rest' st st1 st' v he hs ih =>
    simp only [List.length_cons] at hn
    have hn' : k + rest'.length = n := by omega
    simp only [List.cons_append]
    rw [evalDecls, he]
    exact ih hn'
  | @fnD n fr fr' f nm rest' st st1 st' c hc hnm hs ih =>
    simp only [List.length_cons] at hn
    have hn' : k + rest'.length = n := by omega
    simp only [List.cons_append]
    rw [evalDecls, hc]
    simp only [hnm]
    exact ih hn'

/-! ## Where violations come from (the converse direction: `Sub` is complete) -/

/-- the three places where a violation is raised: the call counter of `callUser`, the depth check
and the tail-iteration check of `tramp` -/
inductive Origin (cfg : Cfg) : Conf → Viol → St → Prop
  | calls (n h c args) (st : St) (l : Nat) : firstErr args = none → cfg.callLimit = some l → st.calls + 1 ≥ l →
      Origin cfg (.callUser (n + 1) h c args st) .calls { st with calls := st.calls + 1 }
  | depth (n h f d env args rec st) : depthTrips cfg h = true →
      Origin cfg (.tramp (n + 1) h (.clos f d env) args rec st) .depth st
  | recursion (n h) (f : Func) (d env args rec st ps fr' st' newArgs st'') : depthTrips cfg h = false →
      bindParams f.params args d = some ps →
      CoreX.evalDecls n cfg (bodyFrame h f d env ps) f.decls st = (.ok fr', st') →
      CoreX.eval n cfg fr' f.body true st' = (.tail newArgs, st'') → recTrips cfg rec = true →
      Origin cfg (.tramp (n + 1) h (.clos f d env) args rec st) .recursion st''

abbrev FromSub (cfg : Cfg) (c : Conf) (k : Viol) (s : St) : Prop := ∃ c', Sub cfg c' c ∧ c'.viol cfg k s

theorem origin_eval {cfg n fr e tail st k s} (h : eval (n + 1) cfg fr e tail st = (.viol k, s)) :
    FromSub cfg (.eval (n + 1) fr e tail st) k s := by
  cases e with
  | int _ => simp [eval] at h
  | bool _ => simp [eval] at h
  | str _ => simp [eval] at h
  | var _ => simp only [eval] at h; split at h <;> cases h
  | tup es =>
    rw [eval] at h
    split at h
    · cases h
    · rename_i heq; cases h; exact ⟨_, Sub.tupItems n fr es tail st, heq⟩
  | arr es =>
    rw [eval] at h
    split at h
    · cases h
    · rename_i heq; cases h; exact ⟨_, Sub.arrItems n fr es tail st, heq⟩
  | item e i =>
    rw [eval] at h
    split at h
    · split at h <;> cases h
    · cases h
    · cases h
    · cases h
    · exact ⟨_, Sub.itemOf n fr e i tail st, h⟩
  | variant tag e =>
    rw [eval] at h
    split at h
    · cases h
    · cases h
    · cases h
    · exact ⟨_, Sub.variantPayload n fr tag e tail st, h⟩
  | memberValue e tag =>
    rw [eval] at h
    split at h
    · split at h <;> cases h
    · cases h
    · cases h
    · cases h
    · exact ⟨_, Sub.memberValueOf n fr e tag tail st, h⟩
  | memberOpt e tag =>
    rw [eval] at h
    split at h
    · cases h
    · cases h
    · cases h
    · cases h
    · exact ⟨_, Sub.memberOptOf n fr e tag tail st, h⟩
  | lam f =>
    rw [eval] at h
    exact ⟨_, Sub.lamClos n fr f tail st, h⟩
  | callE fe args =>
    rw [eval] at h
    split at h
    · cases h
    · rename_i c st' hne heq
      refine ⟨_, Sub.calleeCall n fr fe args tail st c st' heq ?_, h⟩
      cases c <;> simp_all [Val.isErr]
    · cases h
    · exact ⟨_, Sub.callee n fr fe args tail st, h⟩
  | call f args =>
    rw [eval] at h
    split at h
    · rename_i sn sc hself
      split at h
      · rename_i hc
        simp only [Bool.and_eq_true, decide_eq_true_eq, Option.isNone_iff_eq_none] at hc
        obtain ⟨rfl, hl⟩ := hc
        split at h
        · rename_i ht
          simp only [Bool.and_eq_true] at ht
          obtain ⟨rfl, htco⟩ := ht
          split at h
          · cases h
          · rename_i heq; cases h
            exact ⟨_, Sub.tailArgs n fr f args st sc hself hl htco, heq⟩
        · rename_i ht
          exact ⟨_, Sub.selfCall n fr f args tail st sc hself hl (by simpa using ht), h⟩
      · rename_i hc
        refine ⟨_, Sub.namedCall n fr f args tail st ?_, h⟩
        intro sn' sc' hs'
        rw [hself] at hs'; cases hs'
        exact (Bool.not_eq_true _).mp hc
    · rename_i hself
      refine ⟨_, Sub.namedCall n fr f args tail st ?_, h⟩
      intro sn' sc' hs'
      rw [hself] at hs'; cases hs'

theorem origin_callNamed {cfg n fr f args tail st k s} (h : callNamed (n + 1) cfg fr f args tail st = (.viol k, s)) :
    FromSub cfg (.callNamed (n + 1) fr f args tail st) k s := by
  rw [callNamed] at h
  split at h
  · rename_i c hg; exact ⟨_, Sub.boundCall n fr f args tail st c hg, h⟩
  · rename_i hg; exact ⟨_, Sub.nativeCall n fr f args tail st hg, h⟩

theorem origin_callVal {cfg n fr c args tail st k s} (h : callVal (n + 1) cfg fr c args tail st = (.viol k, s)) :
    FromSub cfg (.callVal (n + 1) fr c args tail st) k s := by
  cases c with
  | clos f d env =>
    rw [callVal] at h
    split at h
    · rename_i vs st' heq; exact ⟨_, Sub.callBody n fr f d env args tail st vs st' heq, h⟩
    · rename_i heq; cases h; exact ⟨_, Sub.callArgs n fr f d env args tail st, heq⟩
  | _ => simp [callVal] at h

theorem origin_evalList {cfg n fr es st k s} (h : evalList (n + 1) cfg fr es st = (.error (.viol k), s)) :
    FromSub cfg (.evalList (n + 1) fr es st) k s := by
  cases es with
  | nil => simp [evalList] at h
  | cons e rest =>
    rw [evalList] at h
    split at h
    · cases h
    · rename_i v st' hne heq
      have hv : v.isErr = false := by cases v <;> simp_all [Val.isErr]
      split at h
      · cases h
      · exact ⟨_, Sub.listRest n fr e rest st v st' heq hv, h⟩
    · cases h
    · rename_i r st' _ _ _ heq
      cases h
      exact ⟨_, Sub.listHead n fr e rest st, heq⟩

theorem origin_mkClos {cfg n fr f st k s} (h : mkClos (n + 1) cfg fr f st = (.viol k, s)) :
    FromSub cfg (.mkClos (n + 1) fr f st) k s := by
  rw [mkClos] at h
  split at h
  · cases h
  · rename_i heq; cases h; exact ⟨_, Sub.closDflts n fr f st, heq⟩

theorem origin_evalDflts {cfg n fr ps st k s} (h : evalDflts (n + 1) cfg fr ps st = (.error (.viol k), s)) :
    FromSub cfg (.evalDflts (n + 1) fr ps st) k s := by
  cases ps with
  | nil => simp [evalDflts] at h
  | cons p rest =>
    rw [evalDflts] at h
    split at h
    · rename_i hp; exact ⟨_, Sub.dfltSkip n fr p rest st hp, h⟩
    · rename_i d hp
      split at h
      · rename_i v st' heq
        split at h
        · cases h
        · exact ⟨_, Sub.dfltRest n fr p rest st d v st' hp heq, h⟩
      · cases h
      · rename_i r st' _ _ heq
        cases h
        exact ⟨_, Sub.dfltHead n fr p rest st d hp, heq⟩

theorem origin_callUser {cfg n ht c args st k s} (h : callUser (n + 1) cfg ht c args st = (.viol k, s)) :
    Origin cfg (.callUser (n + 1) ht c args st) k s ∨ FromSub cfg (.callUser (n + 1) ht c args st) k s := by
  rw [callUser] at h
  split at h
  · cases h
  · rename_i hf
    split at h
    · rename_i l hl
      simp only [] at h
      split at h
      · rename_i hc; cases h; exact .inl (Origin.calls n ht c args st l hf hl hc)
      · rename_i hc; exact .inr ⟨_, Sub.userTrampCounted n ht c args st l hf hl hc, h⟩
    · rename_i hl; exact .inr ⟨_, Sub.userTramp n ht c args st hf hl, h⟩

theorem origin_evalDecls {cfg n fr ds st k s} (h : evalDecls (n + 1) cfg fr ds st = (.error (.viol k), s)) :
    FromSub cfg (.evalDecls (n + 1) fr ds st) k s := by
  cases ds with
  | nil => simp [evalDecls] at h
  | cons d rest =>
    cases d with
    | letD x e =>
      rw [evalDecls] at h
      split at h
      · rename_i v st' heq; exact ⟨_, Sub.letRest n fr x e rest st v st' heq, h⟩
      · cases h
      · rename_i r st' _ _ heq; cases h; exact ⟨_, Sub.letRhs n fr x e rest st, heq⟩
    | fnD f =>
      rw [evalDecls] at h
      split at h
      · rename_i c st' heq
        split at h
        · rename_i nm hnm; exact ⟨_, Sub.fnRest n fr f rest st c st' nm heq hnm, h⟩
        · cases h
      · cases h
      · rename_i r st' _ _ heq; cases h; exact ⟨_, Sub.fnClos n fr f rest st, heq⟩

theorem tramp_depth (n : Nat) (cfg : Cfg) (h : Nat) (f : Func) (d : List Val) (env : List (String × Val))
    (args : List Val) (rec : Nat) (st : St) (hd : depthTrips cfg h = true) :
    tramp (n + 1) cfg h (.clos f d env) args rec st = (.viol .depth, st) := by
  rw [tramp]
  unfold depthTrips at hd
  cases hdl : cfg.depthLimit <;> simp_all

theorem tramp_arity (n : Nat) (cfg : Cfg) (h : Nat) (f : Func) (d : List Val) (env : List (String × Val))
    (args : List Val) (rec : Nat) (st : St) (hd : depthTrips cfg h = false)
    (hb : bindParams f.params args d = none) :
    tramp (n + 1) cfg h (.clos f d env) args rec st = (.stuck "arity", st) := by
  rw [tramp]
  unfold depthTrips at hd
  cases hdl : cfg.depthLimit <;> simp_all

theorem origin_tramp {cfg n ht c args rec st k s} (h : tramp (n + 1) cfg ht c args rec st = (.viol k, s)) :
    Origin cfg (.tramp (n + 1) ht c args rec st) k s ∨ FromSub cfg (.tramp (n + 1) ht c args rec st) k s := by
  cases c with
  | clos f d env =>
    cases hd : depthTrips cfg ht with
    | true =>
      left
      rw [tramp_depth _ _ _ _ _ _ _ _ _ hd] at h; cases h
      exact Origin.depth n ht f d env args rec st hd
    | false =>
      cases hb : bindParams f.params args d with
      | none =>
        rw [tramp_arity _ _ _ _ _ _ _ _ _ hd hb] at h; cases h
      | some ps =>
        rw [tramp_unfold _ _ _ _ _ _ _ _ _ _ hd hb] at h
        split at h
        · rename_i heq; cases h; exact .inr ⟨_, Sub.bodyDecls n ht f d env args rec st ps hd hb, heq⟩
        · rename_i fr' st' heq
          split at h
          · rename_i newArgs st'' heq2
            cases hr : recTrips cfg rec with
            | true =>
              simp only [hr, if_true] at h; cases h
              exact .inl (Origin.recursion n ht f d env args rec st ps fr' st' newArgs _ hd hb heq heq2 hr)
            | false =>
              simp only [hr, Bool.false_eq_true, if_false] at h
              exact .inr ⟨_, Sub.trampLoop n ht f d env args rec st ps fr' st' newArgs st'' hd hb heq heq2 hr, h⟩
          · exact .inr ⟨_, Sub.bodyExpr n ht f d env args rec st ps fr' st' hd hb heq, h⟩
  | _ => simp [tramp] at h

theorem getIdx_ne_viol (vs : List Val) (i : Int) (k : Viol) : getIdx vs i ≠ .viol k := by
  unfold getIdx
  simp only []
  split
  · split
    · simp
    · split <;> simp
  · split <;> simp

theorem prim_ne_viol (f : String) (vs : List Val) (k : Viol) : prim f vs ≠ .viol k := by
  unfold prim
  split <;> (try split) <;> first | exact getIdx_ne_viol _ _ _ | simp

theorem origin_builtin {cfg n fr f args tail st k s} (h : builtin (n + 1) cfg fr f args tail st = (.viol k, s)) :
    FromSub cfg (.builtin (n + 1) fr f args tail st) k s := by
  rcases builtin_shape f args with ⟨c, a, b, rfl, rfl⟩ | ⟨a, b, rfl, rfl⟩ | ⟨a, b, rfl, rfl⟩ | ⟨a, b, rfl, rfl⟩ |
    ⟨a, rfl, rfl⟩ | ⟨a, rfl, rfl⟩ | ⟨o, g, d, rfl, rfl⟩ | hd
  · rw [builtin] at h
    split at h
    · rename_i t st' heq; exact ⟨_, Sub.ifBranch n fr c a b tail st t st' heq, h⟩
    · cases h
    · cases h
    · cases h
    · exact ⟨_, Sub.ifCond n fr c a b tail st, h⟩
  · rw [builtin] at h
    split at h
    · rename_i st' heq; exact ⟨_, Sub.andSecond n fr a b tail st st' heq, h⟩
    · cases h
    · rename_i v st' heq; exact ⟨_, Sub.andOptSecond n fr a b tail st v st' heq, h⟩
    · cases h
    · cases h
    · cases h
    · cases h
    · exact ⟨_, Sub.andFirst n fr a b tail st, h⟩
  · rw [builtin] at h
    split at h
    · rename_i st' heq; exact ⟨_, Sub.orSecond n fr a b tail st st' heq, h⟩
    · cases h
    · rename_i st' heq; exact ⟨_, Sub.orOptSecond n fr a b tail st st' heq, h⟩
    · cases h
    · cases h
    · cases h
    · cases h
    · exact ⟨_, Sub.orFirst n fr a b tail st, h⟩
  · rw [builtin] at h
    split at h
    · rename_i m st' heq; exact ⟨_, Sub.ifErrorSecond n fr a b tail st m st' heq, h⟩
    · cases h
    · cases h
    · exact ⟨_, Sub.ifErrorFirst n fr a b tail st, h⟩
  · rw [builtin] at h
    split at h
    · cases h
    · cases h
    · exact ⟨_, Sub.isErrorArg n fr a tail st, h⟩
  · rw [builtin] at h
    split at h
    · cases h
    · split at h <;> cases h
    · cases h
    · exact ⟨_, Sub.displayArg n fr a tail st, h⟩
  · rw [builtin] at h
    split at h
    · rename_i st' heq; exact ⟨_, Sub.mapOrDefault n fr o g d tail st st' heq, h⟩
    · rename_i v st' heq
      split at h
      · cases h
      · rename_i fn dflts env st'' heq2
        exact ⟨_, Sub.mapOrCall n fr o g d tail st v st' fn dflts env st'' heq heq2, h⟩
      · cases h
      · cases h
      · exact ⟨_, Sub.mapOrFn n fr o g d tail st v st' heq, h⟩
    · cases h
    · cases h
    · cases h
    · exact ⟨_, Sub.mapOrFirst n fr o g d tail st, h⟩
  · rw [hd] at h
    unfold strictCall at h
    split at h
    · rename_i hf
      split at h
      · rename_i vs st' heq
        simp only [Prod.mk.injEq] at h
        exact absurd h.1 (prim_ne_viol f vs k)
      · rename_i heq; cases h; exact ⟨_, Sub.strictArgs n fr f args tail st hf, heq⟩
    · cases h

def Conf.fuel : Conf → Nat
  | .eval n .. | .callNamed n .. | .callVal n .. | .evalList n .. | .mkClos n .. | .evalDflts n ..
  | .callUser n .. | .tramp n .. | .evalDecls n .. | .builtin n .. => n

theorem Sub.fuel {cfg : Cfg} {c' c : Conf} (h : Sub cfg c' c) : c.fuel = c'.fuel + 1 := by
  cases h <;> rfl

/-- a violation is either raised by the invocation itself (one of the three limit checks) or is the
violation of one of the sub-evaluations listed in `Sub` — so `Sub` misses no call site through which
a violation could travel -/
theorem viol_origin_step {cfg : Cfg} {c : Conf} {k : Viol} {s : St} (h : c.viol cfg k s) :
    Origin cfg c k s ∨ FromSub cfg c k s := by
  cases c with
  | eval n fr e tail st =>
    cases n with
    | zero => simp [Conf.viol, CoreX.eval] at h
    | succ n => exact .inr (origin_eval h)
  | callNamed n fr f args tail st =>
    cases n with
    | zero => simp [Conf.viol, CoreX.callNamed] at h
    | succ n => exact .inr (origin_callNamed h)
  | callVal n fr c args tail st =>
    cases n with
    | zero => simp [Conf.viol, CoreX.callVal] at h
    | succ n => exact .inr (origin_callVal h)
  | evalList n fr es st =>
    cases n with
    | zero => simp [Conf.viol, CoreX.evalList] at h
    | succ n => exact .inr (origin_evalList h)
  | mkClos n fr f st =>
    cases n with
    | zero => simp [Conf.viol, CoreX.mkClos] at h
    | succ n => exact .inr (origin_mkClos h)
  | evalDflts n fr ps st =>
    cases n with
    | zero => simp [Conf.viol, CoreX.evalDflts] at h
    | succ n => exact .inr (origin_evalDflts h)
  | callUser n ht c args st =>
    cases n with
    | zero => simp [Conf.viol, CoreX.callUser] at h
    | succ n => exact origin_callUser h
  | tramp n ht c args rec st =>
    cases n with
    | zero => simp [Conf.viol, CoreX.tramp] at h
    | succ n => exact origin_tramp h
  | evalDecls n fr ds st =>
    cases n with
    | zero => simp [Conf.viol, CoreX.evalDecls] at h
    | succ n => exact .inr (origin_evalDecls h)
  | builtin n fr f args tail st =>
    cases n with
    | zero => simp [Conf.viol, CoreX.builtin] at h
    | succ n => exact .inr (origin_builtin h)

/-- every violation comes from a limit check somewhere in the dynamic extent -/
theorem viol_origin {cfg : Cfg} {c : Conf} {k : Viol} {s : St} (h : c.viol cfg k s) :
    ∃ c', Within cfg c' c ∧ Origin cfg c' k s := by
  generalize hn : c.fuel = n
  induction n generalizing c with
  | zero =>
    rcases viol_origin_step h with ho | ⟨c', hs, _⟩
    · exact ⟨c, .refl _, ho⟩
    · have := hs.fuel; omega
  | succ n ih =>
    rcases viol_origin_step h with ho | ⟨c', hs, hv'⟩
    · exact ⟨c, .refl _, ho⟩
    · have hf := hs.fuel
      obtain ⟨c'', hw, ho⟩ := ih hv' (by omega)
      exact ⟨c'', hw.trans hs.within, ho⟩


/-! ## Syntactic evaluation contexts (same frame) -/

/-- an expression with one hole, in a position of the same frame -/
inductive Ctx where
  | hole
  | tup (pre : List Expr) (C : Ctx) (post : List Expr)
  | arr (pre : List Expr) (C : Ctx) (post : List Expr)
  | item (C : Ctx) (i : Nat)
  | callee (C : Ctx) (args : List Expr)
  | arg (f : String) (pre : List Expr) (C : Ctx) (post : List Expr)
  | argE (fe : Expr) (pre : List Expr) (C : Ctx) (post : List Expr)
  | variant (tag : Nat) (C : Ctx)
  | mval (C : Ctx) (tag : Nat)
  | mopt (C : Ctx) (tag : Nat)

def plug : Ctx → Expr → Expr
  | .hole, e => e
  | .tup pre C post, e => .tup (pre ++ plug C e :: post)
  | .arr pre C post, e => .arr (pre ++ plug C e :: post)
  | .item C i, e => .item (plug C e) i
  | .callee C args, e => .callE (plug C e) args
  | .arg f pre C post, e => .call f (pre ++ plug C e :: post)
  | .argE fe pre C post, e => .callE fe (pre ++ plug C e :: post)
  | .variant tag C, e => .variant tag (plug C e)
  | .mval C tag, e => .memberValue (plug C e) tag
  | .mopt C tag, e => .memberOpt (plug C e) tag

/-- `f(□, post…)` is a native that evaluates its first argument itself: `if/3`, `and/2`, `or/2`,
`if_error/2`, `is_error/1`, `display/1` -/
def SpecialFirst (f : String) (post : List Expr) : Prop :=
  ((f = "if" ∨ f = "map_or") ∧ ∃ a b, post = [a, b]) ∨ ((f = "and" ∨ f = "or" ∨ f = "if_error") ∧ ∃ b, post = [b]) ∨
  ((f = "is_error" ∨ f = "display") ∧ post = [])

theorem SpecialFirst.sub {f : String} {post : List Expr} (h : SpecialFirst f post) (cfg : Cfg) (n : Nat) (fr : Frame)
    (a : Expr) (tail : Bool) (st : St) :
    Sub cfg (.eval n fr a false st) (.builtin (n + 1) fr f (a :: post) tail st) := by
  rcases h with ⟨rfl | rfl, x, y, rfl⟩ | ⟨rfl | rfl | rfl, x, rfl⟩ | ⟨rfl | rfl, rfl⟩
  · exact .ifCond ..
  · exact .mapOrFirst ..
  · exact .andFirst ..
  · exact .orFirst ..
  · exact .ifErrorFirst ..
  · exact .isErrorArg ..
  · exact .displayArg ..

theorem within_call_native {cfg : Cfg} {fr : Frame} {f : String} (h : fr.get f = none) (n : Nat)
    (args : List Expr) (tail : Bool) (st : St) :
    Within cfg (.builtin n fr f args tail st) (.eval (n + 2) fr (.call f args) tail st) := by
  obtain ⟨_, hs⟩ := Frame.get_none h
  refine .step (Sub.nativeCall n fr f args tail st h).within (Sub.namedCall (n + 1) fr f args tail st ?_)
  intro sn sc hself
  have : f ≠ sn := fun hh => hs sn sc hself hh.symm
  simp [this]

theorem within_call_bound {cfg : Cfg} {fr : Frame} {g : String} {c : Val} (h : lookup g fr.env = some c) (n : Nat)
    (args : List Expr) (tail : Bool) (st : St) :
    Within cfg (.callVal n fr c args tail st) (.eval (n + 2) fr (.call g args) tail st) := by
  have hg : fr.get g = some c := by simp [Frame.get, h]
  refine .step (Sub.boundCall n fr g args tail st c hg).within (Sub.namedCall (n + 1) fr g args tail st ?_)
  intro sn sc _
  simp [h]

/-- `Reaches cfg fr C F tail st n tl s`: evaluating `plug C e` with fuel `F`, tail flag `tail`, from
state `st` evaluates the hole's expression `e` with fuel `n`, tail flag `tl`, in state `s` (whatever
`e` is): every item/argument before the hole evaluates to a non-error value, a short-circuit
native selects the hole, … -/
inductive Reaches (cfg : Cfg) (fr : Frame) : Ctx → Nat → Bool → St → Nat → Bool → St → Prop
  | hole (F tl st) : Reaches cfg fr .hole F tl st F tl st
  | tup {k pre post C st vs st1 n tl s} (tail : Bool) : SeqVals cfg fr (k + 1 + pre.length) pre st vs st1 →
      Reaches cfg fr C k false st1 n tl s → Reaches cfg fr (.tup pre C post) (k + 1 + pre.length + 1) tail st n tl s
  | arr {k pre post C st vs st1 n tl s} (tail : Bool) : SeqVals cfg fr (k + 1 + pre.length) pre st vs st1 →
      Reaches cfg fr C k false st1 n tl s → Reaches cfg fr (.arr pre C post) (k + 1 + pre.length + 1) tail st n tl s
  | item {C F st n tl s} (i : Nat) (tail : Bool) : Reaches cfg fr C F false st n tl s →
      Reaches cfg fr (.item C i) (F + 1) tail st n tl s
  | callee {C F st n tl s} (args : List Expr) (tail : Bool) : Reaches cfg fr C F false st n tl s →
      Reaches cfg fr (.callee C args) (F + 1) tail st n tl s
  | strictArg {f k pre post C st vs st1 n tl s} (tail : Bool) : isStrictPrim f = true → fr.get f = none →
      SeqVals cfg fr (k + 1 + pre.length) pre st vs st1 → Reaches cfg fr C k false st1 n tl s →
      Reaches cfg fr (.arg f pre C post) (k + 1 + pre.length + 3) tail st n tl s
  | userArg {g fn d env k pre post C st vs st1 n tl s} (tail : Bool) : lookup g fr.env = some (.clos fn d env) →
      SeqVals cfg fr (k + 1 + pre.length) pre st vs st1 → Reaches cfg fr C k false st1 n tl s →
      Reaches cfg fr (.arg g pre C post) (k + 1 + pre.length + 3) tail st n tl s
  | tailArg {g sc k pre post C st vs st1 n tl s} : fr.self = some (g, sc) → lookup g fr.env = none → cfg.tco = true →
      SeqVals cfg fr (k + 1 + pre.length) pre st vs st1 → Reaches cfg fr C k false st1 n tl s →
      Reaches cfg fr (.arg g pre C post) (k + 1 + pre.length + 1) true st n tl s
  | calleeArg {fe fn d env k pre post C st0 st vs st1 n tl s} (tail : Bool) :
      eval (k + 1 + pre.length + 1) cfg fr fe false st0 = (.val (.clos fn d env), st) →
      SeqVals cfg fr (k + 1 + pre.length) pre st vs st1 → Reaches cfg fr C k false st1 n tl s →
      Reaches cfg fr (.argE fe pre C post) (k + 1 + pre.length + 2) tail st0 n tl s
  | specialFirst {f post C F st n tl s} (tail : Bool) : SpecialFirst f post → fr.get f = none →
      Reaches cfg fr C F false st n tl s → Reaches cfg fr (.arg f [] C post) (F + 3) tail st n tl s
  | ifThen {c b C F tail st st1 n tl s} : fr.get "if" = none → eval F cfg fr c false st = (.val (.bool true), st1) →
      Reaches cfg fr C F tail st1 n tl s → Reaches cfg fr (.arg "if" [c] C [b]) (F + 3) tail st n tl s
  | ifElse {c a C F tail st st1 n tl s} : fr.get "if" = none → eval F cfg fr c false st = (.val (.bool false), st1) →
      Reaches cfg fr C F tail st1 n tl s → Reaches cfg fr (.arg "if" [c, a] C []) (F + 3) tail st n tl s
  | andSecond {c C F tail st st1 n tl s} : fr.get "and" = none → eval F cfg fr c false st = (.val (.bool true), st1) →
      Reaches cfg fr C F tail st1 n tl s → Reaches cfg fr (.arg "and" [c] C []) (F + 3) tail st n tl s
  | orSecond {c C F tail st st1 n tl s} : fr.get "or" = none → eval F cfg fr c false st = (.val (.bool false), st1) →
      Reaches cfg fr C F tail st1 n tl s → Reaches cfg fr (.arg "or" [c] C []) (F + 3) tail st n tl s
  | ifErrorSecond {c m C F tail st st1 n tl s} : fr.get "if_error" = none →
      eval F cfg fr c false st = (.val (.err m), st1) →
      Reaches cfg fr C F tail st1 n tl s → Reaches cfg fr (.arg "if_error" [c] C []) (F + 3) tail st n tl s
  | andOptSecond {c v C F tail st st1 n tl s} : fr.get "and" = none → eval F cfg fr c false st = (.val (.some v), st1) →
      Reaches cfg fr C F tail st1 n tl s → Reaches cfg fr (.arg "and" [c] C []) (F + 3) tail st n tl s
  | orOptSecond {c C F tail st st1 n tl s} : fr.get "or" = none → eval F cfg fr c false st = (.val .none, st1) →
      Reaches cfg fr C F tail st1 n tl s → Reaches cfg fr (.arg "or" [c] C []) (F + 3) tail st n tl s
  | mapOrDefault {c g C F tail st st1 n tl s} : fr.get "map_or" = none → eval F cfg fr c false st = (.val .none, st1) →
      Reaches cfg fr C F tail st1 n tl s → Reaches cfg fr (.arg "map_or" [c, g] C []) (F + 3) tail st n tl s
  | mapOrFn {c v d C F st st1 n tl s} (tail : Bool) : fr.get "map_or" = none →
      eval F cfg fr c false st = (.val (.some v), st1) →
      Reaches cfg fr C F false st1 n tl s → Reaches cfg fr (.arg "map_or" [c] C [d]) (F + 3) tail st n tl s
  | variant {C F st n tl s} (tag : Nat) (tail : Bool) : Reaches cfg fr C F false st n tl s →
      Reaches cfg fr (.variant tag C) (F + 1) tail st n tl s
  | mval {C F st n tl s} (tag : Nat) (tail : Bool) : Reaches cfg fr C F false st n tl s →
      Reaches cfg fr (.mval C tag) (F + 1) tail st n tl s
  | mopt {C F st n tl s} (tag : Nat) (tail : Bool) : Reaches cfg fr C F false st n tl s →
      Reaches cfg fr (.mopt C tag) (F + 1) tail st n tl s

theorem Reaches.within {cfg : Cfg} {fr : Frame} {C : Ctx} {F n : Nat} {tail tl : Bool} {st s : St}
    (h : Reaches cfg fr C F tail st n tl s) (e : Expr) :
    Within cfg (.eval n fr e tl s) (.eval F fr (plug C e) tail st) := by
  induction h with
  | hole => exact .refl _
  | tup tail hpre _ ih =>
    exact .step (ih.trans (within_list_item _ _ hpre)) (Sub.tupItems ..)
  | arr tail hpre _ ih =>
    exact .step (ih.trans (within_list_item _ _ hpre)) (Sub.arrItems ..)
  | item i tail _ ih => exact .step ih (Sub.itemOf ..)
  | callee args tail _ ih => exact .step ih (Sub.callee ..)
  | strictArg tail hf hfree hpre _ ih =>
    exact ((ih.trans (within_list_item _ _ hpre)).step (Sub.strictArgs _ _ _ _ tail _ hf)).trans
      (within_call_native hfree _ _ _ _)
  | userArg tail hg hpre _ ih =>
    exact ((ih.trans (within_list_item _ _ hpre)).step (Sub.callArgs _ _ _ _ _ _ tail _)).trans
      (within_call_bound hg _ _ _ _)
  | tailArg hself hfree htco hpre _ ih =>
    exact (ih.trans (within_list_item _ _ hpre)).step (Sub.tailArgs _ _ _ _ _ _ hself hfree htco)
  | calleeArg tail hfe hpre _ ih =>
    exact ((ih.trans (within_list_item _ _ hpre)).step (Sub.callArgs _ _ _ _ _ _ tail _)).step
      (Sub.calleeCall _ _ _ _ _ _ _ _ hfe rfl)
  | specialFirst tail hsp hfree _ ih =>
    exact (ih.step (hsp.sub cfg _ fr _ tail _)).trans (within_call_native hfree _ _ _ _)
  | ifThen hfree hc _ ih =>
    exact (ih.step (Sub.ifBranch _ _ _ _ _ _ _ true _ hc)).trans (within_call_native hfree _ _ _ _)
  | ifElse hfree hc _ ih =>
    exact (ih.step (Sub.ifBranch _ _ _ _ _ _ _ false _ hc)).trans (within_call_native hfree _ _ _ _)
  | andSecond hfree hc _ ih =>
    exact (ih.step (Sub.andSecond _ _ _ _ _ _ _ hc)).trans (within_call_native hfree _ _ _ _)
  | orSecond hfree hc _ ih =>
    exact (ih.step (Sub.orSecond _ _ _ _ _ _ _ hc)).trans (within_call_native hfree _ _ _ _)
  | ifErrorSecond hfree hc _ ih =>
    exact (ih.step (Sub.ifErrorSecond _ _ _ _ _ _ _ _ hc)).trans (within_call_native hfree _ _ _ _)
  | andOptSecond hfree hc _ ih =>
    exact (ih.step (Sub.andOptSecond _ _ _ _ _ _ _ _ hc)).trans (within_call_native hfree _ _ _ _)
  | orOptSecond hfree hc _ ih =>
    exact (ih.step (Sub.orOptSecond _ _ _ _ _ _ _ hc)).trans (within_call_native hfree _ _ _ _)
  | mapOrDefault hfree hc _ ih =>
    exact (ih.step (Sub.mapOrDefault _ _ _ _ _ _ _ _ hc)).trans (within_call_native hfree _ _ _ _)
  | mapOrFn tail hfree hc _ ih =>
    exact (ih.step (Sub.mapOrFn _ _ _ _ _ tail _ _ _ hc)).trans (within_call_native hfree _ _ _ _)
  | variant tag tail _ ih => exact .step ih (Sub.variantPayload ..)
  | mval tag tail _ ih => exact .step ih (Sub.memberValueOf ..)
  | mopt tag tail _ ih => exact .step ih (Sub.memberOptOf ..)


end XrayModel.CoreX
