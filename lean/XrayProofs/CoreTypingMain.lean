/- C01: assembly of the soundness invariant for every amount of fuel, and its reading on whole programs. -/
import XrayProofs.CoreTypingStep3
import XrayProofs.CoreTypingStep4
namespace XrayModel.CoreTyping
open XrayModel.Core

/-- the step of the invariant for the natives that the evaluator implements itself
(`if`, `and`, `or`, `if_error`, `is_error`, `display` and the strict natives) -/
def BuiltinStep : Prop :=
  ∀ n, Inv n → ∀ cfg fr f args tail st Γ ats τ, FrameTy fr Γ → checkList Γ args = some ats →
    builtinTy f ats = some τ → ResOk Γ fr tail τ (builtin (n+1) cfg fr f (eraseEs args) tail st).1

theorem inv_all (hB : BuiltinStep) : ∀ n, Inv n
  | 0 => inv_zero
  | n + 1 =>
    have ih := inv_all hB n
    ⟨step_eval ih, step_callNamed ih, step_callVal ih, step_evalList ih, step_mkClos ih, step_evalDflts ih,
     step_callUser ih, step_tramp ih, step_evalDecls ih, hB n ih⟩

theorem frameTy_root : FrameTy { env := [], self := none, height := 0 } [] := by
  unfold FrameTy Frame.eff; exact .nil

theorem program_ok (hB : BuiltinStep) {ds : List TDecl} {Γ : TyEnv} (h : checkProgram ds = some Γ) (fuel : Nat) (cfg : Cfg) :
    DeclsOk { env := [], self := none, height := 0 } Γ (runProgram fuel cfg (eraseDs ds)).1 :=
  (inv_all hB fuel).evalDecls cfg _ ds {} [] Γ frameTy_root h

theorem program_not_stuck (hB : BuiltinStep) {ds : List TDecl} {Γ : TyEnv} (h : checkProgram ds = some Γ) (fuel : Nat) (cfg : Cfg)
    (why : String) (st : St) : runProgram fuel cfg (eraseDs ds) ≠ (.error (.stuck why), st) := by
  intro he
  have := program_ok hB h fuel cfg
  rw [he] at this
  simp [DeclsOk, ErrOk] at this

theorem program_preserves (hB : BuiltinStep) {ds : List TDecl} {Γ : TyEnv} (h : checkProgram ds = some Γ) (fuel : Nat) (cfg : Cfg)
    (fr : Frame) (st : St) (hr : runProgram fuel cfg (eraseDs ds) = (.ok fr, st)) : EnvTy fr.env Γ := by
  have := program_ok hB h fuel cfg
  rw [hr] at this
  simp only [DeclsOk] at this
  obtain ⟨hf, hs, _⟩ := this
  unfold FrameTy Frame.eff at hf
  rw [hs] at hf
  simpa using hf

end XrayModel.CoreTyping
