/- C01: assembly of the soundness invariant for every amount of fuel, and its reading on whole programs. -/
import XrayProofs.CoreTypingStep3
import XrayProofs.CoreTypingStep4
import XrayProofs.CoreTypingStep5
namespace XrayModel.CoreTyping
open XrayModel.Core

theorem inv_all : ∀ n, Inv n
  | 0 => inv_zero
  | n + 1 =>
    have ih := inv_all n
    ⟨step_eval ih, step_callNamed ih, step_callVal ih, step_evalList ih, step_mkClos ih, step_evalDflts ih,
     step_callUser ih, step_tramp ih, step_evalDecls ih, step_builtin ih⟩

theorem frameTy_root : FrameTy { env := [], self := none, height := 0 } [] := by
  unfold FrameTy Frame.eff; exact .nil

theorem program_ok {ds : List TDecl} {Γ : TyEnv} (h : checkProgram ds = some Γ) (fuel : Nat) (cfg : Cfg) :
    DeclsOk { env := [], self := none, height := 0 } Γ (runProgram fuel cfg (eraseDs ds)).1 :=
  (inv_all fuel).evalDecls cfg _ ds {} [] Γ frameTy_root h

theorem program_not_stuck {ds : List TDecl} {Γ : TyEnv} (h : checkProgram ds = some Γ) (fuel : Nat) (cfg : Cfg)
    (why : String) (st : St) : runProgram fuel cfg (eraseDs ds) ≠ (.error (.stuck why), st) := by
  intro he
  have := program_ok h fuel cfg
  rw [he] at this
  simp [DeclsOk, ErrOk] at this

theorem program_preserves {ds : List TDecl} {Γ : TyEnv} (h : checkProgram ds = some Γ) (fuel : Nat) (cfg : Cfg)
    (fr : Frame) (st : St) (hr : runProgram fuel cfg (eraseDs ds) = (.ok fr, st)) : EnvTy fr.env Γ := by
  have := program_ok h fuel cfg
  rw [hr] at this
  simp only [DeclsOk] at this
  obtain ⟨hf, hs, _⟩ := this
  unfold FrameTy Frame.eff at hf
  rw [hs] at hf
  simpa using hf

end XrayModel.CoreTyping
