/-
Fuel monotonicity of the extended evaluator (XrayModel/CoreX.lean; port of CoreMono.lean): an answer other than "out of fuel"
is not changed by more fuel — for each of the ten mutually recursive functions — and hence is
independent of the fuel (`*_det`).  Also the case split of `builtin` on name and arity
(`builtin_shape`).
-/
import XrayProofs.CoreXBasic
namespace XrayModel.CoreX

/-- "more fuel does not change a finished answer", one statement per function of the evaluator -/
structure MonoAt (n : Nat) : Prop where
  eval : ∀ {cfg fr e tail st r st'}, eval n cfg fr e tail st = (r, st') → r ≠ .oof → eval (n + 1) cfg fr e tail st = (r, st')
  callNamed : ∀ {cfg fr f args tail st r st'}, callNamed n cfg fr f args tail st = (r, st') → r ≠ .oof → callNamed (n + 1) cfg fr f args tail st = (r, st')
  callVal : ∀ {cfg fr c args tail st r st'}, callVal n cfg fr c args tail st = (r, st') → r ≠ .oof → callVal (n + 1) cfg fr c args tail st = (r, st')
  evalList : ∀ {cfg fr es st x st'}, evalList n cfg fr es st = (x, st') → x ≠ .error .oof → evalList (n + 1) cfg fr es st = (x, st')
  mkClos : ∀ {cfg fr f st r st'}, mkClos n cfg fr f st = (r, st') → r ≠ .oof → mkClos (n + 1) cfg fr f st = (r, st')
  evalDflts : ∀ {cfg fr ps st x st'}, evalDflts n cfg fr ps st = (x, st') → x ≠ .error .oof → evalDflts (n + 1) cfg fr ps st = (x, st')
  callUser : ∀ {cfg ht c args st r st'}, callUser n cfg ht c args st = (r, st') → r ≠ .oof → callUser (n + 1) cfg ht c args st = (r, st')
  tramp : ∀ {cfg ht c args rec st r st'}, tramp n cfg ht c args rec st = (r, st') → r ≠ .oof → tramp (n + 1) cfg ht c args rec st = (r, st')
  evalDecls : ∀ {cfg fr ds st x st'}, evalDecls n cfg fr ds st = (x, st') → x ≠ .error .oof → evalDecls (n + 1) cfg fr ds st = (x, st')
  builtin : ∀ {cfg fr f args tail st r st'}, builtin n cfg fr f args tail st = (r, st') → r ≠ .oof → builtin (n + 1) cfg fr f args tail st = (r, st')

theorem monoAt_zero : MonoAt 0 := by
  constructor <;> intros <;> simp_all [eval, callNamed, callVal, evalList, mkClos, evalDflts, callUser, tramp, evalDecls, builtin]

set_option hygiene false in
/-- name the outcome of a sub-evaluation; if it ran out of fuel so did the whole (contradiction),
otherwise replace the sub-evaluation with one more unit of fuel by the same outcome -/
macro "mono_sub " t:term " => " ihx:term : tactic => `(tactic|
  (rcases hs : $t with ⟨r1, s1⟩
   rw [hs] at h
   by_cases h1 : r1 = Res.oof
   · subst h1; simp_all
   rw [$ihx hs h1]))

set_option hygiene false in
macro "mono_subE " t:term " => " ihx:term : tactic => `(tactic|
  (rcases hs : $t with ⟨r1, s1⟩
   rw [hs] at h
   by_cases h1 : r1 = Except.error Res.oof
   · subst h1; simp_all
   rw [$ihx hs h1]))

theorem mono_eval_succ (n : Nat) (ih : MonoAt n) {cfg fr e tail st r st'}
    (h : eval (n+1) cfg fr e tail st = (r, st')) (hne : r ≠ .oof) : eval (n + 2) cfg fr e tail st = (r, st') := by
  cases e with
  | int _ => simpa [eval] using h
  | bool _ => simpa [eval] using h
  | str _ => simpa [eval] using h
  | var _ => simpa [eval] using h
  | item e i =>
    rw [eval] at h ⊢
    mono_sub (XrayModel.CoreX.eval n cfg fr e false st) => ih.eval
    exact h
  | variant tag e =>
    rw [eval] at h ⊢
    mono_sub (XrayModel.CoreX.eval n cfg fr e false st) => ih.eval
    exact h
  | memberValue e tag =>
    rw [eval] at h ⊢
    mono_sub (XrayModel.CoreX.eval n cfg fr e false st) => ih.eval
    exact h
  | memberOpt e tag =>
    rw [eval] at h ⊢
    mono_sub (XrayModel.CoreX.eval n cfg fr e false st) => ih.eval
    exact h
  | tup es =>
    rw [eval] at h ⊢
    mono_subE (XrayModel.CoreX.evalList n cfg fr es st) => ih.evalList
    exact h
  | arr es =>
    rw [eval] at h ⊢
    mono_subE (XrayModel.CoreX.evalList n cfg fr es st) => ih.evalList
    exact h
  | lam f =>
    rw [eval] at h ⊢
    exact ih.mkClos h hne
  | callE fe args =>
    rw [eval] at h ⊢
    mono_sub (XrayModel.CoreX.eval n cfg fr fe false st) => ih.eval
    rcases r1 with v | _ | _ | _ | _
    · cases v <;> first | exact h | exact ih.callVal h hne
    all_goals exact h
  | call f args =>
    rw [eval] at h ⊢
    rcases hself : fr.self with _ | ⟨sn, sc⟩
    · simp only [hself] at h ⊢
      exact ih.callNamed h hne
    · simp only [hself] at h ⊢
      by_cases hc : (f = sn && (lookup f fr.env).isNone) = true
      · simp only [hc, if_true] at h ⊢
        by_cases ht : (tail && cfg.tco) = true
        · simp only [ht, if_true] at h ⊢
          mono_subE (XrayModel.CoreX.evalList n cfg fr args st) => ih.evalList
          exact h
        · simp only [ht] at h ⊢
          exact ih.callVal h hne
      · simp only [hc] at h ⊢
        exact ih.callNamed h hne

theorem mono_callNamed_succ (n : Nat) (ih : MonoAt n) {cfg fr f args tail st r st'}
    (h : callNamed (n+1) cfg fr f args tail st = (r, st')) (hne : r ≠ .oof) : callNamed (n + 2) cfg fr f args tail st = (r, st') := by
  rw [callNamed] at h ⊢
  cases hg : fr.get f with
  | none => simp only [hg] at h ⊢; exact ih.builtin h hne
  | some c => simp only [hg] at h ⊢; exact ih.callVal h hne

theorem mono_callVal_succ (n : Nat) (ih : MonoAt n) {cfg fr c args tail st r st'}
    (h : callVal (n+1) cfg fr c args tail st = (r, st')) (hne : r ≠ .oof) : callVal (n + 2) cfg fr c args tail st = (r, st') := by
  cases c with
  | clos f d env =>
    rw [callVal] at h ⊢
    mono_subE (XrayModel.CoreX.evalList n cfg fr args st) => ih.evalList
    rcases r1 with x | vs
    · exact h
    · exact ih.callUser h hne
  | _ => simpa [callVal] using h

theorem mono_evalList_succ (n : Nat) (ih : MonoAt n) {cfg fr es st x st'}
    (h : evalList (n+1) cfg fr es st = (x, st')) (hne : x ≠ .error .oof) : evalList (n + 2) cfg fr es st = (x, st') := by
  cases es with
  | nil => simpa [evalList] using h
  | cons e rest =>
    rw [evalList] at h ⊢
    mono_sub (XrayModel.CoreX.eval n cfg fr e false st) => ih.eval
    rcases r1 with v | _ | _ | _ | _
    · cases v
      case err => exact h
      all_goals
        simp only [] at h ⊢
        mono_subE (XrayModel.CoreX.evalList n cfg fr rest s1) => ih.evalList
        exact h
    all_goals exact h

theorem mono_mkClos_succ (n : Nat) (ih : MonoAt n) {cfg fr f st r st'}
    (h : mkClos (n+1) cfg fr f st = (r, st')) (hne : r ≠ .oof) : mkClos (n + 2) cfg fr f st = (r, st') := by
  rw [mkClos] at h ⊢
  mono_subE (XrayModel.CoreX.evalDflts n cfg fr f.params st) => ih.evalDflts
  exact h

theorem mono_evalDflts_succ (n : Nat) (ih : MonoAt n) {cfg fr ps st x st'}
    (h : evalDflts (n+1) cfg fr ps st = (x, st')) (hne : x ≠ .error .oof) : evalDflts (n + 2) cfg fr ps st = (x, st') := by
  cases ps with
  | nil => simpa [evalDflts] using h
  | cons p rest =>
    rw [evalDflts] at h ⊢
    cases hd : p.dflt with
    | none => simp only [hd] at h ⊢; exact ih.evalDflts h hne
    | some d =>
      simp only [hd] at h ⊢
      mono_sub (XrayModel.CoreX.eval n cfg fr d false st) => ih.eval
      rcases r1 with v | _ | _ | _ | _
      · simp only [] at h ⊢
        mono_subE (XrayModel.CoreX.evalDflts n cfg fr rest s1) => ih.evalDflts
        exact h
      all_goals exact h

theorem mono_callUser_succ (n : Nat) (ih : MonoAt n) {cfg ht c args st r st'}
    (h : callUser (n+1) cfg ht c args st = (r, st')) (hne : r ≠ .oof) : callUser (n + 2) cfg ht c args st = (r, st') := by
  rw [callUser] at h ⊢
  cases hf : firstErr args with
  | some e => simp only [hf] at h ⊢; exact h
  | none =>
    simp only [hf] at h ⊢
    cases hl : cfg.callLimit with
    | none => simp only [hl] at h ⊢; exact ih.tramp h hne
    | some l =>
      simp only [hl] at h ⊢
      split at h
      · rename_i hc; rw [if_pos hc]; exact h
      · rename_i hc; rw [if_neg hc]; exact ih.tramp h hne

theorem mono_evalDecls_succ (n : Nat) (ih : MonoAt n) {cfg fr ds st x st'}
    (h : evalDecls (n+1) cfg fr ds st = (x, st')) (hne : x ≠ .error .oof) : evalDecls (n + 2) cfg fr ds st = (x, st') := by
  cases ds with
  | nil => simpa [evalDecls] using h
  | cons d rest =>
    cases d with
    | letD y e =>
      rw [evalDecls] at h ⊢
      mono_sub (XrayModel.CoreX.eval n cfg fr e false st) => ih.eval
      rcases r1 with v | _ | _ | _ | _
      · exact ih.evalDecls h hne
      all_goals exact h
    | fnD f =>
      rw [evalDecls] at h ⊢
      mono_sub (XrayModel.CoreX.mkClos n cfg fr f st) => ih.mkClos
      rcases r1 with v | _ | _ | _ | _
      · simp only [] at h ⊢
        cases hn : f.name with
        | none => simp only [hn] at h ⊢; exact h
        | some nm => simp only [hn] at h ⊢; exact ih.evalDecls h hne
      all_goals exact h

theorem ite_mono {α : Type} {c : Prop} [Decidable c] {a b b' x : α}
    (h : (if c then a else b) = x) (hb : b = x → b' = x) : (if c then a else b') = x := by
  split at h
  · rename_i hc; rw [if_pos hc]; exact h
  · rename_i hc; rw [if_neg hc]; exact hb h

theorem mono_tramp_succ (n : Nat) (ih : MonoAt n) {cfg ht c args rec st r st'}
    (h : tramp (n+1) cfg ht c args rec st = (r, st')) (hne : r ≠ .oof) : tramp (n + 2) cfg ht c args rec st = (r, st') := by
  cases c with
  | clos f d env =>
    rw [tramp] at h ⊢
    simp only [] at h ⊢
    refine ite_mono h (fun h => ?_)
    cases hb : bindParams f.params args d with
    | none => simp only [hb] at h ⊢; exact h
    | some ps =>
      simp only [hb] at h ⊢
      mono_subE (XrayModel.CoreX.evalDecls n cfg _ f.decls st) => ih.evalDecls
      rcases r1 with x | fr'
      · exact h
      · simp only [] at h ⊢
        mono_sub (XrayModel.CoreX.eval n cfg fr' f.body true s1) => ih.eval
        rcases r1 with v | _ | newArgs | _ | _
        case tail =>
          simp only [] at h ⊢
          refine ite_mono h (fun h => ?_)
          exact ih.tramp h hne
        all_goals exact h
  | _ => simpa [tramp] using h


/-- the generic arm of `builtin`: a strict native on its evaluated arguments -/
def strictCall (n : Nat) (cfg : Cfg) (fr : Frame) (f : String) (args : List Expr) (st : St) : Res × St :=
  if isStrictPrim f then
    match evalList n cfg fr args st with
    | (.ok vs, st') => (prim f vs, st')
    | (.error r, st') => (r, st')
  else (.stuck ("unknown function " ++ f), st)

/-- the case split of `builtin` on name and arity -/
theorem builtin_shape (f : String) (args : List Expr) :
    (∃ c a b, f = "if" ∧ args = [c, a, b]) ∨ (∃ a b, f = "and" ∧ args = [a, b]) ∨
    (∃ a b, f = "or" ∧ args = [a, b]) ∨ (∃ a b, f = "if_error" ∧ args = [a, b]) ∨
    (∃ a, f = "is_error" ∧ args = [a]) ∨ (∃ a, f = "display" ∧ args = [a]) ∨
    (∃ o g d, f = "map_or" ∧ args = [o, g, d]) ∨
    (∀ n cfg fr tail st, builtin (n + 1) cfg fr f args tail st = strictCall n cfg fr f args st) := by
  by_cases h1 : ∃ c a b, f = "if" ∧ args = [c, a, b]
  · exact .inl h1
  by_cases h2 : ∃ a b, f = "and" ∧ args = [a, b]
  · exact .inr (.inl h2)
  by_cases h3 : ∃ a b, f = "or" ∧ args = [a, b]
  · exact .inr (.inr (.inl h3))
  by_cases h4 : ∃ a b, f = "if_error" ∧ args = [a, b]
  · exact .inr (.inr (.inr (.inl h4)))
  by_cases h5 : ∃ a, f = "is_error" ∧ args = [a]
  · exact .inr (.inr (.inr (.inr (.inl h5))))
  by_cases h6 : ∃ a, f = "display" ∧ args = [a]
  · exact .inr (.inr (.inr (.inr (.inr (.inl h6)))))
  by_cases h7 : ∃ o g d, f = "map_or" ∧ args = [o, g, d]
  · exact .inr (.inr (.inr (.inr (.inr (.inr (.inl h7))))))
  refine .inr (.inr (.inr (.inr (.inr (.inr (.inr ?_))))))
  intro n cfg fr tail st
  rw [builtin]
  · rfl
  all_goals
    intros
    simp_all


theorem mono_builtin_succ (n : Nat) (ih : MonoAt n) {cfg fr f args tail st r st'}
    (h : builtin (n+1) cfg fr f args tail st = (r, st')) (hne : r ≠ .oof) : builtin (n + 2) cfg fr f args tail st = (r, st') := by
  rcases builtin_shape f args with ⟨c, a, b, rfl, rfl⟩ | ⟨a, b, rfl, rfl⟩ | ⟨a, b, rfl, rfl⟩ | ⟨a, b, rfl, rfl⟩ |
    ⟨a, rfl, rfl⟩ | ⟨a, rfl, rfl⟩ | ⟨o, g, d, rfl, rfl⟩ | hd
  · rw [builtin] at h ⊢
    mono_sub (XrayModel.CoreX.eval n cfg fr c false st) => ih.eval
    rcases r1 with v | _ | _ | _ | _
    · cases v <;> first | exact h | exact ih.eval h hne
    all_goals exact h
  · rw [builtin] at h ⊢
    mono_sub (XrayModel.CoreX.eval n cfg fr a false st) => ih.eval
    rcases r1 with v | _ | _ | _ | _
    · cases v
      case bool t => cases t <;> first | exact h | exact ih.eval h hne
      all_goals first | exact h | exact ih.eval h hne
    all_goals exact h
  · rw [builtin] at h ⊢
    mono_sub (XrayModel.CoreX.eval n cfg fr a false st) => ih.eval
    rcases r1 with v | _ | _ | _ | _
    · cases v
      case bool t => cases t <;> first | exact h | exact ih.eval h hne
      all_goals first | exact h | exact ih.eval h hne
    all_goals exact h
  · rw [builtin] at h ⊢
    mono_sub (XrayModel.CoreX.eval n cfg fr a false st) => ih.eval
    rcases r1 with v | _ | _ | _ | _
    · cases v <;> first | exact h | exact ih.eval h hne
    all_goals exact h
  · rw [builtin] at h ⊢
    mono_sub (XrayModel.CoreX.eval n cfg fr a false st) => ih.eval
    exact h
  · rw [builtin] at h ⊢
    mono_sub (XrayModel.CoreX.eval n cfg fr a false st) => ih.eval
    exact h
  · rw [builtin] at h ⊢
    mono_sub (XrayModel.CoreX.eval n cfg fr o false st) => ih.eval
    rcases r1 with v | _ | _ | _ | _
    · cases v
      case none => exact ih.eval h hne
      case some w =>
        simp only [] at h ⊢
        mono_sub (XrayModel.CoreX.eval n cfg fr g false s1) => ih.eval
        rcases r1 with v | _ | _ | _ | _
        · cases v <;> first | exact h | exact ih.callUser h hne
        all_goals exact h
      all_goals exact h
    all_goals exact h
  · rw [hd] at h ⊢
    unfold strictCall at h ⊢
    split at h
    · rename_i hp
      rw [if_pos hp]
      mono_subE (XrayModel.CoreX.evalList n cfg fr args st) => ih.evalList
      exact h
    · rename_i hp
      rw [if_neg hp]; exact h

theorem monoAt (n : Nat) : MonoAt n := by
  induction n with
  | zero => exact monoAt_zero
  | succ n ih =>
    exact ⟨mono_eval_succ n ih, mono_callNamed_succ n ih, mono_callVal_succ n ih, mono_evalList_succ n ih,
      mono_mkClos_succ n ih, mono_evalDflts_succ n ih, mono_callUser_succ n ih, mono_tramp_succ n ih,
      mono_evalDecls_succ n ih, mono_builtin_succ n ih⟩

/-! ### any amount of extra fuel -/

theorem eval_mono {n m : Nat} (hle : n ≤ m) {cfg fr e tail st r st'}
    (h : eval n cfg fr e tail st = (r, st')) (hne : r ≠ Res.oof) : eval m cfg fr e tail st = (r, st') := by
  induction hle with
  | refl => exact h
  | step _ ih => exact (monoAt _).eval ih hne

theorem callNamed_mono {n m : Nat} (hle : n ≤ m) {cfg fr f args tail st r st'}
    (h : callNamed n cfg fr f args tail st = (r, st')) (hne : r ≠ Res.oof) : callNamed m cfg fr f args tail st = (r, st') := by
  induction hle with
  | refl => exact h
  | step _ ih => exact (monoAt _).callNamed ih hne

theorem callVal_mono {n m : Nat} (hle : n ≤ m) {cfg fr c args tail st r st'}
    (h : callVal n cfg fr c args tail st = (r, st')) (hne : r ≠ Res.oof) : callVal m cfg fr c args tail st = (r, st') := by
  induction hle with
  | refl => exact h
  | step _ ih => exact (monoAt _).callVal ih hne

theorem evalList_mono {n m : Nat} (hle : n ≤ m) {cfg fr es st x st'}
    (h : evalList n cfg fr es st = (x, st')) (hne : x ≠ Except.error Res.oof) : evalList m cfg fr es st = (x, st') := by
  induction hle with
  | refl => exact h
  | step _ ih => exact (monoAt _).evalList ih hne

theorem mkClos_mono {n m : Nat} (hle : n ≤ m) {cfg fr f st r st'}
    (h : mkClos n cfg fr f st = (r, st')) (hne : r ≠ Res.oof) : mkClos m cfg fr f st = (r, st') := by
  induction hle with
  | refl => exact h
  | step _ ih => exact (monoAt _).mkClos ih hne

theorem evalDflts_mono {n m : Nat} (hle : n ≤ m) {cfg fr ps st x st'}
    (h : evalDflts n cfg fr ps st = (x, st')) (hne : x ≠ Except.error Res.oof) : evalDflts m cfg fr ps st = (x, st') := by
  induction hle with
  | refl => exact h
  | step _ ih => exact (monoAt _).evalDflts ih hne

theorem callUser_mono {n m : Nat} (hle : n ≤ m) {cfg ht c args st r st'}
    (h : callUser n cfg ht c args st = (r, st')) (hne : r ≠ Res.oof) : callUser m cfg ht c args st = (r, st') := by
  induction hle with
  | refl => exact h
  | step _ ih => exact (monoAt _).callUser ih hne

theorem tramp_mono {n m : Nat} (hle : n ≤ m) {cfg ht c args rec st r st'}
    (h : tramp n cfg ht c args rec st = (r, st')) (hne : r ≠ Res.oof) : tramp m cfg ht c args rec st = (r, st') := by
  induction hle with
  | refl => exact h
  | step _ ih => exact (monoAt _).tramp ih hne

theorem evalDecls_mono {n m : Nat} (hle : n ≤ m) {cfg fr ds st x st'}
    (h : evalDecls n cfg fr ds st = (x, st')) (hne : x ≠ Except.error Res.oof) : evalDecls m cfg fr ds st = (x, st') := by
  induction hle with
  | refl => exact h
  | step _ ih => exact (monoAt _).evalDecls ih hne

theorem builtin_mono {n m : Nat} (hle : n ≤ m) {cfg fr f args tail st r st'}
    (h : builtin n cfg fr f args tail st = (r, st')) (hne : r ≠ Res.oof) : builtin m cfg fr f args tail st = (r, st') := by
  induction hle with
  | refl => exact h
  | step _ ih => exact (monoAt _).builtin ih hne


/-! ### finished answers do not depend on the fuel -/

theorem eval_det {n m : Nat} {cfg fr e tail st r1 r2 s1 s2}
    (h1 : eval n cfg fr e tail st = (r1, s1)) (h2 : eval m cfg fr e tail st = (r2, s2))
    (hn1 : r1 ≠ Res.oof) (hn2 : r2 ≠ Res.oof) : r1 = r2 ∧ s1 = s2 := by
  rcases Nat.le_total n m with hle | hle
  · have := eval_mono hle h1 hn1; rw [h2] at this; cases this; exact ⟨rfl, rfl⟩
  · have := eval_mono hle h2 hn2; rw [h1] at this; cases this; exact ⟨rfl, rfl⟩

theorem callNamed_det {n m : Nat} {cfg fr f args tail st r1 r2 s1 s2}
    (h1 : callNamed n cfg fr f args tail st = (r1, s1)) (h2 : callNamed m cfg fr f args tail st = (r2, s2))
    (hn1 : r1 ≠ Res.oof) (hn2 : r2 ≠ Res.oof) : r1 = r2 ∧ s1 = s2 := by
  rcases Nat.le_total n m with hle | hle
  · have := callNamed_mono hle h1 hn1; rw [h2] at this; cases this; exact ⟨rfl, rfl⟩
  · have := callNamed_mono hle h2 hn2; rw [h1] at this; cases this; exact ⟨rfl, rfl⟩

theorem callVal_det {n m : Nat} {cfg fr c args tail st r1 r2 s1 s2}
    (h1 : callVal n cfg fr c args tail st = (r1, s1)) (h2 : callVal m cfg fr c args tail st = (r2, s2))
    (hn1 : r1 ≠ Res.oof) (hn2 : r2 ≠ Res.oof) : r1 = r2 ∧ s1 = s2 := by
  rcases Nat.le_total n m with hle | hle
  · have := callVal_mono hle h1 hn1; rw [h2] at this; cases this; exact ⟨rfl, rfl⟩
  · have := callVal_mono hle h2 hn2; rw [h1] at this; cases this; exact ⟨rfl, rfl⟩

theorem evalList_det {n m : Nat} {cfg fr es st x1 x2 s1 s2}
    (h1 : evalList n cfg fr es st = (x1, s1)) (h2 : evalList m cfg fr es st = (x2, s2))
    (hn1 : x1 ≠ Except.error Res.oof) (hn2 : x2 ≠ Except.error Res.oof) : x1 = x2 ∧ s1 = s2 := by
  rcases Nat.le_total n m with hle | hle
  · have := evalList_mono hle h1 hn1; rw [h2] at this; cases this; exact ⟨rfl, rfl⟩
  · have := evalList_mono hle h2 hn2; rw [h1] at this; cases this; exact ⟨rfl, rfl⟩

theorem mkClos_det {n m : Nat} {cfg fr f st r1 r2 s1 s2}
    (h1 : mkClos n cfg fr f st = (r1, s1)) (h2 : mkClos m cfg fr f st = (r2, s2))
    (hn1 : r1 ≠ Res.oof) (hn2 : r2 ≠ Res.oof) : r1 = r2 ∧ s1 = s2 := by
  rcases Nat.le_total n m with hle | hle
  · have := mkClos_mono hle h1 hn1; rw [h2] at this; cases this; exact ⟨rfl, rfl⟩
  · have := mkClos_mono hle h2 hn2; rw [h1] at this; cases this; exact ⟨rfl, rfl⟩

theorem evalDflts_det {n m : Nat} {cfg fr ps st x1 x2 s1 s2}
    (h1 : evalDflts n cfg fr ps st = (x1, s1)) (h2 : evalDflts m cfg fr ps st = (x2, s2))
    (hn1 : x1 ≠ Except.error Res.oof) (hn2 : x2 ≠ Except.error Res.oof) : x1 = x2 ∧ s1 = s2 := by
  rcases Nat.le_total n m with hle | hle
  · have := evalDflts_mono hle h1 hn1; rw [h2] at this; cases this; exact ⟨rfl, rfl⟩
  · have := evalDflts_mono hle h2 hn2; rw [h1] at this; cases this; exact ⟨rfl, rfl⟩

theorem callUser_det {n m : Nat} {cfg ht c args st r1 r2 s1 s2}
    (h1 : callUser n cfg ht c args st = (r1, s1)) (h2 : callUser m cfg ht c args st = (r2, s2))
    (hn1 : r1 ≠ Res.oof) (hn2 : r2 ≠ Res.oof) : r1 = r2 ∧ s1 = s2 := by
  rcases Nat.le_total n m with hle | hle
  · have := callUser_mono hle h1 hn1; rw [h2] at this; cases this; exact ⟨rfl, rfl⟩
  · have := callUser_mono hle h2 hn2; rw [h1] at this; cases this; exact ⟨rfl, rfl⟩

theorem tramp_det {n m : Nat} {cfg ht c args rec st r1 r2 s1 s2}
    (h1 : tramp n cfg ht c args rec st = (r1, s1)) (h2 : tramp m cfg ht c args rec st = (r2, s2))
    (hn1 : r1 ≠ Res.oof) (hn2 : r2 ≠ Res.oof) : r1 = r2 ∧ s1 = s2 := by
  rcases Nat.le_total n m with hle | hle
  · have := tramp_mono hle h1 hn1; rw [h2] at this; cases this; exact ⟨rfl, rfl⟩
  · have := tramp_mono hle h2 hn2; rw [h1] at this; cases this; exact ⟨rfl, rfl⟩

theorem evalDecls_det {n m : Nat} {cfg fr ds st x1 x2 s1 s2}
    (h1 : evalDecls n cfg fr ds st = (x1, s1)) (h2 : evalDecls m cfg fr ds st = (x2, s2))
    (hn1 : x1 ≠ Except.error Res.oof) (hn2 : x2 ≠ Except.error Res.oof) : x1 = x2 ∧ s1 = s2 := by
  rcases Nat.le_total n m with hle | hle
  · have := evalDecls_mono hle h1 hn1; rw [h2] at this; cases this; exact ⟨rfl, rfl⟩
  · have := evalDecls_mono hle h2 hn2; rw [h1] at this; cases this; exact ⟨rfl, rfl⟩

theorem builtin_det {n m : Nat} {cfg fr f args tail st r1 r2 s1 s2}
    (h1 : builtin n cfg fr f args tail st = (r1, s1)) (h2 : builtin m cfg fr f args tail st = (r2, s2))
    (hn1 : r1 ≠ Res.oof) (hn2 : r2 ≠ Res.oof) : r1 = r2 ∧ s1 = s2 := by
  rcases Nat.le_total n m with hle | hle
  · have := builtin_mono hle h1 hn1; rw [h2] at this; cases this; exact ⟨rfl, rfl⟩
  · have := builtin_mono hle h2 hn2; rw [h1] at this; cases this; exact ⟨rfl, rfl⟩

end XrayModel.CoreX
