/- library functions over generators (include.rs) against the list operations; early-stopping consumers (C16) -/
import XrayProofs.GenConsumers
namespace XrayModel.Gen

theorem notP_pureP (q : V → Bool) : notP (pureP q) = pureP (fun v => !q v) := by
  funext x
  cases x with
  | val v => simp only [notP, pureP]; by_cases h : q v = true <;> simp [h]
  | err => rfl
  | viol => rfl

/-- a consumer that stops early needs only the prefix it inspects: if the first steps of the iterator yield the
values `pre` (whatever follows — the generator may be infinite) and the `k`-th match lies among them, `nth` answers
it within those steps -/
theorem nthLoop_prefix (L : Option Nat) (q : V → Bool) : ∀ n it (pre : List V) k,
    outs L n it = pre.map Item.val → k < (pre.filter q).length →
      nthLoop L (pureP q) n it k = .ok ((pre.filter q)[k]?) := by
  intro n
  induction n with
  | zero => intro it pre k ho hk; cases pre with | nil => simp at hk | cons v vs => simp [outs] at ho
  | succ n ih =>
    intro it pre k ho hk
    simp only [outs] at ho
    simp only [nthLoop]
    cases hs : step L it with
    | done => simp only [hs] at ho; cases pre with | nil => simp at hk | cons v vs => simp at ho
    | skip s => simp only [hs] at ho; simpa using ih s pre k ho hk
    | «yield» x s =>
      simp only [hs] at ho
      cases pre with
      | nil => simp at ho
      | cons v vs =>
        simp only [List.map_cons, List.cons.injEq] at ho
        obtain ⟨hx, ho⟩ := ho
        subst hx
        simp only [pureP, List.filter_cons] at hk ⊢
        cases hq : q v with
        | false => simp only [hq, Bool.false_eq_true, ↓reduceIte] at hk ⊢; simpa using ih s vs k ho hk
        | true =>
          simp only [hq, ↓reduceIte] at hk ⊢
          cases k with
          | zero => simp
          | succ j => simpa using ih s vs j ho (by simpa using hk)

/-- … and `get(i)` needs only the first `i + 1` elements -/
theorem getLoop_prefix (L : Option Nat) : ∀ n it (pre : List V) idx,
    outs L n it = pre.map Item.val → idx < pre.length →
      getLoop L n it idx = (match pre[idx]? with | some v => .ok v | none => .err) := by
  intro n
  induction n with
  | zero => intro it pre idx ho hk; cases pre with | nil => simp at hk | cons v vs => simp [outs] at ho
  | succ n ih =>
    intro it pre idx ho hk
    simp only [outs] at ho
    simp only [getLoop]
    cases hs : step L it with
    | done => simp only [hs] at ho; cases pre with | nil => simp at hk | cons v vs => simp at ho
    | skip s => simp only [hs] at ho; simpa using ih s pre idx ho hk
    | «yield» x s =>
      simp only [hs] at ho
      cases pre with
      | nil => simp at ho
      | cons v vs =>
        simp only [List.map_cons, List.cons.injEq] at ho
        obtain ⟨hx, ho⟩ := ho
        subst hx
        cases idx with
        | zero => simp
        | succ i => simpa using ih s vs i ho (by simpa using hk)


/-! ### aggregate and reduce over finite generators -/

theorem after_aggregate (L : Option Nat) (f : F2) : ∀ n it st,
    ∃ st', after L n (.aggregate it st f false) = (after L n it).map (fun s => .aggregate s st' f false) := by
  intro n
  induction n with
  | zero => intro it st; exact ⟨st, rfl⟩
  | succ n ih =>
    intro it st
    simp only [after]
    rw [step]
    simp only [Bool.false_eq_true, ↓reduceIte]
    cases h : step L it with
    | done => exact ⟨st, by simp⟩
    | skip s => simpa using ih s st
    | «yield» x s =>
      cases x with
      | viol => simpa using ih s st
      | err =>
        dsimp only; generalize f st Item.err = r
        cases r with
        | val w => simpa using ih s (.val w)
        | err => simpa using ih s .err
        | viol => simpa using ih s st
      | val v =>
        dsimp only; generalize f st (Item.val v) = r
        cases r with
        | val w => simpa using ih s (.val w)
        | err => simpa using ih s .err
        | viol => simpa using ih s st

theorem den_aggregate {L it xs} (f : F2) (st : Item) (h : Den L it xs) :
    Den L (.aggregate it st f true) (st :: scanItems f st xs) := by
  obtain ⟨n, h1, h2⟩ := h
  obtain ⟨st', hs⟩ := after_aggregate L f n it st
  refine ⟨n + 1, ?_, ?_⟩
  · simp only [after]; rw [step]; simp [hs, h1]
  · rw [outs_aggregate_first, h2]

/-- a total function on values as a callback -/
def pureF2 (h : V → V → V) : F2
  | .val a, .val b => .val (h a b)
  | .viol, _ => .viol
  | _, .viol => .viol
  | _, _ => .err

/-- the running states of a left fold (without the initial one) -/
def scanV (h : V → V → V) : V → List V → List V
  | _, [] => []
  | a, v :: vs => h a v :: scanV h (h a v) vs

theorem scanItems_pure (h : V → V → V) : ∀ (vs : List V) (a : V),
    scanItems (pureF2 h) (.val a) (vs.map Item.val) = (scanV h a vs).map Item.val := by
  intro vs
  induction vs with
  | nil => intro a; rfl
  | cons v vs ih => intro a; simp [scanItems, pureF2, scanV, ih]

theorem scanV_last (h : V → V → V) : ∀ (vs : List V) (a : V),
    (a :: scanV h a vs).getLast? = some (vs.foldl h a) := by
  intro vs
  induction vs with
  | nil => intro a; rfl
  | cons v vs ih =>
    intro a
    simp only [scanV, List.foldl_cons]
    rw [List.getLast?_cons_cons]
    exact ih (h a v)

end XrayModel.Gen
