/-
Helper lemmas for C03 over the compile-time scope model (XrayModel/Scope.lean):
the reading of a capture chain (`R`), `into_static_ud`'s re-threading cell by cell, closing one scope and a
whole nest of scopes (`closeAllX`), name lookup (`getItem` finds the nearest declaring scope), the forward gate
(`require_forwards`), a use reads the declaration that was found (`useCand_reads`), cells are only appended
(`Ext`), names and cells (`NameInv`).
-/
import XrayModel.Scope
namespace XrayModel.Scope

/-- fuel beyond the length of the chain is irrelevant -/
theorem resolve_fuel : ∀ (f1 f2 : Nat) (chain : List (List Cell)) (i : Nat),
    chain.length ≤ f1 → chain.length ≤ f2 → resolve f1 chain i = resolve f2 chain i := by
  intro f1
  induction f1 with
  | zero =>
    intro f2 chain i h1 h2
    have : chain = [] := by cases chain <;> simp_all
    subst this
    cases f2 <;> simp [resolve]
  | succ n ih =>
    intro f2 chain i h1 h2
    cases chain with
    | nil => cases f2 <;> simp [resolve]
    | cons cs rest =>
      cases f2 with
      | zero => simp at h2
      | succ m =>
        simp only [resolve]
        cases hc : cs[i]? with
        | none => rfl
        | some c =>
          cases c with
          | var => rfl
          | recur => rfl
          | cap d k =>
            simp only
            split
            · rfl
            · have hl : (rest.drop (d - 1)).length ≤ rest.length := by simp
              simp only [List.length_cons] at h1 h2
              rw [ih m (rest.drop (d - 1)) k (by omega) (by omega)]

/-- the reading of cell `i` of the innermost scope of `chain` -/
def R (chain : List (List Cell)) (i : Nat) : Option (Nat × Nat) := resolve chain.length chain i

theorem R_nil (i : Nat) : R [] i = none := by simp [R, resolve]

theorem R_cons (cs : List Cell) (rest : List (List Cell)) (i : Nat) :
    R (cs :: rest) i =
      match cs[i]? with
      | none => none
      | some .var => some (0, i)
      | some .recur => some (0, i)
      | some (.cap d k) =>
        if d = 0 then none
        else match R (rest.drop (d - 1)) k with
          | none => none
          | some (d', k') => some (d + d', k') := by
  simp only [R, List.length_cons, resolve]
  cases hc : cs[i]? with
  | none => rfl
  | some c =>
    cases c with
    | var => rfl
    | recur => rfl
    | cap d k =>
      simp only
      split
      · rfl
      · rw [resolve_fuel rest.length (rest.drop (d - 1)).length (rest.drop (d - 1)) k (by simp) (Nat.le_refl _)]
        rfl

/-! ### `threadCells` (the loop of `into_static_ud`) cell by cell -/

theorem threadCells_length (cs : List Cell) (n : Nat) : (threadCells cs n).1.length = cs.length := by
  induction cs generalizing n with
  | nil => simp [threadCells]
  | cons c rest ih =>
    cases c with
    | var => simp [threadCells, ih]
    | recur => simp [threadCells, ih]
    | cap d k =>
      simp only [threadCells]
      split <;> simp [ih]

theorem threadCells_none (cs : List Cell) (n i : Nat) (h : cs[i]? = none) : (threadCells cs n).1[i]? = none := by
  rw [List.getElem?_eq_none_iff] at h ⊢
  rw [threadCells_length]; exact h

theorem threadCells_var (cs : List Cell) (n i : Nat) (h : cs[i]? = some .var) : (threadCells cs n).1[i]? = some .var := by
  induction cs generalizing n i with
  | nil => simp at h
  | cons c rest ih =>
    cases i with
    | zero =>
      simp only [List.getElem?_cons_zero, Option.some.injEq] at h
      subst h; simp [threadCells]
    | succ j =>
      simp only [List.getElem?_cons_succ] at h
      cases c with
      | var => simp [threadCells, ih _ _ h]
      | recur => simp [threadCells, ih _ _ h]
      | cap d k =>
        simp only [threadCells]
        split <;> simp [ih _ _ h]

theorem threadCells_recur (cs : List Cell) (n i : Nat) (h : cs[i]? = some .recur) : (threadCells cs n).1[i]? = some .recur := by
  induction cs generalizing n i with
  | nil => simp at h
  | cons c rest ih =>
    cases i with
    | zero =>
      simp only [List.getElem?_cons_zero, Option.some.injEq] at h
      subst h; simp [threadCells]
    | succ j =>
      simp only [List.getElem?_cons_succ] at h
      cases c with
      | var => simp [threadCells, ih _ _ h]
      | recur => simp [threadCells, ih _ _ h]
      | cap d k =>
        simp only [threadCells]
        split <;> simp [ih _ _ h]

/-- a capture of depth ≤ 1 is kept as it is -/
theorem threadCells_shallow (cs : List Cell) (n i d k : Nat) (h : cs[i]? = some (.cap d k)) (hd : d ≤ 1) :
    (threadCells cs n).1[i]? = some (.cap d k) := by
  induction cs generalizing n i with
  | nil => simp at h
  | cons c rest ih =>
    cases i with
    | zero =>
      simp only [List.getElem?_cons_zero, Option.some.injEq] at h
      subst h
      simp only [threadCells]
      split
      · omega
      · simp
    | succ j =>
      simp only [List.getElem?_cons_succ] at h
      cases c with
      | var => simp [threadCells, ih _ _ h]
      | recur => simp [threadCells, ih _ _ h]
      | cap d' k' =>
        simp only [threadCells]
        split <;> simp [ih _ _ h]

/-- a capture deeper than one level becomes `Capture{1, n + j}` and the `j`-th request is
`Capture{depth - 1, cell}` -/
theorem threadCells_deep (cs : List Cell) (n i d k : Nat) (h : cs[i]? = some (.cap d k)) (hd : 2 ≤ d) :
    ∃ j, (threadCells cs n).1[i]? = some (.cap 1 (n + j)) ∧ (threadCells cs n).2[j]? = some (.cap (d - 1) k) := by
  induction cs generalizing n i with
  | nil => simp at h
  | cons c rest ih =>
    cases i with
    | zero =>
      simp only [List.getElem?_cons_zero, Option.some.injEq] at h
      subst h
      refine ⟨0, ?_⟩
      simp only [threadCells]
      split
      · simp
      · omega
    | succ j =>
      simp only [List.getElem?_cons_succ] at h
      cases c with
      | var => obtain ⟨j', h1, h2⟩ := ih n _ h; exact ⟨j', by simp [threadCells, h1], by simp [threadCells, h2]⟩
      | recur => obtain ⟨j', h1, h2⟩ := ih n _ h; exact ⟨j', by simp [threadCells, h1], by simp [threadCells, h2]⟩
      | cap d' k' =>
        simp only [threadCells]
        split
        · obtain ⟨j', h1, h2⟩ := ih (n + 1) _ h
          refine ⟨j' + 1, ?_, ?_⟩
          · simp only [List.getElem?_cons_succ, h1]
            congr 2; omega
          · simp [h2]
        · obtain ⟨j', h1, h2⟩ := ih n _ h
          exact ⟨j', by simp [h1], by simp [h2]⟩

/-- every capture of a closed function has depth at most 1 (`// todo i'm pretty sure this is always 1`) -/
theorem threadCells_depth_le_one (cs : List Cell) (n d k : Nat) (h : Cell.cap d k ∈ (threadCells cs n).1) : d ≤ 1 := by
  induction cs generalizing n with
  | nil => simp [threadCells] at h
  | cons c rest ih =>
    cases c with
    | var => simp only [threadCells, List.mem_cons] at h; rcases h with h | h; · cases h
             · exact ih _ h
    | recur => simp only [threadCells, List.mem_cons] at h; rcases h with h | h; · cases h
               · exact ih _ h
    | cap d' k' =>
      simp only [threadCells] at h
      split at h
      · simp only [List.mem_cons, Cell.cap.injEq] at h
        rcases h with h | h
        · omega
        · exact ih _ h
      · simp only [List.mem_cons, Cell.cap.injEq] at h
        rcases h with h | h
        · omega
        · exact ih _ h

/-! ### closing one scope into its parent keeps every reading -/

/-- appending cells to the innermost scope does not change the reading of an existing cell -/
theorem R_append_head (cs extra : List Cell) (rest : List (List Cell)) (i : Nat) (h : i < cs.length) :
    R ((cs ++ extra) :: rest) i = R (cs :: rest) i := by
  rw [R_cons, R_cons, List.getElem?_append_left h]

/-- the captures of depth 1 of a scope point inside its parent's cells -/
def HeadOK (c0 c1 : List Cell) : Prop := ∀ k, Cell.cap 1 k ∈ c0 → k < c1.length

theorem close_step (c0 c1 extra : List Cell) (rest : List (List Cell)) (i : Nat) (hok : HeadOK c0 c1) :
    R ((threadCells c0 c1.length).1 :: (c1 ++ (threadCells c0 c1.length).2 ++ extra) :: rest) i
      = R (c0 :: c1 :: rest) i := by
  rw [R_cons, R_cons]
  cases hc : c0[i]? with
  | none => rw [threadCells_none _ _ _ hc]
  | some c =>
    cases c with
    | var => rw [threadCells_var _ _ _ hc]
    | recur => rw [threadCells_recur _ _ _ hc]
    | cap d k =>
      by_cases hd : d ≤ 1
      · rw [threadCells_shallow _ _ _ _ _ hc hd]
        simp only
        split
        · rfl
        · have hd1 : d = 1 := by omega
          subst hd1
          have hk : k < c1.length := hok k (List.mem_of_getElem? hc)
          simp only [Nat.sub_self, List.drop_zero]
          rw [List.append_assoc, R_append_head _ _ _ _ hk]
      · obtain ⟨j, h1, h2⟩ := threadCells_deep c0 c1.length i d k hc (by omega)
        rw [h1]
        simp only [Nat.sub_self, List.drop_zero, Nat.one_ne_zero, if_false]
        have hd0 : ¬ d = 0 := by omega
        simp only [hd0, if_false]
        -- the parent's cell `c1.length + j` is the request `cap (d-1) k`
        have hj : j < (threadCells c0 c1.length).2.length := by
          rcases Nat.lt_or_ge j (threadCells c0 c1.length).2.length with h | h
          · exact h
          · rw [List.getElem?_eq_none_iff.mpr h] at h2; cases h2
        have hreq : (c1 ++ (threadCells c0 c1.length).2 ++ extra)[c1.length + j]? = some (.cap (d - 1) k) := by
          rw [List.append_assoc, List.getElem?_append_right (by omega)]
          simp only [Nat.add_sub_cancel_left]
          rw [List.getElem?_append_left hj, h2]
        rw [R_cons, hreq]
        have hd1 : ¬ d - 1 = 0 := by omega
        simp only [hd1, if_false]
        have hdrop : List.drop (d - 1) (c1 :: rest) = List.drop (d - 1 - 1) rest := by
          cases hdd : d - 1 with
          | zero => omega
          | succ m => simp
        rw [hdrop]
        cases R (List.drop (d - 1 - 1) rest) k with
        | none => rfl
        | some p =>
          obtain ⟨d', k'⟩ := p
          simp only [Option.some.injEq, Prod.mk.injEq, and_true]
          omega

/-! ### closing a whole nest of scopes, innermost first, with arbitrary further cells appended to each
parent after its child was closed (`es`: what the rest of the parent's compilation pushes) -/

def closeAllX : List (List Cell) → List (List Cell) → List (List Cell)
  | [], _ => []
  | [c], _ => [c]
  | c0 :: c1 :: rest, es =>
    (threadCells c0 c1.length).1 ::
      closeAllX ((c1 ++ (threadCells c0 c1.length).2 ++ es.headD []) :: rest) es.tail
termination_by chain => chain.length

/-- at the moment a scope is closed its depth-1 captures point inside the parent's cells -/
def OKX : List (List Cell) → List (List Cell) → Prop
  | [], _ => True
  | [_], _ => True
  | c0 :: c1 :: rest, es =>
    HeadOK c0 c1 ∧ OKX ((c1 ++ (threadCells c0 c1.length).2 ++ es.headD []) :: rest) es.tail
termination_by chain => chain.length

theorem R_cons_congr (cs : List Cell) (rest rest' : List (List Cell)) (i : Nat)
    (hdepth : ∀ d k, Cell.cap d k ∈ cs → d ≤ 1) (hrest : ∀ k, R rest' k = R rest k) :
    R (cs :: rest') i = R (cs :: rest) i := by
  rw [R_cons, R_cons]
  cases hc : cs[i]? with
  | none => rfl
  | some c =>
    cases c with
    | var => rfl
    | recur => rfl
    | cap d k =>
      have := hdepth d k (List.mem_of_getElem? hc)
      simp only
      split
      · rfl
      · have hd1 : d = 1 := by omega
        subst hd1
        simp only [Nat.sub_self, List.drop_zero, hrest]

theorem closeAllX_reads : ∀ (n : Nat) (chain es : List (List Cell)), chain.length = n → OKX chain es →
    ∀ i, R (closeAllX chain es) i = R chain i := by
  intro n
  induction n with
  | zero =>
    intro chain es hl _ i
    have : chain = [] := by cases chain <;> simp_all
    subst this
    simp [closeAllX]
  | succ m ih =>
    intro chain es hl hok i
    match chain, hl, hok with
    | [c], _, _ => simp [closeAllX]
    | c0 :: c1 :: rest, hl, hok =>
      rw [closeAllX]
      rw [OKX] at hok
      obtain ⟨h0, hrest⟩ := hok
      rw [R_cons_congr _ _ _ i (fun d k h => threadCells_depth_le_one c0 c1.length d k h)
            (ih _ _ (by simp at hl ⊢; omega) hrest)]
      exact close_step c0 c1 _ rest i h0

/-! ### name lookup -/

/-- a scope declares `x` (as a variable/parameter or as a function) -/
def Declares (s : Scope) (x : String) : Prop := lookup x s.vars ≠ none ∨ overloadCells x s.funcs ≠ []

theorem getItem_var (s : Scope) (ps : List Scope) (x : String) (k : Nat)
    (h : lookup x s.vars = some k) (hc : s.cells[k]? = some .var) :
    getItem (s :: ps) x = .ok (some (.value (s.height, k, s.cellReqs k))) := by
  simp [getItem, h, hc]

theorem getItem_skip (s : Scope) (ps : List Scope) (x : String) (h : ¬ Declares s x) :
    getItem (s :: ps) x = getItem ps x := by
  simp only [Declares, not_or, ne_eq, Decidable.not_not] at h
  simp [getItem, h.1, h.2]

/-- a variable found by `getItem` is declared by the nearest scope of the chain that declares the name at
all, and it is that scope's latest binding of the name -/
theorem getItem_value_nearest (chain : List Scope) (x : String) (h k : Nat) (rq : List FwdReq)
    (hg : getItem chain x = .ok (some (.value (h, k, rq)))) :
    ∃ pre s post, chain = pre ++ s :: post ∧ (∀ t ∈ pre, ¬ Declares t x) ∧
      lookup x s.vars = some k ∧ s.cells[k]? = some .var ∧ s.height = h ∧ rq = s.cellReqs k := by
  induction chain with
  | nil => simp [getItem] at hg
  | cons s ps ih =>
    by_cases hd : Declares s x
    · simp only [getItem] at hg
      cases hl : lookup x s.vars with
      | some k' =>
        simp only [hl] at hg
        cases hc : s.cells[k']? with
        | none => simp [hc] at hg
        | some c =>
          cases c <;> simp only [hc] at hg <;> try (cases hg)
          refine ⟨[], s, ps, rfl, by simp, ?_, ?_, rfl, rfl⟩
          · exact hl
          · exact hc
      | none =>
        simp only [hl] at hg
        cases ho : overloadCells x s.funcs with
        | nil => exact absurd hd (by simp [Declares, hl, ho])
        | cons k0 ks =>
          simp only [ho] at hg
          -- an overload set is never a `value`
          split at hg
          · cases hg
          · split at hg
            · cases hg
            · split at hg
              · split at hg <;> cases hg
              · cases hg
            · cases hg
    · rw [getItem_skip s ps x hd] at hg
      obtain ⟨pre, s', post, h1, h2, h3⟩ := ih hg
      refine ⟨s :: pre, s', post, by simp [h1], ?_, h3⟩
      intro t ht
      simp only [List.mem_cons] at ht
      rcases ht with rfl | ht
      · exact hd
      · exact h2 t ht

/-! ### the forward gate -/

theorem forwardRef_congr (cur cur' : Scope) (ps : List Scope) (r : FwdReq)
    (hh : cur'.height = cur.height) (hf : cur'.forwards = cur.forwards) :
    forwardRef (cur' :: ps) r = forwardRef (cur :: ps) r := by
  simp only [forwardRef, hh]
  split
  · rfl
  · cases hn : cur.height - r.height with
    | zero => simp [hf]
    | succ n => simp

/-- the gate reads of the current scope only its height, forward declarations, cells and cell requirements -/
theorem behindStep_congr (cur cur' : Scope) (ps : List Scope) (r : FwdReq)
    (hh : cur'.height = cur.height) (hf : cur'.forwards = cur.forwards) (hc : cur'.cells = cur.cells)
    (hr : cur'.reqs = cur.reqs) : behindStep (cur' :: ps) r = behindStep (cur :: ps) r := by
  simp only [behindStep, hh]
  split
  · rfl
  · cases hn : cur.height - r.height with
    | zero => simp [hf, hc, Scope.cellReqs, hr]
    | succ n => simp

theorem unfulfilledBehindAux_congr (cur cur' : Scope) (ps : List Scope)
    (hh : cur'.height = cur.height) (hf : cur'.forwards = cur.forwards) (hc : cur'.cells = cur.cells)
    (hr : cur'.reqs = cur.reqs) : ∀ (n : Nat) (pending seen : List FwdReq),
    unfulfilledBehindAux n (cur' :: ps) pending seen = unfulfilledBehindAux n (cur :: ps) pending seen := by
  intro n
  induction n with
  | zero => intro pending seen; simp [unfulfilledBehindAux]
  | succ m ih =>
    intro pending seen
    cases pending with
    | nil => simp [unfulfilledBehindAux]
    | cons r rest =>
      simp only [unfulfilledBehindAux, behindStep_congr cur cur' ps r hh hf hc hr, ih]

theorem unfulfilledBehind_congr (cur cur' : Scope) (ps : List Scope) (r : FwdReq)
    (hh : cur'.height = cur.height) (hf : cur'.forwards = cur.forwards) (hc : cur'.cells = cur.cells)
    (hr : cur'.reqs = cur.reqs) : unfulfilledBehind (cur' :: ps) r = unfulfilledBehind (cur :: ps) r := by
  have hg : gateFuel (cur' :: ps) = gateFuel (cur :: ps) := by simp [gateFuel, hf, hr]
  simp only [unfulfilledBehind, hg]
  exact unfulfilledBehindAux_congr cur cur' ps hh hf hc hr _ _ _

/-- `r'` is reachable from `r` through implemented forward functions: `r` itself, or a requirement recorded on the cell
of an implemented forward function that is reachable from `r` -/
inductive Reach (chain : List Scope) : FwdReq → FwdReq → Prop where
  | refl (r : FwdReq) : Reach chain r r
  | step (r r1 r2 : FwdReq) (more : List FwdReq) : behindStep chain r = .ok (true, more) → r1 ∈ more →
      Reach chain r1 r2 → Reach chain r r2

/-- the loop invariant: everything the walk was asked about lies in a set whose new members are either implemented,
with the requirements of their implementation in the set, or unimplemented and reported -/
theorem unfulfilledBehindAux_inv (chain : List Scope) : ∀ (n : Nat) (pending seen ms : List FwdReq),
    unfulfilledBehindAux n chain pending seen = .ok ms →
    ∃ S : List FwdReq, (∀ x ∈ seen, x ∈ S) ∧ (∀ x ∈ pending, x ∈ S) ∧
      (∀ x ∈ S, x ∈ seen ∨ (∃ more, behindStep chain x = .ok (true, more) ∧ ∀ y ∈ more, y ∈ S) ∨
                (x ∈ ms ∧ ∃ more, behindStep chain x = .ok (false, more))) ∧
      (∀ m ∈ ms, ∃ more, behindStep chain m = .ok (false, more)) := by
  intro n
  induction n with
  | zero => intro pending seen ms h; simp [unfulfilledBehindAux] at h
  | succ k ih =>
    intro pending seen ms h
    cases pending with
    | nil =>
      simp only [unfulfilledBehindAux, Except.ok.injEq] at h
      subst h
      exact ⟨seen, fun x hx => hx, by simp, fun x hx => Or.inl hx, by simp⟩
    | cons r rest =>
      simp only [unfulfilledBehindAux] at h
      split at h
      · rename_i hseen
        obtain ⟨S, h1, h2, h3, h4⟩ := ih rest seen ms h
        refine ⟨S, h1, ?_, h3, h4⟩
        intro x hx
        simp only [List.mem_cons] at hx
        rcases hx with rfl | hx
        · exact h1 _ hseen
        · exact h2 x hx
      · split at h
        · cases h
        · rename_i more hs
          cases hrec : unfulfilledBehindAux k chain rest (r :: seen) with
          | error e => rw [hrec] at h; cases h
          | ok ms' =>
            rw [hrec] at h
            simp only [Except.map, Except.ok.injEq] at h
            subst h
            obtain ⟨S, h1, h2, h3, h4⟩ := ih _ _ _ hrec
            refine ⟨S, fun x hx => h1 x (by simp [hx]), ?_, ?_, ?_⟩
            · intro x hx
              simp only [List.mem_cons] at hx
              rcases hx with rfl | hx
              · exact h1 _ (by simp)
              · exact h2 x hx
            · intro x hx
              rcases h3 x hx with hx' | hx' | hx'
              · simp only [List.mem_cons] at hx'
                rcases hx' with rfl | hx'
                · exact Or.inr (Or.inr ⟨by simp, more, hs⟩)
                · exact Or.inl hx'
              · exact Or.inr (Or.inl hx')
              · exact Or.inr (Or.inr ⟨by simp [hx'.1], hx'.2⟩)
            · intro m hm
              simp only [List.mem_cons] at hm
              rcases hm with rfl | hm
              · exact ⟨more, hs⟩
              · exact h4 m hm
        · rename_i more hs
          obtain ⟨S, h1, h2, h3, h4⟩ := ih _ _ _ h
          refine ⟨S, fun x hx => h1 x (by simp [hx]), ?_, ?_, h4⟩
          · intro x hx
            simp only [List.mem_cons] at hx
            rcases hx with rfl | hx
            · exact h1 _ (by simp)
            · exact h2 x (by simp [hx])
          · intro x hx
            rcases h3 x hx with hx' | hx' | hx'
            · simp only [List.mem_cons] at hx'
              rcases hx' with rfl | hx'
              · exact Or.inr (Or.inl ⟨more, hs, fun y hy => h2 y (by simp [hy])⟩)
              · exact Or.inl hx'
            · exact Or.inr (Or.inl hx')
            · exact Or.inr (Or.inr hx')

/-- **the gate sees through implementations, completely**: every forward function reachable from `r` through
implementations is either implemented or among the reported ones; and the reported ones are unimplemented -/
theorem unfulfilledBehind_complete (chain : List Scope) (r : FwdReq) (ms : List FwdReq)
    (h : unfulfilledBehind chain r = .ok ms) :
    (∀ r', Reach chain r r' → (∃ more, behindStep chain r' = .ok (true, more)) ∨ r' ∈ ms) ∧
    (∀ m ∈ ms, ∃ more, behindStep chain m = .ok (false, more)) := by
  obtain ⟨S, -, h2, h3, h4⟩ := unfulfilledBehindAux_inv chain _ _ _ _ h
  refine ⟨?_, h4⟩
  have hcl : ∀ x ∈ S, (∃ more, behindStep chain x = .ok (true, more) ∧ ∀ y ∈ more, y ∈ S) ∨
      (x ∈ ms ∧ ∃ more, behindStep chain x = .ok (false, more)) := by
    intro x hx
    rcases h3 x hx with hx' | hx' | hx'
    · simp at hx'
    · exact Or.inl hx'
    · exact Or.inr hx'
  have hreach : ∀ a b, Reach chain a b → a ∈ S → b ∈ S := by
    intro a b hab
    induction hab with
    | refl r => exact fun h => h
    | step r r1 r2 more hs hm _ ih =>
      intro hr
      rcases hcl r hr with ⟨more', hs', hsub⟩ | ⟨-, more', hs'⟩
      · rw [hs] at hs'
        simp only [Except.ok.injEq, Prod.mk.injEq, true_and] at hs'
        subst hs'
        exact ih (hsub r1 hm)
      · rw [hs] at hs'; simp at hs'
  intro r' hr'
  rcases hcl r' (hreach r r' hr' (h2 r (by simp))) with ⟨more, hs, -⟩ | ⟨hm, -⟩
  · exact Or.inl ⟨more, hs⟩
  · exact Or.inr hm

theorem recordMissing_frame (ps : List Scope) (cur cur' : Scope) (ms : List FwdReq)
    (h : recordMissing ps cur ms = .ok cur') :
    cur'.cells = cur.cells ∧ cur'.height = cur.height ∧ cur'.forwards = cur.forwards ∧ cur'.vars = cur.vars ∧
    cur'.funcs = cur.funcs ∧ cur'.reqs = cur.reqs ∧ cur'.decls = cur.decls ∧ cur'.recName = cur.recName ∧
    (∀ r, r ∈ cur.fwdReqs → r ∈ cur'.fwdReqs) ∧
    (∀ m ∈ ms, m.height ≠ cur.height ∧ m ∈ cur'.fwdReqs) := by
  induction ms generalizing cur with
  | nil => simp only [recordMissing, Except.ok.injEq] at h; subst h; simp
  | cons m rest ih =>
    simp only [recordMissing] at h
    split at h
    · split at h <;> cases h
    · rename_i hne
      have := ih _ h
      simp only at this
      obtain ⟨h1, h2, h3, h4, h5, h6, h7, h8, h9, h10⟩ := this
      have hm : m ∈ cur'.fwdReqs := by
        apply h9
        split
        · assumption
        · simp
      refine ⟨h1, h2, h3, h4, h5, h6, h7, h8, ?_, ?_⟩
      · intro r' hr'
        apply h9
        split
        · exact hr'
        · simp [hr']
      · intro m' hm'
        simp only [List.mem_cons] at hm'
        rcases hm' with rfl | hm'
        · exact ⟨hne, hm⟩
        · exact h10 m' hm'

/-- `require_forwards` only ever touches the scope's `forward_requirements` set -/
theorem requireForwards_frame (ps : List Scope) (cur cur' : Scope) (rs : List FwdReq)
    (h : requireForwards ps cur rs = .ok cur') :
    cur'.cells = cur.cells ∧ cur'.height = cur.height ∧ cur'.forwards = cur.forwards ∧ cur'.vars = cur.vars ∧
    cur'.funcs = cur.funcs ∧ cur'.reqs = cur.reqs ∧ cur'.decls = cur.decls ∧ cur'.recName = cur.recName ∧
    (∀ r, r ∈ cur.fwdReqs → r ∈ cur'.fwdReqs) := by
  induction rs generalizing cur with
  | nil => simp only [requireForwards, Except.ok.injEq] at h; subst h; simp
  | cons r rest ih =>
    simp only [requireForwards] at h
    split at h
    · cases h
    · split at h
      · cases h
      · rename_i cur1 hrec
        obtain ⟨a1, a2, a3, a4, a5, a6, a7, a8, a9, -⟩ := recordMissing_frame _ _ _ _ hrec
        obtain ⟨b1, b2, b3, b4, b5, b6, b7, b8, b9⟩ := ih _ h
        exact ⟨b1.trans a1, b2.trans a2, b3.trans a3, b4.trans a4, b5.trans a5, b6.trans a6, b7.trans a7,
               b8.trans a8, fun r' hr' => b9 r' (a9 r' hr')⟩

/-- the gate: if `require_forwards` lets a list of requirements pass, then none of the unfulfilled forward functions
behind any of them (`unfulfilled_behind`: the requirement itself or — transitively — what its implementation needs)
is a declaration of the current scope, and ALL of them are now recorded in the scope's own requirements — which
become the requirements of the function being compiled -/
theorem requireForwards_gate (ps : List Scope) (cur cur' : Scope) (rs : List FwdReq)
    (h : requireForwards ps cur rs = .ok cur') :
    ∀ r ∈ rs, ∀ ms, unfulfilledBehind (cur :: ps) r = .ok ms →
      ∀ m ∈ ms, m.height ≠ cur.height ∧ m ∈ cur'.fwdReqs := by
  induction rs generalizing cur with
  | nil => simp
  | cons r0 rest ih =>
    intro r hr ms hms m hm
    simp only [requireForwards] at h
    split at h
    · cases h
    · rename_i ms0 hms0
      split at h
      · cases h
      · rename_i cur1 hrec
        obtain ⟨a1, a2, a3, -, -, a6, -, -, -, a10⟩ := recordMissing_frame _ _ _ _ hrec
        have hfr := requireForwards_frame _ _ _ _ h
        simp only [List.mem_cons] at hr
        rcases hr with rfl | hr
        · rw [hms0] at hms
          simp only [Except.ok.injEq] at hms
          subst hms
          exact ⟨(a10 m hm).1, hfr.2.2.2.2.2.2.2.2 m (a10 m hm).2⟩
        · have := ih _ h r hr ms (by rw [unfulfilledBehind_congr cur cur1 ps r a2 a3 a1 a6]; exact hms) m hm
          exact ⟨by rw [← a2]; exact this.1, this.2⟩

/-- a function behind whose requirements stands an unfulfilled forward declaration of the current scope cannot be
used — neither called (`prepare_return`) nor taken as a value (`Ident`) -/
theorem useCand_blocked (ps : List Scope) (cur : Scope) (c : Cand) (r m : FwdReq) (ms : List FwdReq)
    (hr : r ∈ c.2.2) (hms : unfulfilledBehind (cur :: ps) r = .ok ms) (hm : m ∈ ms)
    (hh : m.height = cur.height) : ∀ out, useCand ps cur c ≠ .ok out := by
  intro out hout
  simp only [useCand] at hout
  split at hout
  · cases hout
  · rename_i cur' hreq
    exact (requireForwards_gate ps cur cur' _ hreq r hr ms hms m hm).1 hh

/-- and when it is used from a deeper scope, that scope inherits every unfulfilled requirement -/
theorem useCand_inherits (ps : List Scope) (cur cur' : Scope) (c : Cand) (e : XE) (r m : FwdReq) (ms : List FwdReq)
    (h : useCand ps cur c = .ok (e, cur'))
    (hr : r ∈ c.2.2) (hms : unfulfilledBehind (cur :: ps) r = .ok ms) (hm : m ∈ ms) :
    m ∈ cur'.fwdReqs := by
  simp only [useCand] at h
  split at h
  · cases h
  · rename_i cur1 hreq
    have := (requireForwards_gate ps cur cur1 _ hreq r hr ms hms m hm).2
    split at h
    · simp only [Except.ok.injEq, Prod.mk.injEq] at h; rw [← h.2]; exact this
    · simp only [Except.ok.injEq, Prod.mk.injEq] at h; rw [← h.2]; simpa [Scope.push] using this

/-! ### a use of a name reads the declaration `getItem` found -/

/-- every scope of a chain is one level above its parent (`height: parent.height + 1`) -/
def Heights : List Scope → Prop
  | [] => True
  | [_] => True
  | s :: p :: rest => s.height = p.height + 1 ∧ Heights (p :: rest)

theorem heights_prefix (pre : List Scope) (s : Scope) (post : List Scope) (c : Scope) (rest : List Scope)
    (hc : c :: rest = pre ++ s :: post) (H : Heights (c :: rest)) : c.height = s.height + pre.length := by
  induction pre generalizing c rest with
  | nil => simp only [List.nil_append, List.cons.injEq] at hc; simp [hc.1]
  | cons p pre' ih =>
    simp only [List.cons_append, List.cons.injEq] at hc
    obtain ⟨rfl, hrest⟩ := hc
    cases rest with
    | nil => cases pre' <;> simp at hrest
    | cons c2 rest2 =>
      simp only [Heights] at H
      have := ih c2 rest2 hrest H.2
      simp only [List.length_cons]
      omega

def cellsOf (chain : List Scope) : List (List Cell) := chain.map (·.cells)

theorem useCand_reads (ps : List Scope) (cur cur' : Scope) (c : Cand) (e : XE)
    (pre : List Scope) (s : Scope) (post : List Scope)
    (hchain : cur :: ps = pre ++ s :: post) (hH : Heights (cur :: ps))
    (hc1 : c.1 = s.height) (hcell : s.cells[c.2.1]? = some .var ∨ s.cells[c.2.1]? = some .recur)
    (h : useCand ps cur c = .ok (e, cur')) :
    ∃ i, e = .val i ∧ R (cur'.cells :: cellsOf ps) i = some (pre.length, c.2.1) ∧
      ∃ extra, cur'.cells = cur.cells ++ extra := by
  have hheight := heights_prefix pre s post cur ps hchain hH
  simp only [useCand] at h
  split at h
  · cases h
  · rename_i cur1 hreq
    obtain ⟨hcells, hhe, -⟩ := requireForwards_frame _ _ _ _ hreq
    split at h
    · rename_i hsame
      simp only [Except.ok.injEq, Prod.mk.injEq] at h
      obtain ⟨rfl, rfl⟩ := h
      have hp : pre = [] := by
        cases pre with
        | nil => rfl
        | cons _ _ => simp only [List.length_cons] at hheight; omega
      subst hp
      simp only [List.nil_append, List.cons.injEq] at hchain
      obtain ⟨rfl, -⟩ := hchain
      refine ⟨c.2.1, rfl, ?_, [], by simp [hcells]⟩
      rw [R_cons, hcells]
      rcases hcell with hc | hc <;> simp [hc]
    · rename_i hdiff
      simp only [Except.ok.injEq, Prod.mk.injEq] at h
      obtain ⟨rfl, rfl⟩ := h
      cases pre with
      | nil =>
        simp only [List.nil_append, List.cons.injEq] at hchain
        obtain ⟨rfl, -⟩ := hchain
        omega
      | cons p pre' =>
        simp only [List.cons_append, List.cons.injEq] at hchain
        obtain ⟨rfl, rfl⟩ := hchain
        refine ⟨cur1.cells.length, rfl, ?_, [.cap (cur1.height - c.1) c.2.1], by simp [Scope.push, hcells]⟩
        rw [R_cons]
        simp only [Scope.push, List.getElem?_concat_length]
        simp only [List.length_cons] at hheight
        have hd : cur1.height - c.1 = pre'.length + 1 := by omega
        rw [hd]
        simp only [Nat.add_one_ne_zero, if_false, Nat.add_sub_cancel]
        have hdrop : List.drop pre'.length (cellsOf (pre' ++ s :: post)) = s.cells :: cellsOf post := by
          simp [cellsOf]
        rw [hdrop, R_cons]
        rcases hcell with hc | hc <;> simp [hc]

/-! ### cells are only appended; names and cells -/

/-- `b` is `a` after more compilation: same level, the cells of `a` still in place -/
def Ext (a b : Scope) : Prop := (∃ extra, b.cells = a.cells ++ extra) ∧ b.height = a.height

theorem Ext.refl (a : Scope) : Ext a a := ⟨⟨[], by simp⟩, rfl⟩

theorem Ext.trans {a b c : Scope} (h1 : Ext a b) (h2 : Ext b c) : Ext a c := by
  obtain ⟨⟨e1, h1⟩, g1⟩ := h1
  obtain ⟨⟨e2, h2⟩, g2⟩ := h2
  exact ⟨⟨e1 ++ e2, by rw [h2, h1, List.append_assoc]⟩, by rw [g2, g1]⟩

/-- more compilation never changes what an existing cell reads -/
theorem Ext.reads {a b : Scope} (h : Ext a b) (rest : List (List Cell)) (i : Nat) (hi : i < a.cells.length) :
    R (b.cells :: rest) i = R (a.cells :: rest) i := by
  obtain ⟨⟨e, he⟩, -⟩ := h
  rw [he, R_append_head _ _ _ _ hi]

theorem addVariable_ext {cur cur' : Scope} {x : String} {e : XE} (h : addVariable cur x e = .ok cur') : Ext cur cur' := by
  simp only [addVariable] at h
  split at h
  · cases h
  · cases h; exact ⟨⟨[.var], rfl⟩, rfl⟩

theorem addParameter_ext {cur cur' : Scope} {x : String} {i : Nat} (h : addParameter cur x i = .ok cur') : Ext cur cur' := by
  simp only [addParameter] at h
  split at h
  · cases h
  · cases h; exact ⟨⟨[.var], rfl⟩, rfl⟩

theorem addRecourse_ext {cur cur' : Scope} {x : String} (h : addRecourse cur x = .ok cur') : Ext cur cur' := by
  simp only [addRecourse] at h
  split at h
  · cases h
  · cases h; exact ⟨⟨[.recur], rfl⟩, rfl⟩

theorem addStaticFunc_ext {cur cur' : Scope} {x : String} {f : CFunc} (h : addStaticFunc cur x f = .ok cur') : Ext cur cur' := by
  simp only [addStaticFunc] at h
  split at h
  · cases h
  · split at h
    · cases h; exact ⟨⟨[], by simp⟩, rfl⟩
    · cases h; exact ⟨⟨[.var], rfl⟩, rfl⟩

theorem addForwardFunc_ext {cur cur' : Scope} {x : String} (h : addForwardFunc cur x = .ok cur') : Ext cur cur' := by
  simp only [addForwardFunc] at h
  split at h
  · cases h
  · cases h; exact ⟨⟨[.var], rfl⟩, rfl⟩

theorem addAnonymousFunc_ext (cur : Scope) (f : CFunc) : Ext cur (addAnonymousFunc cur f).2 :=
  ⟨⟨[.var], rfl⟩, rfl⟩

theorem requireForwards_ext {ps : List Scope} {cur cur' : Scope} {rs : List FwdReq}
    (h : requireForwards ps cur rs = .ok cur') : Ext cur cur' := by
  obtain ⟨h1, h2, -⟩ := requireForwards_frame _ _ _ _ h
  exact ⟨⟨[], by simp [h1]⟩, h2⟩

theorem useCand_ext {ps : List Scope} {cur cur' : Scope} {c : Cand} {e : XE}
    (h : useCand ps cur c = .ok (e, cur')) : Ext cur cur' := by
  simp only [useCand] at h
  split at h
  · cases h
  · rename_i cur1 hreq
    have h1 := requireForwards_ext hreq
    split at h
    · simp only [Except.ok.injEq, Prod.mk.injEq] at h; rw [← h.2]; exact h1
    · simp only [Except.ok.injEq, Prod.mk.injEq] at h; rw [← h.2]
      exact h1.trans ⟨⟨[_], rfl⟩, rfl⟩

theorem compileIdent_ext {ps : List Scope} {cur cur' : Scope} {x : String} {e : XE}
    (h : compileIdent ps cur x = .ok (e, cur')) : Ext cur cur' := by
  simp only [compileIdent] at h
  split at h
  · cases h
  · cases h
  · exact useCand_ext h
  · exact useCand_ext h
  · cases h

/-- names and cells of one scope: every name's cell exists, distinct names have distinct cells -/
structure NameInv (s : Scope) : Prop where
  varLt : ∀ x k, lookup x s.vars = some k → k < s.cells.length
  funLt : ∀ x k, k ∈ overloadCells x s.funcs → k < s.cells.length
  varInj : ∀ x y k, lookup x s.vars = some k → lookup y s.vars = some k → x = y
  varFun : ∀ x y k, lookup x s.vars = some k → k ∈ overloadCells y s.funcs → False
  funInj : ∀ x y k, k ∈ overloadCells x s.funcs → k ∈ overloadCells y s.funcs → x = y

theorem overloadCells_append (x : String) (a b : List (String × Nat)) :
    overloadCells x (a ++ b) = overloadCells x a ++ overloadCells x b := by
  induction a with
  | nil => rfl
  | cons p rest ih =>
    obtain ⟨y, k⟩ := p
    simp only [List.cons_append, overloadCells]
    split <;> simp [ih]

theorem NameInv.empty (h : Nat) : NameInv { height := h } :=
  ⟨by simp [lookup], by simp [overloadCells], by simp [lookup], by simp [lookup], by simp [overloadCells]⟩

/-- a new variable or parameter: a fresh cell -/
theorem NameInv.consVar {s : Scope} (inv : NameInv s) (x : String) (c : Cell) (d : List CDecl) :
    NameInv { s with cells := s.cells ++ [c], vars := (x, s.cells.length) :: s.vars, decls := d } := by
  constructor
  · intro y k h
    simp only [lookup] at h
    simp only [List.length_append, List.length_cons, List.length_nil]
    split at h
    · cases h; omega
    · have := inv.varLt y k h; omega
  · intro y k h
    have := inv.funLt y k h
    simp only [List.length_append, List.length_cons, List.length_nil]; omega
  · intro y z k hy hz
    simp only [lookup] at hy hz
    split at hy <;> split at hz
    · simp_all
    · cases hy; have := inv.varLt z _ hz; omega
    · cases hz; have := inv.varLt y _ hy; omega
    · exact inv.varInj y z k hy hz
  · intro y z k hy hz
    simp only [lookup] at hy
    split at hy
    · cases hy; have := inv.funLt z _ hz; omega
    · exact inv.varFun y z k hy hz
  · exact inv.funInj

/-- a new function name (recursion cell, static function, forward declaration): a fresh cell -/
theorem NameInv.snocFun {s : Scope} (inv : NameInv s) (x : String) (c : Cell) (t : Scope)
    (hc : t.cells = s.cells ++ [c]) (hv : t.vars = s.vars) (hf : t.funcs = s.funcs ++ [(x, s.cells.length)]) :
    NameInv t := by
  have hmem : ∀ y k, k ∈ overloadCells y t.funcs → k ∈ overloadCells y s.funcs ∨ (y = x ∧ k = s.cells.length) := by
    intro y k h
    rw [hf, overloadCells_append] at h
    simp only [List.mem_append] at h
    rcases h with h | h
    · exact Or.inl h
    · simp only [overloadCells] at h
      split at h
      · simp only [List.mem_cons, List.not_mem_nil, or_false] at h; exact Or.inr ⟨‹_›, h⟩
      · simp at h
  constructor
  · intro y k h
    rw [hv] at h
    have := inv.varLt y k h
    rw [hc]; simp only [List.length_append, List.length_cons, List.length_nil]; omega
  · intro y k h
    rw [hc]; simp only [List.length_append, List.length_cons, List.length_nil]
    rcases hmem y k h with h | ⟨-, rfl⟩
    · have := inv.funLt y k h; omega
    · omega
  · intro y z k hy hz
    rw [hv] at hy hz
    exact inv.varInj y z k hy hz
  · intro y z k hy hz
    rw [hv] at hy
    rcases hmem z k hz with h | ⟨-, rfl⟩
    · exact inv.varFun y z k hy h
    · have := inv.varLt y _ hy; omega
  · intro y z k hy hz
    rcases hmem y k hy with h1 | ⟨e1, e1'⟩ <;> rcases hmem z k hz with h2 | ⟨e2, e2'⟩
    · exact inv.funInj y z k h1 h2
    · have := inv.funLt y _ h1; omega
    · have := inv.funLt z _ h2; omega
    · rw [e1, e2]

/-- cells appended, names untouched (captures, anonymous functions, a child's capture requests) -/
theorem NameInv.moreCells {s t : Scope} (inv : NameInv s) (extra : List Cell)
    (hc : t.cells = s.cells ++ extra) (hv : t.vars = s.vars) (hf : t.funcs = s.funcs) : NameInv t := by
  constructor
  · intro y k h; rw [hv] at h; have := inv.varLt y k h; rw [hc]; simp only [List.length_append]; omega
  · intro y k h; rw [hf] at h; have := inv.funLt y k h; rw [hc]; simp only [List.length_append]; omega
  · intro y z k hy hz; rw [hv] at hy hz; exact inv.varInj y z k hy hz
  · intro y z k hy hz; rw [hv] at hy; rw [hf] at hz; exact inv.varFun y z k hy hz
  · intro y z k hy hz; rw [hf] at hy hz; exact inv.funInj y z k hy hz

theorem addVariable_inv {cur cur' : Scope} {x : String} {e : XE} (inv : NameInv cur)
    (h : addVariable cur x e = .ok cur') : NameInv cur' := by
  simp only [addVariable] at h
  split at h
  · cases h
  · cases h; exact inv.consVar x .var _

theorem addParameter_inv {cur cur' : Scope} {x : String} {i : Nat} (inv : NameInv cur)
    (h : addParameter cur x i = .ok cur') : NameInv cur' := by
  simp only [addParameter] at h
  split at h
  · cases h
  · cases h; exact inv.consVar x .var _

theorem addRecourse_inv {cur cur' : Scope} {x : String} (inv : NameInv cur)
    (h : addRecourse cur x = .ok cur') : NameInv cur' := by
  simp only [addRecourse] at h
  split at h
  · cases h
  · cases h; exact inv.snocFun x .recur _ rfl rfl rfl

theorem addForwardFunc_inv {cur cur' : Scope} {x : String} (inv : NameInv cur)
    (h : addForwardFunc cur x = .ok cur') : NameInv cur' := by
  simp only [addForwardFunc] at h
  split at h
  · cases h
  · cases h; exact inv.snocFun x .var _ rfl rfl rfl

theorem addStaticFunc_inv {cur cur' : Scope} {x : String} {f : CFunc} (inv : NameInv cur)
    (h : addStaticFunc cur x f = .ok cur') : NameInv cur' := by
  simp only [addStaticFunc] at h
  split at h
  · cases h
  · split at h
    · cases h; exact inv.moreCells [] (by simp) rfl rfl
    · cases h; exact inv.snocFun x .var _ rfl rfl rfl

theorem addParams_inv {s s' : Scope} (inv : NameInv s) (names : List String) (i : Nat)
    (h : addParams s names i = .ok s') : NameInv s' := by
  induction names generalizing s i with
  | nil => simp only [addParams, Except.ok.injEq] at h; subst h; exact inv
  | cons x rest ih =>
    simp only [addParams] at h
    split at h
    · cases h
    · rename_i s1 h1
      exact ih (addParameter_inv inv h1) _ h

/-- a fresh function scope (`from_parent`) satisfies the invariant -/
theorem fromParent_inv {parent s : Scope} {names : List String} {r : String}
    (h : fromParent parent names r = .ok s) : NameInv s := by
  simp only [fromParent, fromParentLambda] at h
  split at h
  · cases h
  · rename_i s1 h1
    exact addRecourse_inv (addParams_inv (NameInv.empty _) names 0 h1) h

theorem fromParentLambda_inv {parent s : Scope} {names : List String}
    (h : fromParentLambda parent names = .ok s) : NameInv s :=
  addParams_inv (NameInv.empty _) names 0 h

theorem lookup_addVariable {cur cur' : Scope} {x : String} {e : XE} (h : addVariable cur x e = .ok cur') (y : String) :
    lookup y cur'.vars = if y = x then some cur.cells.length else lookup y cur.vars := by
  simp only [addVariable] at h
  split at h
  · cases h
  · cases h; simp [lookup]

/-! ### the whole compiler only appends -/

/-- the whole compiler only ever appends cells to the scope it works in -/
theorem compile_ext : ∀ fuel : Nat,
    (∀ ps cur e r, parseExpr fuel ps cur e = .ok r → Ext cur r.2) ∧
    (∀ ps cur es r, parseList fuel ps cur es = .ok r → Ext cur r.2) ∧
    (∀ ps cur params r, parseDefaults fuel ps cur params = .ok r → Ext cur r.2) ∧
    (∀ ps cur e r, compileExpr fuel ps cur e = .ok r → Ext cur r.2) ∧
    (∀ ps cur es r, compileList fuel ps cur es = .ok r → Ext cur r.2) ∧
    (∀ ps cur rn f r, closeFunc fuel ps cur rn f = .ok r → Ext cur r.2) ∧
    (∀ ps cur ds r, feedDecls fuel ps cur ds = .ok r → Ext cur r) := by
  intro fuel
  induction fuel with
  | zero =>
    refine ⟨?_, ?_, ?_, ?_, ?_, ?_, ?_⟩ <;> intro ps cur a
    · intro r h; simp [parseExpr] at h
    · intro r h; simp [parseList] at h
    · intro r h; simp [parseDefaults] at h
    · intro r h; simp [compileExpr] at h
    · intro r h; simp [compileList] at h
    · intro f r h; simp [closeFunc] at h
    · intro r h; simp [feedDecls] at h
  | succ n ih =>
    obtain ⟨i1, i2, i3, i4, i5, i6, i7⟩ := ih
    have j1 : ∀ {ps cur e a b}, parseExpr n ps cur e = .ok (a, b) → Ext cur b := fun h => i1 _ _ _ _ h
    have j2 : ∀ {ps cur e a b}, parseList n ps cur e = .ok (a, b) → Ext cur b := fun h => i2 _ _ _ _ h
    have j3 : ∀ {ps cur e a b}, parseDefaults n ps cur e = .ok (a, b) → Ext cur b := fun h => i3 _ _ _ _ h
    have j4 : ∀ {ps cur e a b}, compileExpr n ps cur e = .ok (a, b) → Ext cur b := fun h => i4 _ _ _ _ h
    have j5 : ∀ {ps cur e a b}, compileList n ps cur e = .ok (a, b) → Ext cur b := fun h => i5 _ _ _ _ h
    have j6 : ∀ {ps cur rn f a b}, closeFunc n ps cur rn f = .ok (a, b) → Ext cur b := fun h => i6 _ _ _ _ _ h
    refine ⟨?_, ?_, ?_, ?_, ?_, ?_, ?_⟩
    · intro ps cur e r h
      cases e with
      | lit v => simp only [parseExpr] at h; cases h; exact Ext.refl _
      | ident x => simp only [parseExpr] at h; cases h; exact Ext.refl _
      | call f args =>
        simp only [parseExpr] at h
        split at h
        · cases h
        · rename_i h1
          split at h
          · cases h
          · rename_i h2
            cases h
            exact (j1 h1).trans (j2 h2)
      | tup es =>
        simp only [parseExpr] at h
        split at h
        · cases h
        · rename_i h1; cases h; exact j2 h1
      | arr es =>
        simp only [parseExpr] at h
        split at h
        · cases h
        · rename_i h1; cases h; exact j2 h1
      | member e i =>
        simp only [parseExpr] at h
        split at h
        · cases h
        · rename_i h1; cases h; exact j1 h1
      | lam f =>
        simp only [parseExpr] at h
        split at h
        · cases h
        · rename_i h1; cases h; exact j6 h1
    · intro ps cur es r h
      cases es with
      | nil => simp only [parseList] at h; cases h; exact Ext.refl _
      | cons e rest =>
        simp only [parseList] at h
        split at h
        · cases h
        · rename_i h1
          split at h
          · cases h
          · rename_i h2; cases h; exact (j1 h1).trans (j2 h2)
    · intro ps cur params r h
      cases params with
      | nil => simp only [parseDefaults] at h; cases h; exact Ext.refl _
      | cons p rest =>
        obtain ⟨pn, pd⟩ := p
        cases pd with
        | none => simp only [parseDefaults] at h; exact j3 h
        | some d =>
          simp only [parseDefaults] at h
          split at h
          · cases h
          · rename_i h1
            split at h
            · cases h
            · rename_i h2; cases h; exact (j1 h1).trans (j3 h2)
    · intro ps cur e r h
      cases e with
      | lit v => simp only [compileExpr] at h; cases h; exact Ext.refl _
      | val i => simp only [compileExpr] at h; cases h
      | bcall nm args => simp only [compileExpr] at h; cases h
      | ident x => simp only [compileExpr] at h; obtain ⟨e', c'⟩ := r; exact compileIdent_ext h
      | lamF f =>
        simp only [compileExpr] at h
        split at h
        · cases h
        · rename_i h1; cases h; exact (requireForwards_ext h1).trans (addAnonymousFunc_ext _ _)
      | tup es =>
        simp only [compileExpr] at h
        split at h
        · cases h
        · rename_i h1; cases h; exact j5 h1
      | arr es =>
        simp only [compileExpr] at h
        split at h
        · cases h
        · rename_i h1; cases h; exact j5 h1
      | member e i =>
        simp only [compileExpr] at h
        split at h
        · cases h
        · rename_i h1; cases h; exact j4 h1
      | call f args =>
        simp only [compileExpr] at h
        split at h
        · cases h
        · rename_i args' cur1 h1
          have e1 := j5 h1
          have general : ∀ r, (match compileExpr n ps cur1 f with
              | .error e => Except.error e
              | .ok (f', cur2) => Except.ok (XE.call f' args', cur2)) = Except.ok r → Ext cur r.2 := by
            intro r hg
            split at hg
            · cases hg
            · rename_i h2; cases hg; exact e1.trans (j4 h2)
          split at h
          · split at h
            · cases h
            · cases h; exact e1
            · split at h
              · cases h
              · rename_i h2; cases h; exact e1.trans (useCand_ext h2)
            · cases h
            · exact general _ h
          · exact general _ h
    · intro ps cur es r h
      cases es with
      | nil => simp only [compileList] at h; cases h; exact Ext.refl _
      | cons e rest =>
        simp only [compileList] at h
        split at h
        · cases h
        · rename_i h1
          split at h
          · cases h
          · rename_i h2; cases h; exact (j4 h1).trans (j5 h2)
    · intro ps cur rn f r h
      obtain ⟨params, decls, out⟩ := f
      simp only [closeFunc] at h
      split at h
      · cases h
      · rename_i h1
        split at h
        · cases h
        · rename_i h2
          split at h
          · cases h
          · split at h
            · cases h
            · split at h
              · cases h
              · split at h
                · cases h
                · cases h
                  exact ((j3 h1).trans (j5 h2)).trans ⟨⟨_, rfl⟩, rfl⟩
    · intro ps cur ds r h
      cases ds with
      | nil => simp only [feedDecls] at h; cases h; exact Ext.refl _
      | cons d rest =>
        cases d with
        | letD x e =>
          simp only [feedDecls] at h
          split at h
          · cases h
          · rename_i h1
            split at h
            · cases h
            · rename_i h2
              split at h
              · cases h
              · rename_i h3
                exact (((j1 h1).trans (j4 h2)).trans (addVariable_ext h3)).trans (i7 _ _ _ _ h)
        | fnD name f =>
          simp only [feedDecls] at h
          split at h
          · cases h
          · rename_i h1
            split at h
            · cases h
            · rename_i h2
              exact ((j6 h1).trans (addStaticFunc_ext h2)).trans (i7 _ _ _ _ h)
        | fwdD name =>
          simp only [feedDecls] at h
          split at h
          · cases h
          · rename_i h1
            exact (addForwardFunc_ext h1).trans (i7 _ _ _ _ h)

/-! ### the host-side gate -/

theorem namesOf_nil (root : Scope) (ms : List FwdReq) (h : namesOf root ms = some []) : ms = [] := by
  cases ms with
  | nil => rfl
  | cons m rest =>
    simp only [namesOf] at h
    split at h
    · cases h
    · cases hn : namesOf root rest <;> simp [hn] at h

theorem unmetNames_nil (root : Scope) (rs : List FwdReq) (h : unmetNames root rs = some []) :
    ∀ r ∈ rs, unfulfilledBehind [root] r = .ok [] := by
  induction rs with
  | nil => simp
  | cons r0 rest ih =>
    intro r hr
    simp only [unmetNames] at h
    split at h
    · cases h
    · rename_i ms hms
      split at h
      · rename_i a b ha hb
        simp only [Option.some.injEq, List.append_eq_nil_iff] at h
        obtain ⟨rfl, rfl⟩ := h
        simp only [List.mem_cons] at hr
        rcases hr with rfl | hr
        · rw [hms, namesOf_nil root ms ha]
        · exact ih hb r hr
      · cases h

/-- the host-side gate: `get_user_defined_function` hands out a function only if nothing unfulfilled stands behind
any of its requirements -/
theorem hostGet_ok (root : Scope) (x : String) (k : Nat) (h : hostGet root x = .ok k) :
    ∀ r ∈ root.cellReqs k, unfulfilledBehind [root] r = .ok [] := by
  simp only [hostGet] at h
  split at h
  · cases h
  · rename_i k0 _
    split at h
    · cases h
    · rename_i hu
      cases h
      exact unmetNames_nil root _ hu
    · cases h
  · cases h

/-- the error a compilation ended with, if any (for closed examples) -/
def errOf (r : Except Err Scope) : Option Err := match r with | .error e => some e | .ok _ => none

end XrayModel.Scope
