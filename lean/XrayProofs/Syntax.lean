/- Helper lemmas for C02 (syntax): the precedence climber of XrayModel/Syntax.lean. -/
import XrayModel.Syntax
namespace XrayModel.Syntax
open Generated.Ops

section
variable {α : Type}

def inorder : Tree α → List (Item α)
  | .leaf a => [.prim a]
  | .node r l rt => inorder l ++ .op r :: inorder rt

def leftmost : Tree α → α
  | .leaf a => a
  | .node _ l _ => leftmost l

/-- the in-order listing without its first primary -/
def tailOf : Tree α → List (Item α)
  | .leaf _ => []
  | .node r l rt => tailOf l ++ .op r :: inorder rt

theorem inorder_eq (t : Tree α) : inorder t = .prim (leftmost t) :: tailOf t := by
  induction t with
  | leaf a => rfl
  | node r l rt ihl _ => simp [inorder, leftmost, tailOf, ihl]

def rootRule : Tree α → Option String
  | .leaf _ => none
  | .node r _ _ => some r

def headOp : List (Item α) → Option String
  | .op r :: _ => some r
  | _ => none

variable (info : String → Option (Nat × Assoc))

/-- the tree obeys the table: at every node, the left operand's root does not take the node's operator into its own
    right operand, and the right operand's root is an operator the node's inner loop takes -/
def Shaped : Tree α → Prop
  | .leaf _ => True
  | .node r l rt => ∃ p a, info r = some (p, a) ∧ Shaped l ∧ Shaped rt ∧
      (∀ s q b, rootRule l = some s → info s = some (q, b) → absorbs q p a = false) ∧
      (∀ s, rootRule rt = some s → ∃ q b, info s = some (q, b) ∧ absorbs p q b = true)

/-- well-formed pair list after the first primary: (known operator, primary)* -/
inductive Alt : List (Item α) → Prop
  | nil : Alt []
  | cons (r : String) (a : α) (ts : List (Item α)) : (info r).isSome → Alt ts → Alt (.op r :: .prim a :: ts)

/-! ### equations of the two loops -/

theorem climbRec_nil (f : Nat) (lhs : Tree α) (m : Nat) : climbRec info (f + 1) lhs m [] = some (lhs, []) := by
  simp [climbRec]

theorem climbRec_prim (f : Nat) (lhs : Tree α) (m : Nat) (a : α) (ts) :
    climbRec info (f + 1) lhs m (.prim a :: ts) = some (lhs, .prim a :: ts) := by
  simp [climbRec]

theorem climbRec_unknown (f : Nat) (lhs : Tree α) (m : Nat) (r : String) (ts) (h : info r = none) :
    climbRec info (f + 1) lhs m (.op r :: ts) = some (lhs, .op r :: ts) := by
  simp [climbRec, h]

theorem climbRec_lt (f : Nat) (lhs : Tree α) (m : Nat) (r : String) (ts) (p a) (h : info r = some (p, a)) (hlt : p < m) :
    climbRec info (f + 1) lhs m (.op r :: ts) = some (lhs, .op r :: ts) := by
  simp [climbRec, h]; omega

theorem climbRec_ge (f : Nat) (lhs : Tree α) (m : Nat) (r : String) (c : α) (ts) (p a) (h : info r = some (p, a)) (hge : p ≥ m) :
    climbRec info (f + 1) lhs m (.op r :: .prim c :: ts) =
      (climbInner info f (.leaf c) p ts).bind (fun x => climbRec info f (.node r lhs x.1) m x.2) := by
  simp only [climbRec, h, hge, ↓reduceIte]
  cases climbInner info f (.leaf c) p ts <;> rfl

theorem climbInner_nil (f : Nat) (rhs : Tree α) (p : Nat) : climbInner info (f + 1) rhs p [] = some (rhs, []) := by
  simp [climbInner]

theorem climbInner_prim (f : Nat) (rhs : Tree α) (p : Nat) (a : α) (ts) :
    climbInner info (f + 1) rhs p (.prim a :: ts) = some (rhs, .prim a :: ts) := by
  simp [climbInner]

theorem climbInner_unknown (f : Nat) (rhs : Tree α) (p : Nat) (r : String) (ts) (h : info r = none) :
    climbInner info (f + 1) rhs p (.op r :: ts) = some (rhs, .op r :: ts) := by
  simp [climbInner, h]

theorem climbInner_stop (f : Nat) (rhs : Tree α) (p : Nat) (r : String) (ts) (q b) (h : info r = some (q, b))
    (hn : absorbs p q b = false) :
    climbInner info (f + 1) rhs p (.op r :: ts) = some (rhs, .op r :: ts) := by
  simp [climbInner, h, hn]

theorem climbInner_go (f : Nat) (rhs : Tree α) (p : Nat) (r : String) (ts) (q b) (h : info r = some (q, b))
    (ha : absorbs p q b = true) :
    climbInner info (f + 1) rhs p (.op r :: ts) =
      (climbRec info f rhs q (.op r :: ts)).bind (fun x => climbInner info f x.1 p x.2) := by
  simp only [climbInner, h, ha, ↓reduceIte]
  cases climbRec info f rhs q (.op r :: ts) <;> rfl


theorem climbRec_zero (lhs : Tree α) (m : Nat) (ts) : climbRec info 0 lhs m ts = none := by
  simp [climbRec]

theorem climbInner_zero (rhs : Tree α) (p : Nat) (ts) : climbInner info 0 rhs p ts = none := by
  simp [climbInner]

theorem climbRec_ge_nil (f : Nat) (lhs : Tree α) (m : Nat) (r : String) (p a) (h : info r = some (p, a)) (hge : p ≥ m) :
    climbRec info (f + 1) lhs m [.op r] = none := by
  simp [climbRec, h, hge]

theorem climbRec_ge_op (f : Nat) (lhs : Tree α) (m : Nat) (r r' : String) (ts) (p a) (h : info r = some (p, a)) (hge : p ≥ m) :
    climbRec info (f + 1) lhs m (.op r :: .op r' :: ts) = none := by
  simp [climbRec, h, hge]

/-! ### more fuel never changes an answer -/

theorem climb_mono_step : ∀ f : Nat,
    (∀ (lhs : Tree α) m ts x, climbRec info f lhs m ts = some x → climbRec info (f + 1) lhs m ts = some x) ∧
    (∀ (rhs : Tree α) p ts x, climbInner info f rhs p ts = some x → climbInner info (f + 1) rhs p ts = some x) := by
  intro f
  induction f with
  | zero => exact ⟨fun _ _ _ _ h => by simp [climbRec_zero] at h, fun _ _ _ _ h => by simp [climbInner_zero] at h⟩
  | succ f ih =>
    refine ⟨?_, ?_⟩
    · intro lhs m ts x h
      match ts with
      | [] => rw [climbRec_nil] at h ⊢; exact h
      | .prim a :: ts => rw [climbRec_prim] at h ⊢; exact h
      | .op r :: rest =>
        cases hi : info r with
        | none => rw [climbRec_unknown info _ _ _ _ _ hi] at h ⊢; exact h
        | some pa =>
          obtain ⟨p, a⟩ := pa
          by_cases hge : p ≥ m
          · match rest with
            | [] => rw [climbRec_ge_nil info _ _ _ _ _ _ hi hge] at h; cases h
            | .op r' :: ts => rw [climbRec_ge_op info _ _ _ _ _ _ _ _ hi hge] at h; cases h
            | .prim c :: ts =>
              rw [climbRec_ge info _ _ _ _ _ _ _ _ hi hge] at h ⊢
              obtain ⟨y, hy, hy2⟩ := Option.bind_eq_some_iff.mp h
              rw [ih.2 _ _ _ _ hy]
              exact ih.1 _ _ _ _ hy2
          · have hlt : p < m := by omega
            rw [climbRec_lt info _ _ _ _ _ _ _ hi hlt] at h ⊢; exact h
    · intro rhs p ts x h
      match ts with
      | [] => rw [climbInner_nil] at h ⊢; exact h
      | .prim a :: ts => rw [climbInner_prim] at h ⊢; exact h
      | .op r :: rest =>
        cases hi : info r with
        | none => rw [climbInner_unknown info _ _ _ _ _ hi] at h ⊢; exact h
        | some qb =>
          obtain ⟨q, b⟩ := qb
          cases ha : absorbs p q b with
          | false => rw [climbInner_stop info _ _ _ _ _ _ _ hi ha] at h ⊢; exact h
          | true =>
            rw [climbInner_go info _ _ _ _ _ _ _ hi ha] at h ⊢
            obtain ⟨y, hy, hy2⟩ := Option.bind_eq_some_iff.mp h
            rw [ih.1 _ _ _ _ hy]
            exact ih.2 _ _ _ _ hy2

theorem climbRec_mono {f f' : Nat} (hle : f ≤ f') {lhs : Tree α} {m ts x} (h : climbRec info f lhs m ts = some x) :
    climbRec info f' lhs m ts = some x := by
  induction hle with
  | refl => exact h
  | step _ ih => exact (climb_mono_step info _).1 _ _ _ _ ih

theorem climbInner_mono {f f' : Nat} (hle : f ≤ f') {rhs : Tree α} {p ts x} (h : climbInner info f rhs p ts = some x) :
    climbInner info f' rhs p ts = some x := by
  induction hle with
  | refl => exact h
  | step _ ih => exact (climb_mono_step info _).2 _ _ _ _ ih

end
end XrayModel.Syntax
