/- Helper lemmas for C02 (syntax): the precedence climber of XrayModel/Syntax.lean. -/
import XrayModel.Syntax
import XrayProofs.CoreErrors
namespace XrayModel.Syntax
open Generated.Ops

deriving instance DecidableEq for Item
deriving instance DecidableEq for Tree

section
variable {α : Type}

def inorder : Tree α → List (Item α)
  | .leaf a => [.prim a]
  | .node r l rt => inorder l ++ .op r :: inorder rt

def leftmost : Tree α → α
  | .leaf a => a
  | .node _ l _ => leftmost l

/-- the in-order listing without its first primary -/
def tailOf : Tree α → List (Item α)
  | .leaf _ => []
  | .node r l rt => tailOf l ++ .op r :: inorder rt

theorem inorder_eq (t : Tree α) : inorder t = .prim (leftmost t) :: tailOf t := by
  induction t with
  | leaf a => rfl
  | node r l rt ihl _ => simp [inorder, leftmost, tailOf, ihl]

def rootRule : Tree α → Option String
  | .leaf _ => none
  | .node r _ _ => some r

def headOp : List (Item α) → Option String
  | .op r :: _ => some r
  | _ => none

variable (info : String → Option (Nat × Assoc))

/-- the tree obeys the table: at every node, the left operand's root does not take the node's operator into its own
    right operand, and the right operand's root is an operator the node's inner loop takes -/
def Shaped : Tree α → Prop
  | .leaf _ => True
  | .node r l rt => ∃ p a, info r = some (p, a) ∧ Shaped l ∧ Shaped rt ∧
      (∀ s q b, rootRule l = some s → info s = some (q, b) → absorbs q p a = false) ∧
      (∀ s, rootRule rt = some s → ∃ q b, info s = some (q, b) ∧ absorbs p q b = true)

/-- well-formed pair list after the first primary: (known operator, primary)* -/
inductive Alt : List (Item α) → Prop
  | nil : Alt []
  | cons (r : String) (a : α) (ts : List (Item α)) : (info r).isSome → Alt ts → Alt (.op r :: .prim a :: ts)

/-! ### equations of the two loops -/

theorem climbRec_nil (f : Nat) (lhs : Tree α) (m : Nat) : climbRec info (f + 1) lhs m [] = some (lhs, []) := by
  simp [climbRec]

theorem climbRec_prim (f : Nat) (lhs : Tree α) (m : Nat) (a : α) (ts) :
    climbRec info (f + 1) lhs m (.prim a :: ts) = some (lhs, .prim a :: ts) := by
  simp [climbRec]

theorem climbRec_unknown (f : Nat) (lhs : Tree α) (m : Nat) (r : String) (ts) (h : info r = none) :
    climbRec info (f + 1) lhs m (.op r :: ts) = some (lhs, .op r :: ts) := by
  simp [climbRec, h]

theorem climbRec_lt (f : Nat) (lhs : Tree α) (m : Nat) (r : String) (ts) (p a) (h : info r = some (p, a)) (hlt : p < m) :
    climbRec info (f + 1) lhs m (.op r :: ts) = some (lhs, .op r :: ts) := by
  simp [climbRec, h]; omega

theorem climbRec_ge (f : Nat) (lhs : Tree α) (m : Nat) (r : String) (c : α) (ts) (p a) (h : info r = some (p, a)) (hge : p ≥ m) :
    climbRec info (f + 1) lhs m (.op r :: .prim c :: ts) =
      (climbInner info f (.leaf c) p ts).bind (fun x => climbRec info f (.node r lhs x.1) m x.2) := by
  simp only [climbRec, h, hge, ↓reduceIte]
  cases climbInner info f (.leaf c) p ts <;> rfl

theorem climbInner_nil (f : Nat) (rhs : Tree α) (p : Nat) : climbInner info (f + 1) rhs p [] = some (rhs, []) := by
  simp [climbInner]

theorem climbInner_prim (f : Nat) (rhs : Tree α) (p : Nat) (a : α) (ts) :
    climbInner info (f + 1) rhs p (.prim a :: ts) = some (rhs, .prim a :: ts) := by
  simp [climbInner]

theorem climbInner_unknown (f : Nat) (rhs : Tree α) (p : Nat) (r : String) (ts) (h : info r = none) :
    climbInner info (f + 1) rhs p (.op r :: ts) = some (rhs, .op r :: ts) := by
  simp [climbInner, h]

theorem climbInner_stop (f : Nat) (rhs : Tree α) (p : Nat) (r : String) (ts) (q b) (h : info r = some (q, b))
    (hn : absorbs p q b = false) :
    climbInner info (f + 1) rhs p (.op r :: ts) = some (rhs, .op r :: ts) := by
  simp [climbInner, h, hn]

theorem climbInner_go (f : Nat) (rhs : Tree α) (p : Nat) (r : String) (ts) (q b) (h : info r = some (q, b))
    (ha : absorbs p q b = true) :
    climbInner info (f + 1) rhs p (.op r :: ts) =
      (climbRec info f rhs q (.op r :: ts)).bind (fun x => climbInner info f x.1 p x.2) := by
  simp only [climbInner, h, ha, ↓reduceIte]
  cases climbRec info f rhs q (.op r :: ts) <;> rfl


theorem climbRec_zero (lhs : Tree α) (m : Nat) (ts) : climbRec info 0 lhs m ts = none := by
  simp [climbRec]

theorem climbInner_zero (rhs : Tree α) (p : Nat) (ts) : climbInner info 0 rhs p ts = none := by
  simp [climbInner]

theorem climbRec_ge_nil (f : Nat) (lhs : Tree α) (m : Nat) (r : String) (p a) (h : info r = some (p, a)) (hge : p ≥ m) :
    climbRec info (f + 1) lhs m [.op r] = none := by
  simp [climbRec, h, hge]

theorem climbRec_ge_op (f : Nat) (lhs : Tree α) (m : Nat) (r r' : String) (ts) (p a) (h : info r = some (p, a)) (hge : p ≥ m) :
    climbRec info (f + 1) lhs m (.op r :: .op r' :: ts) = none := by
  simp [climbRec, h, hge]

/-! ### more fuel never changes an answer -/

theorem climb_mono_step : ∀ f : Nat,
    (∀ (lhs : Tree α) m ts x, climbRec info f lhs m ts = some x → climbRec info (f + 1) lhs m ts = some x) ∧
    (∀ (rhs : Tree α) p ts x, climbInner info f rhs p ts = some x → climbInner info (f + 1) rhs p ts = some x) := by
  intro f
  induction f with
  | zero => exact ⟨fun _ _ _ _ h => by simp [climbRec_zero] at h, fun _ _ _ _ h => by simp [climbInner_zero] at h⟩
  | succ f ih =>
    refine ⟨?_, ?_⟩
    · intro lhs m ts x h
      match ts with
      | [] => rw [climbRec_nil] at h ⊢; exact h
      | .prim a :: ts => rw [climbRec_prim] at h ⊢; exact h
      | .op r :: rest =>
        cases hi : info r with
        | none => rw [climbRec_unknown info _ _ _ _ _ hi] at h ⊢; exact h
        | some pa =>
          obtain ⟨p, a⟩ := pa
          by_cases hge : p ≥ m
          · match rest with
            | [] => rw [climbRec_ge_nil info _ _ _ _ _ _ hi hge] at h; cases h
            | .op r' :: ts => rw [climbRec_ge_op info _ _ _ _ _ _ _ _ hi hge] at h; cases h
            | .prim c :: ts =>
              rw [climbRec_ge info _ _ _ _ _ _ _ _ hi hge] at h ⊢
              obtain ⟨y, hy, hy2⟩ := Option.bind_eq_some_iff.mp h
              rw [ih.2 _ _ _ _ hy]
              exact ih.1 _ _ _ _ hy2
          · have hlt : p < m := by omega
            rw [climbRec_lt info _ _ _ _ _ _ _ hi hlt] at h ⊢; exact h
    · intro rhs p ts x h
      match ts with
      | [] => rw [climbInner_nil] at h ⊢; exact h
      | .prim a :: ts => rw [climbInner_prim] at h ⊢; exact h
      | .op r :: rest =>
        cases hi : info r with
        | none => rw [climbInner_unknown info _ _ _ _ _ hi] at h ⊢; exact h
        | some qb =>
          obtain ⟨q, b⟩ := qb
          cases ha : absorbs p q b with
          | false => rw [climbInner_stop info _ _ _ _ _ _ _ hi ha] at h ⊢; exact h
          | true =>
            rw [climbInner_go info _ _ _ _ _ _ _ hi ha] at h ⊢
            obtain ⟨y, hy, hy2⟩ := Option.bind_eq_some_iff.mp h
            rw [ih.1 _ _ _ _ hy]
            exact ih.2 _ _ _ _ hy2

theorem climbRec_mono {f f' : Nat} (hle : f ≤ f') {lhs : Tree α} {m ts x} (h : climbRec info f lhs m ts = some x) :
    climbRec info f' lhs m ts = some x := by
  induction hle with
  | refl => exact h
  | step _ ih => exact (climb_mono_step info _).1 _ _ _ _ ih

theorem climbInner_mono {f f' : Nat} (hle : f ≤ f') {rhs : Tree α} {p ts x} (h : climbInner info f rhs p ts = some x) :
    climbInner info f' rhs p ts = some x := by
  induction hle with
  | refl => exact h
  | step _ ih => exact (climb_mono_step info _).2 _ _ _ _ ih


/-- all operators of one precedence associate the same way -/
def Uniform : Prop := ∀ r1 r2 p a1 a2, info r1 = some (p, a1) → info r2 = some (p, a2) → a1 = a2

/-- the root of `t` (if `t` is not a leaf) and the operator at the head of `ts` (if any): the root does not take it -/
def LeftOK (t : Tree α) (ts : List (Item α)) : Prop :=
  ∀ s q b r p a, rootRule t = some s → info s = some (q, b) → headOp ts = some r → info r = some (p, a) →
    absorbs q p a = false

def RootAbs (p : Nat) (t : Tree α) : Prop :=
  ∀ s, rootRule t = some s → ∃ q b, info s = some (q, b) ∧ absorbs p q b = true

def StopOuter (m : Nat) (ts : List (Item α)) : Prop :=
  ∀ r p a, headOp ts = some r → info r = some (p, a) → p < m

def StopInner (p : Nat) (ts : List (Item α)) : Prop :=
  ∀ r q b, headOp ts = some r → info r = some (q, b) → absorbs p q b = false

theorem absorbs_false_iff (q p : Nat) (a : Assoc) : absorbs q p a = false ↔ p ≤ q ∧ (p = q → a = Assoc.left) := by
  cases a <;> simp [absorbs] <;> omega

theorem absorbs_true_iff (p q : Nat) (b : Assoc) : absorbs p q b = true ↔ q > p ∨ (q = p ∧ b = Assoc.right) := by
  cases b <;> simp [absorbs] <;> omega

theorem climb_sound_aux (hu : Uniform info) : ∀ f : Nat,
    (∀ (lhs : Tree α) m ts t rest, climbRec info f lhs m ts = some (t, rest) → Shaped info lhs → LeftOK info lhs ts →
        Shaped info t ∧ inorder lhs ++ ts = inorder t ++ rest ∧ StopOuter info m rest ∧
        ((t = lhs ∧ rest = ts) ∨ ∃ r p a, rootRule t = some r ∧ info r = some (p, a) ∧ p ≥ m)) ∧
    (∀ (rhs : Tree α) p ts t rest, climbInner info f rhs p ts = some (t, rest) → Shaped info rhs → LeftOK info rhs ts →
        RootAbs info p rhs →
        Shaped info t ∧ inorder rhs ++ ts = inorder t ++ rest ∧ StopInner info p rest ∧ RootAbs info p t) := by
  intro f
  induction f with
  | zero => exact ⟨fun _ _ _ _ _ h => by simp [climbRec_zero] at h, fun _ _ _ _ _ h => by simp [climbInner_zero] at h⟩
  | succ f ih =>
    refine ⟨?_, ?_⟩
    · intro lhs m ts t rest h hs hl
      match ts with
      | [] =>
        rw [climbRec_nil] at h; cases h
        exact ⟨hs, rfl, fun r p a h => by simp [headOp] at h, Or.inl ⟨rfl, rfl⟩⟩
      | .prim c :: ts =>
        rw [climbRec_prim] at h; cases h
        exact ⟨hs, rfl, fun r p a h => by simp [headOp] at h, Or.inl ⟨rfl, rfl⟩⟩
      | .op r :: rest0 =>
        cases hi : info r with
        | none =>
          rw [climbRec_unknown info _ _ _ _ _ hi] at h; cases h
          refine ⟨hs, rfl, fun r' p a h h2 => ?_, Or.inl ⟨rfl, rfl⟩⟩
          simp [headOp] at h; subst h; rw [hi] at h2; cases h2
        | some pa =>
          obtain ⟨p, a⟩ := pa
          by_cases hge : p ≥ m
          · match rest0 with
            | [] => rw [climbRec_ge_nil info _ _ _ _ _ _ hi hge] at h; cases h
            | .op r' :: ts => rw [climbRec_ge_op info _ _ _ _ _ _ _ _ hi hge] at h; cases h
            | .prim c :: ts =>
              rw [climbRec_ge info _ _ _ _ _ _ _ _ hi hge] at h
              obtain ⟨⟨rhs, rest1⟩, hy, hy2⟩ := Option.bind_eq_some_iff.mp h
              have hin := ih.2 (.leaf c) p ts rhs rest1 hy trivial
                (fun s q b r p a h => by simp [rootRule] at h) (fun s h => by simp [rootRule] at h)
              obtain ⟨hsr, hior, hstop, hra⟩ := hin
              have hsn : Shaped info (.node r lhs rhs) := by
                refine ⟨p, a, hi, hs, hsr, ?_, hra⟩
                intro s q b hroot hinfo
                exact hl s q b r p a hroot hinfo rfl hi
              have hln : LeftOK info (.node r lhs rhs) rest1 := by
                intro s q b r2 p2 a2 hroot hinfo hhead hinfo2
                simp [rootRule] at hroot; subst hroot
                rw [hi] at hinfo; cases hinfo
                exact hstop r2 p2 a2 hhead hinfo2
              obtain ⟨h1, h2, h3, h4⟩ := ih.1 _ m rest1 t rest hy2 hsn hln
              refine ⟨h1, ?_, h3, Or.inr ?_⟩
              · rw [← h2]; simp [inorder] at hior ⊢; rw [← hior]
              · rcases h4 with ⟨ht, _⟩ | h4
                · subst ht; exact ⟨r, p, a, rfl, hi, hge⟩
                · exact h4
          · have hlt : p < m := by omega
            rw [climbRec_lt info _ _ _ _ _ _ _ hi hlt] at h; cases h
            refine ⟨hs, rfl, fun r' p' a' h h2 => ?_, Or.inl ⟨rfl, rfl⟩⟩
            simp [headOp] at h; subst h; rw [hi] at h2; cases h2; exact hlt
    · intro rhs p ts t rest h hs hl hra
      match ts with
      | [] =>
        rw [climbInner_nil] at h; cases h
        exact ⟨hs, rfl, fun r q b h => by simp [headOp] at h, hra⟩
      | .prim c :: ts =>
        rw [climbInner_prim] at h; cases h
        exact ⟨hs, rfl, fun r q b h => by simp [headOp] at h, hra⟩
      | .op r :: rest0 =>
        cases hi : info r with
        | none =>
          rw [climbInner_unknown info _ _ _ _ _ hi] at h; cases h
          refine ⟨hs, rfl, fun r' q b h h2 => ?_, hra⟩
          simp [headOp] at h; subst h; rw [hi] at h2; cases h2
        | some qb =>
          obtain ⟨q, b⟩ := qb
          cases ha : absorbs p q b with
          | false =>
            rw [climbInner_stop info _ _ _ _ _ _ _ hi ha] at h; cases h
            refine ⟨hs, rfl, fun r' q' b' h h2 => ?_, hra⟩
            simp [headOp] at h; subst h; rw [hi] at h2; cases h2; exact ha
          | true =>
            rw [climbInner_go info _ _ _ _ _ _ _ hi ha] at h
            obtain ⟨⟨rhs', ts'⟩, hy, hy2⟩ := Option.bind_eq_some_iff.mp h
            obtain ⟨g1, g2, g3, g4⟩ := ih.1 rhs q _ rhs' ts' hy hs hl
            have hl' : LeftOK info rhs' ts' := by
              rcases g4 with ⟨e1, e2⟩ | ⟨s, ps, as, hroot, hinfo, hps⟩
              · subst e1; subst e2; exact hl
              · intro s2 q2 b2 r2 p2 a2 hroot2 hinfo2 hhead hinfo3
                rw [hroot] at hroot2; cases hroot2
                rw [hinfo] at hinfo2; cases hinfo2
                have := g3 r2 p2 a2 hhead hinfo3
                rw [absorbs_false_iff]; omega
            have hra' : RootAbs info p rhs' := by
              rcases g4 with ⟨e1, _⟩ | ⟨s, ps, as, hroot, hinfo, hps⟩
              · subst e1; exact hra
              · intro s2 hroot2
                rw [hroot] at hroot2; cases hroot2
                refine ⟨ps, as, hinfo, ?_⟩
                rw [absorbs_true_iff] at ha ⊢
                rcases ha with ha | ⟨ha1, ha2⟩
                · left; omega
                · by_cases hgt : ps > p
                  · left; exact hgt
                  · right
                    have hpq : ps = q := by omega
                    subst hpq
                    exact ⟨ha1, by rw [hu s r ps as b hinfo hi]; exact ha2⟩
            obtain ⟨k1, k2, k3, k4⟩ := ih.2 rhs' p ts' t rest hy2 g1 hl' hra'
            exact ⟨k1, by rw [g2, k2], k3, k4⟩


theorem climb_total_aux : ∀ f : Nat,
    (∀ (lhs : Tree α) m ts, Alt info ts → ts.length + 1 ≤ f →
        ∃ t rest, climbRec info f lhs m ts = some (t, rest) ∧ Alt info rest ∧ rest.length ≤ ts.length ∧
          (∀ r rest0 p a, ts = .op r :: rest0 → info r = some (p, a) → p ≥ m → rest.length + 2 ≤ ts.length)) ∧
    (∀ (rhs : Tree α) p ts, Alt info ts → ts.length + 2 ≤ f →
        ∃ t rest, climbInner info f rhs p ts = some (t, rest) ∧ Alt info rest ∧ rest.length ≤ ts.length) := by
  intro f
  induction f with
  | zero => exact ⟨fun _ _ _ _ h => by omega, fun _ _ _ _ h => by omega⟩
  | succ f ih =>
    refine ⟨?_, ?_⟩
    · intro lhs m ts halt hf
      cases halt with
      | nil => exact ⟨lhs, [], climbRec_nil info _ _ _, Alt.nil, Nat.le_refl _, fun r rest0 p a h => by cases h⟩
      | cons r c ts hk ht =>
        obtain ⟨⟨p, a⟩, hi⟩ := Option.isSome_iff_exists.mp hk
        by_cases hge : p ≥ m
        · rw [climbRec_ge info _ _ _ _ _ _ _ _ hi hge]
          simp only [List.length_cons] at hf
          obtain ⟨rhs, rest1, e1, a1, l1⟩ := ih.2 (.leaf c) p ts ht (by omega)
          obtain ⟨t, rest, e2, a2, l2, _⟩ := ih.1 (.node r lhs rhs) m rest1 a1 (by omega)
          refine ⟨t, rest, by simp [e1, e2], a2, by simp only [List.length_cons]; omega, ?_⟩
          intro _ _ _ _ _ _ _; simp only [List.length_cons]; omega
        · have hlt : p < m := by omega
          refine ⟨lhs, _, climbRec_lt info _ _ _ _ _ _ _ hi hlt, Alt.cons r c ts hk ht, Nat.le_refl _, ?_⟩
          intro r' rest0 p' a' he hi' hge'
          cases he; rw [hi] at hi'; cases hi'; omega
    · intro rhs p ts halt hf
      cases halt with
      | nil => exact ⟨rhs, [], climbInner_nil info _ _ _, Alt.nil, Nat.le_refl _⟩
      | cons r c ts hk ht =>
        obtain ⟨⟨q, b⟩, hi⟩ := Option.isSome_iff_exists.mp hk
        cases ha : absorbs p q b with
        | false => exact ⟨rhs, _, climbInner_stop info _ _ _ _ _ _ _ hi ha, Alt.cons r c ts hk ht, Nat.le_refl _⟩
        | true =>
          rw [climbInner_go info _ _ _ _ _ _ _ hi ha]
          simp only [List.length_cons] at hf
          obtain ⟨rhs', ts', e1, a1, l1, l1'⟩ := ih.1 rhs q (.op r :: .prim c :: ts) (Alt.cons r c ts hk ht)
            (by simp only [List.length_cons]; omega)
          have l1'' := l1' r _ q b rfl hi (Nat.le_refl _)
          simp only [List.length_cons] at l1''
          obtain ⟨t, rest, e2, a2, l2⟩ := ih.2 rhs' p ts' a1 (by omega)
          exact ⟨t, rest, by simp [e1, e2], a2, by simp only [List.length_cons]; omega⟩

theorem alt_stop_nil {ts : List (Item α)} (ha : Alt info ts) (hs : StopOuter info 0 ts) : ts = [] := by
  cases ha with
  | nil => rfl
  | cons r c ts hk _ =>
    obtain ⟨⟨p, a⟩, hi⟩ := Option.isSome_iff_exists.mp hk
    have := hs r p a rfl hi
    omega

/-- soundness and totality of `climb` on well-formed input -/
theorem climb_ok (hu : Uniform info) (a : α) (ts : List (Item α)) (halt : Alt info ts) :
    ∃ t, climb info (.prim a :: ts) = some t ∧ inorder t = .prim a :: ts ∧ Shaped info t := by
  obtain ⟨t, rest, e, ar, _, _⟩ := (climb_total_aux info (ts.length + 2)).1 (.leaf a) 0 ts halt (by omega)
  obtain ⟨h1, h2, h3, _⟩ := (climb_sound_aux info hu _).1 _ _ _ _ _ e trivial
    (fun s q b r p a h => by simp [rootRule] at h)
  have : rest = [] := alt_stop_nil info ar h3
  subst this
  refine ⟨t, by simp [climb, e], ?_, h1⟩
  simpa [inorder] using h2.symm


/-! ### completeness: a tree that obeys the table is what `climb` returns on its in-order listing -/

def RecR (lhs : Tree α) (m : Nat) (ts : List (Item α)) (res : Tree α × List (Item α)) : Prop :=
  ∃ f, climbRec info f lhs m ts = some res

def InnerR (rhs : Tree α) (p : Nat) (ts : List (Item α)) (res : Tree α × List (Item α)) : Prop :=
  ∃ f, climbInner info f rhs p ts = some res

theorem recR_step {lhs rhs : Tree α} {m p : Nat} {a : Assoc} {r : String} {c : α} {ts ts' res}
    (hi : info r = some (p, a)) (hge : p ≥ m) (h1 : InnerR info (.leaf c) p ts (rhs, ts'))
    (h2 : RecR info (.node r lhs rhs) m ts' res) : RecR info lhs m (.op r :: .prim c :: ts) res := by
  obtain ⟨f1, h1⟩ := h1
  obtain ⟨f2, h2⟩ := h2
  refine ⟨max f1 f2 + 1, ?_⟩
  rw [climbRec_ge info _ _ _ _ _ _ _ _ hi hge, climbInner_mono info (Nat.le_max_left f1 f2) h1]
  exact climbRec_mono info (Nat.le_max_right f1 f2) h2

theorem innerR_step {rhs rhs' : Tree α} {p q : Nat} {b : Assoc} {r : String} {ts ts' res}
    (hi : info r = some (q, b)) (ha : absorbs p q b = true) (h1 : RecR info rhs q (.op r :: ts) (rhs', ts'))
    (h2 : InnerR info rhs' p ts' res) : InnerR info rhs p (.op r :: ts) res := by
  obtain ⟨f1, h1⟩ := h1
  obtain ⟨f2, h2⟩ := h2
  refine ⟨max f1 f2 + 1, ?_⟩
  rw [climbInner_go info _ _ _ _ _ _ _ hi ha, climbRec_mono info (Nat.le_max_left f1 f2) h1]
  exact climbInner_mono info (Nat.le_max_right f1 f2) h2

theorem innerR_stop {t : Tree α} {p : Nat} {X : List (Item α)} (h : StopInner info p X) : InnerR info t p X (t, X) := by
  refine ⟨1, ?_⟩
  match X with
  | [] => exact climbInner_nil info _ _ _
  | .prim c :: X => exact climbInner_prim info _ _ _ _ _
  | .op r :: X =>
    cases hi : info r with
    | none => exact climbInner_unknown info _ _ _ _ _ hi
    | some qb => exact climbInner_stop info _ _ _ _ _ _ _ hi (h r qb.1 qb.2 rfl hi)

theorem recR_stop {t : Tree α} {m : Nat} {X : List (Item α)} (h : StopOuter info m X) : RecR info t m X (t, X) := by
  refine ⟨1, ?_⟩
  match X with
  | [] => exact climbRec_nil info _ _ _
  | .prim c :: X => exact climbRec_prim info _ _ _ _ _
  | .op r :: X =>
    cases hi : info r with
    | none => exact climbRec_unknown info _ _ _ _ _ hi
    | some pa => exact climbRec_lt info _ _ _ _ _ _ _ hi (h r pa.1 pa.2 rfl hi)

theorem innerR_inv {t : Tree α} {p q : Nat} {b : Assoc} {r : String} {ts res}
    (h : InnerR info t p (.op r :: ts) res) (hi : info r = some (q, b)) (ha : absorbs p q b = true) :
    ∃ res2, RecR info t q (.op r :: ts) res2 ∧ InnerR info res2.1 p res2.2 res := by
  obtain ⟨f, h⟩ := h
  cases f with
  | zero => simp [climbInner_zero] at h
  | succ f =>
    rw [climbInner_go info _ _ _ _ _ _ _ hi ha] at h
    obtain ⟨y, hy, hy2⟩ := Option.bind_eq_some_iff.mp h
    exact ⟨y, ⟨f, hy⟩, ⟨f, hy2⟩⟩

/-- the head of `X` is not taken by any operator on the right spine of the tree -/
def RS : Tree α → List (Item α) → Prop
  | .leaf _, _ => True
  | .node s _ rt, X => (∀ q b, info s = some (q, b) → StopInner info q X) ∧ RS rt X

def LeftAbs (p : Nat) : Tree α → Prop
  | .leaf _ => True
  | .node s l _ => (∃ q b, info s = some (q, b) ∧ absorbs p q b = true) ∧ LeftAbs p l

def LeftGe (m : Nat) : Tree α → Prop
  | .leaf _ => True
  | .node s l _ => (∃ q b, info s = some (q, b) ∧ q ≥ m) ∧ LeftGe m l

theorem shaped_rs {t : Tree α} {r : String} {p : Nat} {a : Assoc} (X : List (Item α)) (hi : info r = some (p, a))
    (hs : Shaped info t) (h : ∀ s q b, rootRule t = some s → info s = some (q, b) → absorbs q p a = false) :
    RS info t (.op r :: X) := by
  induction t with
  | leaf c => trivial
  | node s l rt _ ihr =>
    obtain ⟨q, b, his, _, hsr, _, hright⟩ := hs
    refine ⟨?_, ihr hsr ?_⟩
    · intro q' b' his' r' p' a' hh hi'
      simp [headOp] at hh; subst hh
      rw [hi] at hi'; cases hi'
      exact h s q' b' rfl his'
    · intro s2 q2 b2 hroot hi2
      obtain ⟨q2', b2', hi2', hab⟩ := hright s2 hroot
      rw [hi2] at hi2'; cases hi2'
      have h0 := h s q b rfl his
      rw [absorbs_false_iff] at h0 ⊢
      rw [absorbs_true_iff] at hab
      refine ⟨by omega, fun e => ?_⟩
      rcases hab with hgt | ⟨e1, _⟩
      · exfalso; omega
      · exact h0.2 (by omega)

theorem leftAbs_of_root {t : Tree α} {p : Nat} (hs : Shaped info t) (h : RootAbs info p t) : LeftAbs info p t := by
  induction t with
  | leaf c => trivial
  | node s l rt ihl _ =>
    obtain ⟨q, b, his, hsl, _, hleft, _⟩ := hs
    obtain ⟨q', b', his', hab⟩ := h s rfl
    rw [his] at his'; cases his'
    refine ⟨⟨q, b, his, hab⟩, ihl hsl ?_⟩
    intro s2 hroot
    cases l with
    | leaf c => simp [rootRule] at hroot
    | node s2' l2 r2 =>
      simp [rootRule] at hroot; subst hroot
      obtain ⟨q2, b2, hi2, _⟩ := hsl
      refine ⟨q2, b2, hi2, ?_⟩
      have h0 := hleft s2' q2 b2 rfl hi2
      rw [absorbs_false_iff] at h0
      rw [absorbs_true_iff] at hab ⊢
      rcases hab with hab | ⟨e1, e2⟩
      · left; omega
      · by_cases hq : q2 > p
        · left; exact hq
        · exfalso
          have : q = q2 := by omega
          have := h0.2 this
          rw [e2] at this; cases this

theorem rs_nil (t : Tree α) : RS info t [] := by
  induction t with
  | leaf c => trivial
  | node s l rt _ ihr => exact ⟨fun q b _ r' q' b' h => by simp [headOp] at h, ihr⟩

theorem leftGe_zero {t : Tree α} (hs : Shaped info t) : LeftGe info 0 t := by
  induction t with
  | leaf c => trivial
  | node s l rt ihl _ =>
    obtain ⟨q, b, his, hsl, _, _, _⟩ := hs
    exact ⟨⟨q, b, his, Nat.zero_le _⟩, ihl hsl⟩

theorem climb_complete_aux (hu : Uniform info) (t : Tree α) (hs : Shaped info t) :
    (∀ p X res, LeftAbs info p t → RS info t X → InnerR info t p X res →
        InnerR info (.leaf (leftmost t)) p (tailOf t ++ X) res) ∧
    (∀ m X res, LeftGe info m t → RS info t X → RecR info t m X res →
        RecR info (.leaf (leftmost t)) m (tailOf t ++ X) res) := by
  induction t with
  | leaf c => exact ⟨fun p X res _ _ h => by simpa [tailOf, leftmost] using h, fun m X res _ _ h => by simpa [tailOf, leftmost] using h⟩
  | node s l rt ihl ihr =>
    have hs' := hs
    obtain ⟨q, b, hi, hsl, hsr, hleft, hright⟩ := hs'
    -- the right operand, once its first primary is read, is completed by the inner loop at level q
    have hI : ∀ X, RS info rt X → StopInner info q X →
        InnerR info (.leaf (leftmost rt)) q (tailOf rt ++ X) (rt, X) := by
      intro X hrs hst
      exact (ihr hsr).1 q X (rt, X) (leftAbs_of_root info hsr hright) hrs (innerR_stop info hst)
    have hlist : ∀ X, tailOf (.node s l rt) ++ X = tailOf l ++ (.op s :: .prim (leftmost rt) :: (tailOf rt ++ X)) := by
      intro X; simp [tailOf, inorder_eq rt]
    refine ⟨?_, ?_⟩
    · intro p X res hLA hRS hInner
      obtain ⟨⟨q', b', hi', ha⟩, hLAl⟩ := hLA
      rw [hi] at hi'; cases hi'
      obtain ⟨hstq, hRSr⟩ := hRS
      have hstq := hstq q b hi
      rw [hlist, leftmost]
      apply (ihl hsl).1 p _ res hLAl (shaped_rs info _ hi hsl hleft)
      -- what the level-q call makes of `node s l rt` and X, and how the inner loop at level p goes on
      have claim : ∃ res1, RecR info (.node s l rt) q X res1 ∧ InnerR info res1.1 p res1.2 res := by
        match X, hstq, hInner with
        | [], _, hInner => exact ⟨(_, []), recR_stop info (fun r p a h => by simp [headOp] at h), hInner⟩
        | .prim c :: X', _, hInner => exact ⟨(_, _), recR_stop info (fun r p a h => by simp [headOp] at h), hInner⟩
        | .op r' :: X', hstq, hInner =>
          cases hi' : info r' with
          | none =>
            refine ⟨(_, _), recR_stop info (fun r p a h h2 => ?_), hInner⟩
            simp [headOp] at h; subst h; rw [hi'] at h2; cases h2
          | some pa =>
            obtain ⟨p', a'⟩ := pa
            by_cases hlt : p' < q
            · refine ⟨(_, _), recR_stop info (fun r p a h h2 => ?_), hInner⟩
              simp [headOp] at h; subst h; rw [hi'] at h2; cases h2; exact hlt
            · have h0 := hstq r' p' a' rfl hi'
              rw [absorbs_false_iff] at h0
              have hpq : p' = q := by omega
              subst hpq
              have ha' := h0.2 rfl
              have ha2 := ha
              rw [absorbs_true_iff] at ha2
              rcases ha2 with hgt | ⟨_, hb⟩
              · have : absorbs p p' a' = true := by rw [absorbs_true_iff]; left; exact hgt
                exact innerR_inv info hInner hi' this
              · exfalso
                have := hu s r' p' b a' hi hi'
                rw [hb, ha'] at this; cases this
      obtain ⟨res1, hrec, hinn⟩ := claim
      exact innerR_step info hi ha (recR_step info hi (Nat.le_refl _) (hI X hRSr hstq) hrec) hinn
    · intro m X res hGe hRS hRec
      obtain ⟨⟨q', b', hi', hge⟩, hGel⟩ := hGe
      rw [hi] at hi'; cases hi'
      obtain ⟨hstq, hRSr⟩ := hRS
      have hstq := hstq q b hi
      rw [hlist, leftmost]
      apply (ihl hsl).2 m _ res hGel (shaped_rs info _ hi hsl hleft)
      exact recR_step info hi hge (hI X hRSr hstq) hRec

theorem alt_append {xs ys : List (Item α)} (hx : Alt info xs) (hy : Alt info ys) : Alt info (xs ++ ys) := by
  induction hx with
  | nil => simpa using hy
  | cons r a ts hk _ ih => exact Alt.cons r a _ hk ih

theorem alt_tail {t : Tree α} (hs : Shaped info t) : Alt info (tailOf t) := by
  induction t with
  | leaf c => exact Alt.nil
  | node s l rt ihl ihr =>
    obtain ⟨q, b, hi, hsl, hsr, _, _⟩ := hs
    simp only [tailOf, inorder_eq rt]
    exact alt_append info (ihl hsl) (Alt.cons s _ _ (by simp [hi]) (ihr hsr))

/-- `climb` inverts the in-order listing on every tree that obeys the table -/
theorem climb_complete (hu : Uniform info) (t : Tree α) (hs : Shaped info t) : climb info (inorder t) = some t := by
  rw [inorder_eq]
  obtain ⟨t', rest, e, _, _, _⟩ := (climb_total_aux info ((tailOf t).length + 2)).1 (.leaf (leftmost t)) 0 (tailOf t)
    (alt_tail info hs) (by omega)
  have hL := (climb_complete_aux info hu t hs).2 0 [] (t, []) (leftGe_zero info hs) (rs_nil info t)
    ⟨1, climbRec_nil info _ _ _⟩
  obtain ⟨f, hf⟩ := hL
  simp only [List.append_nil] at hf
  have e1 := climbRec_mono info (Nat.le_max_left f ((tailOf t).length + 2)) hf
  have e2 := climbRec_mono info (Nat.le_max_right f ((tailOf t).length + 2)) e
  rw [e1] at e2
  cases e2
  simp [climb, e]

end

/-! ### the generated table -/

theorem findInLevel_mem {r : String} {lvl : List (String × Assoc)} {a : Assoc} (h : findInLevel r lvl = some a) :
    (r, a) ∈ lvl := by
  induction lvl with
  | nil => simp [findInLevel] at h
  | cons x rest ih =>
    obtain ⟨r', a'⟩ := x
    simp only [findInLevel] at h
    by_cases e : r = r'
    · simp [e] at h; subst h; subst e; simp
    · simp [e] at h; exact List.mem_cons_of_mem _ (ih h)

theorem infoIn_ge {r : String} {L : List (List (String × Assoc))} : ∀ {p q : Nat} {a : Assoc},
    infoIn r p L = some (q, a) → q ≥ p := by
  induction L with
  | nil => intro p q a h; simp [infoIn] at h
  | cons lvl rest ih =>
    intro p q a h
    simp only [infoIn] at h
    cases hf : findInLevel r lvl with
    | some a' => simp [hf] at h; omega
    | none => simp [hf] at h; have := ih h; omega

theorem infoIn_uniform {L : List (List (String × Assoc))}
    (hL : ∀ lvl ∈ L, ∀ x ∈ lvl, ∀ y ∈ lvl, x.2 = y.2) :
    ∀ {r1 r2 : String} {p q : Nat} {a1 a2 : Assoc},
      infoIn r1 p L = some (q, a1) → infoIn r2 p L = some (q, a2) → a1 = a2 := by
  induction L with
  | nil => intro r1 r2 p q a1 a2 h; simp [infoIn] at h
  | cons lvl rest ih =>
    intro r1 r2 p q a1 a2 h1 h2
    simp only [infoIn] at h1 h2
    cases hf1 : findInLevel r1 lvl with
    | some b1 =>
      cases hf2 : findInLevel r2 lvl with
      | some b2 =>
        simp [hf1] at h1; simp [hf2] at h2
        have := hL lvl (by simp) _ (findInLevel_mem hf1) _ (findInLevel_mem hf2)
        simp at this; rw [← h1.2, ← h2.2]; exact this
      | none =>
        simp [hf1] at h1; simp [hf2] at h2
        have := infoIn_ge h2; omega
    | none =>
      cases hf2 : findInLevel r2 lvl with
      | some b2 =>
        simp [hf1] at h1; simp [hf2] at h2
        have := infoIn_ge h1; omega
      | none =>
        simp [hf1] at h1; simp [hf2] at h2
        exact ih (fun lvl hl => hL lvl (List.mem_cons_of_mem _ hl)) h1 h2

/-- the table of parser.rs: operators of one level associate the same way (a closed fact about the generated table) -/
theorem climberInfo_uniform : Uniform climberInfo := by
  intro r1 r2 p a1 a2 h1 h2
  exact infoIn_uniform (by decide) h1 h2

end XrayModel.Syntax

/-! ### the core evaluator: `evalList` delivers values only through a left-to-right chain of single evaluations -/

namespace XrayModel.Core

theorem evalList_ok_seqVals (n : Nat) (cfg : Cfg) (fr : Frame) (es : List Expr) (st st' : St) (vs : List Val)
    (h : evalList n cfg fr es st = (.ok vs, st')) : SeqVals cfg fr n es st vs st' := by
  induction n generalizing es st st' vs with
  | zero => rw [evalList] at h; cases h
  | succ n ih =>
    cases es with
    | nil => rw [evalList] at h; cases h; exact SeqVals.nil _ _
    | cons e rest =>
      simp only [evalList] at h
      split at h
      · simp at h
      · rename_i v st1 hv hne
        split at h
        · rename_i vs1 st2 hrest
          simp only [Prod.mk.injEq, Except.ok.injEq] at h
          obtain ⟨h1, h2⟩ := h
          subst h1; subst h2
          refine SeqVals.cons (by assumption) ?_ (ih rest st1 _ vs1 hrest)
          cases v <;> simp_all [Val.isErr]
        · rename_i r hr
          cases r with
          | mk a b => cases a <;> simp_all
      · simp at h
      · simp at h

end XrayModel.Core
