/- Closures and defaults on the core evaluator (XrayModel/Core.lean): lemmas for C03. -/
import XrayModel.Core
namespace XrayModel.Core

/-- two parameter lists that differ at most in the default *expressions* -/
def SameShape (ps ps' : List Param) : Prop :=
  ps.map (fun p => (p.name, p.dflt.isSome)) = ps'.map (fun p => (p.name, p.dflt.isSome))

theorem bindParams_congr (ps ps' : List Param) (h : SameShape ps ps') (args ds : List Val) :
    bindParams ps args ds = bindParams ps' args ds := by
  induction ps generalizing ps' args ds with
  | nil =>
    cases ps' with
    | nil => rfl
    | cons _ _ => simp [SameShape] at h
  | cons p rest ih =>
    cases ps' with
    | nil => simp [SameShape] at h
    | cons p' rest' =>
      simp only [SameShape, List.map_cons, List.cons.injEq, Prod.mk.injEq] at h
      obtain ⟨⟨hn, hd⟩, hrest⟩ := h
      have ih' := ih rest' hrest
      cases args with
      | nil =>
        cases ds with
        | nil => simp [bindParams]
        | cons d ds' =>
          simp only [bindParams]
          cases hp : p.dflt <;> cases hp' : p'.dflt <;> simp_all
      | cons a as =>
        simp only [bindParams]
        cases hp : p.dflt <;> cases hp' : p'.dflt <;> simp_all

/-- A call of a function value does not look at the default *expressions* in its code, only at the default
*values* computed when it was created: for a lambda, replacing every default expression changes nothing. -/
theorem tramp_lambda_defaults (fuel : Nat) (cfg : Cfg) (h : Nat) (ps ps' : List Param) (decls : List Decl)
    (body : Expr) (ds : List Val) (env : List (String × Val)) (hs : SameShape ps ps') :
    ∀ (args : List Val) (r : Nat) (st : St),
      tramp fuel cfg h (.clos (.mk none ps decls body) ds env) args r st
        = tramp fuel cfg h (.clos (.mk none ps' decls body) ds env) args r st := by
  induction fuel with
  | zero => intro args r st; simp [tramp]
  | succ n ih =>
    intro args r st
    simp only [tramp, Func.params, Func.name, Func.decls, Func.body, bindParams_congr ps ps' hs, ih]

theorem callUser_lambda_defaults (fuel : Nat) (cfg : Cfg) (h : Nat) (ps ps' : List Param) (decls : List Decl)
    (body : Expr) (ds : List Val) (env : List (String × Val)) (hs : SameShape ps ps') (args : List Val) (st : St) :
    callUser fuel cfg h (.clos (.mk none ps decls body) ds env) args st
      = callUser fuel cfg h (.clos (.mk none ps' decls body) ds env) args st := by
  cases fuel with
  | zero => simp [callUser]
  | succ n => simp only [callUser, tramp_lambda_defaults n cfg h ps ps' decls body ds env hs]

/-- what a call does with a closure (named or not): the parameters are bound from the arguments and the
stored default values, and the declarations and the body run in the *captured* environment extended with them -/
theorem tramp_frame (fuel : Nat) (cfg : Cfg) (h : Nat) (f : Func) (ds : List Val) (env : List (String × Val))
    (args : List Val) (r : Nat) (st : St) (ps : List (String × Val))
    (hb : bindParams f.params args ds = some ps)
    (hd : ∀ l, cfg.depthLimit = some l → h + 1 < l) :
    tramp (fuel + 1) cfg h (.clos f ds env) args r st =
      (let fr : Frame := { env := ps.reverse ++ env,
                           self := (match f.name with | some n => some (n, .clos f ds env) | none => none),
                           height := h + 1 }
       match evalDecls fuel cfg fr f.decls st with
       | (.error r', st') => (r', st')
       | (.ok fr', st') =>
         match eval fuel cfg fr' f.body true st' with
         | (.tail newArgs, st'') =>
           if (match cfg.recLimit with | some l => decide (r + 1 > l) | none => false) then (.viol .recursion, st'')
           else tramp fuel cfg h (.clos f ds env) newArgs (r + 1) st''
         | r' => r') := by
  simp only [tramp, hb]
  cases hdl : cfg.depthLimit with
  | none => simp only [Bool.false_eq_true, if_false]; rfl
  | some l =>
    have := hd l hdl
    have hlt : ¬ (h + 1 ≥ l) := by omega
    simp only [hlt, decide_false, Bool.false_eq_true, if_false]; rfl

theorem evalDflts_not_error_val (cfg : Cfg) (fr : Frame) : ∀ (n : Nat) (ps : List Param) (s s' : St) (v : Val),
    evalDflts n cfg fr ps s ≠ (.error (.val v), s') := by
  intro n
  induction n with
  | zero => intro ps s s' v hh; simp [evalDflts] at hh
  | succ m ihm =>
    intro ps s s' v hh
    cases ps with
    | nil => simp [evalDflts] at hh
    | cons p rest =>
      simp only [evalDflts] at hh
      split at hh
      · exact ihm _ _ _ _ hh
      · split at hh
        · split at hh
          · cases hh
          · exact ihm _ _ _ _ hh
        · cases hh
        · rename_i hnv _ _
          simp only [Prod.mk.injEq, Except.error.injEq] at hh
          exact hnv v hh.1

/-- creating a function value evaluates the default expressions — `evalDflts`, in the defining frame, threading
the state from `st` to `st'` — and stores the values; nothing else of the closure depends on them -/
theorem mkClos_defaults (fuel : Nat) (cfg : Cfg) (fr : Frame) (f : Func) (st st' : St) (c : Val)
    (h : mkClos (fuel + 1) cfg fr f st = (.val c, st')) :
    ∃ ds, evalDflts fuel cfg fr f.params st = (.ok ds, st') ∧
      c = .clos f ds (match fr.self with | some s => fr.env ++ [s] | none => fr.env) := by
  simp only [mkClos] at h
  split at h
  · rename_i ds st1 hd
    simp only [Prod.mk.injEq, Res.val.injEq] at h
    exact ⟨ds, by rw [hd, h.2], h.1.symm⟩
  · rename_i r st1 hd
    simp only [Prod.mk.injEq] at h
    rw [h.1] at hd
    exact absurd hd (evalDflts_not_error_val cfg fr _ _ _ _ _)

/-- the left-to-right, exactly-once reading of `evalDflts`: a parameter without default is skipped; a default
expression is evaluated once in the frame, its value (also an error value) kept, and the remaining defaults
see the state it left -/
theorem evalDflts_cons_some (fuel : Nat) (cfg : Cfg) (fr : Frame) (n : String) (d : Expr) (rest : List Param) (st : St) :
    evalDflts (fuel + 1) cfg fr (.mk n (some d) :: rest) st =
      match eval fuel cfg fr d false st with
      | (.val v, st') =>
        (match evalDflts fuel cfg fr rest st' with
         | (.ok vs, st'') => (.ok (v :: vs), st'')
         | r => r)
      | (.tail _, st') => (.error (.stuck "tail escaped"), st')
      | (r, st') => (.error r, st') := by
  simp only [evalDflts, Param.dflt]
  rfl

theorem evalDflts_cons_none (fuel : Nat) (cfg : Cfg) (fr : Frame) (n : String) (rest : List Param) (st : St) :
    evalDflts (fuel + 1) cfg fr (.mk n none :: rest) st = evalDflts fuel cfg fr rest st := by
  simp only [evalDflts, Param.dflt]

/-- the caller's frame matters to a call of a function value only through the values of the arguments and the
stack height: the callee's body runs in the environment captured at creation -/
theorem callVal_caller_irrelevant (fuel : Nat) (cfg : Cfg) (fr fr' : Frame) (c : Val) (args : List Expr)
    (tail : Bool) (st : St) (hh : fr.height = fr'.height)
    (hargs : evalList fuel cfg fr args st = evalList fuel cfg fr' args st) :
    callVal (fuel + 1) cfg fr c args tail st = callVal (fuel + 1) cfg fr' c args tail st := by
  cases c <;> simp only [callVal, hh, hargs]

end XrayModel.Core
