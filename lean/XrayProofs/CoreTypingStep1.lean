/-
C01: the soundness invariant `Inv n` of the ten mutually recursive evaluator functions and its
step lemmas, part 1 (argument lists, defaults, closure creation).
-/
import XrayProofs.CoreTypingInv
namespace XrayModel.CoreTyping
open XrayModel.Core

/-- the soundness invariant of all evaluator functions at one amount of fuel -/
structure Inv (n : Nat) : Prop where
  eval : ∀ cfg fr e tail st Γ τ, FrameTy fr Γ → check Γ e = some τ →
    ResOk Γ fr tail τ (eval n cfg fr (eraseE e) tail st).1
  callNamed : ∀ cfg fr f args tail st Γ τ, FrameTy fr Γ → check Γ (.call f args) = some τ →
    ResOk Γ fr tail τ (callNamed n cfg fr f (eraseEs args) tail st).1
  callVal : ∀ cfg fr c args tail st Γ req opt ret ats, FrameTy fr Γ → HasTy c (.fn req opt ret) →
    checkList Γ args = some ats → checkArgs req opt ats = true →
    ValOk ret (callVal n cfg fr c (eraseEs args) tail st).1
  evalList : ∀ cfg fr es st Γ ts, FrameTy fr Γ → checkList Γ es = some ts →
    ListOk ts (evalList n cfg fr (eraseEs es) st).1
  mkClos : ∀ cfg fr f st Γ σ, FrameTy fr Γ → checkFunc Γ f = some σ →
    ValOk σ (mkClos n cfg fr (eraseF f) st).1
  evalDflts : ∀ cfg fr ps st Γ req opt, FrameTy fr Γ → checkParams Γ ps = some (req, opt) →
    DfltsOk opt (evalDflts n cfg fr (erasePs ps) st).1
  callUser : ∀ cfg h f dflts env args st req opt ret, HasTy (.clos f dflts env) (.fn req opt ret) → ArgsTy args req opt →
    ValOk ret (callUser n cfg h (.clos f dflts env) args st).1
  tramp : ∀ cfg h f dflts env args rec st req opt ret, HasTy (.clos f dflts env) (.fn req opt ret) → ArgsTy args req opt →
    ValOk ret (tramp n cfg h (.clos f dflts env) args rec st).1
  evalDecls : ∀ cfg fr ds st Γ Γ', FrameTy fr Γ → checkDecls Γ ds = some Γ' →
    DeclsOk fr Γ' (evalDecls n cfg fr (eraseDs ds) st).1
  builtin : ∀ cfg fr f args tail st Γ ats τ, FrameTy fr Γ → checkList Γ args = some ats → builtinTy f ats = some τ →
    ResOk Γ fr tail τ (builtin n cfg fr f (eraseEs args) tail st).1

theorem inv_zero : Inv 0 := by
  constructor <;> intros <;>
    simp [eval, callNamed, callVal, evalList, mkClos, evalDflts, callUser, tramp, evalDecls, builtin,
      ResOk, ValOk, ListOk, DfltsOk, DeclsOk, ErrOk]

theorem firstErr_cons_ok {v : Val} {vs : List Val} (hv : ∀ m, v = .err m → False) (h : firstErr vs = none) :
    firstErr (v :: vs) = none := by
  cases v <;> simp_all [firstErr, Val.isErr]

theorem step_evalList {n : Nat} (ih : Inv n) : ∀ cfg fr es st Γ ts, FrameTy fr Γ → checkList Γ es = some ts →
    ListOk ts (evalList (n+1) cfg fr (eraseEs es) st).1 := by
  intro cfg fr es st Γ ts hfr hc
  cases es with
  | nil =>
    simp only [checkList, Option.some.injEq] at hc
    subst hc
    simp [eraseEs, evalList, ListOk, firstErr]
    exact .nil
  | cons e es =>
    simp only [checkList] at hc
    split at hc
    · rename_i t ts' hce hcl
      simp only [Option.some.injEq] at hc
      subst hc
      have ihe := ih.eval cfg fr e false st Γ t hfr hce
      simp only [eraseEs, evalList]
      split
      · rename_i m st' heq
        simp [ListOk, ErrOk, Val.isErr]
      · rename_i v st' hne heq
        rw [heq] at ihe
        simp only [ResOk] at ihe
        have ihl := ih.evalList cfg fr es st' Γ ts' hfr hcl
        generalize evalList n cfg fr (eraseEs es) st' = r at ihl ⊢
        obtain ⟨r1, r2⟩ := r
        cases r1 with
        | ok vs =>
          simp only [ListOk] at ihl ⊢
          exact ⟨.cons ihe ihl.1, firstErr_cons_ok hne ihl.2⟩
        | error x => simpa [ListOk] using ihl
      · rename_i a st' heq
        rw [heq] at ihe
        simp [ResOk] at ihe
      · rename_i r st' h1 h2 h3 heq
        rw [heq] at ihe
        cases r <;> simp_all [ResOk, ListOk, ErrOk]
    · cases hc


/-! ### reflexivity of assignability -/
theorem sub_refl : ∀ a : Ty, sub a a = true := by
  intro a
  refine Ty.rec (motive_1 := fun a => sub a a = true ∧ Ty.beq a a = true)
    (motive_2 := fun as => subList as as = true ∧ Ty.beqList as as = true)
    ?_ ?_ ?_ ?_ ?_ ?_ ?_ ?_ ?_ a |>.1
  all_goals simp_all [sub, subList, Ty.beq, Ty.beqList]

theorem eff_eq (fr : Frame) : (match fr.self with | some s => fr.env ++ [s] | none => fr.env) = fr.eff := by
  unfold Frame.eff
  cases fr.self <;> simp

theorem checkFunc_inv {Γ : TyEnv} {name : Option String} {ps : List TParam} {ret : Option Ty} {ds : List TDecl}
    {body : TExpr} {σ : Ty} (h : checkFunc Γ (.mk name ps ret ds body) = some σ) :
    ∃ req opt ρ, σ = .fn req opt ρ ∧ checkParams Γ ps = some (req, opt) ∧
      ∃ Γ' τ, checkDecls (paramEnv ps ++ Γ ++ (match name with | some n => [(n, Ty.fn req opt ρ)] | none => [])) ds = some Γ'
        ∧ check Γ' body = some τ ∧ sub τ ρ = true := by
  simp only [checkFunc] at h
  split at h
  · cases h
  · rename_i req opt hps
    split at h
    · -- named, declared result
      rename_i n ρ
      split at h
      · cases h
      · rename_i Γ' hds
        split at h
        · rename_i τ hb
          split at h
          · simp only [Option.some.injEq] at h
            subst h
            exact ⟨req, opt, ρ, rfl, hps, Γ', τ, hds, hb, by assumption⟩
          · cases h
        · cases h
    · cases h
    · rename_i ρ
      split at h
      · cases h
      · rename_i Γ' hds
        split at h
        · rename_i τ hb
          split at h
          · simp only [Option.some.injEq] at h
            subst h
            exact ⟨req, opt, ρ, rfl, hps, Γ', τ, by simpa using hds, hb, by assumption⟩
          · cases h
        · cases h
    · split at h
      · cases h
      · rename_i Γ' hds
        cases hb : check Γ' body with
        | none => simp [hb] at h
        | some τ =>
          simp only [hb, Option.map_some, Option.some.injEq] at h
          subst h
          exact ⟨req, opt, τ, rfl, hps, Γ', τ, by simpa using hds, hb, sub_refl τ⟩

theorem step_evalDflts {n : Nat} (ih : Inv n) : ∀ cfg fr ps st Γ req opt, FrameTy fr Γ → checkParams Γ ps = some (req, opt) →
    DfltsOk opt (evalDflts (n+1) cfg fr (erasePs ps) st).1 := by
  intro cfg fr ps st Γ req opt hfr hc
  cases ps with
  | nil =>
    simp only [checkParams, Option.some.injEq, Prod.mk.injEq] at hc
    obtain ⟨rfl, rfl⟩ := hc
    simp [erasePs, evalDflts, DfltsOk]
    exact .nil
  | cons p ps =>
    obtain ⟨nm, t, d⟩ := p
    cases d with
    | none =>
      simp only [checkParams] at hc
      split at hc
      · rename_i req' opt' hps
        simp only [Option.some.injEq, Prod.mk.injEq] at hc
        obtain ⟨rfl, rfl⟩ := hc
        simp only [erasePs, eraseP, evalDflts, Param.dflt_mk]
        exact ih.evalDflts cfg fr ps st Γ req' _ hfr hps
      · cases hc
    | some d =>
      simp only [checkParams] at hc
      split at hc
      · rename_i dt opt' hd hps
        split at hc
        · rename_i hsub
          simp only [Option.some.injEq, Prod.mk.injEq] at hc
          obtain ⟨rfl, rfl⟩ := hc
          have ihe := ih.eval cfg fr d false st Γ dt hfr hd
          simp only [erasePs, eraseP, evalDflts, Param.dflt_mk]
          split
          · rename_i v st' heq
            rw [heq] at ihe
            simp only [ResOk] at ihe
            have ihl := ih.evalDflts cfg fr ps st' Γ [] opt' hfr hps
            generalize evalDflts n cfg fr (erasePs ps) st' = r at ihl ⊢
            obtain ⟨r1, r2⟩ := r
            cases r1 with
            | ok vs =>
              simp only [DfltsOk] at ihl ⊢
              exact .cons (HasTy.mono _ _ hsub ihe) ihl
            | error x => simpa [DfltsOk] using ihl
          · rename_i a st' heq
            rw [heq] at ihe
            simp [ResOk] at ihe
          · rename_i r st' h1 h2 heq
            rw [heq] at ihe
            cases r <;> simp_all [ResOk, DfltsOk, ErrOk]
        · cases hc
      · cases hc

theorem step_mkClos {n : Nat} (ih : Inv n) : ∀ cfg fr f st Γ σ, FrameTy fr Γ → checkFunc Γ f = some σ →
    ValOk σ (mkClos (n+1) cfg fr (eraseF f) st).1 := by
  intro cfg fr f st Γ σ hfr hc
  obtain ⟨name, ps, ret, ds, body⟩ := f
  obtain ⟨req, opt, ρ, rfl, hps, _⟩ := checkFunc_inv hc
  have ihd := ih.evalDflts cfg fr ps st Γ req opt hfr hps
  simp only [eraseF, mkClos, Func.params]
  generalize evalDflts n cfg fr (erasePs ps) st = r at ihd ⊢
  obtain ⟨r1, r2⟩ := r
  cases r1 with
  | ok vs =>
    simp only [DfltsOk] at ihd
    simp only [ValOk]
    have hfr' : EnvTy (match fr.self with | some s => fr.env ++ [s] | none => fr.env) Γ := by rw [eff_eq]; exact hfr
    exact .clos hfr' hc (by simp [eraseF]) ihd
  | error x => simpa [DfltsOk] using ErrOk.valOk ihd

end XrayModel.CoreTyping
