import XrayProofs.LazyInt
