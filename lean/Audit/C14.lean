import Audit.Tools
import Props.C14
#audit_module Props.C14
