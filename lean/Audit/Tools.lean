import Lean
open Lean Elab Command

/-- `#audit_module M`: for every theorem declared in module `M`, print its name and the axioms its
proof depends on (`THEOREM <name> AXIOMS [..]`).  The driver parses these lines. -/
elab "#audit_module " m:ident : command => do
  let env ← getEnv
  let some idx := env.getModuleIdx? m.getId | throwError "unknown module {m.getId}"
  for n in env.header.moduleData[idx.toNat]!.constNames do
    if n.isInternalDetail then continue
    -- equation / induction lemmas that Lean generates on demand for *other* modules' definitions
    let last := match n with
      | .str _ s => s
      | _ => ""
    let isEqN := last.startsWith "eq_" && (last.drop 3).toString.length > 0 && (last.drop 3).toString.all Char.isDigit
    if last == "eq_def" || isEqN || last == "induct" || last == "induct_unfolding"
        || last == "fun_cases" || last == "fun_cases_unfolding" || last == "mutual_induct" then continue
    match env.find? n with
    | some (.thmInfo _) =>
      let axs ← liftCoreM (collectAxioms n)
      logInfo m!"THEOREM {n} AXIOMS {axs.toList}"
    | _ => pure ()
