import Audit.Tools
import Props.C02
#audit_module Props.C02
