import Audit.Tools
import Props.C16
#audit_module Props.C16
