import Audit.Tools
import Props.C18
#audit_module Props.C18
