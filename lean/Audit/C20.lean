import Audit.Tools
import Props.C20
#audit_module Props.C20
