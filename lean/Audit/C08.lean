import Audit.Tools
import Props.C08
#audit_module Props.C08
