import Audit.Tools
import Props.C12
#audit_module Props.C12
