import Audit.Tools
import Props.C05
#audit_module Props.C05
