import Audit.Tools
import Props.C07
#audit_module Props.C07
