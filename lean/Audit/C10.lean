import Audit.Tools
import Props.C10
#audit_module Props.C10
