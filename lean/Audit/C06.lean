import Audit.Tools
import Props.C06
#audit_module Props.C06
