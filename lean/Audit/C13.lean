import Audit.Tools
import Props.C13
#audit_module Props.C13
