import Audit.Tools
import Props.C11
#audit_module Props.C11
