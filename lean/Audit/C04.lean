import Audit.Tools
import Props.C04
#audit_module Props.C04
