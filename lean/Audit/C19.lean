import Audit.Tools
import Props.C19
#audit_module Props.C19
