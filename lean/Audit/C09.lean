import Audit.Tools
import Props.C09
#audit_module Props.C09
