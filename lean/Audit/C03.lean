import Audit.Tools
import Props.C03
#audit_module Props.C03
