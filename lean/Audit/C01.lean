import Audit.Tools
import Props.C01
#audit_module Props.C01
