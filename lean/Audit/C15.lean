import Audit.Tools
import Props.C15
#audit_module Props.C15
