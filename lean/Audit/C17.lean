import Audit.Tools
import Props.C17
#audit_module Props.C17
