/-
`xmodel`: line-protocol driver over the executable model.  One request per line on stdin, one
response per line on stdout.  `<engine> <op> <args…>` (split on single spaces; an engine that needs
structured payloads re-joins its arguments).  Unknown requests answer `bad-op` (never a default value).
-/
import Driver.Int
import Driver.Map
import Driver.Seq
import Driver.Gen
import Driver.Str
import Driver.Lex
import Driver.Ord
import Driver.Ty
import Driver.Ovl
import Driver.Alloc
import Driver.Perm
import Driver.Fl
import Driver.Conv
import Driver.Core
import Driver.Scope
import Driver.Typing
import Driver.Parse
open XrayDriver

def step (line : String) : String :=
  match (line.dropEndWhile (fun c => c == '\n' || c == '\r')).toString.splitOn " " with
  | "int" :: f :: args => intEngine f args
  | "map" :: f :: args => mapEngine f args
  | "seq" :: f :: args => seqEngine f args
  | "gen" :: f :: args => genEngine f args
  | "str" :: f :: args => strEngine f args
  | "lex" :: f :: args => lexEngine f args
  | "ord" :: f :: args => ordEngine f args
  | "ty" :: f :: args => tyEngine f args
  | "ovl" :: f :: args => ovlEngine f args
  | "alloc" :: f :: args => allocEngine f args
  | "perm" :: f :: args => permEngine f args
  | "fl" :: f :: args => flEngine f args
  | "conv" :: f :: args => convEngine f args
  | "core" :: f :: args => coreEngine f args
  | "scope" :: f :: args => scopeEngine f args
  | "typing" :: f :: args => typingEngine f args
  | "parse" :: f :: args => parseEngine f args
  | _ => "bad-op"

partial def loop (h : IO.FS.Stream) (out : IO.FS.Stream) : IO Unit := do
  let line ← h.getLine
  if line.isEmpty then return ()
  out.putStrLn (step line)
  loop h out

def main : IO Unit := do
  let out ← IO.getStdout
  loop (← IO.getStdin) out
  out.flush
