/-
C19 — Derived equality, hash, order and text are coherent; sorting is right.
Property theorems only; helper lemmas live in XrayProofs.{Sort,Derive,Format}.

Sorting (`XrayModel/Sort.lean` = the functional reading of `/repo/src/util/trysort.rs`):
a comparator is `lt : Nat → α → α → Except ε Bool`, its first argument being the index of the
comparison within the call, so "fails at the k-th comparison" can be said.  `Res.ok ys n'` = finished
with `ys` after `n'` comparisons, `Res.fail e buf n'` = comparison `n'-1` failed with `e` and the
caller's buffer holds `buf`, `Res.panic` = the `debug_assert!` at the end of `try_sort`.
-/
import XrayProofs.Sort
namespace XrayModel.C19
open XrayModel XrayModel.Sort

variable {ε α : Type}

/-- `try_sort` never reaches the final `debug_assert!` (nor runs out of the model's loop fuel),
whatever the comparator does -/
theorem sort_no_panic (lt : Cmp ε α) (xs : List α) (n : Nat) : trySort lt xs n ≠ .panic := by
  intro h
  have := trySort_good lt xs n
  rw [h] at this
  exact this

/-- the result of a successful sort is a permutation of the input — for EVERY comparator (no order
axioms needed) -/
theorem sort_perm (lt : Cmp ε α) (xs ys : List α) (n n' : Nat)
    (h : trySort lt xs n = .ok ys n') : ys.Perm xs := by
  have := trySort_good lt xs n
  rw [h] at this
  exact this.1

/-- a comparator failure is returned as that failure, and the buffer the caller is left with (after
the `InsertionHole` / `MergeHole` guards have run) holds every element exactly once: nothing lost,
nothing duplicated.  Moreover the failure reported is the failure of the LAST comparison made
(index `n'-1`), and every earlier comparison had answered. -/
theorem sort_fail_conserves (lt : Cmp ε α) (xs buf : List α) (e : ε) (n n' : Nat)
    (h : trySort lt xs n = .fail e buf n') :
    buf.Perm xs ∧ n < n' ∧ (∃ a b, lt (n' - 1) a b = .error e) ∧
      ∀ i, n ≤ i → i < n' - 1 → ∃ a b r, lt i a b = .ok r := by
  have := trySort_good lt xs n
  rw [h] at this
  exact ⟨this.1, this.2.1, this.2.2.2, this.2.2.1⟩

/-- for every `k`: a comparator that fails (with `e`) exactly at its `k`-th call makes the sort either
finish normally having made at most `k` comparisons, or return exactly that failure right after
comparison `k` with a buffer that is a permutation of the input -/
theorem sort_fail_at_k (lt : Cmp ε α) (xs : List α) (e : ε) (k : Nat)
    (hk : ∀ a b, lt k a b = .error e) (hother : ∀ i, i ≠ k → ∀ a b, ∃ r, lt i a b = .ok r) :
    (∃ ys n', trySort lt xs 0 = .ok ys n' ∧ n' ≤ k ∧ ys.Perm xs) ∨
    (∃ buf, trySort lt xs 0 = .fail e buf (k + 1) ∧ buf.Perm xs) := by
  have hg := trySort_good lt xs 0
  cases hr : trySort lt xs 0 with
  | ok ys n' =>
    rw [hr] at hg
    refine Or.inl ⟨ys, n', rfl, ?_, hg.1⟩
    apply Nat.le_of_not_lt
    intro hlt
    obtain ⟨a, b, r, hab⟩ := hg.2.2 k (Nat.zero_le _) hlt
    rw [hk a b] at hab
    cases hab
  | fail e' buf n' =>
    rw [hr] at hg
    obtain ⟨hp, hn, _, a, b, hab⟩ := hg
    have hk' : n' - 1 = k := by
      apply Classical.byContradiction
      intro hne
      obtain ⟨r, hr'⟩ := hother (n' - 1) hne a b
      rw [hr'] at hab
      cases hab
    have : n' = k + 1 := by omega
    subst this
    rw [hk', hk a b] at hab
    cases hab
    exact Or.inr ⟨buf, rfl, hp⟩
  | panic => rw [hr] at hg; exact hg.elim

/-- the hypotheses of `sort_fail_at_k` are satisfiable and both alternatives occur -/
example : trySort (fun i (a b : Nat) => if i = 1 then .error "E" else .ok (decide (a < b))) [3, 1, 2] 0
    = .fail "E" [3, 1, 2] 2 := by decide
example : trySort (fun i (a b : Nat) => if i = 7 then (.error "E" : Except String Bool) else .ok (decide (a < b))) [3, 1, 2] 0
    = .ok [1, 2, 3] 3 := by decide

end XrayModel.C19
