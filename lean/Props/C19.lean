/-
C19 — Derived equality, hash, order and text are coherent; sorting is right.
Property theorems only; helper lemmas live in XrayProofs.{Sort,Derive,Format}.

Sorting (`XrayModel/Sort.lean` = the functional reading of `/repo/src/util/trysort.rs`):
a comparator is `lt : Nat → α → α → Except ε Bool`, its first argument being the index of the
comparison within the call, so "fails at the k-th comparison" can be said.  `Res.ok ys n'` = finished
with `ys` after `n'` comparisons, `Res.fail e buf n'` = comparison `n'-1` failed with `e` and the
caller's buffer holds `buf`, `Res.panic` = the `debug_assert!` at the end of `try_sort`.
-/
import XrayProofs.Sort
import XrayProofs.Derive
import XrayProofs.Format
namespace XrayModel.C19
open XrayModel XrayModel.Sort

variable {ε α : Type}

/-- `try_sort` never reaches the final `debug_assert!` (nor runs out of the model's loop fuel),
whatever the comparator does -/
theorem sort_no_panic (lt : Cmp ε α) (xs : List α) (n : Nat) : trySort lt xs n ≠ .panic := by
  intro h
  have := trySort_good lt xs n
  rw [h] at this
  exact this

/-- the result of a successful sort is a permutation of the input — for EVERY comparator (no order
axioms needed) -/
theorem sort_perm (lt : Cmp ε α) (xs ys : List α) (n n' : Nat)
    (h : trySort lt xs n = .ok ys n') : ys.Perm xs := by
  have := trySort_good lt xs n
  rw [h] at this
  exact this.1

/-- a comparator failure is returned as that failure, and the buffer the caller is left with (after
the `InsertionHole` / `MergeHole` guards have run) holds every element exactly once: nothing lost,
nothing duplicated.  Moreover the failure reported is the failure of the LAST comparison made
(index `n'-1`), and every earlier comparison had answered. -/
theorem sort_fail_conserves (lt : Cmp ε α) (xs buf : List α) (e : ε) (n n' : Nat)
    (h : trySort lt xs n = .fail e buf n') :
    buf.Perm xs ∧ n < n' ∧ (∃ a b, lt (n' - 1) a b = .error e) ∧
      ∀ i, n ≤ i → i < n' - 1 → ∃ a b r, lt i a b = .ok r := by
  have := trySort_good lt xs n
  rw [h] at this
  exact ⟨this.1, this.2.1, this.2.2.2, this.2.2.1⟩

/-- for every `k`: a comparator that fails (with `e`) exactly at its `k`-th call makes the sort either
finish normally having made at most `k` comparisons, or return exactly that failure right after
comparison `k` with a buffer that is a permutation of the input -/
theorem sort_fail_at_k (lt : Cmp ε α) (xs : List α) (e : ε) (k : Nat)
    (hk : ∀ a b, lt k a b = .error e) (hother : ∀ i, i ≠ k → ∀ a b, ∃ r, lt i a b = .ok r) :
    (∃ ys n', trySort lt xs 0 = .ok ys n' ∧ n' ≤ k ∧ ys.Perm xs) ∨
    (∃ buf, trySort lt xs 0 = .fail e buf (k + 1) ∧ buf.Perm xs) := by
  have hg := trySort_good lt xs 0
  cases hr : trySort lt xs 0 with
  | ok ys n' =>
    rw [hr] at hg
    refine Or.inl ⟨ys, n', rfl, ?_, hg.1⟩
    apply Nat.le_of_not_lt
    intro hlt
    obtain ⟨a, b, r, hab⟩ := hg.2.2 k (Nat.zero_le _) hlt
    rw [hk a b] at hab
    cases hab
  | fail e' buf n' =>
    rw [hr] at hg
    obtain ⟨hp, hn, _, a, b, hab⟩ := hg
    have hk' : n' - 1 = k := by
      apply Classical.byContradiction
      intro hne
      obtain ⟨r, hr'⟩ := hother (n' - 1) hne a b
      rw [hr'] at hab
      cases hab
    have : n' = k + 1 := by omega
    subst this
    rw [hk', hk a b] at hab
    cases hab
    exact Or.inr ⟨buf, rfl, hp⟩
  | panic => rw [hr] at hg; exact hg.elim

/-- the hypotheses of `sort_fail_at_k` are satisfiable and both alternatives occur -/
example : trySort (fun i (a b : Nat) => if i = 1 then .error "E" else .ok (decide (a < b))) [3, 1, 2] 0
    = .fail "E" [3, 1, 2] 2 := by decide
example : trySort (fun i (a b : Nat) => if i = 7 then (.error "E" : Except String Bool) else .ok (decide (a < b))) [3, 1, 2] 0
    = .ok [1, 2, 3] 3 := by decide

/-! ### ordered, stable — equal to the reference stable sort

`StrictWeak r`: `r` ("strictly less") is irreflexive, transitive and negatively transitive — total
orders, and preorders with ties (compare by a key), are instances.  `Pure lt r`: the comparator never
fails and decides `r`.  The reference stable sort is insertion sort `isort r` (an element goes before
the first one that is not strictly smaller, so tied elements keep their input order). -/

/-- **`try_sort` computes the reference stable sort** (both paths: insertion sort for `len ≤ 20`, and
natural runs + `MIN_RUN` extension + run stack + two-directional merges above) -/
theorem sort_eq_reference {r : α → α → Bool} (hs : StrictWeak r) (lt : Cmp ε α) (hp : Pure lt r)
    (xs : List α) (n : Nat) : ∃ n', trySort lt xs n = .ok (isort r xs) n' := by
  obtain ⟨ys, n', h⟩ := trySort_pure_ok hp xs n
  exact ⟨n', by rw [h, trySort_spec hs hp h]⟩

/-- the result is ordered w.r.t. the comparator: no element is strictly smaller than an earlier one -/
theorem sort_sorted {r : α → α → Bool} (hs : StrictWeak r) (lt : Cmp ε α) (hp : Pure lt r)
    (xs : List α) (n : Nat) :
    ∃ ys n', trySort lt xs n = .ok ys n' ∧ ys.Pairwise (fun a b => r b a = false) ∧ ys.Perm xs := by
  obtain ⟨n', h⟩ := sort_eq_reference hs lt hp xs n
  exact ⟨_, n', h, (stableSorted_isort hs xs).1, sort_perm lt xs _ n n' h⟩

/-- stability: for every element `c`, the elements tied with `c` appear in the result in exactly the
order they had in the input -/
theorem sort_stable {r : α → α → Bool} (hs : StrictWeak r) (lt : Cmp ε α) (hp : Pure lt r)
    (xs : List α) (n : Nat) :
    ∃ ys n', trySort lt xs n = .ok ys n' ∧
      ∀ c, ys.filter (fun x => !r c x && !r x c) = xs.filter (fun x => !r c x && !r x c) := by
  obtain ⟨n', h⟩ := sort_eq_reference hs lt hp xs n
  exact ⟨_, n', h, fun c => (stableSorted_isort hs xs).2 c⟩

/-- an ordered rearrangement that keeps tied elements in input order is unique, so the two theorems
above pin the result down completely -/
theorem sorted_stable_unique {r : α → α → Bool} (hs : StrictWeak r) (xs ys : List α)
    (h1 : ys.Pairwise (fun a b => r b a = false))
    (h2 : ∀ c, ys.filter (fun x => !r c x && !r x c) = xs.filter (fun x => !r c x && !r x c)) :
    ys = isort r xs :=
  eq_isort_of_stableSorted hs ⟨h1, h2⟩

/-- the hypotheses are satisfiable: comparing naturals by `x / 10` is a strict weak order with ties -/
example : StrictWeak (fun a b : Nat => decide (a / 10 < b / 10)) :=
  ⟨by simp, by intro a b c; simp; omega, by intro a b c; simp; omega⟩

/-- `XSequence::sorted` (sequence.rs:304-357: pre-check of adjacent pairs with `cmp > 0`, then `try_sort`
with `is_less = cmp < 0`): for a three-way comparison `c3` whose "negative" part is a strict weak order
and which is antisymmetric in sign, the answer is the stable sort — `none` meaning "the input itself" -/
theorem seqSorted_spec {c3 : α → α → Int} (cmp : Cmp3 ε α) (hp : ∀ i a b, cmp i a b = .ok (c3 a b))
    (hs : StrictWeak (fun a b => decide (c3 a b < 0))) (hanti : ∀ a b, c3 a b > 0 ↔ c3 b a < 0)
    (xs : List α) :
    ∃ n', seqSorted cmp xs = .ok none n' ∧ xs = isort (fun a b => decide (c3 a b < 0)) xs ∨
          seqSorted cmp xs = .ok (some (isort (fun a b => decide (c3 a b < 0)) xs)) n' := by
  have hpl : Pure (ltOf cmp) (fun a b => decide (c3 a b < 0)) := by
    intro i a b; simp [ltOf, hp]
  unfold seqSorted
  cases hpre : isSortedPre cmp xs 0 with
  | ok b m =>
    cases b with
    | true =>
      refine ⟨m, Or.inl ⟨by simp [Res.failCtx, Res.bind], ?_⟩⟩
      have hch := isSortedPre_true_spec hp hpre
      have hsorted : Sorted (fun a b => decide (c3 a b < 0)) xs := by
        apply sorted_of_chain hs
        refine hch.imp ?_
        intro a b hab
        simpa [← hanti] using hab
      exact eq_isort_of_stableSorted hs ⟨hsorted, fun _ => rfl⟩
    | false =>
      obtain ⟨n', h⟩ := sort_eq_reference hs (ltOf cmp) hpl xs m
      exact ⟨n', Or.inr (by simp [Res.failCtx, Res.bind, h, Res.map])⟩
  | fail e b m =>
    exfalso
    have : ∀ (l : List α) (n : Nat) e b m, isSortedPre cmp l n ≠ .fail e b m := by
      intro l
      induction l with
      | nil => intro n e b m; simp [isSortedPre]
      | cons a t ih =>
        intro n e b m
        cases t with
        | nil => simp [isSortedPre]
        | cons c t =>
          simp only [isSortedPre, hp n a c]
          split
          · simp
          · exact ih (n + 1) e b m
    exact this _ _ _ _ _ hpre
  | panic =>
    exfalso
    have : ∀ (l : List α) (n : Nat), isSortedPre cmp l n ≠ .panic := by
      intro l
      induction l with
      | nil => intro n; simp [isSortedPre]
      | cons a t ih =>
        intro n
        cases t with
        | nil => simp [isSortedPre]
        | cons c t =>
          simp only [isSortedPre, hp n a c]
          split
          · simp
          · exact ih (n + 1)
    exact this _ _ hpre

/-! ### `TryHeap` and `quickselect`: conservation for every comparator

(`Conserves P xs r`: the array in an `ok` payload, or the array a failure leaves behind, is a
permutation of `xs`; a `panic` outcome — an out-of-bounds index — claims nothing.) -/

/-- `push`: afterwards the heap holds the old elements and the new one — also when the comparator
fails while sifting up (the `Hole` guard puts the element back) -/
theorem heap_push_conserves (le : Cmp ε α) (data : List α) (item : α) (n : Nat) :
    Conserves id (data ++ [item]) (Heap.push le data item n) :=
  Heap.push_conserves le data item n

/-- `pop`: the element returned together with the remaining heap is the old heap; when the comparator
fails while sifting down, the remaining heap together with the element that had been taken out (and is
dropped with the error) is the old heap: nothing is lost or duplicated -/
theorem heap_pop_conserves (le : Cmp ε α) (data : List α) (n : Nat) :
    Heap.PopPost data (Heap.pop le data n) := by
  unfold Heap.pop
  cases hl : data.getLast? with
  | none =>
    have : data = [] := List.getLast?_eq_none_iff.mp hl
    simp [this, Heap.PopPost]
  | some last =>
    simp only
    have hdata : data = data.dropLast ++ [last] := by
      have := List.dropLast_append_getLast? last (by simpa using hl)
      exact this.symm
    cases hd : data.dropLast with
    | nil =>
      simp only
      rw [hd] at hdata
      rw [hdata]; simp [Heap.PopPost]
    | cons root t =>
      simp only
      have hc := Heap.siftDownToBottom_conserves le ((root :: t).set 0 last) 0 n
      have hperm : (root :: (root :: t).set 0 last).Perm data := by
        rw [hdata, hd]
        simp only [List.set_cons_zero]
        refine (List.Perm.swap last root t).trans ?_
        simpa using (List.perm_append_comm (l₁ := [last]) (l₂ := root :: t))
      have hhead : data.head? = some root := by rw [hdata, hd]; rfl
      revert hc
      cases Heap.siftDownToBottom le ((root :: t).set 0 last) 0 n with
      | ok d' m => intro hc; exact ((List.Perm.cons root hc).trans hperm)
      | fail e b m => intro hc; exact ⟨root, hhead, (List.Perm.cons root hc).trans hperm⟩
      | panic => intro _; trivial

/-- `quickselect` (`nth_smallest` / `nth_largest` / `median`): the selected element is an element of the
array, the array is only permuted, and a comparator failure leaves a permutation behind -/
theorem quickselect_conserves (cmp : Cmp3 ε α) (arr : List α) (target : Nat) :
    Select.Post arr (Select.quickselect cmp arr target) := by
  unfold Select.quickselect
  split
  · trivial
  · have hc := Select.selectLoop_conserves cmp target (arr.length + 1) arr 0 (arr.length - 1) 0
    cases hr : Select.selectLoop cmp target (arr.length + 1) arr 0 (arr.length - 1) 0 with
    | ok v m =>
      obtain ⟨x, arr'⟩ := v
      rw [hr] at hc
      exact ⟨hc, hc.subset (Select.selectLoop_mem cmp _ _ _ _ _ _ _ _ _ hr)⟩
    | fail e b m => rw [hr] at hc; exact hc
    | panic => trivial

/-- since the repair 9e13c00 (the pivot is no longer compared with itself): for EVERY comparator —
inconsistent ones included, e.g. one that always answers -1 — and every rank inside the array,
`quickselect` never indexes out of bounds (no `panic` outcome, nor the model's fuel) -/
theorem quickselect_no_panic (cmp : Cmp3 ε α) (arr : List α) (target : Nat) (ht : target < arr.length) :
    Select.quickselect cmp arr target ≠ .panic :=
  Select.quickselect_ok cmp arr target ht

/-! ### `TryHeap`: heap property, `n_largest` / `n_smallest`

`Heap.TotalLe r`: `is_le` is total and transitive (a total preorder).  `Heap.HeapInv r d`: every entry of
the array is `is_le` its parent's (index `(i-1)/2`).  `Select.PureSat Q res`: the routine answers `ok`
(no failure, no out-of-bounds panic, fuel suffices) with a payload satisfying `Q`. -/

/-- `push` keeps the heap property (and, by `heap_push_conserves`, the multiset plus the new element) -/
theorem heap_push_preserves {r : α → α → Bool} (le : Cmp ε α) (hp : Pure le r) (ht : Heap.TotalLe r)
    (data : List α) (item : α) (n : Nat) (hd : Heap.HeapInv r data) :
    Select.PureSat (fun d : List α => Heap.HeapInv r d) (Heap.push le data item n) :=
  Heap.push_heap hp ht data item n hd

/-- `pop` on a heap: the empty heap gives `none`; otherwise the returned element together with the rest is
the old multiset, the rest is a heap again, and the returned element is one that no entry exceeds -/
theorem heap_pop_preserves {r : α → α → Bool} (le : Cmp ε α) (hp : Pure le r) (ht : Heap.TotalLe r)
    (data : List α) (n : Nat) (hd : Heap.HeapInv r data) :
    Select.PureSat (Heap.PopSpec r data) (Heap.pop le data n) :=
  Heap.pop_spec hp ht data n hd

/-- **`n_largest` / `n_smallest`** (push everything, pop `n` times): the answer has `min n len` entries,
together with some `rest` it is a permutation of the input, every entry is `is_le`-not-exceeded by the
later entries and by everything in `rest` — i.e. it is the first `n` of the input sorted downwards w.r.t.
`is_le`, up to ties.  (`is_le = cmp ≤ 0` gives the `n` largest in descending order, `is_le = cmp ≥ 0` the
`n` smallest in ascending order.) -/
theorem heap_nlargest_spec {r : α → α → Bool} (le : Cmp ε α) (hp : Pure le r) (ht : Heap.TotalLe r)
    (n : Nat) (xs : List α) :
    Select.PureSat (Heap.NLargestSpec r xs n) (Heap.nLargest le n xs) :=
  Heap.nLargest_spec hp ht n xs

/-- the hypotheses are satisfiable (`≤` on the integers), and the statement is not vacuous -/
example : Heap.TotalLe (fun a b : Int => decide (a ≤ b)) :=
  ⟨fun a b => by simp; omega, fun a b c => by simp; omega⟩
example : Heap.nLargest (fun _ (a b : Int) => (.ok (decide (a ≤ b)) : Except String Bool)) 2 [3, 1, 4, 1, 5]
    = .ok [5, 4] 9 := by decide

/-! ### `quickselect` / `nth_smallest` / `nth_largest` / `median`: the rank asked for

`Select.Pure3 cmp c3`: the comparator never fails and computes the three-way result `c3`.
`Select.TotalPre c3`: `c3` is a total preorder — `c3 a b = -1` ("below") iff `c3 b a = 1` ("above"), and
"not above" is transitive; everything else counts as tied.  "`x` has rank `k`" is said by counting: at most
`k` elements are strictly below `x` and more than `k` are not above it, which is exactly "tied with what a
sort of the input puts at index `k`". -/

/-- the model of `quickselect` (the code after `fix:` 9e13c00) answers — no failure, no panic, the fuel
`len + 1` suffices — with an element of the input of rank `k`, for every input and every `k < len` -/
theorem quickselect_spec {c3 : α → α → Int} (cmp : Cmp3 ε α) (hp : Select.Pure3 cmp c3)
    (ht : Select.TotalPre c3) (arr : List α) (k : Nat) (hk : k < arr.length) :
    ∃ x arr' n, Select.quickselect cmp arr k = .ok (x, arr') n ∧ x ∈ arr ∧ arr'.Perm arr ∧
      arr.countP (fun y => decide (c3 y x = -1)) ≤ k ∧ k < arr.countP (fun y => decide (c3 y x ≠ 1)) :=
  Select.quickselect_rank hp ht arr k hk

/-- the hypothesis is satisfiable: integer comparison -/
example : Select.TotalPre (fun a b : Int => if a < b then -1 else if b < a then 1 else 0) :=
  Select.int_totalPre

/-- `nth_smallest(i)`: the error value iff `i` is out of range, else the element of rank `i` -/
theorem nth_smallest_spec {c3 : α → α → Int} (cmp : Cmp3 ε α) (hp : Select.Pure3 cmp c3)
    (ht : Select.TotalPre c3) (arr : List α) (i : Nat) :
    (arr.length ≤ i → Select.nthSmallest cmp arr i = none) ∧
    (i < arr.length → ∃ x arr' n, Select.nthSmallest cmp arr i = some (.ok (x, arr') n) ∧ x ∈ arr ∧
      arr.countP (fun y => decide (c3 y x = -1)) ≤ i ∧ i < arr.countP (fun y => decide (c3 y x ≠ 1))) := by
  constructor
  · intro h; simp [Select.nthSmallest, h]
  · intro h
    obtain ⟨x, arr', n, q1, q2, _, q4, q5⟩ := quickselect_spec cmp hp ht arr i h
    exact ⟨x, arr', n, by simp [Select.nthSmallest, Nat.not_le.mpr h, q1], q2, q4, q5⟩

/-- `median`: the element of rank `len / 2` (the error value for an empty sequence) -/
theorem median_spec {c3 : α → α → Int} (cmp : Cmp3 ε α) (hp : Select.Pure3 cmp c3)
    (ht : Select.TotalPre c3) (arr : List α) :
    (arr = [] → Select.median cmp arr = none) ∧
    (arr ≠ [] → ∃ x arr' n, Select.median cmp arr = some (.ok (x, arr') n) ∧ x ∈ arr ∧
      arr.countP (fun y => decide (c3 y x = -1)) ≤ arr.length / 2 ∧
      arr.length / 2 < arr.countP (fun y => decide (c3 y x ≠ 1))) := by
  constructor
  · intro h; subst h; rfl
  · intro h
    have hl : arr.length / 2 < arr.length := by
      have : 0 < arr.length := List.length_pos_iff.mpr h
      omega
    exact (nth_smallest_spec cmp hp ht arr (arr.length / 2)).2 hl

/-- `nth_largest(i)`: counted from the top — at most `i` elements are strictly above the answer and more
than `i` are not below it -/
theorem nth_largest_spec {c3 : α → α → Int} (cmp : Cmp3 ε α) (hp : Select.Pure3 cmp c3)
    (ht : Select.TotalPre c3) (arr : List α) (i : Nat) :
    (arr.length ≤ i → Select.nthLargest cmp arr i = none) ∧
    (i < arr.length → ∃ x arr' n, Select.nthLargest cmp arr i = some (.ok (x, arr') n) ∧ x ∈ arr ∧
      arr.countP (fun y => decide (c3 y x = 1)) ≤ i ∧ i < arr.countP (fun y => decide (c3 y x ≠ -1))) := by
  constructor
  · intro h; simp [Select.nthLargest, h]
  · intro h
    obtain ⟨x, arr', n, q1, q2, _, q4, q5⟩ :=
      quickselect_spec cmp hp ht arr (arr.length - i - 1) (by omega)
    refine ⟨x, arr', n, by simp [Select.nthLargest, Nat.not_le.mpr h, q1], q2, ?_, ?_⟩
    · have := List.length_eq_countP_add_countP (fun y => decide (c3 y x = 1)) (l := arr)
      have e : arr.countP (fun a => decide ¬(decide (c3 a x = 1)) = true) =
          arr.countP (fun y => decide (c3 y x ≠ 1)) := by
        apply List.countP_congr; intro y _; simp
      omega
    · have := List.length_eq_countP_add_countP (fun y => decide (c3 y x = -1)) (l := arr)
      have e : arr.countP (fun a => decide ¬(decide (c3 a x = -1)) = true) =
          arr.countP (fun y => decide (c3 y x ≠ -1)) := by
        apply List.countP_congr; intro y _; simp
      omega

/-! ## derived eq / hash / cmp and the relational operators

`PureEq f g` etc.: the component function never answers an error value and computes `g`.
`BEquiv g`: `g` is reflexive, symmetric, transitive. -/
section derive
open XrayModel.Derive

variable {β σ : Type}

/-- derived `eq` of sequences (and of stacks: `stackEq` is the same code) is an equivalence if the
element `eq` is -/
theorem derived_eq_equiv_seq {f : β → β → R Bool} {g : β → β → Bool} (hp : PureEq f g) (hg : BEquiv g) :
    PureEq (seqEq f) (seqEqB g) ∧ PureEq (stackEq f) (seqEqB g) ∧ BEquiv (seqEqB g) :=
  ⟨seqEq_pure hp, seqEq_pure hp, seqEqB_equiv hg⟩

/-- derived `eq` of optionals is an equivalence if the payload `eq` is -/
theorem derived_eq_equiv_opt {f : β → β → R Bool} {g : β → β → Bool} (hp : PureEq f g) (hg : BEquiv g) :
    PureEq (optEq f) (optEqB g) ∧ BEquiv (optEqB g) :=
  ⟨optEq_pure hp, optEqB_equiv hg⟩

/-- derived `eq` of tuples (one component relation per position) is an equivalence on the tuples of
that type (lists with as many components as there are positions) -/
theorem derived_eq_equiv_tuple {fs : List (β → β → R Bool)} {gs : List (β → β → Bool)}
    (hp : List.Forall₂ PureEq fs gs) (hg : ∀ g ∈ gs, BEquiv g) :
    (∀ t0 t1, tupleEq fs t0 t1 = .ok (all2s gs t0 t1)) ∧
    (∀ t, all2s gs t t = true) ∧
    (∀ t0 t1, all2s gs t0 t1 = true → all2s gs t1 t0 = true) ∧
    (∀ t0 t1 t2, t1.length = gs.length → all2s gs t0 t1 = true → all2s gs t1 t2 = true →
      all2s gs t0 t2 = true) :=
  ⟨tupleEq_pure hp, (all2s_equiv hg).1, (all2s_equiv hg).2.1, (all2s_equiv hg).2.2⟩

/-- equal sequences (stacks) have equal hashes, whatever the hasher, if equal elements do -/
theorem hash_congr_seq (H : Hasher σ) {f : β → β → R Bool} {g : β → β → Bool} {hf : β → R Int}
    {k : β → Int} (hp : PureEq f g) (hh : PureHash hf k) (hc : ∀ a b, g a b = true → k a = k b)
    (l0 l1 : List β) (he : seqEq f l0 l1 = .ok true) :
    seqHash H hf l0 = seqHash H hf l1 ∧ stackHash H hf l0 = stackHash H hf l1 := by
  rw [seqEq_pure hp l0 l1] at he
  have he' : seqEqB g l0 l1 = true := by simpa using he
  simp only [seqEqB, Bool.and_eq_true, beq_iff_eq] at he'
  have := all2_map_eq hc l0 l1 he'.1 he'.2
  simp only [seqHash, stackHash, map_pure hh, this, and_self]

/-- every derived hash that goes through the hasher lies in `[0, 2^64)` (tuples, sequences, stacks) -/
theorem hash_range_seq (H : Hasher σ) (hfin : ∀ s, H.finish s < U64) (hf : β → R Int) (l : List β)
    (v : Int) (e : seqHash H hf l = .ok v) : 0 ≤ v ∧ v < (2 : Int) ^ 64 := by
  have := hashFold_range H hfin H.init (l.map hf) v e
  simpa [U64] using this

theorem hash_range_tuple (H : Hasher σ) (hfin : ∀ s, H.finish s < U64) (fs : List (β → R Int))
    (t : List β) (v : Int) (e : tupleHash H fs t = .ok v) : 0 ≤ v ∧ v < (2 : Int) ^ 64 := by
  have := hashFold_range H hfin H.init _ v e
  simpa [U64] using this

/-- optionals: `hash(none) = 0`, `hash(some(x)) = hash(x)`; congruent with the derived `eq` -/
theorem hash_congr_opt {f : β → β → R Bool} {g : β → β → Bool} {hf : β → R Int} {k : β → Int}
    (hp : PureEq f g) (hh : PureHash hf k) (hc : ∀ a b, g a b = true → k a = k b)
    (o0 o1 : Option β) (he : optEq f o0 o1 = .ok true) : optHash hf o0 = optHash hf o1 := by
  rw [optEq_pure hp o0 o1] at he
  have he' : optEqB g o0 o1 = true := by simpa using he
  cases o0 with
  | none => cases o1 <;> simp_all [optEqB, optHash]
  | some a =>
    cases o1 with
    | none => simp_all [optEqB, optHash]
    | some b =>
      simp only [optEqB] at he'
      simp only [optHash, hh a, hh b, hc a b he']

/- set / mapping `hash` congruence (equal sets hash equally, range) is proved in `Props/C17.lean`
(`set_hash_congr` and the mapping analogue) on C17's bucket model; not restated here. -/

/-- derived `cmp` of sequences is lexicographic over the elements (a proper prefix comes first), is
zero exactly on `eq`-equal sequences, is sign-antisymmetric and transitive: a total order consistent
with `eq` — provided the element `cmp` is one (`Cmp3Ord`) -/
theorem cmp_total_lex {f : β → β → R Int} {c : β → β → Int} {g : β → β → Bool}
    (hp : PureCmp f c) (hc : Cmp3Ord c g) :
    PureCmp (seqCmp f) (seqCmpI c) ∧
    (∀ a b l0 l1, seqCmpI c (a :: l0) (b :: l1) = if c a b ≠ 0 then c a b else seqCmpI c l0 l1) ∧
    seqCmpI c [] [] = 0 ∧ (∀ b l, seqCmpI c [] (b :: l) = -1) ∧ (∀ a l, seqCmpI c (a :: l) [] = 1) ∧
    (∀ l0 l1, seqCmpI c l0 l1 = 0 ↔ seqEqB g l0 l1 = true) ∧
    (∀ l0 l1, seqCmpI c l0 l1 < 0 ↔ seqCmpI c l1 l0 > 0) ∧
    (∀ l0 l1 l2, seqCmpI c l0 l1 < 0 → seqCmpI c l1 l2 < 0 → seqCmpI c l0 l2 < 0) :=
  ⟨seqCmp_pure hp, seqCmpI_cons c, seqCmpI_nil_nil c, seqCmpI_nil_cons c, seqCmpI_cons_nil c,
   seqCmpI_zero_iff hc, seqCmpI_anti hc, seqCmpI_trans hc⟩

/-- `Cmp3Ord` is satisfiable: `int`'s `cmp` -/
example : Cmp3Ord (fun a b : Int => Derive.sign (a - b)) (fun a b => a == b) := int_cmp3ord

/-- `ne / lt / le / gt / ge / min / max` agree with `eq` and `cmp` -/
theorem rel_ops_agree {fe : β → β → R Bool} {g : β → β → Bool} {fc : β → β → R Int} {c : β → β → Int}
    (he : PureEq fe g) (hp : PureCmp fc c) (hc : Cmp3Ord c g) (a b : β) :
    Derive.ne fe a b = .ok (!g a b) ∧
    Derive.lt fc a b = .ok (decide (c a b < 0)) ∧
    Derive.gt fc a b = .ok (decide (c b a < 0)) ∧
    Derive.le fc a b = .ok (decide (c a b < 0) || g a b) ∧
    Derive.ge fc a b = .ok (decide (c b a < 0) || g a b) ∧
    Derive.max (Derive.lt fc) a b = .ok (if c a b < 0 then b else a) ∧
    Derive.min (Derive.lt fc) a b = .ok (if c b a < 0 then b else a) := by
  have h1 := hc.anti a b
  have h2 := hc.anti b a
  have h3 := hc.zero_iff a b
  have hg : g a b = decide (c a b = 0) := by
    cases hgab : g a b with
    | true => simp [h3.mpr hgab]
    | false =>
      have : ¬ c a b = 0 := fun e => by rw [h3.mp e] at hgab; cases hgab
      simp [this]
  refine ⟨?_, ?_, ?_, ?_, ?_, ?_, ?_⟩
  · simp [Derive.ne, he a b, bind, Except.bind, pure, Except.pure]
  · simp [Derive.lt, hp a b, bind, Except.bind, pure, Except.pure]
  · simp only [Derive.gt, hp a b, bind, Except.bind, pure, Except.pure]
    congr 1; simp only [decide_eq_decide]; omega
  · simp only [Derive.le, hp a b, bind, Except.bind, pure, Except.pure, hg]
    congr 1
    by_cases q1 : c a b < 0 <;> by_cases q2 : c a b = 0 <;> simp [q1, q2] <;> omega
  · simp only [Derive.ge, hp a b, bind, Except.bind, pure, Except.pure, hg]
    congr 1
    by_cases q1 : c a b < 0 <;> by_cases q2 : c a b = 0 <;> by_cases q3 : c b a < 0 <;> simp [q1, q2, q3] <;> omega
  · simp only [Derive.max, Derive.lt, hp a b, bind, Except.bind, pure, Except.pure]
    by_cases q1 : c a b < 0 <;> simp [q1]
  · simp only [Derive.min, Derive.lt, hp b a, bind, Except.bind, pure, Except.pure]
    by_cases q1 : c b a < 0 <;> simp [q1]

/-- the derived operators look at nothing but the SIGN of the component `cmp`: two comparison functions
with the same sign everywhere (e.g. a user's `a::x - b::x` and its normalisation to -1/0/1) give the same
`lt / le / gt / ge / min / max`, and sequence comparisons of the same sign.  (`Cmp3Ord`, `cmp_total_lex`
and `rel_ops_agree` are stated with `< 0`, `= 0`, `> 0` throughout — for arbitrary integer results.) -/
theorem derived_depend_on_sign_only {fc fc' : β → β → R Int} {c c' : β → β → Int}
    (hp : PureCmp fc c) (hp' : PureCmp fc' c')
    (hs : ∀ a b, Derive.sign (c a b) = Derive.sign (c' a b)) (a b : β) :
    Derive.lt fc a b = Derive.lt fc' a b ∧ Derive.le fc a b = Derive.le fc' a b ∧
    Derive.gt fc a b = Derive.gt fc' a b ∧ Derive.ge fc a b = Derive.ge fc' a b ∧
    Derive.max (Derive.lt fc) a b = Derive.max (Derive.lt fc') a b ∧
    Derive.min (Derive.lt fc) a b = Derive.min (Derive.lt fc') a b ∧
    ∀ l0 l1, Derive.sign (seqCmpI c l0 l1) = Derive.sign (seqCmpI c' l0 l1) := by
  have h1 := sign_eq_iff (hs a b)
  have h2 := sign_eq_iff (hs b a)
  have e1 : decide (c a b < 0) = decide (c' a b < 0) := by simp only [decide_eq_decide]; exact h1.1
  have e2 : decide (c a b > 0) = decide (c' a b > 0) := by simp only [decide_eq_decide]; exact h1.2.2
  have e3 : decide (c b a < 0) = decide (c' b a < 0) := by simp only [decide_eq_decide]; exact h2.1
  refine ⟨?_, ?_, ?_, ?_, ?_, ?_, seqCmpI_sign_congr hs⟩
  · simp only [Derive.lt, hp a b, hp' a b, bind, Except.bind, pure, Except.pure, e1]
  · simp only [Derive.le, hp a b, hp' a b, bind, Except.bind, pure, Except.pure, e2]
  · simp only [Derive.gt, hp a b, hp' a b, bind, Except.bind, pure, Except.pure, e2]
  · simp only [Derive.ge, hp a b, hp' a b, bind, Except.bind, pure, Except.pure, e1]
  · simp only [Derive.max, Derive.lt, hp a b, hp' a b, bind, Except.bind, pure, Except.pure, e1]
  · simp only [Derive.min, Derive.lt, hp b a, hp' b a, bind, Except.bind, pure, Except.pure, e3]

/-- `Cmp3Ord` does not ask for results in {-1, 0, 1}: the user-style `(a - b) * 7` is an instance -/
example : Cmp3Ord (fun a b : Int => (a - b) * 7) (fun a b => a == b) := scaled_int_cmp3ord

/-- coherence is inherited from the leaves: for ANY leaf `eq` / `cmp` with `eq a b → cmp a b = 0` (the
tie checks exactly this on the sampled leaves, e.g. `-0.0` and `0.0`, equal ints of different
representation), `eq`-equal sequences compare as 0 and so are neither `<` nor `>`, but `<=` and `>=` -/
theorem derived_coherent_of_leaf {fe : β → β → R Bool} {g : β → β → Bool} {fc : β → β → R Int}
    {c : β → β → Int} (he : PureEq fe g) (hp : PureCmp fc c) (hleaf : ∀ a b, g a b = true → c a b = 0)
    (l0 l1 : List β) (heq : seqEq fe l0 l1 = .ok true) :
    seqCmp fc l0 l1 = .ok 0 ∧
    Derive.lt (seqCmp fc) l0 l1 = .ok false ∧ Derive.le (seqCmp fc) l0 l1 = .ok true ∧
    Derive.gt (seqCmp fc) l0 l1 = .ok false ∧ Derive.ge (seqCmp fc) l0 l1 = .ok true := by
  rw [seqEq_pure he l0 l1] at heq
  have heq' : seqEqB g l0 l1 = true := by simpa using heq
  have h0 : seqCmp fc l0 l1 = .ok 0 := by
    rw [seqCmp_pure hp l0 l1, seqCmpI_zero_of_eq hleaf l0 l1 heq']
  refine ⟨h0, ?_, ?_, ?_, ?_⟩ <;>
    simp [Derive.lt, Derive.le, Derive.gt, Derive.ge, h0, bind, Except.bind, pure, Except.pure]

end derive

/-! ## format specifiers -/
section format
open XrayModel.Format

/-- `format(x, "") == to_str(x)` for ints (sign, then the decimal magnitude) and strs -/
theorem format_empty_is_to_str (i : Int) (s : List Char) :
    formatInt i [] = .ok ((if i < 0 then ['-'] else []) ++ magnitudeToStr 10 i.natAbs) ∧
    formatStr s [] = .ok s := by
  have hp : parseSpec [] = some ⟨none, none, none, none, none, false⟩ := by decide
  constructor
  · simp only [formatInt, hp]
    by_cases h : i < 0 <;> simp [h, signPart, group]
  · simp [formatStr, hp]

/-- the specifier grammar is the documented one
`[[fill]align][sign][#][0][width][grouping][.precision][mode]`: the test-suite's and the book's
examples parse into the documented fields (checked by evaluation of the parser) -/
theorem format_spec_grammar :
    -- fields: fill specs ⟨fill, align, zero-padded, width⟩, precision, sign, grouping, mode, alternate
    parseSpec "!<#6x".toList = some ⟨some ⟨some '!', some '<', false, 6⟩, none, none, none, some 'x', true⟩ ∧
    parseSpec "+015,.3e".toList = some ⟨some ⟨none, none, true, 15⟩, some 3, some '+', some ',', some 'e', false⟩ ∧
    parseSpec "<<".toList = some ⟨none, none, none, none, none, false⟩ ∧
    parseSpec "0".toList = some ⟨none, none, none, none, none, false⟩ ∧
    parseSpec "5x7".toList = none := by decide

/-- width, fill character and alignment, exactly as documented: the pads have total length
`width - len` (nothing is truncated), consist of the fill character (default space, `0` when
zero-padded), and sit right (`<`), left (`>`, the default), between sign and digits (`=`, the default
when zero-padded) or on both sides with the extra one on the right (`^`) -/
theorem format_spec_fill (f : FillSpecs) (len : Nat) :
    let ch := f.filler.getD (if f.zeroPad then '0' else ' ')
    let al := f.alignment.getD (if f.zeroPad then '=' else '>')
    let p := fillers f len
    p.1.length + p.2.1.length + p.2.2.length = f.width - len ∧
    (∀ c ∈ p.1 ++ p.2.1 ++ p.2.2, c = ch) ∧
    (al = '<' → p.1 = [] ∧ p.2.1 = []) ∧
    (al = '>' → p.2.1 = [] ∧ p.2.2 = []) ∧
    (al = '=' → p.1 = [] ∧ p.2.2 = []) ∧
    (al = '^' → p.2.1 = [] ∧ p.1.length = (f.width - len) / 2 ∧
      p.2.2.length = (f.width - len) - (f.width - len) / 2) :=
  fillers_spec f len

/-- sign: `-` for negatives always; for the others `+` shows a plus, a space shows a space, `-` or
nothing shows nothing -/
theorem format_spec_sign (sp : Spec) :
    signPart sp true = ['-'] ∧
    (sp.sign = some '+' → signPart sp false = ['+']) ∧
    (sp.sign = some ' ' → signPart sp false = [' ']) ∧
    (sp.sign = some '-' ∨ sp.sign = none → signPart sp false = []) := by
  refine ⟨rfl, ?_, ?_, ?_⟩
  · intro h; simp [signPart, h]
  · intro h; simp [signPart, h]
  · rintro (h | h) <;> simp [signPart, h]

/-- grouping only inserts the separator (deleting it gives the digits back), one after every three
digits counted from the right -/
theorem format_spec_group (sp : Spec) (g : Char) (hg : sp.grouping = some g) (ds : List Char)
    (hd : ∀ c ∈ ds, c ≠ g) :
    (group sp ds).filter (· != g) = ds ∧ (group sp ds).length = ds.length + (ds.length - 1) / 3 := by
  simp only [group, hg]
  constructor
  · rw [List.filter_reverse, groupRev_filter g ds.reverse (by simpa using hd), List.reverse_reverse]
  · simp [groupRev_length]

/-- the int pipeline puts the pieces together as documented: prefix pad, sign (+ `0`mode in the
alternate form), infix pad, grouped digits, postfix pad -/
theorem format_spec_int (i : Int) (spec : List Char) (sp : Spec) (f : FillSpecs) (radix : Nat)
    (hp : parseSpec spec = some sp) (hprec : sp.precision = none) (hfill : sp.fill = some f)
    (halt : sp.alt = false)
    (hmode : (sp.mode = none ∧ radix = 10) ∨ (sp.mode = some 'x' ∧ radix = 16) ∨
           (sp.mode = some 'o' ∧ radix = 8) ∨ (sp.mode = some 'b' ∧ radix = 2)) :
    let body := group sp (magnitudeToStr radix i.natAbs)
    let sg := signPart sp (decide (i < 0))
    let p := fillers f (body.length + sg.length)
    formatInt i spec = .ok (p.1 ++ sg ++ p.2.1 ++ body ++ p.2.2) := by
  intro body sg p
  simp only [formatInt, hp, hprec, Option.isSome_none, Bool.false_eq_true, ite_false, halt, hfill]
  rcases hmode with ⟨h, rfl⟩ | ⟨h, rfl⟩ | ⟨h, rfl⟩ | ⟨h, rfl⟩ <;> simp only [h] <;> rfl

/-- the str pipeline: no sign / grouping / mode / precision; pads around the text — and never the
`assert!(infix.is_empty())` panic (that needed the `fix:` 86cb0e6 for `"05"`) -/
theorem format_spec_str (s spec : List Char) :
    formatStr s spec ≠ .panic ∧
    ∀ sp f, parseSpec spec = some sp → sp.fill = some f → ∀ out, formatStr s spec = .ok out →
      out = (fillers f s.length).1 ++ s ++ (fillers f s.length).2.2 := by
  constructor
  · unfold formatStr
    split
    · simp
    · rename_i sp _
      split; · simp
      split; · simp
      split; · simp
      split; · simp
      split
      · simp
      · rename_i f _
        split
        · simp
        · rename_i hcond
          have : (fillers f s.length).2.1 = [] := by
            apply fillers_infix_nil
            simpa [Bool.or_eq_true, Bool.and_eq_true] using hcond
          simp [this]
  · intro sp f hp hf out hout
    simp only [formatStr, hp, hf] at hout
    split at hout; · cases hout
    split at hout; · cases hout
    split at hout; · cases hout
    split at hout; · cases hout
    split at hout; · cases hout
    split at hout
    · cases hout
    · cases hout; rfl

end format

end XrayModel.C19
