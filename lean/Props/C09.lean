/-
C09 — Size limit is enforced and memory accounting balances.
Property theorems only.  `Generated.SizeLimitUses` (reads of `size_limit`, writes to the accounted total, the shape of
`Runtime::allocate`) is regenerated from /repo/src on every run; the three `decide` theorems are re-checked against what
the code says now.  The trace theorems hold for every event trace — in particular for traces in which allocations fail
at arbitrary points — and need the roll-back in `allocate`, which `allocate_shape` reads off the source.
-/
import XrayProofs.Alloc
import Generated.SizeLimitUses
namespace XrayModel.C09
open XrayModel.Alloc Generated.SizeLimitUses

/-- the limit is consulted only in tests of the form `size (+ n, possibly saturating) > L`, so raising it can only turn a failure into a pass -/
theorem limit_uses_monotone : uses.all LimitUse.monotone = true := by decide

/-- `Runtime::allocate`, `deallocate`, `can_allocate_by`, `ManagedXValue::new` and the two `Drop` impls still have the
    modelled text, and a failed `allocate` gives its bytes back before returning the violation -/
theorem allocate_shape : allocShape.recognised = true ∧ allocShape.rollsBack = true := by decide

/-- the accounted total is written in exactly three places: the add and the roll-back in `allocate`, the subtraction
    in `deallocate` -/
theorem size_mutations_known :
    mutations.map (·.form) = [.addInAllocate, .rollBackInAllocate, .subInDeallocate] := by decide

/-- the accounted total never underflows: for every trace, on a runtime that starts at any baseline within its limit -/
theorem no_underflow (sh : AllocShape) (hsh : sh.rollsBack = true) (base : Nat) (limit : Option Nat)
    (hb : ∀ L, limit = some L → base ≤ L) (evs : List Ev) :
    (run sh (startAt base limit) evs).underflows = 0 :=
  (run_inv sh hsh base limit evs _ (startAt_inv base limit hb)).noUnderflow

/-- conservation: after *every* trace — whatever allocations and pre-flights failed on the way — the accounted total is
    the baseline plus the recorded sizes of the values that are still live … -/
theorem balance (sh : AllocShape) (hsh : sh.rollsBack = true) (base : Nat) (limit : Option Nat)
    (hb : ∀ L, limit = some L → base ≤ L) (evs : List Ev) :
    (run sh (startAt base limit) evs).st.size = base + liveSum (run sh (startAt base limit) evs).live :=
  (run_inv sh hsh base limit evs _ (startAt_inv base limit hb)).sum

/-- … so once everything that was successfully allocated has been dropped, the total is back at the baseline -/
theorem balance_all_dropped (sh : AllocShape) (hsh : sh.rollsBack = true) (base : Nat) (limit : Option Nat)
    (hb : ∀ L, limit = some L → base ≤ L) (evs : List Ev)
    (hdropped : (run sh (startAt base limit) evs).live = []) :
    (run sh (startAt base limit) evs).st.size = base := by
  rw [balance sh hsh base limit hb evs, hdropped]
  simp [liveSum]

/-- an allocation that succeeds leaves the total within the limit (whatever the shape of `allocate`) -/
theorem allocate_ok_within (sh : AllocShape) (s s' : St) (bytes rec L : Nat) (hl : s.limit = some L)
    (h : allocate sh s bytes = (s', .ok rec)) : s'.size ≤ L ∧ rec = bytes := by
  rcases allocate_spec sh s bytes with ⟨hn, _⟩ | ⟨L1, _, _, ha⟩ | ⟨L1, hl1, hle, ha⟩
  · rw [hl] at hn; cases hn
  · rw [ha] at h; cases h
  · rw [hl] at hl1; injection hl1 with hl1; subst hl1
    rw [ha] at h
    injection h with h1 h2
    injection h2 with h2
    subst h1
    exact ⟨hle, h2.symm⟩

/-- the limit is enforced: with a limit `L` the accounted total is within `L` after every trace (a total above `L`
    never survives an allocation: the allocation returns the violation and the bytes are given back) -/
theorem limit_enforced (sh : AllocShape) (hsh : sh.rollsBack = true) (base L : Nat) (hb : base ≤ L) (evs : List Ev) :
    (run sh (startAt base (some L)) evs).st.size ≤ L :=
  (run_inv sh hsh base (some L) evs _ (startAt_inv base (some L) (by intro L' h; injection h with h; omega))).within L rfl

/-- raising the limit never turns a passing run into a failing one, and a passing run's accounting does not depend on
    the limit: same total, same live values, still no violation -/
theorem monotone_in_L (sh : AllocShape) (base L L' : Nat) (hLL : L ≤ L') (evs : List Ev)
    (hpass : (run sh (startAt base (some L)) evs).viols = 0) :
    (run sh (startAt base (some L')) evs).viols = 0 ∧
    (run sh (startAt base (some L')) evs).st.size = (run sh (startAt base (some L)) evs).st.size ∧
    (run sh (startAt base (some L')) evs).live = (run sh (startAt base (some L)) evs).live := by
  have h := run_sameBut sh L L' hLL evs (startAt base (some L)) (startAt base (some L')) rfl
    ⟨rfl, rfl, rfl, rfl, rfl⟩ (by rw [hpass]; rfl)
  obtain ⟨hsz, _, hlive, hviol, _⟩ := h
  exact ⟨by rw [hviol, hpass], hsz, hlive⟩

/-- every value is accounted for at least its payload (and at least its own cell) -/
theorem payload_le_size (c : Consts) (v : Val) : v.payload c ≤ v.size c ∧ c.xvalue ≤ v.size c := by
  cases v <;> simp only [Val.payload, Val.size] <;> omega

/-- a native container is accounted for at least one pointer per value it holds — whatever the number of hash buckets
    its entries are spread over (a mapping of `len` entries in a single bucket still accounts `2 * len` pointers) -/
theorem native_entries_accounted (c : Consts) (n : Native) : n.entries * c.rc ≤ n.dynSize c := by
  cases n <;> simp only [Native.entries, Native.dynSize] <;> try omega
  all_goals (simp only [Nat.add_mul, Nat.mul_assoc, Nat.two_mul]; try split) <;> omega

/-- more collisions mean fewer buckets, and the accounted size of a mapping or set shrinks by the bucket headers only,
    never by the entries -/
theorem collisions_cost_headers_only (c : Consts) (b b' len : Nat) (hb : b ≤ b') :
    (Native.mapping b' len).dynSize c - (Native.mapping b len).dynSize c = (b' - b) * c.vec ∧
    (Native.set b' len).dynSize c - (Native.set b len).dynSize c = (b' - b) * c.rc := by
  obtain ⟨d, rfl⟩ := Nat.exists_eq_add_of_le hb
  simp only [Native.dynSize, Nat.add_mul, Nat.add_sub_cancel_left]
  constructor <;> omega

/-- the statements for the code as it is now -/
theorem xray_balance (base : Nat) (limit : Option Nat) (hb : ∀ L, limit = some L → base ≤ L) (evs : List Ev) :
    (run allocShape (startAt base limit) evs).underflows = 0 ∧
    (run allocShape (startAt base limit) evs).st.size = base + liveSum (run allocShape (startAt base limit) evs).live :=
  ⟨no_underflow allocShape allocate_shape.2 base limit hb evs, balance allocShape allocate_shape.2 base limit hb evs⟩

/-- the roll-back is necessary: the same model without it (the code before the repair) leaks the bytes of a failed
    allocation — one failed allocation, nothing live, and the total is not back at the baseline -/
theorem unrepaired_allocate_leaks :
    let r := run { recognised := true, rollsBack := false } (startAt 0 (some 10)) [.alloc 1 20]
    r.live = [] ∧ r.viols = 1 ∧ r.st.size = 20 := by decide

/- non-vacuity: a trace in which the second allocation fails, the first value is dropped afterwards, and a later
   allocation succeeds; the repaired accounting is back at the baseline -/
example :
    let r := run allocShape (startAt 5 (some 100)) [.alloc 1 60, .alloc 2 50, .preflight 40, .drop 1, .alloc 3 90, .drop 3]
    r.st.size = 5 ∧ r.viols = 2 ∧ r.live = [] := by decide

end XrayModel.C09
