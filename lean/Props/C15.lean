/-
C15 — Sequences behave as lists whatever their representation.
Property theorems only; the model is XrayModel/Seq.lean, the invariant `Rep.wf`, the denotation `den`
(a finite or infinite list given by its length and element function, defined from the structure of the
representation alone) and the helper lemmas are in XrayProofs/Seq.lean.
-/
import XrayProofs.Seq
namespace XrayModel.C15
open XrayModel.Seq

/-! ### index normalisation (sequence.rs `value_to_idx`) -/

/-- On a finite sequence of length `n` an index `0 ≤ i < n` is itself, `-n ≤ i < 0` counts from the end, and
everything else is an error VALUE (never a panic), whatever the magnitude of `i`. -/
theorem idx_norm_finite (n : Nat) (i : Int) (hn : n < USIZE) :
    valueToIdx (.fin n) i =
      if 0 ≤ i ∧ i < n then .ok i.toNat
      else if -(n : Int) ≤ i ∧ i < 0 then .ok (i + n).toNat
      else if i < -(n : Int) then .err "index too low"
      else .err "index out of bounds" := by
  unfold valueToIdx USIZE at *
  simp only []
  repeat' split
  all_goals first | rfl | (exfalso; omega) | (congr 1; omega)

/-- On an infinite sequence the indices `0 ≤ i < 2^64` are themselves, the others are error values. -/
theorem idx_norm_infinite (i : Int) :
    valueToIdx .inf i =
      if 0 ≤ i ∧ i < USIZE then .ok i.toNat
      else if i < 0 then .err "cannot get negative index of infinite sequence"
      else .err "index out of bounds" := by
  unfold valueToIdx USIZE at *
  simp only []
  repeat' split
  all_goals first | rfl | (exfalso; omega) | (congr 1; omega)

/-- the seven boundary indices of a non-empty finite sequence -/
theorem idx_norm_boundaries (n : Nat) (hn : n < USIZE) (hpos : 0 < n) :
    valueToIdx (.fin n) (-(n : Int) - 1) = .err "index too low" ∧
    valueToIdx (.fin n) (-(n : Int)) = .ok 0 ∧
    valueToIdx (.fin n) (-1) = .ok (n - 1) ∧
    valueToIdx (.fin n) 0 = .ok 0 ∧
    valueToIdx (.fin n) ((n : Int) - 1) = .ok (n - 1) ∧
    valueToIdx (.fin n) (n : Int) = .err "index out of bounds" ∧
    valueToIdx (.fin n) ((n : Int) + 1) = .err "index out of bounds" := by
  refine ⟨?_, ?_, ?_, ?_, ?_, ?_, ?_⟩ <;> rw [idx_norm_finite n _ hn] <;> repeat' split
  all_goals first | rfl | (exfalso; omega) | (congr 1; omega)

example : valueToIdx (.fin 3) (-4) = .err "index too low" ∧ valueToIdx (.fin 3) (-3) = .ok 0 ∧
    valueToIdx (.fin 3) 3 = .err "index out of bounds" := ⟨rfl, rfl, rfl⟩

/-! ### ranges -/

/-- `range(start, end, step)` as built by the guards of sequence.rs:1141-1177 is well formed, has the length of
the arithmetic progression `start, start+step, …` strictly before `end` (for every i64 triple: the length
computation cannot overflow and the result fits `usize`), and its `i`-th element is `start + i*step`. -/
theorem range_len_get (s e st : Int) (hs : inI64 s = true) (he : inI64 e = true) (hst : inI64 st = true) :
    (st = 0 → rangeB [s, e, st] = .err "invalid range, step size cannot be zero") ∧
    (0 < st → e ≤ s → rangeB [s, e, st] = .seq .empty) ∧
    (st < 0 → s ≤ e → rangeB [s, e, st] = .seq .empty) ∧
    (0 < st → s < e → rangeB [s, e, st] = .seq (.range s e st) ∧ (Rep.range s e st).wf ∧
      ∃ n, (Rep.range s e st).len = .fin n ∧ n < USIZE ∧ 0 < n ∧
        (∀ i : Nat, i < n → s + i * st < e) ∧ e ≤ s + n * st ∧
        ∀ i : Nat, (Rep.range s e st).get i = .ok (.int (s + i * st))) ∧
    (st < 0 → e < s → rangeB [s, e, st] = .seq (.range s e st) ∧ (Rep.range s e st).wf ∧
      ∃ n, (Rep.range s e st).len = .fin n ∧ n < USIZE ∧ 0 < n ∧
        (∀ i : Nat, i < n → e < s + i * st) ∧ s + n * st ≤ e ∧
        ∀ i : Nat, (Rep.range s e st).get i = .ok (.int (s + i * st))) := by
  have bs : -9223372036854775808 ≤ s ∧ s < 9223372036854775808 := by simpa [inI64] using hs
  have be : -9223372036854775808 ≤ e ∧ e < 9223372036854775808 := by simpa [inI64] using he
  refine ⟨?_, ?_, ?_, ?_, ?_⟩
  · intro h; subst h; simp [rangeB, hs, he, hst]
  · intro h1 h2
    have : st ≠ 0 := by omega
    simp [rangeB, hs, he, hst, this, h1]; omega
  · intro h1 h2
    have : st ≠ 0 := by omega
    have h3 : ¬ (0 < st) := by omega
    simp [rangeB, hs, he, hst, this, h1, h3]; omega
  · intro h1 h2
    have h0 : st ≠ 0 := by omega
    have h3 : ¬ (e ≤ s) := by omega
    have h4 : ¬ (st < 0) := by omega
    obtain ⟨n, hn, hpos, hlt, hge, hb⟩ := rangeLen_pos s e st h1 h2
    refine ⟨by simp [rangeB, hs, he, hst, h0, h1, h3, h4], ?_, n, hn, ?_, hpos, hlt, hge, fun i => rfl⟩
    · simp [Rep.wf, hs, he, hst, h1, h2]
    · unfold USIZE; omega
  · intro h1 h2
    have h0 : st ≠ 0 := by omega
    have h3 : ¬ (s ≤ e) := by omega
    have h4 : ¬ (0 < st) := by omega
    obtain ⟨n, hn, hpos, hlt, hge, hb⟩ := rangeLen_neg s e st h1 h2
    refine ⟨by simp [rangeB, hs, he, hst, h0, h1, h3, h4], ?_, n, hn, ?_, hpos, hlt, hge, fun i => rfl⟩
    · simp [Rep.wf, hs, he, hst, h1, h2]
    · unfold USIZE; omega

/-- the extreme ranges: 2^64-1 elements, and a step of -2^63 -/
example : (Rep.range (-9223372036854775808) 9223372036854775807 1).len = .fin 18446744073709551615 ∧
    (Rep.range 10 0 (-9223372036854775808)).len = .fin 1 := ⟨rfl, rfl⟩

/-- arguments outside the 64-bit range are error values -/
theorem range_out_of_bounds (s e st : Int) :
    (inI64 s = false → rangeB [s, e, st] = .err "start out of bounds") ∧
    (inI64 s = true → inI64 e = false → rangeB [s, e, st] = .err "end out of bounds") ∧
    (inI64 s = true → inI64 e = true → inI64 st = false → rangeB [s, e, st] = .err "step out of bounds") := by
  refine ⟨?_, ?_, ?_⟩ <;> intros <;> simp_all [rangeB]

/-! ### every representation denotes a list: `len` and `get` agree with the denotation -/

/-- The length computed by the implementation (`Zip`: minimum over the finite members; `Chain`: last part plus
last midpoint; `Slice`: `end - start`) is the length of the denoted list, and is never a panic. -/
theorem len_agrees (r : Rep) (h : r.wf) : r.len = toLen (den r).len := len_den r h

/-- Indexing through the representation (midpoint search in a chain, shifted index in a slice, tuple building in
a zip, closure application in a map) yields the element of the denoted list, for every valid index. -/
theorem get_agrees (r : Rep) (h : r.wf) (i : Nat) (hi : (den r).valid i) : r.get i = (den r).el i :=
  get_den r h i hi

/-- a chain whose last part is infinite, and a slice of it: the hypotheses are satisfiable -/
example : (Rep.chain [.array [.int 1, .int 2], .count] [2]).wf ∧
    (Rep.chain [.array [.int 1, .int 2], .count] [2]).get 5 = .ok (.int 3) := by
  refine ⟨?_, rfl⟩
  simp [Rep.wf, wfAll, chainOk, Rep.len, USIZE]


/-! ### slicing (`take`, `skip`, `take_while`, `skip_until` all go through `XSequence::slice`) -/

/-- `slice` never fails on a well-formed sequence, and each of its four outcomes — the whole-sequence shortcut
(`.ok none`: the same object is returned), the canonical empty sequence, a plain `Slice`, and the flattened
slice of a slice — is well formed and denotes `drop start` of the list cut at position `end`
(`Sem.dropTake`), for every `start`/`end` that fit `usize`. -/
theorem slice_den (r : Rep) (h : r.wf) (start : Nat) (end_ : Option Nat) (hs : start < USIZE)
    (he : ∀ e, end_ = some e → e < USIZE) :
    match r.mkSlice start end_ with
    | .ok none => SemEq (den r) ((den r).dropTake start end_)
    | .ok (some s) => s.wf ∧ SemEq (den s) ((den r).dropTake start end_)
    | .err _ => False
    | .panic _ => False := mkSlice_spec r h start end_ hs he

/-- a slice of a slice addresses the origin directly (when the shifted bounds fit `usize`) and still denotes
the slice of the slice -/
theorem slice_of_slice (origin : Rep) (os : Nat) (oe : Option Nat) (h : (Rep.slice origin os oe).wf)
    (start : Nat) (end2 : Option Nat) (hfit1 : os + start < USIZE)
    (hfit2 : ∀ e, end2 = some e → os + e < USIZE)
    (hb : match end2 with
      | some e => start < e ∧ (match (Rep.slice origin os oe).len with
          | .fin n => e ≤ n | .inf => e < USIZE | .panic _ => False)
      | none => (Rep.slice origin os oe).len = .inf) :
    (Rep.slice origin (os + start) (end2.map (os + ·))).wf ∧
    SemEq (den (Rep.slice origin (os + start) (end2.map (os + ·))))
      ((den (Rep.slice origin os oe)).dropTake start end2) :=
  slice_flatten origin os oe h start end2 hfit1 hfit2 hb

/-- counts that do not fit `usize` (negative, or 2^64 and beyond) are error values of `take` and `skip` -/
theorem take_skip_out_of_range (r : Rep) (n : Int) (h : n < 0 ∨ (USIZE : Int) ≤ n) :
    takeB r n = .err "index too large" ∧ skipB r n = .err "index too large" := by
  have : toUsize n = none := by
    unfold toUsize USIZE at *
    split
    · exfalso; omega
    · rfl
  simp [takeB, skipB, this]

example : (Rep.slice .count 3 none).wf ∧
    (Rep.mkSlice (.slice .count 3 none) 2 (some 5)) = .ok (some (.slice .count 5 (some 8))) := by
  refine ⟨by simp [Rep.wf, Rep.len, USIZE], rfl⟩

/-! ### concatenation -/

/-- `chain` on well-formed operands never panics; an empty operand (canonical or lazily empty) yields the other
operand; the result is an error value exactly when the left operand is infinite (and the right one is not
empty) or the total length does not fit `usize`; otherwise the new chain is well formed. -/
theorem chain_wf (a b : Rep) (ha : a.wf) (hb : b.wf) :
    match a.mkChain b with
    | .new r => r.wf
    | .left => (den b).len = some 0
    | .right => (den a).len = some 0
    | .err _ => ((den a).len = none ∧ (den b).len ≠ some 0) ∨
        (∃ n m, (den a).len = some n ∧ (den b).len = some m ∧ USIZE ≤ n + m)
    | .panic _ => False := mkChain_wf a b ha hb

/-- In all four Chain/non-Chain combinations the new representation (spliced parts, midpoints of the right
operand shifted by the length of the left one) denotes the concatenation of the two lists. -/
theorem chain_den (a b : Rep) (ha : a.wf) (hb : b.wf) (r : Rep) (h : a.mkChain b = .new r) :
    SemEq (den r) ((den a).append (den b)) := by
  rcases mkChain_new a b r h with ⟨rfl, ea, eb⟩ | ⟨n, rfl⟩
  · have h1 := isEmpty_den a ha ea
    have h2 := isEmpty_den b hb eb
    refine ⟨?_, fun i _ hv => ?_⟩
    · rw [append_len_some h1, h2]; rfl
    · simp [den, Sem.valid, optValid, Sem.nil] at hv
  · exact chainOf_den a b n

/-- chain + chain: the midpoint arithmetic on a concrete instance, and an element reached through it -/
example :
    Rep.mkChain (.chain [.array [.int 1], .array [.int 2, .int 3]] [1]) (.chain [.array [.int 4], .count] [1]) =
      .new (.chain [.array [.int 1], .array [.int 2, .int 3], .array [.int 4], .count] [1, 3, 4]) ∧
    (Rep.chain [.array [.int 1], .array [.int 2, .int 3], .array [.int 4], .count] [1, 3, 4]).get 6 = .ok (.int 2) :=
  ⟨rfl, rfl⟩

end XrayModel.C15
