/-
C15 — Sequences behave as lists whatever their representation.
Property theorems only; the model is XrayModel/Seq.lean, the invariant `Rep.wf`, the denotation `den`
(a finite or infinite list given by its length and element function, defined from the structure of the
representation alone) and the helper lemmas are in XrayProofs/Seq.lean.
-/
import XrayProofs.Seq
namespace XrayModel.C15
open XrayModel.Seq

/-! ### index normalisation (sequence.rs `value_to_idx`) -/

/-- On a finite sequence of length `n` an index `0 ≤ i < n` is itself, `-n ≤ i < 0` counts from the end, and
everything else is an error VALUE (never a panic), whatever the magnitude of `i`. -/
theorem idx_norm_finite (n : Nat) (i : Int) (hn : n < USIZE) :
    valueToIdx (.fin n) i =
      if 0 ≤ i ∧ i < n then .ok i.toNat
      else if -(n : Int) ≤ i ∧ i < 0 then .ok (i + n).toNat
      else if i < -(n : Int) then .err "index too low"
      else .err "index out of bounds" := by
  unfold valueToIdx USIZE at *
  simp only []
  repeat' split
  all_goals first | rfl | (exfalso; omega) | (congr 1; omega)

/-- On an infinite sequence the indices `0 ≤ i < 2^64` are themselves, the others are error values. -/
theorem idx_norm_infinite (i : Int) :
    valueToIdx .inf i =
      if 0 ≤ i ∧ i < USIZE then .ok i.toNat
      else if i < 0 then .err "cannot get negative index of infinite sequence"
      else .err "index out of bounds" := by
  unfold valueToIdx USIZE at *
  simp only []
  repeat' split
  all_goals first | rfl | (exfalso; omega) | (congr 1; omega)

/-- the seven boundary indices of a non-empty finite sequence -/
theorem idx_norm_boundaries (n : Nat) (hn : n < USIZE) (hpos : 0 < n) :
    valueToIdx (.fin n) (-(n : Int) - 1) = .err "index too low" ∧
    valueToIdx (.fin n) (-(n : Int)) = .ok 0 ∧
    valueToIdx (.fin n) (-1) = .ok (n - 1) ∧
    valueToIdx (.fin n) 0 = .ok 0 ∧
    valueToIdx (.fin n) ((n : Int) - 1) = .ok (n - 1) ∧
    valueToIdx (.fin n) (n : Int) = .err "index out of bounds" ∧
    valueToIdx (.fin n) ((n : Int) + 1) = .err "index out of bounds" := by
  refine ⟨?_, ?_, ?_, ?_, ?_, ?_, ?_⟩ <;> rw [idx_norm_finite n _ hn] <;> repeat' split
  all_goals first | rfl | (exfalso; omega) | (congr 1; omega)

example : valueToIdx (.fin 3) (-4) = .err "index too low" ∧ valueToIdx (.fin 3) (-3) = .ok 0 ∧
    valueToIdx (.fin 3) 3 = .err "index out of bounds" := ⟨rfl, rfl, rfl⟩

/-! ### ranges -/

/-- `range(start, end, step)` as built by the guards of sequence.rs:1141-1177 is well formed, has the length of
the arithmetic progression `start, start+step, …` strictly before `end` (for every i64 triple: the length
computation cannot overflow and the result fits `usize`), and its `i`-th element is `start + i*step`. -/
theorem range_len_get (s e st : Int) (hs : inI64 s = true) (he : inI64 e = true) (hst : inI64 st = true) :
    (st = 0 → rangeB [s, e, st] = .err "invalid range, step size cannot be zero") ∧
    (0 < st → e ≤ s → rangeB [s, e, st] = .seq .empty) ∧
    (st < 0 → s ≤ e → rangeB [s, e, st] = .seq .empty) ∧
    (0 < st → s < e → rangeB [s, e, st] = .seq (.range s e st) ∧ (Rep.range s e st).wf ∧
      ∃ n, (Rep.range s e st).len = .fin n ∧ n < USIZE ∧ 0 < n ∧
        (∀ i : Nat, i < n → s + i * st < e) ∧ e ≤ s + n * st ∧
        ∀ i : Nat, (Rep.range s e st).get i = .ok (.int (s + i * st))) ∧
    (st < 0 → e < s → rangeB [s, e, st] = .seq (.range s e st) ∧ (Rep.range s e st).wf ∧
      ∃ n, (Rep.range s e st).len = .fin n ∧ n < USIZE ∧ 0 < n ∧
        (∀ i : Nat, i < n → e < s + i * st) ∧ s + n * st ≤ e ∧
        ∀ i : Nat, (Rep.range s e st).get i = .ok (.int (s + i * st))) := by
  have bs : -9223372036854775808 ≤ s ∧ s < 9223372036854775808 := by simpa [inI64] using hs
  have be : -9223372036854775808 ≤ e ∧ e < 9223372036854775808 := by simpa [inI64] using he
  refine ⟨?_, ?_, ?_, ?_, ?_⟩
  · intro h; subst h; simp [rangeB, hs, he, hst]
  · intro h1 h2
    have : st ≠ 0 := by omega
    simp [rangeB, hs, he, hst, this, h1]; omega
  · intro h1 h2
    have : st ≠ 0 := by omega
    have h3 : ¬ (0 < st) := by omega
    simp [rangeB, hs, he, hst, this, h1, h3]; omega
  · intro h1 h2
    have h0 : st ≠ 0 := by omega
    have h3 : ¬ (e ≤ s) := by omega
    have h4 : ¬ (st < 0) := by omega
    obtain ⟨n, hn, hpos, hlt, hge, hb⟩ := rangeLen_pos s e st h1 h2
    refine ⟨by simp [rangeB, hs, he, hst, h0, h1, h3, h4], ?_, n, hn, ?_, hpos, hlt, hge, fun i => rfl⟩
    · simp [Rep.wf, hs, he, hst, h1, h2]
    · unfold USIZE; omega
  · intro h1 h2
    have h0 : st ≠ 0 := by omega
    have h3 : ¬ (s ≤ e) := by omega
    have h4 : ¬ (0 < st) := by omega
    obtain ⟨n, hn, hpos, hlt, hge, hb⟩ := rangeLen_neg s e st h1 h2
    refine ⟨by simp [rangeB, hs, he, hst, h0, h1, h3, h4], ?_, n, hn, ?_, hpos, hlt, hge, fun i => rfl⟩
    · simp [Rep.wf, hs, he, hst, h1, h2]
    · unfold USIZE; omega

/-- the extreme ranges: 2^64-1 elements, and a step of -2^63 -/
example : (Rep.range (-9223372036854775808) 9223372036854775807 1).len = .fin 18446744073709551615 ∧
    (Rep.range 10 0 (-9223372036854775808)).len = .fin 1 := ⟨rfl, rfl⟩

/-- arguments outside the 64-bit range are error values -/
theorem range_out_of_bounds (s e st : Int) :
    (inI64 s = false → rangeB [s, e, st] = .err "start out of bounds") ∧
    (inI64 s = true → inI64 e = false → rangeB [s, e, st] = .err "end out of bounds") ∧
    (inI64 s = true → inI64 e = true → inI64 st = false → rangeB [s, e, st] = .err "step out of bounds") := by
  refine ⟨?_, ?_, ?_⟩ <;> intros <;> simp_all [rangeB]

/-! ### every representation denotes a list: `len` and `get` agree with the denotation -/

/-- The length computed by the implementation (`Zip`: minimum over the finite members; `Chain`: last part plus
last midpoint; `Slice`: `end - start`) is the length of the denoted list, and is never a panic. -/
theorem len_agrees (r : Rep) (h : r.wf) : r.len = toLen (den r).len := len_den r h

/-- Indexing through the representation (midpoint search in a chain, shifted index in a slice, tuple building in
a zip, closure application in a map) yields the element of the denoted list, for every valid index. -/
theorem get_agrees (r : Rep) (h : r.wf) (i : Nat) (hi : (den r).valid i) : r.get i = (den r).el i :=
  get_den r h i hi

/-- a chain whose last part is infinite, and a slice of it: the hypotheses are satisfiable -/
example : (Rep.chain [.array [.int 1, .int 2], .count] [2]).wf ∧
    (Rep.chain [.array [.int 1, .int 2], .count] [2]).get 5 = .ok (.int 3) := by
  refine ⟨?_, rfl⟩
  simp [Rep.wf, wfAll, chainOk, Rep.len, USIZE]

end XrayModel.C15
