/-
C15 — Sequences behave as lists whatever their representation.
Property theorems only; the model is XrayModel/Seq.lean, the invariant `Rep.wf`, the denotation `den`
(a finite or infinite list given by its length and element function, defined from the structure of the
representation alone) and the helper lemmas are in XrayProofs/Seq.lean.
-/
import XrayProofs.Seq
namespace XrayModel.C15
open XrayModel.Seq

/-! ### index normalisation (sequence.rs `value_to_idx`) -/

/-- On a finite sequence of length `n` an index `0 ≤ i < n` is itself, `-n ≤ i < 0` counts from the end, and
everything else is an error VALUE (never a panic), whatever the magnitude of `i`. -/
theorem idx_norm_finite (n : Nat) (i : Int) (hn : n < USIZE) :
    valueToIdx (.fin n) i =
      if 0 ≤ i ∧ i < n then .ok i.toNat
      else if -(n : Int) ≤ i ∧ i < 0 then .ok (i + n).toNat
      else if i < -(n : Int) then .err "index too low"
      else .err "index out of bounds" := by
  unfold valueToIdx USIZE at *
  simp only []
  repeat' split
  all_goals first | rfl | (exfalso; omega) | (congr 1; omega)

/-- On an infinite sequence the indices `0 ≤ i < 2^64` are themselves, the others are error values. -/
theorem idx_norm_infinite (i : Int) :
    valueToIdx .inf i =
      if 0 ≤ i ∧ i < USIZE then .ok i.toNat
      else if i < 0 then .err "cannot get negative index of infinite sequence"
      else .err "index out of bounds" := by
  unfold valueToIdx USIZE at *
  simp only []
  repeat' split
  all_goals first | rfl | (exfalso; omega) | (congr 1; omega)

/-- the seven boundary indices of a non-empty finite sequence -/
theorem idx_norm_boundaries (n : Nat) (hn : n < USIZE) (hpos : 0 < n) :
    valueToIdx (.fin n) (-(n : Int) - 1) = .err "index too low" ∧
    valueToIdx (.fin n) (-(n : Int)) = .ok 0 ∧
    valueToIdx (.fin n) (-1) = .ok (n - 1) ∧
    valueToIdx (.fin n) 0 = .ok 0 ∧
    valueToIdx (.fin n) ((n : Int) - 1) = .ok (n - 1) ∧
    valueToIdx (.fin n) (n : Int) = .err "index out of bounds" ∧
    valueToIdx (.fin n) ((n : Int) + 1) = .err "index out of bounds" := by
  refine ⟨?_, ?_, ?_, ?_, ?_, ?_, ?_⟩ <;> rw [idx_norm_finite n _ hn] <;> repeat' split
  all_goals first | rfl | (exfalso; omega) | (congr 1; omega)

example : valueToIdx (.fin 3) (-4) = .err "index too low" ∧ valueToIdx (.fin 3) (-3) = .ok 0 ∧
    valueToIdx (.fin 3) 3 = .err "index out of bounds" := ⟨rfl, rfl, rfl⟩

/-! ### ranges -/

/-- `range(start, end, step)` as built by the guards of sequence.rs:1141-1177 is well formed, has the length of
the arithmetic progression `start, start+step, …` strictly before `end` (for every i64 triple: the length
computation cannot overflow and the result fits `usize`), and its `i`-th element is `start + i*step`. -/
theorem range_len_get (s e st : Int) (hs : inI64 s = true) (he : inI64 e = true) (hst : inI64 st = true) :
    (st = 0 → rangeB [s, e, st] = .err "invalid range, step size cannot be zero") ∧
    (0 < st → e ≤ s → rangeB [s, e, st] = .seq .empty) ∧
    (st < 0 → s ≤ e → rangeB [s, e, st] = .seq .empty) ∧
    (0 < st → s < e → rangeB [s, e, st] = .seq (.range s e st) ∧ (Rep.range s e st).wf ∧
      ∃ n, (Rep.range s e st).len = .fin n ∧ n < USIZE ∧ 0 < n ∧
        (∀ i : Nat, i < n → s + i * st < e) ∧ e ≤ s + n * st ∧
        ∀ i : Nat, (Rep.range s e st).get i = .ok (.int (s + i * st))) ∧
    (st < 0 → e < s → rangeB [s, e, st] = .seq (.range s e st) ∧ (Rep.range s e st).wf ∧
      ∃ n, (Rep.range s e st).len = .fin n ∧ n < USIZE ∧ 0 < n ∧
        (∀ i : Nat, i < n → e < s + i * st) ∧ s + n * st ≤ e ∧
        ∀ i : Nat, (Rep.range s e st).get i = .ok (.int (s + i * st))) := by
  have bs : -9223372036854775808 ≤ s ∧ s < 9223372036854775808 := by simpa [inI64] using hs
  have be : -9223372036854775808 ≤ e ∧ e < 9223372036854775808 := by simpa [inI64] using he
  refine ⟨?_, ?_, ?_, ?_, ?_⟩
  · intro h; subst h; simp [rangeB, hs, he, hst]
  · intro h1 h2
    have : st ≠ 0 := by omega
    simp [rangeB, hs, he, hst, this, h1]; omega
  · intro h1 h2
    have : st ≠ 0 := by omega
    have h3 : ¬ (0 < st) := by omega
    simp [rangeB, hs, he, hst, this, h1, h3]; omega
  · intro h1 h2
    have h0 : st ≠ 0 := by omega
    have h3 : ¬ (e ≤ s) := by omega
    have h4 : ¬ (st < 0) := by omega
    obtain ⟨n, hn, hpos, hlt, hge, hb⟩ := rangeLen_pos s e st h1 h2
    refine ⟨by simp [rangeB, hs, he, hst, h0, h1, h3, h4], ?_, n, hn, ?_, hpos, hlt, hge, fun i => rfl⟩
    · simp [Rep.wf, hs, he, hst, h1, h2]
    · unfold USIZE; omega
  · intro h1 h2
    have h0 : st ≠ 0 := by omega
    have h3 : ¬ (s ≤ e) := by omega
    have h4 : ¬ (0 < st) := by omega
    obtain ⟨n, hn, hpos, hlt, hge, hb⟩ := rangeLen_neg s e st h1 h2
    refine ⟨by simp [rangeB, hs, he, hst, h0, h1, h3, h4], ?_, n, hn, ?_, hpos, hlt, hge, fun i => rfl⟩
    · simp [Rep.wf, hs, he, hst, h1, h2]
    · unfold USIZE; omega

/-- the extreme ranges: 2^64-1 elements, and a step of -2^63 -/
example : (Rep.range (-9223372036854775808) 9223372036854775807 1).len = .fin 18446744073709551615 ∧
    (Rep.range 10 0 (-9223372036854775808)).len = .fin 1 := ⟨rfl, rfl⟩

/-- arguments outside the 64-bit range are error values -/
theorem range_out_of_bounds (s e st : Int) :
    (inI64 s = false → rangeB [s, e, st] = .err "start out of bounds") ∧
    (inI64 s = true → inI64 e = false → rangeB [s, e, st] = .err "end out of bounds") ∧
    (inI64 s = true → inI64 e = true → inI64 st = false → rangeB [s, e, st] = .err "step out of bounds") := by
  refine ⟨?_, ?_, ?_⟩ <;> intros <;> simp_all [rangeB]

/-! ### every representation denotes a list: `len` and `get` agree with the denotation -/

/-- The length computed by the implementation (`Zip`: minimum over the finite members; `Chain`: last part plus
last midpoint; `Slice`: `end - start`) is the length of the denoted list, and is never a panic. -/
theorem len_agrees (r : Rep) (h : r.wf) : r.len = toLen (den r).len := len_den r h

/-- Indexing through the representation (midpoint search in a chain, shifted index in a slice, tuple building in
a zip, closure application in a map) yields the element of the denoted list, for every valid index. -/
theorem get_agrees (r : Rep) (h : r.wf) (i : Nat) (hi : (den r).valid i) : r.get i = (den r).el i :=
  get_den r h i hi

/-- a chain whose last part is infinite, and a slice of it: the hypotheses are satisfiable -/
example : (Rep.chain [.array [.int 1, .int 2], .count] [2]).wf ∧
    (Rep.chain [.array [.int 1, .int 2], .count] [2]).get 5 = .ok (.int 3) := by
  refine ⟨?_, rfl⟩
  simp [Rep.wf, wfAll, chainOk, Rep.len, USIZE]


/-! ### slicing (`take`, `skip`, `take_while`, `skip_until` all go through `XSequence::slice`) -/

/-- `slice` never fails on a well-formed sequence, and each of its four outcomes — the whole-sequence shortcut
(`.ok none`: the same object is returned), the canonical empty sequence, a plain `Slice`, and the flattened
slice of a slice — is well formed and denotes `drop start` of the list cut at position `end`
(`Sem.dropTake`), for every `start`/`end` that fit `usize`. -/
theorem slice_den (r : Rep) (h : r.wf) (start : Nat) (end_ : Option Nat) (hs : start < USIZE)
    (he : ∀ e, end_ = some e → e < USIZE) :
    match r.mkSlice start end_ with
    | .ok none => SemEq (den r) ((den r).dropTake start end_)
    | .ok (some s) => s.wf ∧ SemEq (den s) ((den r).dropTake start end_)
    | .err _ => False
    | .panic _ => False := mkSlice_spec r h start end_ hs he

/-- a slice of a slice addresses the origin directly (when the shifted bounds fit `usize`) and still denotes
the slice of the slice -/
theorem slice_of_slice (origin : Rep) (os : Nat) (oe : Option Nat) (h : (Rep.slice origin os oe).wf)
    (start : Nat) (end2 : Option Nat) (hfit1 : os + start < USIZE)
    (hfit2 : ∀ e, end2 = some e → os + e < USIZE)
    (hb : match end2 with
      | some e => start < e ∧ (match (Rep.slice origin os oe).len with
          | .fin n => e ≤ n | .inf => e < USIZE | .panic _ => False)
      | none => (Rep.slice origin os oe).len = .inf) :
    (Rep.slice origin (os + start) (end2.map (os + ·))).wf ∧
    SemEq (den (Rep.slice origin (os + start) (end2.map (os + ·))))
      ((den (Rep.slice origin os oe)).dropTake start end2) :=
  slice_flatten origin os oe h start end2 hfit1 hfit2 hb

/-- counts that do not fit `usize` (negative, or 2^64 and beyond) are error values of `take` and `skip` -/
theorem take_skip_out_of_range (r : Rep) (n : Int) (h : n < 0 ∨ (USIZE : Int) ≤ n) :
    takeB r n = .err "index too large" ∧ skipB r n = .err "index too large" := by
  have : toUsize n = none := by
    unfold toUsize USIZE at *
    split
    · exfalso; omega
    · rfl
  simp [takeB, skipB, this]

example : (Rep.slice .count 3 none).wf ∧
    (Rep.mkSlice (.slice .count 3 none) 2 (some 5)) = .ok (some (.slice .count 5 (some 8))) := by
  refine ⟨by simp [Rep.wf, Rep.len, USIZE], rfl⟩

/-! ### concatenation -/

/-- `chain` on well-formed operands never panics; an empty operand (canonical or lazily empty) yields the other
operand; the result is an error value exactly when the left operand is infinite (and the right one is not
empty), the total length does not fit `usize`, or (right operand infinite) the finite parts in front of its
infinite tail plus the left operand do not fit `usize`; otherwise the new chain is well formed. -/
theorem chain_wf (a b : Rep) (ha : a.wf) (hb : b.wf) :
    match a.mkChain b with
    | .new r => r.wf
    | .left => (den b).len = some 0
    | .right => (den a).len = some 0
    | .err _ => ((den a).len = none ∧ (den b).len ≠ some 0) ∨
        (∃ n m, (den a).len = some n ∧ (den b).len = some m ∧ USIZE ≤ n + m) ∨
        (∃ n, (den a).len = some n ∧ (den b).len = none ∧ USIZE ≤ n + b.finPrefix)
    | .panic _ => False := mkChain_wf a b ha hb

/-- In all four Chain/non-Chain combinations the new representation (spliced parts, midpoints of the right
operand shifted by the length of the left one) denotes the concatenation of the two lists. -/
theorem chain_den (a b : Rep) (ha : a.wf) (hb : b.wf) (r : Rep) (h : a.mkChain b = .new r) :
    SemEq (den r) ((den a).append (den b)) := by
  rcases mkChain_new a b r h with ⟨rfl, ea, eb⟩ | ⟨n, rfl⟩
  · have h1 := isEmpty_den a ha ea
    have h2 := isEmpty_den b hb eb
    refine ⟨?_, fun i _ hv => ?_⟩
    · rw [append_len_some h1, h2]; rfl
    · simp [den, Sem.valid, optValid, Sem.nil] at hv
  · exact chainOf_den a b n

/-- chain + chain: the midpoint arithmetic on a concrete instance, and an element reached through it -/
example :
    Rep.mkChain (.chain [.array [.int 1], .array [.int 2, .int 3]] [1]) (.chain [.array [.int 4], .count] [1]) =
      .new (.chain [.array [.int 1], .array [.int 2, .int 3], .array [.int 4], .count] [1, 3, 4]) ∧
    (Rep.chain [.array [.int 1], .array [.int 2, .int 3], .array [.int 4], .count] [1, 3, 4]).get 6 = .ok (.int 2) :=
  ⟨rfl, rfl⟩

/-! ### copying updates equal the list operations -/

/-- `push`, `rpush` and `to_array` copy exactly the elements of the denoted list (in order) and add the new
element at the end / at the front / nowhere; an infinite sequence is an error value -/
theorem push_rpush_toArray_list (r : Rep) (h : r.wf) (x : Val) :
    (∀ n, (den r).len = some n →
      pushB r x = listResult (tupAll (elemsFrom (den r) 0 n)) (fun vs => vs ++ [x]) ∧
      rpushB r x = listResult (tupAll (elemsFrom (den r) 0 n)) (fun vs => x :: vs) ∧
      toArrayB r = listResult (tupAll (elemsFrom (den r) 0 n)) (fun vs => vs)) ∧
    ((den r).len = none → pushB r x = infErr ∧ rpushB r x = infErr ∧ toArrayB r = infErr) := by
  refine ⟨fun n hn => ?_, fun hn => ?_⟩
  · have hl : r.len = .fin n := by rw [len_den r h, hn]; rfl
    have hc := collect_den r h n hn
    refine ⟨?_, ?_, ?_⟩
    · simp only [pushB, hl, hc, liftList_eq]
    · simp only [rpushB, hl, hc, liftList_eq]
    · cases r with
      | array xs =>
        have hx : n = xs.length := by simp [den] at hn; exact hn.symm
        subst hx
        have := array_elems xs []
        simp only [List.nil_append, List.length_nil] at this
        simp only [toArrayB, this, listResult, Rep.mkArray]
        simp only [Rep.wf] at h
        have : xs.isEmpty = false := by cases xs <;> simp_all
        simp [this]
      | empty => simp only [toArrayB, hl, hc, liftList_eq]
      | range a b c => simp only [toArrayB, hl, hc, liftList_eq]
      | map a f => simp only [toArrayB, hl, hc, liftList_eq]
      | mapGet a b g => simp only [toArrayB, hl, hc, liftList_eq]
      | zip rs => simp only [toArrayB, hl, hc, liftList_eq]
      | chain ps ms => simp only [toArrayB, hl, hc, liftList_eq]
      | slice a b c => simp only [toArrayB, hl, hc, liftList_eq]
      | count => simp only [toArrayB, hl, hc, liftList_eq]
  · have hl : r.len = .inf := by rw [len_den r h, hn]; rfl
    refine ⟨by simp only [pushB, hl], by simp only [rpushB, hl], ?_⟩
    cases r with
    | array xs => simp [den] at hn
    | empty => simp only [toArrayB, hl]
    | range a b c => simp only [toArrayB, hl]
    | map a f => simp only [toArrayB, hl]
    | mapGet a b g => simp only [toArrayB, hl]
    | zip rs => simp only [toArrayB, hl]
    | chain ps ms => simp only [toArrayB, hl]
    | slice a b c => simp only [toArrayB, hl]
    | count => simp only [toArrayB, hl]


/-- `pop`, `set` and `insert` on a finite sequence of length `n`: the index is normalised (`insert` also accepts
`n`), an out-of-range index is an error value, and otherwise the result is built from the elements before the
position and the elements after it (from it, for `insert`) of the denoted list -/
theorem pop_set_insert_list (r : Rep) (h : r.wf) (n : Nat) (hn : (den r).len = some n) (i : Int) (x : Val) :
    popB r i = (match valueToIdx (.fin n) i with
      | .ok idx => if n = 1 then .seq .empty else
          listResult2 (tupAll (elemsFrom (den r) 0 idx)) (tupAll (elemsFrom (den r) (idx + 1) (n - (idx + 1))))
            (fun pre post => pre ++ post)
      | .err m => .err m
      | .panic m => .panic m) ∧
    setB r i x = (match valueToIdx (.fin n) i with
      | .ok idx =>
          listResult2 (tupAll (elemsFrom (den r) 0 idx)) (tupAll (elemsFrom (den r) (idx + 1) (n - (idx + 1))))
            (fun pre post => pre ++ [x] ++ post)
      | .err m => .err m
      | .panic m => .panic m) ∧
    insertB r i x = (match insertIdx (.fin n) n i with
      | .ok idx =>
          listResult2 (tupAll (elemsFrom (den r) 0 idx)) (tupAll (elemsFrom (den r) idx (n - idx)))
            (fun pre post => pre ++ [x] ++ post)
      | .err m => .err m
      | .panic m => .panic m) := by
  have hl : r.len = .fin n := by rw [len_den r h, hn]; rfl
  have hv : ∀ a c, a + c ≤ n → ∀ k, k < c → (den r).valid (a + k) := by
    intro a c hac k hk; simp only [Sem.valid, optValid, hn]; omega
  refine ⟨?_, ?_, ?_⟩
  · simp only [popB, hl]
    cases hi : valueToIdx (.fin n) i with
    | err m => rfl
    | panic m => rfl
    | ok idx =>
      have hlt : idx < n := valueToIdx_valid (some n) i idx hi
      simp only []
      rw [collectFrom_den r h idx 0 (hv 0 idx (by omega)),
        collectFrom_den r h (n - (idx + 1)) (idx + 1) (hv (idx + 1) _ (by omega)), liftList2_eq]
  · simp only [setB, hl]
    cases hi : valueToIdx (.fin n) i with
    | err m => rfl
    | panic m => rfl
    | ok idx =>
      have hlt : idx < n := valueToIdx_valid (some n) i idx hi
      simp only []
      rw [collectFrom_den r h idx 0 (hv 0 idx (by omega)),
        collectFrom_den r h (n - (idx + 1)) (idx + 1) (hv (idx + 1) _ (by omega)), liftList2_eq]
  · simp only [insertB, hl]
    cases hi : insertIdx (.fin n) n i with
    | err m => rfl
    | panic m => rfl
    | ok idx =>
      have hle : idx ≤ n := by
        unfold insertIdx at hi
        split at hi
        · injection hi with hi; omega
        · have := valueToIdx_valid (some n) i idx hi; simp only [optValid] at this; omega
      simp only []
      rw [collectFrom_den r h idx 0 (hv 0 idx (by omega)),
        collectFrom_den r h (n - idx) idx (hv idx _ (by omega)), liftList2_eq]

/-- after the fix `insert` at index `len` appends (also into an empty sequence); `len + 1` and `-len - 1` are
error values -/
theorem insert_index (n : Nat) (hn : n < USIZE) :
    insertIdx (.fin n) n n = .ok n ∧ insertIdx (.fin n) n (n + 1) = .err "index out of bounds" ∧
    insertIdx (.fin n) n (-(n : Int) - 1) = .err "index too low" := by
  refine ⟨by simp [insertIdx], ?_, ?_⟩
  · have : ¬ ((n : Int) + 1 = n) := by omega
    simp only [insertIdx, this, if_false]
    rw [idx_norm_finite n _ hn]; repeat' split
    all_goals first | rfl | (exfalso; omega)
  · have : ¬ (-(n : Int) - 1 = n) := by omega
    simp only [insertIdx, this, if_false]
    rw [idx_norm_finite n _ hn]; repeat' split
    all_goals first | rfl | (exfalso; omega)


/-! ### the library functions written in xray, and the lazy constructors -/

/-- `reverse` (include.rs:534-537) of a finite sequence of `n < 2^63` elements is a well-formed lazy sequence of
length `n` whose `i`-th element is element `n-1-i` of the original list -/
theorem reverse_list (r : Rep) (h : r.wf) (n : Nat) (hn : (den r).len = some n)
    (hb : (n : Int) < 9223372036854775808) :
    ∃ s, reverseB r = .seq s ∧ s.wf ∧ (den s).len = some n ∧
      ∀ i, i < n → (den s).el i = (den r).el (n - 1 - i) := reverse_spec r h n hn hb

/-- `repeat()` (include.rs:518-524) of a non-empty finite sequence is a well-formed infinite sequence whose
`i`-th element is element `i mod n` of the original list -/
theorem repeat_list (r : Rep) (h : r.wf) (n : Nat) (hn : (den r).len = some n) (hpos : 0 < n) (hb : n < USIZE) :
    ∃ s, repeatB r = .seq s ∧ s.wf ∧ (den s).len = none ∧ ∀ i, (den s).el i = (den r).el (i % n) :=
  repeat_spec r h n hn hpos hb

/-- `enumerate` (include.rs:453-455): empty for an empty argument, otherwise the pairs `(start + i*offset, a[i])` -/
theorem enumerate_list (r : Rep) (h : r.wf) (s o : Int) :
    (r.isEmpty = true → enumerateB r s o = .seq .empty) ∧
    (r.isEmpty = false → enumerateB r s o = .seq (.zip [count2 s o, r]) ∧
      (Rep.zip [count2 s o, r]).wf ∧
      (den (.zip [count2 s o, r])).len = (den r).len ∧
      ∀ i, (den (.zip [count2 s o, r])).el i = (match (den r).el i with
        | .ok v => .ok (.tup [.int (i * o + s), v])
        | .err m => .err m
        | .panic m => .panic m)) := enumerate_spec r h s o

/-- `zip` (after the fix: all arguments first, then the emptiness shortcut) is `Empty` when a member is empty,
otherwise a well-formed `Zip` whose length is the minimum of the finite member lengths; `map`/`unzip` keep the
length and apply the function / projection element-wise; errors of elements stay errors of elements -/
theorem zip_map_unzip_list (rs : List Rep) (hw : wfAll rs) (hne : rs ≠ []) (r : Rep) (hr : r.wf) (f : PFn) :
    (rs.any Rep.isEmpty = true → zipB rs = .seq .empty) ∧
    (rs.any Rep.isEmpty = false → zipB rs = .seq (.zip rs) ∧ (Rep.zip rs).wf ∧
      (den (.zip rs)).len = minOpt ((denList rs).map (·.len))) ∧
    (mapB r f = .seq (.map r f) ∧ (Rep.map r f).wf ∧ (den (.map r f)).len = (den r).len ∧
      ∀ i, (den (.map r f)).el i = elemMap f ((den r).el i)) := by
  refine ⟨fun h => by simp [zipB, h], fun h => ⟨by simp [zipB, h], by simp [Rep.wf, hw, hne], rfl⟩,
    rfl, by simpa [Rep.wf] using hr, rfl, fun i => rfl⟩

/-! ### no operation alters the sequences it was applied to -/

/-- Immediate in the pure model (an operation is a function of its arguments and nothing else can change
them); stated for the copying updates to document the clause: whatever update is evaluated, the length and
every element of the input, observed afterwards, are what they were before.  On the implementation side the
clause is checked by the tie (every sequence is observed again after all later operations). -/
theorem inputs_unchanged (r : Rep) (x : Val) (i j : Int) (upd : V)
    (_h : upd ∈ [pushB r x, rpushB r x, insertB r i x, popB r i, setB r i x, swapB r i j, toArrayB r]) :
    ∀ (before : Sem), before = den r → (den r).len = before.len ∧ ∀ k, (den r).el k = before.el k := by
  intro before hb; subst hb; exact ⟨rfl, fun _ => rfl⟩

end XrayModel.C15
