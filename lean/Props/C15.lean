/-
C15 — Sequences behave as lists whatever their representation.
Property theorems only; the model is XrayModel/Seq.lean, the invariant `Rep.wf`, the denotation `den`
(a finite or infinite list given by its length and element function, defined from the structure of the
representation alone) and the helper lemmas are in XrayProofs/Seq.lean.
-/
import XrayProofs.Seq
namespace XrayModel.C15
open XrayModel.Seq

/-! ### index normalisation (sequence.rs `value_to_idx`) -/

/-- On a finite sequence of length `n` an index `0 ≤ i < n` is itself, `-n ≤ i < 0` counts from the end, and
everything else is an error VALUE (never a panic), whatever the magnitude of `i`. -/
theorem idx_norm_finite (n : Nat) (i : Int) (hn : n < USIZE) :
    valueToIdx (.fin n) i =
      if 0 ≤ i ∧ i < n then .ok i.toNat
      else if -(n : Int) ≤ i ∧ i < 0 then .ok (i + n).toNat
      else if i < -(n : Int) then .err "index too low"
      else .err "index out of bounds" := by
  unfold valueToIdx USIZE at *
  simp only []
  repeat' split
  all_goals first | rfl | (exfalso; omega) | (congr 1; omega)

/-- On an infinite sequence the indices `0 ≤ i < 2^64` are themselves, the others are error values. -/
theorem idx_norm_infinite (i : Int) :
    valueToIdx .inf i =
      if 0 ≤ i ∧ i < USIZE then .ok i.toNat
      else if i < 0 then .err "cannot get negative index of infinite sequence"
      else .err "index out of bounds" := by
  unfold valueToIdx USIZE at *
  simp only []
  repeat' split
  all_goals first | rfl | (exfalso; omega) | (congr 1; omega)

/-- the seven boundary indices of a non-empty finite sequence -/
theorem idx_norm_boundaries (n : Nat) (hn : n < USIZE) (hpos : 0 < n) :
    valueToIdx (.fin n) (-(n : Int) - 1) = .err "index too low" ∧
    valueToIdx (.fin n) (-(n : Int)) = .ok 0 ∧
    valueToIdx (.fin n) (-1) = .ok (n - 1) ∧
    valueToIdx (.fin n) 0 = .ok 0 ∧
    valueToIdx (.fin n) ((n : Int) - 1) = .ok (n - 1) ∧
    valueToIdx (.fin n) (n : Int) = .err "index out of bounds" ∧
    valueToIdx (.fin n) ((n : Int) + 1) = .err "index out of bounds" := by
  refine ⟨?_, ?_, ?_, ?_, ?_, ?_, ?_⟩ <;> rw [idx_norm_finite n _ hn] <;> repeat' split
  all_goals first | rfl | (exfalso; omega) | (congr 1; omega)

example : valueToIdx (.fin 3) (-4) = .err "index too low" ∧ valueToIdx (.fin 3) (-3) = .ok 0 ∧
    valueToIdx (.fin 3) 3 = .err "index out of bounds" := ⟨rfl, rfl, rfl⟩

/-! ### ranges -/

/-- `range(start, end, step)` as built by the guards of sequence.rs:1141-1177 is well formed, has the length of
the arithmetic progression `start, start+step, …` strictly before `end` (for every i64 triple: the length
computation cannot overflow and the result fits `usize`), and its `i`-th element is `start + i*step`. -/
theorem range_len_get (s e st : Int) (hs : inI64 s = true) (he : inI64 e = true) (hst : inI64 st = true) :
    (st = 0 → rangeB [s, e, st] = .err "invalid range, step size cannot be zero") ∧
    (0 < st → e ≤ s → rangeB [s, e, st] = .seq .empty) ∧
    (st < 0 → s ≤ e → rangeB [s, e, st] = .seq .empty) ∧
    (0 < st → s < e → rangeB [s, e, st] = .seq (.range s e st) ∧ (Rep.range s e st).wf ∧
      ∃ n, (Rep.range s e st).len = .fin n ∧ n < USIZE ∧ 0 < n ∧
        (∀ i : Nat, i < n → s + i * st < e) ∧ e ≤ s + n * st ∧
        ∀ i : Nat, (Rep.range s e st).get i = .ok (.int (s + i * st))) ∧
    (st < 0 → e < s → rangeB [s, e, st] = .seq (.range s e st) ∧ (Rep.range s e st).wf ∧
      ∃ n, (Rep.range s e st).len = .fin n ∧ n < USIZE ∧ 0 < n ∧
        (∀ i : Nat, i < n → e < s + i * st) ∧ s + n * st ≤ e ∧
        ∀ i : Nat, (Rep.range s e st).get i = .ok (.int (s + i * st))) := by
  have bs : -9223372036854775808 ≤ s ∧ s < 9223372036854775808 := by simpa [inI64] using hs
  have be : -9223372036854775808 ≤ e ∧ e < 9223372036854775808 := by simpa [inI64] using he
  refine ⟨?_, ?_, ?_, ?_, ?_⟩
  · intro h; subst h; simp [rangeB, hs, he, hst]
  · intro h1 h2
    have : st ≠ 0 := by omega
    simp [rangeB, hs, he, hst, this, h1]; omega
  · intro h1 h2
    have : st ≠ 0 := by omega
    have h3 : ¬ (0 < st) := by omega
    simp [rangeB, hs, he, hst, this, h1, h3]; omega
  · intro h1 h2
    have h0 : st ≠ 0 := by omega
    have h3 : ¬ (e ≤ s) := by omega
    have h4 : ¬ (st < 0) := by omega
    obtain ⟨n, hn, hpos, hlt, hge, hb⟩ := rangeLen_pos s e st h1 h2
    refine ⟨by simp [rangeB, hs, he, hst, h0, h1, h3, h4], ?_, n, hn, ?_, hpos, hlt, hge, fun i => rfl⟩
    · simp [Rep.wf, hs, he, hst, h1, h2]
    · unfold USIZE; omega
  · intro h1 h2
    have h0 : st ≠ 0 := by omega
    have h3 : ¬ (s ≤ e) := by omega
    have h4 : ¬ (0 < st) := by omega
    obtain ⟨n, hn, hpos, hlt, hge, hb⟩ := rangeLen_neg s e st h1 h2
    refine ⟨by simp [rangeB, hs, he, hst, h0, h1, h3, h4], ?_, n, hn, ?_, hpos, hlt, hge, fun i => rfl⟩
    · simp [Rep.wf, hs, he, hst, h1, h2]
    · unfold USIZE; omega

/-- the extreme ranges: 2^64-1 elements, and a step of -2^63 -/
example : (Rep.range (-9223372036854775808) 9223372036854775807 1).len = .fin 18446744073709551615 ∧
    (Rep.range 10 0 (-9223372036854775808)).len = .fin 1 := ⟨rfl, rfl⟩

/-- arguments outside the 64-bit range are error values -/
theorem range_out_of_bounds (s e st : Int) :
    (inI64 s = false → rangeB [s, e, st] = .err "start out of bounds") ∧
    (inI64 s = true → inI64 e = false → rangeB [s, e, st] = .err "end out of bounds") ∧
    (inI64 s = true → inI64 e = true → inI64 st = false → rangeB [s, e, st] = .err "step out of bounds") := by
  refine ⟨?_, ?_, ?_⟩ <;> intros <;> simp_all [rangeB]

/-! ### every representation denotes a list: `len` and `get` agree with the denotation -/

/-- The length computed by the implementation (`Zip`: minimum over the finite members; `Chain`: last part plus
last midpoint; `Slice`: `end - start`) is the length of the denoted list, and is never a panic. -/
theorem len_agrees (r : Rep) (h : r.wf) : r.len = toLen (den r).len := len_den r h

/-- Indexing through the representation (midpoint search in a chain, shifted index in a slice, tuple building in
a zip, closure application in a map) yields the element of the denoted list, for every valid index. -/
theorem get_agrees (r : Rep) (h : r.wf) (i : Nat) (hi : (den r).valid i) : r.get i = (den r).el i :=
  get_den r h i hi

/-- a chain whose last part is infinite, and a slice of it: the hypotheses are satisfiable -/
example : (Rep.chain [.array [.int 1, .int 2], .count] [2]).wf ∧
    (Rep.chain [.array [.int 1, .int 2], .count] [2]).get 5 = .ok (.int 3) := by
  refine ⟨?_, rfl⟩
  simp [Rep.wf, wfAll, chainOk, Rep.len, USIZE]


/-! ### slicing (`take`, `skip`, `take_while`, `skip_until` all go through `XSequence::slice`) -/

/-- `slice` never fails on a well-formed sequence, and each of its four outcomes — the whole-sequence shortcut
(`.ok none`: the same object is returned), the canonical empty sequence, a plain `Slice`, and the flattened
slice of a slice — is well formed and denotes `drop start` of the list cut at position `end`
(`Sem.dropTake`), for every `start`/`end` that fit `usize`. -/
theorem slice_den (r : Rep) (h : r.wf) (start : Nat) (end_ : Option Nat) (hs : start < USIZE)
    (he : ∀ e, end_ = some e → e < USIZE) :
    match r.mkSlice start end_ with
    | .ok none => SemEq (den r) ((den r).dropTake start end_)
    | .ok (some s) => s.wf ∧ SemEq (den s) ((den r).dropTake start end_)
    | .err _ => False
    | .panic _ => False := mkSlice_spec r h start end_ hs he

/-- a slice of a slice addresses the origin directly (when the shifted bounds fit `usize`) and still denotes
the slice of the slice -/
theorem slice_of_slice (origin : Rep) (os : Nat) (oe : Option Nat) (h : (Rep.slice origin os oe).wf)
    (start : Nat) (end2 : Option Nat) (hfit1 : os + start < USIZE)
    (hfit2 : ∀ e, end2 = some e → os + e < USIZE)
    (hb : match end2 with
      | some e => start < e ∧ (match (Rep.slice origin os oe).len with
          | .fin n => e ≤ n | .inf => e < USIZE | .panic _ => False)
      | none => (Rep.slice origin os oe).len = .inf) :
    (Rep.slice origin (os + start) (end2.map (os + ·))).wf ∧
    SemEq (den (Rep.slice origin (os + start) (end2.map (os + ·))))
      ((den (Rep.slice origin os oe)).dropTake start end2) :=
  slice_flatten origin os oe h start end2 hfit1 hfit2 hb

/-- counts that do not fit `usize` (negative, or 2^64 and beyond) are error values of `take` and `skip` -/
theorem take_skip_out_of_range (r : Rep) (n : Int) (h : n < 0 ∨ (USIZE : Int) ≤ n) :
    takeB r n = .err "index too large" ∧ skipB r n = .err "index too large" := by
  have : toUsize n = none := by
    unfold toUsize USIZE at *
    split
    · exfalso; omega
    · rfl
  simp [takeB, skipB, this]

example : (Rep.slice .count 3 none).wf ∧
    (Rep.mkSlice (.slice .count 3 none) 2 (some 5)) = .ok (some (.slice .count 5 (some 8))) := by
  refine ⟨by simp [Rep.wf, Rep.len, USIZE], rfl⟩

/-! ### concatenation -/

/-- `chain` on well-formed operands never panics; an empty operand (canonical or lazily empty) yields the other
operand; the result is an error value exactly when the left operand is infinite (and the right one is not
empty), the total length does not fit `usize`, or (right operand infinite) the finite parts in front of its
infinite tail plus the left operand do not fit `usize`; otherwise the new chain is well formed. -/
theorem chain_wf (a b : Rep) (ha : a.wf) (hb : b.wf) :
    match a.mkChain b with
    | .new r => r.wf
    | .left => (den b).len = some 0
    | .right => (den a).len = some 0
    | .err _ => ((den a).len = none ∧ (den b).len ≠ some 0) ∨
        (∃ n m, (den a).len = some n ∧ (den b).len = some m ∧ USIZE ≤ n + m) ∨
        (∃ n, (den a).len = some n ∧ (den b).len = none ∧ USIZE ≤ n + b.finPrefix)
    | .panic _ => False := mkChain_wf a b ha hb

/-- In all four Chain/non-Chain combinations the new representation (spliced parts, midpoints of the right
operand shifted by the length of the left one) denotes the concatenation of the two lists. -/
theorem chain_den (a b : Rep) (ha : a.wf) (hb : b.wf) (r : Rep) (h : a.mkChain b = .new r) :
    SemEq (den r) ((den a).append (den b)) := by
  rcases mkChain_new a b r h with ⟨rfl, ea, eb⟩ | ⟨n, rfl⟩
  · have h1 := isEmpty_den a ha ea
    have h2 := isEmpty_den b hb eb
    refine ⟨?_, fun i _ hv => ?_⟩
    · rw [append_len_some h1, h2]; rfl
    · simp [den, Sem.valid, optValid, Sem.nil] at hv
  · exact chainOf_den a b n

/-- chain + chain: the midpoint arithmetic on a concrete instance, and an element reached through it -/
example :
    Rep.mkChain (.chain [.array [.int 1], .array [.int 2, .int 3]] [1]) (.chain [.array [.int 4], .count] [1]) =
      .new (.chain [.array [.int 1], .array [.int 2, .int 3], .array [.int 4], .count] [1, 3, 4]) ∧
    (Rep.chain [.array [.int 1], .array [.int 2, .int 3], .array [.int 4], .count] [1, 3, 4]).get 6 = .ok (.int 2) :=
  ⟨rfl, rfl⟩

/-! ### copying updates equal the list operations -/

/-- `push`, `rpush` and `to_array` copy exactly the elements of the denoted list (in order) and add the new
element at the end / at the front / nowhere; an infinite sequence is an error value -/
theorem push_rpush_toArray_list (r : Rep) (h : r.wf) (x : Val) :
    (∀ n, (den r).len = some n →
      pushB r x = listResult (tupAll (elemsFrom (den r) 0 n)) (fun vs => vs ++ [x]) ∧
      rpushB r x = listResult (tupAll (elemsFrom (den r) 0 n)) (fun vs => x :: vs) ∧
      toArrayB r = listResult (tupAll (elemsFrom (den r) 0 n)) (fun vs => vs)) ∧
    ((den r).len = none → pushB r x = infErr ∧ rpushB r x = infErr ∧ toArrayB r = infErr) := by
  refine ⟨fun n hn => ?_, fun hn => ?_⟩
  · have hl : r.len = .fin n := by rw [len_den r h, hn]; rfl
    have hc := collect_den r h n hn
    refine ⟨?_, ?_, ?_⟩
    · simp only [pushB, hl, hc, liftList_eq]
    · simp only [rpushB, hl, hc, liftList_eq]
    · cases r with
      | array xs =>
        have hx : n = xs.length := by simp [den] at hn; exact hn.symm
        subst hx
        have := array_elems xs []
        simp only [List.nil_append, List.length_nil] at this
        simp only [toArrayB, this, listResult, Rep.mkArray]
        simp only [Rep.wf] at h
        have : xs.isEmpty = false := by cases xs <;> simp_all
        simp [this]
      | empty => simp only [toArrayB, hl, hc, liftList_eq]
      | range a b c => simp only [toArrayB, hl, hc, liftList_eq]
      | map a f => simp only [toArrayB, hl, hc, liftList_eq]
      | mapGet a b g => simp only [toArrayB, hl, hc, liftList_eq]
      | zip rs => simp only [toArrayB, hl, hc, liftList_eq]
      | chain ps ms => simp only [toArrayB, hl, hc, liftList_eq]
      | slice a b c => simp only [toArrayB, hl, hc, liftList_eq]
      | count => simp only [toArrayB, hl, hc, liftList_eq]
  · have hl : r.len = .inf := by rw [len_den r h, hn]; rfl
    refine ⟨by simp only [pushB, hl], by simp only [rpushB, hl], ?_⟩
    cases r with
    | array xs => simp [den] at hn
    | empty => simp only [toArrayB, hl]
    | range a b c => simp only [toArrayB, hl]
    | map a f => simp only [toArrayB, hl]
    | mapGet a b g => simp only [toArrayB, hl]
    | zip rs => simp only [toArrayB, hl]
    | chain ps ms => simp only [toArrayB, hl]
    | slice a b c => simp only [toArrayB, hl]
    | count => simp only [toArrayB, hl]


/-- `pop`, `set` and `insert` on a finite sequence of length `n`: the index is normalised (`insert` also accepts
`n`), an out-of-range index is an error value, and otherwise the result is built from the elements before the
position and the elements after it (from it, for `insert`) of the denoted list -/
theorem pop_set_insert_list (r : Rep) (h : r.wf) (n : Nat) (hn : (den r).len = some n) (i : Int) (x : Val) :
    popB r i = (match valueToIdx (.fin n) i with
      | .ok idx => if n = 1 then .seq .empty else
          listResult2 (tupAll (elemsFrom (den r) 0 idx)) (tupAll (elemsFrom (den r) (idx + 1) (n - (idx + 1))))
            (fun pre post => pre ++ post)
      | .err m => .err m
      | .panic m => .panic m) ∧
    setB r i x = (match valueToIdx (.fin n) i with
      | .ok idx =>
          listResult2 (tupAll (elemsFrom (den r) 0 idx)) (tupAll (elemsFrom (den r) (idx + 1) (n - (idx + 1))))
            (fun pre post => pre ++ [x] ++ post)
      | .err m => .err m
      | .panic m => .panic m) ∧
    insertB r i x = (match insertIdx (.fin n) n i with
      | .ok idx =>
          listResult2 (tupAll (elemsFrom (den r) 0 idx)) (tupAll (elemsFrom (den r) idx (n - idx)))
            (fun pre post => pre ++ [x] ++ post)
      | .err m => .err m
      | .panic m => .panic m) := by
  have hl : r.len = .fin n := by rw [len_den r h, hn]; rfl
  have hv : ∀ a c, a + c ≤ n → ∀ k, k < c → (den r).valid (a + k) := by
    intro a c hac k hk; simp only [Sem.valid, optValid, hn]; omega
  refine ⟨?_, ?_, ?_⟩
  · simp only [popB, hl]
    cases hi : valueToIdx (.fin n) i with
    | err m => rfl
    | panic m => rfl
    | ok idx =>
      have hlt : idx < n := valueToIdx_valid (some n) i idx hi
      simp only []
      rw [collectFrom_den r h idx 0 (hv 0 idx (by omega)),
        collectFrom_den r h (n - (idx + 1)) (idx + 1) (hv (idx + 1) _ (by omega)), liftList2_eq]
  · simp only [setB, hl]
    cases hi : valueToIdx (.fin n) i with
    | err m => rfl
    | panic m => rfl
    | ok idx =>
      have hlt : idx < n := valueToIdx_valid (some n) i idx hi
      simp only []
      rw [collectFrom_den r h idx 0 (hv 0 idx (by omega)),
        collectFrom_den r h (n - (idx + 1)) (idx + 1) (hv (idx + 1) _ (by omega)), liftList2_eq]
  · simp only [insertB, hl]
    cases hi : insertIdx (.fin n) n i with
    | err m => rfl
    | panic m => rfl
    | ok idx =>
      have hle : idx ≤ n := by
        unfold insertIdx at hi
        split at hi
        · injection hi with hi; omega
        · have := valueToIdx_valid (some n) i idx hi; simp only [optValid] at this; omega
      simp only []
      rw [collectFrom_den r h idx 0 (hv 0 idx (by omega)),
        collectFrom_den r h (n - idx) idx (hv idx _ (by omega)), liftList2_eq]

/-- after the fix `insert` at index `len` appends (also into an empty sequence); `len + 1` and `-len - 1` are
error values -/
theorem insert_index (n : Nat) (hn : n < USIZE) :
    insertIdx (.fin n) n n = .ok n ∧ insertIdx (.fin n) n (n + 1) = .err "index out of bounds" ∧
    insertIdx (.fin n) n (-(n : Int) - 1) = .err "index too low" := by
  refine ⟨by simp [insertIdx], ?_, ?_⟩
  · have : ¬ ((n : Int) + 1 = n) := by omega
    simp only [insertIdx, this, if_false]
    rw [idx_norm_finite n _ hn]; repeat' split
    all_goals first | rfl | (exfalso; omega)
  · have : ¬ (-(n : Int) - 1 = n) := by omega
    simp only [insertIdx, this, if_false]
    rw [idx_norm_finite n _ hn]; repeat' split
    all_goals first | rfl | (exfalso; omega)


/-! ### the library functions written in xray, and the lazy constructors -/

/-- `reverse` (include.rs:534-537) of a finite sequence of `n < 2^63` elements is a well-formed lazy sequence of
length `n` whose `i`-th element is element `n-1-i` of the original list -/
theorem reverse_list (r : Rep) (h : r.wf) (n : Nat) (hn : (den r).len = some n)
    (hb : (n : Int) < 9223372036854775808) :
    ∃ s, reverseB r = .seq s ∧ s.wf ∧ (den s).len = some n ∧
      ∀ i, i < n → (den s).el i = (den r).el (n - 1 - i) := reverse_spec r h n hn hb

/-- `repeat()` (include.rs:518-524) of a non-empty finite sequence is a well-formed infinite sequence whose
`i`-th element is element `i mod n` of the original list -/
theorem repeat_list (r : Rep) (h : r.wf) (n : Nat) (hn : (den r).len = some n) (hpos : 0 < n) (hb : n < USIZE) :
    ∃ s, repeatB r = .seq s ∧ s.wf ∧ (den s).len = none ∧ ∀ i, (den s).el i = (den r).el (i % n) :=
  repeat_spec r h n hn hpos hb

/-- `enumerate` (include.rs:453-455): empty for an empty argument, otherwise the pairs `(start + i*offset, a[i])` -/
theorem enumerate_list (r : Rep) (h : r.wf) (s o : Int) :
    (r.isEmpty = true → enumerateB r s o = .seq .empty) ∧
    (r.isEmpty = false → enumerateB r s o = .seq (.zip [count2 s o, r]) ∧
      (Rep.zip [count2 s o, r]).wf ∧
      (den (.zip [count2 s o, r])).len = (den r).len ∧
      ∀ i, (den (.zip [count2 s o, r])).el i = (match (den r).el i with
        | .ok v => .ok (.tup [.int (i * o + s), v])
        | .err m => .err m
        | .panic m => .panic m)) := enumerate_spec r h s o

/-- `zip` (after the fix: all arguments first, then the emptiness shortcut) is `Empty` when a member is empty,
otherwise a well-formed `Zip` whose length is the minimum of the finite member lengths; `map`/`unzip` keep the
length and apply the function / projection element-wise; errors of elements stay errors of elements -/
theorem zip_map_unzip_list (rs : List Rep) (hw : wfAll rs) (hne : rs ≠ []) (r : Rep) (hr : r.wf) (f : PFn) :
    (rs.any Rep.isEmpty = true → zipB rs = .seq .empty) ∧
    (rs.any Rep.isEmpty = false → zipB rs = .seq (.zip rs) ∧ (Rep.zip rs).wf ∧
      (den (.zip rs)).len = minOpt ((denList rs).map (·.len))) ∧
    (mapB r f = .seq (.map r f) ∧ (Rep.map r f).wf ∧ (den (.map r f)).len = (den r).len ∧
      ∀ i, (den (.map r f)).el i = elemMap f ((den r).el i)) := by
  refine ⟨fun h => by simp [zipB, h], fun h => ⟨by simp [zipB, h], by simp [Rep.wf, hw, hne], rfl⟩,
    rfl, by simpa [Rep.wf] using hr, rfl, fun i => rfl⟩

/-! ### no operation alters the sequences it was applied to -/

/-- Immediate in the pure model (an operation is a function of its arguments and nothing else can change
them); stated for the copying updates to document the clause: whatever update is evaluated, the length and
every element of the input, observed afterwards, are what they were before.  On the implementation side the
clause is checked by the tie (every sequence is observed again after all later operations). -/
theorem inputs_unchanged (r : Rep) (x : Val) (i j : Int) (upd : V)
    (_h : upd ∈ [pushB r x, rpushB r x, insertB r i x, popB r i, setB r i x, swapB r i j, toArrayB r]) :
    ∀ (before : Sem), before = den r → (den r).len = before.len ∧ ∀ k, (den r).el k = before.el k := by
  intro before hb; subst hb; exact ⟨rfl, fun _ => rfl⟩

/-! ### round 3: the chain invariant carries the usize bound; swap; scans; nth; to_stack; eq -/

/-- Every midpoint stored in a well-formed chain — also one whose last part is infinite — is positive, fits
`usize`, and the midpoints increase: the `usize` arithmetic of `get`/`len` on chains cannot overflow. -/
theorem chain_midpoints_fit (parts : List Rep) (mids : List Nat) (h : (Rep.chain parts mids).wf) :
    ∀ m ∈ mids, 0 < m ∧ m < USIZE := by
  simp only [Rep.wf] at h
  intro m hm
  have := (chainOk_fit parts mids 0 h.2.1).2 m hm
  omega

/-- `swap` equals the list swap: both indices are normalised FIRST (negative ones count from the end; an
out-of-range one is an error value, the first index being checked first), equal positions give the sequence
itself, and only then the smaller / larger normalised position delimit the copied runs
(`pre ++ [x_hi] ++ mid ++ [x_lo] ++ post`, see `swapResult`). -/
theorem swap_list (r : Rep) (h : r.wf) (n : Nat) (hn : (den r).len = some n) (i j : Int) :
    swapB r i j = (match valueToIdx (.fin n) i with
      | .err m => .err m
      | .panic m => .panic m
      | .ok i1 => match valueToIdx (.fin n) j with
        | .err m => .err m
        | .panic m => .panic m
        | .ok i2 => if i1 = i2 then .seq r else swapResult (den r) n (min i1 i2) (max i1 i2)) :=
  swap_spec r h n hn i j

/-- mixed-sign indices: `swap(2, -3)` on three elements exchanges positions 2 and 0 (ordering the raw indices
`-3 < 2` first would be wrong), and `swap(0, -3)` is the sequence itself -/
example :
    swapB (.array [.int 1, .int 2, .int 3]) 2 (-3) = .seq (.array [.int 3, .int 2, .int 1]) ∧
    swapB (.array [.int 1, .int 2, .int 3]) 0 (-3) = .seq (.array [.int 1, .int 2, .int 3]) ∧
    swapB (.array [.int 1, .int 2, .int 3]) (-1) 0 = .seq (.array [.int 3, .int 2, .int 1]) ∧
    swapB (.array [.int 1, .int 2, .int 3]) 0 3 = .err "index out of bounds" := ⟨rfl, rfl, rfl, rfl⟩

/-- `take_while((x)->{x < c})`: if `j` is the first position whose element fails the predicate (all earlier
elements are ints satisfying it), the result is `slice(0, j)` — by `slice_den` the first `j` elements —, the scan
having consumed `j + 1` search permits: it succeeds with more than `j` permits and runs out with `j` or fewer.
If no element of a finite sequence fails, the result is `slice(0, len)`, the whole sequence. -/
theorem take_while_prefix (r : Rep) (h : r.wf) (c : Int) (fuel : Nat) :
    (∀ j, (den r).valid j → stops (den r) c false j → (∀ k, k < j → passes (den r) c false k) →
      (j < fuel → takeWhileLtB r c fuel = sliceB r 0 (some j)) ∧
      (fuel ≤ j → takeWhileLtB r c fuel = .panic "out of fuel")) ∧
    (∀ n, (den r).len = some n → (∀ k, k < n → passes (den r) c false k) → n < fuel →
      takeWhileLtB r c fuel = sliceB r 0 (some n)) := by
  refine ⟨fun j hv hj hp => ⟨fun hf => ?_, fun hf => ?_⟩, fun n hn hp hf => ?_⟩
  · rw [takeWhile_unfold r h, scan_found r h c false j hv hj fuel 0 (Nat.zero_le _) (fun k _ hk => hp k hk) (by omega)]
  · rw [takeWhile_unfold r h, scan_out_of_fuel r h c false j hv fuel 0 (Nat.zero_le _) (fun k _ hk => hp k hk) (by omega)]
  · rw [takeWhile_unfold r h, scan_end r h c false n hn fuel 0 (Nat.zero_le _) (fun k _ hk => hp k hk) (by omega), hn]

/-- `skip_until((x)->{x < c})`: with `j` the first position whose element satisfies the predicate the result is
`slice(j, None)` — the suffix from `j` —, again for `j + 1` search permits; if no element of a finite sequence
satisfies it the result is `slice(len, None)`, the empty sequence. -/
theorem skip_until_suffix (r : Rep) (h : r.wf) (c : Int) (fuel : Nat) :
    (∀ j, (den r).valid j → stops (den r) c true j → (∀ k, k < j → passes (den r) c true k) →
      (j < fuel → skipUntilLtB r c fuel = sliceB r j none) ∧
      (fuel ≤ j → skipUntilLtB r c fuel = .panic "out of fuel")) ∧
    (∀ n, (den r).len = some n → (∀ k, k < n → passes (den r) c true k) → n < fuel →
      skipUntilLtB r c fuel = sliceB r n none) := by
  refine ⟨fun j hv hj hp => ⟨fun hf => ?_, fun hf => ?_⟩, fun n hn hp hf => ?_⟩
  · rw [skipUntil_unfold r h, scan_found r h c true j hv hj fuel 0 (Nat.zero_le _) (fun k _ hk => hp k hk) (by omega)]
  · rw [skipUntil_unfold r h, scan_out_of_fuel r h c true j hv fuel 0 (Nat.zero_le _) (fun k _ hk => hp k hk) (by omega)]
  · rw [skipUntil_unfold r h, scan_end r h c true n hn fuel 0 (Nat.zero_le _) (fun k _ hk => hp k hk) (by omega), hn]; rfl

/-- `nth(k, (x)->{x < c})` on a finite sequence whose elements are the ints `xs`: the `k`-th element of the
filtered list for `k ≥ 0`, the `(-k-1)`-th element of the filtered reversed list for `k < 0`, `none` beyond
(`first` is `k = 0`, `last` is `k = -1`; include.rs:461-467) -/
theorem nth_list (r : Rep) (h : r.wf) (xs : List Int) (hn : (den r).len = some xs.length)
    (hel : ∀ k (hk : k < xs.length), (den r).el k = .ok (.int xs[k])) (k c : Int) (fuel : Nat)
    (hf : xs.length < fuel) :
    nthLtB r k c fuel =
      if k < 0 then .opt (((xs.reverse.filter (fun x => decide (x < c)))[(-k - 1).toNat]?).map Val.int)
      else .opt (((xs.filter (fun x => decide (x < c)))[k.toNat]?).map Val.int) := by
  rw [nth_unfold_fin r h xs.length hn]
  by_cases hk : k < 0
  · simp only [hk, if_true]
    have := nthBwd_list r h c xs.length hn xs.reverse (-k - 1).toNat (by simp) (fun j hj => by
      simp only [List.length_reverse] at hj ⊢
      rw [List.getElem_reverse]
      exact hel _ (by omega))
    simpa using this
  · simp only [hk, if_false]
    exact nthFwd_list r h c xs.length hn xs 0 k.toNat fuel (by omega) (fun j hj => by simpa using hel j hj) hf

/-- a negative match index on an infinite sequence is an error value -/
theorem nth_infinite_negative (r : Rep) (h : r.wf) (hn : (den r).len = none) (k c : Int) (fuel : Nat) (hk : k < 0) :
    nthLtB r k c fuel = .err "negative match index cannot be used with infinite sequence" :=
  nth_inf_negative r h hn k c fuel hk

example : nthLtB (.array [.int 5, .int 1, .int 7, .int 2]) (-1) 3 10 = .opt (some (.int 2)) ∧
    nthLtB (.range 0 10 1) 2 100 20 = .opt (some (.int 2)) ∧
    nthLtB (.array [.int 5]) 0 3 10 = .opt none := ⟨rfl, rfl, rfl⟩

/-- `to_stack` pushes the elements of the denoted list in order; an infinite sequence is an error value -/
theorem to_stack_list (r : Rep) (h : r.wf) :
    (∀ n, (den r).len = some n → toStackB r = (match tupAll (elemsFrom (den r) 0 n) with
      | .ok vs => .stack vs
      | .err m => .err m
      | .panic m => .panic m)) ∧
    ((den r).len = none → toStackB r = infErr) := toStack_spec r h

/-- `==` on sequences of different lengths is `false` without looking at elements; on finite sequences of the
same length whose elements evaluate to `xs`, `ys` it is list equality — whatever the two representations -/
theorem eq_is_list_eq (a b : Rep) (ha : a.wf) (hb : b.wf) (fuel : Nat) :
    ((den a).len ≠ (den b).len → eqB a b fuel = .bool false) ∧
    (∀ (xs ys : List Val), xs.length = ys.length →
      (den a).len = some xs.length → (den b).len = some ys.length →
      (∀ k (hk : k < xs.length), (den a).el k = .ok xs[k]) →
      (∀ k (hk : k < ys.length), (den b).el k = .ok ys[k]) → xs.length < fuel →
      eqB a b fuel = .bool (xs == ys)) :=
  ⟨eq_len_differ a b ha hb fuel, fun xs ys hl hna hnb hxa hyb hf => eq_list a b ha hb xs ys hl hna hnb hxa hyb fuel hf⟩

example : eqB .count (.array [.int 0]) 10 = .bool false ∧
    eqB (.array [.int 0, .int 1]) (.range 0 3 1) 10 = .bool false := ⟨rfl, rfl⟩

/-- Associativity at the level of denotations: however the `+` of a concatenation is parenthesised (left-deep,
right-deep, balanced, (k)+(n-k), …: `CTree`), and whichever arm of `chain` each `+` takes (including
Chain + Chain with any number of parts on either side, and empty operands returning the other operand), if no
`+` is an error value the result is well formed and denotes the concatenation of the leaves' lists in order. -/
theorem chain_assoc_den (t : CTree) (hw : ∀ r ∈ t.leaves, r.wf) (r : Rep) (h : t.eval = some r) :
    r.wf ∧ SemEq (den r) (Sem.concat (denList t.leaves)) := ctree_den t hw r h

/-- (a + b) + (c + d + e): both operands are chains, the right one has three parts -/
example :
    (CTree.node (.node (.leaf (.array [.int (-1)])) (.leaf (.array [.int 0])))
      (.node (.node (.leaf (.range 1 2 1)) (.leaf (.range 2 4 1))) (.leaf (.array [.int 4])))).eval =
      some (.chain [.array [.int (-1)], .array [.int 0], .range 1 2 1, .range 2 4 1, .array [.int 4]] [1, 2, 3, 5]) ∧
    (Rep.chain [.array [.int (-1)], .array [.int 0], .range 1 2 1, .range 2 4 1, .array [.int 4]] [1, 2, 3, 5]).len
      = .fin 6 := ⟨rfl, rfl⟩

end XrayModel.C15
