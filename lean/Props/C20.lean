/-
C20 — Documented conversions are mutually inverse and canonical.
Property theorems only; helper lemmas live in XrayProofs/Conv*.lean.

`date`, `julian_day`, `weekday`, `fraction`, … are the definitions in Generated/StdInt.lean, which the translator
/verif/translate/std_int.py regenerates from /repo/src/builtin/include.rs on every run: the statements below are
about what the library source says now.  `DateValid` / `DateNext` are the proleptic Gregorian calendar written
down independently in XrayModel/Conv.lean (leap rule, month lengths, successor).
-/
import XrayProofs.ConvDate
import XrayProofs.ConvFrac
import XrayProofs.ConvTime
import XrayProofs.ConvStr
import XrayProofs.ConvJson
import XrayProofs.ConvDigits
namespace XrayModel.C20
open XrayGen XrayModel.Conv

/-! ### calendar date ↔ Julian day (all integers, not only ±3 000 000) -/

/-- every Julian day converts to a date and back without change -/
theorem jd_date_roundtrip (jd : Int) : julian_day (date jd) = jd := (good_all jd).1

/-- every date of the (proleptic) Gregorian calendar converts to a Julian day and back without change -/
theorem date_jd_roundtrip (d : Date) (h : DateValid d) : date (julian_day d) = d := by
  cases d with
  | mk y m dd => exact back_all y m dd h

example : DateValid ⟨2024, 2, 29⟩ ∧ DateValid ⟨-4713, 11, 24⟩ ∧ ¬ DateValid ⟨1900, 2, 29⟩ := by decide

/-- `date` only produces dates that exist in the Gregorian calendar (canonical form) -/
theorem date_valid (jd : Int) : DateValid (date jd) := (good_all jd).2.1

/-- consecutive Julian days are consecutive calendar days: with `date_epoch` this pins `date` to *the*
Gregorian calendar -/
theorem date_succ (jd : Int) : date (jd + 1) = DateNext (date jd) := (good_all jd).2.2

/-- anchor: Julian day 2440588 is 1970-01-01 (the Unix epoch used by `datetime`/`unix`) -/
theorem date_epoch : date 2440588 = ⟨1970, 1, 1⟩ ∧ julian_day std_unix_epoch = 2440588 := by decide +kernel

/-- the weekday of a Julian day is the day number modulo 7 (Monday = 0) -/
theorem weekday_date (jd : Int) : weekday (date jd) = jd % 7 := by
  unfold weekday
  rw [jd_date_roundtrip, fmod_lit _ _ (by decide)]

/-- weekdays advance by one (mod 7) from each day to the next, for every Julian day -/
theorem weekday_step (jd : Int) : weekday (date (jd + 1)) = (weekday (date jd) + 1) % 7 := by
  rw [weekday_date, weekday_date]; omega

/-- weekdays are canonical: always in 0 … 6, also for days before the epoch of the Julian day count -/
theorem weekday_range (jd : Int) : 0 ≤ weekday (date jd) ∧ weekday (date jd) < 7 := by
  rw [weekday_date]; omega

/-- 1970-01-01 was a Thursday (Monday = 0) -/
theorem weekday_epoch : weekday std_unix_epoch = 3 := by decide +kernel


/-! ### datetime ↔ Unix seconds
Floats are abstract: the statements hold for every carrier `F` and operations `O` that satisfy the stated law of
exact arithmetic (`DivModLaw`: (t − 60·⌊t/60⌋) + 60·⌊t/60⌋ = t; `AddLaw`: adding whole minutes to seconds in [0,60) and
splitting again returns the parts).  The laws are satisfiable: exact binary fixed point satisfies both (examples).
IEEE doubles satisfy them for the times the tie samples (multiples of 2^-10 s in ±10^11 s); for other doubles they
can fail by rounding (design/C20.md). -/

/-- Unix seconds → `Datetime` → Unix seconds is the identity (negative and fractional times included) -/
theorem unix_datetime_roundtrip {F : Type} (O : FloatOps F) (law : DivModLaw O) (t : F) :
    unix O (datetime O t) = t := unix_datetime O law t

example : DivModLaw (fixOps 1048576) := fix_divmod

/-- a canonical `Datetime` (valid date, 0 ≤ hours < 24, 0 ≤ minutes < 60, seconds in [0, 60)) → Unix seconds →
`Datetime` is the identity -/
theorem datetime_unix_roundtrip {F : Type} (O : FloatOps F) (law : AddLaw O) (dt : Datetime F)
    (hv : DateValid dt.date) (hh : 0 ≤ dt.hours ∧ dt.hours < 24) (hm : 0 ≤ dt.minutes ∧ dt.minutes < 60)
    (hs : SecondsInRange O dt.seconds) : datetime O (unix O dt) = dt := datetime_unix O law dt hv hh hm hs

example : AddLaw (fixOps 1048576) := fix_add

/-- `datetime` always yields canonical integer fields (also for negative times: floored, not truncated) -/
theorem datetime_canonical {F : Type} (O : FloatOps F) (t : F) :
    DateValid (datetime O t).date ∧ 0 ≤ (datetime O t).hours ∧ (datetime O t).hours < 24 ∧
      0 ≤ (datetime O t).minutes ∧ (datetime O t).minutes < 60 := datetime_fields O t

/-- `datetime` has no error path except a zero divisor literal (i.e. none) -/
theorem datetime_total (t : Int) : datetime_dom (fixOps 1048576) t = true := by
  unfold datetime_dom; simp only []; rw [fix_lit]; decide

/-! ### fractions -/

/-- the library's Euclid loop terminates within its fuel for all operands and computes the gcd -/
theorem gcd_correct (a b : Int) : gcd_dom a b = true ∧ XrayGen.gcd a b = (Int.gcd a b : Int) :=
  ⟨gcd_total a b, gcd_spec a b⟩

/-- `fraction n d` (d ≠ 0) is defined, has a positive denominator, is in lowest terms and denotes n/d —
for operands of every magnitude (the division is exact integer division) -/
theorem fraction_lowest_terms (n d : Int) (hd : d ≠ 0) :
    fraction_dom n d = true ∧ 0 < (fraction n d).d ∧ Int.gcd (fraction n d).n (fraction n d).d = 1 ∧
      (fraction n d).n * d = n * (fraction n d).d := by
  obtain ⟨h1, ⟨h2, h3⟩, h4⟩ := fraction_spec n d hd
  exact ⟨h1, h2, h3, h4⟩

example : fraction (2 ^ 70 + 1) 3 = ⟨1180591620717411303425, 3⟩ ∧ fraction (3 * 2 ^ 70) (-6) = ⟨-590295810358705651712, 1⟩ ∧
    fraction 6 (-4) = ⟨-3, 2⟩ := by decide +kernel

/-- a zero denominator is an error value, not a fraction -/
theorem fraction_zero_denominator (n : Int) : fraction_dom n 0 = false := fraction_zero_den n

/-- canonical: two fractions in canonical form that denote the same rational are the same structure, so the
field-wise `eq` of the library decides equality of rationals -/
theorem fraction_canonical_unique (a b : Fraction) (ha : Canonical a) (hb : Canonical b) :
    fr_eq a b = true ↔ a.n * b.d = b.n * a.d := by
  constructor
  · intro h
    simp only [fr_eq, Bool.and_eq_true, decide_eq_true_eq] at h
    rw [h.1, h.2]
  · intro h
    have := canonical_unique a b ha hb h
    subst this
    simp [fr_eq]

/-- normalising a canonical fraction again changes nothing -/
theorem fraction_idempotent (f : Fraction) (hf : Canonical f) : fraction f.n f.d = f := by
  obtain ⟨_, hc, he⟩ := fraction_spec f.n f.d (by have := hf.1; omega)
  exact canonical_unique _ _ hc hf he

/-- addition is exact (stated by cross-multiplication) and returns a canonical fraction -/
theorem fr_add_exact (a b : Fraction) (ha : a.d ≠ 0) (hb : b.d ≠ 0) :
    fr_add_dom a b = true ∧ Canonical (fr_add a b) ∧
      (fr_add a b).n * (a.d * b.d) = (a.n * b.d + b.n * a.d) * (fr_add a b).d :=
  fraction_spec _ _ (Int.mul_ne_zero ha hb)

theorem fr_sub_exact (a b : Fraction) (ha : a.d ≠ 0) (hb : b.d ≠ 0) :
    fr_sub_dom a b = true ∧ Canonical (fr_sub a b) ∧
      (fr_sub a b).n * (a.d * b.d) = (a.n * b.d - b.n * a.d) * (fr_sub a b).d :=
  fraction_spec _ _ (Int.mul_ne_zero ha hb)

theorem fr_mul_exact (a b : Fraction) (ha : a.d ≠ 0) (hb : b.d ≠ 0) :
    fr_mul_dom a b = true ∧ Canonical (fr_mul a b) ∧
      (fr_mul a b).n * (a.d * b.d) = (a.n * b.n) * (fr_mul a b).d :=
  fraction_spec _ _ (Int.mul_ne_zero ha hb)

/-- division by a non-zero fraction is exact; the sign moves to the numerator -/
theorem fr_div_exact (a b : Fraction) (ha : a.d ≠ 0) (hb : b.n ≠ 0) :
    fr_div_dom a b = true ∧ Canonical (fr_div a b) ∧
      (fr_div a b).n * (a.d * b.n) = (a.n * b.d) * (fr_div a b).d :=
  fraction_spec _ _ (Int.mul_ne_zero ha hb)

/-- division by zero is an error value -/
theorem fr_div_zero (a b : Fraction) (hb : b.n = 0) : fr_div_dom a b = false := by
  unfold fr_div_dom; rw [hb, Int.mul_zero]; exact fraction_zero_den _

/-- negation and absolute value keep the canonical form -/
theorem fr_neg_abs_canonical (a : Fraction) (ha : Canonical a) : Canonical (fr_neg a) ∧ Canonical (fr_abs a) := by
  unfold Canonical fr_neg fr_abs at *
  simp only [abs_eq]
  refine ⟨⟨ha.1, by rw [Int.neg_gcd]; exact ha.2⟩, ha.1, ?_⟩
  have : Int.gcd (a.n.natAbs : Int) a.d = Int.gcd a.n a.d := by unfold Int.gcd; rw [Int.natAbs_natCast]
  rw [this]; exact ha.2

/-- `floor` and `ceil` of a fraction with positive denominator are the integer bounds of n/d -/
theorem fr_floor_ceil_spec (a : Fraction) (h : 0 < a.d) :
    (fr_floor a * a.d ≤ a.n ∧ a.n < (fr_floor a + 1) * a.d) ∧
      ((fr_ceil a - 1) * a.d < a.n ∧ a.n ≤ fr_ceil a * a.d) :=
  ⟨fr_floor_bounds a h, fr_ceil_bounds a h⟩

/-- `trunc` of a fraction with positive denominator is the quotient rounded toward zero -/
theorem fr_trunc_spec (a : Fraction) (h : 0 < a.d) : fr_trunc a = Int.tdiv a.n a.d := fr_trunc_tdiv a h

/-- positive integer powers are exact and canonical -/
theorem fr_pow_exact (a : Fraction) (b : Int) (ha : a.d ≠ 0) (hb : 0 < b) :
    fr_pow_dom a b = true ∧ Canonical (fr_pow a b) ∧
      (fr_pow a b).n * a.d ^ b.toNat = a.n ^ b.toNat * (fr_pow a b).d := fr_pow_pos a b ha hb

/-- the remainder of fractions is the floored remainder of the cross products over the common denominator -/
theorem fr_mod_exact (a b : Fraction) (ha : a.d ≠ 0) (hb : b.d ≠ 0) (hn : b.n ≠ 0) :
    fr_mod_dom a b = true ∧ Canonical (fr_mod a b) ∧
      (fr_mod a b).n * (a.d * b.d) = Int.fmod (a.n * b.d) (b.n * a.d) * (fr_mod a b).d := fr_mod_spec a b ha hb hn

/-! ### code point ↔ character -/

/-- `chr` succeeds exactly on Unicode scalar values (surrogates and values above 0x10FFFF are error values) and
`code_point` returns the number it was given -/
theorem chr_code_point (i : Int) (h0 : 0 ≤ i) (hs : isScalar i.toNat = true) :
    ∃ s, chr i = .ok s ∧ codePoint s = .ok i := by
  have hlt : i < 4294967296 := by
    simp only [isScalar, Bool.or_eq_true, Bool.and_eq_true, decide_eq_true_eq] at hs; omega
  refine ⟨[i.toNat], ?_, ?_⟩
  · unfold chr; rw [if_neg (by omega), if_pos hs]
  · unfold codePoint; simp only; congr 1; omega

/-- conversely: the one-character string of a scalar value goes to its code point and back to the same string -/
theorem code_point_chr (c : Nat) (hs : isScalar c = true) :
    codePoint [c] = .ok (c : Int) ∧ chr (c : Int) = .ok [c] := by
  have hlt : c < 4294967296 := by
    simp only [isScalar, Bool.or_eq_true, Bool.and_eq_true, decide_eq_true_eq] at hs; omega
  refine ⟨rfl, ?_⟩
  unfold chr; rw [if_neg (by omega), Int.toNat_natCast, if_pos hs]

/-- `chr` never fabricates a character: outside the scalar values it is an error value -/
theorem chr_rejects (i : Int) (h : i < 0 ∨ isScalar i.toNat = false) : ∃ e, chr i = .error e := by
  unfold chr
  by_cases h1 : i < 0 ∨ 4294967296 ≤ i
  · exact ⟨_, if_pos h1⟩
  · rw [if_neg h1]
    rcases h with h | h
    · omega
    · rw [h]; exact ⟨_, rfl⟩

example : isScalar 0xD7FF = true ∧ isScalar 0xD800 = false ∧ isScalar 0xDFFF = false ∧ isScalar 0xE000 = true ∧
    isScalar 0x10FFFF = true ∧ isScalar 0x110000 = false := by decide

/-! ### integer → digits in any base ≥ 2 (the route to text in an arbitrary base; `to_int(text, b)` is C14's `toStr_ofStr`)
`IntB.digits` is C14's arm-for-arm mirror of the loop of `digits` in int.rs. -/

/-- `digits(n, b)` succeeds for every `n` and every base `b ≥ 2`; the positional value of the digit list
(`from_digits`, Horner) is `n` again; and the list is canonical: empty for 0, otherwise no leading zero (the most
significant digit is non-zero) and its length `L` satisfies `b^(L-1) ≤ |n| < b^L`, i.e. `L = ⌊log_b |n|⌋ + 1` -/
theorem digits_roundtrip_canonical (n b : LB) (hn : n.wf) (hb : b.wf) (hb2 : 2 ≤ b.den) :
    ∃ ds, IntB.digits n b = .ints ds ∧ Digits.horner b.den (ds.map LB.den) = n.den ∧
      (n.den = 0 → ds = []) ∧
      (n.den ≠ 0 → (∃ d, ds.getLast? = some d ∧ d.den ≠ 0) ∧
        b.den.natAbs ^ (ds.length - 1) ≤ n.den.natAbs ∧ n.den.natAbs < b.den.natAbs ^ ds.length) := by
  obtain ⟨ds, h1, h2, h3, h4⟩ := digits_canon n b hn hb hb2
  exact ⟨ds, h1, h2, fun h => h3 (by omega), fun h => h4 (by omega)⟩

example : IntB.digits (LB.ofInt 7000000000000000005) (LB.ofInt 10) =
    .ints ([LB.short 5] ++ List.replicate 17 (LB.short 0) ++ [LB.short 7]) := by decide +kernel

/-! ### JSON strings -/

/-- the text `serialize` writes for a string reads back as the same string, for every string (quotes,
backslashes, control characters, non-BMP characters) -/
theorem unescape_escape (s : List Nat) : unescapeStr (escapeStr s) = some s := unescape_escape_str s

/-- a whole document: the text the serialiser of include.rs (`serialize`) writes for a JSON value reads back, with the
recursive-descent reader, as the same value — any nesting, any strings, empty arrays/objects, number tokens kept
verbatim (`WF`: a number token is a non-empty run of `0-9 + - . e E`, which is what float `to_str` writes) -/
theorem parse_ser (j : J) (h : WF j) : parseJson (ser j) = some j := parse_ser_doc j h

example : WF (.arr [.num [49, 46, 53], .obj [([107], .str [34, 10]), ([], .arr [])], .null, .bool true]) := by
  simp [WF, WFL, WFF, isNumChar]

/-- escaped text contains no raw control character -/
theorem escape_no_controls (c : Nat) : ∀ x ∈ escapeChar c, 32 ≤ x := escapeChar_clean c

end XrayModel.C20
