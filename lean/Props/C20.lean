/-
C20 — Documented conversions are mutually inverse and canonical.
Property theorems only; helper lemmas live in XrayProofs/Conv*.lean.

`date`, `julian_day`, `weekday`, `fraction`, … are the definitions in Generated/StdInt.lean, which the translator
/verif/translate/std_int.py regenerates from /repo/src/builtin/include.rs on every run: the statements below are
about what the library source says now.  `DateValid` / `DateNext` are the proleptic Gregorian calendar written
down independently in XrayModel/Conv.lean (leap rule, month lengths, successor).
-/
import XrayProofs.ConvDate
namespace XrayModel.C20
open XrayGen XrayModel.Conv

/-! ### calendar date ↔ Julian day (all integers, not only ±3 000 000) -/

/-- every Julian day converts to a date and back without change -/
theorem jd_date_roundtrip (jd : Int) : julian_day (date jd) = jd := (good_all jd).1

/-- every date of the (proleptic) Gregorian calendar converts to a Julian day and back without change -/
theorem date_jd_roundtrip (d : Date) (h : DateValid d) : date (julian_day d) = d := by
  cases d with
  | mk y m dd => exact back_all y m dd h

example : DateValid ⟨2024, 2, 29⟩ ∧ DateValid ⟨-4713, 11, 24⟩ ∧ ¬ DateValid ⟨1900, 2, 29⟩ := by decide

/-- `date` only produces dates that exist in the Gregorian calendar (canonical form) -/
theorem date_valid (jd : Int) : DateValid (date jd) := (good_all jd).2.1

/-- consecutive Julian days are consecutive calendar days: with `date_epoch` this pins `date` to *the*
Gregorian calendar -/
theorem date_succ (jd : Int) : date (jd + 1) = DateNext (date jd) := (good_all jd).2.2

/-- anchor: Julian day 2440588 is 1970-01-01 (the Unix epoch used by `datetime`/`unix`) -/
theorem date_epoch : date 2440588 = ⟨1970, 1, 1⟩ ∧ julian_day std_unix_epoch = 2440588 := by decide +kernel

/-- the weekday of a Julian day is the day number modulo 7 (Monday = 0) -/
theorem weekday_date (jd : Int) : weekday (date jd) = jd % 7 := by
  unfold weekday
  rw [jd_date_roundtrip, fmod_lit _ _ (by decide)]

/-- weekdays advance by one (mod 7) from each day to the next, for every Julian day -/
theorem weekday_step (jd : Int) : weekday (date (jd + 1)) = (weekday (date jd) + 1) % 7 := by
  rw [weekday_date, weekday_date]; omega

/-- weekdays are canonical: always in 0 … 6, also for days before the epoch of the Julian day count -/
theorem weekday_range (jd : Int) : 0 ≤ weekday (date jd) ∧ weekday (date jd) < 7 := by
  rw [weekday_date]; omega

/-- 1970-01-01 was a Thursday (Monday = 0) -/
theorem weekday_epoch : weekday std_unix_epoch = 3 := by decide +kernel

end XrayModel.C20
