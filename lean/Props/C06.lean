/-
C06 — Errors propagate as values; violations cannot be caught.
Theorems over the core evaluator (XrayModel/Core.lean).
-/
import XrayProofs.Core
namespace XrayModel.C06
open XrayModel.Core

/-- A user-defined function whose argument list contains an error value yields the leftmost such
error; its body does not run: no output, no counter change, whatever the limits. -/
theorem user_call_propagates (fuel : Nat) (cfg : Cfg) (h : Nat) (c : Val) (args : List Val) (st : St)
    (e : Val) (he : firstErr args = some e) :
    callUser (fuel + 1) cfg h c args st = (.val e, st) ∧ e.isErr = true := by
  refine ⟨?_, firstErr_isErr he⟩
  simp [callUser, he]

/-- Arguments, tuple/struct fields and array items that reach a callee or a constructor are never
error values: collections never contain errors. -/
theorem collections_error_free (fuel : Nat) (cfg : Cfg) (fr : Frame) (es : List Expr) (tail : Bool)
    (st st' : St) (vs : List Val) :
    (eval (fuel + 1) cfg fr (.tup es) tail st = (.val (.tup vs), st') → ∀ v ∈ vs, v.isErr = false) ∧
    (eval (fuel + 1) cfg fr (.arr es) tail st = (.val (.arr vs), st') → ∀ v ∈ vs, v.isErr = false) := by
  constructor <;> intro h <;> simp only [eval] at h <;> split at h
  · simp only [Prod.mk.injEq, Res.val.injEq, Val.tup.injEq] at h
    obtain ⟨h1, h2⟩ := h; subst h1; subst h2
    exact evalList_ok_noErr _ _ _ _ _ _ _ ‹_›
  · rename_i r st1 hr
    have := evalList_ok_noErr fuel cfg fr es st st1
    -- an `.error r` outcome of the list is returned as is; it can only be a tuple value if `r` is,
    -- which `evalList` never produces
    exact absurd h (by
      intro hh
      simp only [Prod.mk.injEq] at hh
      obtain ⟨h1, _⟩ := hh
      subst h1
      exact evalList_error_not_value fuel cfg fr es st st1 _ hr (by simp [Val.isErr]))
  · simp only [Prod.mk.injEq, Res.val.injEq, Val.arr.injEq] at h
    obtain ⟨h1, h2⟩ := h; subst h1; subst h2
    exact evalList_ok_noErr _ _ _ _ _ _ _ ‹_›
  · rename_i r st1 hr
    exact absurd h (by
      intro hh
      simp only [Prod.mk.injEq] at hh
      obtain ⟨h1, _⟩ := hh
      subst h1
      exact evalList_error_not_value fuel cfg fr es st st1 _ hr (by simp [Val.isErr]))

end XrayModel.C06
