/-
C06 — Errors propagate as values; violations cannot be caught.
Theorems over the core evaluator (XrayModel/Core.lean).
-/
import XrayProofs.CoreErrors
import XrayProofs.CoreXErrors
import XrayProofs.CoreXTco
import XrayProofs.CoreXConservative
namespace XrayModel.C06
open XrayModel.Core

/-- A user-defined function whose argument list contains an error value yields the leftmost such
error; its body does not run: no output, no counter change, whatever the limits. -/
theorem user_call_propagates (fuel : Nat) (cfg : Cfg) (h : Nat) (c : Val) (args : List Val) (st : St)
    (e : Val) (he : firstErr args = some e) :
    callUser (fuel + 1) cfg h c args st = (.val e, st) ∧ e.isErr = true := by
  refine ⟨?_, firstErr_isErr he⟩
  simp [callUser, he]

/-- Arguments, tuple/struct fields and array items that reach a callee or a constructor are never
error values: collections never contain errors. -/
theorem collections_error_free (fuel : Nat) (cfg : Cfg) (fr : Frame) (es : List Expr) (tail : Bool)
    (st st' : St) (vs : List Val) :
    (eval (fuel + 1) cfg fr (.tup es) tail st = (.val (.tup vs), st') → ∀ v ∈ vs, v.isErr = false) ∧
    (eval (fuel + 1) cfg fr (.arr es) tail st = (.val (.arr vs), st') → ∀ v ∈ vs, v.isErr = false) := by
  constructor <;> intro h <;> simp only [eval] at h <;> split at h
  · simp only [Prod.mk.injEq, Res.val.injEq, Val.tup.injEq] at h
    obtain ⟨h1, h2⟩ := h; subst h1; subst h2
    exact evalList_ok_noErr _ _ _ _ _ _ _ ‹_›
  · rename_i r st1 hr
    have := evalList_ok_noErr fuel cfg fr es st st1
    -- an `.error r` outcome of the list is returned as is; it can only be a tuple value if `r` is,
    -- which `evalList` never produces
    exact absurd h (by
      intro hh
      simp only [Prod.mk.injEq] at hh
      obtain ⟨h1, _⟩ := hh
      subst h1
      exact evalList_error_not_value fuel cfg fr es st st1 _ hr (by simp [Val.isErr]))
  · simp only [Prod.mk.injEq, Res.val.injEq, Val.arr.injEq] at h
    obtain ⟨h1, h2⟩ := h; subst h1; subst h2
    exact evalList_ok_noErr _ _ _ _ _ _ _ ‹_›
  · rename_i r st1 hr
    exact absurd h (by
      intro hh
      simp only [Prod.mk.injEq] at hh
      obtain ⟨h1, _⟩ := hh
      subst h1
      exact evalList_error_not_value fuel cfg fr es st st1 _ hr (by simp [Val.isErr]))

/-! ## 1. The leftmost error of an argument list is the result

`SeqVals cfg fr n pre st vs st1` (XrayProofs/CoreErrors.lean) says: the expressions `pre`, evaluated
left to right from state `st` at exactly the fuel levels `evalList n` uses, all yield non-error
values `vs`, and `st1` is the state reached.  In all theorems of this section the list is
`pre ++ e :: post`, `pre` yields values, and `e` yields the error value `.err m` in state `st1`,
leaving state `st2`.  The result never depends on `post`, and the final state is `st2`: nothing of
`post` is evaluated (no output, no call counted), and no callee runs. -/

/-- `evalList` stops at the leftmost error value: it reports that error in exactly the state after
the erroring expression; `post` is not evaluated. -/
theorem evalList_leftmost_error (cfg : Cfg) (fr : Frame) (k : Nat) (pre post : List Expr) (e : Expr)
    (st st1 st2 : St) (vs : List Val) (m : String)
    (hpre : SeqVals cfg fr (k + 1 + pre.length) pre st vs st1)
    (he : eval k cfg fr e false st1 = (.val (.err m), st2)) :
    evalList (k + 1 + pre.length) cfg fr (pre ++ e :: post) st = (.error (.val (.err m)), st2) := by
  rw [evalList_append _ hpre]
  simp [evalList, he]

/-- Every strict native (`add`, `sub`, …, `to_str`, `len`, `error`), whatever its arity, returns the
leftmost error among its arguments — at the level of `builtin` and of the call expression. -/
theorem strict_native_propagates (cfg : Cfg) (fr : Frame) (k : Nat) (pre post : List Expr) (e : Expr)
    (st st1 st2 : St) (vs : List Val) (m : String) (f : String) (tail : Bool)
    (hf : isStrictPrim f = true) (hfree : fr.get f = none)
    (hpre : SeqVals cfg fr (k + 1 + pre.length) pre st vs st1)
    (he : eval k cfg fr e false st1 = (.val (.err m), st2)) :
    builtin (k + 1 + pre.length + 1) cfg fr f (pre ++ e :: post) tail st = (.val (.err m), st2) ∧
    eval (k + 1 + pre.length + 3) cfg fr (.call f (pre ++ e :: post)) tail st = (.val (.err m), st2) := by
  have hl := evalList_leftmost_error cfg fr k pre post e st st1 st2 vs m hpre he
  have hb : builtin (k + 1 + pre.length + 1) cfg fr f (pre ++ e :: post) tail st = (.val (.err m), st2) := by
    simp only [isStrictPrim, List.mem_cons, List.mem_nil_iff, or_false, decide_eq_true_eq] at hf
    rcases hf with rfl | rfl | rfl | rfl | rfl | rfl | rfl | rfl | rfl | rfl | rfl | rfl | rfl | rfl | rfl | rfl <;>
      simp [builtin, isStrictPrim, hl]
  exact ⟨hb, by rw [eval_call_unbound hfree]; exact hb⟩

/-- The same without fuel bookkeeping: if the expressions of `pre` evaluate (each with some fuel, in
sequence) to non-error values and then `e` evaluates (with some fuel) to the error value `.err m`,
then with every sufficiently large fuel `evalList` of `pre ++ e :: post` reports that error in the
state after `e`, and so does the call of any strict native on these arguments. -/
theorem leftmost_error_enough_fuel (cfg : Cfg) (fr : Frame) (j : Nat) (pre post : List Expr) (e : Expr)
    (st st1 st2 : St) (vs : List Val) (m : String)
    (hpre : SeqValsAny cfg fr pre st vs st1)
    (he : eval j cfg fr e false st1 = (.val (.err m), st2)) :
    ∃ N, ∀ n, N ≤ n →
      evalList n cfg fr (pre ++ e :: post) st = (.error (.val (.err m)), st2) ∧
      (∀ f tail, isStrictPrim f = true → fr.get f = none →
        eval (n + 3) cfg fr (.call f (pre ++ e :: post)) tail st = (.val (.err m), st2)) := by
  obtain ⟨N0, hN0⟩ := hpre.enough
  refine ⟨max N0 (j + 1 + pre.length), fun n hn => ?_⟩
  obtain ⟨k, rfl⟩ : ∃ k, n = k + 1 + pre.length := ⟨n - 1 - pre.length, by omega⟩
  have hk : eval k cfg fr e false st1 = (.val (.err m), st2) := eval_mono (by omega) he (by simp)
  have hs := hN0 (k + 1 + pre.length) (by omega)
  have hl := evalList_leftmost_error cfg fr k pre post e st st1 st2 vs m hs hk
  refine ⟨hl, fun f tail hf hfree => ?_⟩
  rw [eval_call_unbound hfree, builtin_strict hf]
  simp [strictCall, hf, hl]

/-- Tuple/struct and array construction with an erroring item yields the leftmost such error. -/
theorem constructor_propagates (cfg : Cfg) (fr : Frame) (k : Nat) (pre post : List Expr) (e : Expr)
    (st st1 st2 : St) (vs : List Val) (m : String) (tail : Bool)
    (hpre : SeqVals cfg fr (k + 1 + pre.length) pre st vs st1)
    (he : eval k cfg fr e false st1 = (.val (.err m), st2)) :
    eval (k + 1 + pre.length + 1) cfg fr (.tup (pre ++ e :: post)) tail st = (.val (.err m), st2) ∧
    eval (k + 1 + pre.length + 1) cfg fr (.arr (pre ++ e :: post)) tail st = (.val (.err m), st2) := by
  have hl := evalList_leftmost_error cfg fr k pre post e st st1 st2 vs m hpre he
  simp [eval, hl]

/-- A call of a user function value (directly, by a name bound in the frame, or through a computed
callee) whose arguments contain an error value yields the leftmost such error.  `callUser` is not
reached: the state (output and call counter) is the state after the erroring argument. -/
theorem user_call_arg_propagates (cfg : Cfg) (fr : Frame) (k : Nat) (pre post : List Expr) (e : Expr)
    (st st1 st2 : St) (vs : List Val) (m : String) (tail : Bool)
    (fn : Func) (dflts : List Val) (env : List (String × Val)) (g : String)
    (hpre : SeqVals cfg fr (k + 1 + pre.length) pre st vs st1)
    (he : eval k cfg fr e false st1 = (.val (.err m), st2)) :
    callVal (k + 1 + pre.length + 1) cfg fr (.clos fn dflts env) (pre ++ e :: post) tail st = (.val (.err m), st2) ∧
    (lookup g fr.env = some (.clos fn dflts env) →
      eval (k + 1 + pre.length + 3) cfg fr (.call g (pre ++ e :: post)) tail st = (.val (.err m), st2)) ∧
    (∀ fe st0, eval (k + 1 + pre.length + 1) cfg fr fe false st0 = (.val (.clos fn dflts env), st) →
      eval (k + 1 + pre.length + 2) cfg fr (.callE fe (pre ++ e :: post)) tail st0 = (.val (.err m), st2)) := by
  have hl := evalList_leftmost_error cfg fr k pre post e st st1 st2 vs m hpre he
  have hc : callVal (k + 1 + pre.length + 1) cfg fr (.clos fn dflts env) (pre ++ e :: post) tail st = (.val (.err m), st2) := by
    simp [callVal, hl]
  refine ⟨hc, ?_, ?_⟩
  · intro hg
    rw [eval_call_bound hg]; exact hc
  · intro fe st0 hfe
    rw [eval]; simp only [hfe]; exact hc

/-- The tail special case (`self(args)` in tail position with TCO on): an erroring argument is the
result — an error value, not a `.tail` request to the trampoline. -/
theorem tail_call_arg_propagates (cfg : Cfg) (fr : Frame) (k : Nat) (pre post : List Expr) (e : Expr)
    (st st1 st2 : St) (vs : List Val) (m : String) (g : String) (c : Val)
    (hself : fr.self = some (g, c)) (hfree : lookup g fr.env = none) (htco : cfg.tco = true)
    (hpre : SeqVals cfg fr (k + 1 + pre.length) pre st vs st1)
    (he : eval k cfg fr e false st1 = (.val (.err m), st2)) :
    eval (k + 1 + pre.length + 1) cfg fr (.call g (pre ++ e :: post)) true st = (.val (.err m), st2) := by
  have hl := evalList_leftmost_error cfg fr k pre post e st st1 st2 vs m hpre he
  simp [eval, hself, hfree, htco, hl]

/-- A call whose callee is an error value (computed callee, or a name bound to an error value)
yields that error; the arguments are not evaluated (state unchanged after the callee). -/
theorem callee_error_propagates (cfg : Cfg) (fr : Frame) (n : Nat) (fe : Expr) (args : List Expr)
    (tail : Bool) (st st' : St) (m : String) :
    (eval n cfg fr fe false st = (.val (.err m), st') →
      eval (n + 1) cfg fr (.callE fe args) tail st = (.val (.err m), st')) ∧
    callVal (n + 1) cfg fr (.err m) args tail st = (.val (.err m), st) ∧
    (∀ g, lookup g fr.env = some (.err m) →
      eval (n + 3) cfg fr (.call g args) tail st = (.val (.err m), st)) := by
  refine ⟨?_, ?_, ?_⟩
  · intro h; simp [eval, h]
  · simp [callVal]
  · intro g hg; rw [eval_call_bound hg]; simp [callVal]


/-! ### the hypotheses are satisfiable: `add(1, error("boom"), display(7))` and friends -/

def fr0 : Frame := { env := [], self := none, height := 0 }
def boom : Expr := .call "error" [.str "boom"]
def disp7 : Expr := .call "display" [.int 7]
/-- `fn f(x, unused) { x - 7 }` -/
def fSub : Func := .mk (some "f") [.mk "x" none, .mk "unused" none] [] (.call "sub" [.var "x", .int 7])
def frF : Frame := { env := [("f", .clos fSub [] [])], self := none, height := 0 }

example : evalList 7 {} fr0 [.int 1, boom, disp7] {} = (.error (.val (.err "boom")), {}) :=
  evalList_leftmost_error {} fr0 5 [.int 1] [disp7] boom {} {} {} [.int 1] "boom"
    (.cons rfl rfl (.nil _ _)) rfl

example : eval 10 {} fr0 (.call "add" [.int 1, boom, disp7]) false {} = (.val (.err "boom"), {}) :=
  (strict_native_propagates {} fr0 5 [.int 1] [disp7] boom {} {} {} [.int 1] "boom" "add" false rfl rfl
    (.cons rfl rfl (.nil _ _)) rfl).2

example : eval 8 {} fr0 (.arr [.int 1, boom, disp7]) false {} = (.val (.err "boom"), {}) :=
  (constructor_propagates {} fr0 5 [.int 1] [disp7] boom {} {} {} [.int 1] "boom" false
    (.cons rfl rfl (.nil _ _)) rfl).2

/-- `f(5, error("boom"))` with `fn f(x, unused) { x - 7 }` is the error, not `-2`; with a call limit
of 1 the call would be a violation if it were made — it is not made -/
example : eval 10 { callLimit := some 1 } frF (.call "f" [.int 5, boom]) false {} = (.val (.err "boom"), {}) :=
  (user_call_arg_propagates { callLimit := some 1 } frF 5 [.int 5] [] boom {} {} {} [.int 5] "boom" false
    fSub [] [] "f" (.cons rfl rfl (.nil _ _)) rfl).2.1 rfl

/-! ## 2. Which natives can see an error value -/

/-- `if`, `and`, `or`, `display`: an error value in the first (always evaluated) argument is the
result, in the state after that argument — the other arguments are not evaluated. -/
theorem nonhandlers_propagate (n : Nat) (cfg : Cfg) (fr : Frame) (a b c : Expr) (tail : Bool)
    (st st' : St) (m : String) (h : eval n cfg fr a false st = (.val (.err m), st')) :
    builtin (n + 1) cfg fr "if" [a, b, c] tail st = (.val (.err m), st') ∧
    builtin (n + 1) cfg fr "and" [a, b] tail st = (.val (.err m), st') ∧
    builtin (n + 1) cfg fr "or" [a, b] tail st = (.val (.err m), st') ∧
    builtin (n + 1) cfg fr "display" [a] tail st = (.val (.err m), st') := by
  simp [builtin, h]

/-- The two handlers: `if_error(a, b)` with `a` an error value is `b` (evaluated in the state after
`a`, tail slot forwarded), with `a` a non-error value is that value and `b` is not evaluated;
`is_error(a)` is the boolean "`a` is an error value". -/
theorem handlers_inspect (n : Nat) (cfg : Cfg) (fr : Frame) (a b : Expr) (tail : Bool) (st st' : St) :
    (∀ m, eval n cfg fr a false st = (.val (.err m), st') →
      builtin (n + 1) cfg fr "if_error" [a, b] tail st = eval n cfg fr b tail st') ∧
    (∀ v, eval n cfg fr a false st = (.val v, st') → v.isErr = false →
      builtin (n + 1) cfg fr "if_error" [a, b] tail st = (.val v, st')) ∧
    (∀ v, eval n cfg fr a false st = (.val v, st') →
      builtin (n + 1) cfg fr "is_error" [a] tail st = (.val (.bool v.isErr), st')) := by
  refine ⟨?_, ?_, ?_⟩
  · intro m h; simp [builtin, h]
  · intro v h hv; cases v <;> simp_all [builtin, Val.isErr]
  · intro v h; simp [builtin, h]

/-- The short-circuit natives evaluate the selected argument only: the result is literally the
evaluation of the selected argument in the state after the first one, whatever the other
argument is (it contributes neither output nor calls nor errors). -/
theorem short_circuit_skips (n : Nat) (cfg : Cfg) (fr : Frame) (c a b : Expr) (tail : Bool) (st st' : St) :
    (eval n cfg fr c false st = (.val (.bool true), st') →
      builtin (n + 1) cfg fr "if" [c, a, b] tail st = eval n cfg fr a tail st' ∧
      builtin (n + 1) cfg fr "and" [c, b] tail st = eval n cfg fr b tail st' ∧
      builtin (n + 1) cfg fr "or" [c, b] tail st = (.val (.bool true), st')) ∧
    (eval n cfg fr c false st = (.val (.bool false), st') →
      builtin (n + 1) cfg fr "if" [c, a, b] tail st = eval n cfg fr b tail st' ∧
      builtin (n + 1) cfg fr "and" [c, b] tail st = (.val (.bool false), st') ∧
      builtin (n + 1) cfg fr "or" [c, b] tail st = eval n cfg fr b tail st') := by
  constructor <;> intro h <;> simp [builtin, h]

/-- Only `if_error` and `is_error` turn an error value of their first argument into something
else: for every native `f` (special form, strict native or unknown name) and every argument list,
if the first argument evaluates (with whatever fuel) to the error value `.err m` and the native
call returns a value at all, then either `f` is one of the two handlers or the value returned is
that very error in the state right after the first argument. -/
theorem only_handlers_inspect (n j : Nat) (cfg : Cfg) (fr : Frame) (f : String) (a : Expr) (rest : List Expr)
    (tail : Bool) (st st' st'' : St) (m : String) (v : Val)
    (hcall : builtin (n + 1) cfg fr f (a :: rest) tail st = (.val v, st''))
    (ha : eval j cfg fr a false st = (.val (.err m), st')) :
    f = "if_error" ∨ f = "is_error" ∨ (v = .err m ∧ st'' = st') := by
  -- whatever fuel the native gives to its first argument, the outcome is `.err m` or out of fuel
  have key : ∀ i, eval i cfg fr a false st = (.val (.err m), st') ∨ ∃ s, eval i cfg fr a false st = (.oof, s) := by
    intro i
    rcases hi : eval i cfg fr a false st with ⟨r, s⟩
    by_cases hr : r = .oof
    · subst hr; exact .inr ⟨s, rfl⟩
    · obtain ⟨h1, h2⟩ := eval_det hi ha hr (by simp)
      subst h1; subst h2; exact .inl rfl
  rcases builtin_shape f (a :: rest) with ⟨c, x, y, rfl, hargs⟩ | ⟨x, y, rfl, hargs⟩ | ⟨x, y, rfl, hargs⟩ |
    ⟨x, y, rfl, hargs⟩ | ⟨x, rfl, hargs⟩ | ⟨x, rfl, hargs⟩ | hd
  · cases hargs
    rcases key n with h | ⟨s, h⟩ <;> simp_all [builtin]
  · cases hargs
    rcases key n with h | ⟨s, h⟩ <;> simp_all [builtin]
  · cases hargs
    rcases key n with h | ⟨s, h⟩ <;> simp_all [builtin]
  · exact .inl rfl
  · exact .inr (.inl rfl)
  · cases hargs
    rcases key n with h | ⟨s, h⟩ <;> simp_all [builtin]
  · rw [hd] at hcall
    unfold strictCall at hcall
    split at hcall
    · cases n with
      | zero => simp [evalList] at hcall
      | succ i =>
        rcases key i with h | ⟨s, h⟩ <;> simp_all [evalList]
    · simp at hcall


/-- `if_error(error("boom"), 3)` is `3`, `is_error(error("boom"))` is `true`; `and(error("boom"), display(7))`
is the error and nothing is displayed; `if(true, 1, display(7))` is `1` and nothing is displayed -/
example : builtin 6 {} fr0 "if_error" [boom, .int 3] false {} = (.val (.int 3), {}) :=
  ((handlers_inspect 5 {} fr0 boom (.int 3) false {} {}).1 "boom" rfl).trans rfl
example : builtin 6 {} fr0 "is_error" [boom] false {} = (.val (.bool true), {}) :=
  (handlers_inspect 5 {} fr0 boom boom false {} {}).2.2 _ rfl
example : builtin 6 {} fr0 "and" [boom, disp7] false {} = (.val (.err "boom"), {}) :=
  (nonhandlers_propagate 5 {} fr0 boom disp7 disp7 false {} {} "boom" rfl).2.1
example : builtin 6 {} fr0 "if" [.bool true, .int 1, disp7] false {} = (.val (.int 1), {}) :=
  (((short_circuit_skips 5 {} fr0 (.bool true) (.int 1) disp7 false {} {}).1 rfl).1).trans rfl

/-! ## 3. A violation cannot be caught

`Conf` (XrayProofs/CoreErrors.lean) is an invocation of one of the ten functions of the evaluator,
`c.viol cfg k s` says that it ends in the violation `k` with state `s` (`(.viol k, s)`, or
`(.error (.viol k), s)` for the three list-like functions), `Sub cfg c' c` lists every call site of
the model — `c` performs the sub-evaluation `c'` — each with the path condition under which it is
reached (39 call sites), and `Within` is the reflexive-transitive closure of `Sub`. -/

/-- One step, for every call site of every function of the evaluator: if a sub-evaluation that an
invocation performs ends in a violation, the invocation ends in the same violation with the same
state.  Nothing that would have come after it is evaluated (the state is the sub-evaluation's). -/
theorem violation_absorbing_step (cfg : Cfg) (c' c : Conf) (k : Viol) (s : St)
    (hsub : Sub cfg c' c) (hv : c'.viol cfg k s) : c.viol cfg k s :=
  hsub.viol hv

/-- A violation is absorbing along the whole dynamic extent: if an evaluation `c'` that happens
anywhere inside the evaluation `c` (under any nesting of calls of natives and user functions,
handlers, constructors, declarations, closure creations, trampoline iterations) ends in the
violation `k`, then `c` ends in the violation `k`, in the same state. -/
theorem violation_uncatchable (cfg : Cfg) (c' c : Conf) (k : Viol) (s : St)
    (hin : Within cfg c' c) (hv : c'.viol cfg k s) : c.viol cfg k s :=
  hin.viol hv

/-- Conversely the list of call sites `Sub` is complete, and violations have exactly three sources:
whenever an invocation of any of the ten functions ends in a violation, there is an invocation in
its dynamic extent at which one of the three limit checks tripped (`Origin`: the call counter in
`callUser`, the depth check or the tail-iteration check in `tramp`) with the same kind and the same
state — from there it travelled out unchanged.  No native and no language construct produces,
changes or drops a violation. -/
theorem violation_only_from_limits (cfg : Cfg) (c : Conf) (k : Viol) (s : St) (hv : c.viol cfg k s) :
    ∃ c', Within cfg c' c ∧ Origin cfg c' k s :=
  viol_origin hv

/-- The two error handlers do not see a violation: `if_error(a, b)` and `is_error(a)` with `a`
ending in a violation end in that violation (state unchanged, `b` not evaluated) — at the level of
the natives and of the call expressions. -/
theorem violation_uncatchable_handlers (n : Nat) (cfg : Cfg) (fr : Frame) (a b : Expr) (tail : Bool)
    (st st' : St) (k : Viol) (h : eval n cfg fr a false st = (.viol k, st')) :
    builtin (n + 1) cfg fr "if_error" [a, b] tail st = (.viol k, st') ∧
    builtin (n + 1) cfg fr "is_error" [a] tail st = (.viol k, st') ∧
    (fr.get "if_error" = none → eval (n + 3) cfg fr (.call "if_error" [a, b]) tail st = (.viol k, st')) ∧
    (fr.get "is_error" = none → eval (n + 3) cfg fr (.call "is_error" [a]) tail st = (.viol k, st')) := by
  have h1 : builtin (n + 1) cfg fr "if_error" [a, b] tail st = (.viol k, st') := by simp [builtin, h]
  have h2 : builtin (n + 1) cfg fr "is_error" [a] tail st = (.viol k, st') := by simp [builtin, h]
  refine ⟨h1, h2, ?_, ?_⟩
  · intro hf; rw [eval_call_unbound hf]; exact h1
  · intro hf; rw [eval_call_unbound hf]; exact h2

/-- A violation in an item/argument position (after a prefix of values): the list evaluation, the
tuple and array constructors, every strict native, and the call of a user function value all end in
that violation, in the state where it happened; the later items are not evaluated and the callee
does not run. -/
theorem violation_in_arguments (cfg : Cfg) (fr : Frame) (n : Nat) (pre post : List Expr) (e : Expr)
    (st st1 st2 : St) (vs : List Val) (k : Viol) (tail : Bool)
    (hpre : SeqVals cfg fr (n + 1 + pre.length) pre st vs st1)
    (he : eval n cfg fr e false st1 = (.viol k, st2)) :
    evalList (n + 1 + pre.length) cfg fr (pre ++ e :: post) st = (.error (.viol k), st2) ∧
    eval (n + 1 + pre.length + 1) cfg fr (.tup (pre ++ e :: post)) tail st = (.viol k, st2) ∧
    eval (n + 1 + pre.length + 1) cfg fr (.arr (pre ++ e :: post)) tail st = (.viol k, st2) ∧
    (∀ f, isStrictPrim f = true →
      builtin (n + 1 + pre.length + 1) cfg fr f (pre ++ e :: post) tail st = (.viol k, st2)) ∧
    (∀ fn dflts env,
      callVal (n + 1 + pre.length + 1) cfg fr (.clos fn dflts env) (pre ++ e :: post) tail st = (.viol k, st2)) := by
  have hl : evalList (n + 1 + pre.length) cfg fr (pre ++ e :: post) st = (.error (.viol k), st2) :=
    (within_list_item e post hpre).viol (k := k) (s := st2) he
  refine ⟨hl, ?_, ?_, ?_, ?_⟩
  · simp [eval, hl]
  · simp [eval, hl]
  · intro f hf
    exact (Sub.strictArgs _ fr f _ tail st hf).viol (k := k) (s := st2) hl
  · intro fn dflts env
    simp [callVal, hl]

/-- The host receives it: if any evaluation inside the dynamic extent of the program ends in the
violation `k`, then `runProgram` returns `.error (.viol k)` — not a frame of bindings — with the
state (output written, calls counted) at the moment of the violation. -/
theorem violation_reaches_host (fuel : Nat) (cfg : Cfg) (ds : List Decl) (c : Conf) (k : Viol) (s : St)
    (hin : Within cfg c (.evalDecls fuel { env := [], self := none, height := 0 } ds {}))
    (hv : c.viol cfg k s) :
    runProgram fuel cfg ds = (.error (.viol k), s) :=
  hin.viol hv

/-- In particular for a top-level declaration: if the declarations `pre` succeed and the next
declaration's right-hand side (or closure creation) ends in a violation, the program ends in that
violation; the remaining declarations `post` are not evaluated. -/
theorem toplevel_violation_stops (n : Nat) (cfg : Cfg) (pre post : List Decl) (fr1 : Frame) (st1 s : St) (k : Viol)
    (hpre : SeqDecls cfg (n + 1 + pre.length) { env := [], self := none, height := 0 } pre {} fr1 st1) :
    (∀ x e, eval n cfg fr1 e false st1 = (.viol k, s) →
      runProgram (n + 1 + pre.length) cfg (pre ++ .letD x e :: post) = (.error (.viol k), s)) ∧
    (∀ f, mkClos n cfg fr1 f st1 = (.viol k, s) →
      runProgram (n + 1 + pre.length) cfg (pre ++ .fnD f :: post) = (.error (.viol k), s)) := by
  constructor
  · intro x e he
    unfold runProgram
    rw [evalDecls_append _ hpre]
    simp [evalDecls, he]
  · intro f hf
    unfold runProgram
    rw [evalDecls_append _ hpre]
    simp [evalDecls, hf]

/-! ### the hypotheses are satisfiable: a call limit of 1 trips on the first user call -/

def cfg1 : Cfg := { callLimit := some 1 }
/-- `f(1, 2)` -/
def callF : Expr := .call "f" [.int 1, .int 2]

/-- the call itself is the violation … -/
example : eval 8 cfg1 frF callF false {} = (.viol .calls, { calls := 1 }) := rfl
/-- … so `if_error(f(1, 2), 0)` and `is_error(f(1, 2))` are that violation, not `0` / `false` -/
example : eval 11 cfg1 frF (.call "if_error" [callF, .int 0]) false {} = (.viol .calls, { calls := 1 }) :=
  (violation_uncatchable_handlers 8 cfg1 frF callF (.int 0) false {} _ .calls rfl).2.2.1 rfl
example : eval 11 cfg1 frF (.call "is_error" [callF]) false {} = (.viol .calls, { calls := 1 }) :=
  (violation_uncatchable_handlers 8 cfg1 frF callF (.int 0) false {} _ .calls rfl).2.2.2 rfl

/-- the dynamic extent: the counter check of `callUser` happens inside the evaluation of `f(1, 2)` -/
example : Within cfg1 (.callUser 5 0 (.clos fSub [] []) [.int 1, .int 2] {}) (.eval 8 frF callF false {}) :=
  .step (.step (.step (.refl _)
    (Sub.callBody 5 frF fSub [] [] _ false {} _ _ rfl))
    (Sub.boundCall 6 frF "f" _ false {} _ rfl))
    (Sub.namedCall 7 frF "f" _ false {} (by intro sn sc h; cases h))

/-- `[1, if_error(f(1, 2), 0), display(7)]`: the violation inside the second item is the outcome of
the array construction; nothing is displayed -/
example : eval 14 cfg1 frF (.arr [.int 1, .call "if_error" [callF, .int 0], disp7]) false {}
    = (.viol .calls, { calls := 1 }) :=
  (violation_in_arguments cfg1 frF 11 [.int 1] [disp7] _ {} {} _ [.int 1] .calls false
    (.cons rfl rfl (.nil _ _)) rfl).2.2.1

/-- the program `fn f(x, unused) { x - 7 }  let a = 1;  let b = if_error(f(1, 2), 0);  let c = display(7);`
under a call limit of 1: the host receives the violation, `c` is not evaluated -/
example : runProgram 14 cfg1 [.fnD fSub, .letD "a" (.int 1), .letD "b" (.call "if_error" [callF, .int 0]),
      .letD "c" disp7] = (.error (.viol .calls), { calls := 1 }) :=
  (toplevel_violation_stops 11 cfg1 [.fnD fSub, .letD "a" (.int 1)] [.letD "c" disp7]
    { env := [("a", .int 1), ("f", .clos fSub [] [])], self := none, height := 0 } {} _ .calls
    (.fnD rfl rfl (.letD rfl (.nil _ _ _)))).1 "b" _ rfl


/-- The syntactic form: `plug C e` is the expression `C[e]`; `Reaches cfg fr C F tail st n tl s` says
that evaluating `C[·]` (fuel `F`, tail flag `tail`, state `st`) evaluates its hole with fuel `n`,
tail flag `tl` in state `s` — the items and arguments before the hole are non-error values, the
hole is the first argument of `if/and/or/if_error/is_error/display` or the argument a short-circuit
native selects, an argument of a strict native, of a user function (by name, tail self-call, or
computed callee), a tuple/array item, the tuple of an item access, or a computed callee; contexts
nest.  If `e` ends in a violation there, so does `C[e]`, with the same state. -/
theorem violation_uncatchable_ctx (cfg : Cfg) (fr : Frame) (C : Ctx) (F n : Nat) (tail tl : Bool) (st s s' : St)
    (e : Expr) (k : Viol) (hC : Reaches cfg fr C F tail st n tl s)
    (he : eval n cfg fr e tl s = (.viol k, s')) :
    eval F cfg fr (plug C e) tail st = (.viol k, s') :=
  (hC.within e).viol (k := k) (s := s') he

/-- `is_error([1, if_error(□, 0), display(7)])` with `f(1, 2)` in the hole, under a call limit of 1 -/
example : eval 17 cfg1 frF
    (.call "is_error" [.arr [.int 1, .call "if_error" [callF, .int 0], disp7]]) false {}
    = (.viol .calls, { calls := 1 }) :=
  violation_uncatchable_ctx cfg1 frF
    (.arg "is_error" [] (.arr [.int 1] (.arg "if_error" [] .hole [.int 0]) [disp7]) [])
    17 8 false false {} {} _ callF .calls
    (.specialFirst false (.inr (.inr ⟨.inl rfl, rfl⟩)) rfl
      (.arr false (.cons rfl rfl (.nil _ _))
        (.specialFirst false (.inr (.inl ⟨.inr (.inr rfl), _, rfl⟩)) rfl (.hole 8 false _))))
    rfl


/-! ## 4. `display` -/

/-- `display` of an error value writes nothing and returns the error; `display` of a printable value
appends exactly one line (its text) and returns the value; in every other case (violation, stuck,
out of fuel, unprintable value) it writes nothing. -/
theorem display_error_silent (n : Nat) (cfg : Cfg) (fr : Frame) (a : Expr) (tail : Bool) (st st' : St) :
    (∀ m, eval n cfg fr a false st = (.val (.err m), st') →
      builtin (n + 1) cfg fr "display" [a] tail st = (.val (.err m), st')) ∧
    (∀ v s, eval n cfg fr a false st = (.val v, st') → toStr v = some s →
      builtin (n + 1) cfg fr "display" [a] tail st = (.val v, { st' with out := st'.out ++ [s] })) ∧
    (∀ r, eval n cfg fr a false st = (r, st') → (∀ v, r = .val v → toStr v = none) →
      (builtin (n + 1) cfg fr "display" [a] tail st).2 = st') := by
  refine ⟨?_, ?_, ?_⟩
  · intro m h; simp [builtin, h]
  · intro v s h hs
    cases v <;> simp_all [builtin, toStr]
  · intro r h hr
    rcases r with v | _ | _ | _ | _
    · have := hr v rfl
      cases v <;> simp_all [builtin, toStr]
    all_goals simp [builtin, h]


/-- `display(error("boom"))` leaves the output empty; `display(7)` writes the line `7` -/
example : builtin 6 {} fr0 "display" [boom] false {} = (.val (.err "boom"), { out := [] }) :=
  (display_error_silent 5 {} fr0 boom false {} {}).1 "boom" rfl
example : builtin 6 {} fr0 "display" [.int 7] false {} = (.val (.int 7), { out := ["7"] }) :=
  (display_error_silent 5 {} fr0 (.int 7) false {} {}).2.1 (.int 7) "7" rfl (by decide)

end XrayModel.C06


/-! # The extended evaluator (XrayModel/CoreX.lean)

Unions (`U::tag(e)`, `e!:tag`, `e?:tag`), optionals (`some`, `none`, `value`, `has_value`, and the
short-circuit natives `map_or`, `or`, `and` on optionals), `get` / index sugar, `push`.  The theorems
above are ported unchanged in statement (suffix `_x`; helper files `XrayProofs/CoreX*.lean` are ports
of the helper files), `nonhandlers_propagate_x` / `short_circuit_skips_x` / `only_handlers_inspect_x`
cover the extended native table, and the new constructs get their own statements at the end. -/
namespace XrayModel.C06
open XrayModel.CoreX

/-- A user-defined function whose argument list contains an error value yields the leftmost such
error; its body does not run: no output, no counter change, whatever the limits. -/
theorem user_call_propagates_x (fuel : Nat) (cfg : Cfg) (h : Nat) (c : Val) (args : List Val) (st : St)
    (e : Val) (he : firstErr args = some e) :
    callUser (fuel + 1) cfg h c args st = (.val e, st) ∧ e.isErr = true := by
  refine ⟨?_, firstErr_isErr he⟩
  simp [callUser, he]

/-- Arguments, tuple/struct fields and array items that reach a callee or a constructor are never
error values: collections never contain errors. -/
theorem collections_error_free_x (fuel : Nat) (cfg : Cfg) (fr : Frame) (es : List Expr) (tail : Bool)
    (st st' : St) (vs : List Val) :
    (eval (fuel + 1) cfg fr (.tup es) tail st = (.val (.tup vs), st') → ∀ v ∈ vs, v.isErr = false) ∧
    (eval (fuel + 1) cfg fr (.arr es) tail st = (.val (.arr vs), st') → ∀ v ∈ vs, v.isErr = false) := by
  constructor <;> intro h <;> simp only [eval] at h <;> split at h
  · simp only [Prod.mk.injEq, Res.val.injEq, Val.tup.injEq] at h
    obtain ⟨h1, h2⟩ := h; subst h1; subst h2
    exact evalList_ok_noErr _ _ _ _ _ _ _ ‹_›
  · rename_i r st1 hr
    have := evalList_ok_noErr fuel cfg fr es st st1
    -- an `.error r` outcome of the list is returned as is; it can only be a tuple value if `r` is,
    -- which `evalList` never produces
    exact absurd h (by
      intro hh
      simp only [Prod.mk.injEq] at hh
      obtain ⟨h1, _⟩ := hh
      subst h1
      exact evalList_error_not_value fuel cfg fr es st st1 _ hr (by simp [Val.isErr]))
  · simp only [Prod.mk.injEq, Res.val.injEq, Val.arr.injEq] at h
    obtain ⟨h1, h2⟩ := h; subst h1; subst h2
    exact evalList_ok_noErr _ _ _ _ _ _ _ ‹_›
  · rename_i r st1 hr
    exact absurd h (by
      intro hh
      simp only [Prod.mk.injEq] at hh
      obtain ⟨h1, _⟩ := hh
      subst h1
      exact evalList_error_not_value fuel cfg fr es st st1 _ hr (by simp [Val.isErr]))

/-! ## 1. The leftmost error of an argument list is the result

`SeqVals cfg fr n pre st vs st1` (XrayProofs/CoreErrors.lean) says: the expressions `pre`, evaluated
left to right from state `st` at exactly the fuel levels `evalList n` uses, all yield non-error
values `vs`, and `st1` is the state reached.  In all theorems of this section the list is
`pre ++ e :: post`, `pre` yields values, and `e` yields the error value `.err m` in state `st1`,
leaving state `st2`.  The result never depends on `post`, and the final state is `st2`: nothing of
`post` is evaluated (no output, no call counted), and no callee runs. -/

/-- `evalList` stops at the leftmost error value: it reports that error in exactly the state after
the erroring expression; `post` is not evaluated. -/
theorem evalList_leftmost_error_x (cfg : Cfg) (fr : Frame) (k : Nat) (pre post : List Expr) (e : Expr)
    (st st1 st2 : St) (vs : List Val) (m : String)
    (hpre : SeqVals cfg fr (k + 1 + pre.length) pre st vs st1)
    (he : eval k cfg fr e false st1 = (.val (.err m), st2)) :
    evalList (k + 1 + pre.length) cfg fr (pre ++ e :: post) st = (.error (.val (.err m)), st2) := by
  rw [evalList_append _ hpre]
  simp [evalList, he]

/-- Every strict native (`add`, `sub`, …, `to_str`, `len`, `error`), whatever its arity, returns the
leftmost error among its arguments — at the level of `builtin` and of the call expression. -/
theorem strict_native_propagates_x (cfg : Cfg) (fr : Frame) (k : Nat) (pre post : List Expr) (e : Expr)
    (st st1 st2 : St) (vs : List Val) (m : String) (f : String) (tail : Bool)
    (hf : isStrictPrim f = true) (hfree : fr.get f = none)
    (hpre : SeqVals cfg fr (k + 1 + pre.length) pre st vs st1)
    (he : eval k cfg fr e false st1 = (.val (.err m), st2)) :
    builtin (k + 1 + pre.length + 1) cfg fr f (pre ++ e :: post) tail st = (.val (.err m), st2) ∧
    eval (k + 1 + pre.length + 3) cfg fr (.call f (pre ++ e :: post)) tail st = (.val (.err m), st2) := by
  have hl := evalList_leftmost_error_x cfg fr k pre post e st st1 st2 vs m hpre he
  have hb : builtin (k + 1 + pre.length + 1) cfg fr f (pre ++ e :: post) tail st = (.val (.err m), st2) := by
    rw [builtin_strict hf]; simp [strictCall, hf, hl]
  exact ⟨hb, by rw [eval_call_unbound hfree]; exact hb⟩

/-- The same without fuel bookkeeping: if the expressions of `pre` evaluate (each with some fuel, in
sequence) to non-error values and then `e` evaluates (with some fuel) to the error value `.err m`,
then with every sufficiently large fuel `evalList` of `pre ++ e :: post` reports that error in the
state after `e`, and so does the call of any strict native on these arguments. -/
theorem leftmost_error_enough_fuel_x (cfg : Cfg) (fr : Frame) (j : Nat) (pre post : List Expr) (e : Expr)
    (st st1 st2 : St) (vs : List Val) (m : String)
    (hpre : SeqValsAny cfg fr pre st vs st1)
    (he : eval j cfg fr e false st1 = (.val (.err m), st2)) :
    ∃ N, ∀ n, N ≤ n →
      evalList n cfg fr (pre ++ e :: post) st = (.error (.val (.err m)), st2) ∧
      (∀ f tail, isStrictPrim f = true → fr.get f = none →
        eval (n + 3) cfg fr (.call f (pre ++ e :: post)) tail st = (.val (.err m), st2)) := by
  obtain ⟨N0, hN0⟩ := hpre.enough
  refine ⟨max N0 (j + 1 + pre.length), fun n hn => ?_⟩
  obtain ⟨k, rfl⟩ : ∃ k, n = k + 1 + pre.length := ⟨n - 1 - pre.length, by omega⟩
  have hk : eval k cfg fr e false st1 = (.val (.err m), st2) := eval_mono (by omega) he (by simp)
  have hs := hN0 (k + 1 + pre.length) (by omega)
  have hl := evalList_leftmost_error_x cfg fr k pre post e st st1 st2 vs m hs hk
  refine ⟨hl, fun f tail hf hfree => ?_⟩
  rw [eval_call_unbound hfree, builtin_strict hf]
  simp [strictCall, hf, hl]

/-- Tuple/struct and array construction with an erroring item yields the leftmost such error. -/
theorem constructor_propagates_x (cfg : Cfg) (fr : Frame) (k : Nat) (pre post : List Expr) (e : Expr)
    (st st1 st2 : St) (vs : List Val) (m : String) (tail : Bool)
    (hpre : SeqVals cfg fr (k + 1 + pre.length) pre st vs st1)
    (he : eval k cfg fr e false st1 = (.val (.err m), st2)) :
    eval (k + 1 + pre.length + 1) cfg fr (.tup (pre ++ e :: post)) tail st = (.val (.err m), st2) ∧
    eval (k + 1 + pre.length + 1) cfg fr (.arr (pre ++ e :: post)) tail st = (.val (.err m), st2) := by
  have hl := evalList_leftmost_error_x cfg fr k pre post e st st1 st2 vs m hpre he
  simp [eval, hl]

/-- A call of a user function value (directly, by a name bound in the frame, or through a computed
callee) whose arguments contain an error value yields the leftmost such error.  `callUser` is not
reached: the state (output and call counter) is the state after the erroring argument. -/
theorem user_call_arg_propagates_x (cfg : Cfg) (fr : Frame) (k : Nat) (pre post : List Expr) (e : Expr)
    (st st1 st2 : St) (vs : List Val) (m : String) (tail : Bool)
    (fn : Func) (dflts : List Val) (env : List (String × Val)) (g : String)
    (hpre : SeqVals cfg fr (k + 1 + pre.length) pre st vs st1)
    (he : eval k cfg fr e false st1 = (.val (.err m), st2)) :
    callVal (k + 1 + pre.length + 1) cfg fr (.clos fn dflts env) (pre ++ e :: post) tail st = (.val (.err m), st2) ∧
    (lookup g fr.env = some (.clos fn dflts env) →
      eval (k + 1 + pre.length + 3) cfg fr (.call g (pre ++ e :: post)) tail st = (.val (.err m), st2)) ∧
    (∀ fe st0, eval (k + 1 + pre.length + 1) cfg fr fe false st0 = (.val (.clos fn dflts env), st) →
      eval (k + 1 + pre.length + 2) cfg fr (.callE fe (pre ++ e :: post)) tail st0 = (.val (.err m), st2)) := by
  have hl := evalList_leftmost_error_x cfg fr k pre post e st st1 st2 vs m hpre he
  have hc : callVal (k + 1 + pre.length + 1) cfg fr (.clos fn dflts env) (pre ++ e :: post) tail st = (.val (.err m), st2) := by
    simp [callVal, hl]
  refine ⟨hc, ?_, ?_⟩
  · intro hg
    rw [eval_call_bound hg]; exact hc
  · intro fe st0 hfe
    rw [eval]; simp only [hfe]; exact hc

/-- The tail special case (`self(args)` in tail position with TCO on): an erroring argument is the
result — an error value, not a `.tail` request to the trampoline. -/
theorem tail_call_arg_propagates_x (cfg : Cfg) (fr : Frame) (k : Nat) (pre post : List Expr) (e : Expr)
    (st st1 st2 : St) (vs : List Val) (m : String) (g : String) (c : Val)
    (hself : fr.self = some (g, c)) (hfree : lookup g fr.env = none) (htco : cfg.tco = true)
    (hpre : SeqVals cfg fr (k + 1 + pre.length) pre st vs st1)
    (he : eval k cfg fr e false st1 = (.val (.err m), st2)) :
    eval (k + 1 + pre.length + 1) cfg fr (.call g (pre ++ e :: post)) true st = (.val (.err m), st2) := by
  have hl := evalList_leftmost_error_x cfg fr k pre post e st st1 st2 vs m hpre he
  simp [eval, hself, hfree, htco, hl]

/-- A call whose callee is an error value (computed callee, or a name bound to an error value)
yields that error; the arguments are not evaluated (state unchanged after the callee). -/
theorem callee_error_propagates_x (cfg : Cfg) (fr : Frame) (n : Nat) (fe : Expr) (args : List Expr)
    (tail : Bool) (st st' : St) (m : String) :
    (eval n cfg fr fe false st = (.val (.err m), st') →
      eval (n + 1) cfg fr (.callE fe args) tail st = (.val (.err m), st')) ∧
    callVal (n + 1) cfg fr (.err m) args tail st = (.val (.err m), st) ∧
    (∀ g, lookup g fr.env = some (.err m) →
      eval (n + 3) cfg fr (.call g args) tail st = (.val (.err m), st)) := by
  refine ⟨?_, ?_, ?_⟩
  · intro h; simp [eval, h]
  · simp [callVal]
  · intro g hg; rw [eval_call_bound hg]; simp [callVal]


/-! ### the hypotheses are satisfiable: `add(1, error("boomX"), display(7))` and friends -/

def fr0X : Frame := { env := [], self := none, height := 0 }
def boomX : Expr := .call "error" [.str "boomX"]
def disp7X : Expr := .call "display" [.int 7]
/-- `fn f(x, unused) { x - 7 }` -/
def fSubX : Func := .mk (some "f") [.mk "x" none, .mk "unused" none] [] (.call "sub" [.var "x", .int 7])
def frFX : Frame := { env := [("f", .clos fSubX [] [])], self := none, height := 0 }

example : evalList 7 {} fr0X [.int 1, boomX, disp7X] {} = (.error (.val (.err "boomX")), {}) :=
  evalList_leftmost_error_x {} fr0X 5 [.int 1] [disp7X] boomX {} {} {} [.int 1] "boomX"
    (.cons rfl rfl (.nil _ _)) rfl

example : eval 10 {} fr0X (.call "add" [.int 1, boomX, disp7X]) false {} = (.val (.err "boomX"), {}) :=
  (strict_native_propagates_x {} fr0X 5 [.int 1] [disp7X] boomX {} {} {} [.int 1] "boomX" "add" false rfl rfl
    (.cons rfl rfl (.nil _ _)) rfl).2

example : eval 8 {} fr0X (.arr [.int 1, boomX, disp7X]) false {} = (.val (.err "boomX"), {}) :=
  (constructor_propagates_x {} fr0X 5 [.int 1] [disp7X] boomX {} {} {} [.int 1] "boomX" false
    (.cons rfl rfl (.nil _ _)) rfl).2

/-- `f(5, error("boomX"))` with `fn f(x, unused) { x - 7 }` is the error, not `-2`; with a call limit
of 1 the call would be a violation if it were made — it is not made -/
example : eval 10 { callLimit := some 1 } frFX (.call "f" [.int 5, boomX]) false {} = (.val (.err "boomX"), {}) :=
  (user_call_arg_propagates_x { callLimit := some 1 } frFX 5 [.int 5] [] boomX {} {} {} [.int 5] "boomX" false
    fSubX [] [] "f" (.cons rfl rfl (.nil _ _)) rfl).2.1 rfl

/-! ## 2. Which natives can see an error value -/

/-- `if`, `and`, `or`, `display`: an error value in the first (always evaluated) argument is the
result, in the state after that argument — the other arguments are not evaluated. -/
theorem nonhandlers_propagate_x (n : Nat) (cfg : Cfg) (fr : Frame) (a b c : Expr) (tail : Bool)
    (st st' : St) (m : String) (h : eval n cfg fr a false st = (.val (.err m), st')) :
    builtin (n + 1) cfg fr "if" [a, b, c] tail st = (.val (.err m), st') ∧
    builtin (n + 1) cfg fr "and" [a, b] tail st = (.val (.err m), st') ∧
    builtin (n + 1) cfg fr "or" [a, b] tail st = (.val (.err m), st') ∧
    builtin (n + 1) cfg fr "display" [a] tail st = (.val (.err m), st') ∧
    builtin (n + 1) cfg fr "map_or" [a, b, c] tail st = (.val (.err m), st') := by
  simp [builtin, h]

/-- The two handlers: `if_error(a, b)` with `a` an error value is `b` (evaluated in the state after
`a`, tail slot forwarded), with `a` a non-error value is that value and `b` is not evaluated;
`is_error(a)` is the boolean "`a` is an error value". -/
theorem handlers_inspect_x (n : Nat) (cfg : Cfg) (fr : Frame) (a b : Expr) (tail : Bool) (st st' : St) :
    (∀ m, eval n cfg fr a false st = (.val (.err m), st') →
      builtin (n + 1) cfg fr "if_error" [a, b] tail st = eval n cfg fr b tail st') ∧
    (∀ v, eval n cfg fr a false st = (.val v, st') → v.isErr = false →
      builtin (n + 1) cfg fr "if_error" [a, b] tail st = (.val v, st')) ∧
    (∀ v, eval n cfg fr a false st = (.val v, st') →
      builtin (n + 1) cfg fr "is_error" [a] tail st = (.val (.bool v.isErr), st')) := by
  refine ⟨?_, ?_, ?_⟩
  · intro m h; simp [builtin, h]
  · intro v h hv; cases v <;> simp_all [builtin, Val.isErr]
  · intro v h; simp [builtin, h]

/-- (with the optional arms: `and(some _, b)` is `b`, `and(none, b)` is `none`; `or(some v, b)` is `v`,
`or(none, b)` is `b`; `map_or(none, f, d)` is `d` — each an equation with the selected evaluation, tail slot
forwarded.)  The short-circuit natives evaluate the selected argument only: the result is literally the
evaluation of the selected argument in the state after the first one, whatever the other
argument is (it contributes neither output nor calls nor errors). -/
theorem short_circuit_skips_x (n : Nat) (cfg : Cfg) (fr : Frame) (c a b : Expr) (tail : Bool) (st st' : St) :
    (eval n cfg fr c false st = (.val (.bool true), st') →
      builtin (n + 1) cfg fr "if" [c, a, b] tail st = eval n cfg fr a tail st' ∧
      builtin (n + 1) cfg fr "and" [c, b] tail st = eval n cfg fr b tail st' ∧
      builtin (n + 1) cfg fr "or" [c, b] tail st = (.val (.bool true), st')) ∧
    (eval n cfg fr c false st = (.val (.bool false), st') →
      builtin (n + 1) cfg fr "if" [c, a, b] tail st = eval n cfg fr b tail st' ∧
      builtin (n + 1) cfg fr "and" [c, b] tail st = (.val (.bool false), st') ∧
      builtin (n + 1) cfg fr "or" [c, b] tail st = eval n cfg fr b tail st') ∧
    (∀ v, eval n cfg fr c false st = (.val (.some v), st') →
      builtin (n + 1) cfg fr "and" [c, b] tail st = eval n cfg fr b tail st' ∧
      builtin (n + 1) cfg fr "or" [c, b] tail st = (.val v, st')) ∧
    (eval n cfg fr c false st = (.val .none, st') →
      builtin (n + 1) cfg fr "and" [c, b] tail st = (.val .none, st') ∧
      builtin (n + 1) cfg fr "or" [c, b] tail st = eval n cfg fr b tail st' ∧
      builtin (n + 1) cfg fr "map_or" [c, a, b] tail st = eval n cfg fr b tail st') := by
  refine ⟨?_, ?_, ?_, ?_⟩
  · intro h; simp [builtin, h]
  · intro h; simp [builtin, h]
  · intro v h; simp [builtin, h]
  · intro h; simp [builtin, h]

/-- (extended table: special forms `if/3 and/2 or/2 if_error/2 is_error/1 display/1 map_or/3` — `and`/`or`
dispatching on bool / optional —, 22 strict natives, anything else unknown.)
Only `if_error` and `is_error` turn an error value of their first argument into something
else: for every native `f` (special form, strict native or unknown name) and every argument list,
if the first argument evaluates (with whatever fuel) to the error value `.err m` and the native
call returns a value at all, then either `f` is one of the two handlers or the value returned is
that very error in the state right after the first argument. -/
theorem only_handlers_inspect_x (n j : Nat) (cfg : Cfg) (fr : Frame) (f : String) (a : Expr) (rest : List Expr)
    (tail : Bool) (st st' st'' : St) (m : String) (v : Val)
    (hcall : builtin (n + 1) cfg fr f (a :: rest) tail st = (.val v, st''))
    (ha : eval j cfg fr a false st = (.val (.err m), st')) :
    f = "if_error" ∨ f = "is_error" ∨ (v = .err m ∧ st'' = st') := by
  -- whatever fuel the native gives to its first argument, the outcome is `.err m` or out of fuel
  have key : ∀ i, eval i cfg fr a false st = (.val (.err m), st') ∨ ∃ s, eval i cfg fr a false st = (.oof, s) := by
    intro i
    rcases hi : eval i cfg fr a false st with ⟨r, s⟩
    by_cases hr : r = .oof
    · subst hr; exact .inr ⟨s, rfl⟩
    · obtain ⟨h1, h2⟩ := eval_det hi ha hr (by simp)
      subst h1; subst h2; exact .inl rfl
  rcases builtin_shape f (a :: rest) with ⟨c, x, y, rfl, hargs⟩ | ⟨x, y, rfl, hargs⟩ | ⟨x, y, rfl, hargs⟩ |
    ⟨x, y, rfl, hargs⟩ | ⟨x, rfl, hargs⟩ | ⟨x, rfl, hargs⟩ | ⟨x, y, z, rfl, hargs⟩ | hd
  · cases hargs
    rcases key n with h | ⟨s, h⟩ <;> simp_all [builtin]
  · cases hargs
    rcases key n with h | ⟨s, h⟩ <;> simp_all [builtin]
  · cases hargs
    rcases key n with h | ⟨s, h⟩ <;> simp_all [builtin]
  · exact .inl rfl
  · exact .inr (.inl rfl)
  · cases hargs
    rcases key n with h | ⟨s, h⟩ <;> simp_all [builtin]
  · cases hargs
    rcases key n with h | ⟨s, h⟩ <;> simp_all [builtin]
  · rw [hd] at hcall
    unfold strictCall at hcall
    split at hcall
    · cases n with
      | zero => simp [evalList] at hcall
      | succ i =>
        rcases key i with h | ⟨s, h⟩ <;> simp_all [evalList]
    · simp at hcall


/-- `if_error(error("boomX"), 3)` is `3`, `is_error(error("boomX"))` is `true`; `and(error("boomX"), display(7))`
is the error and nothing is displayed; `if(true, 1, display(7))` is `1` and nothing is displayed -/
example : builtin 6 {} fr0X "if_error" [boomX, .int 3] false {} = (.val (.int 3), {}) :=
  ((handlers_inspect_x 5 {} fr0X boomX (.int 3) false {} {}).1 "boomX" rfl).trans rfl
example : builtin 6 {} fr0X "is_error" [boomX] false {} = (.val (.bool true), {}) :=
  (handlers_inspect_x 5 {} fr0X boomX boomX false {} {}).2.2 _ rfl
example : builtin 6 {} fr0X "and" [boomX, disp7X] false {} = (.val (.err "boomX"), {}) :=
  (nonhandlers_propagate_x 5 {} fr0X boomX disp7X disp7X false {} {} "boomX" rfl).2.1
example : builtin 6 {} fr0X "if" [.bool true, .int 1, disp7X] false {} = (.val (.int 1), {}) :=
  (((short_circuit_skips_x 5 {} fr0X (.bool true) (.int 1) disp7X false {} {}).1 rfl).1).trans rfl

/-! ## 3. A violation cannot be caught

`Conf` (XrayProofs/CoreErrors.lean) is an invocation of one of the ten functions of the evaluator,
`c.viol cfg k s` says that it ends in the violation `k` with state `s` (`(.viol k, s)`, or
`(.error (.viol k), s)` for the three list-like functions), `Sub cfg c' c` lists every call site of
the model — `c` performs the sub-evaluation `c'` — each with the path condition under which it is
reached (39 call sites), and `Within` is the reflexive-transitive closure of `Sub`. -/

/-- One step, for every call site of every function of the evaluator: if a sub-evaluation that an
invocation performs ends in a violation, the invocation ends in the same violation with the same
state.  Nothing that would have come after it is evaluated (the state is the sub-evaluation's). -/
theorem violation_absorbing_step_x (cfg : Cfg) (c' c : Conf) (k : Viol) (s : St)
    (hsub : Sub cfg c' c) (hv : c'.viol cfg k s) : c.viol cfg k s :=
  hsub.viol hv

/-- A violation is absorbing along the whole dynamic extent: if an evaluation `c'` that happens
anywhere inside the evaluation `c` (under any nesting of calls of natives and user functions,
handlers, constructors, declarations, closure creations, trampoline iterations) ends in the
violation `k`, then `c` ends in the violation `k`, in the same state. -/
theorem violation_uncatchable_x (cfg : Cfg) (c' c : Conf) (k : Viol) (s : St)
    (hin : Within cfg c' c) (hv : c'.viol cfg k s) : c.viol cfg k s :=
  hin.viol hv

/-- Conversely the list of call sites `Sub` is complete, and violations have exactly three sources:
whenever an invocation of any of the ten functions ends in a violation, there is an invocation in
its dynamic extent at which one of the three limit checks tripped (`Origin`: the call counter in
`callUser`, the depth check or the tail-iteration check in `tramp`) with the same kind and the same
state — from there it travelled out unchanged.  No native and no language construct produces,
changes or drops a violation. -/
theorem violation_only_from_limits_x (cfg : Cfg) (c : Conf) (k : Viol) (s : St) (hv : c.viol cfg k s) :
    ∃ c', Within cfg c' c ∧ Origin cfg c' k s :=
  viol_origin hv

/-- The two error handlers do not see a violation: `if_error(a, b)` and `is_error(a)` with `a`
ending in a violation end in that violation (state unchanged, `b` not evaluated) — at the level of
the natives and of the call expressions. -/
theorem violation_uncatchable_handlers_x (n : Nat) (cfg : Cfg) (fr : Frame) (a b : Expr) (tail : Bool)
    (st st' : St) (k : Viol) (h : eval n cfg fr a false st = (.viol k, st')) :
    builtin (n + 1) cfg fr "if_error" [a, b] tail st = (.viol k, st') ∧
    builtin (n + 1) cfg fr "is_error" [a] tail st = (.viol k, st') ∧
    (fr.get "if_error" = none → eval (n + 3) cfg fr (.call "if_error" [a, b]) tail st = (.viol k, st')) ∧
    (fr.get "is_error" = none → eval (n + 3) cfg fr (.call "is_error" [a]) tail st = (.viol k, st')) := by
  have h1 : builtin (n + 1) cfg fr "if_error" [a, b] tail st = (.viol k, st') := by simp [builtin, h]
  have h2 : builtin (n + 1) cfg fr "is_error" [a] tail st = (.viol k, st') := by simp [builtin, h]
  refine ⟨h1, h2, ?_, ?_⟩
  · intro hf; rw [eval_call_unbound hf]; exact h1
  · intro hf; rw [eval_call_unbound hf]; exact h2

/-- A violation in an item/argument position (after a prefix of values): the list evaluation, the
tuple and array constructors, every strict native, and the call of a user function value all end in
that violation, in the state where it happened; the later items are not evaluated and the callee
does not run. -/
theorem violation_in_arguments_x (cfg : Cfg) (fr : Frame) (n : Nat) (pre post : List Expr) (e : Expr)
    (st st1 st2 : St) (vs : List Val) (k : Viol) (tail : Bool)
    (hpre : SeqVals cfg fr (n + 1 + pre.length) pre st vs st1)
    (he : eval n cfg fr e false st1 = (.viol k, st2)) :
    evalList (n + 1 + pre.length) cfg fr (pre ++ e :: post) st = (.error (.viol k), st2) ∧
    eval (n + 1 + pre.length + 1) cfg fr (.tup (pre ++ e :: post)) tail st = (.viol k, st2) ∧
    eval (n + 1 + pre.length + 1) cfg fr (.arr (pre ++ e :: post)) tail st = (.viol k, st2) ∧
    (∀ f, isStrictPrim f = true →
      builtin (n + 1 + pre.length + 1) cfg fr f (pre ++ e :: post) tail st = (.viol k, st2)) ∧
    (∀ fn dflts env,
      callVal (n + 1 + pre.length + 1) cfg fr (.clos fn dflts env) (pre ++ e :: post) tail st = (.viol k, st2)) := by
  have hl : evalList (n + 1 + pre.length) cfg fr (pre ++ e :: post) st = (.error (.viol k), st2) :=
    (within_list_item e post hpre).viol (k := k) (s := st2) he
  refine ⟨hl, ?_, ?_, ?_, ?_⟩
  · simp [eval, hl]
  · simp [eval, hl]
  · intro f hf
    exact (Sub.strictArgs _ fr f _ tail st hf).viol (k := k) (s := st2) hl
  · intro fn dflts env
    simp [callVal, hl]

/-- The host receives it: if any evaluation inside the dynamic extent of the program ends in the
violation `k`, then `runProgram` returns `.error (.viol k)` — not a frame of bindings — with the
state (output written, calls counted) at the moment of the violation. -/
theorem violation_reaches_host_x (fuel : Nat) (cfg : Cfg) (ds : List Decl) (c : Conf) (k : Viol) (s : St)
    (hin : Within cfg c (.evalDecls fuel { env := [], self := none, height := 0 } ds {}))
    (hv : c.viol cfg k s) :
    runProgram fuel cfg ds = (.error (.viol k), s) :=
  hin.viol hv

/-- In particular for a top-level declaration: if the declarations `pre` succeed and the next
declaration's right-hand side (or closure creation) ends in a violation, the program ends in that
violation; the remaining declarations `post` are not evaluated. -/
theorem toplevel_violation_stops_x (n : Nat) (cfg : Cfg) (pre post : List Decl) (fr1 : Frame) (st1 s : St) (k : Viol)
    (hpre : SeqDecls cfg (n + 1 + pre.length) { env := [], self := none, height := 0 } pre {} fr1 st1) :
    (∀ x e, eval n cfg fr1 e false st1 = (.viol k, s) →
      runProgram (n + 1 + pre.length) cfg (pre ++ .letD x e :: post) = (.error (.viol k), s)) ∧
    (∀ f, mkClos n cfg fr1 f st1 = (.viol k, s) →
      runProgram (n + 1 + pre.length) cfg (pre ++ .fnD f :: post) = (.error (.viol k), s)) := by
  constructor
  · intro x e he
    unfold runProgram
    rw [evalDecls_append _ hpre]
    simp [evalDecls, he]
  · intro f hf
    unfold runProgram
    rw [evalDecls_append _ hpre]
    simp [evalDecls, hf]

/-! ### the hypotheses are satisfiable: a call limit of 1 trips on the first user call -/

def cfg1X : Cfg := { callLimit := some 1 }
/-- `f(1, 2)` -/
def callFX : Expr := .call "f" [.int 1, .int 2]

/-- the call itself is the violation … -/
example : eval 8 cfg1X frFX callFX false {} = (.viol .calls, { calls := 1 }) := rfl
/-- … so `if_error(f(1, 2), 0)` and `is_error(f(1, 2))` are that violation, not `0` / `false` -/
example : eval 11 cfg1X frFX (.call "if_error" [callFX, .int 0]) false {} = (.viol .calls, { calls := 1 }) :=
  (violation_uncatchable_handlers_x 8 cfg1X frFX callFX (.int 0) false {} _ .calls rfl).2.2.1 rfl
example : eval 11 cfg1X frFX (.call "is_error" [callFX]) false {} = (.viol .calls, { calls := 1 }) :=
  (violation_uncatchable_handlers_x 8 cfg1X frFX callFX (.int 0) false {} _ .calls rfl).2.2.2 rfl

/-- the dynamic extent: the counter check of `callUser` happens inside the evaluation of `f(1, 2)` -/
example : Within cfg1X (.callUser 5 0 (.clos fSubX [] []) [.int 1, .int 2] {}) (.eval 8 frFX callFX false {}) :=
  .step (.step (.step (.refl _)
    (Sub.callBody 5 frFX fSubX [] [] _ false {} _ _ rfl))
    (Sub.boundCall 6 frFX "f" _ false {} _ rfl))
    (Sub.namedCall 7 frFX "f" _ false {} (by intro sn sc h; cases h))

/-- `[1, if_error(f(1, 2), 0), display(7)]`: the violation inside the second item is the outcome of
the array construction; nothing is displayed -/
example : eval 14 cfg1X frFX (.arr [.int 1, .call "if_error" [callFX, .int 0], disp7X]) false {}
    = (.viol .calls, { calls := 1 }) :=
  (violation_in_arguments_x cfg1X frFX 11 [.int 1] [disp7X] _ {} {} _ [.int 1] .calls false
    (.cons rfl rfl (.nil _ _)) rfl).2.2.1

/-- the program `fn f(x, unused) { x - 7 }  let a = 1;  let b = if_error(f(1, 2), 0);  let c = display(7);`
under a call limit of 1: the host receives the violation, `c` is not evaluated -/
example : runProgram 14 cfg1X [.fnD fSubX, .letD "a" (.int 1), .letD "b" (.call "if_error" [callFX, .int 0]),
      .letD "c" disp7X] = (.error (.viol .calls), { calls := 1 }) :=
  (toplevel_violation_stops_x 11 cfg1X [.fnD fSubX, .letD "a" (.int 1)] [.letD "c" disp7X]
    { env := [("a", .int 1), ("f", .clos fSubX [] [])], self := none, height := 0 } {} _ .calls
    (.fnD rfl rfl (.letD rfl (.nil _ _ _)))).1 "b" _ rfl


/-- The syntactic form: `plug C e` is the expression `C[e]`; `Reaches cfg fr C F tail st n tl s` says
that evaluating `C[·]` (fuel `F`, tail flag `tail`, state `st`) evaluates its hole with fuel `n`,
tail flag `tl` in state `s` — the items and arguments before the hole are non-error values, the
hole is the first argument of `if/and/or/if_error/is_error/display` or the argument a short-circuit
native selects, an argument of a strict native, of a user function (by name, tail self-call, or
computed callee), a tuple/array item, the tuple of an item access, or a computed callee; contexts
nest.  If `e` ends in a violation there, so does `C[e]`, with the same state. -/
theorem violation_uncatchable_ctx_x (cfg : Cfg) (fr : Frame) (C : Ctx) (F n : Nat) (tail tl : Bool) (st s s' : St)
    (e : Expr) (k : Viol) (hC : Reaches cfg fr C F tail st n tl s)
    (he : eval n cfg fr e tl s = (.viol k, s')) :
    eval F cfg fr (plug C e) tail st = (.viol k, s') :=
  (hC.within e).viol (k := k) (s := s') he

/-- `is_error([1, if_error(□, 0), display(7)])` with `f(1, 2)` in the hole, under a call limit of 1 -/
example : eval 17 cfg1X frFX
    (.call "is_error" [.arr [.int 1, .call "if_error" [callFX, .int 0], disp7X]]) false {}
    = (.viol .calls, { calls := 1 }) :=
  violation_uncatchable_ctx_x cfg1X frFX
    (.arg "is_error" [] (.arr [.int 1] (.arg "if_error" [] .hole [.int 0]) [disp7X]) [])
    17 8 false false {} {} _ callFX .calls
    (.specialFirst false (.inr (.inr ⟨.inl rfl, rfl⟩)) rfl
      (.arr false (.cons rfl rfl (.nil _ _))
        (.specialFirst false (.inr (.inl ⟨.inr (.inr rfl), _, rfl⟩)) rfl (.hole 8 false _))))
    rfl


/-! ## 4. `display` -/

/-- `display` of an error value writes nothing and returns the error; `display` of a printable value
appends exactly one line (its text) and returns the value; in every other case (violation, stuck,
out of fuel, unprintable value) it writes nothing. -/
theorem display_error_silent_x (n : Nat) (cfg : Cfg) (fr : Frame) (a : Expr) (tail : Bool) (st st' : St) :
    (∀ m, eval n cfg fr a false st = (.val (.err m), st') →
      builtin (n + 1) cfg fr "display" [a] tail st = (.val (.err m), st')) ∧
    (∀ v s, eval n cfg fr a false st = (.val v, st') → toStr v = some s →
      builtin (n + 1) cfg fr "display" [a] tail st = (.val v, { st' with out := st'.out ++ [s] })) ∧
    (∀ r, eval n cfg fr a false st = (r, st') → (∀ v, r = .val v → toStr v = none) →
      (builtin (n + 1) cfg fr "display" [a] tail st).2 = st') := by
  refine ⟨?_, ?_, ?_⟩
  · intro m h; simp [builtin, h]
  · intro v s h hs
    cases v <;> simp_all [builtin, toStr]
  · intro r h hr
    rcases r with v | _ | _ | _ | _
    · have := hr v rfl
      cases v <;> simp_all [builtin, toStr]
    all_goals simp [builtin, h]


/-- `display(error("boomX"))` leaves the output empty; `display(7)` writes the line `7` -/
example : builtin 6 {} fr0X "display" [boomX] false {} = (.val (.err "boomX"), { out := [] }) :=
  (display_error_silent_x 5 {} fr0X boomX false {} {}).1 "boomX" rfl
example : builtin 6 {} fr0X "display" [.int 7] false {} = (.val (.int 7), { out := ["7"] }) :=
  (display_error_silent_x 5 {} fr0X (.int 7) false {} {}).2.1 (.int 7) "7" rfl (by decide)



/-! ### the constructs of the extension -/

/-- Union construction with an erroring payload is that error (no union value is built); `!:` and
`?:` on an erroring expression are that error. -/
theorem variant_propagates_x (n : Nat) (cfg : Cfg) (fr : Frame) (e : Expr) (tag : Nat) (tail : Bool)
    (st st' : St) (m : String) (h : eval n cfg fr e false st = (.val (.err m), st')) :
    eval (n + 1) cfg fr (.variant tag e) tail st = (.val (.err m), st') ∧
    eval (n + 1) cfg fr (.memberValue e tag) tail st = (.val (.err m), st') ∧
    eval (n + 1) cfg fr (.memberOpt e tag) tail st = (.val (.err m), st') := by
  simp [eval, h]

/-- `some(x)`, `value(o)`, `has_value(o)`, `len(a)`: an erroring argument is the result;
collection insertion `push(a, x)` and indexing `get(a, i)` (also written `a[i]`): an erroring first
argument is the result and the second is not evaluated; a non-error first argument and an erroring
second one give the second's error — nothing is inserted, nothing is indexed. -/
theorem insertion_propagates_x (n : Nat) (cfg : Cfg) (fr : Frame) (f : String) (a b : Expr) (tail : Bool)
    (st st1 st2 : St) (m : String) (hfree : fr.get f = none) :
    (f ∈ ["some", "value", "has_value", "len", "push", "get"] →
      eval n cfg fr a false st = (.val (.err m), st1) →
      eval (n + 4) cfg fr (.call f [a]) tail st = (.val (.err m), st1) ∧
      eval (n + 4) cfg fr (.call f [a, b]) tail st = (.val (.err m), st1)) ∧
    (f ∈ ["push", "get"] → ∀ v, eval (n + 1) cfg fr a false st = (.val v, st1) → v.isErr = false →
      eval n cfg fr b false st1 = (.val (.err m), st2) →
      eval (n + 5) cfg fr (.call f [a, b]) tail st = (.val (.err m), st2)) := by
  constructor
  · intro hf ha
    have hs : isStrictPrim f = true := by
      simp only [List.mem_cons, List.mem_nil_iff, or_false] at hf
      rcases hf with rfl | rfl | rfl | rfl | rfl | rfl <;> decide
    exact ⟨(strict_native_propagates_x cfg fr n [] [] a st st st1 [] m f tail hs hfree (.nil _ _) ha).2,
      (strict_native_propagates_x cfg fr n [] [b] a st st st1 [] m f tail hs hfree (.nil _ _) ha).2⟩
  · intro hf v ha hv hb
    have hs : isStrictPrim f = true := by
      simp only [List.mem_cons, List.mem_nil_iff, or_false] at hf
      rcases hf with rfl | rfl <;> decide
    exact (strict_native_propagates_x cfg fr n [a] [] b st st1 st2 [v] m f tail hs hfree
      (.cons ha hv (.nil _ _)) hb).2

/-- `!:` gives the payload of the named variant and the error value "value is of incorrect variant"
for another variant; `?:` gives `some(payload)` / `none`. -/
theorem member_access_x (n : Nat) (cfg : Cfg) (fr : Frame) (e : Expr) (t tag : Nat) (v : Val) (tail : Bool)
    (st st' : St) (h : eval n cfg fr e false st = (.val (.variant t v), st')) :
    eval (n + 1) cfg fr (.memberValue e tag) tail st =
      (if t = tag then .val v else .val (.err "value is of incorrect variant"), st') ∧
    eval (n + 1) cfg fr (.memberOpt e tag) tail st = (.val (if t = tag then .some v else .none), st') := by
  constructor
  · simp only [eval, h]; split <;> rfl
  · simp [eval, h]

/-- index normalisation of `get`: `0 ≤ i < len` is item `i`, `-len ≤ i < 0` is item `len + i`,
`i ≥ len` is the error value "index out of bounds", `i < -len` the error value "index too low". -/
theorem get_index_x (vs : List Val) (i : Int) :
    (0 ≤ i → i < vs.length → ∃ v, vs[i.toNat]? = some v ∧ getIdx vs i = .val v) ∧
    (i < 0 → -(vs.length : Int) ≤ i → ∃ v, vs[(i + vs.length).toNat]? = some v ∧ getIdx vs i = .val v) ∧
    ((vs.length : Int) ≤ i → getIdx vs i = .val (.err "index out of bounds")) ∧
    (i < -(vs.length : Int) → getIdx vs i = .val (.err "index too low")) := by
  refine ⟨?_, ?_, ?_, ?_⟩
  · intro h0 h1
    have hlt : i.toNat < vs.length := by omega
    exact ⟨vs[i.toNat], List.getElem?_eq_getElem hlt, by
      simp [getIdx, show ¬ i < 0 by omega, List.getElem?_eq_getElem hlt]⟩
  · intro h0 h1
    have hlt : (i + vs.length).toNat < vs.length := by omega
    exact ⟨vs[(i + vs.length).toNat], List.getElem?_eq_getElem hlt, by
      simp [getIdx, h0, show ¬ (i + vs.length < 0) by omega, List.getElem?_eq_getElem hlt]⟩
  · intro h
    have : vs.length ≤ i.toNat := by omega
    simp [getIdx, show ¬ i < 0 by omega, List.getElem?_eq_none this]
  · intro h
    simp [getIdx, show i < 0 by omega, show i + vs.length < 0 by omega]



/-- The stored value of a union instance, of `some(x)` and the value inserted by `push` are never
error values (for tuples and arrays: `collections_error_free_x`). -/
theorem stored_values_error_free_x (n : Nat) (cfg : Cfg) (fr : Frame) (e a x : Expr) (tag t : Nat) (tail : Bool)
    (st st' : St) (v : Val) (ws : List Val) :
    (eval (n + 1) cfg fr (.variant tag e) tail st = (.val (.variant t v), st') → v.isErr = false) ∧
    (builtin (n + 1) cfg fr "some" [e] tail st = (.val (.some v), st') → v.isErr = false) ∧
    (builtin (n + 1) cfg fr "push" [a, x] tail st = (.val (.arr ws), st') →
      ∃ vs w, ws = vs ++ [w] ∧ w.isErr = false) := by
  refine ⟨?_, ?_, ?_⟩
  · intro h
    simp only [eval] at h
    split at h
    · cases h
    · rename_i w s1 hne _
      simp only [Prod.mk.injEq, Res.val.injEq, Val.variant.injEq] at h
      obtain ⟨⟨_, rfl⟩, _⟩ := h
      cases w <;> simp_all [Val.isErr]
    · cases h
    · rename_i _ hv _
      exact absurd (hv _ _ h) id
  · intro h
    rw [builtin_strict (by decide)] at h
    unfold strictCall at h
    simp only [show isStrictPrim "some" = true by decide, if_true] at h
    split at h
    · rename_i vs s1 heq
      have hno := evalList_ok_noErr _ _ _ _ _ _ _ heq
      match vs, h, hno with
      | [w], h, hno =>
        simp only [prim, Prod.mk.injEq, Res.val.injEq, Val.some.injEq] at h
        obtain ⟨rfl, _⟩ := h
        exact hno _ (by simp)
      | [], h, _ => simp [prim] at h
      | _ :: _ :: _, h, _ => simp [prim] at h
    · rename_i r s1 heq
      simp only [Prod.mk.injEq] at h
      obtain ⟨rfl, _⟩ := h
      exact absurd heq (fun hh => evalList_error_not_value _ _ _ _ _ _ _ hh (by simp [Val.isErr]))
  · intro h
    rw [builtin_strict (by decide)] at h
    unfold strictCall at h
    simp only [show isStrictPrim "push" = true by decide, if_true] at h
    split at h
    · rename_i vs s1 heq
      have hno := evalList_ok_noErr _ _ _ _ _ _ _ heq
      match vs, h, hno with
      | [.arr us, w], h, hno =>
        simp only [prim, Prod.mk.injEq, Res.val.injEq, Val.arr.injEq] at h
        exact ⟨us, w, h.1.symm, hno _ (by simp)⟩
      | [], h, _ => simp [prim] at h
      | [_], h, _ => simp [prim] at h
      | _ :: _ :: _ :: _, h, _ => simp [prim] at h
      | [.int _, _], h, _ => simp [prim] at h
      | [.bool _, _], h, _ => simp [prim] at h
      | [.str _, _], h, _ => simp [prim] at h
      | [.tup _, _], h, _ => simp [prim] at h
      | [.clos .., _], h, _ => simp [prim] at h
      | [.err _, _], h, _ => simp [prim] at h
      | [.variant .., _], h, _ => simp [prim] at h
      | [.some _, _], h, _ => simp [prim] at h
      | [.none, _], h, _ => simp [prim] at h
    · rename_i r s1 heq
      simp only [Prod.mk.injEq] at h
      obtain ⟨rfl, _⟩ := h
      exact absurd heq (fun hh => evalList_error_not_value _ _ _ _ _ _ _ hh (by simp [Val.isErr]))


/-- An evaluation that was not offered the tail slot never returns a tail call, and argument lists,
defaults, declarations, calls of function values and whole programs never do — in the extended
evaluator too (in particular the callback call of `map_or` and the payload / member-access
positions), so every `unwrap_value` of the interpreter is applied to a value. -/
theorem tail_never_escapes_x (fuel : Nat) (cfg : Cfg) (fr : Frame) (st : St) (a : List Val) :
    (∀ e, (eval fuel cfg fr e false st).1 ≠ .tail a) ∧
    (∀ f args, (builtin fuel cfg fr f args false st).1 ≠ .tail a) ∧
    (∀ c args tail, (callVal fuel cfg fr c args tail st).1 ≠ .tail a) ∧
    (∀ h c vs, (callUser fuel cfg h c vs st).1 ≠ .tail a) ∧
    (∀ es, (evalList fuel cfg fr es st).1 ≠ .error (.tail a)) ∧
    (∀ ds, (runProgram fuel cfg ds).1 ≠ .error (.tail a)) := by
  have H := noTailAt cfg fuel
  refine ⟨?_, ?_, ?_, ?_, ?_, ?_⟩
  · intro e; exact (Res.isTail_false_iff _).mp (H.eval fr e false st (by simp)) a
  · intro f args; exact (Res.isTail_false_iff _).mp (H.builtin fr f args false st (by simp)) a
  · intro c args tail; exact (Res.isTail_false_iff _).mp (H.callVal fr c args tail st) a
  · intro h c vs; exact (Res.isTail_false_iff _).mp (H.callUser h c vs st) a
  · intro es h; have := H.evalList fr es st; rw [h] at this; simp [exNoTail] at this
  · intro ds h; have := H.evalDecls { env := [], self := none, height := 0 } ds {}
    rw [runProgram] at h; rw [h] at this; simp [exNoTail] at this

end XrayModel.C06


/-! # The two models agree on the old fragment -/
namespace XrayModel.C06
open XrayModel XrayModel.Conservative

/-- The extended evaluator is conservative over the core evaluator: for every expression `e` of the
old language (every `Core.Expr`; `embE` embeds it — no new constructor occurs), every frame,
configuration, state, tail flag and fuel, if the old model's outcome is anything but `stuck`
(a value, an error value, a violation, a tail request, out of fuel), the extended model gives the
same outcome and the same state on the embedded input; likewise for a whole program.  (`stuck` has
to be excluded: `some(1)` is an unknown function for the old model and a value for the extended one
— see the example below.) -/
theorem corex_conservative (fuel : Nat) (cfg : Core.Cfg) :
    (∀ fr e tail st r s', Core.eval fuel cfg fr e tail st = (r, s') → r.isStuck = false →
      CoreX.eval fuel (embCfg cfg) (embFr fr) (embE e) tail (embSt st) = (embR r, embSt s')) ∧
    (∀ ds x s', Core.runProgram fuel cfg ds = (x, s') → exStuck x = false →
      CoreX.runProgram fuel (embCfg cfg) (embDs ds) = (embXF x, embSt s')) := by
  refine ⟨fun fr e tail st r s' h hne => (consAt fuel).eval h hne, fun ds x s' h hne => ?_⟩
  exact (consAt fuel).evalDecls (fr := { env := [], self := none, height := 0 }) (st := {}) h hne

/-- the exclusion is needed: `some(1)` -/
example : Core.eval 5 {} { env := [], self := none, height := 0 } (.call "some" [.int 1]) false {}
      = (.stuck "unknown function some", {}) ∧
    CoreX.eval 5 {} { env := [], self := none, height := 0 } (embE (.call "some" [.int 1])) false {}
      = (.val (.some (.int 1)), {}) := ⟨rfl, rfl⟩

end XrayModel.C06
