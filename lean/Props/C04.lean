/-
C04 — Static checking accepts exactly the assignable programs.
Property theorems only.  The model (`XrayModel/Types.lean`) mirrors `src/xtype.rs` and the call/position
checks of `compilation_scope.rs` / `parser.rs`; the documented relation `Sub s r` ("a value of type `s` may be
used where `r` is required": identical types, the bottom type into anything, tuples / natives / compounds
component- and name-wise, function types by exact arity and component types) and the fragments `declarable`
(what can be written as a type: no `unknown`, no `XFunc`) and `wfTy ar` (every type name used with its number of
parameters) are defined in `XrayProofs/Types.lean`.
-/
import XrayProofs.Types
namespace XrayModel.C04
open XrayModel

/-- **accept ⇔ assignable** at the heart of every position: `bind_in_assignment` succeeds with an empty binding
exactly when the supplied type is assignable to the (written) required type. -/
theorem bind_empty_iff_assignable (ar : String → Nat) (r s : Ty)
    (hd : declarable r = true) (hr : wfTy ar r = true) (hs : wfTy ar s = true) :
    bindIn r s = some [] ↔ Sub s r :=
  bindIn_nil_iff ar r s hd hr hs

/-- `let v: R = e`, `fn f(..)->R { e }` and `fn f(p: R ?= e)` are accepted exactly when the type of `e` is
assignable to `R` (generic parameters in scope are opaque there: nothing may be bound). -/
theorem accept_iff (ar : String → Nat) (pos : Pos) (hp : pos.requiresEmpty = true) (r s : Ty)
    (hd : declarable r = true) (hr : wfTy ar r = true) (hs : wfTy ar s = true) :
    accepts pos r s = true ↔ Sub s r := by
  rw [← bindIn_nil_iff ar r s hd hr hs]
  cases pos <;> simp [Pos.requiresEmpty] at hp <;> simp only [accepts] <;>
    (cases h : bindIn r s with
     | none => simp
     | some b => cases b <;> simp)

/-- non-vacuity of `accept_iff`: an empty sequence literal is accepted where `Sequence<int>` is declared, a
`Sequence<float>` is not -/
example : accepts .letDecl (.native "Sequence" [.int]) (.native "Sequence" [.unknown]) = true ∧
    accepts .letDecl (.native "Sequence" [.int]) (.native "Sequence" [.float]) = false := by decide

/-- the bottom type (errors, elements of empty containers) is assignable to every type, binding nothing -/
theorem bottom_into_anything (r : Ty) : bindIn r .unknown = some [] := by
  cases r <;> simp [bindIn]

/-- identical (written) types are assignable -/
theorem identical_accepted (ar : String → Nat) (r : Ty) (hd : declarable r = true) (hr : wfTy ar r = true) :
    bindIn r r = some [] :=
  (bindIn_nil_iff ar r r hd hr hr).mpr (sub_refl r hd)

/-- **generic parameters are bound consistently**: mixing two bindings succeeds exactly with, at every generic
parameter, the common type of what the two sides bound it to (`joinAt`: absent on one side → the other side's type;
present on both → their `common_type`, failure if there is none) -/
theorem mix_consistent (self other res : Bnd) (hnd : (other.map Prod.fst).Nodup)
    (h : mix self other = some res) (k : String) :
    joinAt (Bnd.get self k) (Bnd.get other k) = some (Bnd.get res k) :=
  mix_get self other res hnd h k

/-- the bottom type is the unit of `common_type` (an empty container literal takes the type of the other side) -/
theorem commonType_unknown (a : Ty) : commonType a .unknown = some a ∧ commonType .unknown a = some a :=
  ⟨commonType_unknown_right a, commonType_unknown_left a⟩

/-- non-vacuity: `T := Optional<unknown>` mixed with `T := Optional<int>` is `T := Optional<int>`; with `T := str` it fails -/
example : mix [("T", .native "Optional" [.unknown])] [("T", .native "Optional" [.int])] = some [("T", .native "Optional" [.int])] ∧
    mix [("T", .native "Optional" [.unknown])] [("T", .str)] = none := ⟨rfl, rfl⟩

/-- `common_type` does not depend on the order of its arguments (types of expressions that are not function names) -/
theorem commonType_comm (a b : Ty) (ha : funcFree a = true) (hb : funcFree b = true) :
    commonType a b = commonType b a :=
  commonType_comm' a b ha hb

/-- **inferred types are least common types**: when `common_type` succeeds its result is an upper bound of both
types for the assignability order `Sub`, and it is below every other upper bound -/
theorem commonType_lub (ar : String → Nat) (a b c : Ty) (ha : good ar a) (hb : good ar b)
    (h : commonType a b = some c) :
    Sub a c ∧ Sub b c ∧ ∀ d, Sub a d → Sub b d → Sub c d :=
  ⟨(commonType_ub' ar a b c ha hb h).2.1, (commonType_ub' ar a b c ha hb h).2.2,
   fun d h1 h2 => commonType_least' a b c d h h1 h2⟩

/-- non-vacuity: `[P(none(), [1]), P(some(1), [])]` (the repaired witness): the common type joins argument-wise -/
example : commonType (.compound .struct "P" [.native "Optional" [.unknown], .native "Sequence" [.int]])
      (.compound .struct "P" [.native "Optional" [.int], .native "Sequence" [.unknown]]) =
    some (.compound .struct "P" [.native "Optional" [.int], .native "Sequence" [.int]]) := rfl

/-- **soundness with generics** (`bind_sound`): whenever `bind_in_assignment` succeeds on a written required type `r`
and a fully known supplied type `s` (no XFunc, no generic parameter; `unknown` allowed), the supplied type is assignable
to `r` instantiated with the binding found — whatever was bound, at every depth. `subst` substitutes everywhere. -/
theorem bind_sound (ar : String → Nat) (r s : Ty) (b : Bnd) (hd : declarable r = true) (hr : wfTy ar r = true)
    (hg : ground s = true) (hw : wfTy ar s = true) (h : bindIn r s = some b) : Sub s (subst b r) :=
  (bindIn_sound ar r s b hd hr hg hw h).2

/-- the same for a function name supplied where a function type is required (arity window, parameters, return type) -/
theorem bind_sound_function_name (ar : String → Nat) (ps : List Ty) (r : Ty) (g : Option (List String))
    (ps' : List Ty) (n' : Nat) (r' : Ty) (b : Bnd)
    (hd : declarable (.callable ps r) = true) (hr : wfTy ar (.callable ps r) = true)
    (hgp : groundList ps' = true) (hgr : ground r' = true) (hw : wfTy ar (.func g ps' n' r') = true)
    (h : bindIn (.callable ps r) (.func g ps' n' r') = some b) :
    Sub (.func g ps' n' r') (subst b (.callable ps r)) :=
  bindIn_sound_func ar ps r g ps' n' r' b hd hr hgp hgr hw h

/-- **generic parameters are bound consistently over all arguments**: when a call binds, *one* binding makes every
argument assignable to its instantiated parameter -/
theorem specBind_sound (ar : String → Nat) (f : FuncSpec) (args : List Ty) (b : Bnd)
    (hd : declarableList f.ps = true) (hr : wfList ar f.ps = true)
    (hg : groundList args = true) (hw : wfList ar args = true) (h : specBind f args = some b) :
    SubList args (substList b (f.ps.take args.length)) :=
  specBind_sound' ar f args b hd hr hg hw h

/-- the same for struct construction: one binding of the struct's generic parameters fits every field -/
theorem compoundBind_sound (ar : String → Nat) (fields args : List Ty) (b : Bnd)
    (hd : declarableList fields = true) (hr : wfList ar fields = true)
    (hg : groundList args = true) (hw : wfList ar args = true) (h : compoundBind fields args = some b) :
    SubList args (substList b fields) :=
  compoundBind_sound' ar fields args b hd hr hg hw h

/-- **argument, field and variant-payload positions**: an accepted supplied type is assignable to the required type
under some instantiation of the receiving declaration's generic parameters -/
theorem accept_generic_sound (ar : String → Nat) (pos : Pos) (hp : pos.requiresEmpty = false) (r s : Ty)
    (hd : declarable r = true) (hr : wfTy ar r = true) (hg : ground s = true) (hw : wfTy ar s = true)
    (h : accepts pos r s = true) : ∃ b, Sub s (subst b r) := by
  cases pos <;> simp [Pos.requiresEmpty] at hp <;> simp only [accepts, Option.isSome_iff_exists] at h <;>
    obtain ⟨b, hb⟩ := h
  · have := specBind_sound' ar { gens := none, ps := [r], nreq := 1, ret := .int } [s] b
      (by simp [declarableList, hd]) (by simp [wfList, hr]) (by simp [groundList, hg]) (by simp [wfList, hw]) hb
    simp only [List.length_cons, List.length_nil, List.take_succ_cons, List.take_zero, substList] at this
    cases this with | cons h1 _ => exact ⟨b, h1⟩
  · have := compoundBind_sound' ar [r] [s] b
      (by simp [declarableList, hd]) (by simp [wfList, hr]) (by simp [groundList, hg]) (by simp [wfList, hw]) hb
    simp only [substList] at this
    cases this with | cons h1 _ => exact ⟨b, h1⟩
  · exact ⟨b, (bindIn_sound ar r s b hd hr hg hw hb).2⟩

/-- **completeness and minimality** (`bind_complete`): if *some* instantiation `σ` of the generic parameters makes a
fully known data type `s` (no function type, no generic parameter; `unknown` allowed) assignable to `r`, then
`bind_in_assignment` succeeds, and the binding it returns is the least one: every parameter it binds is bound by `σ`
to a type above (`Sub`) the one found — the inferred binding is the least common type of what the parameter met. -/
theorem bind_complete (σ : Bnd) (r s : Ty) (hd : data s = true) (h : Sub s (subst σ r)) :
    ∃ b, bindIn r s = some b ∧ ble b σ := by
  obtain ⟨b, hb, h1, _⟩ := bindIn_complete σ r s hd h
  exact ⟨b, hb, bleM_ble h1⟩

/-- **argument, field and variant-payload positions accept exactly the assignable**: a fully known data value is
accepted where `r` is required iff some instantiation of the receiving declaration's generic parameters makes its type
assignable to `r` -/
theorem accept_generic_iff (ar : String → Nat) (pos : Pos) (hp : pos.requiresEmpty = false) (r s : Ty)
    (hdr : declarable r = true) (hr : wfTy ar r = true) (hd : data s = true) (hw : wfTy ar s = true) :
    accepts pos r s = true ↔ ∃ σ, Sub s (subst σ r) := by
  constructor
  · exact accept_generic_sound ar pos hp r s hdr hr (data_ground s hd) hw
  · rintro ⟨σ, h⟩
    obtain ⟨b, hb, h1, h2⟩ := bindIn_complete σ r s hd h
    cases pos <;> simp [Pos.requiresEmpty] at hp
    · -- argument: `XFuncSpec::bind` of a one-parameter function
      obtain ⟨res, hm, _, _⟩ := mix_complete σ [] b (bleM_nil σ) h1 bdata_nil h2
      simp [accepts, specBind, bindZip, hb, hm]
    · -- field: `XCompoundSpec::bind` of a one-field struct
      obtain ⟨res, hm, _, _⟩ := mix_complete σ [] b (bleM_nil σ) h1 bdata_nil h2
      simp [accepts, compoundBind, compoundBindLoop, hb, hm]
    · simp [accepts, hb]

/-- non-vacuity of `specBind_sound`: `fn f<T>(a: T, b: Optional<T>)` called with `(Sequence<unknown>, Optional<Sequence<int>>)`
binds `T := Sequence<int>` -/
example : specBind { gens := some ["T"], ps := [.generic "T", .native "Optional" [.generic "T"]], nreq := 2, ret := .int }
      [.native "Sequence" [.unknown], .native "Optional" [.native "Sequence" [.int]]] =
    some [("T", .native "Sequence" [.int])] := rfl

/-- **the inferred type of a generic call has no free generic parameter of the callee** (`rtype_closed`): every generic
parameter `g` of the called function is gone from the result type — replaced by what the arguments bound it to, or by the
bottom type when it met nothing but the bottom type — provided the argument types do not mention `g` themselves (a
recursive call inside the generic function) and neither do the bound types. Holds whether or not OTHER generic parameters
of the same call were bound. -/
theorem rtype_closed (gens : List String) (ret : Ty) (b : Bnd) (args : List Ty) (g : String)
    (hg : g ∈ gens) (hret : declarable ret = true) (hargs : mentionsGenericList g args = false) (hb : BNoGen g b) :
    mentionsGeneric g (rtypeForCall (some gens) ret b args) = false :=
  rtypeForCall_closed gens ret b args g hg hret hargs hb

/-- non-vacuity: `fn pair<A,B>(a: Sequence<A>, b: Sequence<B>) -> (Sequence<A>, Sequence<B>)` called as `pair([1], [])`:
`A` is bound, `B` met only the bottom type and is completed to it -/
example : typeOfCall (.func (some ["A", "B"]) [.native "Sequence" [.generic "A"], .native "Sequence" [.generic "B"]] 2
      (.tuple [.native "Sequence" [.generic "A"], .native "Sequence" [.generic "B"]]))
      [.native "Sequence" [.int], .native "Sequence" [.unknown]] =
    .ok (.tuple [.native "Sequence" [.int], .native "Sequence" [.unknown]]) := rfl

/-- a call binds only when the number of arguments lies in the window [required, all parameters] -/
theorem specBind_arity (f : FuncSpec) (args : List Ty) (b : Bnd) (h : specBind f args = some b) :
    f.nreq ≤ args.length ∧ args.length ≤ f.ps.length := by
  unfold specBind at h
  split at h
  · cases h
  · rename_i hc; simp only [Bool.or_eq_true, decide_eq_true_eq, not_or, Nat.not_lt] at hc; exact hc

/-- function types are assignable to function types only at exactly the same arity (whatever is bound) -/
theorem callable_exact_arity (ps ps' : List Ty) (r r' : Ty) (b : Bnd)
    (h : bindIn (.callable ps r) (.callable ps' r') = some b) : ps.length = ps'.length :=
  bindIn_callable_callable ps ps' r r' b h

/-- a call through a function-typed value type-checks only with exactly as many arguments as the type has
parameters, and then has the declared return type -/
theorem call_callable_exact (ps : List Ty) (r : Ty) (args : List Ty) (t : Ty)
    (h : typeOfCall (.callable ps r) args = .ok t) : args.length = ps.length ∧ t = r := by
  simp only [typeOfCall] at h
  split at h
  · cases h
  · rename_i hl
    split at h
    · cases h; exact ⟨by simpa using hl, rfl⟩
    · cases h

/-- **calls through function-typed values are checked exactly**: `f(a1, …, an)` for `f : (P1, …, Pn) -> (R)` is
accepted iff there are exactly `n` arguments and each is assignable to its parameter type (generic parameters in
the `Pi` are rigid: nothing may be bound) -/
theorem call_callable_iff (ar : String → Nat) (ps : List Ty) (r : Ty) (args : List Ty)
    (hd : declarableList ps = true) (hr : wfList ar ps = true) (hw : wfList ar args = true) :
    typeOfCall (.callable ps r) args = .ok r ↔ args.length = ps.length ∧ SubList args ps := by
  simp only [typeOfCall]
  by_cases hl : args.length = ps.length
  · simp only [hl, bne_self_eq_false, Bool.false_eq_true, if_false, true_and]
    rw [← callableArgs_iff ar ps args hd hr hw hl.symm]
    cases callableArgs ps args <;> simp
  · have : ¬ SubList args ps := fun h => hl h.length_eq
    simp [hl, this]

/-- a call through a variable holding a function respects the function's arity window -/
theorem call_func_window (g : Option (List String)) (ps : List Ty) (n : Nat) (r : Ty) (args : List Ty) (t : Ty)
    (h : typeOfCall (.func g ps n r) args = .ok t) : n ≤ args.length ∧ args.length ≤ ps.length := by
  simp only [typeOfCall] at h
  split at h
  · cases h
  · rename_i hc; simp only [Bool.or_eq_true, decide_eq_true_eq, not_or, Nat.not_lt] at hc; exact hc

/-- the witness of the repaired defect, on the model: `f("a")` for `f: (int)->(int)` is an argument type error,
`f(1, 2)` an arity error -/
example : typeOfCall (.callable [.int] .int) [.str] = .error .invalidArgumentType ∧
    typeOfCall (.callable [.int] .int) [.int, .int] = .error .callableBindingFailed ∧
    typeOfCall (.callable [.int] .int) [.int] = .ok .int := ⟨rfl, rfl, rfl⟩

end XrayModel.C04
