/-
C04 — Static checking accepts exactly the assignable programs.
Property theorems only; helper lemmas live in XrayProofs/Types.lean.
-/
import XrayProofs.Types
namespace XrayModel.C04
open XrayModel

/-- a call binds only when the number of arguments lies in the window [required, all parameters] -/
theorem specBind_arity (f : FuncSpec) (args : List Ty) (b : Bnd) (h : specBind f args = some b) :
    f.nreq ≤ args.length ∧ args.length ≤ f.ps.length := by
  unfold specBind at h
  split at h
  · cases h
  · rename_i hc; simp only [Bool.or_eq_true, decide_eq_true_eq, not_or, Nat.not_lt] at hc; exact hc

/-- function types are assignable to function types only at exactly the same arity -/
theorem callable_exact_arity (ps ps' : List Ty) (r r' : Ty) (b : Bnd)
    (h : bindIn (.callable ps r) (.callable ps' r') = some b) : ps.length = ps'.length :=
  bindIn_callable_callable ps ps' r r' b h

end XrayModel.C04
